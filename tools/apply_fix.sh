#!/bin/bash
# tools/apply_fix.sh <diff> <property> <subject> <body> <what-failed>
set -e
d=$(realpath $1); prop=$2; subj=$3; body=$4; what=$5
cd /repo
git apply --check $d
git apply $d
git commit -qam "fix: $subj

$body"
h=$(git rev-parse --short HEAD)
echo "fixed: property=$prop $h $what" >> /verif/known_findings.jsonl
echo "committed $h: $subj"
