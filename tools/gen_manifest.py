#!/usr/bin/env python3
"""Regenerate MANIFEST.json from checks.d/*.json (claimed) and tools/not_applicable.json (reasons for the rest)."""
import json, glob, os
V = os.path.dirname(os.path.dirname(os.path.abspath(__file__)))
ids = [json.loads(l)["id"] for l in open(os.path.join(V, "properties.jsonl"))]
na_reasons = {}
p = os.path.join(V, "tools", "not_applicable.json")
if os.path.exists(p):
    na_reasons = json.load(open(p))
checks, claimed = [], set()
# tools/claimed.txt: ids reviewed by the coordinator and registered in MANIFEST.json (one per line)
allow = None
cp = os.path.join(V, "tools", "claimed.txt")
if os.path.exists(cp):
    allow = set(l.strip() for l in open(cp) if l.strip() and not l.startswith("#"))
for f in sorted(glob.glob(os.path.join(V, "checks.d", "*.json"))):
    s = json.load(open(f))
    pid = s["property"]
    if s.get("disabled") or (allow is not None and pid not in allow):
        continue
    claimed.add(pid)
    c = {"property_id": pid,
         "quick_cmd": "./check %s --tier quick" % pid,
         "thorough_cmd": "./check %s --tier thorough" % pid,
         "evidence_file": "/verif/evidence/%s.json" % pid,
         "replay_cmd_template": "./check %s --replay {path}" % pid,
         "engine": "mcx",
         "level_claimed": {"category": s["level"], "text": s.get("level_text", s.get("rule", "")), "design_ref": s.get("design_ref", "DESIGN.md section 3, " + pid)},
         "level_note": s.get("level_note", "; ".join(s.get("assumptions", []))),
         "technique": s.get("technique", "bounded exhaustive exploration of the real code")}
    checks.append(c)
m = {"version": 1, "setup_cmd": "./check --setup",
     "hooks": {"guard": "LIBEVENT_VERIF",
               "enable": "no source hooks exist: checks compile /repo sources directly (no NDEBUG, ASan) and use link-time --wrap, the evthread/mem callback seams and #include of .c files",
               "baseline_off_cmd": "cmake --build /repo/_build && ctest --test-dir /repo/_build -j8 --timeout 900 -E regress",
               "source_commits": [], "add_only": True},
     "engines": [{"name": "mcx", "path": "/verif/mcx", "serves_properties": sorted(claimed),
                  "kind_free_text": "stateless/explicit-state bounded explorer over the real libevent code: odometer DFS over choice vectors (operation histories, environment answers, fault positions, segmentations, thread schedules) with deviation-cost bounds, canonical-state pruning, forked workers, replay of every failure twice before it is reported"}],
     "checks": checks,
     "notes": "Every check rebuilds the libevent sources it needs from $VERIF_REPO (default /repo) with ASan and without NDEBUG, explores a stated finite space exhaustively and writes /verif/evidence/<id>.json. Known unrepaired defects are listed in /verif/known_findings.jsonl.",
     "not_applicable": [{"property_id": i, "reason": na_reasons.get(i, "check not built yet (work in progress; DESIGN.md section 3 describes the planned bounded exploration)")} for i in ids if i not in claimed]}
json.dump(m, open(os.path.join(V, "MANIFEST.json"), "w"), indent=1)
print("claimed", len(claimed), "not_applicable", len(ids) - len(claimed))
