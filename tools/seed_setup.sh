#!/bin/bash
# tools/seed_setup.sh <ID> <n>: create worktree /tmp/seed-<ID>-<n> of /repo HEAD with INSTRUCTIONS.md
ID=$1; N=${2:-1}; W=/tmp/seed-$ID-$N
git -C /repo worktree add --detach $W HEAD >/dev/null 2>&1 || { echo "worktree failed for $W"; exit 1; }
/verif/tools/seed_prompt.py $ID $N > $W/INSTRUCTIONS.md
echo $W
