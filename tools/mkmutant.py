#!/usr/bin/env python3
"""tools/mkmutant.py <name> <repo-file> <<< 'OLD\n====\nNEW'  -> mutants/<name>.diff (unique match required)"""
import sys, subprocess, tempfile, os
name, f = sys.argv[1], sys.argv[2]
old, new = sys.stdin.read().split("\n====\n")
new = new.rstrip("\n") if not old.endswith("\n") else new
src = open("/repo/" + f).read()
if src.count(old) != 1:
    sys.exit("mkmutant: pattern occurs %d times" % src.count(old))
with tempfile.NamedTemporaryFile("w", delete=False) as t:
    t.write(src.replace(old, new))
r = subprocess.run(["diff", "-u", "--label", "a/" + f, "--label", "b/" + f, "/repo/" + f, t.name], stdout=subprocess.PIPE, text=True)
os.unlink(t.name)
out = sys.argv[3] if len(sys.argv) > 3 else "/verif/mutants/%s.diff" % name
open(out, "w").write(r.stdout)
print("wrote", out, len(r.stdout.splitlines()), "lines")
