#!/bin/bash
# tools/selftest_one.sh <mutant.diff>: one line "<mutant>\t<ID>\trc=<rc>\t<keys>" (rc=1 = caught by the quick tier)
cd /verif
m=$1; b=$(basename $m .diff); id=${b%%-*}
[ -f checks.d/$id.json ] || { echo -e "$b\t$id\tno-check"; exit 0; }
out=$(mktemp -d /tmp/selftest_out.XXXXXX)
log=$(VERIF_OUT=$out tools/with_patch.sh $m ./check $id --tier quick 2>&1); rc=$?
keys=$(echo "$log" | grep -E "^  key=" | sed 's/  key=//' | tr '\n' ',' )
rm -rf $out
echo -e "$b\t$id\trc=$rc\t$keys"
