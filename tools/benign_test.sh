#!/bin/bash
# tools/benign_test.sh [name-prefix...]: property-preserving changes (benign/*.diff: tunables, sizes, defaults that no
# property mentions) must NOT make any check alarm.  One line per (patch, check): rc must be 0.
cd /verif
out=notes/benign_results.tsv; [ $# -eq 0 ] && : > $out
while IFS=$'\t' read -r name ids; do
  if [ $# -gt 0 ]; then ok=0; for p in "$@"; do case $name in $p*) ok=1;; esac; done; [ $ok = 1 ] || continue; fi
  for id in $ids; do
    o=$(mktemp -d /tmp/benign_out.XXXXXX)
    log=$(VERIF_OUT=$o tools/with_patch.sh benign/$name.diff ./check $id --tier quick 2>&1); rc=$?
    keys=$(echo "$log" | grep -E "^  key=" | sed 's/  key=//' | tr '\n' ',')
    ex=$(echo "$log" | grep -oE "exhaustive=[A-Za-z]+" | tail -1)
    echo -e "$name\t$id\trc=$rc\t$ex\t$keys" | tee -a $out
    rm -rf $o
  done
done < benign/MAP.tsv
