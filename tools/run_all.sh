#!/bin/bash
# tools/run_all.sh <tier> [ids...]: run claimed checks sequentially on /repo, table in notes/run_all_<tier>.tsv
cd /verif
tier=${1:-quick}; shift
ids="$*"; [ -z "$ids" ] && ids=$(cat tools/claimed.txt)
out=notes/run_all_$tier.tsv; : > $out
for id in $ids; do
  s=$(date +%s)
  log=$(./check $id --tier $tier 2>&1); rc=$?
  e=$(( $(date +%s) - s ))
  line=$(echo "$log" | grep -E "^check $id" | tail -1)
  viol=$(echo "$log" | grep -c "^VIOLATION")
  known=$(echo "$log" | grep -c "^KNOWN-FINDING")
  echo -e "$id\trc=$rc\t${e}s\tviol=$viol\tknown=$known\t$line" | tee -a $out
  [ $rc -ne 0 ] && echo "$log" | grep -E "VIOLATION|key=|BUILD|error" | head -20 >> notes/run_all_${tier}_failures.log
done
