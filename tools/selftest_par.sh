#!/bin/bash
# tools/selftest_par.sh [lanes] [workers-per-lane]: all mutants, several at a time; evidence of the real tree is not touched
cd /verif
lanes=${1:-4}; w=${2:-4}
ls mutants/*.diff | VERIF_WORKERS=$w xargs -P $lanes -n 1 tools/selftest_one.sh > notes/selftest_results.tsv.new
sort notes/selftest_results.tsv.new > notes/selftest_results.tsv; rm -f notes/selftest_results.tsv.new
awk -F'\t' '{c[$3]++} END {for (k in c) print k, c[k]}' notes/selftest_results.tsv
