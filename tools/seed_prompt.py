#!/usr/bin/env python3
"""print the prompt for a seeded-mutation sub-agent: tools/seed_prompt.py C09 [n]"""
import json, sys
pid = sys.argv[1]; n = sys.argv[2] if len(sys.argv) > 2 else "1"
p = [json.loads(l) for l in open('/verif/properties.jsonl') if json.loads(l)['id'] == pid][0]
wt = "/tmp/seed-%s-%s" % (pid, n)
print(f"""You are testing how robust a C library's safety net is. You work ONLY inside the git worktree {wt} (a checkout of the libevent source tree at a pinned commit; it is yours alone). Do not read, list or touch /verif or /repo or other /tmp/seed-* directories.

Property of libevent that is supposed to always hold:

  Title: {p['title']}
  Statement: {p['statement']}
  Must hold over: {p['quantifier']['text']}
  Relevant files: {', '.join(p['anchors']['files'])}

Your task: make ONE small, realistic change to the libevent sources in {wt} (the kind of slip a maintainer could make in a refactoring or optimisation: an off-by-one, a dropped bookkeeping update, a reordered pair of statements, a missing check on one path, a wrong constant, a stale cached value, two sites that each look fine alone) that BREAKS this property, while the tree still compiles and the project's existing test suite still passes. Prefer a change that needs something specific to manifest — a particular interleaving, a fault at a particular point, a multi-step sequence of operations, an unusual input, a boundary value — not one that ordinary use would expose at once. Do not add new files to the library, do not change tests, do not make the change conditional on environment variables or magic values put there only to hide it.

Steps:
1. Read the relevant code in {wt}. Build: `cmake -G Ninja -S {wt} -B {wt}/_build -DEVENT__DISABLE_BENCHMARK=ON -DEVENT__DISABLE_SAMPLES=ON > /dev/null && cmake --build {wt}/_build -j8 > /dev/null` (offline; all dependencies are installed).
2. Make the change. Rebuild. Run the existing suite exactly like this and make sure everything except the tests named regress* passes (regress* tests fail in this sandbox even without any change and are excluded): `ctest --test-dir {wt}/_build -j8 --timeout 900 -E regress 2>&1 | tail -15`.
3. Write a demonstration: a small C program (or shell script driving one) under {wt}/demo/ that uses the library's API (or includes an internal header / .c file if needed), exits 0 on the unmodified tree and non-zero (with a message saying what went wrong) on the modified tree. Include demo/run.sh that builds and runs it against {wt}/_build (e.g. gcc -I{wt}/include -I{wt}/_build/include demo.c {wt}/_build/lib/libevent.a ... -lpthread; check which libs exist under _build/lib). Verify both directions yourself: run it with your change (must fail); then save the patch (step 4), remove the change with `git -C {wt} apply -R {wt}/patch.diff`, rebuild, run the demo (must pass); then re-apply with `git -C {wt} apply {wt}/patch.diff` and rebuild. Never use git stash, commit, or branch commands.
4. Save the source change as {wt}/patch.diff (`git -C {wt} diff -- . ':!demo' ':!patch.diff' ':!INSTRUCTIONS.md' > {wt}/patch.diff`; it must contain only library source changes).
5. Final report (short): what you changed and why it breaks the property; what it needs to manifest; the exact commands you ran for the test suite and their summary line; how the demo behaves with/without the change.

Work autonomously; do not ask questions. If your first idea is caught by the existing tests, pick another.""" + (
"" if n == "1" else """

Additional rule for this round: do NOT pick the most obvious mechanism. First list (for yourself) the distinct mechanisms / functions in the relevant files on which the property depends, then choose one of the LESS central ones (an error path, a rarely used option or flag, a second backend or object type, a boundary case of a helper) — something a reviewer would be less likely to think of first."""))
