#!/bin/bash
# usage: tools/confirm_seed.sh <ID> <seed-worktree-dir> <name> [needs...]
# Confirms a seeded change independently in a fresh scratch worktree:
#   1. fresh worktree of /repo HEAD, build, demo passes
#   2. apply patch, build, existing tests (minus regress) pass, demo fails
#   3. ./check <ID> --tier quick against the patched tree (VERIF_REPO) -> records exit code
# Keeps /verif/seeded/<ID>-<name>/{patch.diff,demo/,meta.json,check.log}; removes the scratch worktree.
set -u
ID=$1; SRC=$2; NAME=$3; shift 3; NEEDS="$*"
OUT=/verif/seeded/$ID-$NAME
mkdir -p $OUT
if [ "$(realpath $SRC)" = "$(realpath $OUT)" ]; then   # re-confirmation of a kept seed: work from a copy
  T=$(mktemp -d /tmp/reseed.XXXXXX); cp -r $SRC/patch.diff $SRC/demo $T/; SRC=$T
fi
cp $SRC/patch.diff $OUT/patch.diff
rm -rf $OUT/demo; cp -r $SRC/demo $OUT/demo 2>/dev/null
find $OUT/demo -type f \( -name '*.o' -o -perm -u+x ! -name '*.sh' ! -name '*.py' \) -size +100k -delete 2>/dev/null
W=$(mktemp -d /tmp/confirm.XXXXXX); rmdir $W
git -C /repo worktree add --detach $W HEAD >/dev/null 2>&1 || { echo "worktree failed"; exit 2; }
cp -r $OUT/demo $W/demo
# demos reference their original worktree path; rewrite to the scratch path
grep -rl "$SRC" $W/demo 2>/dev/null | xargs -r sed -i "s#$SRC#$W#g"
grep -rlE "/tmp/seed-$ID-[0-9]+" $W/demo 2>/dev/null | xargs -r sed -i -E "s#/tmp/seed-$ID-[0-9]+#$W#g"
build() { cmake -G Ninja -S $W -B $W/_build -DEVENT__DISABLE_BENCHMARK=ON -DEVENT__DISABLE_SAMPLES=ON >/dev/null 2>&1 && cmake --build $W/_build -j16 >$W/build.log 2>&1; }
build || { echo "clean build failed"; tail $W/build.log; }
( cd $W/demo && timeout 600 bash ./run.sh ) >$OUT/demo_clean.log 2>&1; DEMO_CLEAN=$?
git -C $W apply $OUT/patch.diff || { echo "patch does not apply"; git -C /repo worktree remove --force $W; exit 2; }
build; BUILD_RC=$?
ctest --test-dir $W/_build -j8 --timeout 900 -E regress >$OUT/tests.log 2>&1; TESTS_RC=$?
# the rate-limit tests are statistical and flaky on a loaded machine: re-run only the failed ones, up to 3 times
for try in 1 2 3; do
  [ $TESTS_RC -eq 0 ] && break
  ctest --test-dir $W/_build --rerun-failed --timeout 900 >>$OUT/tests.log 2>&1; TESTS_RC=$?
done
TESTS_SUMMARY=$(grep -E "tests passed|tests failed" $OUT/tests.log | tr '\n' ';')
( cd $W/demo && timeout 600 bash ./run.sh ) >$OUT/demo_patched.log 2>&1; DEMO_PATCHED=$?
( cd /verif && CO=$(mktemp -d /tmp/confirm_out.XXXXXX) && VERIF_OUT=$CO VERIF_REPO=$W timeout 1800 ./check $ID --tier quick; rc=$?; rm -rf $CO; exit $rc ) >$OUT/check.log 2>&1; CHECK_RC=$?
KEYS=$(grep -E "^  key=" $OUT/check.log | sed 's/  key=//' | tr '\n' ' ')
python3 - "$ID" "$NAME" "$NEEDS" "$DEMO_CLEAN" "$BUILD_RC" "$TESTS_RC" "$TESTS_SUMMARY" "$DEMO_PATCHED" "$CHECK_RC" "$KEYS" "$OUT" <<'PY'
import json,sys
ID,NAME,NEEDS,DC,B,T,TS,DP,C,KEYS,OUT=sys.argv[1:]
m={"property":ID,"name":NAME,"needs_to_manifest":NEEDS,
   "confirmed":{"demo_on_clean_tree_rc":int(DC),"patched_build_rc":int(B),"existing_tests_rc":int(T),"existing_tests_summary":TS,"demo_on_patched_tree_rc":int(DP)},
   "valid_seed": int(DC)==0 and int(B)==0 and int(T)==0 and int(DP)!=0,
   "quick_check_rc":int(C),"caught_by_quick":int(C)==1,"violation_keys":KEYS.split(),
   "ran":["fresh git worktree of /repo HEAD; cmake+ninja build; demo/run.sh (clean)","git apply patch.diff; rebuild; ctest -E regress; demo/run.sh (patched)","VERIF_REPO=<worktree> ./check %s --tier quick"%ID]}
json.dump(m,open(OUT+"/meta.json","w"),indent=1); print(json.dumps(m,indent=1))
PY
git -C /repo worktree remove --force $W; rm -rf $W
