#!/bin/bash
# Detection demonstration: every mutants/<ID>-*.diff must make `./check <ID> --tier quick` exit 1.
# usage: tools/selftest.sh [ID ...]   (default: all mutants);  writes notes/selftest_results.tsv
cd /verif
ids="$*"
out=notes/selftest_results.tsv
[ -z "$ids" ] && : > $out
for m in mutants/*.diff; do
  b=$(basename $m .diff); id=${b%%-*}
  if [ -n "$ids" ] && ! echo " $ids " | grep -q " $id "; then continue; fi
  [ -f checks.d/$id.json ] || { echo -e "$b\t$id\tno-check" | tee -a $out; continue; }
  log=$(tools/with_patch.sh $m ./check $id --tier quick 2>&1); rc=$?
  keys=$(echo "$log" | grep -E "^  key=" | sed 's/  key=//' | tr '\n' ',' )
  echo -e "$b\t$id\trc=$rc\t$keys" | tee -a $out
done
