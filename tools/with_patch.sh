#!/bin/bash
# usage: tools/with_patch.sh <patch.diff> <command...>
# Copies /repo (sources only) to a scratch dir outside /repo and /verif, applies the patch,
# runs the command with VERIF_REPO pointing at the copy, removes the copy. Exit code = command's.
set -u
patch=$(realpath "$1"); shift
tmp=$(mktemp -d /tmp/vrepo.XXXXXX)
rsync -a --exclude=_build --exclude=.git /repo/ "$tmp"/
if ! (cd "$tmp" && patch -p1 -s < "$patch"); then echo "with_patch: patch failed" >&2; rm -rf "$tmp"; exit 99; fi
VERIF_REPO="$tmp" "$@"
rc=$?
rm -rf "$tmp"
exit $rc
