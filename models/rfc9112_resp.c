/* RFC 9112 reference parser — see rfc9112_resp.h.  Plain libc malloc on purpose
 * (never event_mm_*), so that it does not disturb the allocation accounting
 * of the code under test. */
#include "rfc9112_resp.h"
#include <stdlib.h>
#include <string.h>

#define HUGE_LEN ((size_t)-1)

int r9_is_tchar(int c)
{
	if (c >= '0' && c <= '9') return 1;
	if (c >= 'a' && c <= 'z') return 1;
	if (c >= 'A' && c <= 'Z') return 1;
	return c && strchr("!#$%&'*+-.^_`|~", c) != NULL;
}
int r9_is_token(const uint8_t *s, size_t n)
{
	if (n == 0) return 0;
	for (size_t i = 0; i < n; i++) if (!r9_is_tchar(s[i])) return 0;
	return 1;
}
static int lc(int c) { return (c >= 'A' && c <= 'Z') ? c + 32 : c; }
static int ieq(const uint8_t *a, size_t n, const char *b)
{
	if (strlen(b) != n) return 0;
	for (size_t i = 0; i < n; i++) if (lc(a[i]) != lc((unsigned char)b[i])) return 0;
	return 1;
}
int r9_name_is(const struct r9_field *f, const char *name) { return ieq(f->name, f->nlen, name); }
const struct r9_field *r9_find(const struct r9_msg *m, const char *name)
{
	for (int i = 0; i < m->nf; i++) if (r9_name_is(&m->f[i], name)) return &m->f[i];
	return NULL;
}
static int is_ows(int c) { return c == ' ' || c == '\t'; }
static int is_digit(int c) { return c >= '0' && c <= '9'; }
static int hexval(int c)
{
	if (c >= '0' && c <= '9') return c - '0';
	if (c >= 'a' && c <= 'f') return c - 'a' + 10;
	if (c >= 'A' && c <= 'F') return c - 'A' + 10;
	return -1;
}

static void free_fields(struct r9_field *f, int *n)
{
	for (int i = 0; i < *n; i++) { free(f[i].val); f[i].val = NULL; }
	*n = 0;
}
void r9_msg_free(struct r9_msg *m)
{
	free_fields(m->f, &m->nf);
	free_fields(m->t, &m->nt);
	free(m->body); m->body = NULL; m->blen = 0;
}

/* One line starting at pos.  Returns 1 and sets [*ls,*le) (content without the
 * terminator) and *next; 0 when no LF has been seen yet. */
static int get_line(const uint8_t *b, size_t len, size_t pos, size_t *ls, size_t *le, size_t *next, unsigned *lat)
{
	const uint8_t *lf = len > pos ? memchr(b + pos, '\n', len - pos) : NULL;
	if (!lf) return 0;
	size_t e = (size_t)(lf - b);
	*next = e + 1;
	*ls = pos;
	if (e > pos && b[e - 1] == '\r') e--; else *lat |= R9_LAT_BARE_LF;
	*le = e;
	return 1;
}

/* Parse field lines up to and including the empty line.
 * returns R9_OK / R9_MORE / R9_REJECT; *pos advanced past the empty line on OK. */
static enum r9_result parse_fields(const uint8_t *b, size_t len, size_t *pos, struct r9_field *f, int *nf,
    struct r9_msg *m, int is_response, int trailer)
{
	size_t p = *pos, ls, le, nx;
	int first = 1;
	for (;;) {
		if (!get_line(b, len, p, &ls, &le, &nx, &m->lat)) { m->why = "incomplete header section"; return R9_MORE; }
		p = nx;
		if (le == ls) break;                                  /* empty line: end of section */
		if (is_ows(b[ls])) {
			/* obs-fold (or whitespace-preceded first line, 2.2: reject or consume) */
			if (*nf == 0 || first) { m->lat |= R9_LAT_FIELD_SYNTAX; first = 0; continue; }
			m->lat |= R9_LAT_OBS_FOLD;
			struct r9_field *fl = &f[*nf - 1];
			size_t s = ls, e = le;
			while (s < e && is_ows(b[s])) s++;
			while (e > s && is_ows(b[e - 1])) e--;
			uint8_t *nv = realloc(fl->val, fl->vlen + 1 + (e - s) + 1);
			if (!nv) abort();
			fl->val = nv;
			/* the fold becomes one SP; the value as a whole stays OWS-trimmed */
			size_t sep = (fl->vlen && e > s) ? 1 : 0;
			if (sep) nv[fl->vlen] = ' ';
			for (size_t i = s; i < e; i++) {
				uint8_t c = b[i];
				if (c == 0 || c == '\r') { c = ' '; m->alt_reject = 1; }
				nv[fl->vlen + sep + (i - s)] = c;
			}
			fl->vlen += sep + (e - s);
			nv[fl->vlen] = 0;
			continue;
		}
		first = 0;
		const uint8_t *colon = memchr(b + ls, ':', le - ls);
		if (!colon) { m->lat |= trailer ? R9_LAT_CHUNK_SYNTAX : R9_LAT_FIELD_SYNTAX; continue; }
		size_t ne = (size_t)(colon - b);
		if (ne > ls && is_ows(b[ne - 1])) {
			/* 5.1: whitespace between field name and colon: a server MUST reject;
			 * for a response only proxies are told what to do */
			if (!is_response) { m->why = "whitespace before colon"; return R9_REJECT; }
			m->lat |= R9_LAT_FIELD_SYNTAX;
		} else if (!r9_is_token(b + ls, ne - ls)) {
			m->lat |= R9_LAT_FIELD_SYNTAX;
		}
		size_t vs = ne + 1, ve = le;
		while (vs < ve && is_ows(b[vs])) vs++;
		while (ve > vs && is_ows(b[ve - 1])) ve--;
		if (*nf >= R9_MAXF) { m->lat |= R9_LAT_TOO_MANY; continue; }
		struct r9_field *fl = &f[(*nf)++];
		fl->name = b + ls; fl->nlen = ne - ls;
		fl->val = malloc(ve - vs + 1);
		if (!fl->val) abort();
		for (size_t i = vs; i < ve; i++) {
			uint8_t c = b[i];
			/* RFC 9110 5.5: CR, LF, NUL in a value: reject or replace by SP */
			if (c == 0 || c == '\r') { c = ' '; m->alt_reject = 1; }
			fl->val[i - vs] = c;
		}
		fl->vlen = ve - vs;
		fl->val[fl->vlen] = 0;
	}
	*pos = p;
	return R9_OK;
}

/* "HTTP/" DIGIT "." DIGIT at b[s..e) exactly */
static int parse_version(const uint8_t *b, size_t s, size_t e, int *maj, int *min)
{
	if (e - s != 8 || memcmp(b + s, "HTTP/", 5) != 0) return 0;
	if (!is_digit(b[s + 5]) || b[s + 6] != '.' || !is_digit(b[s + 7])) return 0;
	*maj = b[s + 5] - '0'; *min = b[s + 7] - '0';
	return 1;
}

/* Collect the comma separated members of every field line called `name`.
 * Returns the number of non-empty members; members are [s,e) pairs into the values. */
struct member { const uint8_t *s; size_t n; };
static int list_members(const struct r9_msg *m, const char *name, struct member *out, int max, int *empties)
{
	int k = 0;
	*empties = 0;
	for (int i = 0; i < m->nf; i++) {
		if (!r9_name_is(&m->f[i], name)) continue;
		const uint8_t *v = m->f[i].val; size_t n = m->f[i].vlen, s = 0;
		for (;;) {
			size_t e = s;
			int inq = 0;
			while (e < n && (inq || v[e] != ',')) { if (v[e] == '"') inq = !inq; e++; }
			size_t a = s, z = e;
			while (a < z && is_ows(v[a])) a++;
			while (z > a && is_ows(v[z - 1])) z--;
			if (z > a) { if (k < max) { out[k].s = v + a; out[k].n = z - a; } k++; }
			else (*empties)++;
			if (e >= n) break;
			s = e + 1;
		}
	}
	return k;
}
static int count_fields(const struct r9_msg *m, const char *name)
{
	int k = 0;
	for (int i = 0; i < m->nf; i++) if (r9_name_is(&m->f[i], name)) k++;
	return k;
}

/* Decide framing for a message whose header section is in m->f.
 * returns R9_OK or R9_REJECT; sets m->framing and *cl. */
static enum r9_result decide_framing(struct r9_msg *m, int is_response, size_t *cl)
{
	struct member mem[16]; int emp;
	int has_te = count_fields(m, "Transfer-Encoding") > 0;
	int has_cl = count_fields(m, "Content-Length") > 0;
	*cl = 0;
	if (has_te) {
		if (has_cl) m->lat |= R9_LAT_TE_AND_CL;
		if (m->major == 1 && m->minor == 0) m->lat |= R9_LAT_TE_HTTP10;
		int n = list_members(m, "Transfer-Encoding", mem, 16, &emp);
		if (n == 0 || n > 16 || emp) m->lat |= R9_LAT_TE_UNKNOWN;
		int nchunked = 0, final_chunked = 0;
		for (int i = 0; i < n && i < 16; i++) {
			/* transfer-coding = token *( OWS ";" OWS parameter ) */
			size_t tl = 0;
			while (tl < mem[i].n && r9_is_tchar(mem[i].s[tl])) tl++;
			if (tl == 0) { m->lat |= R9_LAT_TE_UNKNOWN; continue; }
			int is_ch = ieq(mem[i].s, tl, "chunked");
			if (tl != mem[i].n) { if (is_ch) m->lat |= R9_LAT_TE_UNKNOWN; }
			if (is_ch) { nchunked++; final_chunked = (i == n - 1) && tl == mem[i].n; }
		}
		if (nchunked > 1) m->lat |= R9_LAT_TE_UNKNOWN;
		if (final_chunked) { m->framing = R9_F_CHUNKED; return R9_OK; }
		if (!is_response) { m->why = "Transfer-Encoding without final chunked in a request"; return R9_REJECT; }
		m->framing = R9_F_CLOSE;
		return R9_OK;
	}
	if (has_cl) {
		int n = list_members(m, "Content-Length", mem, 16, &emp);
		if (n == 0) { m->why = "empty Content-Length"; return R9_REJECT; }
		if (n > 16) { m->lat |= R9_LAT_TOO_MANY; n = 16; }
		if (emp) m->alt_reject = 1;
		size_t val = 0; int have = 0;
		for (int i = 0; i < n; i++) {
			size_t v = 0; int of = 0;
			for (size_t j = 0; j < mem[i].n; j++) {
				if (!is_digit(mem[i].s[j])) { m->why = "invalid Content-Length"; return R9_REJECT; }
				if (v > (HUGE_LEN - 9) / 10) of = 1; else v = v * 10 + (size_t)(mem[i].s[j] - '0');
			}
			if (of) v = HUGE_LEN;
			if (have && v != val) { m->why = "conflicting Content-Length"; return R9_REJECT; }
			if (have) m->alt_reject = 1;     /* identical duplicates: MAY accept, or reject */
			val = v; have = 1;
		}
		*cl = val;
		m->framing = R9_F_CL;
		return R9_OK;
	}
	if (is_response) m->framing = R9_F_CLOSE;
	else { m->framing = R9_F_CL; *cl = 0; }
	return R9_OK;
}

static void body_append(struct r9_msg *m, const uint8_t *p, size_t n)
{
	uint8_t *nb = realloc(m->body, m->blen + n + 1);
	if (!nb) abort();
	m->body = nb;
	if (n) memcpy(nb + m->blen, p, n);
	m->blen += n;
	nb[m->blen] = 0;
}

/* chunked-body = *chunk last-chunk trailer-section CRLF  (7.1) */
static enum r9_result parse_chunked(const uint8_t *b, size_t len, size_t *pos, struct r9_msg *m, int is_response)
{
	size_t p = *pos, ls, le, nx;
	body_append(m, NULL, 0);
	for (;;) {
		if (!get_line(b, len, p, &ls, &le, &nx, &m->lat)) { m->why = "incomplete chunk header"; return R9_MORE; }
		/* chunk-size = 1*HEXDIG */
		size_t i = ls, size = 0; int of = 0, nd = 0;
		while (i < le && hexval(b[i]) >= 0) {
			if (size > (HUGE_LEN >> 4)) of = 1; else size = (size << 4) | (size_t)hexval(b[i]);
			i++; nd++;
		}
		if (nd == 0) {
			/* an empty line where a chunk header is expected: tolerated by some recipients in the
			 * spirit of 2.2 (robustness against stray CRLF); no explicit requirement either way */
			if (le == ls) m->lat |= R9_LAT_CHUNK_SYNTAX;
			m->why = "invalid chunk size"; return R9_REJECT;
		}
		if (of) size = HUGE_LEN;
		/* chunk-ext = *( BWS ";" BWS chunk-ext-name [ BWS "=" BWS chunk-ext-val ] ) */
		while (i < le) {
			size_t j = i;
			while (j < le && is_ows(b[j])) j++;
			if (j == le) { m->lat |= R9_LAT_CHUNK_SYNTAX; i = j; break; }    /* trailing blanks, no ext */
			if (b[j] != ';') {
				if (j == i) { m->why = "invalid chunk size"; return R9_REJECT; }  /* garbage glued to the size */
				m->lat |= R9_LAT_CHUNK_SYNTAX; i = le; break;
			}
			j++;
			while (j < le && is_ows(b[j])) j++;
			size_t ns = j;
			while (j < le && r9_is_tchar(b[j])) j++;
			if (j == ns) { m->lat |= R9_LAT_CHUNK_SYNTAX; i = le; break; }
			size_t k = j;
			while (k < le && is_ows(b[k])) k++;
			if (k < le && b[k] == '=') {
				k++;
				while (k < le && is_ows(b[k])) k++;
				if (k < le && b[k] == '"') {
					k++;
					while (k < le && b[k] != '"') { if (b[k] == '\\' && k + 1 < le) k++; k++; }
					if (k >= le) { m->lat |= R9_LAT_CHUNK_SYNTAX; i = le; break; }
					k++;
				} else {
					size_t vs = k;
					while (k < le && r9_is_tchar(b[k])) k++;
					if (k == vs) { m->lat |= R9_LAT_CHUNK_SYNTAX; i = le; break; }
				}
				j = k;
			}
			i = j;
		}
		p = nx;
		if (size == 0) break;                               /* last-chunk */
		if (size == HUGE_LEN || len - p < size) { m->why = "incomplete chunk data"; return R9_MORE; }
		body_append(m, b + p, size);
		p += size;
		/* CRLF after chunk-data */
		if (len - p < 1) { m->why = "incomplete chunk data"; return R9_MORE; }
		if (b[p] == '\r') {
			if (len - p < 2) { m->why = "incomplete chunk data"; return R9_MORE; }
			if (b[p + 1] != '\n') { m->lat |= R9_LAT_CHUNK_SYNTAX; m->why = "chunk data not followed by CRLF"; return R9_REJECT; }
			p += 2;
		} else if (b[p] == '\n') { m->lat |= R9_LAT_BARE_LF; p += 1; }
		else { m->lat |= R9_LAT_CHUNK_SYNTAX; m->why = "chunk data not followed by CRLF"; return R9_REJECT; }
	}
	/* trailer-section CRLF */
	enum r9_result r = parse_fields(b, len, &p, m->t, &m->nt, m, is_response, 1);
	if (r != R9_OK) { if (r == R9_MORE) m->why = "incomplete trailer section"; return r; }
	*pos = p;
	return R9_OK;
}

static void conn_options(struct r9_msg *m)
{
	struct member mem[16]; int emp;
	int n = list_members(m, "Connection", mem, 16, &emp);
	for (int i = 0; i < n && i < 16; i++) {
		if (ieq(mem[i].s, mem[i].n, "close")) m->conn_close = 1;
		if (ieq(mem[i].s, mem[i].n, "keep-alive")) m->conn_keepalive = 1;
	}
}

static enum r9_result finish(enum r9_result r, int eof, struct r9_msg *m)
{
	if (r == R9_MORE && eof) {
		/* section 8: an incomplete message must be recorded as incomplete */
		return R9_REJECT;
	}
	return r;
}

enum r9_result r9_parse_response(const uint8_t *b, size_t len, int eof, enum r9_reqkind rk, struct r9_msg *m)
{
	size_t p = 0, ls, le, nx;
	memset(m, 0, sizeof *m);
	m->is_response = 1;
	for (;;) {
		/* status-line = HTTP-version SP status-code SP [ reason-phrase ] */
		for (;;) {
			if (!get_line(b, len, p, &ls, &le, &nx, &m->lat)) { m->why = "incomplete status line"; return finish(R9_MORE, eof, m); }
			if (le != ls) break;
			m->lat |= R9_LAT_LEADING_EMPTY;
			p = nx;
		}
		for (size_t i = ls; i < le; i++) if (b[i] == '\r' || b[i] == 0) m->lat |= R9_LAT_BARE_CR;
		size_t sp1 = ls;
		while (sp1 < le && b[sp1] != ' ') sp1++;
		if (sp1 == le) { m->lat |= R9_LAT_STARTLINE; m->why = "malformed status line"; return R9_REJECT; }
		if (!parse_version(b, ls, sp1, &m->major, &m->minor)) { m->lat |= R9_LAT_VERSION; m->why = "malformed version"; return R9_REJECT; }
		if (m->major != 1) m->lat |= R9_LAT_VERSION;
		size_t cs = sp1 + 1;
		if (le - cs < 3 || !is_digit(b[cs]) || !is_digit(b[cs + 1]) || !is_digit(b[cs + 2])) {
			m->lat |= R9_LAT_STARTLINE; m->why = "malformed status code"; return R9_REJECT;
		}
		m->status = (b[cs] - '0') * 100 + (b[cs + 1] - '0') * 10 + (b[cs + 2] - '0');
		if (cs + 3 == le) {
			/* "HTTP/1.1 200" without the SP: grammar violation many peers tolerate */
			m->lat |= R9_LAT_STARTLINE; m->reason = b + le; m->rlen = 0;
		} else if (b[cs + 3] != ' ') {
			m->lat |= R9_LAT_STARTLINE; m->why = "malformed status code"; return R9_REJECT;
		} else {
			m->reason = b + cs + 4; m->rlen = le - (cs + 4);
			for (size_t i = 0; i < m->rlen; i++) {
				uint8_t c = m->reason[i];
				if (!(c == '\t' || c == ' ' || (c >= 0x21 && c != 0x7f))) m->lat |= R9_LAT_STARTLINE;
			}
		}
		if (m->status < 100 || m->status > 599) m->lat |= R9_LAT_STATUS_RANGE;
		p = nx;
		free_fields(m->f, &m->nf);
		enum r9_result r = parse_fields(b, len, &p, m->f, &m->nf, m, 1, 0);
		if (r != R9_OK) return finish(r, eof, m);
		if (m->status >= 100 && m->status < 200 && m->status != 101) {
			/* RFC 9110 15.2: interim response; the final response follows */
			m->n_interim++;
			continue;
		}
		break;
	}
	m->head_end = p;
	conn_options(m);
	size_t cl = 0;
	if (m->status == 101) {
		m->lat |= R9_LAT_UPGRADE;
		m->framing = R9_F_NONE;
	} else if (rk == R9_REQ_HEAD || m->status == 204 || m->status == 304 || (m->status >= 100 && m->status < 200)) {
		m->framing = R9_F_NONE;                                  /* 6.3 rule 1 */
	} else if (rk == R9_REQ_CONNECT && m->status >= 200 && m->status < 300) {
		m->lat |= R9_LAT_UPGRADE;                                /* 6.3 rule 2: tunnel */
		m->framing = R9_F_NONE;
	} else {
		enum r9_result r = decide_framing(m, 1, &cl);
		if (r != R9_OK) return r;
	}
	switch (m->framing) {
	case R9_F_NONE:
		body_append(m, NULL, 0);
		break;
	case R9_F_CL:
		if (cl == HUGE_LEN || len - p < cl) { m->why = "incomplete body"; return finish(R9_MORE, eof, m); }
		body_append(m, b + p, cl);
		p += cl;
		break;
	case R9_F_CHUNKED: {
		enum r9_result r = parse_chunked(b, len, &p, m, 1);
		if (r != R9_OK) return finish(r, eof, m);
		break;
	}
	case R9_F_CLOSE:
		if (!eof) { m->why = "close-delimited body"; return R9_MORE; }
		body_append(m, b + p, len - p);
		p = len;
		break;
	}
	m->consumed = p;
	return R9_OK;
}

enum r9_result r9_parse_request(const uint8_t *b, size_t len, int eof, struct r9_msg *m)
{
	size_t p = 0, ls, le, nx;
	memset(m, 0, sizeof *m);
	for (;;) {
		if (!get_line(b, len, p, &ls, &le, &nx, &m->lat)) { m->why = "incomplete request line"; return finish(R9_MORE, eof, m); }
		if (le != ls) break;
		m->lat |= R9_LAT_LEADING_EMPTY;
		p = nx;
	}
	/* request-line = method SP request-target SP HTTP-version */
	size_t sp1 = ls;
	while (sp1 < le && b[sp1] != ' ') sp1++;
	if (sp1 == le || !r9_is_token(b + ls, sp1 - ls)) { m->lat |= R9_LAT_STARTLINE; m->why = "malformed request line (method)"; return R9_REJECT; }
	m->method = b + ls; m->mlen = sp1 - ls;
	size_t sp2 = sp1 + 1;
	while (sp2 < le && b[sp2] != ' ') sp2++;
	if (sp2 == le || sp2 == sp1 + 1) { m->lat |= R9_LAT_STARTLINE; m->why = "malformed request line (target)"; return R9_REJECT; }
	m->target = b + sp1 + 1; m->tlen = sp2 - sp1 - 1;
	for (size_t i = 0; i < m->tlen; i++) if (m->target[i] <= 0x20 || m->target[i] == 0x7f) { m->lat |= R9_LAT_STARTLINE; m->why = "control character in request target"; return R9_REJECT; }
	if (!parse_version(b, sp2 + 1, le, &m->major, &m->minor)) { m->lat |= R9_LAT_STARTLINE; m->why = "malformed request line (version)"; return R9_REJECT; }
	if (m->major != 1) m->lat |= R9_LAT_VERSION;
	p = nx;
	enum r9_result r = parse_fields(b, len, &p, m->f, &m->nf, m, 0, 0);
	if (r != R9_OK) return finish(r, eof, m);
	m->head_end = p;
	conn_options(m);
	size_t cl = 0;
	r = decide_framing(m, 0, &cl);
	if (r != R9_OK) return r;
	if (m->framing == R9_F_CHUNKED) {
		r = parse_chunked(b, len, &p, m, 0);
		if (r != R9_OK) return finish(r, eof, m);
	} else {
		if (cl == HUGE_LEN || len - p < cl) { m->why = "incomplete body"; return finish(R9_MORE, eof, m); }
		body_append(m, b + p, cl);
		p += cl;
	}
	m->consumed = p;
	return R9_OK;
}
