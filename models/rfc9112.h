/* rfc9112 — reference HTTP/1.x message-stream parser, written from the grammar
 * and the recipient requirements of RFC 9112 (HTTP/1.1) and RFC 9110 (HTTP
 * semantics: field syntax, Content-Length, Expect, Connection).  It is NOT
 * derived from libevent's http.c and shares no code with it.
 *
 * A byte stream is classified as
 *      list of complete messages  +  tail ∈ { end | needs-more | must-reject | may-either }
 *
 *   must-reject : the RFC requires the recipient to reject / treat the framing
 *                 as an unrecoverable error, or the bytes have no derivation in
 *                 the grammar and no clause grants latitude
 *                 (RFC 9112 §5.1 whitespace before colon, §6.3 invalid or
 *                 conflicting Content-Length, request Transfer-Encoding whose
 *                 final coding is not chunked, §7.1 invalid chunk-size,
 *                 §2.3 invalid HTTP-version, line without colon ...).
 *   may-either  : the RFC grants latitude and the accepted form is not modelled
 *                 (bare CR, NUL, invalid field-name octets, whitespace inside the
 *                 request-line, whitespace-preceded first field line, HTTP/1.0
 *                 with Transfer-Encoding ...).  Only segmentation independence
 *                 can be demanded there.
 *   A complete message may itself carry `lat` bits: it was derived by using a
 *   leniency that the RFC lets the recipient refuse (reject) but whose accepted
 *   interpretation is fixed by the RFC (obs-fold → SP, bare LF as terminator,
 *   empty line(s) before the start-line, Transfer-Encoding overriding
 *   Content-Length, identical repeated Content-Length, unknown coding before a
 *   final chunked, Expect other than 100-continue, major version != 1).
 *   A recipient may reject such a message; if it accepts it, it must see the
 *   message as given here.
 */
#ifndef RFC9112_H
#define RFC9112_H
#include <stddef.h>
#include <stdint.h>

enum h1_kind { H1_REQUEST = 0, H1_RESPONSE = 1 };
enum h1_status { H1_OK = 0, H1_NEEDS_MORE, H1_MUST_REJECT, H1_MAY_EITHER };
enum h1_framing { H1_FR_NONE = 0, H1_FR_CL, H1_FR_CHUNKED, H1_FR_CLOSE };
enum h1_persist { H1_PERSIST_YES = 0, H1_PERSIST_NO, H1_PERSIST_MAY };

#define H1_LAT_OBS_FOLD          0x0001u  /* §5.2: reject, or replace each obs-fold by SP */
#define H1_LAT_BARE_LF           0x0002u  /* §2.2: MAY recognize a single LF as line terminator */
#define H1_LAT_LEADING_CRLF      0x0004u  /* §2.2: SHOULD ignore at least one empty line before the request-line */
#define H1_LAT_TE_AND_CL         0x0008u  /* §6.3(3): MAY reject, else Transfer-Encoding alone decides */
#define H1_LAT_TE_UNKNOWN_CODING 0x0010u  /* §6.1: SHOULD 501 for codings not understood; framing is chunked */
#define H1_LAT_CL_IDENTICAL_LIST 0x0020u  /* RFC 9110 §8.6: identical repeated value MAY be rejected or used once */
#define H1_LAT_EXPECT_OTHER      0x0040u  /* RFC 9110 §10.1.1: MAY answer 417 */
#define H1_LAT_VERSION           0x0080u  /* major version != 1: 505 allowed */
#define H1_LAT_CHUNK_EXT_BWS     0x0100u  /* reserved */

struct h1_field {
	char *name; size_t name_len;      /* as received (case preserved) */
	char *value; size_t value_len;    /* OWS removed at both ends; obs-fold replaced by one SP */
};

struct h1_msg {
	enum h1_kind kind;
	char *method, *target;            /* request */
	int status; char *reason;         /* response */
	int vmajor, vminor;
	int nfields;  struct h1_field *fields;
	int ntrailers; struct h1_field *trailers;
	unsigned char *body; size_t body_len;
	enum h1_framing framing;
	uint64_t content_length;          /* when framing == H1_FR_CL (saturated at UINT64_MAX) */
	unsigned lat;
	enum h1_persist persist;          /* may the connection carry another message after this one */
	size_t start, end;                /* byte offsets of the message in the stream */
	size_t head_octets;               /* start-line + field lines + empty line, terminators included */
	size_t line_octets;               /* start-line + field lines, terminators excluded */
	size_t field_octets;              /* field lines only, terminators excluded */
	size_t trailer_line_octets;       /* trailer field lines, terminators excluded */
};

struct h1_result {
	int nmsgs; struct h1_msg *msgs;
	enum h1_status tail;              /* H1_OK: nothing (or only ignorable bytes) after the last message */
	const char *reason;               /* static string naming the rule for must-reject / may-either */
	int closed;                       /* parsing stopped because the last message ends the connection */
	size_t tail_off;                  /* where the tail starts */
	/* partially parsed tail message head, when its header section was complete (else zeros) */
	int tail_has_head; size_t tail_line_octets; uint64_t tail_content_length; enum h1_framing tail_framing;
};

struct h1_opts {
	enum h1_kind kind;
	int eof;                          /* the peer has closed after these bytes (completes close-delimited bodies) */
	const char *const *req_methods;   /* responses: methods of the corresponding requests, in order */
	int n_req_methods;
	int max_msgs;                     /* 0 = default (8) */
};

/* Returns 0 (always succeeds; out-of-memory aborts). */
int  h1_parse_stream(const void *data, size_t len, const struct h1_opts *o, struct h1_result *out);
void h1_result_free(struct h1_result *r);

int  h1_is_token(const char *s, size_t n);
/* first field with this name (ASCII case-insensitive), or NULL */
const struct h1_field *h1_find_field(const struct h1_msg *m, const char *name);
const char *h1_status_name(enum h1_status s);
#endif
