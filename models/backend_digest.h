/* Canonical digest of the backend-side bookkeeping of an event_base, for
 * explicit-state pruning (C04, C05).  Needs the private structs of the three
 * backends, so the harness TU includes epoll.c / poll.c / select.c itself
 * (list them under "exclude" in checks.d).
 *
 * Contents (everything the backend's add/del/dispatch code reads later):
 *   epoll     the kernel's registration of the given fds (read from /proc), the
 *             queued changelist entries (fd, old_events, three change bytes) in order
 *   poll      nfds, capacity, the pollfd array (fd, events) in order, idxplus1 of the given fds
 *   select    highest fd, set size, resize flag, both input sets
 * Not included: weakrand state (decides only the start offset of the ready scan,
 * i.e. the order of callbacks across different fds, which no oracle constrains). */
#ifndef BACKEND_DIGEST_H
#define BACKEND_DIGEST_H
#include "backend_common.h"
#include "epoll.c"
#include "poll.c"
#include "select.c"

static int bk_epfd(struct event_base *b) { return ((struct epollop *)b->evbase)->epfd; }

static uint64_t bk_impl_digest(struct event_base *base, int bk, const int *fds, int nfds)
{
	uint64_t h = mc_hash_u64(0xd16e57, (uint64_t)bk);
	if (bk == BK_EPOLL || bk == BK_EPOLL_CL) {
		struct bk_epreg r[64];
		int k = bk_epoll_registrations(bk_epfd(base), r, 64);
		for (int j = 0; j < nfds; j++) {
			unsigned reg = 0;
			for (int i = 0; i < k; i++) if (r[i].fd == fds[j]) reg = 1u | (r[i].events & (EPOLLIN | EPOLLOUT | EPOLLRDHUP | EPOLLET));
			h = mc_hash_u64(h, reg);
		}
		h = mc_hash_u64(h, (uint64_t)base->changelist.n_changes);
		for (int i = 0; i < base->changelist.n_changes; i++) {
			struct event_change *c = &base->changelist.changes[i];
			h = mc_hash_u64(h, ((uint64_t)c->fd << 40) | ((uint64_t)(unsigned short)c->old_events << 24) | (c->read_change << 16) | (c->write_change << 8) | c->close_change);
		}
	} else if (bk == BK_POLL) {
		struct pollop *pop = base->evbase;
		h = mc_hash_u64(h, ((uint64_t)pop->nfds << 32) | (unsigned)pop->event_count);
		for (int i = 0; i < pop->nfds; i++) h = mc_hash_u64(h, ((uint64_t)pop->event_set[i].fd << 16) | (unsigned short)pop->event_set[i].events);
		for (int j = 0; j < nfds; j++) {
			struct pollidx *ix = fds[j] < base->io.nentries ? evmap_io_get_fdinfo_(&base->io, fds[j]) : NULL;
			h = mc_hash_u64(h, ix ? (uint64_t)ix->idxplus1 + 1 : 0);
		}
	} else {
		struct selectop *sop = base->evbase;
		h = mc_hash_u64(h, ((uint64_t)sop->event_fds << 32) | ((unsigned)sop->event_fdsz << 1) | (unsigned)sop->resize_out_sets);
		h = mc_hash(h, sop->event_readset_in, sop->event_fdsz);
		h = mc_hash(h, sop->event_writeset_in, sop->event_fdsz);
	}
	return h;
}
#endif
