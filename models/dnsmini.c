/* dnsmini — see dnsmini.h.  Independent of evdns.c (RFC 1035 section 4). */
#include "dnsmini.h"
#include <string.h>
#include <ctype.h>

static int rd16(const uint8_t *p) { return (p[0] << 8) | p[1]; }

/* decode a (possibly compressed) name at *off; text into out[256]; returns 0 / -1 */
static int name_decode(const uint8_t *p, int len, int *off, char *out)
{
	int j = *off, o = 0, jumps = 0, end = -1;
	for (;;) {
		if (j >= len) return -1;
		int l = p[j++];
		if (l == 0) break;
		if ((l & 0xc0) == 0xc0) {
			if (j >= len) return -1;
			int t = ((l & 0x3f) << 8) | p[j++];
			if (end < 0) end = j;
			if (t >= len || ++jumps > 64) return -1;
			j = t;
			continue;
		}
		if (l & 0xc0) return -1;
		if (j + l > len) return -1;
		if (o + l + 1 >= 255) return -1;
		if (o) out[o++] = '.';
		memcpy(out + o, p + j, l);
		o += l; j += l;
	}
	out[o] = 0;
	*off = end >= 0 ? end : j;
	return 0;
}

int dm_parse_query(const uint8_t *p, int len, struct dm_query *q)
{
	int j = 12;
	memset(q, 0, sizeof *q);
	if (len < 12) return -1;
	q->id = rd16(p); q->flags = rd16(p + 2);
	q->qdcount = rd16(p + 4); q->ancount = rd16(p + 6); q->nscount = rd16(p + 8); q->arcount = rd16(p + 10);
	if (q->qdcount < 1) return -1;
	if (name_decode(p, len, &j, q->qname) < 0) return -1;
	if (j + 4 > len) return -1;
	q->qtype = rd16(p + j); q->qclass = rd16(p + j + 2);
	j += 4;
	q->qend = j;
	q->wellformed = !(q->flags & DM_F_QR) && !(q->flags & 0x7800) && q->qdcount == 1 && q->qclass == 1
	    && q->ancount == 0 && q->nscount == 0;
	if (q->arcount == 1) {
		/* expect exactly one OPT: root name, type 41, class = size, ttl, rdlen 0 */
		if (j + 11 <= len && p[j] == 0 && rd16(p + j + 1) == DM_T_OPT) {
			q->has_opt = 1; q->opt_udp_size = rd16(p + j + 3);
			int rdlen = rd16(p + j + 9);
			j += 11 + rdlen;
		} else q->wellformed = 0;
	} else if (q->arcount != 0) q->wellformed = 0;
	if (j != len) q->wellformed = 0;
	return 0;
}

static void put8(struct dm_msg *m, int v)
{
	if (m->len + 1 > m->cap) { m->overflow = 1; return; }
	m->buf[m->len++] = (uint8_t)v;
}
static void put16(struct dm_msg *m, int v) { put8(m, (v >> 8) & 0xff); put8(m, v & 0xff); }
static void put32(struct dm_msg *m, uint32_t v) { put16(m, (v >> 16) & 0xffff); put16(m, v & 0xffff); }
static void putn(struct dm_msg *m, const void *p, int n) { const uint8_t *c = p; while (n-- > 0) put8(m, *c++); }

static void put_name(struct dm_msg *m, const char *name)
{
	while (*name) {
		const char *dot = strchr(name, '.');
		int l = dot ? (int)(dot - name) : (int)strlen(name);
		if (l > 63) { m->overflow = 1; return; }
		if (l == 0) { if (!dot) break; name++; continue; }
		put8(m, l); putn(m, name, l);
		name += l;
		if (*name == '.') name++;
	}
	put8(m, 0);
}

void dm_begin(struct dm_msg *m, uint8_t *buf, int cap, uint16_t id, uint16_t flags, const char *qname, uint16_t qtype)
{
	m->buf = buf; m->cap = cap; m->len = 0; m->overflow = 0; m->section = 0;
	put16(m, id); put16(m, flags);
	put16(m, qname ? 1 : 0); put16(m, 0); put16(m, 0); put16(m, 0);
	if (qname) { put_name(m, qname); put16(m, qtype); put16(m, 1); }
}

static void count_rr(struct dm_msg *m, int section)
{
	if (section < m->section || section < 1 || section > 3) { m->overflow = 1; return; }
	m->section = section;
	if (m->cap >= 12) {
		int off = 4 + 2 * section, v = rd16(m->buf + off) + 1;
		m->buf[off] = (uint8_t)(v >> 8); m->buf[off + 1] = (uint8_t)v;
	}
}

void dm_rr_raw(struct dm_msg *m, int section, const char *owner, uint16_t type, uint16_t klass, uint32_t ttl, const void *rdata, int rdlen)
{
	count_rr(m, section);
	put_name(m, owner); put16(m, type); put16(m, klass); put32(m, ttl); put16(m, rdlen); putn(m, rdata, rdlen);
}
void dm_rr_a(struct dm_msg *m, int section, const char *owner, uint32_t ttl, const uint8_t addr[4])
{
	dm_rr_raw(m, section, owner, DM_T_A, 1, ttl, addr, 4);
}
void dm_rr_aaaa(struct dm_msg *m, int section, const char *owner, uint32_t ttl, const uint8_t addr[16])
{
	dm_rr_raw(m, section, owner, DM_T_AAAA, 1, ttl, addr, 16);
}
void dm_rr_name(struct dm_msg *m, int section, const char *owner, uint16_t type, uint32_t ttl, const char *target)
{
	uint8_t tmp[300]; struct dm_msg t = { tmp, sizeof tmp, 0, 0, 0 };
	put_name(&t, target);
	if (t.overflow) { m->overflow = 1; return; }
	dm_rr_raw(m, section, owner, type, 1, ttl, tmp, t.len);
}
void dm_rr_soa(struct dm_msg *m, int section, const char *owner, uint32_t ttl, uint32_t minimum)
{
	uint8_t tmp[400]; struct dm_msg t = { tmp, sizeof tmp, 0, 0, 0 };
	put_name(&t, "ns.invalid"); put_name(&t, "hostmaster.invalid");
	put32(&t, 1); put32(&t, 3600); put32(&t, 600); put32(&t, 86400); put32(&t, minimum);
	if (t.overflow) { m->overflow = 1; return; }
	dm_rr_raw(m, section, owner, DM_T_SOA, 1, ttl, tmp, t.len);
}
int dm_finish(struct dm_msg *m) { return m->overflow ? -1 : m->len; }

int dm_name_eq(const char *a, const char *b)
{
	size_t la = strlen(a), lb = strlen(b);
	if (la && a[la - 1] == '.') la--;
	if (lb && b[lb - 1] == '.') lb--;
	if (la != lb) return 0;
	for (size_t i = 0; i < la; i++)
		if (tolower((unsigned char)a[i]) != tolower((unsigned char)b[i])) return 0;
	return 1;
}
