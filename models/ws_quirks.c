/* See ws_quirks.h.  Parsing follows RFC 6455 5.2; the points where it mirrors ws.c rather than
 * the reference decoder are marked [ws.c] and only matter once a deviation flag is set. */
#include "ws_quirks.h"
#include <stdlib.h>
#include <string.h>

const char *wsq_flag_key(unsigned flag)
{
	switch (flag) {
	case WSQ_DATA_IN_FRAGMENTED_OK: return "data-opcode-inside-fragmented-message-accepted";
	case WSQ_CONT_WITHOUT_START_OK: return "continuation-without-start-accepted";
	}
	return "?";
}

void wsq_free(struct wsq_result *r)
{
	size_t i;
	for (i = 0; i < r->nmsgs; i++) free(r->msgs[i].data);
	free(r->msgs);
	memset(r, 0, sizeof *r);
}

static void deliver(struct wsq_result *r, int type, const unsigned char *a, size_t alen, const unsigned char *b, size_t blen)
{
	struct wsq_msg *m;
	if (r->nmsgs == r->cap) {
		r->cap = r->cap ? r->cap * 2 : 8;
		r->msgs = realloc(r->msgs, r->cap * sizeof *r->msgs);
		if (!r->msgs) abort();
	}
	m = &r->msgs[r->nmsgs++];
	m->type = type; m->len = alen + blen;
	m->data = malloc(m->len ? m->len : 1);
	if (!m->data) abort();
	if (alen) memcpy(m->data, a, alen);
	if (blen) memcpy(m->data + alen, b, blen);
}

void wsq_run(const unsigned char *s, size_t n, const size_t *read_end, size_t nreads,
    unsigned flags, uint64_t max_frame, size_t close_after, struct wsq_result *out)
{
	size_t pos = 0, r;
	int in_msg = 0, msg_type = 0;
	unsigned char *acc = NULL, *pl = NULL; size_t alen = 0, acap = 0, plcap = 0;
	memset(out, 0, sizeof *out);
	for (r = 0; r < nreads; r++) {
		size_t avail = read_end[r] <= n ? read_end[r] : n;
		if (out->closed) break;                  /* closed in an earlier read: the read callback is gone */
		while (pos < avail) {
			const unsigned char *b = s + pos;
			size_t have = avail - pos, hdr = 2, i;
			uint64_t len;
			int fin, op, masked, bad = 0;
			if (out->closed) break;                  /* terminal */
			if (have < 2) break;
			fin = b[0] >> 7; op = b[0] & 0x0f; masked = b[1] >> 7;   /* RSV bits are not in the alphabet and not looked at */
			len = b[1] & 0x7f;
			if (len == 126) {
				if (have < 4) break;
				len = ((uint64_t)b[2] << 8) | b[3]; hdr = 4;
			} else if (len == 127) {
				if (have < 10) break;
				len = 0;
				for (i = 0; i < 8; i++) len = (len << 8) | b[2 + i];
				hdr = 10;
				if (len > max_frame) {
					out->closed = 1;                 /* refused on the header */
					break;
				}
			}
			if (masked) hdr += 4;
			if (have < hdr + len) break;
			if (len > plcap) { plcap = (size_t)len * 2; pl = realloc(pl, plcap); if (!pl) abort(); }
			for (i = 0; i < len; i++) pl[i] = masked ? (unsigned char)(b[hdr + i] ^ b[hdr - 4 + (i & 3)]) : b[hdr + i];
			pos += hdr + (size_t)len;

			if ((op >= 3 && op <= 7) || op >= 0xb) bad = 1;
			else if (op >= 8) {
				if (!fin) bad = 1;
				else if (len > 125) bad = 1;
				else if (op == 8) bad = 1;       /* close frame: orderly end, same observable outcome */
				/* ping / pong: nothing to deliver */
			} else if (!fin) {
				if (op != 0 && in_msg && !(flags & WSQ_DATA_IN_FRAGMENTED_OK)) bad = 1;
				else if (op == 0 && !in_msg && !(flags & WSQ_CONT_WITHOUT_START_OK)) bad = 1;
				else {
					if (!in_msg) { in_msg = 1; msg_type = op; alen = 0; }
					if (alen + len > acap) { acap = (alen + (size_t)len) * 2; acc = realloc(acc, acap); if (!acc) abort(); }
					memcpy(acc + alen, pl, (size_t)len); alen += (size_t)len;
				}
			} else if (op != 0) {
				if (in_msg && !(flags & WSQ_DATA_IN_FRAGMENTED_OK)) bad = 1;
				else if (in_msg) { deliver(out, op, acc, alen, pl, (size_t)len); in_msg = 0; alen = 0; }   /* [ws.c] type of the last frame */
				else deliver(out, op, NULL, 0, pl, (size_t)len);
			} else {
				if (!in_msg) bad = 1;
				else if (msg_type == 0) bad = 1;     /* [ws.c] a message started by a continuation frame (C) has no type: closes */
				else { deliver(out, msg_type, acc, alen, pl, (size_t)len); in_msg = 0; alen = 0; }
			}
			if (bad) out->closed = 1;
			else if (close_after && out->nmsgs == close_after && (op == 0 || op == 1 || op == 2) && fin) out->closed = 1;
		}
	}
	free(acc); free(pl);
}
