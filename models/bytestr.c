/* bytestr — byte-string reference model of an evbuffer (see bytestr.h). */
#define _GNU_SOURCE
#include "bytestr.h"
#include <string.h>
#include <limits.h>

void bs_init(struct bytestr *m) { m->len = 0; m->fz_start = m->fz_end = 0; }

void bs_copy(struct bytestr *dst, const struct bytestr *src)
{
	memcpy(dst->d, src->d, src->len);
	dst->len = src->len; dst->fz_start = src->fz_start; dst->fz_end = src->fz_end;
}

int bs_equal(const struct bytestr *a, const struct bytestr *b)
{
	return a->len == b->len && a->fz_start == b->fz_start && a->fz_end == b->fz_end &&
	    !memcmp(a->d, b->d, a->len);
}

uint64_t bs_hash(const struct bytestr *m)
{
	uint64_t h = 0xcbf29ce484222325ULL, w;
	size_t i = 0;
	for (; i + 8 <= m->len; i += 8) { memcpy(&w, m->d + i, 8); h = (h ^ w) * 0x100000001b3ULL; h ^= h >> 29; }
	for (; i < m->len; i++) { h ^= m->d[i]; h *= 0x100000001b3ULL; }
	h ^= m->len * 4 + m->fz_start * 2 + m->fz_end; h *= 0x100000001b3ULL; h ^= h >> 32;
	return h;
}

static void append(struct bytestr *m, const void *data, size_t n)
{
	if (m->len + n > BS_MAX) n = BS_MAX - m->len;   /* harness bounds keep this unreachable */
	memcpy(m->d + m->len, data, n); m->len += n;
}
static void prepend(struct bytestr *m, const void *data, size_t n)
{
	if (m->len + n > BS_MAX) return;
	memmove(m->d + n, m->d, m->len); memcpy(m->d, data, n); m->len += n;
}
static void drop_front(struct bytestr *m, size_t n)
{
	memmove(m->d, m->d + n, m->len - n); m->len -= n;
}

int bs_add(struct bytestr *m, const void *data, size_t n)
{
	if (m->fz_end) return -1;                /* also for n == 0 */
	append(m, data, n);
	return 0;
}

int bs_prepend(struct bytestr *m, const void *data, size_t n)
{
	if (n == 0) return 0;                    /* even if frozen */
	if (m->fz_start) return -1;
	prepend(m, data, n);
	return 0;
}

/* Reading (Appendix E lists expand with the frozen-end group, but the header
 * only says "0 if successful, -1 if an error occurred" and defines freezing as
 * making operations that *append data* fail; expand appends nothing.  The
 * model therefore lets expand succeed on a frozen buffer.) */
int bs_expand(struct bytestr *m, size_t n) { (void)m; (void)n; return 0; }

int bs_add_reference(struct bytestr *m, const void *data, size_t n)
{
	if (m->fz_end) return -1;
	append(m, data, n);
	return 0;
}

int bs_drain(struct bytestr *m, size_t n)
{
	if (m->len == 0) return 0;               /* even if frozen */
	if (m->fz_start) return -1;
	if (n > m->len) n = m->len;
	drop_front(m, n);
	return 0;
}

int bs_remove(struct bytestr *m, void *out, size_t n)
{
	if (n > m->len) n = m->len;
	if (n == 0) return 0;
	if (m->fz_start) return -1;
	memcpy(out, m->d, n);
	drop_front(m, n);
	return (int)n;
}

ssize_t bs_copyout_from(const struct bytestr *m, ssize_t pos, void *out, size_t n)
{
	size_t p = 0;
	if (pos >= 0) {
		if (n > (size_t)(SSIZE_MAX - pos)) return -1;
		p = (size_t)pos;
		if (p > m->len) p = m->len;      /* positions are always <= len when valid */
	}
	if (n > m->len - p) n = m->len - p;
	if (n == 0) return 0;
	if (m->fz_start) return -1;
	memcpy(out, m->d + p, n);
	return (ssize_t)n;
}

int bs_add_buffer(struct bytestr *dst, struct bytestr *src)
{
	if (src->len == 0 || dst == src) return 0;
	if (dst->fz_end || src->fz_start) return -1;
	append(dst, src->d, src->len); src->len = 0;
	return 0;
}

int bs_prepend_buffer(struct bytestr *dst, struct bytestr *src)
{
	if (src->len == 0 || dst == src) return 0;
	if (dst->fz_start || src->fz_start) return -1;
	prepend(dst, src->d, src->len); src->len = 0;
	return 0;
}

int bs_remove_buffer(struct bytestr *src, struct bytestr *dst, size_t n)
{
	if (n == 0 || dst == src) return 0;
	if (dst->fz_end || src->fz_start) return -1;
	if (n > src->len) n = src->len;
	append(dst, src->d, n);
	drop_front(src, n);
	return (int)n;
}

int bs_add_buffer_reference(struct bytestr *dst, const struct bytestr *src)
{
	if (src->len == 0) return 0;
	if (dst->fz_end || dst == src) return -1;
	append(dst, src->d, src->len);
	return 0;
}

size_t bs_pullup(const struct bytestr *m, ssize_t n)
{
	size_t want = n < 0 ? m->len : (size_t)n;
	if (want == 0 || want > m->len) return 0;
	return want;
}

int bs_ptr_set(const struct bytestr *m, ssize_t *pos, size_t n, int add)
{
	if (!add) {
		if (n <= m->len) { *pos = (ssize_t)n; return 0; }
		*pos = -1; return -1;
	}
	if (*pos < 0) return -1;
	if (n > (size_t)SSIZE_MAX || (size_t)*pos + n > m->len) { *pos = -1; return -1; }
	*pos += (ssize_t)n;
	return 0;
}

/* The searches work on the flat array with memchr/memcmp/memmem (independent
 * of libevent's chain walk) so that the battery stays cheap. */
ssize_t bs_search_range(const struct bytestr *m, const void *what, size_t len, ssize_t start, ssize_t end)
{
	size_t s = start < 0 ? 0 : (size_t)start;
	size_t e = end < 0 ? m->len : (size_t)end;
	const unsigned char *p;
	if (len == 0) return (ssize_t)s;          /* returns `start` (or 0) unchanged */
	if (e > m->len) e = m->len;
	if (s > e || e - s < len) return -1;
	/* candidates by first byte (memchr), then compare: the patterns start with rare bytes */
	for (p = m->d + s; (p = memchr(p, *(const unsigned char *)what, (size_t)(m->d + e - p) - (len - 1))) != NULL; p++) {
		if (!memcmp(p, what, len)) return (ssize_t)(p - m->d);
		if ((size_t)(m->d + e - (p + 1)) < len) break;
	}
	return -1;
}

static int is_crlf(unsigned char c) { return c == '\r' || c == '\n'; }

ssize_t bs_search_eol(const struct bytestr *m, ssize_t start, enum bs_eol style, size_t *eol_len)
{
	size_t s = start < 0 ? 0 : (size_t)start, i;
	const unsigned char *p, *q;
	*eol_len = 0;
	if (s >= m->len) return -1;
	switch (style) {
	case BS_EOL_ANY:
		p = memchr(m->d + s, '\r', m->len - s);
		q = memchr(m->d + s, '\n', p ? (size_t)(p - (m->d + s)) : m->len - s);
		if (q) p = q;
		if (!p) return -1;
		i = (size_t)(p - m->d);
		{ size_t j = i; while (j < m->len && is_crlf(m->d[j])) j++; *eol_len = j - i; }
		return (ssize_t)i;
	case BS_EOL_CRLF:
		p = memchr(m->d + s, '\n', m->len - s);
		if (!p) return -1;
		i = (size_t)(p - m->d);
		if (i > s && m->d[i - 1] == '\r') { *eol_len = 2; return (ssize_t)(i - 1); }
		*eol_len = 1;
		return (ssize_t)i;
	case BS_EOL_CRLF_STRICT:
		p = memmem(m->d + s, m->len - s, "\r\n", 2);
		if (!p) return -1;
		*eol_len = 2;
		return (ssize_t)(p - m->d);
	case BS_EOL_LF:
	case BS_EOL_NUL:
		p = memchr(m->d + s, style == BS_EOL_LF ? '\n' : 0, m->len - s);
		if (!p) return -1;
		*eol_len = 1;
		return (ssize_t)(p - m->d);
	}
	return -1;
}

int bs_readln(struct bytestr *m, enum bs_eol style, unsigned char *line, size_t *line_len)
{
	size_t el; ssize_t p;
	*line_len = 0;
	if (m->fz_start) return 0;
	p = bs_search_eol(m, -1, style, &el);
	if (p < 0) return 0;
	memcpy(line, m->d, (size_t)p);
	*line_len = (size_t)p;
	drop_front(m, (size_t)p + el);
	return 1;
}

int bs_freeze(struct bytestr *m, int start) { if (start) m->fz_start = 1; else m->fz_end = 1; return 0; }
int bs_unfreeze(struct bytestr *m, int start) { if (start) m->fz_start = 0; else m->fz_end = 0; return 0; }

int bs_reserve(const struct bytestr *m) { return m->fz_end ? -1 : 0; }

int bs_commit(struct bytestr *m, const void *data, size_t n)
{
	if (m->fz_end) return -1;
	append(m, data, n);
	return 0;
}
