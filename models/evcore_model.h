/* Reference model of libevent's event core (event_base + events + timers +
 * priorities + loop control + deferred callbacks + prepare/check watchers).
 *
 * Coded from DESIGN.md Appendix D ("golden semantics of the event core"),
 * Appendix A (how ambiguous wording is pinned down) and the public headers
 * event2/event.h, event2/watch.h — not from event.c.  It is an abstract machine:
 * no heap, no lists of pointers, no file descriptors, no clock.  The harness
 * (harness/evcore.c) drives the real library and this model with the same
 * operations and compares everything a user can observe.
 *
 * The event loop is modelled as a *generator of observables*: each call to
 * em_loop_next() advances the model's loop to the next thing a user can see
 * (a prepare watcher call, the backend wait with its timeout, a check watcher
 * call, an event callback, the return of event_base_loop).  The harness calls
 * it whenever the real loop produces an observable and compares the two.
 *
 * Documented nondeterminism (Appendix A: "ties between equal deadlines may run
 * in either order"; order of I/O events of different fds in one wait; order of
 * the events of one signal) is represented by *tie groups*: queue entries
 * that were activated in one batch with the same key share a tie id, and
 * among the tied entries at the head of a queue the model follows the order
 * the implementation took (the `hint`).
 */
#ifndef EVCORE_MODEL_H
#define EVCORE_MODEL_H
#include <stdint.h>

/* event flags (values of event2/event.h) */
#define EM_TIMEOUT 0x01
#define EM_READ    0x02
#define EM_WRITE   0x04
#define EM_SIGNAL  0x08
#define EM_PERSIST 0x10
#define EM_CLOSED  0x80
#define EM_IOMASK  (EM_READ | EM_WRITE | EM_CLOSED)
#define EM_PENDMASK (EM_TIMEOUT | EM_READ | EM_WRITE | EM_CLOSED | EM_SIGNAL)

#define EM_LOOP_ONCE 0x01
#define EM_LOOP_NONBLOCK 0x02
#define EM_LOOP_NO_EXIT_ON_EMPTY 0x04

#define EM_COUNT_ACTIVE 1u
#define EM_COUNT_VIRTUAL 2u
#define EM_COUNT_ADDED 4u

#define EM_NOLIMIT 0x7fffffff
#define EM_INF ((int64_t)-1)

/* ids of callbacks known to the model */
#define EM_NSLOT 4      /* user events */
#define EM_NCTL 3       /* common-timeout queues (each owns one internal timer) */
#define EM_NONCE 6      /* pending event_base_loopexit() one-shot events */
#define EM_NDEFER 34    /* deferred callbacks (MAX_DEFERREDS_QUEUED + 2) */
#define EM_ID_SIG   (EM_NSLOT)                 /* internal: signal socketpair reader */
#define EM_ID_CTL0  (EM_ID_SIG + 1)            /* internal: timer of common queue i */
#define EM_ID_ONCE0 (EM_ID_CTL0 + EM_NCTL)
#define EM_ID_DEFER0 (EM_ID_ONCE0 + EM_NONCE)
#define EM_NEV (EM_ID_DEFER0 + EM_NDEFER)
#define EM_ID_ONCE_ANY (-2)                    /* hint: "some loopexit event ran" */

#define EM_MAXPRI 4
#define EM_NWATCH 8
#define EM_W_PREPARE 0
#define EM_W_CHECK 1

/* fd objects */
#define EM_NFD 4
#define EM_FD_RD_READY 0   /* read end of a pipe holding data */
#define EM_FD_RD_EMPTY 1   /* read end of an empty pipe */
#define EM_FD_WR_READY 2   /* write end of a pipe with room */
#define EM_FD_SIGPAIR 3    /* the base's internal signal socketpair */

enum em_role { EM_R_USER = 0, EM_R_SIGINT, EM_R_CTL, EM_R_ONCE, EM_R_DEFER };

struct em_cfg {
	int npri;             /* number of priorities */
	int no_cache;         /* EVENT_BASE_FLAG_NO_CACHE_TIME */
	int maxcb;            /* max_dispatch_callbacks, EM_NOLIMIT = none */
	int64_t maxtime;      /* max_dispatch_interval in us, -1 = none */
	int limit_after;      /* limit_callbacks_after_prio as configured */
};

struct em_ev {
	unsigned char used, init, role, internal;
	short what;           /* EV_* of the assignment */
	short fdobj;          /* fd object (I/O events) */
	short pri;
	unsigned char inserted, timeout, active, later;
	short res;            /* result flags of the (pending) activation */
	short ncalls;         /* signal events */
	unsigned char pn;     /* signal events: "callback loop may be aborted" */
	int64_t deadline;     /* absolute virtual us; stale once the timeout is gone */
	int64_t interval;     /* persistent interval, 0 = none */
	short common;         /* common queue of the pending timeout, -1 = heap */
	short icommon;        /* common queue of the interval */
	short ctl;            /* EM_R_CTL: which queue */
	uint32_t tie;
};

struct em_q { short n; short id[EM_NEV]; };

enum em_obs_kind { EMO_NONE = 0, EMO_PREPARE, EMO_WAIT, EMO_CHECK, EMO_CALLBACK, EMO_RETURN };
struct em_obs {
	int kind;
	int id;               /* watcher id / callback id */
	int res;              /* callback: result flags */
	int64_t timeout;      /* prepare / wait: us, EM_INF = none */
	int retval;           /* return */
};

struct em_loop {
	int pc;
	int flags, done, retval;
	int64_t tv;
	int w;
	/* event_process_active */
	int i, c, count, q_max, q_end, has_end, limit, maxcb;
	int64_t endtime;
	int cur, sig_n;
	int ran_timers;       /* bookkeeping for the harness: iteration serial */
};

struct em_watch { unsigned char live, type; uint32_t born_pass, seen_pass; };

struct em {
	struct em_cfg cfg;
	int64_t clock;        /* kept equal to the virtual clock by the harness */
	int64_t cache;        /* cached iteration reading, -1 = none */
	struct em_ev ev[EM_NEV];
	struct em_q active[EM_MAXPRI], later, ctlq[EM_NCTL];
	int64_t ctl_dur[EM_NCTL];
	int nctl;
	int count, count_max, count_max_hi, nactive, nactive_max, virt, virt_max;
	int term, brk, cont, running, running_pri, ndeferred, current;
	int limit_eff;        /* effective limit_callbacks_after_prio */
	/* signals (one signal number) */
	int nsig_inserted, sig_handler, sig_internal_added, sigbytes;
	/* I/O registrations */
	int nread[EM_NFD], nwrite[EM_NFD];
	/* watchers */
	struct em_watch w[EM_NWATCH];
	struct em_q wl[2];
	uint32_t pass[2];
	int in_pass[2];
	uint32_t tie_serial;
	uint32_t iter_serial;     /* number of waits so far (harness bookkeeping) */
	int64_t last_reading;     /* clock reading taken after the most recent wait */
	struct em_loop L;
};

void em_init(struct em *m, const struct em_cfg *cfg);

/* events */
void em_assign(struct em *m, int id, int what, int fdobj);     /* event_new / event_assign */
void em_free(struct em *m, int id);                            /* event_free / del + unassign */
int  em_add(struct em *m, int id, int has_tv, int64_t tv_us, int common);
int  em_del(struct em *m, int id);
int  em_remove_timer(struct em *m, int id);
void em_active(struct em *m, int id, int res, int ncalls);
void em_active_later(struct em *m, int id, int res);
int  em_priority_set(struct em *m, int id, int pri);
int  em_pending(const struct em *m, int id, int mask, int64_t *deadline_out);
int  em_initialized(const struct em *m, int id);
int  em_in_foreach(const struct em *m, int id);                /* visited by event_base_foreach_event */
int  em_num_events(const struct em *m, unsigned mask);
int  em_max_events(struct em *m, unsigned mask, int clear);
void em_virtual(struct em *m, int delta);
void em_max_added_range(const struct em *m, int *lo, int *hi);
void em_max_added_resolve(struct em *m, int v);
/* base */
int  em_common_init(struct em *m, int64_t dur_us);             /* event_base_init_common_timeout → queue index, -1 = full */
int  em_loopexit(struct em *m, int has_tv, int64_t tv_us);     /* 0 ok, -2 = model table full (harness must not call the library) */
int  em_once_free_slots(const struct em *m);
void em_loopbreak(struct em *m);
void em_loopcontinue(struct em *m);
int  em_got_break(const struct em *m);
int  em_got_exit(const struct em *m);
int64_t em_cached_now(const struct em *m);                     /* what gettime would report (mono us) */
int  em_has_cache(const struct em *m);
/* deferred callbacks */
void em_defer_init(struct em *m, int k, int pri);
int  em_defer_schedule(struct em *m, int k);
void em_defer_cancel(struct em *m, int k);
/* signals */
void em_raise(struct em *m);
int  em_sig_handler_installed(const struct em *m);
/* watchers */
int  em_watch_new(struct em *m, int type);                     /* → id, -1 = table full */
void em_watch_free(struct em *m, int id);
/* loop */
int  em_loop_begin(struct em *m, int flags);                   /* -1: reentrant */
void em_loop_next(struct em *m, const struct em_obs *hint, struct em_obs *out);
int  em_loop_running(const struct em *m);
int  em_ready_fds(const struct em *m);                        /* registered fds the next wait will report */

/* canonical hash of the whole model state (see the argument in the .c file) */
uint64_t em_canon(const struct em *m, uint64_t h);

#endif
