/* Shared helpers of the `backend` harness family (C04, C05, C07, C11).
 *
 *  - backend selection through event_config (epoll / epoll+changelist / poll / select,
 *    self-pipe or signalfd signal mechanism)
 *  - reading the kernel's epoll interest list back from /proc/self/fdinfo/<epfd>
 *  - identification of libevent's own internal fds (signal pair, notify fds, signalfds)
 *  - per-execution hygiene (allocator baseline, fd table, signal dispositions, blocked mask)
 *  - fork helper: the child runs a continuation and reports through a pipe, never
 *    returns into the explorer
 *
 * Everything is `static`: each harness is one translation unit. */
#ifndef BACKEND_COMMON_H
#define BACKEND_COMMON_H

#include "mcx.h"
#include "vclock.h"
#include <event2/event.h>
#include <event2/event_struct.h>
#include <event2/thread.h>
#include "event-internal.h"
#include "evsignal-internal.h"
#include "evmap-internal.h"
#include "changelist-internal.h"
#include <sys/socket.h>
#include <sys/epoll.h>
#include <sys/wait.h>
#include <netinet/in.h>
#include <netinet/tcp.h>
#include <arpa/inet.h>
#include <poll.h>
#include <signal.h>
#include <fcntl.h>
#include <unistd.h>
#include <errno.h>
#include <stdio.h>
#include <stdlib.h>
#include <string.h>
#include <stdarg.h>

#ifndef POLLRDHUP
#define POLLRDHUP 0x2000
#endif

enum { BK_EPOLL = 0, BK_EPOLL_CL = 1, BK_POLL = 2, BK_SELECT = 3, BK_N = 4 };
static const char *const bk_name[BK_N] = { "epoll", "epoll-changelist", "poll", "select" };
static const char *const bk_method[BK_N] = { "epoll", "epoll (with changelist)", "poll", "select" };

/* real (unwrapped) system calls: harness probes must not go through the vclock wrappers */
int __real_poll(struct pollfd *, nfds_t, int);

/* Freed memory is recycled quickly instead of sitting in ASan's 256 MB quarantine:
 * first-touch page faults are very expensive in this VM and every execution
 * allocates the same few objects (use-after-free detection keeps a 4 MB window). */
const char *__asan_default_options(void);
const char *__asan_default_options(void) { return "quarantine_size_mb=4:thread_local_quarantine_size_kb=256"; }

static void bk_quiet_log(int sev, const char *msg) { (void)sev; (void)msg; }

/* number of warnings libevent logged in this execution (a warning from the
 * backend add/del path means a kernel call failed unexpectedly) */
static int bk_warnings; static char bk_last_warning[200];
static void bk_count_log(int sev, const char *msg)
{
	if (sev >= EVENT_LOG_WARN) { bk_warnings++; snprintf(bk_last_warning, sizeof bk_last_warning, "%s", msg); }
}

static void bk_process_init(void)
{
	mcx_alloc_install();
	event_set_log_callback(bk_count_log);
	unsetenv("EVENT_USE_SIGNALFD"); unsetenv("EVENT_EPOLL_USE_CHANGELIST");
	unsetenv("EVENT_NOEPOLL"); unsetenv("EVENT_NOPOLL"); unsetenv("EVENT_NOSELECT");
	unsetenv("EVENT_PRECISE_TIMER"); unsetenv("EVENT_SHOW_METHOD");
}

/* A fresh base using exactly the requested backend and signal mechanism.
 * Returns NULL (after mc_fail) if libevent picked something else. */
static struct event_base *bk_new_base(int bk, int sigfd)
{
	struct event_config *cfg = event_config_new();
	struct event_base *b;
	int flags = EVENT_BASE_FLAG_IGNORE_ENV;
	if (!cfg) { mc_fail("harness:config", "event_config_new failed"); return NULL; }
	if (bk != BK_EPOLL && bk != BK_EPOLL_CL) event_config_avoid_method(cfg, "epoll");
	if (bk != BK_POLL) event_config_avoid_method(cfg, "poll");
	if (bk != BK_SELECT) event_config_avoid_method(cfg, "select");
	if (bk == BK_EPOLL_CL) flags |= EVENT_BASE_FLAG_EPOLL_USE_CHANGELIST;
	if (sigfd) flags |= EVENT_BASE_FLAG_USE_SIGNALFD;
	event_config_set_flag(cfg, flags);
	b = event_base_new_with_config(cfg);
	event_config_free(cfg);
	if (!b) { mc_fail("harness:base", "no base for backend %s", bk_name[bk]); return NULL; }
	if (strcmp(event_base_get_method(b), bk_method[bk])) {
		mc_fail("harness:base-method", "asked for %s, got %s", bk_method[bk], event_base_get_method(b));
		event_base_free(b);
		return NULL;
	}
	b->weakrand_seed.seed = 12345;    /* poll/select start offset: fixed for determinism */
	return b;
}

/* ---- libevent's own fds -------------------------------------------------- */
static int bk_is_internal_fd(struct event_base *b, int fd)
{
	int i;
	if (fd < 0) return 0;
	if (fd == b->sig.ev_signal_pair[0] || fd == b->sig.ev_signal_pair[1]) return 1;
	if (fd == b->th_notify_fd[0] || fd == b->th_notify_fd[1]) return 1;
	if (b->flags & EVENT_BASE_FLAG_USE_SIGNALFD)
		for (i = 1; i < NSIG; i++)
			if (b->sig.ev_sigevent[i] && b->sig.ev_sigevent[i]->ev_fd == fd) return 1;
	return 0;
}

/* ---- epoll interest list from /proc ------------------------------------- */
struct bk_epreg { int fd; unsigned events; };
/* fills out[] with up to max entries; returns count or -1 */
static int bk_epoll_registrations(int epfd, struct bk_epreg *out, int max)
{
	/* raw open/read, no stdio: this runs at every wait (and in forked children, where every
	 * allocation is a copy-on-write fault) */
	char fn[64], buf[4096]; int n = 0, fd; ssize_t len, got = 0;
	snprintf(fn, sizeof fn, "/proc/self/fdinfo/%d", epfd);
	fd = open(fn, O_RDONLY | O_CLOEXEC);
	if (fd < 0) return -1;
	while (got < (ssize_t)sizeof buf - 1 && (len = read(fd, buf + got, sizeof buf - 1 - got)) > 0) got += len;
	close(fd);
	buf[got] = 0;
	for (char *p = buf; (p = strstr(p, "tfd:")) != NULL; ) {
		char *e; long t = strtol(p + 4, &e, 10);
		char *q = strstr(e, "events:");
		if (!q) break;
		unsigned long ev = strtoul(q + 7, &e, 16);
		if (n < max) { out[n].fd = (int)t; out[n].events = (unsigned)ev; n++; }
		p = e;
	}
	return n;
}

/* ---- signal disposition snapshots ---------------------------------------- */
static int bk_sigaction_equal(const struct sigaction *a, const struct sigaction *b)
{
	int s;
	if (a->sa_handler != b->sa_handler) return 0;
	/* SA_RESTORER is added by libc itself */
	if ((a->sa_flags & ~0x04000000) != (b->sa_flags & ~0x04000000)) return 0;
	for (s = 1; s < NSIG; s++)
		if (sigismember(&a->sa_mask, s) != sigismember(&b->sa_mask, s)) return 0;
	return 1;
}
static void bk_sigaction_str(const struct sigaction *a, char *buf, size_t n, const void *h1, const void *h2)
{
	int s, o;
	o = snprintf(buf, n, "handler=%s flags=%#x mask={", a->sa_handler == SIG_DFL ? "DFL" : a->sa_handler == SIG_IGN ? "IGN" :
	    (const void *)a->sa_handler == h1 ? "user1" : (const void *)a->sa_handler == h2 ? "user2" : "other",
	    (unsigned)(a->sa_flags & ~0x04000000));
	for (s = 1; s < 32 && o < (int)n - 8; s++) if (sigismember(&a->sa_mask, s) == 1) o += snprintf(buf + o, n - o, "%d,", s);
	snprintf(buf + o, n - o, "}");
}

/* ---- fork helper ---------------------------------------------------------
 * bk_fork(): returns 0 in the child, child pid in the parent.  The child must
 * end with bk_child_exit(); everything it logged with bk_clog()/bk_cfail() is
 * returned to the parent by bk_collect(), which turns failures into mc_fail. */
static int bk_child_pipe = -1; static int bk_in_child;
static char bk_cbuf[1 << 15]; static int bk_clen;
static int bk_parent_rd = -1;

static void bk_cappend(const char *s)
{
	int l = (int)strlen(s);
	if (bk_clen + l < (int)sizeof bk_cbuf) { memcpy(bk_cbuf + bk_clen, s, l); bk_clen += l; }
}
/* log line shared by parent and child: in the child it goes to the report */
static void bk_cfail(const char *key, const char *fmt, ...)
{
	char msg[600], line[900]; va_list ap;
	va_start(ap, fmt); vsnprintf(msg, sizeof msg, fmt, ap); va_end(ap);
	if (!bk_in_child) { mc_fail(key, "%s", msg); return; }
	for (char *p = msg; *p; p++) if (*p == '\n' || *p == '\t') *p = ' ';
	snprintf(line, sizeof line, "F\t%s\t%s\n", key, msg);
	bk_cappend(line);
}
static pid_t bk_fork(void)
{
	int p[2]; pid_t pid;
	if (pipe(p) < 0) { mc_fail("harness:pipe", "%s", strerror(errno)); return -1; }
	fflush(stdout); fflush(stderr);
	pid = fork();
	if (pid < 0) { close(p[0]); close(p[1]); mc_fail("harness:fork", "%s", strerror(errno)); return -1; }
	if (pid == 0) {
		close(p[0]);
		bk_child_pipe = p[1]; bk_in_child = 1; bk_clen = 0;
		return 0;
	}
	close(p[1]);
	bk_parent_rd = p[0];
	return pid;
}
static void bk_child_exit(void) __attribute__((noreturn));
static void bk_child_exit(void)
{
	int off = 0;
	while (off < bk_clen) {
		ssize_t w = write(bk_child_pipe, bk_cbuf + off, bk_clen - off);
		if (w <= 0) break;
		off += (int)w;
	}
	_exit(0);
}
/* Parent: read the child's report until EOF, reap it.  Lines "F\tkey\tmsg" become
 * mc_fail(key); all other bytes are appended to out (NUL terminated).  Returns 0 if
 * the child exited normally with status 0. */
static int bk_collect(pid_t pid, char *out, size_t outsz, const char *crash_key)
{
	static char buf[1 << 15]; int n = 0, st = 0; size_t o = 0;
	for (;;) {
		ssize_t r = read(bk_parent_rd, buf + n, sizeof buf - 1 - n);
		if (r < 0 && errno == EINTR) continue;
		if (r <= 0) break;
		n += (int)r;
		if (n >= (int)sizeof buf - 1) break;
	}
	buf[n] = 0;
	close(bk_parent_rd); bk_parent_rd = -1;
	while (waitpid(pid, &st, 0) < 0 && errno == EINTR) ;
	if (out && outsz) out[0] = 0;
	for (char *line = buf; *line; ) {
		char *nl = strchr(line, '\n'); if (nl) *nl = 0;
		if (line[0] == 'F' && line[1] == '\t') {
			char *key = line + 2, *tab = strchr(key, '\t');
			if (tab) { *tab = 0; mc_fail(key, "[child] %s", tab + 1); }
		} else if (out) {
			size_t l = strlen(line);
			if (o + l + 2 < outsz) { memcpy(out + o, line, l); o += l; out[o++] = '\n'; out[o] = 0; }
		}
		if (!nl) break;
		line = nl + 1;
	}
	if (!WIFEXITED(st) || WEXITSTATUS(st) != 0) {
		if (WIFSIGNALED(st)) mc_fail(crash_key, "forked child died with signal %d", WTERMSIG(st));
		else mc_fail(crash_key, "forked child exited with status %d", WEXITSTATUS(st));
		return -1;
	}
	return 0;
}

/* move fd to a fixed number (the original is closed) */
static int bk_move_fd(int fd, int to)
{
	if (fd == to) return to;
	if (dup2(fd, to) < 0) { mc_fail("harness:dup2", "dup2(%d,%d): %s", fd, to, strerror(errno)); return -1; }
	close(fd);
	return to;
}

#endif
