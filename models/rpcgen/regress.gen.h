
/*
 * Automatically generated from regress.rpc
 */

#ifndef EVENT_RPCOUT_REGRESS_RPC_
#define EVENT_RPCOUT_REGRESS_RPC_


#include <event2/util.h> /* for ev_uint*_t */
#include <event2/rpc.h>
struct msg;
struct kill;
struct run;

/* Tag definition for msg */
enum msg_ {
  MSG_FROM_NAME=1,
  MSG_TO_NAME=2,
  MSG_ATTACK=3,
  MSG_RUN=4,
  MSG_MAX_TAGS
};

/* Structure declaration for msg */
struct msg_access_ {
  int (*from_name_assign)(struct msg *, const char *);
  int (*from_name_get)(struct msg *, char * *);
  int (*to_name_assign)(struct msg *, const char *);
  int (*to_name_get)(struct msg *, char * *);
  int (*attack_assign)(struct msg *, const struct kill*);
  int (*attack_get)(struct msg *, struct kill* *);
  int (*run_assign)(struct msg *, int, const struct run*);
  int (*run_get)(struct msg *, int, struct run* *);
  struct run*  (*run_add)(struct msg *msg);
};

struct msg {
  struct msg_access_ *base;

  char *from_name_data;
  char *to_name_data;
  struct kill* attack_data;
  struct run* *run_data;
  int run_length;
  int run_num_allocated;

  ev_uint8_t from_name_set;
  ev_uint8_t to_name_set;
  ev_uint8_t attack_set;
  ev_uint8_t run_set;
};

struct msg *msg_new(void);
struct msg *msg_new_with_arg(void *);
void msg_free(struct msg *);
void msg_clear(struct msg *);
void msg_marshal(struct evbuffer *, const struct msg *);
int msg_unmarshal(struct msg *, struct evbuffer *);
int msg_complete(struct msg *);
void evtag_marshal_msg(struct evbuffer *, ev_uint32_t,
    const struct msg *);
int evtag_unmarshal_msg(struct evbuffer *, ev_uint32_t,
    struct msg *);
int msg_from_name_assign(struct msg *, const char *);
int msg_from_name_get(struct msg *, char * *);
int msg_to_name_assign(struct msg *, const char *);
int msg_to_name_get(struct msg *, char * *);
int msg_attack_assign(struct msg *, const struct kill*);
int msg_attack_get(struct msg *, struct kill* *);
int msg_run_assign(struct msg *, int, const struct run*);
int msg_run_get(struct msg *, int, struct run* *);
struct run*  msg_run_add(struct msg *msg);
/* --- msg done --- */

/* Tag definition for kill */
enum kill_ {
  KILL_WEAPON=65825,
  KILL_ACTION=2,
  KILL_HOW_OFTEN=3,
  KILL_MAX_TAGS
};

/* Structure declaration for kill */
struct kill_access_ {
  int (*weapon_assign)(struct kill *, const char *);
  int (*weapon_get)(struct kill *, char * *);
  int (*action_assign)(struct kill *, const char *);
  int (*action_get)(struct kill *, char * *);
  int (*how_often_assign)(struct kill *, int, const ev_uint32_t);
  int (*how_often_get)(struct kill *, int, ev_uint32_t *);
  ev_uint32_t * (*how_often_add)(struct kill *msg, const ev_uint32_t value);
};

struct kill {
  struct kill_access_ *base;

  char *weapon_data;
  char *action_data;
  ev_uint32_t *how_often_data;
  int how_often_length;
  int how_often_num_allocated;

  ev_uint8_t weapon_set;
  ev_uint8_t action_set;
  ev_uint8_t how_often_set;
};

struct kill *kill_new(void);
struct kill *kill_new_with_arg(void *);
void kill_free(struct kill *);
void kill_clear(struct kill *);
void kill_marshal(struct evbuffer *, const struct kill *);
int kill_unmarshal(struct kill *, struct evbuffer *);
int kill_complete(struct kill *);
void evtag_marshal_kill(struct evbuffer *, ev_uint32_t,
    const struct kill *);
int evtag_unmarshal_kill(struct evbuffer *, ev_uint32_t,
    struct kill *);
int kill_weapon_assign(struct kill *, const char *);
int kill_weapon_get(struct kill *, char * *);
int kill_action_assign(struct kill *, const char *);
int kill_action_get(struct kill *, char * *);
int kill_how_often_assign(struct kill *, int, const ev_uint32_t);
int kill_how_often_get(struct kill *, int, ev_uint32_t *);
ev_uint32_t * kill_how_often_add(struct kill *msg, const ev_uint32_t value);
/* --- kill done --- */

/* Tag definition for run */
enum run_ {
  RUN_HOW=1,
  RUN_SOME_BYTES=2,
  RUN_FIXED_BYTES=3,
  RUN_NOTES=4,
  RUN_LARGE_NUMBER=5,
  RUN_OTHER_NUMBERS=6,
  RUN_MAX_TAGS
};

/* Structure declaration for run */
struct run_access_ {
  int (*how_assign)(struct run *, const char *);
  int (*how_get)(struct run *, char * *);
  int (*some_bytes_assign)(struct run *, const ev_uint8_t *, ev_uint32_t);
  int (*some_bytes_get)(struct run *, ev_uint8_t * *, ev_uint32_t *);
  int (*fixed_bytes_assign)(struct run *, const ev_uint8_t *);
  int (*fixed_bytes_get)(struct run *, ev_uint8_t **);
  int (*notes_assign)(struct run *, int, const char *);
  int (*notes_get)(struct run *, int, char * *);
  char * * (*notes_add)(struct run *msg, const char * value);
  int (*large_number_assign)(struct run *, const ev_uint64_t);
  int (*large_number_get)(struct run *, ev_uint64_t *);
  int (*other_numbers_assign)(struct run *, int, const ev_uint32_t);
  int (*other_numbers_get)(struct run *, int, ev_uint32_t *);
  ev_uint32_t * (*other_numbers_add)(struct run *msg, const ev_uint32_t value);
};

struct run {
  struct run_access_ *base;

  char *how_data;
  ev_uint8_t *some_bytes_data;
  ev_uint32_t some_bytes_length;
  ev_uint8_t fixed_bytes_data[24];
  char * *notes_data;
  int notes_length;
  int notes_num_allocated;
  ev_uint64_t large_number_data;
  ev_uint32_t *other_numbers_data;
  int other_numbers_length;
  int other_numbers_num_allocated;

  ev_uint8_t how_set;
  ev_uint8_t some_bytes_set;
  ev_uint8_t fixed_bytes_set;
  ev_uint8_t notes_set;
  ev_uint8_t large_number_set;
  ev_uint8_t other_numbers_set;
};

struct run *run_new(void);
struct run *run_new_with_arg(void *);
void run_free(struct run *);
void run_clear(struct run *);
void run_marshal(struct evbuffer *, const struct run *);
int run_unmarshal(struct run *, struct evbuffer *);
int run_complete(struct run *);
void evtag_marshal_run(struct evbuffer *, ev_uint32_t,
    const struct run *);
int evtag_unmarshal_run(struct evbuffer *, ev_uint32_t,
    struct run *);
int run_how_assign(struct run *, const char *);
int run_how_get(struct run *, char * *);
int run_some_bytes_assign(struct run *, const ev_uint8_t *, ev_uint32_t);
int run_some_bytes_get(struct run *, ev_uint8_t * *, ev_uint32_t *);
int run_fixed_bytes_assign(struct run *, const ev_uint8_t *);
int run_fixed_bytes_get(struct run *, ev_uint8_t **);
int run_notes_assign(struct run *, int, const char *);
int run_notes_get(struct run *, int, char * *);
char * * run_notes_add(struct run *msg, const char * value);
int run_large_number_assign(struct run *, const ev_uint64_t);
int run_large_number_get(struct run *, ev_uint64_t *);
int run_other_numbers_assign(struct run *, int, const ev_uint32_t);
int run_other_numbers_get(struct run *, int, ev_uint32_t *);
ev_uint32_t * run_other_numbers_add(struct run *msg, const ev_uint32_t value);
/* --- run done --- */

#endif  /* EVENT_RPCOUT_REGRESS_RPC_ */