/* Compiles the generated fixture (regress.gen.c, produced once with
 *   python3 /repo/event_rpcgen.py --quiet regress.rpc
 * from /repo/test/regress.rpc) unchanged, with one redirection: its free()
 * goes through rpcgen_free().  Reason: evtag_unmarshal_string() allocates the
 * string with mm_malloc() (i.e. the allocator installed with
 * event_set_mem_functions), while the generated code releases it with plain
 * free().  The harness allocator counts live library allocations, so the shim
 * lets it see those releases. */
#include <stdlib.h>
#include <string.h>
void rpcgen_free(void *p);
#define free(p) rpcgen_free(p)
#include "regress.gen.c"
