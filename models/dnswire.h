/* dnswire — independent reference encoder/decoder for the DNS wire format.
 *
 * Written from RFC 1035 (§2.3.4 size limits, §3.1 name space, §4.1 message
 * format, §4.1.4 compression), RFC 2181 §8 (TTL), RFC 6891 §6.1.2 (OPT).  It
 * shares no code and no parsing strategy with evdns.c: names are kept as label
 * vectors, the reader is a cursor over the message, loops are found with a
 * visited bitmap (not a hop count), and pointer targets are validated against
 * the set of label starts written earlier in the message.
 *
 * Used by the dnspkt harness family (C33, C35, C36, C37).
 */
#ifndef DNSWIRE_H
#define DNSWIRE_H
#include <stdint.h>
#include <stddef.h>

#define DW_MAX_LABEL      63
#define DW_MAX_NAME_WIRE  255          /* RFC 1035 §2.3.4 */
#define DW_LENIENT_WIRE   300          /* decoder keeps going up to here, flags `overlong` */
#define DW_MAX_LABELS     160

/* result codes (0 = ok, negative = why the object cannot be decoded/encoded) */
enum {
	DW_OK = 0,
	DW_E_TRUNC = -1,        /* ran off the end of the message */
	DW_E_PTR_RANGE = -2,    /* compression pointer target outside the message */
	DW_E_PTR_LOOP = -3,     /* compression pointers form a cycle */
	DW_E_LABEL_TYPE = -4,   /* label length octet with 01/10 top bits */
	DW_E_NAME_LONG = -5,    /* longer than DW_LENIENT_WIRE octets */
	DW_E_RDATA = -6,        /* rdata runs past the end of the message */
	DW_E_EMPTY_LABEL = -7,  /* text form: empty label that is not the final root */
	DW_E_LABEL_LONG = -8,   /* text form: label > 63 octets */
	DW_E_TEXT_LONG = -9     /* text form: encodes to more than 255 octets */
};

#define DW_TYPE_A     1
#define DW_TYPE_NS    2
#define DW_TYPE_CNAME 5
#define DW_TYPE_SOA   6
#define DW_TYPE_PTR   12
#define DW_TYPE_TXT   16
#define DW_TYPE_AAAA  28
#define DW_TYPE_OPT   41
#define DW_CLASS_IN   1
#define DW_CLASS_CH   3

#define DW_F_QR   0x8000u
#define DW_F_OPCODE 0x7800u
#define DW_F_AA   0x0400u
#define DW_F_TC   0x0200u
#define DW_F_RD   0x0100u
#define DW_F_RA   0x0080u
#define DW_F_RCODE 0x000fu

struct dw_name {
	int nlabels;
	uint8_t llen[DW_MAX_LABELS];       /* length of each label */
	uint16_t lpos[DW_MAX_LABELS];      /* offset of each label inside data[] */
	uint8_t data[DW_LENIENT_WIRE + 8]; /* label octets, concatenated */
	int wire_len;                      /* uncompressed encoded length incl. the root octet */
	/* decode metadata */
	int n_ptr;                         /* compression pointers followed */
	int fwd_ptr;                       /* a pointer whose target is not before the pointer itself */
	int bad_target;                    /* a pointer whose target is not a label start written earlier */
	int overlong;                      /* wire_len > 255 */
	int has_nul, has_dot;              /* a label contains a NUL / a '.' octet */
};

struct dw_header { uint16_t id, flags, qd, an, ns, ar; };
struct dw_question { struct dw_name name; uint16_t type, class_; };
struct dw_rr {
	struct dw_name owner;
	uint16_t type, class_;
	uint32_t ttl;
	uint16_t rdlen;
	size_t start, rdata, end;          /* offsets: first octet of the RR, of the rdata, one past the rdata */
};

struct dw_reader {
	const uint8_t *msg;
	size_t len, off;
	uint8_t lstart[65536 / 8];         /* offsets at which a label (or root octet) was written inline */
	uint8_t seen[65536 / 8];           /* scratch for loop detection */
};

/* ---- text <-> labels ---- */
/* Parse a dotted presentation name (no escapes: every octet other than '.' is
 * label data).  "" and "." are the root; one trailing dot is allowed. */
int  dw_name_from_text(const char *s, size_t slen, struct dw_name *out);
/* Join labels with '.', octets verbatim, no trailing dot, NUL-terminated;
 * returns the number of octets before the terminator.  cap must be >= 320. */
size_t dw_name_text(const struct dw_name *n, char *out, size_t cap);
int  dw_name_eq(const struct dw_name *a, const struct dw_name *b, int ascii_case_insensitive);
void dw_name_init(struct dw_name *n);
int  dw_name_add_label(struct dw_name *n, const void *p, size_t l);   /* 0 ok, <0 too long */

/* ---- encoder (never compresses) ---- */
size_t dw_put_u8(uint8_t *b, size_t cap, size_t off, unsigned v);
size_t dw_put_u16(uint8_t *b, size_t cap, size_t off, unsigned v);
size_t dw_put_u32(uint8_t *b, size_t cap, size_t off, uint32_t v);
size_t dw_put_bytes(uint8_t *b, size_t cap, size_t off, const void *p, size_t n);
size_t dw_put_name(uint8_t *b, size_t cap, size_t off, const struct dw_name *n);
size_t dw_put_header(uint8_t *b, size_t cap, const struct dw_header *h);
/* all return the new offset, or (size_t)-1 when cap would be exceeded */

/* ---- decoder ---- */
void dw_reader_init(struct dw_reader *r, const uint8_t *msg, size_t len);
int  dw_read_header(struct dw_reader *r, struct dw_header *h);
/* decode a (possibly compressed) name starting at `at`; *next = offset after
 * the name in the sequential stream.  Inline label starts are recorded in
 * r->lstart when `record` is set. */
int  dw_name_decode(struct dw_reader *r, size_t at, size_t *next, struct dw_name *out, int record);
int  dw_read_question(struct dw_reader *r, struct dw_question *q);
/* owner, type, class, ttl, rdlength; checks that the rdata lies inside the
 * message; leaves r->off at rr->end (rdlength-driven). */
int  dw_read_rr(struct dw_reader *r, struct dw_rr *rr);
/* decode the domain name that starts at offset `at` inside an rdata; *name_end
 * = offset after the name.  The caller compares with rr->end. */
int  dw_read_rdata_name(struct dw_reader *r, size_t at, struct dw_name *out, size_t *name_end);
uint16_t dw_get_u16(const uint8_t *p);
uint32_t dw_get_u32(const uint8_t *p);
const char *dw_strerror(int e);
#endif
