/* rfc6455 — independent reference decoder / encoder for WebSocket frames,
 * written from RFC 6455 section 5 (not from libevent's ws.c).
 *
 * Two layers:
 *   rfc6455_parse_frame()   one frame header + payload from a byte buffer
 *   struct rfc6455_dec      streaming receiver: bytes in (any segmentation),
 *                           messages + terminal state out
 *
 * Receiver rules implemented (section numbers of RFC 6455):
 *   5.2  FIN, RSV1-3 (must be 0: no extension is ever negotiated here), opcode,
 *        MASK, 7 / 7+16 / 7+64 bit payload length (64-bit form: MSB must be 0),
 *        masking key, payload un-masking (5.3)
 *   5.2  opcodes 3-7 and 0xB-0xF are reserved -> fail the connection
 *   5.4  a message is one FIN frame with opcode 1/2, or a non-FIN frame with
 *        opcode 1/2 followed by zero or more non-FIN continuation frames
 *        (opcode 0) and one FIN continuation frame; control frames may be
 *        interleaved; a data frame with opcode != 0 inside a fragmented
 *        message, or a continuation frame with no message in progress, is a
 *        protocol error; the message type is the opcode of the first fragment
 *   5.5  control frames (opcode >= 8) must have FIN set and payload <= 125
 *   5.5.1 close: ends the stream; nothing is delivered after it; payload is
 *        empty or starts with a 2-byte status code (a 1-byte payload is a
 *        protocol error; both end the stream)
 *   10.4 an implementation limit on the frame size: a frame whose payload
 *        length exceeds `max_frame` fails the connection (decided on the header)
 * Policy knobs (the RFC leaves them to the endpoint role):
 *   require_mask   1: unmasked frames fail (server role, strict 5.1)
 *                  0: both accepted
 *                 -1: masked frames fail (client role)
 * Every rule is decided as soon as the frame *header* is complete; failure or
 * close is terminal: later bytes are ignored and no partial message is delivered.
 */
#ifndef RFC6455_H
#define RFC6455_H
#include <stddef.h>
#include <stdint.h>

#define RFC6455_GUID "258EAFA5-E914-47DA-95CA-C5AB0DC85B11"

enum rfc6455_state { RFC6455_OPEN = 0, RFC6455_CLOSED = 1, RFC6455_FAILED = 2 };

enum rfc6455_reason {
	RFC6455_R_NONE = 0,
	RFC6455_R_CLOSE_FRAME,        /* orderly: close frame received */
	RFC6455_R_LOCAL_CLOSE,        /* rfc6455_local_close(): the application closed */
	RFC6455_R_RSV,                /* reserved bit set */
	RFC6455_R_RESERVED_OPCODE,
	RFC6455_R_OVERSIZE,           /* payload length > max_frame */
	RFC6455_R_LEN_MSB,            /* 64-bit length with most significant bit set */
	RFC6455_R_CTRL_FRAGMENTED,    /* control frame without FIN */
	RFC6455_R_CTRL_TOO_LONG,      /* control frame payload > 125 */
	RFC6455_R_CONT_WITHOUT_START, /* continuation frame, no message in progress */
	RFC6455_R_DATA_IN_FRAGMENTED, /* opcode 1/2 while a fragmented message is in progress */
	RFC6455_R_MASK_POLICY,        /* (un)masked frame refused by require_mask */
	RFC6455_R_CLOSE_LEN1          /* close frame with a 1-byte payload */
};
const char *rfc6455_reason_name(int reason);

struct rfc6455_frame {
	int fin, rsv, opcode, masked;
	int lenform;                  /* 7, 16 or 64: which length encoding was used */
	uint64_t len;                 /* payload length */
	size_t hdr_len;               /* bytes before the payload (incl. masking key) */
	unsigned char key[4];
};

/* Parse the header at buf[0..n).  Returns 1 and fills *f when the header is
 * complete, 0 when more bytes are needed.  Never looks at the payload. */
int rfc6455_parse_header(const unsigned char *buf, size_t n, struct rfc6455_frame *f);
/* smallest legal length form for a payload length (7, 16 or 64) */
int rfc6455_minimal_lenform(uint64_t len);

struct rfc6455_msg {
	int opcode;                   /* 1 text, 2 binary */
	unsigned char *data;
	size_t len;
	int nfragments;
};

struct rfc6455_dec {
	/* configuration */
	uint64_t max_frame;
	int require_mask;
	size_t close_after_nmsgs;     /* the local application closes right after this many delivered messages (0 = never) */
	/* results */
	int state, reason;
	int frame_index_of_end;       /* index (0-based) of the frame that ended the stream, -1 */
	struct rfc6455_msg *msgs; size_t nmsgs, cap_msgs;
	struct rfc6455_frame *frames; size_t nframes, cap_frames; /* every accepted frame, in order */
	int have_close_code; unsigned close_code;
	unsigned long npings, npongs;
	/* internals */
	unsigned char *buf; size_t blen, bcap;         /* unparsed bytes */
	int in_msg, msg_opcode, msg_nfrag;             /* fragmented message in progress */
	unsigned char *acc; size_t alen, acap;         /* its payload so far */
};

void rfc6455_dec_init(struct rfc6455_dec *d, uint64_t max_frame, int require_mask);
void rfc6455_dec_feed(struct rfc6455_dec *d, const unsigned char *p, size_t n);
/* the local application closes the connection: nothing may be delivered afterwards */
void rfc6455_local_close(struct rfc6455_dec *d);
/* bytes received but not yet forming a complete frame (0 when the stream ended on a frame boundary) */
size_t rfc6455_dec_pending(const struct rfc6455_dec *d);
void rfc6455_dec_free(struct rfc6455_dec *d);

/* Reference encoder: writes one frame to out (caller provides >= 14 + len bytes).
 * lenform 0 = minimal, else 7/16/64 forced.  Returns number of bytes written. */
size_t rfc6455_encode(unsigned char *out, int fin, int rsv, int opcode, int masked,
    const unsigned char key[4], int lenform, uint64_t declared_len,
    const unsigned char *payload, size_t payload_len);

/* Sec-WebSocket-Accept for a key of keylen bytes: base64(SHA-1(key || GUID)),
 * computed with OpenSSL libcrypto.  out must hold 29 bytes.  Returns 0 on success. */
int rfc6455_accept(const char *key, size_t keylen, char out[29]);

#endif
