/* dnsmini — a small, independent DNS message builder / query decoder used by
 * the end-to-end DNS harnesses (family dnse2e: C34, C38, C39).  Written from
 * RFC 1035 section 4; shares no code with evdns.c.  No name compression is
 * produced; compression pointers are accepted when decoding a query name. */
#ifndef DNSMINI_H
#define DNSMINI_H
#include <stdint.h>

#define DM_T_A     1
#define DM_T_CNAME 5
#define DM_T_SOA   6
#define DM_T_PTR   12
#define DM_T_AAAA  28
#define DM_T_OPT   41

#define DM_F_QR 0x8000u
#define DM_F_AA 0x0400u
#define DM_F_TC 0x0200u
#define DM_F_RD 0x0100u
#define DM_F_RA 0x0080u

#define DM_RC_NOERROR  0
#define DM_RC_FORMERR  1
#define DM_RC_SERVFAIL 2
#define DM_RC_NXDOMAIN 3
#define DM_RC_NOTIMPL  4
#define DM_RC_REFUSED  5

struct dm_query {
	uint16_t id, flags, qdcount, ancount, nscount, arcount;
	char qname[256];          /* dotted text, case as sent, "" for the root */
	uint16_t qtype, qclass;
	int qend;                 /* offset just past the first question */
	int has_opt;              /* an OPT pseudo-RR follows in the additional section */
	uint16_t opt_udp_size;
	int wellformed;           /* standard query, QR=0, exactly one question, class IN,
	                             no answer/authority records, additional = 0 or one OPT,
	                             no trailing bytes */
};
/* Decode header + first question.  0 = decoded, -1 = not decodable. */
int dm_parse_query(const uint8_t *p, int len, struct dm_query *q);

struct dm_msg { uint8_t *buf; int cap, len, overflow, section; };
/* header (id, flags incl. rcode) + optionally one question (qname != NULL), class IN */
void dm_begin(struct dm_msg *m, uint8_t *buf, int cap, uint16_t id, uint16_t flags,
    const char *qname, uint16_t qtype);
/* Records.  section: 1 answer, 2 authority, 3 additional; sections must be
 * filled in that order. */
void dm_rr_raw(struct dm_msg *m, int section, const char *owner, uint16_t type, uint16_t klass,
    uint32_t ttl, const void *rdata, int rdlen);
void dm_rr_a(struct dm_msg *m, int section, const char *owner, uint32_t ttl, const uint8_t addr[4]);
void dm_rr_aaaa(struct dm_msg *m, int section, const char *owner, uint32_t ttl, const uint8_t addr[16]);
/* CNAME / PTR: rdata is one domain name */
void dm_rr_name(struct dm_msg *m, int section, const char *owner, uint16_t type, uint32_t ttl, const char *target);
void dm_rr_soa(struct dm_msg *m, int section, const char *owner, uint32_t ttl, uint32_t minimum);
int  dm_finish(struct dm_msg *m);   /* message length, or -1 when it did not fit */

/* case-insensitive comparison of two dotted names, ignoring one trailing dot */
int dm_name_eq(const char *a, const char *b);
#endif
