/* RFC 9112 reference parser used by the httpcli family (C24, C26, C27).
 *
 * Written from the grammar and the message-body-length rules of RFC 9112
 * (sections 2.2, 3, 4, 5, 6.3, 7.1, 8) and RFC 9110 (5.1, 5.5, 6.5, 15.2),
 * NOT from http.c.  One call parses one message from the front of a byte
 * string and classifies it:
 *
 *   R9_OK       a complete message was recognised (msg filled in, msg.consumed bytes used)
 *   R9_MORE     the bytes are a proper prefix of a message (only when eof == 0)
 *   R9_REJECT   the bytes cannot be accepted as a message: the RFC requires the
 *               recipient to treat the message as invalid / incomplete
 *
 * msg.lat (latitude bits) is non-zero when the verdict rests on a point where
 * the RFC allows more than one behaviour (MAY / SHOULD / no requirement for
 * this kind of recipient).  With latitude the caller may only require that
 * the implementation behaves identically for every segmentation.
 * msg.alt_reject: the message may be accepted as parsed here OR rejected
 * (e.g. identical duplicate Content-Length, NUL replaced by SP).
 */
#ifndef RFC9112_RESP_H
#define RFC9112_RESP_H
#include <stddef.h>
#include <stdint.h>

#define R9_MAXF 40

enum r9_result { R9_OK = 0, R9_MORE = 1, R9_REJECT = 2 };

enum r9_framing { R9_F_NONE = 0, R9_F_CL = 1, R9_F_CHUNKED = 2, R9_F_CLOSE = 3 };

/* latitude bits */
#define R9_LAT_BARE_LF        0x0001  /* 2.2: MAY recognise a single LF as line terminator */
#define R9_LAT_BARE_CR        0x0002  /* 2.2: bare CR: invalid or replace with SP */
#define R9_LAT_LEADING_EMPTY  0x0004  /* empty line before the start line */
#define R9_LAT_STARTLINE      0x0008  /* start line does not match the grammar; no explicit requirement for this recipient */
#define R9_LAT_VERSION        0x0010  /* version other than HTTP/1.x, or malformed */
#define R9_LAT_FIELD_SYNTAX   0x0020  /* field line not matching field-name ":" OWS value OWS (no colon, bad name chars, ws before colon in a response) */
#define R9_LAT_OBS_FOLD       0x0040  /* 5.2 obs-fold */
#define R9_LAT_TE_AND_CL      0x0080  /* 6.3 rule 3: both present ("ought to be handled as an error") */
#define R9_LAT_TE_HTTP10      0x0100  /* 6.1: Transfer-Encoding in an HTTP/1.0 message */
#define R9_LAT_TE_NOBODY      0x0200  /* TE / CL on 1xx / 204 (sender error, recipient unconstrained) */
#define R9_LAT_CHUNK_SYNTAX   0x0400  /* chunk framing deviates (missing CRLF after chunk-data, BWS without ext, bad ext syntax, bad trailer line) */
#define R9_LAT_STATUS_RANGE   0x0800  /* 3DIGIT status outside 100..599 */
#define R9_LAT_TOO_MANY       0x1000  /* more fields than the model stores (model limit; never a verdict) */
#define R9_LAT_UPGRADE        0x2000  /* 101 Switching Protocols: rest of the stream is another protocol */
#define R9_LAT_TE_UNKNOWN     0x4000  /* TE grammar broken (empty element etc.) */

struct r9_field {
	const uint8_t *name; size_t nlen;   /* as received */
	uint8_t *val; size_t vlen;          /* malloc'd; OWS-trimmed; obs-fold / NUL / bare CR replaced by SP */
};

struct r9_msg {
	/* start line */
	int is_response;
	int major, minor;
	int status;                           /* response */
	const uint8_t *reason; size_t rlen;   /* response (points into input) */
	const uint8_t *method; size_t mlen;   /* request */
	const uint8_t *target; size_t tlen;   /* request */
	/* fields of the header section (of the FINAL response), in order */
	int nf; struct r9_field f[R9_MAXF];
	/* trailer section of a chunked body */
	int nt; struct r9_field t[R9_MAXF];
	/* body */
	enum r9_framing framing;
	uint8_t *body; size_t blen;           /* malloc'd, decoded (de-chunked) */
	/* bookkeeping */
	size_t consumed;                      /* bytes of input belonging to this message incl. skipped interim responses */
	size_t head_end;                      /* offset just after the empty line ending the final header section */
	int n_interim;                        /* 1xx responses skipped before the final one */
	unsigned lat;                         /* latitude bits */
	int alt_reject;                       /* rejecting is also conformant */
	int conn_close;                       /* "close" connection option present in the (final) header section */
	int conn_keepalive;                   /* "keep-alive" option present */
	const char *why;                      /* reason for R9_REJECT / R9_MORE (static string) */
};

/* request method classes that matter for response framing */
enum r9_reqkind { R9_REQ_OTHER = 0, R9_REQ_HEAD = 1, R9_REQ_CONNECT = 2 };

/* Parse one response (skipping interim 1xx responses) from buf[0..len).
 * eof != 0: no further bytes will follow (peer closed). */
enum r9_result r9_parse_response(const uint8_t *buf, size_t len, int eof, enum r9_reqkind rk, struct r9_msg *m);

/* Parse one request from buf[0..len). */
enum r9_result r9_parse_request(const uint8_t *buf, size_t len, int eof, struct r9_msg *m);

void r9_msg_free(struct r9_msg *m);

/* helpers */
int r9_is_tchar(int c);
int r9_is_token(const uint8_t *s, size_t n);
/* case-insensitive compare of a field name with a C string */
int r9_name_is(const struct r9_field *f, const char *name);
/* first field with this name or NULL */
const struct r9_field *r9_find(const struct r9_msg *m, const char *name);
#endif
