/* Independent RFC 6455 reference decoder/encoder.  See rfc6455.h for the rules. */
#include "rfc6455.h"
#include <stdlib.h>
#include <string.h>
#include <openssl/sha.h>
#include <openssl/evp.h>

static void *xgrow(void *p, size_t *cap, size_t need, size_t elem)
{
	if (need <= *cap) return p;
	size_t c = *cap ? *cap : 16;
	while (c < need) c *= 2;
	p = realloc(p, c * elem);
	if (!p) abort();
	*cap = c;
	return p;
}

const char *rfc6455_reason_name(int r)
{
	switch (r) {
	case RFC6455_R_NONE: return "open";
	case RFC6455_R_CLOSE_FRAME: return "close-frame";
	case RFC6455_R_LOCAL_CLOSE: return "local-close";
	case RFC6455_R_RSV: return "rsv-bit";
	case RFC6455_R_RESERVED_OPCODE: return "reserved-opcode";
	case RFC6455_R_OVERSIZE: return "oversize";
	case RFC6455_R_LEN_MSB: return "length-msb";
	case RFC6455_R_CTRL_FRAGMENTED: return "control-fragmented";
	case RFC6455_R_CTRL_TOO_LONG: return "control-too-long";
	case RFC6455_R_CONT_WITHOUT_START: return "continuation-without-start";
	case RFC6455_R_DATA_IN_FRAGMENTED: return "data-frame-inside-fragmented-message";
	case RFC6455_R_MASK_POLICY: return "mask-policy";
	case RFC6455_R_CLOSE_LEN1: return "close-payload-1-byte";
	}
	return "?";
}

int rfc6455_minimal_lenform(uint64_t len)
{
	if (len <= 125) return 7;
	if (len <= 0xffff) return 16;
	return 64;
}

int rfc6455_parse_header(const unsigned char *b, size_t n, struct rfc6455_frame *f)
{
	size_t need = 2, i, pos;
	unsigned l7;
	if (n < 2) return 0;
	l7 = b[1] & 0x7f;
	if (l7 == 126) need += 2;
	else if (l7 == 127) need += 8;
	if (b[1] & 0x80) need += 4;
	if (n < need) return 0;
	memset(f, 0, sizeof *f);
	f->fin = b[0] >> 7;
	f->rsv = (b[0] >> 4) & 7;
	f->opcode = b[0] & 0x0f;
	f->masked = b[1] >> 7;
	pos = 2;
	if (l7 <= 125) { f->lenform = 7; f->len = l7; }
	else if (l7 == 126) { f->lenform = 16; f->len = ((uint64_t)b[2] << 8) | b[3]; pos = 4; }
	else {
		f->lenform = 64; f->len = 0;
		for (i = 0; i < 8; i++) f->len = (f->len << 8) | b[2 + i];
		pos = 10;
	}
	if (f->masked) { memcpy(f->key, b + pos, 4); pos += 4; }
	f->hdr_len = pos;
	return 1;
}

void rfc6455_dec_init(struct rfc6455_dec *d, uint64_t max_frame, int require_mask)
{
	memset(d, 0, sizeof *d);
	d->max_frame = max_frame;
	d->require_mask = require_mask;
	d->frame_index_of_end = -1;
}

void rfc6455_dec_free(struct rfc6455_dec *d)
{
	size_t i;
	for (i = 0; i < d->nmsgs; i++) free(d->msgs[i].data);
	free(d->msgs); free(d->frames); free(d->buf); free(d->acc);
	memset(d, 0, sizeof *d);
}

size_t rfc6455_dec_pending(const struct rfc6455_dec *d) { return d->blen; }

static void end_stream(struct rfc6455_dec *d, int state, int reason)
{
	d->state = state;
	d->reason = reason;
	d->frame_index_of_end = (int)d->nframes;
	/* terminal: drop partial message and unparsed bytes */
	d->alen = 0; d->in_msg = 0; d->blen = 0;
}

void rfc6455_local_close(struct rfc6455_dec *d)
{
	if (d->state != RFC6455_OPEN) return;
	end_stream(d, RFC6455_CLOSED, RFC6455_R_LOCAL_CLOSE);
}

static void deliver(struct rfc6455_dec *d, int opcode, const unsigned char *p, size_t n, int nfrag)
{
	struct rfc6455_msg *m;
	d->msgs = xgrow(d->msgs, &d->cap_msgs, d->nmsgs + 1, sizeof *d->msgs);
	m = &d->msgs[d->nmsgs++];
	m->opcode = opcode; m->len = n; m->nfragments = nfrag;
	m->data = malloc(n ? n : 1);
	if (!m->data) abort();
	if (n) memcpy(m->data, p, n);
	if (d->close_after_nmsgs && d->nmsgs == d->close_after_nmsgs) rfc6455_local_close(d);
}

/* header-level rules; returns a failure reason or 0 */
static int header_verdict(const struct rfc6455_dec *d, const struct rfc6455_frame *f)
{
	int op = f->opcode;
	if (f->rsv) return RFC6455_R_RSV;
	if ((op >= 3 && op <= 7) || op >= 0xb) return RFC6455_R_RESERVED_OPCODE;
	if (d->require_mask > 0 && !f->masked) return RFC6455_R_MASK_POLICY;
	if (d->require_mask < 0 && f->masked) return RFC6455_R_MASK_POLICY;
	if (f->lenform == 64 && (f->len >> 63)) return RFC6455_R_LEN_MSB;
	if (op >= 8) {
		if (!f->fin) return RFC6455_R_CTRL_FRAGMENTED;
		if (f->len > 125) return RFC6455_R_CTRL_TOO_LONG;
	}
	if (f->len > d->max_frame) return RFC6455_R_OVERSIZE;
	if (op == 0 && !d->in_msg) return RFC6455_R_CONT_WITHOUT_START;
	if ((op == 1 || op == 2) && d->in_msg) return RFC6455_R_DATA_IN_FRAGMENTED;
	return 0;
}

void rfc6455_dec_feed(struct rfc6455_dec *d, const unsigned char *p, size_t n)
{
	if (d->state != RFC6455_OPEN) return;
	d->buf = xgrow(d->buf, &d->bcap, d->blen + n, 1);
	memcpy(d->buf + d->blen, p, n);
	d->blen += n;
	while (d->state == RFC6455_OPEN) {
		struct rfc6455_frame f;
		unsigned char *pl;
		size_t i, total;
		int bad;
		if (!rfc6455_parse_header(d->buf, d->blen, &f)) return;
		bad = header_verdict(d, &f);
		if (bad) { end_stream(d, RFC6455_FAILED, bad); return; }
		total = f.hdr_len + (size_t)f.len;
		if (d->blen < total) return;            /* wait for the payload */
		pl = d->buf + f.hdr_len;
		if (f.masked) for (i = 0; i < f.len; i++) pl[i] ^= f.key[i & 3];
		d->frames = xgrow(d->frames, &d->cap_frames, d->nframes + 1, sizeof *d->frames);
		d->frames[d->nframes] = f;
		switch (f.opcode) {
		case 0x8:
			if (f.len == 1) { end_stream(d, RFC6455_FAILED, RFC6455_R_CLOSE_LEN1); d->nframes++; return; }
			if (f.len >= 2) { d->have_close_code = 1; d->close_code = (pl[0] << 8) | pl[1]; }
			end_stream(d, RFC6455_CLOSED, RFC6455_R_CLOSE_FRAME);
			d->nframes++;
			return;
		case 0x9: d->npings++; break;
		case 0xa: d->npongs++; break;
		case 0x1: case 0x2:
			if (f.fin) deliver(d, f.opcode, pl, (size_t)f.len, 1);
			else {
				d->in_msg = 1; d->msg_opcode = f.opcode; d->msg_nfrag = 1;
				d->acc = xgrow(d->acc, &d->acap, (size_t)f.len, 1);
				memcpy(d->acc, pl, (size_t)f.len); d->alen = (size_t)f.len;
			}
			break;
		case 0x0:
			d->acc = xgrow(d->acc, &d->acap, d->alen + (size_t)f.len, 1);
			memcpy(d->acc + d->alen, pl, (size_t)f.len); d->alen += (size_t)f.len;
			d->msg_nfrag++;
			if (f.fin) {
				deliver(d, d->msg_opcode, d->acc, d->alen, d->msg_nfrag);
				d->in_msg = 0; d->alen = 0;
			}
			break;
		}
		d->nframes++;
		if (d->state != RFC6455_OPEN) return;   /* the application closed inside the delivery */
		memmove(d->buf, d->buf + total, d->blen - total);
		d->blen -= total;
	}
}

size_t rfc6455_encode(unsigned char *out, int fin, int rsv, int opcode, int masked,
    const unsigned char key[4], int lenform, uint64_t declared_len,
    const unsigned char *payload, size_t payload_len)
{
	size_t pos = 0, i;
	int k;
	if (!lenform) lenform = rfc6455_minimal_lenform(declared_len);
	out[pos++] = (unsigned char)((fin ? 0x80 : 0) | ((rsv & 7) << 4) | (opcode & 0x0f));
	if (lenform == 7) out[pos++] = (unsigned char)((masked ? 0x80 : 0) | (declared_len & 0x7f));
	else if (lenform == 16) {
		out[pos++] = (unsigned char)((masked ? 0x80 : 0) | 126);
		out[pos++] = (unsigned char)(declared_len >> 8);
		out[pos++] = (unsigned char)declared_len;
	} else {
		out[pos++] = (unsigned char)((masked ? 0x80 : 0) | 127);
		for (k = 56; k >= 0; k -= 8) out[pos++] = (unsigned char)(declared_len >> k);
	}
	if (masked) { memcpy(out + pos, key, 4); pos += 4; }
	for (i = 0; i < payload_len; i++)
		out[pos + i] = masked ? (unsigned char)(payload[i] ^ key[i & 3]) : payload[i];
	return pos + payload_len;
}

int rfc6455_accept(const char *key, size_t keylen, char out[29])
{
	unsigned char md[SHA_DIGEST_LENGTH];
	size_t n = keylen + sizeof(RFC6455_GUID) - 1;
	unsigned char *cat = malloc(n ? n : 1);
	if (!cat) return -1;
	memcpy(cat, key, keylen);
	memcpy(cat + keylen, RFC6455_GUID, sizeof(RFC6455_GUID) - 1);
	SHA1(cat, n, md);
	free(cat);
	if (EVP_EncodeBlock((unsigned char *)out, md, SHA_DIGEST_LENGTH) != 28) return -1;
	out[28] = 0;
	return 0;
}
