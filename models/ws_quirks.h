/* ws_quirks — RFC 6455 receiver with a switchable set of *known deviations* of libevent's
 * ws.c, used by the C31 harness only to CLASSIFY a divergence from the reference decoder
 * (models/rfc6455.c) as one or more registered known findings.
 *
 * With flags == 0 it must behave exactly like the reference decoder (the harness checks this
 * on every execution).  Each flag switches on one defect class; a divergence is attributed to
 * the smallest flag set under which this model reproduces precisely what the library delivered
 * (message list and closed state).  If no flag set reproduces it, the divergence is reported
 * under its generic key and is a VIOLATION.  The model never makes an execution pass.
 *
 * Unlike the reference decoder this model is fed read by read (the bytes that arrive in one
 * read callback), because WSQ_PARSE_AFTER_CLOSE depends on what is already buffered when the
 * connection is closed, and like ws.c it judges a frame when the frame is complete (when the
 * header is complete for the 64-bit size limit).
 */
#ifndef WS_QUIRKS_H
#define WS_QUIRKS_H
#include <stddef.h>
#include <stdint.h>

/* A: a FIN continuation frame (opcode 0) that ends a fragmented message closes the connection
 *    instead of delivering the message ("unexpected frame type 0"); the fragments stay buffered */
#define WSQ_CONT_FIN_REJECTED       0x01
/* B: a text/binary frame while a fragmented message is in progress is appended to it; a FIN one
 *    delivers the concatenation with the type of that last frame */
#define WSQ_DATA_IN_FRAGMENTED_OK   0x02
/* C: a non-FIN continuation frame with no message in progress starts a message */
#define WSQ_CONT_WITHOUT_START_OK   0x04
/* D: after the connection is closed (close frame, invalid frame, evws_close() in the message
 *    callback) the rest of the bytes of the same read is still parsed and delivered */
#define WSQ_PARSE_AFTER_CLOSE       0x08
/* E1: a control frame without FIN is treated like one with FIN */
#define WSQ_CTRL_FRAGMENTED_OK      0x10
/* E2: a control frame with more than 125 payload bytes is accepted */
#define WSQ_CTRL_TOO_LONG_OK        0x20
#define WSQ_NFLAGS 6
#define WSQ_ALL 0x3f

struct wsq_msg { int type; unsigned char *data; size_t len; };
struct wsq_result { struct wsq_msg *msgs; size_t nmsgs, cap; int closed; };

/* stream[0..n) arrives in nreads reads ending at read_end[i] (ascending, last == n).
 * max_frame: 64-bit lengths above it are refused.  close_after: the application closes the
 * connection inside its close_after-th message callback (0 = never). */
void wsq_run(const unsigned char *stream, size_t n, const size_t *read_end, size_t nreads,
    unsigned flags, uint64_t max_frame, size_t close_after, struct wsq_result *out);
void wsq_free(struct wsq_result *r);
const char *wsq_flag_key(unsigned flag);    /* failure-key suffix of one flag */

#endif
