/* ws_quirks — RFC 6455 receiver with a switchable set of *known deviations* of libevent's
 * ws.c, used by the C31 harness only to CLASSIFY a divergence from the reference decoder
 * (models/rfc6455.c) as one or more registered known findings.
 *
 * With flags == 0 it must behave exactly like the reference decoder (the harness checks this
 * on every execution).  Each flag switches on one defect class; a divergence is attributed to
 * the smallest flag set under which this model reproduces precisely what the library delivered
 * (message list and closed state).  If no flag set reproduces it, the divergence is reported
 * under its generic key and is a VIOLATION.  The model never makes an execution pass.
 *
 * Like ws.c (and unlike the reference decoder, which decides on the header) this model judges a
 * frame when the frame is complete (on the 10 header bytes for the 64-bit size limit); it is fed
 * read by read.  Close / failure is terminal: nothing after it is parsed, so for complete
 * streams the two timings give the same result.
 */
#ifndef WS_QUIRKS_H
#define WS_QUIRKS_H
#include <stddef.h>
#include <stdint.h>

/* The two registered (unrepaired) deviation classes — upstream's own, non-RFC notion of
 * fragmentation (test/regress_ws.c sends TEXT, TEXT, TEXT|FIN):
 * B: a text/binary frame while a fragmented message is in progress is appended to it; a FIN one
 *    delivers the concatenation with the type of that last frame */
#define WSQ_DATA_IN_FRAGMENTED_OK   0x02
/* C: a non-FIN continuation frame with no message in progress starts a message (which can only
 *    be completed through B: a FIN continuation frame ending it closes the connection) */
#define WSQ_CONT_WITHOUT_START_OK   0x04
/* Only these may explain a divergence.  Four further classes existed until their fixes were
 * committed to /repo and are deliberately NOT candidate explanations any more, so that a
 * regression of any of them is reported as a violation under its generic key:
 *   0x01 FIN continuation frame rejected            (fixed by b4155d5)
 *   0x08 frames after close still delivered         (fixed by 989c2c6)
 *   0x10 control frame without FIN accepted         (fixed by dd97d5c)
 *   0x20 control frame over 125 bytes accepted      (fixed by dd97d5c) */
#define WSQ_REGISTERED (WSQ_DATA_IN_FRAGMENTED_OK | WSQ_CONT_WITHOUT_START_OK)

struct wsq_msg { int type; unsigned char *data; size_t len; };
struct wsq_result { struct wsq_msg *msgs; size_t nmsgs, cap; int closed; };

/* stream[0..n) arrives in nreads reads ending at read_end[i] (ascending, last == n).
 * max_frame: 64-bit lengths above it are refused.  close_after: the application closes the
 * connection inside its close_after-th message callback (0 = never). */
void wsq_run(const unsigned char *stream, size_t n, const size_t *read_end, size_t nreads,
    unsigned flags, uint64_t max_frame, size_t close_after, struct wsq_result *out);
void wsq_free(struct wsq_result *r);
const char *wsq_flag_key(unsigned flag);    /* failure-key suffix of one flag */

#endif
