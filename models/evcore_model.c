/* Reference model of the libevent event core.  See evcore_model.h.
 *
 * Every rule below is a line of DESIGN.md Appendix D / Appendix A or of the
 * documentation in event2/event.h / event2/watch.h.  Where the headers leave a
 * point open the model pins *today's* user-visible behaviour and says so
 * ("pinned:").  There is deliberately no heap and no linked list here: the
 * timer set is an unordered set searched for its minimum, queues are arrays.
 */
#include "evcore_model.h"
#include <string.h>

/* ------------------------------------------------------------------ */
/* small queue helpers                                                  */

static void q_append(struct em_q *q, int id) { q->id[q->n++] = (short)id; }
static void q_insert_at(struct em_q *q, int pos, int id)
{
	for (int k = q->n; k > pos; k--) q->id[k] = q->id[k - 1];
	q->id[pos] = (short)id; q->n++;
}
static int q_find(const struct em_q *q, int id)
{
	for (int k = 0; k < q->n; k++) if (q->id[k] == id) return k;
	return -1;
}
static void q_remove(struct em_q *q, int id)
{
	int k = q_find(q, id);
	if (k < 0) return;
	for (; k + 1 < q->n; k++) q->id[k] = q->id[k + 1];
	q->n--;
}
static void q_to_front(struct em_q *q, int pos)
{
	short id = q->id[pos];
	for (int k = pos; k > 0; k--) q->id[k] = q->id[k - 1];
	q->id[0] = id;
}

/* ------------------------------------------------------------------ */
/* time                                                                 */

/* "now" for deadline computations: the cached iteration reading while the loop
 * is inside an iteration with caching on, otherwise a fresh clock read. */
static int64_t gettime(const struct em *m) { return m->cache >= 0 ? m->cache : m->clock; }
static void update_cache(struct em *m) { m->cache = m->cfg.no_cache ? -1 : m->clock; }
int64_t em_cached_now(const struct em *m) { return gettime(m); }
int em_has_cache(const struct em *m) { return m->cache >= 0; }

/* ------------------------------------------------------------------ */
/* counters: every list membership of a non-internal callback counts    */

static void incr_count(struct em *m, const struct em_ev *e)
{
	/* pinned: the running maximum is sampled at every list insertion, also at
	 * insertions of internal events (which do not change the count) */
	if (!e->internal) m->count++;
	if (m->count > m->count_max) m->count_max = m->count;
	if (m->count > m->count_max_hi) m->count_max_hi = m->count;
}
static void decr_count(struct em *m, const struct em_ev *e) { if (!e->internal) m->count--; }
static void incr_active(struct em *m) { m->nactive++; if (m->nactive > m->nactive_max) m->nactive_max = m->nactive; }

static int haveevents(const struct em *m) { return m->virt > 0 || m->count > 0; }

/* ------------------------------------------------------------------ */
/* list memberships                                                     */

static void insert_active(struct em *m, int id, uint32_t tie)
{
	struct em_ev *e = &m->ev[id];
	if (e->active) return;
	incr_count(m, e);
	e->active = 1; e->tie = tie;
	incr_active(m);
	q_append(&m->active[e->pri], id);
}
static void remove_active(struct em *m, int id)
{
	struct em_ev *e = &m->ev[id];
	if (!e->active) return;
	decr_count(m, e);
	e->active = 0; m->nactive--;
	q_remove(&m->active[e->pri], id);
}
static void insert_later(struct em *m, int id)
{
	struct em_ev *e = &m->ev[id];
	if (e->active || e->later) return;
	incr_count(m, e);
	e->later = 1;
	incr_active(m);
	q_append(&m->later, id);
}
static void remove_later(struct em *m, int id)
{
	struct em_ev *e = &m->ev[id];
	if (!e->later) return;
	decr_count(m, e);
	e->later = 0; m->nactive--;
	q_remove(&m->later, id);
}
/* a common-timeout queue is kept sorted by deadline, FIFO among equals;
 * insertion searches from the tail */
static void ctlq_insert(struct em *m, int c, int id)
{
	struct em_q *q = &m->ctlq[c];
	int pos = 0;
	for (int k = q->n - 1; k >= 0; k--)
		if (m->ev[id].deadline >= m->ev[q->id[k]].deadline) { pos = k + 1; break; }
	q_insert_at(q, pos, id);
}
static void insert_timeout(struct em *m, int id)
{
	struct em_ev *e = &m->ev[id];
	incr_count(m, e);
	e->timeout = 1;
	if (e->common >= 0) ctlq_insert(m, e->common, id);
}
static void remove_timeout(struct em *m, int id)
{
	struct em_ev *e = &m->ev[id];
	if (!e->timeout) return;
	decr_count(m, e);
	e->timeout = 0;
	if (e->common >= 0) q_remove(&m->ctlq[e->common], id);
}

static int add_nolock(struct em *m, int id, int has_tv, int64_t tv, int absolute, int common);

static void insert_inserted(struct em *m, int id)
{
	struct em_ev *e = &m->ev[id];
	if (e->what & EM_IOMASK) {
		if (e->what & EM_READ) m->nread[e->fdobj]++;
		if (e->what & EM_WRITE) m->nwrite[e->fdobj]++;
	} else if (e->what & EM_SIGNAL) {
		/* first event of the signal: install the handler and make sure the
		 * base's internal socketpair reader is registered (it stays so) */
		if (m->nsig_inserted++ == 0) {
			m->sig_handler = 1;
			if (!m->sig_internal_added) {
				add_nolock(m, EM_ID_SIG, 0, 0, 0, -1);
				m->sig_internal_added = 1;
			}
		}
	}
	incr_count(m, e);
	e->inserted = 1;
}
static void remove_inserted(struct em *m, int id)
{
	struct em_ev *e = &m->ev[id];
	if (!e->inserted) return;
	decr_count(m, e);
	e->inserted = 0;
	if (e->what & EM_IOMASK) {
		if (e->what & EM_READ) m->nread[e->fdobj]--;
		if (e->what & EM_WRITE) m->nwrite[e->fdobj]--;
	} else if (e->what & EM_SIGNAL) {
		if (--m->nsig_inserted == 0) m->sig_handler = 0;   /* previous disposition restored */
	}
}

/* ------------------------------------------------------------------ */
/* API operations (Appendix D)                                          */

static int is_signal(const struct em_ev *e) { return e->role == EM_R_USER && (e->what & EM_SIGNAL); }
/* persistent events that remember an interval: EV_PERSIST and not a signal event */
static int keeps_interval(const struct em_ev *e) { return (e->what & EM_PERSIST) && !(e->what & EM_SIGNAL); }

/* dropping the remaining invocations of a signal event whose callback loop is running */
static void abort_signal_loop(struct em *m, int id)
{
	struct em_ev *e = &m->ev[id];
	if (is_signal(e) && e->ncalls && e->pn && m->current == id)
		m->L.sig_n = 0;
}

static int del_nolock(struct em *m, int id)
{
	struct em_ev *e = &m->ev[id];
	abort_signal_loop(m, id);
	if (e->timeout) remove_timeout(m, id);
	if (e->active) remove_active(m, id);
	else if (e->later) remove_later(m, id);
	if (e->inserted) remove_inserted(m, id);
	return 0;
}

static void activate_nolock(struct em *m, int id, uint32_t tie)
{
	struct em_ev *e = &m->ev[id];
	if (e->active) return;
	if (e->later) remove_later(m, id);
	insert_active(m, id, tie);
}

static void active_nolock(struct em *m, int id, int res, int ncalls, uint32_t tie)
{
	struct em_ev *e = &m->ev[id];
	if (e->active) { e->res |= (short)res; return; }
	if (e->later) e->res |= (short)res; else e->res = (short)res;
	/* a more urgent priority than the one being run: the current pass stops
	 * after the running callback and restarts from the top */
	if (e->pri < m->running_pri) m->cont = 1;
	if (is_signal(e)) { e->ncalls = (short)ncalls; e->pn = 0; }
	activate_nolock(m, id, tie);
}

static int add_nolock(struct em *m, int id, int has_tv, int64_t tv, int absolute, int common)
{
	struct em_ev *e = &m->ev[id];
	/* I/O or signal part: registered unless already registered or active */
	if ((e->what & (EM_IOMASK | EM_SIGNAL)) && !(e->inserted || e->active || e->later))
		insert_inserted(m, id);
	if (has_tv) {
		int64_t now;
		if (keeps_interval(e) && !absolute) { e->interval = tv; e->icommon = (short)common; }
		if (e->timeout) remove_timeout(m, id);
		/* re-adding a timeout to an event that is active *because of* a
		 * timeout cancels that activation */
		if (e->active && (e->res & EM_TIMEOUT)) {
			abort_signal_loop(m, id);
			remove_active(m, id);
		}
		now = gettime(m);
		e->deadline = absolute ? tv : now + tv;
		e->common = (short)common;
		insert_timeout(m, id);
		if (common >= 0 && m->ctlq[common].id[0] == id)
			/* head of its common queue: the queue's own timer follows it */
			add_nolock(m, EM_ID_CTL0 + common, 1, e->deadline, 1, -1);
	}
	return 0;
}

void em_assign(struct em *m, int id, int what, int fdobj)
{
	struct em_ev *e = &m->ev[id];
	memset(e, 0, sizeof *e);
	e->used = 1; e->init = 1; e->role = EM_R_USER;
	e->what = (short)what; e->fdobj = (short)fdobj;
	e->pri = (short)(m->cfg.npri / 2);       /* new events go to the middle priority */
	e->common = e->icommon = -1;
}
void em_free(struct em *m, int id)
{
	del_nolock(m, id);
	m->ev[id].used = 0; m->ev[id].init = 0;
}
int em_add(struct em *m, int id, int has_tv, int64_t tv_us, int common) { return add_nolock(m, id, has_tv, tv_us, 0, common); }
int em_del(struct em *m, int id) { return del_nolock(m, id); }
int em_remove_timer(struct em *m, int id)
{
	struct em_ev *e = &m->ev[id];
	if (e->timeout) { remove_timeout(m, id); e->interval = 0; }
	return 0;
}
void em_active(struct em *m, int id, int res, int ncalls) { active_nolock(m, id, res, ncalls, ++m->tie_serial); }
void em_active_later(struct em *m, int id, int res)
{
	struct em_ev *e = &m->ev[id];
	if (e->active || e->later) { e->res |= (short)res; return; }
	e->res = (short)res;
	insert_later(m, id);
}
int em_priority_set(struct em *m, int id, int pri)
{
	struct em_ev *e = &m->ev[id];
	if (e->active) return -1;
	if (pri < 0 || pri >= m->cfg.npri) return -1;
	e->pri = (short)pri;
	return 0;
}
int em_pending(const struct em *m, int id, int mask, int64_t *deadline_out)
{
	const struct em_ev *e = &m->ev[id];
	int flags = 0;
	if (e->inserted) flags |= e->what & (EM_IOMASK | EM_SIGNAL);
	if (e->active || e->later) flags |= e->res;
	if (e->timeout) flags |= EM_TIMEOUT;
	mask &= EM_PENDMASK;
	if (deadline_out && (flags & mask & EM_TIMEOUT)) *deadline_out = e->deadline;
	return flags & mask;
}
int em_initialized(const struct em *m, int id) { return m->ev[id].init; }
/* pinned: event_base_foreach_event visits registered, timed and active events,
 * not those that are only scheduled for the next iteration */
int em_in_foreach(const struct em *m, int id)
{
	const struct em_ev *e = &m->ev[id];
	return e->used && (e->inserted || e->timeout || e->active);
}
int em_num_events(const struct em *m, unsigned mask)
{
	int r = 0;
	if (mask & EM_COUNT_ACTIVE) r += m->nactive;
	if (mask & EM_COUNT_VIRTUAL) r += m->virt;
	if (mask & EM_COUNT_ADDED) r += m->count;
	return r;
}
int em_max_events(struct em *m, unsigned mask, int clear)
{
	int r = 0;
	if (mask & EM_COUNT_ACTIVE) { r += m->nactive_max; if (clear) m->nactive_max = 0; }
	if (mask & EM_COUNT_VIRTUAL) { r += m->virt_max; if (clear) m->virt_max = 0; }
	if (mask & EM_COUNT_ADDED) { r += m->count_max; if (clear) m->count_max = m->count_max_hi = 0; }
	return r;
}
/* The running maximum of COUNT_ADDED depends on the order in which timers with
 * equal deadlines are expired (each is first removed from its pending sets, then
 * made active), which Appendix A leaves open.  The model keeps the range of
 * values any order could have produced; the harness narrows it to the value the
 * implementation reports. */
void em_max_added_range(const struct em *m, int *lo, int *hi) { *lo = m->count_max; *hi = m->count_max_hi; }
void em_max_added_resolve(struct em *m, int v) { if (v >= m->count_max && v <= m->count_max_hi) m->count_max = m->count_max_hi = v; }
void em_virtual(struct em *m, int delta)
{
	m->virt += delta;
	/* pinned: the maxima are raised when a count goes up, never on the way down
	 * (so after a clear they restart from the next increment) */
	if (delta > 0 && m->virt > m->virt_max) m->virt_max = m->virt;
}

int em_common_init(struct em *m, int64_t dur)
{
	struct em_ev *e;
	for (int i = 0; i < m->nctl; i++) if (m->ctl_dur[i] == dur) return i;
	if (m->nctl == EM_NCTL) return -1;
	m->ctl_dur[m->nctl] = dur;
	e = &m->ev[EM_ID_CTL0 + m->nctl];
	memset(e, 0, sizeof *e);
	e->used = e->init = 1; e->role = EM_R_CTL; e->internal = 1; e->ctl = (short)m->nctl;
	e->pri = 0; e->common = e->icommon = -1;
	return m->nctl++;
}

int em_once_free_slots(const struct em *m)
{
	int n = 0;
	for (int k = 0; k < EM_NONCE; k++) if (!m->ev[EM_ID_ONCE0 + k].used) n++;
	return n;
}
/* loopexit is a one-shot timer event like any other (it counts as an added
 * event); without a duration it is activated at once at the default priority */
int em_loopexit(struct em *m, int has_tv, int64_t tv)
{
	int id = -1;
	struct em_ev *e;
	for (int k = 0; k < EM_NONCE; k++) if (!m->ev[EM_ID_ONCE0 + k].used) { id = EM_ID_ONCE0 + k; break; }
	if (id < 0) return -2;
	e = &m->ev[id];
	memset(e, 0, sizeof *e);
	e->used = e->init = 1; e->role = EM_R_ONCE;
	e->pri = (short)(m->cfg.npri / 2); e->common = e->icommon = -1;
	if (!has_tv || tv == 0) active_nolock(m, id, EM_TIMEOUT, 1, ++m->tie_serial);
	else add_nolock(m, id, 1, tv, 0, -1);
	return 0;
}
void em_loopbreak(struct em *m) { m->brk = 1; }
void em_loopcontinue(struct em *m) { m->cont = 1; }
int em_got_break(const struct em *m) { return m->brk; }
int em_got_exit(const struct em *m) { return m->term; }

void em_defer_init(struct em *m, int k, int pri)
{
	struct em_ev *e = &m->ev[EM_ID_DEFER0 + k];
	memset(e, 0, sizeof *e);
	e->used = 1; e->role = EM_R_DEFER; e->pri = (short)pri; e->common = e->icommon = -1;
}
/* up to MAX_DEFERREDS_QUEUED + 1 = 33 deferred callbacks per iteration are made
 * active directly, the rest go to the later queue */
int em_defer_schedule(struct em *m, int k)
{
	int id = EM_ID_DEFER0 + k, r = 1;
	struct em_ev *e = &m->ev[id];
	if (m->ndeferred > 32) {
		if (e->active || e->later) return 0;
		insert_later(m, id);
		return 1;
	}
	if (e->active) return 0;
	if (e->later) r = 0;
	activate_nolock(m, id, ++m->tie_serial);
	if (r) m->ndeferred++;
	return r;
}
void em_defer_cancel(struct em *m, int k)
{
	int id = EM_ID_DEFER0 + k;
	if (m->ev[id].active) remove_active(m, id);
	else if (m->ev[id].later) remove_later(m, id);
}

void em_raise(struct em *m) { if (m->sig_handler) m->sigbytes++; }
int em_sig_handler_installed(const struct em *m) { return m->sig_handler; }

int em_watch_new(struct em *m, int type)
{
	for (int i = 0; i < EM_NWATCH; i++) if (!m->w[i].live) {
		m->w[i].live = 1; m->w[i].type = (unsigned char)type;
		m->w[i].born_pass = m->in_pass[type] ? m->pass[type] : 0;
		m->w[i].seen_pass = 0;
		q_append(&m->wl[type], i);        /* called in registration order */
		return i;
	}
	return -1;
}
void em_watch_free(struct em *m, int id)
{
	if (!m->w[id].live) return;
	m->w[id].live = 0;
	q_remove(&m->wl[m->w[id].type], id);
}

void em_init(struct em *m, const struct em_cfg *cfg)
{
	struct em_ev *e;
	memset(m, 0, sizeof *m);
	m->cfg = *cfg;
	m->cache = -1; m->running_pri = -1; m->current = -1;
	m->limit_eff = (cfg->maxcb == EM_NOLIMIT && cfg->maxtime < 0) ? EM_NOLIMIT : cfg->limit_after;
	m->L.pc = -1;
	/* the base's internal reader of the signal socketpair: persistent read
	 * event at priority 0, not counted */
	e = &m->ev[EM_ID_SIG];
	e->used = e->init = 1; e->role = EM_R_SIGINT; e->internal = 1;
	e->what = EM_READ | EM_PERSIST; e->fdobj = EM_FD_SIGPAIR; e->pri = 0; e->common = e->icommon = -1;
}

/* ------------------------------------------------------------------ */
/* the loop                                                             */

static int64_t timeout_next(const struct em *m)
{
	int64_t best = -1, now;
	int have = 0;
	for (int i = 0; i < EM_NEV; i++) {
		const struct em_ev *e = &m->ev[i];
		if (e->used && e->timeout && e->common < 0 && (!have || e->deadline < best)) { best = e->deadline; have = 1; }
	}
	if (!have) return EM_INF;
	now = gettime(m);
	return best <= now ? 0 : best - now;
}

static void make_later_active(struct em *m)
{
	while (m->later.n) {
		int id = m->later.id[0];
		struct em_ev *e = &m->ev[id];
		q_remove(&m->later, id);
		e->later = 0; e->active = 1; e->tie = ++m->tie_serial;     /* membership count unchanged */
		q_append(&m->active[e->pri], id);
		if (e->role == EM_R_DEFER) m->ndeferred++;   /* promoted deferred callbacks use the new quota */
	}
}

static int fd_ready(const struct em *m, int fd)
{
	int r = 0;
	if (fd == EM_FD_RD_READY && m->nread[fd]) r |= EM_READ;
	if (fd == EM_FD_WR_READY && m->nwrite[fd]) r |= EM_WRITE;
	if (fd == EM_FD_SIGPAIR && m->nread[fd] && m->sigbytes > 0) r |= EM_READ;
	return r;
}
int em_ready_fds(const struct em *m)
{
	int n = 0;
	for (int fd = 0; fd < EM_NFD; fd++) if (fd_ready(m, fd)) n++;
	return n;
}
/* what the backend wait reports: every registered event whose fd is ready, in
 * an order the backend chooses (one tie group) */
static void dispatch_io(struct em *m)
{
	uint32_t tie = ++m->tie_serial;
	for (int fd = 0; fd < EM_NFD; fd++) {
		int ready = fd_ready(m, fd);
		if (!ready) continue;
		for (int i = 0; i < EM_NEV; i++) {
			struct em_ev *e = &m->ev[i];
			if (e->used && e->inserted && (e->what & EM_IOMASK) && e->fdobj == fd && (e->what & ready))
				active_nolock(m, i, e->what & ready, 1, tie);
		}
	}
}

/* peak of COUNT_ADDED while expiring a group of tied timers in the order perm[] */
static int group_peak(const struct em *m, const int *ids, const int *perm, int n, int start)
{
	int c = start, peak = 0;          /* only values reached by an increment count */
	for (int k = 0; k < n; k++) {
		const struct em_ev *e = &m->ev[ids[perm[k]]];
		if (e->internal) { if (!e->active && c > peak) peak = c; continue; }   /* sampled, not counted */
		if (!(e->active || e->later)) { c -= e->timeout + e->inserted; c += 1; if (c > peak) peak = c; }
		else c -= 1;                       /* only its timeout membership goes away */
	}
	return peak;
}
static void group_peaks(const struct em *m, const int *ids, int n, int *best, int *worst)
{
	int perm[8], cnt[8] = { 0 }, i = 0;
	for (int k = 0; k < n; k++) perm[k] = k;
	*best = *worst = group_peak(m, ids, perm, n, m->count);
	while (i < n) {                        /* Heap's algorithm */
		if (cnt[i] < i) {
			int a = (i & 1) ? cnt[i] : 0, t = perm[a], p;
			perm[a] = perm[i]; perm[i] = t;
			p = group_peak(m, ids, perm, n, m->count);
			if (p < *best) *best = p;
			if (p > *worst) *worst = p;
			cnt[i]++; i = 0;
		} else { cnt[i] = 0; i++; }
	}
}

static void timeout_process(struct em *m)
{
	int64_t now = gettime(m);
	for (;;) {
		int ids[8], n = 0, best = -1, lo0 = m->count_max, hi0 = m->count_max_hi, pbest, pworst;
		uint32_t tie;
		for (int i = 0; i < EM_NEV; i++) {
			const struct em_ev *e = &m->ev[i];
			if (e->used && e->timeout && e->common < 0 && (best < 0 || e->deadline < m->ev[best].deadline)) best = i;
		}
		if (best < 0 || m->ev[best].deadline > now) break;
		/* all timers with this deadline: either order (one tie group) */
		for (int i = 0; i < EM_NEV && n < 8; i++) {
			const struct em_ev *e = &m->ev[i];
			if (e->used && e->timeout && e->common < 0 && e->deadline == m->ev[best].deadline) ids[n++] = i;
		}
		group_peaks(m, ids, n, &pbest, &pworst);
		tie = ++m->tie_serial;
		for (int k = 0; k < n; k++) {
			int id = ids[k];
			/* an event that is not active is first removed from all pending
			 * sets; persistence is re-established when it runs */
			if (!(m->ev[id].active || m->ev[id].later)) del_nolock(m, id);
			else remove_timeout(m, id);
			active_nolock(m, id, EM_TIMEOUT, 1, tie);
		}
		m->count_max = lo0 > pbest ? lo0 : pbest;
		m->count_max_hi = hi0 > pworst ? hi0 : pworst;
	}
}

/* the internal timer of a common queue: expire the due prefix in FIFO order and
 * follow the new head */
static void ctl_effect(struct em *m, int c)
{
	int64_t now = gettime(m);
	struct em_q *q = &m->ctlq[c];
	while (q->n && m->ev[q->id[0]].deadline <= now) {
		int id = q->id[0];
		if (!(m->ev[id].active || m->ev[id].later)) del_nolock(m, id);
		else remove_timeout(m, id);
		active_nolock(m, id, EM_TIMEOUT, 1, ++m->tie_serial);
	}
	if (q->n) add_nolock(m, EM_ID_CTL0 + c, 1, m->ev[q->id[0]].deadline, 1, -1);
}

/* the internal reader of the signal socketpair: every registered event of the
 * signal becomes active with ncalls = number of deliveries (one tie group) */
static void sig_effect(struct em *m)
{
	int n = m->sigbytes;
	uint32_t tie = ++m->tie_serial;
	m->sigbytes = 0;
	if (!n) return;
	for (int i = 0; i < EM_NSLOT; i++) {
		struct em_ev *e = &m->ev[i];
		if (e->used && e->inserted && (e->what & EM_SIGNAL)) active_nolock(m, i, EM_SIGNAL, n, tie);
	}
}

/* persistent events with an interval are re-armed before their callback runs:
 * at the old deadline plus the interval when they fired by timeout (or now plus
 * the interval when that is already past), at now plus the interval otherwise */
static void persist_rearm(struct em *m, int id)
{
	struct em_ev *e = &m->ev[id];
	int64_t now, rel, run_at;
	if (!e->interval) return;
	now = gettime(m);
	rel = (e->res & EM_TIMEOUT) ? e->deadline : now;
	run_at = rel + e->interval;
	if (run_at < now) run_at = now + e->interval;
	add_nolock(m, id, 1, run_at, 1, e->icommon);
}

static int hint_matches(const struct em *m, int id, const struct em_obs *hint)
{
	if (!hint || hint->kind != EMO_CALLBACK) return 0;
	if (hint->id == EM_ID_ONCE_ANY) return m->ev[id].role == EM_R_ONCE;
	return hint->id == id;
}
/* head of a priority queue; among tied entries follow the implementation */
static int pick_head(struct em *m, int pri, const struct em_obs *hint)
{
	struct em_q *q = &m->active[pri];
	uint32_t t = m->ev[q->id[0]].tie;
	for (int k = 0; k < q->n && m->ev[q->id[k]].tie == t; k++)
		if (hint_matches(m, q->id[k], hint)) { q_to_front(q, k); break; }
	return q->id[0];
}

/* next watcher of a pass: every live watcher exactly once, in registration
 * order.  A watcher registered while the pass is running may or may not be
 * called in this pass (the headers do not say): follow the implementation. */
static int next_watcher(struct em *m, int type, const struct em_obs *hint)
{
	struct em_q *q = &m->wl[type];
	int kind = type == EM_W_PREPARE ? EMO_PREPARE : EMO_CHECK;
	for (int k = 0; k < q->n; k++) {
		struct em_watch *w = &m->w[q->id[k]];
		if (w->seen_pass == m->pass[type]) continue;
		if (w->born_pass == m->pass[type] && !(hint && hint->kind == kind && hint->id == q->id[k])) {
			w->seen_pass = m->pass[type];
			continue;
		}
		return q->id[k];
	}
	return -1;
}

int em_loop_running(const struct em *m) { return m->running; }

int em_loop_begin(struct em *m, int flags)
{
	if (m->running) return -1;
	memset(&m->L, 0, sizeof m->L);
	m->running = 1;
	m->cache = -1;
	m->term = m->brk = 0;
	m->L.flags = flags;
	m->L.pc = 0;
	return 0;
}

#define CUR (&m->ev[L->cur])
#define YIELD(k, i, r, t) do { out->kind = (k); out->id = (i); out->res = (r); out->timeout = (t); \
	L->pc = __LINE__; return; case __LINE__:; } while (0)

void em_loop_next(struct em *m, const struct em_obs *hint, struct em_obs *out)
{
	struct em_loop *L = &m->L;
	memset(out, 0, sizeof *out);
	out->timeout = EM_INF;
	switch (L->pc) {
	case 0:
	while (!L->done) {
		m->cont = 0;
		m->ndeferred = 0;
		if (m->term) break;
		if (m->brk) break;
		/* the wait: zero if anything is active or NONBLOCK, else time to the
		 * earliest deadline, infinite if there is none */
		if (!m->nactive && !(L->flags & EM_LOOP_NONBLOCK)) L->tv = timeout_next(m);
		else L->tv = 0;
		if (!(L->flags & EM_LOOP_NO_EXIT_ON_EMPTY) && !haveevents(m) && !m->nactive) { L->retval = 1; goto done; }
		make_later_active(m);

		m->pass[EM_W_PREPARE]++; m->in_pass[EM_W_PREPARE] = 1;
		while ((L->w = next_watcher(m, EM_W_PREPARE, hint)) >= 0) {
			m->w[L->w].seen_pass = m->pass[EM_W_PREPARE];
			YIELD(EMO_PREPARE, L->w, 0, L->tv);
		}
		m->in_pass[EM_W_PREPARE] = 0;

		m->cache = -1;
		m->iter_serial++;
		YIELD(EMO_WAIT, 0, 0, L->tv);
		dispatch_io(m);
		update_cache(m);
		m->last_reading = m->clock;

		m->pass[EM_W_CHECK]++; m->in_pass[EM_W_CHECK] = 1;
		while ((L->w = next_watcher(m, EM_W_CHECK, hint)) >= 0) {
			m->w[L->w].seen_pass = m->pass[EM_W_CHECK];
			YIELD(EMO_CHECK, L->w, 0, EM_INF);
		}
		m->in_pass[EM_W_CHECK] = 0;

		timeout_process(m);

		if (m->nactive) {
			/* one pass: the first non-empty priority is drained in FIFO order */
			L->maxcb = m->cfg.maxcb;
			L->limit = m->limit_eff;
			if (m->cfg.maxtime >= 0) { update_cache(m); L->endtime = gettime(m) + m->cfg.maxtime; L->has_end = 1; }
			else L->has_end = 0;
			L->c = 0;
			for (L->i = 0; L->i < m->cfg.npri; L->i++) {
				if (!m->active[L->i].n) continue;
				m->running_pri = L->i;
				if (L->i < L->limit) { L->q_max = EM_NOLIMIT; L->q_end = 0; }
				else { L->q_max = L->maxcb; L->q_end = L->has_end; }
				L->count = 0;
				while (m->active[L->i].n) {
					L->cur = pick_head(m, L->i, hint);
					/* before a callback runs: non-persistent events are fully
					 * deleted, persistent ones only leave the active queue */
					if (CUR->role != EM_R_DEFER && !(CUR->what & EM_PERSIST)) del_nolock(m, L->cur);
					else remove_active(m, L->cur);
					if (!CUR->internal) L->count++;
					m->current = L->cur;
					if (is_signal(CUR)) {
						/* signal events run their callback ncalls times,
						 * re-checking break between calls */
						L->sig_n = CUR->ncalls;
						if (L->sig_n) CUR->pn = 1;
						while (L->sig_n) {
							L->sig_n--;
							CUR->ncalls = (short)L->sig_n;
							if (!L->sig_n) CUR->pn = 0;
							YIELD(EMO_CALLBACK, L->cur, CUR->res, EM_INF);
							if (m->brk) { if (L->sig_n) CUR->pn = 0; break; }
						}
					} else if (CUR->role == EM_R_USER) {
						if (CUR->what & EM_PERSIST) persist_rearm(m, L->cur);
						YIELD(EMO_CALLBACK, L->cur, CUR->res, EM_INF);
					} else if (CUR->role == EM_R_DEFER) {
						YIELD(EMO_CALLBACK, L->cur, 0, EM_INF);
					} else if (CUR->role == EM_R_ONCE) {
						m->term = 1;                 /* loopexit: finish this pass, then stop */
						CUR->used = 0; CUR->init = 0;
						YIELD(EMO_CALLBACK, L->cur, CUR->res, EM_INF);
					} else if (CUR->role == EM_R_CTL) {
						ctl_effect(m, CUR->ctl);
						YIELD(EMO_CALLBACK, L->cur, CUR->res, EM_INF);
					} else {
						sig_effect(m);
						YIELD(EMO_CALLBACK, L->cur, CUR->res, EM_INF);
					}
					m->current = -1;
					if (m->brk) { L->c = -1; goto sq_done; }
					if (L->count >= L->q_max) { L->c = L->count; goto sq_done; }
					if (L->count && L->q_end) {
						update_cache(m);
						if (gettime(m) >= L->endtime) { L->c = L->count; goto sq_done; }
					}
					if (m->cont) break;
				}
				L->c = L->count;
			sq_done:
				/* a pass that ran only internal callbacks falls through to
				 * the next priority */
				if (L->c != 0) break;
			}
			m->running_pri = -1;
			if ((L->flags & EM_LOOP_ONCE) && m->nactive == 0 && L->c != 0) L->done = 1;
		} else if (L->flags & EM_LOOP_NONBLOCK)
			L->done = 1;
	}
done:
	m->cache = -1;
	m->running = 0;
	m->running_pri = -1;
	L->pc = -1;
	out->kind = EMO_RETURN; out->retval = L->retval;
	return;
	default:
		out->kind = EMO_NONE;
		return;
	}
}

/* ------------------------------------------------------------------ */
/* canonical state                                                      */

static uint64_t hx(uint64_t h, uint64_t v)
{
	h ^= v + 0x9e3779b97f4a7c15ULL + (h << 6) + (h >> 2);
	h *= 0xff51afd7ed558ccdULL; h ^= h >> 33;
	return h;
}
static uint64_t hq(const struct em *m, uint64_t h, const struct em_q *q, int with_ties)
{
	h = hx(h, (uint64_t)q->n);
	for (int k = 0; k < q->n; k++) {
		h = hx(h, (uint64_t)q->id[k]);
		if (with_ties && k) h = hx(h, m->ev[q->id[k]].tie == m->ev[q->id[k - 1]].tie);
	}
	return h;
}

/* Canonical hash of the model state, to be used between top-level operations
 * (loop not running: no cache, no current callback, running priority -1).
 *
 * Completeness argument.  The future behaviour of the model is a function of
 * the fields of struct em.  Everything is hashed verbatim except:
 *  - clock, deadlines: only differences to the clock are hashed.  Every rule
 *    above uses time only through now + d, deadline <= now, deadline - now and
 *    deadline + interval < now, which are invariant under translation.  The
 *    stale deadline of an event without a pending timeout is observable only
 *    through persist_rearm (interval != 0), so it is hashed exactly in that
 *    case and dropped otherwise.
 *  - tie ids: only the equality pattern of neighbours inside each active queue
 *    is hashed (pick_head compares nothing else); tie_serial is dropped.
 *  - watcher pass counters: a pass number is compared only with born/seen
 *    values of the same pass, and no pass is running between operations, so
 *    born/seen/pass are dropped (a new pass increments first).
 *  - res of events that are neither active nor scheduled, ncalls/pn of
 *    non-signal events: never read before being overwritten.
 *  - L (loop frame): reset by em_loop_begin; iter_serial, last_reading:
 *    bookkeeping for the harness only.
 * Fields that are constant while the loop is not running (cache, current,
 * running_pri, cont is reset at every iteration start but *is* hashed because
 * loopcontinue outside the loop leaves it set until then — harmless) are
 * included anyway. */
uint64_t em_canon(const struct em *m, uint64_t h)
{
	h = hx(h, (uint64_t)m->cfg.npri); h = hx(h, (uint64_t)m->cfg.no_cache); h = hx(h, (uint64_t)m->cfg.maxcb);
	h = hx(h, (uint64_t)m->cfg.maxtime); h = hx(h, (uint64_t)m->cfg.limit_after);
	h = hx(h, (uint64_t)(m->cache >= 0 ? m->cache - m->clock : 1));
	for (int i = 0; i < EM_NEV; i++) {
		const struct em_ev *e = &m->ev[i];
		h = hx(h, e->used);
		if (!e->used) continue;
		h = hx(h, (uint64_t)(e->init | e->role << 1 | e->internal << 4 | e->inserted << 5 | e->timeout << 6 | e->active << 7 | e->later << 8));
		h = hx(h, (uint64_t)e->what); h = hx(h, (uint64_t)e->fdobj); h = hx(h, (uint64_t)e->pri);
		if (e->active || e->later) h = hx(h, (uint64_t)e->res);
		if (e->what & EM_SIGNAL) { h = hx(h, (uint64_t)e->ncalls); h = hx(h, e->pn); }
		h = hx(h, (uint64_t)e->interval); h = hx(h, (uint64_t)e->icommon);
		if (e->timeout || e->interval) { h = hx(h, (uint64_t)(e->deadline - m->clock)); h = hx(h, (uint64_t)e->common); }
	}
	for (int p = 0; p < EM_MAXPRI; p++) h = hq(m, h, &m->active[p], 1);
	h = hq(m, h, &m->later, 0);
	h = hx(h, (uint64_t)m->nctl);
	for (int c = 0; c < EM_NCTL; c++) { h = hq(m, h, &m->ctlq[c], 0); h = hx(h, (uint64_t)m->ctl_dur[c]); }
	h = hx(h, (uint64_t)m->count); h = hx(h, (uint64_t)m->count_max); h = hx(h, (uint64_t)m->count_max_hi); h = hx(h, (uint64_t)m->nactive);
	h = hx(h, (uint64_t)m->nactive_max); h = hx(h, (uint64_t)m->virt); h = hx(h, (uint64_t)m->virt_max);
	h = hx(h, (uint64_t)(m->term | m->brk << 1 | m->cont << 2 | m->running << 3));
	h = hx(h, (uint64_t)m->running_pri); h = hx(h, (uint64_t)m->ndeferred); h = hx(h, (uint64_t)m->current);
	h = hx(h, (uint64_t)m->nsig_inserted); h = hx(h, (uint64_t)m->sig_handler); h = hx(h, (uint64_t)m->sig_internal_added);
	h = hx(h, (uint64_t)m->sigbytes);
	for (int f = 0; f < EM_NFD; f++) { h = hx(h, (uint64_t)m->nread[f]); h = hx(h, (uint64_t)m->nwrite[f]); }
	for (int t = 0; t < 2; t++) h = hq(m, h, &m->wl[t], 0);
	return h;
}
