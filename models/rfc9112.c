/* Reference HTTP/1.x stream parser — see rfc9112.h.  Written from RFC 9112 §2-§7,
 * §9.3/§9.6 and RFC 9110 §5 (fields), §8.6 (Content-Length), §10.1.1 (Expect).
 * Deliberately plain: one pass, no tables shared with the implementation under test. */
#include "rfc9112.h"
#include <stdlib.h>
#include <string.h>
#include <stdio.h>

struct cur { const unsigned char *d; size_t len, pos; };

static void *xrealloc(void *p, size_t n)
{
	void *q = realloc(p, n ? n : 1);
	if (!q) { fprintf(stderr, "rfc9112: out of memory\n"); abort(); }
	return q;
}
static char *dupn(const unsigned char *p, size_t n)
{
	char *s = xrealloc(NULL, n + 1);
	if (n) memcpy(s, p, n);
	s[n] = 0;
	return s;
}

static int is_tchar(unsigned char c)
{
	if ((c >= '0' && c <= '9') || (c >= 'A' && c <= 'Z') || (c >= 'a' && c <= 'z')) return 1;
	return c && strchr("!#$%&'*+-.^_`|~", c) != NULL;
}
int h1_is_token(const char *s, size_t n)
{
	if (n == 0) return 0;
	for (size_t i = 0; i < n; i++) if (!is_tchar((unsigned char)s[i])) return 0;
	return 1;
}
static int is_ows(unsigned char c) { return c == ' ' || c == '\t'; }
static int is_lws(unsigned char c) { return c == ' ' || c == '\t' || c == '\v' || c == '\f'; }
static int lc(int c) { return (c >= 'A' && c <= 'Z') ? c + 32 : c; }
static int ieq(const char *a, size_t an, const char *b)
{
	size_t bn = strlen(b);
	if (an != bn) return 0;
	for (size_t i = 0; i < an; i++) if (lc((unsigned char)a[i]) != lc((unsigned char)b[i])) return 0;
	return 1;
}
static int hexval(unsigned char c)
{
	if (c >= '0' && c <= '9') return c - '0';
	if (c >= 'a' && c <= 'f') return c - 'a' + 10;
	if (c >= 'A' && c <= 'F') return c - 'A' + 10;
	return -1;
}

const char *h1_status_name(enum h1_status s)
{
	switch (s) {
	case H1_OK: return "end";
	case H1_NEEDS_MORE: return "needs-more";
	case H1_MUST_REJECT: return "must-reject";
	case H1_MAY_EITHER: return "may-either";
	}
	return "?";
}

const struct h1_field *h1_find_field(const struct h1_msg *m, const char *name)
{
	for (int i = 0; i < m->nfields; i++)
		if (ieq(m->fields[i].name, m->fields[i].name_len, name)) return &m->fields[i];
	return NULL;
}

/* One line.  Terminator: CRLF, or a bare LF (latitude, §2.2).  Returns 0 when no
 * terminator is present yet. */
static int read_line(struct cur *c, size_t *ls, size_t *ll, unsigned *lat)
{
	const unsigned char *nl;
	if (c->pos >= c->len) return 0;
	nl = memchr(c->d + c->pos, '\n', c->len - c->pos);
	if (!nl) return 0;
	size_t e = (size_t)(nl - c->d);
	*ls = c->pos;
	if (e > c->pos && c->d[e - 1] == '\r') *ll = e - 1 - c->pos;
	else { *ll = e - c->pos; *lat |= H1_LAT_BARE_LF; }
	c->pos = e + 1;
	return 1;
}

/* octets that the grammar never allows inside a line and for which the RFC
 * offers "reject or replace by SP" (bare CR §2.2, NUL RFC 9110 §5.5) */
static const char *line_forbidden(const unsigned char *p, size_t n)
{
	if (memchr(p, '\r', n)) return "bare-cr";
	if (memchr(p, '\0', n)) return "nul-octet";
	return NULL;
}

static int is_http_version(const unsigned char *p, size_t n, int *maj, int *min)
{
	if (n != 8 || memcmp(p, "HTTP/", 5) || p[6] != '.') return 0;
	if (p[5] < '0' || p[5] > '9' || p[7] < '0' || p[7] > '9') return 0;
	*maj = p[5] - '0'; *min = p[7] - '0';
	return 1;
}

static void add_field(struct h1_field **arr, int *n, const unsigned char *name, size_t nl, const unsigned char *val, size_t vl)
{
	/* capacity doubles at powers of two (realloc per element is quadratic under ASan) */
	if (*n == 0 || (*n >= 8 && (*n & (*n - 1)) == 0)) *arr = xrealloc(*arr, sizeof(**arr) * (size_t)(*n < 8 ? 8 : *n * 2));
	struct h1_field *f = &(*arr)[*n];
	f->name = dupn(name, nl); f->name_len = nl;
	f->value = dupn(val, vl); f->value_len = vl;
	(*n)++;
}

/* field-line section up to and including the empty line (header or trailer section) */
static enum h1_status parse_fields(struct cur *c, enum h1_kind kind, struct h1_field **arr, int *n,
    unsigned *lat, size_t *octets, const char **reason)
{
	for (;;) {
		size_t ls, ll;
		if (!read_line(c, &ls, &ll, lat)) return H1_NEEDS_MORE;
		const unsigned char *p = c->d + ls;
		if (ll == 0) return H1_OK;
		*octets += ll;
		if ((*reason = line_forbidden(p, ll)) != NULL) return H1_MAY_EITHER;
		if (is_ows(p[0])) {
			/* §5.2 obs-fold (or §2.2 whitespace-preceded line after the start-line) */
			if (*n == 0) { *reason = "whitespace-before-first-field"; return H1_MAY_EITHER; }
			if (kind == H1_REQUEST) *lat |= H1_LAT_OBS_FOLD;
			size_t a = 0, b = ll;
			while (a < b && is_ows(p[a])) a++;
			while (b > a && is_ows(p[b - 1])) b--;
			struct h1_field *f = &(*arr)[*n - 1];
			if (b > a) {
				f->value = xrealloc(f->value, f->value_len + 1 + (b - a) + 1);
				if (f->value_len) f->value[f->value_len++] = ' ';
				memcpy(f->value + f->value_len, p + a, b - a);
				f->value_len += b - a;
				f->value[f->value_len] = 0;
			}
			continue;
		}
		const unsigned char *colon = memchr(p, ':', ll);
		if (!colon) { *reason = "field-line-without-colon"; return H1_MUST_REJECT; }
		size_t nl = (size_t)(colon - p);
		if (nl == 0) { *reason = "field-name-empty"; return H1_MAY_EITHER; }
		if (is_ows(p[nl - 1])) {
			/* §5.1: a server MUST reject (400) whitespace between field name and colon */
			*reason = "whitespace-before-colon";
			return kind == H1_REQUEST ? H1_MUST_REJECT : H1_MAY_EITHER;
		}
		if (!h1_is_token((const char *)p, nl)) { *reason = "field-name-not-token"; return H1_MAY_EITHER; }
		size_t a = nl + 1, b = ll;
		while (a < b && is_ows(p[a])) a++;
		while (b > a && is_ows(p[b - 1])) b--;
		add_field(arr, n, p, nl, p + a, b - a);
	}
}

struct strlist { const char *p[32]; size_t n[32]; int cnt; int overflow; int empties; /* empty list elements seen (ignored) */ };
/* RFC 9110 §5.6.1 list: elements separated by commas, OWS trimmed, empty elements ignored */
static void list_add(struct strlist *l, const char *v, size_t vl)
{
	size_t i = 0;
	while (i <= vl) {
		size_t j = i;
		while (j < vl && v[j] != ',') j++;
		size_t a = i, b = j;
		while (a < b && is_ows((unsigned char)v[a])) a++;
		while (b > a && is_ows((unsigned char)v[b - 1])) b--;
		if (b > a) {
			if (l->cnt < 32) { l->p[l->cnt] = v + a; l->n[l->cnt] = b - a; l->cnt++; }
			else l->overflow = 1;
		} else l->empties++;
		i = j + 1;
	}
}

/* decide message body framing — RFC 9112 §6.3 */
static enum h1_status decide_framing(struct h1_msg *m, const char *req_method, const char **reason)
{
	struct strlist te = { .cnt = 0 }, cl = { .cnt = 0 };
	int cl_fields = 0;
	for (int i = 0; i < m->nfields; i++) {
		struct h1_field *f = &m->fields[i];
		if (ieq(f->name, f->name_len, "transfer-encoding")) list_add(&te, f->value, f->value_len);
		else if (ieq(f->name, f->name_len, "content-length")) { cl_fields++; list_add(&cl, f->value, f->value_len); }
	}
	if (te.overflow || cl.overflow) { *reason = "list-too-long"; return H1_MAY_EITHER; }

	if (m->kind == H1_RESPONSE) {
		/* §6.3 (1),(2): no content regardless of the fields */
		if ((req_method && !strcmp(req_method, "HEAD")) || (m->status >= 100 && m->status < 200) ||
		    m->status == 204 || m->status == 304) { m->framing = H1_FR_NONE; return H1_OK; }
		if (req_method && !strcmp(req_method, "CONNECT") && m->status >= 200 && m->status < 300) {
			m->framing = H1_FR_NONE; m->persist = H1_PERSIST_NO; return H1_OK;
		}
	}
	if (te.cnt > 0) {
		if (m->vmajor == 1 && m->vminor == 0) { *reason = "transfer-encoding-in-http10"; return H1_MAY_EITHER; }
		int nchunked = 0;
		for (int i = 0; i < te.cnt; i++) if (ieq(te.p[i], te.n[i], "chunked")) nchunked++;
		if (ieq(te.p[te.cnt - 1], te.n[te.cnt - 1], "chunked")) {
			if (nchunked > 1) { *reason = "chunked-applied-twice"; return H1_MAY_EITHER; }
			if (te.cnt > 1) m->lat |= H1_LAT_TE_UNKNOWN_CODING;
			if (cl_fields) { m->lat |= H1_LAT_TE_AND_CL; m->persist = H1_PERSIST_MAY; }
			m->framing = H1_FR_CHUNKED;
			return H1_OK;
		}
		if (m->kind == H1_REQUEST) {
			/* §6.3 (4): body length cannot be determined reliably; MUST respond 400 and close */
			*reason = "transfer-encoding-final-not-chunked";
			return H1_MUST_REJECT;
		}
		m->framing = H1_FR_CLOSE; m->persist = H1_PERSIST_NO;
		return H1_OK;
	}
	if (cl_fields) {
		/* §6.3 (5): invalid unless a list of identical valid values */
		uint64_t v0 = 0;
		if (cl.cnt == 0) { *reason = "content-length-empty"; return H1_MUST_REJECT; }
		for (int i = 0; i < cl.cnt; i++) {
			uint64_t v = 0;
			for (size_t k = 0; k < cl.n[i]; k++) {
				unsigned char ch = (unsigned char)cl.p[i][k];
				if (ch < '0' || ch > '9') {
					*reason = (k == 0 && (ch == '+' || ch == '-')) ? "content-length-signed" : "content-length-not-digits";
					return H1_MUST_REJECT;
				}
				if (v > (UINT64_MAX - (ch - '0')) / 10) v = UINT64_MAX;
				else v = v * 10 + (ch - '0');
			}
			if (i == 0) v0 = v;
			else if (v != v0) { *reason = "content-length-conflict"; return H1_MUST_REJECT; }
		}
		/* anything but one field holding one 1*DIGIT value (repeated fields, lists, empty
		 * elements / an empty field next to a valid one) is the "MAY reject or use the single value" case */
		if (cl.cnt > 1 || cl_fields > 1 || cl.empties) m->lat |= H1_LAT_CL_IDENTICAL_LIST;
		m->framing = H1_FR_CL; m->content_length = v0;
		return H1_OK;
	}
	if (m->kind == H1_REQUEST) { m->framing = H1_FR_NONE; return H1_OK; }   /* §6.3 (6) */
	m->framing = H1_FR_CLOSE; m->persist = H1_PERSIST_NO;                        /* §6.3 (8) */
	return H1_OK;
}

static void body_add(struct h1_msg *m, const unsigned char *p, size_t n)
{
	size_t need = m->body_len + n + 1, cap = 64;
	while (cap < m->body_len + 1) cap *= 2;          /* capacity implied by the current length */
	if (!m->body || need > cap) { while (cap < need) cap *= 2; m->body = xrealloc(m->body, cap); }
	memcpy(m->body + m->body_len, p, n);
	m->body_len += n;
}

/* §7.1 chunked-body */
static enum h1_status parse_chunked(struct cur *c, struct h1_msg *m, const char **reason)
{
	for (;;) {
		size_t ls, ll, i = 0;
		unsigned lat = 0;
		if (!read_line(c, &ls, &ll, &lat)) return H1_NEEDS_MORE;
		m->lat |= lat;
		const unsigned char *p = c->d + ls;
		if ((*reason = line_forbidden(p, ll)) != NULL) return H1_MAY_EITHER;
		uint64_t size = 0;
		while (i < ll && hexval(p[i]) >= 0) {
			if (size > (UINT64_MAX >> 4)) size = UINT64_MAX;
			else size = (size << 4) | (uint64_t)hexval(p[i]);
			i++;
		}
		if (i == 0) { *reason = ll == 0 ? "chunk-size-empty-line" : "chunk-size-invalid"; return H1_MUST_REJECT; }
		/* chunk-ext = *( BWS ";" BWS chunk-ext-name [ BWS "=" BWS chunk-ext-val ] ) */
		while (i < ll) {
			while (i < ll && is_ows(p[i])) i++;
			/* chunk-size padded with blanks only: not in the grammar, but long tolerated by
			 * recipients (padding senders exist); no RFC clause either way → latitude */
			if (i >= ll) { *reason = "chunk-size-trailing-whitespace"; return H1_MAY_EITHER; }
			if (p[i] != ';') { *reason = "chunk-size-line-invalid"; return H1_MUST_REJECT; }
			i++;
			while (i < ll && is_ows(p[i])) i++;
			size_t a = i;
			while (i < ll && is_tchar(p[i])) i++;
			if (i == a) { *reason = "chunk-ext-invalid"; return H1_MUST_REJECT; }
			size_t save = i;
			while (i < ll && is_ows(p[i])) i++;
			if (i < ll && p[i] == '=') {
				i++;
				while (i < ll && is_ows(p[i])) i++;
				if (i < ll && p[i] == '"') {
					i++;
					while (i < ll && p[i] != '"') { if (p[i] == '\\' && i + 1 < ll) i++; i++; }
					if (i >= ll) { *reason = "chunk-ext-invalid"; return H1_MUST_REJECT; }
					i++;
				} else {
					size_t b = i;
					while (i < ll && is_tchar(p[i])) i++;
					if (i == b) { *reason = "chunk-ext-invalid"; return H1_MUST_REJECT; }
				}
			} else i = save;
		}
		if (size == 0) {
			size_t oct = 0;
			enum h1_status st = parse_fields(c, m->kind, &m->trailers, &m->ntrailers, &m->lat, &oct, reason);
			m->trailer_line_octets = oct;
			return st;
		}
		if (size > c->len - c->pos) return H1_NEEDS_MORE;
		body_add(m, c->d + c->pos, (size_t)size);
		c->pos += (size_t)size;
		if (c->pos >= c->len) return H1_NEEDS_MORE;
		if (c->d[c->pos] == '\r') {
			if (c->pos + 1 >= c->len) return H1_NEEDS_MORE;
			if (c->d[c->pos + 1] != '\n') { *reason = "chunk-data-not-followed-by-crlf"; return H1_MUST_REJECT; }
			c->pos += 2;
		} else if (c->d[c->pos] == '\n') { m->lat |= H1_LAT_BARE_LF; c->pos++; }
		else { *reason = "chunk-data-not-followed-by-crlf"; return H1_MUST_REJECT; }
	}
}

static int has_conn_option(const struct h1_msg *m, const char *opt)
{
	for (int i = 0; i < m->nfields; i++) {
		struct h1_field *f = &m->fields[i];
		if (!ieq(f->name, f->name_len, "connection")) continue;
		struct strlist l = { .cnt = 0 };
		list_add(&l, f->value, f->value_len);
		for (int k = 0; k < l.cnt; k++) if (ieq(l.p[k], l.n[k], opt)) return 1;
	}
	return 0;
}

/* one message starting at c->pos */
static enum h1_status parse_message(struct cur *c, const struct h1_opts *o, const char *req_method,
    struct h1_msg *m, const char **reason, struct h1_result *res)
{
	size_t ls, ll;
	enum h1_status st;
	*reason = NULL;
	memset(m, 0, sizeof *m);
	m->kind = o->kind;
	m->start = c->pos;
	/* §2.2: empty line(s) before the start-line */
	for (;;) {
		if (!read_line(c, &ls, &ll, &m->lat)) return H1_NEEDS_MORE;
		if (ll) break;
		m->lat |= H1_LAT_LEADING_CRLF;
	}
	const unsigned char *p = c->d + ls;
	if ((*reason = line_forbidden(p, ll)) != NULL) return H1_MAY_EITHER;
	m->line_octets = ll;
	if (o->kind == H1_REQUEST) {
		/* §3 request-line = method SP request-target SP HTTP-version */
		size_t ws[64], wl[64]; int nw = 0; size_t i = 0;
		while (i < ll) {
			while (i < ll && is_lws(p[i])) i++;
			if (i >= ll) break;
			size_t a = i;
			while (i < ll && !is_lws(p[i])) i++;
			if (nw < 64) { ws[nw] = a; wl[nw] = i - a; nw++; }
		}
		if (nw < 3) { *reason = "request-line-invalid"; return H1_MUST_REJECT; }
		if (!is_http_version(p + ws[nw - 1], wl[nw - 1], &m->vmajor, &m->vminor)) { *reason = "http-version-invalid"; return H1_MUST_REJECT; }
		if (!h1_is_token((const char *)p + ws[0], wl[0])) { *reason = "method-not-token"; return H1_MUST_REJECT; }
		int strict = nw == 3 && ws[0] == 0 && ws[1] == wl[0] + 1 && p[wl[0]] == ' ' &&
		    ws[2] == ws[1] + wl[1] + 1 && p[ws[1] + wl[1]] == ' ' && ws[2] + wl[2] == ll;
		if (!strict) { *reason = nw == 3 ? "request-line-whitespace" : "request-target-whitespace"; return H1_MAY_EITHER; }
		m->method = dupn(p + ws[0], wl[0]);
		m->target = dupn(p + ws[1], wl[1]);
	} else {
		/* §4 status-line = HTTP-version SP status-code SP [ reason-phrase ] */
		if (ll < 8 || !is_http_version(p, 8, &m->vmajor, &m->vminor)) { *reason = "http-version-invalid"; return H1_MUST_REJECT; }
		if (ll < 12 || p[8] != ' ' || p[9] < '0' || p[9] > '9' || p[10] < '0' || p[10] > '9' || p[11] < '0' || p[11] > '9') {
			*reason = "status-line-invalid"; return H1_MUST_REJECT;
		}
		m->status = (p[9] - '0') * 100 + (p[10] - '0') * 10 + (p[11] - '0');
		if (ll == 12) { *reason = "status-line-without-sp-reason"; return H1_MAY_EITHER; }
		if (p[12] != ' ') { *reason = "status-line-invalid"; return H1_MUST_REJECT; }
		m->reason = dupn(p + 13, ll - 13);
	}
	if (m->vmajor != 1) m->lat |= H1_LAT_VERSION;

	st = parse_fields(c, o->kind, &m->fields, &m->nfields, &m->lat, &m->field_octets, reason);
	m->line_octets += m->field_octets;
	if (st != H1_OK) return st;
	m->head_octets = c->pos - m->start;

	/* §9.3 persistence */
	if (has_conn_option(m, "close")) m->persist = H1_PERSIST_NO;
	else if (m->vmajor == 1 && m->vminor >= 1) m->persist = H1_PERSIST_YES;
	else if (m->vmajor == 1 && m->vminor == 0) m->persist = has_conn_option(m, "keep-alive") ? H1_PERSIST_MAY : H1_PERSIST_NO;
	else m->persist = H1_PERSIST_MAY;

	st = decide_framing(m, req_method, reason);
	res->tail_has_head = 1; res->tail_line_octets = m->line_octets;
	res->tail_framing = m->framing; res->tail_content_length = m->content_length;
	if (st != H1_OK) return st;

	if (o->kind == H1_REQUEST && (m->vmajor > 1 || (m->vmajor == 1 && m->vminor >= 1))) {
		for (int i = 0; i < m->nfields; i++)
			if (ieq(m->fields[i].name, m->fields[i].name_len, "expect") &&
			    !ieq(m->fields[i].value, m->fields[i].value_len, "100-continue"))
				m->lat |= H1_LAT_EXPECT_OTHER;
	}

	switch (m->framing) {
	case H1_FR_NONE: break;
	case H1_FR_CL:
		if (m->content_length > c->len - c->pos) return H1_NEEDS_MORE;
		body_add(m, c->d + c->pos, (size_t)m->content_length);
		c->pos += (size_t)m->content_length;
		break;
	case H1_FR_CHUNKED:
		st = parse_chunked(c, m, reason);
		if (st != H1_OK) return st;
		break;
	case H1_FR_CLOSE:
		if (!o->eof) return H1_NEEDS_MORE;
		body_add(m, c->d + c->pos, c->len - c->pos);
		c->pos = c->len;
		break;
	}
	m->end = c->pos;
	return H1_OK;
}

static void free_msg(struct h1_msg *m)
{
	free(m->method); free(m->target); free(m->reason); free(m->body);
	for (int i = 0; i < m->nfields; i++) { free(m->fields[i].name); free(m->fields[i].value); }
	for (int i = 0; i < m->ntrailers; i++) { free(m->trailers[i].name); free(m->trailers[i].value); }
	free(m->fields); free(m->trailers);
	memset(m, 0, sizeof *m);
}

int h1_parse_stream(const void *data, size_t len, const struct h1_opts *o, struct h1_result *out)
{
	struct cur c = { data, len, 0 };
	int maxm = o->max_msgs > 0 ? o->max_msgs : 8, reqi = 0;
	memset(out, 0, sizeof *out);
	out->msgs = xrealloc(NULL, sizeof(struct h1_msg) * (size_t)maxm);
	while (out->nmsgs < maxm) {
		struct h1_msg m;
		const char *reason = NULL, *rm = NULL;
		size_t at = c.pos;
		if (c.pos >= c.len) { out->tail = H1_OK; out->tail_off = c.pos; return 0; }
		if (o->kind == H1_RESPONSE && reqi < o->n_req_methods) rm = o->req_methods[reqi];
		out->tail_has_head = 0;
		enum h1_status st = parse_message(&c, o, rm, &m, &reason, out);
		if (st != H1_OK) {
			/* a tail of nothing but empty lines is not a message in progress worth reporting */
			free_msg(&m);
			out->tail = st; out->reason = reason; out->tail_off = at;
			return 0;
		}
		out->tail_has_head = 0;
		out->msgs[out->nmsgs++] = m;
		if (!(o->kind == H1_RESPONSE && m.status >= 100 && m.status < 200)) reqi++;
		if (m.persist == H1_PERSIST_NO) { out->closed = 1; out->tail = H1_OK; out->tail_off = c.pos; return 0; }
	}
	out->tail = H1_OK; out->tail_off = c.pos;
	return 0;
}

void h1_result_free(struct h1_result *r)
{
	for (int i = 0; i < r->nmsgs; i++) free_msg(&r->msgs[i]);
	free(r->msgs);
	memset(r, 0, sizeof *r);
}
