/* dnswire — reference DNS wire-format encoder/decoder (see dnswire.h). */
#include "dnswire.h"
#include <string.h>

void dw_name_init(struct dw_name *n)
{
	memset(n, 0, sizeof *n);
	n->wire_len = 1;                    /* the root octet */
}

int dw_name_add_label(struct dw_name *n, const void *p, size_t l)
{
	size_t used = (size_t)n->wire_len - 1 - (size_t)n->nlabels;   /* octets in data[] */
	if (l == 0 || l > DW_MAX_LABEL) return DW_E_LABEL_LONG;
	if (n->nlabels >= DW_MAX_LABELS) return DW_E_NAME_LONG;
	if ((size_t)n->wire_len + 1 + l > DW_LENIENT_WIRE) return DW_E_NAME_LONG;
	n->llen[n->nlabels] = (uint8_t)l;
	n->lpos[n->nlabels] = (uint16_t)used;
	memcpy(n->data + used, p, l);
	if (memchr(p, 0, l)) n->has_nul = 1;
	if (memchr(p, '.', l)) n->has_dot = 1;
	n->nlabels++;
	n->wire_len += 1 + (int)l;
	if (n->wire_len > DW_MAX_NAME_WIRE) n->overlong = 1;
	return DW_OK;
}

int dw_name_from_text(const char *s, size_t slen, struct dw_name *out)
{
	size_t i = 0, start;
	dw_name_init(out);
	if (slen == 0) return DW_OK;                       /* "" = root */
	if (slen == 1 && s[0] == '.') return DW_OK;        /* "." = root */
	for (;;) {
		start = i;
		while (i < slen && s[i] != '.') i++;
		if (i == start) return DW_E_EMPTY_LABEL;       /* leading dot, "..", or nothing before a dot */
		if (i - start > DW_MAX_LABEL) return DW_E_LABEL_LONG;
		if ((size_t)out->wire_len + 1 + (i - start) > DW_MAX_NAME_WIRE) return DW_E_TEXT_LONG;
		if (dw_name_add_label(out, s + start, i - start) != DW_OK) return DW_E_TEXT_LONG;
		if (i == slen) break;                          /* no trailing dot */
		i++;                                           /* skip the dot */
		if (i == slen) break;                          /* exactly one trailing dot */
	}
	return DW_OK;
}

size_t dw_name_text(const struct dw_name *n, char *out, size_t cap)
{
	size_t o = 0;
	for (int i = 0; i < n->nlabels; i++) {
		if (i) { if (o + 1 >= cap) break; out[o++] = '.'; }
		if (o + n->llen[i] >= cap) break;
		memcpy(out + o, n->data + n->lpos[i], n->llen[i]);
		o += n->llen[i];
	}
	out[o] = 0;
	return o;
}

static int lower(int c) { return (c >= 'A' && c <= 'Z') ? c + 32 : c; }

int dw_name_eq(const struct dw_name *a, const struct dw_name *b, int ci)
{
	if (a->nlabels != b->nlabels) return 0;
	for (int i = 0; i < a->nlabels; i++) {
		if (a->llen[i] != b->llen[i]) return 0;
		const uint8_t *x = a->data + a->lpos[i], *y = b->data + b->lpos[i];
		for (int k = 0; k < a->llen[i]; k++) {
			if (ci ? lower(x[k]) != lower(y[k]) : x[k] != y[k]) return 0;
		}
	}
	return 1;
}

/* ---- encoder ---- */
#define FAIL ((size_t)-1)
size_t dw_put_u8(uint8_t *b, size_t cap, size_t off, unsigned v)
{
	if (off == FAIL || off + 1 > cap) return FAIL;
	b[off] = (uint8_t)v; return off + 1;
}
size_t dw_put_u16(uint8_t *b, size_t cap, size_t off, unsigned v)
{
	if (off == FAIL || off + 2 > cap) return FAIL;
	b[off] = (uint8_t)(v >> 8); b[off + 1] = (uint8_t)v; return off + 2;
}
size_t dw_put_u32(uint8_t *b, size_t cap, size_t off, uint32_t v)
{
	if (off == FAIL || off + 4 > cap) return FAIL;
	b[off] = (uint8_t)(v >> 24); b[off + 1] = (uint8_t)(v >> 16); b[off + 2] = (uint8_t)(v >> 8); b[off + 3] = (uint8_t)v;
	return off + 4;
}
size_t dw_put_bytes(uint8_t *b, size_t cap, size_t off, const void *p, size_t n)
{
	if (off == FAIL || off + n > cap) return FAIL;
	if (n) memcpy(b + off, p, n);
	return off + n;
}
size_t dw_put_name(uint8_t *b, size_t cap, size_t off, const struct dw_name *n)
{
	for (int i = 0; i < n->nlabels; i++) {
		off = dw_put_u8(b, cap, off, n->llen[i]);
		off = dw_put_bytes(b, cap, off, n->data + n->lpos[i], n->llen[i]);
	}
	return dw_put_u8(b, cap, off, 0);
}
size_t dw_put_header(uint8_t *b, size_t cap, const struct dw_header *h)
{
	size_t o = 0;
	o = dw_put_u16(b, cap, o, h->id); o = dw_put_u16(b, cap, o, h->flags);
	o = dw_put_u16(b, cap, o, h->qd); o = dw_put_u16(b, cap, o, h->an);
	o = dw_put_u16(b, cap, o, h->ns); o = dw_put_u16(b, cap, o, h->ar);
	return o;
}

/* ---- decoder ---- */
uint16_t dw_get_u16(const uint8_t *p) { return (uint16_t)((p[0] << 8) | p[1]); }
uint32_t dw_get_u32(const uint8_t *p) { return ((uint32_t)p[0] << 24) | ((uint32_t)p[1] << 16) | ((uint32_t)p[2] << 8) | p[3]; }

static int bit_get(const uint8_t *m, size_t i) { return i < 65536 && (m[i >> 3] >> (i & 7)) & 1; }
static void bit_set(uint8_t *m, size_t i) { if (i < 65536) m[i >> 3] |= (uint8_t)(1u << (i & 7)); }

void dw_reader_init(struct dw_reader *r, const uint8_t *msg, size_t len)
{
	r->msg = msg; r->len = len; r->off = 0;
	/* only offsets < len can ever be marked; `seen` is cleaned by every decode */
	size_t nb = len / 8 + 2; if (nb > sizeof r->lstart) nb = sizeof r->lstart;
	memset(r->lstart, 0, nb);
	memset(r->seen, 0, nb);
}

int dw_read_header(struct dw_reader *r, struct dw_header *h)
{
	if (r->len < 12) return DW_E_TRUNC;
	h->id = dw_get_u16(r->msg); h->flags = dw_get_u16(r->msg + 2);
	h->qd = dw_get_u16(r->msg + 4); h->an = dw_get_u16(r->msg + 6);
	h->ns = dw_get_u16(r->msg + 8); h->ar = dw_get_u16(r->msg + 10);
	r->off = 12;
	return DW_OK;
}

int dw_name_decode(struct dw_reader *r, size_t at, size_t *next, struct dw_name *out, int record)
{
	size_t p = at;                 /* where we are reading */
	size_t after = 0; int jumped = 0;
	size_t inl[DW_MAX_LABELS + 2]; int n_inl = 0;   /* inline label starts of the sequential part */
	size_t seen_list[256]; int n_seen = 0;
	int rc = DW_OK;
	dw_name_init(out);
	for (;;) {
		if (p >= r->len) { rc = DW_E_TRUNC; break; }
		unsigned c = r->msg[p];
		if ((c & 0xc0) == 0xc0) {
			if (p + 1 >= r->len) { rc = DW_E_TRUNC; break; }
			size_t t = ((size_t)(c & 0x3f) << 8) | r->msg[p + 1];
			if (!jumped) { after = p + 2; jumped = 1; }
			if (t >= r->len) { rc = DW_E_PTR_RANGE; break; }
			if (bit_get(r->seen, t)) { rc = DW_E_PTR_LOOP; break; }
			if (n_seen < 256) { seen_list[n_seen++] = t; bit_set(r->seen, t); }
			else { rc = DW_E_PTR_LOOP; break; }   /* > 256 hops cannot occur in a legal name */
			if (t >= p) out->fwd_ptr = 1;
			if (!bit_get(r->lstart, t)) out->bad_target = 1;
			out->n_ptr++;
			p = t;
			continue;
		}
		if (c & 0xc0) { rc = DW_E_LABEL_TYPE; break; }
		if (c == 0) {
			if (!jumped) { if (n_inl < DW_MAX_LABELS + 2) inl[n_inl++] = p; after = p + 1; }
			break;
		}
		if (p + 1 + c > r->len) { rc = DW_E_TRUNC; break; }
		if (!jumped && n_inl < DW_MAX_LABELS + 2) inl[n_inl++] = p;
		if (dw_name_add_label(out, r->msg + p + 1, c) != DW_OK) { rc = DW_E_NAME_LONG; break; }
		p += 1 + c;
	}
	for (int i = 0; i < n_seen; i++) r->seen[seen_list[i] >> 3] = 0;   /* cheap reset (clears whole bytes; fine: scratch) */
	if (rc != DW_OK) return rc;
	if (record) for (int i = 0; i < n_inl; i++) bit_set(r->lstart, inl[i]);
	if (next) *next = after;
	return DW_OK;
}

int dw_read_question(struct dw_reader *r, struct dw_question *q)
{
	size_t nx; int rc = dw_name_decode(r, r->off, &nx, &q->name, 1);
	if (rc) return rc;
	if (nx + 4 > r->len) return DW_E_TRUNC;
	q->type = dw_get_u16(r->msg + nx); q->class_ = dw_get_u16(r->msg + nx + 2);
	r->off = nx + 4;
	return DW_OK;
}

int dw_read_rr(struct dw_reader *r, struct dw_rr *rr)
{
	size_t nx; int rc;
	rr->start = r->off;
	rc = dw_name_decode(r, r->off, &nx, &rr->owner, 1);
	if (rc) return rc;
	if (nx + 10 > r->len) return DW_E_TRUNC;
	rr->type = dw_get_u16(r->msg + nx); rr->class_ = dw_get_u16(r->msg + nx + 2);
	rr->ttl = dw_get_u32(r->msg + nx + 4); rr->rdlen = dw_get_u16(r->msg + nx + 8);
	rr->rdata = nx + 10; rr->end = rr->rdata + rr->rdlen;
	if (rr->end > r->len) return DW_E_RDATA;
	r->off = rr->end;
	return DW_OK;
}

int dw_read_rdata_name(struct dw_reader *r, size_t at, struct dw_name *out, size_t *name_end)
{
	return dw_name_decode(r, at, name_end, out, 1);
}

const char *dw_strerror(int e)
{
	switch (e) {
	case DW_OK: return "ok";
	case DW_E_TRUNC: return "truncated";
	case DW_E_PTR_RANGE: return "pointer-out-of-range";
	case DW_E_PTR_LOOP: return "pointer-loop";
	case DW_E_LABEL_TYPE: return "bad-label-type";
	case DW_E_NAME_LONG: return "name-too-long";
	case DW_E_RDATA: return "rdata-overrun";
	case DW_E_EMPTY_LABEL: return "empty-label";
	case DW_E_LABEL_LONG: return "label-too-long";
	case DW_E_TEXT_LONG: return "text-too-long";
	}
	return "?";
}
