/* bytestr — byte-string reference model of an evbuffer.
 *
 * Coded from DESIGN.md Appendix E and include/event2/buffer.h (NOT from
 * buffer.c).  A buffer is a plain byte array plus the two freeze bits.  Every
 * function returns what the corresponding evbuffer_* call must return and
 * applies the documented effect.  Readings where the header is silent are
 * listed in notes/evbuf.md.
 */
#ifndef BYTESTR_H
#define BYTESTR_H
#include <stddef.h>
#include <stdint.h>
#include <sys/types.h>

#define BS_MAX 40960

struct bytestr {
	unsigned char d[BS_MAX];
	size_t len;
	int fz_start, fz_end;
};

enum bs_eol { BS_EOL_ANY, BS_EOL_CRLF, BS_EOL_CRLF_STRICT, BS_EOL_LF, BS_EOL_NUL };

void    bs_init(struct bytestr *m);
void    bs_copy(struct bytestr *dst, const struct bytestr *src);
int     bs_equal(const struct bytestr *a, const struct bytestr *b);   /* content, length, freeze bits */
uint64_t bs_hash(const struct bytestr *m);                            /* content + length + freeze bits */

int     bs_add(struct bytestr *m, const void *data, size_t n);
int     bs_prepend(struct bytestr *m, const void *data, size_t n);
int     bs_expand(struct bytestr *m, size_t n);
int     bs_add_reference(struct bytestr *m, const void *data, size_t n);   /* -1: cleanup must NOT run */
int     bs_drain(struct bytestr *m, size_t n);
int     bs_remove(struct bytestr *m, void *out, size_t n);
/* pos < 0: no position (copyout); returns -1 for frozen start / ssize_t overflow */
ssize_t bs_copyout_from(const struct bytestr *m, ssize_t pos, void *out, size_t n);
int     bs_add_buffer(struct bytestr *dst, struct bytestr *src);
int     bs_prepend_buffer(struct bytestr *dst, struct bytestr *src);
int     bs_remove_buffer(struct bytestr *src, struct bytestr *dst, size_t n);
/* add_buffer_reference for sources made of plain/reference chains only */
int     bs_add_buffer_reference(struct bytestr *dst, const struct bytestr *src);
/* number of bytes that must be contiguous and equal to the prefix; 0 = NULL expected */
size_t  bs_pullup(const struct bytestr *m, ssize_t n);
/* evbuffer_ptr positions: -1 = invalid */
int     bs_ptr_set(const struct bytestr *m, ssize_t *pos, size_t n, int add);
/* start < 0: NULL start; end < 0: NULL end.  Returns position or -1. */
ssize_t bs_search_range(const struct bytestr *m, const void *what, size_t len, ssize_t start, ssize_t end);
ssize_t bs_search_eol(const struct bytestr *m, ssize_t start, enum bs_eol style, size_t *eol_len);
/* returns 1 and fills line_len / total drained if a line is read, 0 for NULL */
int     bs_readln(struct bytestr *m, enum bs_eol style, unsigned char *line, size_t *line_len);
int     bs_freeze(struct bytestr *m, int start);
int     bs_unfreeze(struct bytestr *m, int start);
/* reserve: returns -1 if the end is frozen, else 0 (the number of extents is
 * implementation-defined: 1..n_vec with total space >= size) */
int     bs_reserve(const struct bytestr *m);
/* commit of `n` bytes that were written into validly reserved space */
int     bs_commit(struct bytestr *m, const void *data, size_t n);

#endif
