/* Reference model of the wire format of the test RPC types (test/regress.rpc:
 * msg, kill, run) — written from the format description, independent of
 * event_tagging.c and of the generated code.
 *
 *   element  := tag length payload
 *   tag      := base-128 little-endian, high bit = continuation, value < 2^32
 *               (the 5th octet may only carry 4 bits)
 *   length   := nibble-encoded unsigned: high nibble of the first octet = n-1
 *               (n = number of significant nibbles, n <= 8), the value's nibbles
 *               follow most significant first, starting in the low nibble of the
 *               first octet; size = n/2 + 1 octets
 *   int      := payload is a nibble-encoded unsigned whose size may not exceed
 *               the payload (a longer payload is tolerated: the decoder's rule)
 *   struct   := payload is a sequence of elements, until the payload is used up
 *
 * Struct rules (from regress.rpc): unknown tag → reject; a non-array member may
 * occur once; required members must be present; nested structs must be
 * well-formed themselves.  Strings are delivered as C strings (cut at the first
 * NUL octet). */
#ifndef RPC_REF_H
#define RPC_REF_H
#include <stdint.h>
#include <string.h>
#include <stddef.h>

#define REF_STR 300
#define REF_ARR 8

struct ref_kill { int weapon_set, action_set; char weapon[REF_STR], action[REF_STR]; int n_how; uint32_t how[REF_ARR]; };
struct ref_run  { int how_set, some_set, fixed_set, large_set; char how[REF_STR]; unsigned char some[64]; uint32_t some_len;
                  unsigned char fixed[24]; int n_notes; char notes[REF_ARR][64]; uint64_t large; int n_other; uint32_t other[REF_ARR]; };
struct ref_msg  { int from_set, to_set, attack_set; char from[REF_STR], to[REF_STR]; struct ref_kill attack; int n_run; struct ref_run run[3]; };

struct ref_in { const unsigned char *p; size_t n; };

static int ref_tag(struct ref_in *in, uint32_t *tag)
{
	uint64_t v = 0; int shift = 0; size_t i = 0;
	for (;;) {
		if (i >= in->n) return -1;
		unsigned char c = in->p[i++];
		if (shift == 28 && (c & 0x7f) > 15) return -1;
		if (shift > 28) return -1;
		v |= (uint64_t)(c & 0x7f) << shift; shift += 7;
		if (!(c & 0x80)) break;
	}
	*tag = (uint32_t)v; in->p += i; in->n -= i;
	return 0;
}
/* nibble-encoded unsigned at the head of in; maxn = 8 (32 bit) or 16 (64 bit).  Returns encoded size or -1; does not consume. */
static int ref_uint_peek(const struct ref_in *in, int maxn, uint64_t *out)
{
	if (in->n < 1) return -1;
	int n = (in->p[0] >> 4) + 1, size = n / 2 + 1;
	if (n > maxn || (size_t)size > in->n) return -1;
	uint64_t v = 0;
	for (int k = n; k > 0; k--) {          /* nibble index k: odd → low nibble of octet k/2, even → high nibble */
		unsigned char c = in->p[k >> 1];
		v = v << 4 | ((k & 1) ? (c & 0x0f) : (c >> 4));
	}
	*out = v;
	return size;
}
/* header: tag + length; leaves in at the payload and checks that the payload is there */
static int ref_header(struct ref_in *in, uint32_t *tag, uint32_t *len)
{
	uint64_t l; int s;
	if (ref_tag(in, tag) < 0) return -1;
	if ((s = ref_uint_peek(in, 8, &l)) < 0) return -1;
	in->p += s; in->n -= s;
	if (in->n < l) return -1;
	*len = (uint32_t)l;
	return 0;
}
static int ref_string(struct ref_in *in, uint32_t len, char *dst, size_t cap)
{
	size_t n = len;
	if (n >= cap) return -2;                    /* outside the model's capacity */
	memcpy(dst, in->p, n); dst[n] = 0;
	dst[strlen(dst)] = 0;
	memset(dst + strlen(dst), 0, cap - strlen(dst));
	in->p += len; in->n -= len;
	return 0;
}
static int ref_int_payload(struct ref_in *in, uint32_t len, int maxn, uint64_t *out)
{
	struct ref_in pl = { in->p, len };
	int s = ref_uint_peek(&pl, maxn, out);
	in->p += len; in->n -= len;
	return s < 0 ? -1 : 0;
}

static int ref_decode_kill(const unsigned char *p, size_t n, struct ref_kill *k)
{
	struct ref_in in = { p, n };
	memset(k, 0, sizeof *k);
	while (in.n > 0) {
		uint32_t tag, len; uint64_t v; int r;
		if (ref_header(&in, &tag, &len) < 0) return -1;
		switch (tag) {
		case 0x10121: if (k->weapon_set) return -1; if ((r = ref_string(&in, len, k->weapon, sizeof k->weapon))) return r; k->weapon_set = 1; break;
		case 2: if (k->action_set) return -1; if ((r = ref_string(&in, len, k->action, sizeof k->action))) return r; k->action_set = 1; break;
		case 3: if (k->n_how >= REF_ARR) return -2; if (ref_int_payload(&in, len, 8, &v) < 0) return -1; k->how[k->n_how++] = (uint32_t)v; break;
		default: return -1;
		}
	}
	return k->weapon_set && k->action_set ? 0 : -1;
}
/* number of string members (how, notes) decoded inside a `run` array element whose decoding then
 * failed — only used to attribute a known leak of the generated unmarshal code, not for verdicts */
static int ref_partial_run_strings;
static int ref_decode_run(const unsigned char *p, size_t n, struct ref_run *u)
{
	struct ref_in in = { p, n };
	memset(u, 0, sizeof *u);
	while (in.n > 0) {
		uint32_t tag, len; uint64_t v; int r;
		if (ref_header(&in, &tag, &len) < 0) return -1;
		switch (tag) {
		case 1: if (u->how_set) return -1; if ((r = ref_string(&in, len, u->how, sizeof u->how))) return r; u->how_set = 1; break;
		case 2: if (u->some_set) return -1; if (len > sizeof u->some) return -2; memcpy(u->some, in.p, len); u->some_len = len; in.p += len; in.n -= len; u->some_set = 1; break;
		case 3: if (u->fixed_set) return -1; if (len != 24) return -1; memcpy(u->fixed, in.p, 24); in.p += 24; in.n -= 24; u->fixed_set = 1; break;
		case 4: if (u->n_notes >= REF_ARR) return -2; if ((r = ref_string(&in, len, u->notes[u->n_notes], sizeof u->notes[0]))) return r; u->n_notes++; break;
		case 5: if (u->large_set) return -1; if (ref_int_payload(&in, len, 16, &v) < 0) return -1; u->large = v; u->large_set = 1; break;
		case 6: if (u->n_other >= REF_ARR) return -2; if (ref_int_payload(&in, len, 8, &v) < 0) return -1; u->other[u->n_other++] = (uint32_t)v; break;
		default: return -1;
		}
	}
	return u->how_set && u->fixed_set ? 0 : -1;
}
/* 0 = well-formed (value in *m), -1 = malformed, -2 = outside the model's capacity (no verdict) */
static int ref_decode_msg(const unsigned char *p, size_t n, struct ref_msg *m)
{
	struct ref_in in = { p, n };
	memset(m, 0, sizeof *m);
	ref_partial_run_strings = 0;
	while (in.n > 0) {
		uint32_t tag, len; int r;
		if (ref_header(&in, &tag, &len) < 0) return -1;
		switch (tag) {
		case 1: if (m->from_set) return -1; if ((r = ref_string(&in, len, m->from, sizeof m->from))) return r; m->from_set = 1; break;
		case 2: if (m->to_set) return -1; if ((r = ref_string(&in, len, m->to, sizeof m->to))) return r; m->to_set = 1; break;
		case 3: if (m->attack_set) return -1; if ((r = ref_decode_kill(in.p, len, &m->attack))) return r; in.p += len; in.n -= len; m->attack_set = 1; break;
		case 4: if (m->n_run >= 3) return -2;
			if ((r = ref_decode_run(in.p, len, &m->run[m->n_run]))) { ref_partial_run_strings = m->run[m->n_run].how_set + m->run[m->n_run].n_notes; return r; }
			in.p += len; in.n -= len; m->n_run++; break;
		default: return -1;
		}
	}
	return m->from_set && m->to_set ? 0 : -1;
}

/* ---- reference encoder (used to cross-check the library's marshalling) ---- */
struct ref_out { unsigned char *p; size_t n, cap; };
static void ref_put(struct ref_out *o, const void *d, size_t n) { if (o->n + n <= o->cap) memcpy(o->p + o->n, d, n); o->n += n; }
static void ref_put_tag(struct ref_out *o, uint32_t tag)
{
	do { unsigned char c = tag & 0x7f; tag >>= 7; if (tag) c |= 0x80; ref_put(o, &c, 1); } while (tag);
}
static void ref_put_uint(struct ref_out *o, uint64_t v)
{
	int n = 1; unsigned char b[9] = {0};
	while (n < 16 && (v >> (4 * n))) n++;
	b[0] = (unsigned char)((n - 1) << 4);
	for (int k = 1; k <= n; k++) {            /* nibble k (1 = least significant ... n = most significant) */
		unsigned nib = (unsigned)(v >> (4 * (k - 1))) & 0xf;     /* least significant nibble is stored at index 1 */
		if (k & 1) b[k >> 1] |= nib; else b[k >> 1] |= nib << 4;
	}
	ref_put(o, b, n / 2 + 1);
}
static void ref_put_bytes(struct ref_out *o, uint32_t tag, const void *d, size_t n) { ref_put_tag(o, tag); ref_put_uint(o, n); ref_put(o, d, n); }
static void ref_put_int(struct ref_out *o, uint32_t tag, uint64_t v)
{
	unsigned char tmp[9]; struct ref_out t = { tmp, 0, sizeof tmp };
	ref_put_uint(&t, v); ref_put_bytes(o, tag, tmp, t.n);
}
static size_t ref_encode_kill(const struct ref_kill *k, unsigned char *buf, size_t cap)
{
	struct ref_out o = { buf, 0, cap };
	if (k->weapon_set) ref_put_bytes(&o, 0x10121, k->weapon, strlen(k->weapon));
	if (k->action_set) ref_put_bytes(&o, 2, k->action, strlen(k->action));
	for (int i = 0; i < k->n_how; i++) ref_put_int(&o, 3, k->how[i]);
	return o.n;
}
static size_t ref_encode_run(const struct ref_run *u, unsigned char *buf, size_t cap)
{
	struct ref_out o = { buf, 0, cap };
	if (u->how_set) ref_put_bytes(&o, 1, u->how, strlen(u->how));
	if (u->some_set) ref_put_bytes(&o, 2, u->some, u->some_len);
	if (u->fixed_set) ref_put_bytes(&o, 3, u->fixed, 24);
	for (int i = 0; i < u->n_notes; i++) ref_put_bytes(&o, 4, u->notes[i], strlen(u->notes[i]));
	if (u->large_set) ref_put_int(&o, 5, u->large);
	for (int i = 0; i < u->n_other; i++) ref_put_int(&o, 6, u->other[i]);
	return o.n;
}
static size_t ref_encode_msg(const struct ref_msg *m, unsigned char *buf, size_t cap)
{
	struct ref_out o = { buf, 0, cap }; unsigned char tmp[1024];
	if (m->from_set) ref_put_bytes(&o, 1, m->from, strlen(m->from));
	if (m->to_set) ref_put_bytes(&o, 2, m->to, strlen(m->to));
	if (m->attack_set) { size_t n = ref_encode_kill(&m->attack, tmp, sizeof tmp); ref_put_bytes(&o, 3, tmp, n); }
	for (int i = 0; i < m->n_run; i++) { size_t n = ref_encode_run(&m->run[i], tmp, sizeof tmp); ref_put_bytes(&o, 4, tmp, n); }
	return o.n;
}

static int ref_kill_eq(const struct ref_kill *a, const struct ref_kill *b)
{
	if (a->weapon_set != b->weapon_set || a->action_set != b->action_set || a->n_how != b->n_how) return 0;
	if (strcmp(a->weapon, b->weapon) || strcmp(a->action, b->action)) return 0;
	return !memcmp(a->how, b->how, sizeof(uint32_t) * a->n_how);
}
static int ref_run_eq(const struct ref_run *a, const struct ref_run *b)
{
	if (a->how_set != b->how_set || a->some_set != b->some_set || a->fixed_set != b->fixed_set || a->large_set != b->large_set) return 0;
	if (strcmp(a->how, b->how) || a->n_notes != b->n_notes || a->n_other != b->n_other) return 0;
	if (a->some_set && (a->some_len != b->some_len || memcmp(a->some, b->some, a->some_len))) return 0;
	if (a->fixed_set && memcmp(a->fixed, b->fixed, 24)) return 0;
	if (a->large_set && a->large != b->large) return 0;
	for (int i = 0; i < a->n_notes; i++) if (strcmp(a->notes[i], b->notes[i])) return 0;
	return !memcmp(a->other, b->other, sizeof(uint32_t) * a->n_other);
}
static int ref_msg_eq(const struct ref_msg *a, const struct ref_msg *b)
{
	if (a->from_set != b->from_set || a->to_set != b->to_set || a->attack_set != b->attack_set || a->n_run != b->n_run) return 0;
	if (strcmp(a->from, b->from) || strcmp(a->to, b->to)) return 0;
	if (a->attack_set && !ref_kill_eq(&a->attack, &b->attack)) return 0;
	for (int i = 0; i < a->n_run; i++) if (!ref_run_eq(&a->run[i], &b->run[i])) return 0;
	return 1;
}
#endif
