/* mcx explorer core.  See mcx.h.  Compiled WITHOUT sanitizers' interest in
 * mind: it only touches its own shared memory.  Real time is read with raw
 * syscalls because harness binaries --wrap clock_gettime & friends. */
#define _GNU_SOURCE
#include "mcx.h"
#include <stdio.h>
#include <stdlib.h>
#include <string.h>
#include <stdarg.h>
#include <unistd.h>
#include <errno.h>
#include <signal.h>
#include <fcntl.h>
#include <time.h>
#include <sys/mman.h>
#include <sys/wait.h>
#include <sys/syscall.h>
#include <sys/stat.h>

#define MAXPATH 512
#define MAXWORK 64
#define MAXFAIL 48
#define MAXCOUNTERS 96
#define NSAMPLES 6
#define SAMPLE_LEN 3000
#define CLAIM_BITS (1u << 24)

struct frame { uint16_t choice, arity; uint8_t cost; };

struct slot {
	volatile int len;
	struct frame path[MAXPATH];
	volatile int mode;            /* 0 TOP, 1 SUB */
	volatile uint64_t seq;
	volatile uint64_t execs;      /* progress counter (watchdog) */
	volatile int running;         /* inside body */
	volatile int finished;
	volatile int started;
	/* shard mode */
	volatile uint64_t item, item_end;
	volatile int have_chunk;
	volatile int claimed;
	pid_t pid;
	int crashes;
	int bestlen;
};

struct failure {
	char key[200];
	char msg[1200];
	char path[2600];
	volatile uint64_t count;
};

struct counter { char name[64]; volatile uint64_t v; };

struct shared {
	struct slot slots[MAXWORK];
	volatile int lock;
	volatile int stop;            /* deadline or too many failures */
	volatile int deadline_hit;
	volatile int table_full;
	volatile int divergence;
	volatile uint64_t executions, states, transitions, prunes, outcomes, nontrivial;
	volatile uint64_t next_item;
	volatile uint64_t items_done;
	volatile uint64_t maxlen;
	volatile int nfail;
	struct failure fails[MAXFAIL];
	volatile int ncounters;
	struct counter counters[MAXCOUNTERS];
	char samples[NSAMPLES][SAMPLE_LEN];
	volatile uint32_t claim[CLAIM_BITS / 32];
};

static struct shared *S;
static uint64_t *visited; static int visited_bits = 24; static uint64_t visited_used_limit;
static volatile uint64_t *visited_used;
static uint64_t *outset; static int outset_bits = 22;
static uint64_t *ntset; static int ntset_bits = 22;

static const struct mc_config *CFG;
static int W = 1, me = 0, bound = 0, split = 2, replay = 0, hang_s = 60;
static double budget_s = 1e9, t0;
static const char *outfile = NULL, *errdir = NULL;
static char *params[64]; static int nparams;

/* per-execution state */
static struct slot *cur;
static int pos, prefix_len, exec_failed, devused, counting = 1;
static char obs[1 << 16]; static int obslen, obs_trunc;
static int replay_vec[MAXPATH], replay_n;

static double now_real(void)
{
	struct timespec ts;
	syscall(SYS_clock_gettime, CLOCK_MONOTONIC, &ts);
	return ts.tv_sec + ts.tv_nsec * 1e-9;
}
static void msleep(int ms)
{
	struct timespec ts = { ms / 1000, (ms % 1000) * 1000000L };
	syscall(SYS_nanosleep, &ts, NULL);
}

static void lock(void) { while (__sync_lock_test_and_set(&S->lock, 1)) ; }
static void unlock(void) { __sync_lock_release(&S->lock); }

uint64_t mc_hash(uint64_t h, const void *p, size_t n)
{
	const unsigned char *c = p;
	if (!h) h = 0xcbf29ce484222325ULL;
	while (n--) { h ^= *c++; h *= 0x100000001b3ULL; }
	return h;
}
uint64_t mc_hash_u64(uint64_t h, uint64_t v)
{
	h ^= v + 0x9e3779b97f4a7c15ULL + (h << 6) + (h >> 2);
	h *= 0xff51afd7ed558ccdULL; h ^= h >> 33;
	return h;
}
static uint64_t mix(uint64_t h)
{
	h ^= h >> 33; h *= 0xff51afd7ed558ccdULL; h ^= h >> 33; h *= 0xc4ceb9fe1a85ec53ULL; h ^= h >> 33;
	return h;
}

/* insert into a plain hash set; returns 1 if new */
static int set_insert(uint64_t *tab, int bits, uint64_t h)
{
	uint64_t m = mix(h) | 1, i = m >> (64 - bits), n = 0, cap = 1ULL << bits;
	for (; n < 64; n++, i = (i + 1) & (cap - 1)) {
		uint64_t v = tab[i];
		if (v == m) return 0;
		if (v == 0) {
			if (__sync_bool_compare_and_swap(&tab[i], 0, m)) return 1;
			if (tab[i] == m) return 0;
		}
	}
	return 0; /* table crowded: count conservatively (not new) */
}

int mc_param(const char *name, int dflt)
{
	size_t l = strlen(name);
	for (int i = 0; i < nparams; i++)
		if (!strncmp(params[i], name, l) && params[i][l] == '=') return atoi(params[i] + l + 1);
	return dflt;
}
const char *mc_param_str(const char *name, const char *dflt)
{
	size_t l = strlen(name);
	for (int i = 0; i < nparams; i++)
		if (!strncmp(params[i], name, l) && params[i][l] == '=') return params[i] + l + 1;
	return dflt;
}
int mc_replaying(void) { return replay; }
int mc_pos(void) { return pos; }
int mc_dev_left(void) { return bound - devused; }
int mc_worker(void) { return me; }
int mc_failed(void) { return exec_failed; }

static void path_to_str(char *buf, size_t n)
{
	size_t o = 0; buf[0] = 0;
	if (CFG->item) { snprintf(buf, n, "item:%llu", (unsigned long long)cur->item); return; }
	for (int i = 0; i < cur->len && o + 8 < n; i++)
		o += snprintf(buf + o, n - o, "%s%d", i ? "," : "", cur->path[i].choice);
}

static void record_failure(const char *key, const char *msg)
{
	char p[2600];
	path_to_str(p, sizeof p);
	lock();
	int i;
	for (i = 0; i < S->nfail; i++)
		if (!strcmp(S->fails[i].key, key)) break;
	if (i == S->nfail) {
		if (S->nfail < MAXFAIL) {
			struct failure *f = &S->fails[S->nfail];
			snprintf(f->key, sizeof f->key, "%s", key);
			snprintf(f->msg, sizeof f->msg, "%s", msg);
			snprintf(f->path, sizeof f->path, "%s", p);
			f->count = 1;
			S->nfail++;
		} else S->stop = 1;
	} else {
		S->fails[i].count++;
		/* keep the shortest witness */
		if (strlen(p) < strlen(S->fails[i].path)) {
			snprintf(S->fails[i].path, sizeof S->fails[i].path, "%s", p);
			snprintf(S->fails[i].msg, sizeof S->fails[i].msg, "%s", msg);
		}
	}
	unlock();
}

void mc_fail(const char *key, const char *fmt, ...)
{
	char msg[1200]; va_list ap;
	va_start(ap, fmt); vsnprintf(msg, sizeof msg, fmt, ap); va_end(ap);
	exec_failed = 1;
	if (replay) { printf("FAIL %s: %s\n", key, msg); fflush(stdout); return; }
	record_failure(key, msg);
}

void mc_observe(const char *fmt, ...)
{
	va_list ap;
	if (obslen >= (int)sizeof obs - 2) { obs_trunc = 1; return; }
	va_start(ap, fmt);
	int n = vsnprintf(obs + obslen, sizeof obs - obslen, fmt, ap);
	va_end(ap);
	if (n < 0) return;
	if (obslen + n >= (int)sizeof obs) { obslen = sizeof obs - 1; obs_trunc = 1; }
	else obslen += n;
}

void mc_count_id(int *idp, const char *name, uint64_t n)
{
	if (!S || !counting) return;
	if (*idp < 0) {
		lock();
		int i;
		for (i = 0; i < S->ncounters; i++) if (!strcmp(S->counters[i].name, name)) break;
		if (i == S->ncounters && i < MAXCOUNTERS) { snprintf(S->counters[i].name, 64, "%s", name); S->ncounters++; }
		unlock();
		if (i >= MAXCOUNTERS) return;
		*idp = i;
	}
	__sync_fetch_and_add(&S->counters[*idp].v, n);
}

void mc_nontrivial(uint64_t h)
{
	if (!counting) return;
	if (set_insert(ntset, ntset_bits, h)) __sync_fetch_and_add(&S->nontrivial, 1);
}

void mc_abort_execution(void)
{
	fflush(stdout); fflush(stderr);
	if (replay) {
		obs[obslen] = 0;
		printf("OBS %s\nRESULT %s (aborted)\n", obs, exec_failed ? "FAIL" : "OK");
		fflush(stdout);
		_exit(exec_failed ? 3 : 0);
	}
	if (!exec_failed) record_failure("harness:abort-without-failure", "mc_abort_execution called with no mc_fail");
	_exit(77);
}

int mc_choose(int n, int cost, const char *label)
{
	(void)label;
	if (n <= 1) return 0;
	if (CFG->item) return 0;
	if (pos >= MAXPATH) { mc_fail("harness:path-too-long", "more than %d choice points", MAXPATH); return 0; }
	struct frame *f = &cur->path[pos];
	int c;
	if (pos < prefix_len) {
		if (replay && f->arity == 0) { f->arity = n; f->cost = cost; }
		if (f->arity != n) {
			S->divergence = 1;
			mc_fail("harness:divergence", "choice %d (%s): arity %d on replay, %d recorded", pos, label, n, f->arity);
			if (f->choice >= n) f->choice = 0;
		}
		c = f->choice;
		if (c) devused += f->cost;
	} else {
		f->choice = 0; f->arity = n; f->cost = cost;
		cur->len = pos + 1;
		c = 0;
	}
	if (replay) printf("CHOICE %d %s = %d/%d\n", pos, label, c, n);
	pos++;
	return c;
}

int mc_state(uint64_t h, int rem_depth)
{
	if (CFG->item || replay) return 0;
	if (pos < prefix_len) return 0;          /* still replaying known ground */
	/* The first `split` choice points form a top tree that every worker walks
	 * identically; only the worker that claimed a sub-tree may insert/prune,
	 * and only below the split (its own region), else arities would diverge
	 * between workers or children would be lost. */
	if (!counting || pos < split) return 0;
	__sync_fetch_and_add(&S->transitions, 1);
	int rem_dev = bound - devused;
	if (rem_depth > 255) rem_depth = 255;
	if (rem_depth < 0) rem_depth = 0;
	if (rem_dev > 255) rem_dev = 255;
	uint64_t m = mix(h), cap = 1ULL << visited_bits;
	uint64_t tag = (m << 16) | 0x10000;         /* low 48 bits of m as tag in high bits; never 0 */
	uint64_t i = (m >> 48 ^ m >> 20) & (cap - 1);
	uint64_t val = tag | ((uint64_t)rem_depth << 8) | (uint64_t)rem_dev;
	for (int n = 0; n < 128; n++, i = (i + 1) & (cap - 1)) {
		uint64_t v = visited[i];
		if (v == 0) {
			if (*visited_used > visited_used_limit) { S->table_full = 1; return 0; }
			if (__sync_bool_compare_and_swap(&visited[i], 0, val)) {
				__sync_fetch_and_add(visited_used, 1);
				__sync_fetch_and_add(&S->states, 1);
				return 0;
			}
			v = visited[i];
		}
		if ((v & ~0xffffULL) == tag) {
			int sd = (v >> 8) & 0xff, sv = v & 0xff;
			if (sd >= rem_depth && sv >= rem_dev) { __sync_fetch_and_add(&S->prunes, 1); return 1; }
			if (rem_depth >= sd && rem_dev >= sv)
				__sync_bool_compare_and_swap(&visited[i], v, val);
			return 0;
		}
	}
	S->table_full = 1;
	return 0;
}

/* ------------------------------------------------------------------ */

static void end_execution(void)
{
	if (!counting) return;
	__sync_fetch_and_add(&S->executions, 1);
	obs[obslen] = 0;
	uint64_t h = mc_hash(0, obs, obslen);
	if (set_insert(outset, outset_bits, h)) __sync_fetch_and_add(&S->outcomes, 1);
	if ((uint64_t)cur->len > S->maxlen) S->maxlen = cur->len;
	if (me < NSAMPLES && (cur->len > cur->bestlen || cur->execs == 0) && obslen > 0) {
		char p[600];
		cur->bestlen = cur->len;
		path_to_str(p, sizeof p);
		snprintf(S->samples[me], SAMPLE_LEN, "choices=[%s] trace: %s", p, obs);
	}
}

static void run_one(void)
{
	pos = 0; prefix_len = cur->len; exec_failed = 0; devused = 0; obslen = 0; obs_trunc = 0;
	cur->running = 1;
	CFG->body();
	cur->running = 0;
	end_execution();
	cur->execs++;
}

/* odometer step over positions [lo, hi): returns 1 if a new vector is ready */
static int advance(int lo, int hi)
{
	int len = cur->len;
	if (hi > len) hi = len;
	/* prefix cost up to each position */
	int cost = 0, costs[MAXPATH + 1];
	for (int i = 0; i < hi; i++) { costs[i] = cost; if (cur->path[i].choice) cost += cur->path[i].cost; }
	for (int i = hi - 1; i >= lo; i--) {
		struct frame *f = &cur->path[i];
		if (f->choice + 1 >= f->arity) continue;
		if (costs[i] + f->cost > bound) continue;
		f->choice++;
		cur->len = i + 1;
		return 1;
	}
	return 0;
}

static int claim(uint64_t seq)
{
	if (seq >= CLAIM_BITS) return (int)(seq % W) == me;
	uint32_t bit = 1u << (seq & 31);
	uint32_t old = __sync_fetch_and_or(&S->claim[seq >> 5], bit);
	return !(old & bit);
}

static int time_up(void)
{
	if (S->stop) return 1;
	if (now_real() - t0 > budget_s) { S->deadline_hit = 1; S->stop = 1; return 1; }
	return 0;
}

static void worker_tree(int resume)
{
	int skip = resume;
	if (!cur->started) { cur->started = 1; cur->len = 0; cur->mode = 0; cur->seq = 0; }
	for (;;) {
		if (time_up()) return;
		if (!skip) {
			if (cur->mode == 0) cur->claimed = claim(cur->seq);
			counting = cur->mode == 1 || cur->claimed;
			run_one();
		}
		skip = 0;
		if (cur->mode == 0 && cur->claimed) cur->mode = 1;
		if (cur->mode == 1) {
			if (advance(split, MAXPATH)) continue;
			cur->mode = 0;
		}
		cur->seq++;
		if (!advance(0, split)) break;
	}
	cur->finished = 1;
}

static void worker_shard(int resume)
{
	uint64_t n = CFG->n_items;
	uint64_t chunk = n / ((uint64_t)W * 64); if (chunk < 1) chunk = 1; if (chunk > 65536) chunk = 65536;
	if (resume && cur->have_chunk) { cur->item++; __sync_fetch_and_add(&S->items_done, 1); }
	for (;;) {
		if (!cur->have_chunk) {
			uint64_t s = __sync_fetch_and_add(&S->next_item, chunk);
			if (s >= n) break;
			cur->item = s; cur->item_end = s + chunk > n ? n : s + chunk; cur->have_chunk = 1;
		}
		while (cur->item < cur->item_end) {
			if ((cur->item & 255) == 0 && time_up()) return;
			obslen = 0; exec_failed = 0;
			cur->running = 1;
			CFG->item(cur->item);
			cur->running = 0;
			if (obslen && me < NSAMPLES && !S->samples[me][0]) { obs[obslen] = 0; snprintf(S->samples[me], SAMPLE_LEN, "item %llu: %s", (unsigned long long)cur->item, obs); }
			cur->execs++;
			cur->item++;
			__sync_fetch_and_add(&S->items_done, 1);
		}
		cur->have_chunk = 0;
	}
	cur->finished = 1;
}

static pid_t spawn(int w, int resume)
{
	fflush(stdout); fflush(stderr);
	pid_t p = fork();
	if (p) return p;
	me = w; cur = &S->slots[w];
	if (errdir) {
		char fn[512]; snprintf(fn, sizeof fn, "%s/w%d.err", errdir, w);
		int fd = open(fn, O_WRONLY | O_CREAT | O_TRUNC, 0644);
		if (fd >= 0) { dup2(fd, 2); close(fd); }
	}
	if (CFG->init) CFG->init();
	if (CFG->item) worker_shard(resume); else worker_tree(resume);
	fflush(stdout);
	_exit(0);
}

static void json_str(FILE *f, const char *s)
{
	fputc('"', f);
	for (; *s; s++) {
		unsigned char c = *s;
		if (c == '"' || c == '\\') fprintf(f, "\\%c", c);
		else if (c == '\n') fputs("\\n", f);
		else if (c < 0x20 || c >= 0x7f) fprintf(f, "\\u%04x", c);
		else fputc(c, f);
	}
	fputc('"', f);
}

static void read_tail(int w, char *buf, size_t n)
{
	buf[0] = 0;
	if (!errdir) return;
	char fn[512]; snprintf(fn, sizeof fn, "%s/w%d.err", errdir, w);
	FILE *f = fopen(fn, "r"); if (!f) return;
	fseek(f, 0, SEEK_END); long sz = ftell(f);
	/* keep the head of the report (first error is what matters) */
	fseek(f, 0, SEEK_SET);
	size_t r = fread(buf, 1, n - 1, f); buf[r] = 0; (void)sz;
	fclose(f);
}

static void *shm(size_t n)
{
	void *p = mmap(NULL, n, PROT_READ | PROT_WRITE, MAP_SHARED | MAP_ANONYMOUS | MAP_NORESERVE, -1, 0);
	if (p == MAP_FAILED) { perror("mmap"); exit(2); }
	return p;
}

static int do_replay(void)
{
	static struct slot rs; static struct shared sh;
	S = &sh; cur = &rs; me = 0;
	static uint64_t o[1 << 10], nt[1 << 10], vu; outset = o; outset_bits = 10; ntset = nt; ntset_bits = 10; visited_used = &vu;
	if (CFG->init) CFG->init();
	if (CFG->item) {
		cur->item = (uint64_t)strtoull(mc_param_str("__item", "0"), NULL, 10);
		CFG->item(cur->item);
	} else {
		for (int i = 0; i < replay_n; i++) { rs.path[i].choice = replay_vec[i]; rs.path[i].arity = 0; }
		rs.len = replay_n;
		pos = 0; prefix_len = replay_n; bound = 1 << 20;
		CFG->body();
		if (pos < replay_n) printf("NOTE replay used %d of %d choices\n", pos, replay_n);
	}
	obs[obslen] = 0;
	printf("OBS %s\n", obs);
	printf("RESULT %s\n", exec_failed ? "FAIL" : "OK");
	fflush(stdout);
	return exec_failed ? 3 : 0;
}

int mc_main(int argc, char **argv, const struct mc_config *cfg)
{
	CFG = cfg;
	split = cfg->default_split > 0 ? cfg->default_split : 2;
	W = 16;
	const char *rp = NULL;
	for (int i = 1; i < argc; i++) {
		if (!strcmp(argv[i], "--out") && i + 1 < argc) outfile = argv[++i];
		else if (!strcmp(argv[i], "--workers") && i + 1 < argc) W = atoi(argv[++i]);
		else if (!strcmp(argv[i], "--budget") && i + 1 < argc) budget_s = atof(argv[++i]);
		else if (!strcmp(argv[i], "--bound") && i + 1 < argc) bound = atoi(argv[++i]);
		else if (!strcmp(argv[i], "--split") && i + 1 < argc) split = atoi(argv[++i]);
		else if (!strcmp(argv[i], "--table-bits") && i + 1 < argc) visited_bits = atoi(argv[++i]);
		else if (!strcmp(argv[i], "--hang") && i + 1 < argc) hang_s = atoi(argv[++i]);
		else if (!strcmp(argv[i], "--errdir") && i + 1 < argc) errdir = argv[++i];
		else if (!strcmp(argv[i], "--replay") && i + 1 < argc) { replay = 1; rp = argv[++i]; }
		else if (!strcmp(argv[i], "-P") && i + 1 < argc) { if (nparams < 64) params[nparams++] = argv[++i]; }
		else { fprintf(stderr, "mcx: bad argument %s\n", argv[i]); return 2; }
	}
	if (W < 1) W = 1;
	if (W > MAXWORK) W = MAXWORK;
	t0 = now_real();
	if (replay) {
		if (!strncmp(rp, "item:", 5)) { static char b[64]; snprintf(b, sizeof b, "__item=%s", rp + 5); params[nparams++] = b; }
		else {
			const char *p = rp;
			while (*p && replay_n < MAXPATH) {
				replay_vec[replay_n++] = atoi(p);
				p = strchr(p, ','); if (!p) break; p++;
			}
			if (!*rp) replay_n = 0;
		}
		return do_replay();
	}
	S = shm(sizeof *S);
	visited = shm((sizeof(uint64_t) << visited_bits) + 4096);
	visited_used = (volatile uint64_t *)(visited + (1ULL << visited_bits));
	visited_used_limit = (1ULL << visited_bits) * 7 / 10;
	outset = shm(sizeof(uint64_t) << outset_bits);
	ntset = shm(sizeof(uint64_t) << ntset_bits);

	for (int w = 0; w < W; w++) S->slots[w].pid = spawn(w, 0);
	uint64_t last[MAXWORK] = {0}; double lastt[MAXWORK];
	for (int w = 0; w < W; w++) lastt[w] = now_real();
	int live = W, crashes = 0, aborts = 0;
	while (live > 0) {
		int st; pid_t p = waitpid(-1, &st, WNOHANG);
		if (p > 0) {
			int w; for (w = 0; w < W; w++) if (S->slots[w].pid == p) break;
			if (w == W) continue;
			struct slot *sl = &S->slots[w];
			if (WIFEXITED(st) && WEXITSTATUS(st) == 0) { sl->pid = 0; live--; continue; }
			if (WIFEXITED(st) && WEXITSTATUS(st) == 77) {   /* mc_abort_execution: failure already recorded */
				aborts++;
				if (aborts > 200 || S->stop) { sl->pid = 0; live--; S->stop = 1; continue; }
				sl->running = 0; sl->pid = spawn(w, 1); lastt[w] = now_real();
				continue;
			}
			/* abnormal end: attribute to the published vector */
			char key[200], tail[1100];
			if (WIFSIGNALED(st)) snprintf(key, sizeof key, "crash:signal-%d", WTERMSIG(st));
			else snprintf(key, sizeof key, "crash:exit-%d", WEXITSTATUS(st));
			read_tail(w, tail, sizeof tail);
			cur = sl;
			record_failure(key, tail);
			crashes++; sl->crashes++;
			if (crashes > 40 || S->stop) { sl->pid = 0; live--; S->stop = 1; continue; }
			sl->running = 0;
			sl->pid = spawn(w, 1);
			lastt[w] = now_real();
			continue;
		}
		msleep(20);
		double t = now_real();
		if (t - t0 > budget_s + 5) { S->deadline_hit = 1; S->stop = 1; }
		for (int w = 0; w < W; w++) {
			struct slot *sl = &S->slots[w];
			if (!sl->pid) continue;
			if (sl->execs != last[w]) { last[w] = sl->execs; lastt[w] = t; }
			else if (t - lastt[w] > hang_s) {
				/* hung execution: kill; treated as crash with signal 9 → key crash:signal-9 */
				kill(sl->pid, SIGKILL); lastt[w] = t;
			}
		}
	}
	double wall = now_real() - t0;
	int complete = !S->stop && !S->deadline_hit;
	for (int w = 0; w < W; w++) if (!S->slots[w].finished) complete = 0;
	FILE *f = outfile ? fopen(outfile, "w") : stdout;
	if (!f) { perror(outfile); return 2; }
	fprintf(f, "{\"property\":"); json_str(f, cfg->property ? cfg->property : "?");
	fprintf(f, ",\"mode\":\"%s\",\"complete\":%s,\"deadline_hit\":%s,\"table_full\":%s,\"divergence\":%s",
	    cfg->item ? "shard" : "tree", complete ? "true" : "false", S->deadline_hit ? "true" : "false",
	    S->table_full ? "true" : "false", S->divergence ? "true" : "false");
	fprintf(f, ",\"executions\":%llu,\"states\":%llu,\"transitions\":%llu,\"prunes\":%llu,\"distinct_outcomes\":%llu,\"nontrivial\":%llu",
	    (unsigned long long)(cfg->item ? S->items_done : S->executions), (unsigned long long)S->states,
	    (unsigned long long)S->transitions, (unsigned long long)S->prunes, (unsigned long long)S->outcomes,
	    (unsigned long long)S->nontrivial);
	fprintf(f, ",\"n_items\":%llu,\"max_choice_points\":%llu,\"bound\":%d,\"split\":%d,\"workers\":%d,\"crashes\":%d,\"wall_s\":%.3f",
	    (unsigned long long)cfg->n_items, (unsigned long long)S->maxlen, bound, split, W, crashes, wall);
	fprintf(f, ",\"counters\":{");
	for (int i = 0; i < S->ncounters; i++) { if (i) fputc(',', f); json_str(f, S->counters[i].name); fprintf(f, ":%llu", (unsigned long long)S->counters[i].v); }
	fprintf(f, "},\"failures\":[");
	for (int i = 0; i < S->nfail; i++) {
		if (i) fputc(',', f);
		fprintf(f, "{\"key\":"); json_str(f, S->fails[i].key);
		fprintf(f, ",\"msg\":"); json_str(f, S->fails[i].msg);
		fprintf(f, ",\"path\":"); json_str(f, S->fails[i].path);
		fprintf(f, ",\"count\":%llu}", (unsigned long long)S->fails[i].count);
	}
	fprintf(f, "],\"samples\":[");
	int first = 1;
	for (int i = 0; i < NSAMPLES; i++) if (S->samples[i][0]) { if (!first) fputc(',', f); first = 0; json_str(f, S->samples[i]); }
	fprintf(f, "]}\n");
	if (outfile) fclose(f);
	return 0;
}
