/* mcx — bounded exhaustive explorer for nondeterministic C harnesses.
 *
 * A harness body is an ordinary function that calls mc_choose() for every
 * decision it does not want to fix.  The explorer runs the body once per
 * *choice vector*: it replays a prefix, answers 0 afterwards, records arity and
 * cost of every choice point met, and enumerates (odometer DFS) every
 * alternative whose accumulated deviation cost stays within the bound.
 * Depth is bounded by the harness itself (it stops asking after D ops).
 *
 * Two modes:
 *   tree mode   cfg.body != NULL   (histories / env answers / schedules)
 *   shard mode  cfg.item != NULL   (flat enumeration of cfg.n_items inputs)
 */
#ifndef MCX_H
#define MCX_H
#include <stdint.h>
#include <stddef.h>

struct mc_config {
	const char *property;          /* e.g. "C12" */
	void (*init)(void);            /* once per worker process, may be NULL */
	void (*body)(void);            /* tree mode: one execution */
	uint64_t n_items;              /* shard mode */
	void (*item)(uint64_t i);      /* shard mode: check item i */
	int default_split;             /* choice points shared by all workers (default 2) */
};

/* ---- decisions ---- */
/* returns 0..n-1; alternative != 0 costs `cost` deviations (0 = free). */
int  mc_choose(int n, int cost, const char *label);
/* Explicit-state pruning.  h = hash of canonical state, rem_depth = how many
 * more operations the harness would still allow from here.  Returns 1 when this
 * state was already expanded with at least this remaining depth and deviation
 * budget: the harness must then end the execution (clean up and return). */
int  mc_state(uint64_t h, int rem_depth);
/* ---- observations / verdicts ---- */
void mc_observe(const char *fmt, ...) __attribute__((format(printf,1,2)));
void mc_fail(const char *key, const char *fmt, ...) __attribute__((format(printf,2,3)));
int  mc_failed(void);            /* did the current execution call mc_fail? */
/* Give up the current execution after a recorded failure when it cannot be
 * unwound (deadlocked threads...).  The worker process ends and is respawned at
 * the next vector; in --replay mode the process prints its result and exits. */
void mc_abort_execution(void) __attribute__((noreturn));
void mc_count_id(int *idp, const char *name, uint64_t n);
#define MC_COUNT(name) do { static int mc_cid_ = -1; mc_count_id(&mc_cid_, name, 1); } while (0)
#define MC_COUNTN(name, n) do { static int mc_cid_ = -1; mc_count_id(&mc_cid_, name, (n)); } while (0)
/* mark the current execution / item as non-trivial & distinct (by hash) */
void mc_nontrivial(uint64_t h);
/* ---- helpers ---- */
uint64_t mc_hash(uint64_t h, const void *p, size_t n);
uint64_t mc_hash_u64(uint64_t h, uint64_t v);
int  mc_param(const char *name, int dflt);      /* -P name=value */
const char *mc_param_str(const char *name, const char *dflt);
int  mc_replaying(void);         /* 1 in --replay mode (harness may print more) */
int  mc_pos(void);               /* number of choice points consumed so far */
int  mc_dev_left(void);          /* remaining deviation budget */
int  mc_worker(void);            /* worker index */

int  mc_main(int argc, char **argv, const struct mc_config *cfg);

/* ---- per-execution hygiene (mcx_env.c) ---- */
void  mcx_alloc_install(void);           /* event_set_mem_functions with counting allocator */
long  mcx_alloc_live(void);              /* live library allocations */
long  mcx_alloc_total(void);             /* allocations since reset */
void  mcx_alloc_reset_count(void);
void  mcx_alloc_fail_at(long n);         /* fail the n-th allocation from now (1-based); 0 = never */
int   mcx_alloc_failed(void);            /* did the armed failure trigger */
void  mcx_alloc_fail_from(long n);       /* fail every allocation from the n-th on */
int   mcx_fd_count(void);                /* number of open fds */
uint64_t mcx_fd_signature(void);         /* hash of open fd numbers */
int   mcx_private_netns(void);           /* own loopback/port space for this process; -1 = not available (harmless) */

#endif
