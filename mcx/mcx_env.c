/* per-execution hygiene helpers: counting/failing allocator behind
 * event_set_mem_functions, fd table signature. */
#define _GNU_SOURCE
#include "mcx.h"
#include <stdlib.h>
#include <string.h>
#include <dirent.h>
#include <stdio.h>
#include <event2/event.h>

static long live, total, fail_at, fail_from; static int failed;

static int should_fail(void)
{
	total++;
	if ((fail_at && total == fail_at) || (fail_from && total >= fail_from)) { failed = 1; return 1; }
	return 0;
}
static void *m_malloc(size_t n)
{
	if (should_fail()) return NULL;
	void *p = malloc(n ? n : 1);
	if (p) live++;
	return p;
}
static void *m_realloc(void *p, size_t n)
{
	if (!p) return m_malloc(n);
	if (n == 0) { free(p); live--; return NULL; }
	if (should_fail()) return NULL;
	return realloc(p, n);
}
static void m_free(void *p)
{
	if (!p) return;
	live--;
	free(p);
}
void mcx_alloc_install(void) { event_set_mem_functions(m_malloc, m_realloc, m_free); }
long mcx_alloc_live(void) { return live; }
long mcx_alloc_total(void) { return total; }
void mcx_alloc_reset_count(void) { total = 0; fail_at = 0; fail_from = 0; failed = 0; }
void mcx_alloc_fail_at(long n) { fail_at = n ? total + n : 0; failed = 0; }
void mcx_alloc_fail_from(long n) { fail_from = n ? total + n : 0; failed = 0; }
int  mcx_alloc_failed(void) { return failed; }

int mcx_fd_count(void)
{
	DIR *d = opendir("/proc/self/fd"); int n = 0; struct dirent *e;
	if (!d) return -1;
	while ((e = readdir(d))) if (e->d_name[0] != '.') n++;
	closedir(d);
	return n - 1; /* minus the DIR's own fd */
}
uint64_t mcx_fd_signature(void)
{
	DIR *d = opendir("/proc/self/fd"); struct dirent *e; uint64_t h = 0; int self;
	if (!d) return 0;
	self = dirfd(d);
	while ((e = readdir(d))) {
		if (e->d_name[0] == '.') continue;
		int fd = atoi(e->d_name);
		if (fd == self) continue;
		h += mc_hash_u64(0x1234, (uint64_t)fd); /* order independent */
	}
	closedir(d);
	return h;
}

/* Private loopback for this (worker) process: a fresh network namespace has its
 * own port space, so TIME_WAIT sockets left by other checks, other workers or
 * earlier executions elsewhere cannot exhaust the ephemeral ports this harness
 * needs.  Best effort: returns 0 when the namespace is in place, -1 when the
 * process keeps the shared namespace (not permitted / loopback could not be
 * brought up -- checked BEFORE committing by probing in a child). */
#include <sched.h>
#include <unistd.h>
#include <sys/ioctl.h>
#include <sys/socket.h>
#include <sys/wait.h>
#include <net/if.h>
#include <netinet/in.h>
#include <arpa/inet.h>
static int netns_lo_up(void)
{
	struct ifreq ifr; int s = socket(AF_INET, SOCK_DGRAM, 0), rc = -1;
	if (s < 0) return -1;
	memset(&ifr, 0, sizeof ifr); strcpy(ifr.ifr_name, "lo");
	if (ioctl(s, SIOCGIFFLAGS, &ifr) == 0) {
		ifr.ifr_flags |= IFF_UP | IFF_RUNNING;
		if (ioctl(s, SIOCSIFFLAGS, &ifr) == 0) rc = 0;
	}
	close(s);
	if (rc == 0) { /* prove that 127.0.0.1 is usable */
		struct sockaddr_in sin; int l = socket(AF_INET, SOCK_STREAM, 0);
		memset(&sin, 0, sizeof sin); sin.sin_family = AF_INET; sin.sin_addr.s_addr = htonl(INADDR_LOOPBACK);
		if (l < 0 || bind(l, (struct sockaddr *)&sin, sizeof sin) < 0 || listen(l, 1) < 0) rc = -1;
		if (l >= 0) close(l);
	}
	return rc;
}
int mcx_private_netns(void)
{
	/* probe in a child first so that a half-working namespace is never kept */
	pid_t p = fork(); int st = 0;
	if (p < 0) return -1;
	if (p == 0) _exit(unshare(CLONE_NEWNET) == 0 && netns_lo_up() == 0 ? 0 : 1);
	if (waitpid(p, &st, 0) != p || !WIFEXITED(st) || WEXITSTATUS(st) != 0) return -1;
	if (unshare(CLONE_NEWNET) != 0) return -1;
	return netns_lo_up();
}
