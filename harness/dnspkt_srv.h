/* dnspkt family — server side plumbing shared by C35 and C37.
 * Included after evdns.c and dnspkt_common.h.
 *
 * One environment per item: event_base, one evdns server port (UDP socket or
 * TCP listener on loopback) and the harness' client socket.  Between
 * executions the port must be idle (refcnt 1, nothing pending, no TCP client):
 * srv_idle() checks every field the request/response code reads, otherwise the
 * environment is rebuilt.
 */
#ifndef DNSPKT_SRV_H
#define DNSPKT_SRV_H
#include <sys/eventfd.h>

enum { SM_DIRECT, SM_UDP, SM_TCP };

struct srv_q { char name[400]; size_t nlen; int type, class_; };
struct srv_log { int calls; int flags, nq; struct srv_q q[6]; int respond_rc; };
static struct srv_log g_slog;
/* what the user callback does with a request (set per execution) */
static void (*g_handler)(struct evdns_server_request *req);

struct srv {
	struct event_base *eb; struct evdns_server_port *port; struct evconnlistener *lis;
	int mode, ssock, csock, tfd; struct sockaddr_in saddr, caddr;
	long live0;
};
static struct srv g_srv = { .ssock = -1, .csock = -1, .tfd = -1 };

static void srv_user_cb(struct evdns_server_request *req, void *arg)
{
	(void)arg;
	struct srv_log *l = &g_slog;
	if (l->calls++ == 0) {
		l->flags = req->flags; l->nq = req->nquestions;
		for (int i = 0; i < req->nquestions && i < 6; i++) {
			const char *n = req->questions[i]->name;
			l->q[i].nlen = strlen(n); snprintf(l->q[i].name, sizeof l->q[i].name, "%s", n);
			l->q[i].type = req->questions[i]->type; l->q[i].class_ = req->questions[i]->dns_question_class;
		}
	}
	if (g_handler) g_handler(req);
	else { l->respond_rc = evdns_server_request_respond(req, 0); if (l->respond_rc < 0) evdns_server_request_drop(req); }
}

static void srv_noop_cb(evutil_socket_t fd, short what, void *arg) { (void)fd; (void)what; (void)arg; }

static int srv_open(int mode)
{
	struct srv *s = &g_srv;
	memset(s, 0, sizeof *s); s->ssock = s->csock = s->tfd = -1; s->mode = mode;
	s->eb = event_base_new();
	if (!s->eb) return -1;
	{	/* pre-size the event_base's per-fd table (see dnspkt_c33.c:env_open) */
		int fds[12]; struct event ev;
		for (int i = 0; i < 12; i++) fds[i] = eventfd(0, EFD_CLOEXEC);
		for (int i = 0; i < 12; i++) if (fds[i] >= 0) { event_assign(&ev, s->eb, fds[i], EV_READ, srv_noop_cb, NULL); event_add(&ev, NULL); event_del(&ev); }
		for (int i = 0; i < 12; i++) if (fds[i] >= 0) close(fds[i]);
	}
	s->csock = dp_udp_bound(&s->caddr);
	if (s->csock < 0) return -1;
	if (mode == SM_TCP) {
		struct sockaddr_in sin; socklen_t sl = sizeof sin;
		memset(&sin, 0, sizeof sin); sin.sin_family = AF_INET; sin.sin_addr.s_addr = htonl(INADDR_LOOPBACK);
		for (int attempt = 0; attempt < 20 && !s->lis; attempt++)      /* an ephemeral port can be lost to a concurrent bind: retry */
			s->lis = evconnlistener_new_bind(s->eb, NULL, NULL, LEV_OPT_CLOSE_ON_FREE | LEV_OPT_CLOSE_ON_EXEC, 16, (struct sockaddr *)&sin, sizeof sin);
		if (!s->lis) return -1;
		if (getsockname(evconnlistener_get_fd(s->lis), (struct sockaddr *)&s->saddr, &sl) < 0) return -1;
		s->port = evdns_add_server_port_with_listener(s->eb, s->lis, 0, srv_user_cb, NULL);
	} else {
		s->ssock = dp_udp_bound(&s->saddr);
		if (s->ssock < 0) return -1;
		s->port = evdns_add_server_port_with_base(s->eb, s->ssock, 0, srv_user_cb, NULL);
	}
	return s->port ? 0 : -1;
}

static void srv_close(void)
{
	struct srv *s = &g_srv;
	if (s->tfd >= 0) { close(s->tfd); s->tfd = -1; }
	if (s->eb && s->port) event_base_loop(s->eb, EVLOOP_NONBLOCK);
	if (s->port) evdns_close_server_port(s->port);      /* closes the UDP socket / frees the listener */
	else { if (s->lis) evconnlistener_free(s->lis); if (s->ssock >= 0) close(s->ssock); }
	if (s->eb) { event_base_loop(s->eb, EVLOOP_NONBLOCK); event_base_loop(s->eb, EVLOOP_NONBLOCK); event_base_free(s->eb); }
	if (s->csock >= 0) close(s->csock);
	memset(s, 0, sizeof *s); s->ssock = s->csock = s->tfd = -1;
}

static int srv_idle(void)
{
	struct evdns_server_port *p = g_srv.port;
	return p && p->refcnt == 1 && !p->pending_replies && !p->choked && !p->closing && p->client_connections_count == 0 && LIST_EMPTY(&p->client_connections) && g_srv.tfd < 0;
}

/* ---- transports ---- */
struct srv_resp { int have; uint8_t b[70000]; size_t n; int n_datagrams; };

static void srv_drain_client(void) { uint8_t junk[2048]; while (recv(g_srv.csock, junk, sizeof junk, 0) >= 0) ; }

/* direct / udp: deliver one datagram, run the loop, collect at most one response datagram */
static void srv_udp_exchange(const uint8_t *msg, size_t len, struct srv_resp *r, int expect_response)
{
	struct srv *s = &g_srv;
	r->have = 0; r->n = 0; r->n_datagrams = 0;
	if (s->mode == SM_DIRECT) {
		uint8_t *exact = malloc(len ? len : 1), *p = len ? exact : exact + 1;
		if (len) memcpy(exact, msg, len);
		EVDNS_LOCK(s->port);
		request_parse(p, (int)len, s->port, (struct sockaddr *)&s->caddr, sizeof s->caddr, NULL);
		EVDNS_UNLOCK(s->port);
		free(exact);
	} else {
		if (sendto(s->csock, msg, len, 0, (struct sockaddr *)&s->saddr, sizeof s->saddr) < 0) { mc_fail("harness:sendto", "%s", strerror(errno)); return; }
		if (!dp_wait_fd(s->ssock, POLLIN, 2000)) { mc_fail("harness:udp-not-delivered", "request of %zu bytes not readable on the server socket", len); return; }
		event_base_loop(s->eb, EVLOOP_NONBLOCK);
	}
	if (s->port->pending_replies) event_base_loop(s->eb, EVLOOP_NONBLOCK);
	for (int tries = 0; tries < 2; tries++) {
		ssize_t n;
		while ((n = recv(s->csock, r->b, sizeof r->b, 0)) >= 0) { r->n = (size_t)n; r->have = 1; r->n_datagrams++; }
		if (r->have || !(expect_response || g_slog.calls)) break;
		if (tries == 0 && !dp_wait_fd(s->csock, POLLIN, 500)) break;     /* only on the (unexpected) slow path */
	}
}

static int srv_tcp_connect(void)
{
	struct srv *s = &g_srv; int one = 1;
	s->tfd = socket(AF_INET, SOCK_STREAM | SOCK_CLOEXEC, 0);
	if (s->tfd < 0) return -1;
	if (connect(s->tfd, (struct sockaddr *)&s->saddr, sizeof s->saddr) < 0) { close(s->tfd); s->tfd = -1; return -1; }
	setsockopt(s->tfd, IPPROTO_TCP, TCP_NODELAY, &one, sizeof one);
	fcntl(s->tfd, F_SETFL, fcntl(s->tfd, F_GETFL) | O_NONBLOCK);
	if (!dp_wait_fd(evconnlistener_get_fd(s->lis), POLLIN, 2000)) return -1;
	event_base_loop(s->eb, EVLOOP_NONBLOCK);          /* accept -> incoming_conn_cb */
	return s->port->client_connections_count == 1 ? 0 : -1;
}
static int srv_tcp_serverfd(void)
{
	struct client_tcp_connection *c = LIST_FIRST(&g_srv.port->client_connections);
	return (c && c->connection.bev) ? bufferevent_getfd(c->connection.bev) : -1;
}
/* write stream[from,to) and let the server consume it */
static void srv_tcp_feed(const uint8_t *stream, size_t from, size_t to)
{
	if (to <= from) return;
	if (dp_write_all(g_srv.tfd, stream + from, to - from) < 0) return;
	int fd = srv_tcp_serverfd();
	if (fd >= 0) dp_wait_fd(fd, POLLIN, 2000);
	event_base_loop(g_srv.eb, EVLOOP_NONBLOCK);
	event_base_loop(g_srv.eb, EVLOOP_NONBLOCK);
}
/* read whatever length-prefixed responses are available; returns the number of complete messages, keeps the first in r */
static int srv_tcp_collect(struct srv_resp *r, int expect)
{
	static uint8_t acc[140000]; size_t got = 0; int msgs = 0;
	r->have = 0; r->n = 0;
	for (int tries = 0; tries < 50; tries++) {
		ssize_t n = recv(g_srv.tfd, acc + got, sizeof acc - got, 0);
		if (n > 0) { got += (size_t)n; continue; }
		if (n == 0) break;
		/* EAGAIN: complete? */
		size_t off = 0; msgs = 0;
		while (got - off >= 2 && got - off >= 2u + dw_get_u16(acc + off)) { if (!msgs) { r->n = dw_get_u16(acc + off); memcpy(r->b, acc + off + 2, r->n); r->have = 1; } msgs++; off += 2u + dw_get_u16(acc + off); }
		if (msgs >= expect && off == got) break;
		event_base_loop(g_srv.eb, EVLOOP_NONBLOCK);
		if (!dp_wait_fd(g_srv.tfd, POLLIN, expect > msgs ? 300 : 0)) break;
	}
	return msgs;
}
static void srv_tcp_disconnect(void)
{
	struct srv *s = &g_srv;
	if (s->tfd >= 0) { close(s->tfd); s->tfd = -1; }
	for (int i = 0; i < 4 && s->port->client_connections_count; i++) {
		int fd = srv_tcp_serverfd();
		if (fd >= 0) dp_wait_fd(fd, POLLIN | POLLHUP, 500);
		event_base_loop(s->eb, EVLOOP_NONBLOCK);
	}
	event_base_loop(s->eb, EVLOOP_NONBLOCK);     /* bufferevent finalizer */
}
#endif
