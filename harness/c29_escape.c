/* C29 — URI escaping, query parsing and HTML escaping match their specifications.
 *
 * Shard-mode enumeration over the real http.c functions.  Domains (-P dom=...):
 *
 *   bytes  every byte string of length 0..len over all 256 byte values.
 *          Strings containing NUL only go through the length-taking
 *          evhttp_uriencode(); NUL-free strings additionally go through the
 *          C-string entry points: evhttp_uriencode(.., -1, ..), evhttp_encode_uri,
 *          evhttp_uridecode / evhttp_decode_uri *as decoder input*, evhttp_htmlescape.
 *   dec    every string of length 0..len over {% 4 1 a F g + ? ' ' 0} as decoder
 *          input (dense in well-formed, malformed and truncated escapes, %00, '+', '?').
 *   query  every string of length 0..len over {a b = & + % 4 1 ;} through
 *          evhttp_parse_query_str_flags under all 4 flag sets, evhttp_parse_query_str
 *          and (for strings whose escapes are well-formed) evhttp_parse_query("/?"+s).
 *
 * Oracles: see notes/uri.md.  Every library allocation must be gone after an item.
 */
#include "mcx.h"
#include <event2/event.h>
#include <event2/http.h>
#include <event2/keyvalq_struct.h>
#include <sys/queue.h>
#include "mm-internal.h"   /* mm_free: library strings are released through the counting allocator */
#include <stdio.h>
#include <stdlib.h>
#include <string.h>

/* small ASan quarantine: see harness/c28_uri.c */
const char *__asan_default_options(void);
const char *__asan_default_options(void) { return "quarantine_size_mb=2:thread_local_quarantine_size_kb=64"; }

static void quiet(int sev, const char *msg) { (void)sev; (void)msg; }
static void init(void) { mcx_alloc_install(); event_set_log_callback(quiet); }

static const char *vis(const char *s, size_t n)
{
	static char bufs[16][160]; static int k;
	char *b = bufs[k++ % 16]; size_t o = 0;
	if (!s) return "(null)";
	b[o++] = '"';
	for (size_t i = 0; i < n && o < 150; i++) {
		unsigned char c = (unsigned char)s[i];
		if (c < 0x20 || c >= 0x7f || c == '"' || c == '\\') o += (size_t)snprintf(b + o, 8, "\\x%02x", c);
		else b[o++] = (char)c;
	}
	b[o++] = '"'; b[o] = 0;
	return b;
}
#define VS(s) vis((s), (s) ? strlen(s) : 0)

/* ------------------------------------------------------------------ */
/* Reference definitions, written from include/event2/http.h and RFC 3986 2.3 */
static int is_alnum(unsigned char c) { return (c >= '0' && c <= '9') || (c >= 'A' && c <= 'Z') || (c >= 'a' && c <= 'z'); }
static int is_unreserved(unsigned char c) { return is_alnum(c) || c == '-' || c == '.' || c == '_' || c == '~'; }
static int hexval(unsigned char c)
{
	if (c >= '0' && c <= '9') return c - '0';
	if (c >= 'a' && c <= 'f') return c - 'a' + 10;
	if (c >= 'A' && c <= 'F') return c - 'A' + 10;
	return -1;
}

/* "All characters are replaced by their hex-escaped (%22) equivalents, except
 * for characters explicitly unreserved by RFC3986"; "if [space_to_plus] space
 * characters are encoded as +, not %20". */
static size_t ref_encode(const unsigned char *x, size_t n, int plus, char *out)
{
	size_t o = 0;
	for (size_t i = 0; i < n; i++) {
		if (is_unreserved(x[i])) out[o++] = (char)x[i];
		else if (x[i] == ' ' && plus) out[o++] = '+';
		else { static const char H[] = "0123456789ABCDEF"; out[o++] = '%'; out[o++] = H[x[i] >> 4]; out[o++] = H[x[i] & 15]; }
	}
	out[o] = 0;
	return o;
}

/* mode 0: '+' kept; 1: '+' -> ' '; -1 (evhttp_decode_uri): '+' -> ' ' only after
 * the first '?'.  *wellformed = every '%' starts a %HH escape. */
static size_t ref_decode(const char *in, size_t n, int mode, unsigned char *out, int *wellformed)
{
	size_t o = 0; int plus = mode == 1;
	*wellformed = 1;
	for (size_t i = 0; i < n; i++) {
		unsigned char c = (unsigned char)in[i];
		if (c == '%') {
			/* a complete escape needs the two hex digits inside the string */
			if (i + 2 < n && hexval((unsigned char)in[i + 1]) >= 0 && hexval((unsigned char)in[i + 2]) >= 0) {
				out[o++] = (unsigned char)(hexval((unsigned char)in[i + 1]) * 16 + hexval((unsigned char)in[i + 2]));
				i += 2;
			} else {
				*wellformed = 0;   /* cut off by the end of the string, or a non-hex digit */
				out[o++] = c;
			}
			continue;
		}
		if (c == '?' && mode < 0) plus = 1;
		if (c == '+' && plus) c = ' ';
		out[o++] = c;
	}
	out[o] = 0;
	return o;
}

/* does e consist only of unreserved characters, %HH escapes and (if allowed) '+' */
static int encode_alphabet_ok(const char *e, int plus_allowed)
{
	for (size_t i = 0; e[i]; i++) {
		unsigned char c = (unsigned char)e[i];
		if (is_unreserved(c)) continue;
		if (c == '+' && plus_allowed) continue;
		if (c == '%' && hexval((unsigned char)e[i + 1]) >= 0 && hexval((unsigned char)e[i + 2]) >= 0) { i += 2; continue; }
		return 0;
	}
	return 1;
}

/* equal up to the case of the hex digits inside escapes */
static int same_encoding(const char *a, const char *b)
{
	size_t i;
	for (i = 0; a[i] && b[i]; i++) {
		if (a[i] == b[i]) { if (a[i] == '%' && a[i + 1] && a[i + 2] && b[i + 1] && b[i + 2]) {
			if (hexval((unsigned char)a[i + 1]) != hexval((unsigned char)b[i + 1]) || hexval((unsigned char)a[i + 2]) != hexval((unsigned char)b[i + 2])) return 0;
			i += 2; }
			continue; }
		return 0;
	}
	return a[i] == b[i];
}

/* ---------------- encode side ---------------- */
static void check_encoding(const char *api, const char *e, const unsigned char *x, size_t n, int plus)
{
	char key[128], refe[64];
	size_t sz = (size_t)-1; char *d;
	if (!e) { snprintf(key, sizeof key, "C29/encode/returns-null/%s", api); mc_fail(key, "input %s plus=%d", vis((const char *)x, n), plus); return; }
	MC_COUNT("oracle_encode_alphabet_checked");
	if (!encode_alphabet_ok(e, plus)) {
		snprintf(key, sizeof key, "C29/encode/alphabet/%s", api);
		mc_fail(key, "input %s plus=%d encoded as %s: not only unreserved / %%XX%s", vis((const char *)x, n), plus, VS(e), plus ? " / '+'" : "");
	}
	ref_encode(x, n, plus, refe);
	MC_COUNT("oracle_encode_documented_form_checked");
	if (!same_encoding(e, refe)) {
		snprintf(key, sizeof key, "C29/encode/not-as-documented/%s", api);
		mc_fail(key, "input %s plus=%d encoded as %s, documented encoding is %s", vis((const char *)x, n), plus, VS(e), VS(refe));
	}
	/* round trip in the same '+' mode */
	d = evhttp_uridecode(e, plus, &sz);
	MC_COUNT("oracle_roundtrip_checked");
	if (!d) { mc_fail("C29/decode/returns-null/evhttp_uridecode", "input %s", VS(e)); return; }
	if (sz != n || memcmp(d, x, n)) {
		snprintf(key, sizeof key, "C29/roundtrip/%s-uridecode/plus%d", api, plus);
		mc_fail(key, "input %s encoded as %s decodes to %s (size %zu, expected %zu)", vis((const char *)x, n), VS(e), vis(d, sz <= 3 * n + 3 ? sz : 0), sz, n);
	}
	mm_free(d);
	if (!plus) {
		/* an encoding without raw '+' must also survive the '+'-decoding mode */
		d = evhttp_uridecode(e, 1, &sz);
		MC_COUNT("oracle_roundtrip_checked");
		if (d && (sz != n || memcmp(d, x, n))) {
			snprintf(key, sizeof key, "C29/roundtrip/%s-uridecode/encoded-plus0-decoded-plus1", api);
			mc_fail(key, "input %s encoded as %s decodes to %s (size %zu)", vis((const char *)x, n), VS(e), vis(d, sz <= 3 * n + 3 ? sz : 0), sz);
		}
		mm_free(d);
	}
}

/* ---------------- decode side ---------------- */
static void check_decoder_input(const char *s, size_t n)
{
	unsigned char refd[64]; int wf; size_t rn;
	char key[128];
	for (int plus = 0; plus < 2; plus++) {
		size_t sz = (size_t)-1;
		char *d = evhttp_uridecode(s, plus, &sz), *d2;
		MC_COUNT("oracle_decode_size_bound_checked");
		if (!d) { mc_fail("C29/decode/returns-null/evhttp_uridecode", "input %s", vis(s, n)); continue; }
		if (sz > n) {
			mc_fail("C29/decode/size-exceeds-input", "input %s plus=%d: size_out %zu > length %zu", vis(s, n), plus, sz, n);
			mm_free(d); continue;
		}
		if (d[sz] != 0) mc_fail("C29/decode/not-terminated", "input %s plus=%d: byte at size_out %zu is %#x", vis(s, n), plus, sz, (unsigned char)d[sz]);
		rn = ref_decode(s, n, plus, refd, &wf);
		if (wf) {
			MC_COUNT("oracle_decode_reference_compared");
			if (sz != rn || memcmp(d, refd, rn)) {
				snprintf(key, sizeof key, "C29/decode/differs-from-reference/uridecode-plus%d", plus);
				mc_fail(key, "input %s decodes to %s (size %zu), reference %s (size %zu)", vis(s, n), vis(d, sz), sz, vis((char *)refd, rn), rn);
			}
		} else MC_COUNT("decode_inputs_malformed_escape");
		/* size_out is optional */
		d2 = evhttp_uridecode(s, plus, NULL);
		if (!d2 || strlen(d2) != strlen(d) || strcmp(d2, d))
			mc_fail("C29/decode/size_out-null-changes-result", "input %s plus=%d", vis(s, n), plus);
		mm_free(d2);
		mm_free(d);
	}
	{	/* deprecated evhttp_decode_uri: '+' -> ' ' only after the first '?' */
		char *d = evhttp_decode_uri(s);
		MC_COUNT("oracle_decode_size_bound_checked");
		if (!d) { mc_fail("C29/decode/returns-null/evhttp_decode_uri", "input %s", vis(s, n)); return; }
		if (strlen(d) > n) mc_fail("C29/decode/size-exceeds-input", "evhttp_decode_uri(%s) has length %zu > %zu", vis(s, n), strlen(d), n);
		rn = ref_decode(s, n, -1, refd, &wf);
		if (wf) {
			MC_COUNT("oracle_decode_reference_compared");
			/* C string result: compare up to the first NUL (a decoded %00) */
			if (strcmp(d, (char *)refd))
				mc_fail("C29/decode/differs-from-reference/decode_uri", "input %s decodes to %s, reference %s", vis(s, n), VS(d), VS((char *)refd));
		}
		mm_free(d);
	}
}

/* ---------------- htmlescape ---------------- */
static void check_htmlescape(const char *s, size_t n)
{
	static const struct { const char *ent; char c; } ENT[] = { { "&lt;", '<' }, { "&gt;", '>' }, { "&quot;", '"' }, { "&#039;", '\'' }, { "&amp;", '&' } };
	char un[64]; size_t o = 0; int raw = 0;
	char *h = evhttp_htmlescape(s);
	MC_COUNT("oracle_htmlescape_checked");
	if (!h) { mc_fail("C29/htmlescape/returns-null", "input %s", vis(s, n)); return; }
	for (size_t i = 0; h[i]; ) {
		if (h[i] == '<' || h[i] == '>' || h[i] == '"' || h[i] == '\'') { raw = 1; un[o++] = h[i++]; }
		else if (h[i] == '&') {
			int k;
			for (k = 0; k < 5; k++) if (!strncmp(h + i, ENT[k].ent, strlen(ENT[k].ent))) break;
			if (k == 5) { raw = 1; un[o++] = h[i++]; }
			else { un[o++] = ENT[k].c; i += strlen(ENT[k].ent); }
		} else un[o++] = h[i++];
		if (o >= sizeof un - 1) break;
	}
	un[o] = 0;
	if (raw) mc_fail("C29/htmlescape/raw-markup-character", "input %s escaped as %s", vis(s, n), VS(h));
	if (o != n || memcmp(un, s, n)) mc_fail("C29/htmlescape/unescape-differs", "input %s escaped as %s which unescapes to %s", vis(s, n), VS(h), vis(un, o));
	if (strcmp(h, s)) MC_COUNT("htmlescape_changed_input");
	mm_free(h);
}

/* ---------------- domain bytes ---------------- */
static int bytes_maxlen = 2;
static uint64_t count_strings(uint64_t base, int maxlen)
{
	uint64_t n = 0, p = 1;
	for (int k = 0; k <= maxlen; k++) { n += p; p *= base; }
	return n;
}
static int decode_index(uint64_t idx, unsigned base, unsigned *digits)
{
	uint64_t cnt = 1; int k = 0;
	while (idx >= cnt) { idx -= cnt; cnt *= base; k++; }
	for (int j = k - 1; j >= 0; j--) { digits[j] = (unsigned)(idx % base); idx /= base; }
	return k;
}

static void item_bytes(uint64_t i)
{
	unsigned dg[8]; unsigned char x[9];
	int n = decode_index(i, 256, dg), has_nul = 0;
	long live0 = mcx_alloc_live();
	for (int j = 0; j < n; j++) { x[j] = (unsigned char)dg[j]; if (!x[j]) has_nul = 1; }
	x[n] = 0;
	if (mc_replaying()) printf("INPUT %s\n", vis((char *)x, (size_t)n));
	for (int plus = 0; plus < 2; plus++) {
		char *e = evhttp_uriencode((const char *)x, n, plus);
		check_encoding("uriencode-len", e, x, (size_t)n, plus);
		if (!has_nul) {
			char *e2 = evhttp_uriencode((const char *)x, -1, plus);
			MC_COUNT("oracle_encode_len_vs_cstring_checked");
			if (!e || !e2 || strcmp(e, e2))
				mc_fail("C29/encode/len-and-cstring-variants-differ", "input %s plus=%d: %s vs %s", vis((char *)x, (size_t)n), plus, VS(e), VS(e2));
			mm_free(e2);
		}
		mm_free(e);
	}
	/* "treat the string as being 'size' bytes long": every proper prefix slice of
	 * the buffer, including the zero-length one, with the remaining bytes (NUL or
	 * not) lying behind it */
	for (int k = 0; k < n; k++)
		for (int plus = 0; plus < 2; plus++) {
			char *e = evhttp_uriencode((const char *)x, k, plus);
			MC_COUNT("oracle_encode_slice_checked");
			check_encoding("uriencode-slice", e, x, (size_t)k, plus);
			mm_free(e);
		}
	if (has_nul) { MC_COUNT("bytes_inputs_with_nul"); }
	else {
		char *e = evhttp_encode_uri((const char *)x), *d;
		check_encoding("encode_uri", e, x, (size_t)n, 0);
		if (e) {
			/* the deprecated pair */
			d = evhttp_decode_uri(e);
			MC_COUNT("oracle_roundtrip_checked");
			if (!d || strlen(d) != (size_t)n || memcmp(d, x, (size_t)n))
				mc_fail("C29/roundtrip/encode_uri-decode_uri", "input %s encoded as %s decodes to %s", vis((char *)x, (size_t)n), VS(e), VS(d));
			mm_free(d);
		}
		mm_free(e);
		check_decoder_input((const char *)x, (size_t)n);
		check_htmlescape((const char *)x, (size_t)n);
	}
	if (n) { MC_COUNT("nontrivial_inputs"); mc_nontrivial(mc_hash_u64(0x29, i)); }
	if (mcx_alloc_live() != live0) mc_fail("C29/leak/escape", "input %s: %ld library allocations left", vis((char *)x, (size_t)n), mcx_alloc_live() - live0);
	if (mc_replaying() || (i & 0xfff) == 1) mc_observe("bytes %s", vis((char *)x, (size_t)n));
}

/* ---------------- domain dec ---------------- */
static const char DEC_ALPHA[] = "%41aFg+? 0";
#define NDEC 10
static void item_dec(uint64_t i)
{
	unsigned dg[12]; char s[13];
	int n = decode_index(i, NDEC, dg);
	long live0 = mcx_alloc_live();
	for (int j = 0; j < n; j++) s[j] = DEC_ALPHA[dg[j]];
	s[n] = 0;
	if (mc_replaying()) printf("INPUT %s\n", vis(s, (size_t)n));
	check_decoder_input(s, (size_t)n);
	if (strpbrk(s, "%+")) { MC_COUNT("nontrivial_inputs"); mc_nontrivial(mc_hash_u64(0x2929, i)); }
	if (mcx_alloc_live() != live0) mc_fail("C29/leak/decode", "input %s: %ld library allocations left", vis(s, (size_t)n), mcx_alloc_live() - live0);
	if (mc_replaying() || (i & 0xfff) == 1) mc_observe("dec %s", vis(s, (size_t)n));
}

/* ---------------- domain query ---------------- */
/* Reference splitter, from the documentation of evhttp_parse_query_str_flags,
 * EVHTTP_URI_QUERY_NONCONFORMANT and EVHTTP_URI_QUERY_LAST_VAL (http.h):
 *  - arguments are separated by '&', key and value by the first '=';
 *  - the value is decoded as an HTTP parameter value (%HH and '+' -> ' '), the
 *    key is taken literally;
 *  - without NONCONFORMANT an argument without '=' ("test2"), an empty
 *    argument ("&&") and an empty key ("=456") make the call fail (-1);
 *    with it, "test2" yields ("test2",""), empty arguments are skipped and an
 *    argument with an empty key is skipped;
 *  - every argument is reported in order of appearance (a repeated key is
 *    reported once per occurrence, lookups return the first); with LAST_VAL
 *    only the last occurrence of a key is reported;
 *  - an empty string has no arguments; one '&' after the last argument is not
 *    an (empty) argument  [the header is silent here; this is what every
 *    release has done, and the only reading under which "a=b&" is not an alarm].
 */
#define QMAXP 12
struct qpair { char k[16]; char v[16]; };
struct qres { int rc; int n; struct qpair p[QMAXP]; };

static void ref_query(const char *s, unsigned flags, struct qres *r)
{
	size_t len = strlen(s), start = 0;
	r->rc = 0; r->n = 0;
	if (len == 0) return;
	for (;;) {
		const char *arg = s + start, *amp = strchr(arg, '&');
		size_t alen = amp ? (size_t)(amp - arg) : strlen(arg);
		const char *eq = memchr(arg, '=', alen);
		size_t klen = eq ? (size_t)(eq - arg) : alen;
		const char *val = eq ? eq + 1 : "";
		size_t vlen = eq ? alen - klen - 1 : 0;
		int skip = 0, wf;
		if (!amp && alen == 0 && start > 0) break;   /* the string ended with '&' */
		if (flags & EVHTTP_URI_QUERY_NONCONFORMANT) { if (klen == 0) skip = 1; }
		else if (!eq || klen == 0) { r->rc = -1; r->n = 0; return; }
		if (!skip) {
			struct qpair np;
			memcpy(np.k, arg, klen); np.k[klen] = 0;
			ref_decode(val, vlen, 1, (unsigned char *)np.v, &wf);
			if (flags & EVHTTP_URI_QUERY_LAST_VAL)
				for (int j = 0; j < r->n; j++)
					if (!strcmp(r->p[j].k, np.k)) { memmove(&r->p[j], &r->p[j + 1], sizeof(struct qpair) * (size_t)(r->n - j - 1)); r->n--; break; }
			r->p[r->n++] = np;
		}
		if (!amp) break;
		start = (size_t)(amp - s) + 1;
	}
}

static int qcmp(const void *a, const void *b)
{
	const struct qpair *x = a, *y = b; int c = strcmp(x->k, y->k);
	return c ? c : strcmp(x->v, y->v);
}

static const char *vis_q(const struct qres *r)
{
	static char b[2][600]; static int k; char *o = b[k++ & 1]; size_t n = 0;
	n += (size_t)snprintf(o + n, 600 - n, "rc=%d [", r->rc);
	for (int i = 0; i < r->n && n < 500; i++) n += (size_t)snprintf(o + n, 600 - n, "%s(%s,%s)", i ? " " : "", VS(r->p[i].k), VS(r->p[i].v));
	snprintf(o + n, 600 - n, "]");
	return o;
}

/* collect the evkeyvalq into a qres; returns 0 if something does not fit */
static int collect(struct evkeyvalq *h, int rc, struct qres *r)
{
	struct evkeyval *kv;
	r->rc = rc; r->n = 0;
	TAILQ_FOREACH(kv, h, next) {
		if (r->n >= QMAXP || strlen(kv->key) >= 16 || strlen(kv->value) >= 16) return 0;
		strcpy(r->p[r->n].k, kv->key); strcpy(r->p[r->n].v, kv->value); r->n++;
	}
	return 1;
}

static int compare_query(const char *api, const char *s, unsigned flags, int rc, struct evkeyvalq *h, const struct qres *ref)
{
	struct qres got, a, b; char key[128];
	int nontrivial = 0, differ;
	if (!collect(h, rc, &got)) { mc_fail("harness:query-collect", "input %s: result does not fit", VS(s)); return 0; }
	if (mc_replaying()) printf("  %s flags=%#x -> %s ; reference %s\n", api, flags, vis_q(&got), vis_q(ref));
	MC_COUNT("oracle_query_compared");
	if ((rc == 0) != (ref->rc == 0) || (rc != 0 && rc != -1)) {
		snprintf(key, sizeof key, "C29/query/return-value/%s/flags%u", api, flags);
		mc_fail(key, "input %s flags=%#x: returned %d, reference %s", VS(s), flags, rc, vis_q(ref));
		return 0;
	}
	if (rc != 0) { MC_COUNT("query_rejected"); return 0; }
	a = got; b = *ref;
	qsort(a.p, (size_t)a.n, sizeof a.p[0], qcmp); qsort(b.p, (size_t)b.n, sizeof b.p[0], qcmp);
	differ = a.n != b.n;
	for (int i = 0; !differ && i < a.n; i++) if (qcmp(&a.p[i], &b.p[i])) differ = 1;
	if (differ) {
		snprintf(key, sizeof key, "C29/query/pairs-differ/%s/flags%u", api, flags);
		mc_fail(key, "input %s flags=%#x: got %s, reference %s", VS(s), flags, vis_q(&got), vis_q(ref));
		return 0;
	}
	/* which value a lookup sees: the first occurrence (the only one under LAST_VAL) */
	for (int i = 0; i < ref->n; i++) {
		int first = 1;
		for (int j = 0; j < i; j++) if (!strcmp(ref->p[j].k, ref->p[i].k)) first = 0;
		if (!first) { MC_COUNT("query_duplicate_keys_seen"); continue; }
		const char *v = evhttp_find_header(h, ref->p[i].k);
		MC_COUNT("oracle_query_lookup_checked");
		if (!v || strcmp(v, ref->p[i].v)) {
			snprintf(key, sizeof key, "C29/query/lookup-value/%s/flags%u", api, flags);
			mc_fail(key, "input %s flags=%#x: lookup of %s gives %s, documented %s", VS(s), flags, VS(ref->p[i].k), VS(v), VS(ref->p[i].v));
		}
	}
	if (ref->n) nontrivial = 1;
	return nontrivial;
}

static const char Q_ALPHA[] = "ab=&+%41;";
#define NQ 9
static void item_query(uint64_t i)
{
	unsigned dg[12]; char s[16], uri[24];
	int n = decode_index(i, NQ, dg), nt = 0, wf;
	long live0 = mcx_alloc_live();
	struct evkeyvalq h; struct qres ref; unsigned char tmp[16];
	for (int j = 0; j < n; j++) s[j] = Q_ALPHA[dg[j]];
	s[n] = 0;
	if (mc_replaying()) printf("INPUT %s\n", VS(s));
	for (unsigned fl = 0; fl < 4; fl++) {
		int rc = evhttp_parse_query_str_flags(s, &h, fl);
		ref_query(s, fl, &ref);
		nt |= compare_query("parse_query_str_flags", s, fl, rc, &h, &ref);
		evhttp_clear_headers(&h);
	}
	ref_query(s, 0, &ref);
	{
		int rc = evhttp_parse_query_str(s, &h);
		compare_query("parse_query_str", s, 0, rc, &h, &ref);
		evhttp_clear_headers(&h);
	}
	ref_decode(s, (size_t)n, 0, tmp, &wf);
	if (wf) {
		/* whole-URI variant: "/?" + s is a valid RFC 3986 relative reference
		 * (all alphabet symbols are query characters once escapes are well-formed) */
		int rc;
		snprintf(uri, sizeof uri, "/?%s", s);
		rc = evhttp_parse_query(uri, &h);
		compare_query("parse_query", s, 0, rc, &h, &ref);
		evhttp_clear_headers(&h);
	}
	if (nt) { MC_COUNT("nontrivial_inputs"); mc_nontrivial(mc_hash_u64(0x292929, i)); }
	if (mcx_alloc_live() != live0) mc_fail("C29/leak/query", "input %s: %ld library allocations left", VS(s), mcx_alloc_live() - live0);
	if (mc_replaying() || (i & 0xfff) == 1) mc_observe("query %s", VS(s));
}

/* ------------------------------------------------------------------ */
static const char *argp(int argc, char **argv, const char *name, const char *dflt)
{
	size_t l = strlen(name);
	for (int i = 1; i + 1 < argc; i++)
		if (!strcmp(argv[i], "-P") && !strncmp(argv[i + 1], name, l) && argv[i + 1][l] == '=') return argv[i + 1] + l + 1;
	return dflt;
}

/* fixed bijection of the index range, see harness/c28_uri.c */
static uint64_t perm_n, perm_k;
static void (*real_item)(uint64_t);
static uint64_t gcd64(uint64_t a, uint64_t b) { while (b) { uint64_t t = a % b; a = b; b = t; } return a; }
static void item_permuted(uint64_t i) { real_item((uint64_t)(((__uint128_t)i * perm_k) % perm_n)); }

int main(int argc, char **argv)
{
	struct mc_config cfg = { .property = "C29", .init = init };
	const char *dom = argp(argc, argv, "dom", "bytes");
	int len = atoi(argp(argc, argv, "len", "2"));
	if (!strcmp(dom, "bytes")) {
		if (len < 0 || len > 4) { fprintf(stderr, "c29: bad len\n"); return 2; }
		bytes_maxlen = len; cfg.n_items = count_strings(256, len); real_item = item_bytes;
	} else if (!strcmp(dom, "dec")) {
		if (len < 0 || len > 9) { fprintf(stderr, "c29: bad len\n"); return 2; }
		cfg.n_items = count_strings(NDEC, len); real_item = item_dec;
	} else if (!strcmp(dom, "query")) {
		if (len < 0 || len > 10) { fprintf(stderr, "c29: bad len\n"); return 2; }
		cfg.n_items = count_strings(NQ, len); real_item = item_query;
	} else { fprintf(stderr, "c29: unknown dom %s\n", dom); return 2; }
	perm_n = cfg.n_items;
	for (perm_k = 2654435761ull % perm_n; perm_k < 2 || gcd64(perm_k, perm_n) != 1; perm_k++) ;
	if (perm_n < 4) perm_k = 1;
	cfg.item = item_permuted;
	return mc_main(argc, argv, &cfg);
}
