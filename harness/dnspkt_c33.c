/* C33 — resolver reply parsing (reply_parse / reply_handle / TCP reply path).
 *
 * Shard-mode enumeration.  One item = (reply spec, configuration, transport,
 * prefix plan).  For every item a pending A / AAAA / PTR request is created
 * through the public API on a fresh evdns_base whose only nameserver is a
 * loopback socket owned by the harness; the query is read back from the wire,
 * the reply is built from the grammar using the query's id and question, and
 * the reply (or every prefix of it) is delivered
 *   direct : reply_parse(base, exact-size heap copy, len)   (ASan sees over-reads)
 *   udp    : sendto() the nameserver socket, event loop      (nameserver_read path)
 *   tcp    : DNS_QUERY_USEVC, length-prefixed stream in <= 3 segments (client_tcp_read_packet_cb path, exact-size heap buffer)
 * The callback log is judged against models/dnswire (RFC 1035 decoder).
 */
#include "evdns.c"
#include "dnspkt_common.h"
#include <stddef.h>
#include <sys/mman.h>
#include <sys/eventfd.h>

/* ------------------------------------------------------------------ */
/* grammar                                                              */

enum { QT_A, QT_AAAA, QT_PTR };
static const int qt_code[3] = { 1, 28, 12 };
#define NAME_FWD "wWw.exAmple.test"
#define N_H 23
#define N_Q 11
#define N_A 34
#define N_AU 7
#define N_C 12          /* 0 = none, 1..11 compression variants */
#define N_CPOS 4
enum { POS_OWNER, POS_RDNAME, POS_QNAME, POS_AUTH };
enum { K_GRAMMAR, K_MUTANT };

struct spec { uint8_t kind, qt, h, q, a, au, c, cpos; uint16_t mpos; uint8_t mval; uint8_t canon; };
struct qinfo { uint16_t id; int qt; uint8_t qname[300]; size_t qlen; };

struct bctx {
	const struct spec *s; const struct qinfo *q; struct dp_buf *w;
	int done[N_CPOS];
	size_t fwd_at, cyc_at, end_at, chain_at;   /* pointer placeholders to patch (0 = none) */
};

static void put_qname_bytes(struct dp_buf *w, const struct qinfo *q, int flip)
{
	size_t i = 0;
	while (i < q->qlen) {
		unsigned l = q->qname[i];
		dp_u8(w, l); i++;
		for (unsigned k = 0; k < l && i < q->qlen; k++, i++) {
			unsigned c = q->qname[i];
			if (flip && ((c >= 'a' && c <= 'z') || (c >= 'A' && c <= 'Z'))) c ^= 0x20;
			dp_u8(w, c);
		}
	}
}

/* write a name at a grammar position; wire==NULL means "the question name" */
static void emit_name(struct bctx *b, int pos, const uint8_t *wire, size_t wlen)
{
	struct dp_buf *w = b->w;
	int c = (b->s->c && b->s->cpos == pos && !b->done[pos]) ? b->s->c : 0;
	b->done[pos] = 1;
	switch (c) {
	default:
	case 0: if (wire) dp_bytes(w, wire, wlen); else put_qname_bytes(w, b->q, 0); break;
	case 1: dp_ptr(w, 12); break;                                       /* backward to the question name */
	case 2: dp_u8(w, 1); dp_u8(w, 'x'); dp_ptr(w, 12); break;           /* label + backward pointer */
	case 3: b->fwd_at = w->n; dp_u16(w, 0xc000); break;                 /* forward: patched to a name appended at the end */
	case 4: dp_ptr(w, (unsigned)w->n); break;                           /* self */
	case 5: b->cyc_at = w->n; dp_u16(w, 0xc000); break;                 /* 2-cycle with a pointer appended at the end */
	case 6: dp_u16(w, 0xffff); break;                                   /* far out of range */
	case 7: b->end_at = w->n; dp_u16(w, 0xc000); break;                 /* exactly one past the end */
	case 8: dp_ptr(w, 0); break;                                        /* into the header */
	case 9: dp_u8(w, 0x40); dp_u8(w, 'a'); dp_u8(w, 0); break;          /* reserved label type */
	case 10: b->chain_at = w->n; dp_u16(w, 0xc000); break;              /* forward to a pointer that points back to 12 */
	case 11: dp_u8(w, 63); dp_fill(w, 'L', 63); dp_ptr(w, 12); break;   /* 63-octet label + pointer */
	}
}

static size_t text_wire(const char *t, uint8_t *out)
{
	size_t n = 0;
	while (*t) {
		const char *d = strchr(t, '.'); size_t l = d ? (size_t)(d - t) : strlen(t);
		if (l) { out[n++] = (uint8_t)l; memcpy(out + n, t, l); n += l; }
		t += l; if (*t == '.') t++;
	}
	out[n++] = 0;
	return n;
}

static void rr_head(struct bctx *b, int pos, const uint8_t *owner, size_t olen, int type, int class_, uint32_t ttl)
{
	emit_name(b, pos, owner, olen);
	dp_u16(b->w, (unsigned)type); dp_u16(b->w, (unsigned)class_); dp_u32(b->w, ttl);
}

/* main RR of the queried type.  field_delta: lie in the rdlength field; content_delta: bytes added/removed */
static void rr_main(struct bctx *b, int type, int class_, uint32_t ttl, int naddr, int seq, int field_delta, int content_delta, int nul_target)
{
	struct dp_buf *w = b->w;
	rr_head(b, POS_OWNER, NULL, 0, type, class_, ttl);
	size_t lp = w->n; dp_u16(w, 0);
	size_t st = w->n;
	if (type == 1) { for (int i = 0; i < naddr; i++) { dp_u8(w, 10); dp_u8(w, (unsigned)seq); dp_u8(w, (unsigned)i); dp_u8(w, 7); } }
	else if (type == 28) { for (int i = 0; i < naddr; i++) { dp_u16(w, 0x2001); dp_u16(w, 0xdb8); dp_fill(w, 0, 8); dp_u8(w, (unsigned)seq); dp_u8(w, (unsigned)i); dp_u16(w, 0x99); } }
	else { /* PTR */
		uint8_t t[300]; size_t n;
		if (nul_target) { static const uint8_t nt[] = { 7,'h','o','s','t',0,'e','v', 4,'n','a','m','e', 4,'t','e','s','t', 0 }; memcpy(t, nt, sizeof nt); n = sizeof nt; }
		else { char nm[64]; snprintf(nm, sizeof nm, "host%d.Name.test", seq); n = text_wire(nm, t); }
		if (naddr > 0) emit_name(b, POS_RDNAME, t, n);
	}
	if (content_delta > 0) dp_fill(w, 0xEE, (size_t)content_delta);
	if (content_delta < 0 && w->n - st >= (size_t)-content_delta) w->n -= (size_t)-content_delta;
	dp_patch16(w, lp, (unsigned)((int)(w->n - st) + field_delta) & 0xffff);
}

static void rr_cname(struct bctx *b, uint32_t ttl, const uint8_t *tgt, size_t tlen, int field_delta)
{
	struct dp_buf *w = b->w;
	rr_head(b, POS_OWNER, NULL, 0, 5, 1, ttl);
	size_t lp = w->n; dp_u16(w, 0);
	size_t st = w->n;
	emit_name(b, POS_RDNAME, tgt, tlen);
	dp_patch16(w, lp, (unsigned)((int)(w->n - st) + field_delta) & 0xffff);
}

static size_t long_name(uint8_t *out, int last)   /* 63.63.63.<last> */
{
	size_t n = 0;
	for (int i = 0; i < 3; i++) { out[n++] = 63; memset(out + n, 'a' + i, 63); n += 63; }
	out[n++] = (uint8_t)last; memset(out + n, 'z', (size_t)last); n += (size_t)last;
	out[n++] = 0;
	return n;
}

static int emit_answers(struct bctx *b, int a, int *count_override)
{
	int T = qt_code[b->q->qt], O = (T == 1) ? 28 : 1, n = 0;
	uint8_t c1[300], c2[300], tmp[300]; size_t l1 = text_wire("alias.Target.test", c1), l2 = text_wire("second.alias.test", c2), lt;
	*count_override = -1;
#define M(ttl, seq) (rr_main(b, T, 1, (ttl), 1, (seq), 0, 0, 0), n++)
	switch (a) {
	case 0: break;
	case 1: M(300, 1); break;
	case 2: M(300, 1); M(100, 2); break;
	case 3: M(50, 1); M(7, 2); M(3600, 3); break;
	case 4: rr_main(b, O, 1, 20, 1, 9, 0, 0, 0); n++; M(300, 1); break;
	case 5: rr_cname(b, 600, c1, l1, 0); n++; M(300, 1); break;
	case 6: rr_cname(b, 600, c1, l1, 0); n++; rr_cname(b, 700, c2, l2, 0); n++; M(300, 1); break;
	case 7: rr_cname(b, 600, c1, l1, 0); n++; break;
	case 8: M(300, 1); rr_cname(b, 600, c1, l1, 0); n++; break;
	case 9: rr_head(b, POS_OWNER, NULL, 0, 16, 1, 10); dp_u16(b->w, 4); dp_u8(b->w, 3); dp_bytes(b->w, "txt", 3); n++; M(300, 1); break;
	case 10: rr_main(b, T, 3, 5, 1, 8, 0, 0, 0); n++; M(300, 1); break;        /* class CH first */
	case 11: rr_main(b, T, 1, 300, 1, 1, 0, -1, 0); n++; M(200, 2); break;        /* content one octet short */
	case 12: rr_main(b, T, 1, 300, 1, 1, 0, +1, 0); n++; M(200, 2); break;        /* one extra octet */
	case 13: rr_main(b, T, 1, 300, 1, 1, +1, 0, 0); n++; M(200, 2); break;        /* rdlength lies +1 */
	case 14: rr_main(b, T, 1, 300, 1, 1, -1, 0, 0); n++; M(200, 2); break;        /* rdlength lies -1 */
	case 15: rr_main(b, T, 1, 300, 0, 1, 0, 0, 0); n++; break;                   /* rdlength 0 */
	case 16: rr_main(b, T, 1, 300, 2, 1, (T == 12) ? 4 : 0, 0, 0); n++; break;    /* two addresses in one RR / PTR rdlength +4 */
	case 17: M(300, 1); *count_override = n + 1; break;
	case 18: M(300, 1); M(100, 2); *count_override = 1; break;
	case 19: M(300, 1); *count_override = 65535; break;
	case 20: M(300, 1); *count_override = 0; break;
	case 21: M(0x80000000u, 1); M(5, 2); break;
	case 22: M(0xffffffffu, 1); break;
	case 23: for (int i = 0; i < 40; i++) M(1000 + (uint32_t)i, i); break;
	case 24: rr_cname(b, 600, c1, l1, +1); n++; M(300, 1); break;
	case 25: rr_cname(b, 600, c1, l1, -1); n++; M(300, 1); break;
	case 26: { static const uint8_t nt[] = { 6,'a','l','i',0,'a','s', 4,'t','e','s','t', 0 }; rr_cname(b, 600, nt, sizeof nt, 0); n++; M(300, 1); break; }
	case 27: if (T == 12) { rr_main(b, T, 1, 300, 1, 1, 0, 0, 1); n++; }
		 else { static const uint8_t ow[] = { 3,'o',0,'w', 4,'t','e','s','t', 0 }; rr_head(b, POS_OWNER, ow, sizeof ow, T, 1, 300); if (T == 1) { dp_u16(b->w, 4); dp_fill(b->w, 9, 4); } else { dp_u16(b->w, 16); dp_fill(b->w, 9, 16); } n++; }
		 break;
	case 28: lt = long_name(tmp, 61); if (T == 12) { rr_head(b, POS_OWNER, NULL, 0, 12, 1, 300); dp_u16(b->w, (unsigned)lt); emit_name(b, POS_RDNAME, tmp, lt); n++; } else { rr_cname(b, 600, tmp, lt, 0); n++; M(300, 1); } break;
	case 29: lt = long_name(tmp, 63); if (T == 12) { rr_head(b, POS_OWNER, NULL, 0, 12, 1, 300); dp_u16(b->w, (unsigned)lt); emit_name(b, POS_RDNAME, tmp, lt); n++; } else { rr_cname(b, 600, tmp, lt, 0); n++; M(300, 1); } break;
	case 30: rr_cname(b, 5, c1, l1, 0); n++; M(300, 1); break;                   /* CNAME ttl below the address ttl */
	case 31: M(300, 1); dp_bytes(b->w, "\xde\xad\xbe\xef\x01", 5); break;          /* trailing garbage (counts unchanged) */
	case 32: M(300, 1); rr_main(b, O, 1, 2, 1, 5, 0, 0, 0); n++; M(100, 2); break;/* other family in the middle */
	case 33: rr_cname(b, 600, c1, l1, 0); n++; rr_main(b, T, 1, 300, 1, 1, 0, -2, 0); n++; break; /* CNAME then broken main */
	}
#undef M
	return n;
}

static int emit_authority(struct bctx *b, int au, int *count_override)
{
	struct dp_buf *w = b->w; int n = 0;
	uint8_t zone[64], mn[64], rn[64]; size_t lz = text_wire("example.test", zone), lm = text_wire("ns.example.test", mn), lr = text_wire("admin.example.test", rn);
	*count_override = -1;
	if (au == 0) return 0;
	if (au == 3) { rr_head(b, POS_AUTH, zone, lz, 2, 1, 77); size_t lp = w->n; dp_u16(w, 0); size_t st = w->n; dp_bytes(w, mn, lm); dp_patch16(w, lp, (unsigned)(w->n - st)); return 1; }
	/* SOA */
	dp_bytes(w, zone, lz); dp_u16(w, 6); dp_u16(w, 1); dp_u32(w, au == 2 ? 0x80000000u : 300);
	size_t lp = w->n; dp_u16(w, 0); size_t st = w->n;
	emit_name(b, POS_AUTH, mn, lm);
	dp_bytes(w, rn, lr);
	if (au != 6) { dp_u32(w, 1); dp_u32(w, 2); dp_u32(w, 3); dp_u32(w, 4); dp_u32(w, au == 2 ? 0xffffffffu : 60); }
	dp_patch16(w, lp, au == 4 ? 4 : (unsigned)(w->n - st));
	n = 1;
	if (au == 5) *count_override = 2;
	return n;
}

static void build_reply(const struct spec *s, const struct qinfo *q, struct dp_buf *w)
{
	static const uint16_t hflags[N_H] = { 0x8180, 0x8180, 0x8180, 0x0180, 0x8980, 0x8181, 0x8182, 0x8183, 0x8184, 0x8185, 0x8189, 0x8380, 0x8383, 0x85b0,
	    0x8186, 0x8187, 0x8188, 0x818a, 0x818b, 0x818c, 0x818d, 0x818e, 0x818f };   /* 14..22: the remaining RCODEs, so that all of 0..15 occur */
	struct bctx b; memset(&b, 0, sizeof b); b.s = s; b.q = q; b.w = w;
	struct spec base;
	if (s->kind == K_MUTANT) { base = *s; base.kind = K_GRAMMAR; base.h = 0; base.q = 0; base.a = 5; base.au = 1; base.c = 1; base.cpos = POS_OWNER; b.s = &base; s = &base; }
	w->n = 0;
	uint16_t id = q->id; if (s->h == 1) id++; if (s->h == 2) id--;
	dp_u16(w, id); dp_u16(w, hflags[s->h]); dp_u16(w, 0); dp_u16(w, 0); dp_u16(w, 0); dp_u16(w, 0);
	/* questions */
	uint8_t other[64]; size_t lo = text_wire("other.example", other);
	int T = qt_code[q->qt], qd = 0;
#define QN_MATCH(flip, type, cls) do { if (b.s->c && b.s->cpos == POS_QNAME && !b.done[POS_QNAME] && !(flip)) emit_name(&b, POS_QNAME, NULL, 0); else { b.done[POS_QNAME] = 1; put_qname_bytes(w, q, (flip)); } dp_u16(w, (unsigned)(type)); dp_u16(w, (unsigned)(cls)); } while (0)
#define QN_OTHER() do { dp_bytes(w, other, lo); dp_u16(w, (unsigned)T); dp_u16(w, 1); } while (0)
	switch (s->q) {
	case 0: QN_MATCH(0, T, 1); qd = 1; break;
	case 1: QN_MATCH(1, T, 1); qd = 1; break;
	case 2: QN_OTHER(); qd = 1; break;
	case 3: qd = 0; break;
	case 4: QN_MATCH(0, T, 1); QN_OTHER(); qd = 2; break;
	case 5: QN_OTHER(); QN_MATCH(0, T, 1); qd = 2; break;
	case 6: QN_OTHER(); QN_OTHER(); qd = 2; break;
	case 7: qd = 1; break;
	case 8: QN_MATCH(0, 255, 1); qd = 1; break;
	case 9: QN_MATCH(0, T, 1); qd = 3; break;
	case 10: QN_MATCH(0, T, 3); qd = 1; break;
	}
	dp_patch16(w, 4, (unsigned)qd);
	int ov, n = emit_answers(&b, s->a, &ov);
	dp_patch16(w, 6, (unsigned)(ov >= 0 ? ov : n));
	n = emit_authority(&b, s->au, &ov);
	dp_patch16(w, 8, (unsigned)(ov >= 0 ? ov : n));
	/* trailing material for the pointer variants */
	if (b.fwd_at) { dp_patch16(w, b.fwd_at, 0xc000u | (unsigned)w->n); dp_name(w, "fwd.Target.test"); }
	if (b.cyc_at) { dp_patch16(w, b.cyc_at, 0xc000u | (unsigned)w->n); dp_ptr(w, (unsigned)b.cyc_at); }
	if (b.chain_at) { dp_patch16(w, b.chain_at, 0xc000u | (unsigned)w->n); dp_ptr(w, 12); }
	if (b.end_at) dp_patch16(w, b.end_at, 0xc000u | (unsigned)w->n);
}

static void build_message(const struct spec *s, const struct qinfo *q, struct dp_buf *w)
{
	build_reply(s, q, w);
	if (s->kind == K_MUTANT && s->mpos < w->n) {
		uint8_t o = w->b[s->mpos];
		switch (s->mval) { case 0: o = 0; break; case 1: o = 0xff; break; case 2: o = 0xc0; break; case 3: o = 0x3f; break; case 4: o ^= 0x20; break; case 5: o++; break; case 6: o--; break; case 7: o ^= 0x80; break; }
		w->b[s->mpos] = o;
	}
}

/* ------------------------------------------------------------------ */
/* reference evaluation of a reply                                      */

enum { R_SHORT, R_FOREIGN_ID, R_NOT_RESPONSE, R_QMALFORMED, R_QMISMATCH, R_USABLE };
static const char *cls_name[] = { "short", "foreign-id", "not-a-response", "question-malformed", "question-mismatch", "usable" };
struct nm { char text[320]; size_t len; uint32_t ttl; int has_nul; };
struct refres {
	int cls; uint16_t flags;
	int n_main, zero_len_main; size_t addr_len; uint32_t min_ttl;
	int n_ptr, n_cname, answers_complete, stop_err, reserved_label;
	uint8_t addr[4096];
	struct nm ptr[8];
	struct nm cn[8];
};

static void ref_eval(const uint8_t *msg, size_t len, const struct qinfo *q, int policy_b, struct refres *o)
{
	static struct dw_reader rd; struct dw_header h; static struct dw_question qq; static struct dw_rr rr; static struct dw_name want, tgt;
	memset(o, 0, offsetof(struct refres, addr)); o->min_ttl = 0xffffffffu;
	dw_reader_init(&rd, msg, len);
	if (dw_read_header(&rd, &h) != DW_OK) { o->cls = R_SHORT; return; }
	o->flags = h.flags;
	if (h.id != q->id) { o->cls = R_FOREIGN_ID; return; }
	if (!(h.flags & DW_F_QR)) { o->cls = R_NOT_RESPONSE; return; }
	{ static struct dw_reader r2; dw_reader_init(&r2, q->qname, q->qlen); size_t nx; dw_name_decode(&r2, 0, &nx, &want, 0); }
	int match = 0;
	for (unsigned i = 0; i < h.qd; i++) {
		int qrc = dw_read_question(&rd, &qq);
		if (qrc == DW_E_LABEL_TYPE) o->reserved_label = 1;
		if (qrc != DW_OK) { o->cls = R_QMALFORMED; return; }
		if (dw_name_eq(&qq.name, &want, 1)) match = 1;
	}
	if (!match) { o->cls = R_QMISMATCH; return; }
	o->cls = R_USABLE;
	int T = qt_code[q->qt]; size_t unit = T == 1 ? 4 : 16;
	o->answers_complete = 1;
	for (unsigned i = 0; i < h.an; i++) {
		int rc = dw_read_rr(&rd, &rr);
		if (rc == DW_E_LABEL_TYPE) o->reserved_label = 1;
		/* name-driven reading: the rdlength of a CNAME/PTR record is not consulted at all */
		if (rc == DW_E_RDATA && policy_b && (rr.type == DW_TYPE_CNAME || (rr.type == DW_TYPE_PTR && rr.class_ == DW_CLASS_IN && T == DW_TYPE_PTR))) rc = DW_OK;
		if (rc != DW_OK) { o->answers_complete = 0; o->stop_err = rc; break; }
		if (rr.class_ == DW_CLASS_IN && rr.type == T && T != DW_TYPE_PTR) {
			if (rr.rdlen % unit) { o->answers_complete = 0; o->stop_err = DW_E_RDATA; break; }
			if (o->addr_len + rr.rdlen > sizeof o->addr) { o->answers_complete = 0; break; }
			memcpy(o->addr + o->addr_len, msg + rr.rdata, rr.rdlen); o->addr_len += rr.rdlen;
			o->n_main++; if (!rr.rdlen) o->zero_len_main = 1;
			if (rr.ttl < o->min_ttl) o->min_ttl = rr.ttl;
		} else if ((rr.type == DW_TYPE_CNAME) || (rr.type == DW_TYPE_PTR && rr.class_ == DW_CLASS_IN && T == DW_TYPE_PTR)) {
			size_t ne; rc = dw_read_rdata_name(&rd, rr.rdata, &tgt, &ne);
			if (rc == DW_E_LABEL_TYPE) o->reserved_label = 1;
			if (rc != DW_OK) { o->answers_complete = 0; o->stop_err = rc; break; }
			if (!policy_b && ne != rr.end) { o->answers_complete = 0; o->stop_err = DW_E_RDATA; break; }
			if (policy_b) rd.off = ne;
			struct nm *d = NULL;
			if (rr.type == DW_TYPE_CNAME) { if (o->n_cname < 8) d = &o->cn[o->n_cname++]; }
			else { if (o->n_ptr < 8) d = &o->ptr[o->n_ptr++]; o->n_main++; }
			if (d) { d->len = dw_name_text(&tgt, d->text, sizeof d->text); d->ttl = rr.ttl; d->has_nul = tgt.has_nul; }
		}
	}
}

/* ------------------------------------------------------------------ */
/* execution                                                            */

struct cb_rec { int result, type, count, ttl, nonnull; uint8_t data[1024]; size_t dlen; char name[400]; size_t nlen; };
struct cb_log { int n; struct cb_rec r[4]; };
static struct cb_log g_log; static int g_qt;

static void resolve_cb(int result, char type, int count, int ttl, void *addresses, void *arg)
{
	(void)arg;
	if (g_log.n >= 4) { g_log.n++; return; }
	struct cb_rec *r = &g_log.r[g_log.n++];
	memset(r, 0, sizeof *r);
	r->result = result; r->type = type; r->count = count; r->ttl = ttl; r->nonnull = addresses != NULL;
	if (!addresses || count <= 0) return;
	if (type == DNS_IPv4_A || type == DNS_IPv6_AAAA) {
		size_t n = (size_t)count * (type == DNS_IPv4_A ? 4 : 16);
		if (n > sizeof r->data) n = sizeof r->data;
		memcpy(r->data, addresses, n); r->dlen = n;                   /* reads all `count` entries: ASan checks the buffer */
	} else if (type == DNS_PTR) {
		const char *s = *(char **)addresses; r->nlen = strlen(s); snprintf(r->name, sizeof r->name, "%s", s);
	} else if (type == DNS_CNAME) {
		const char *s = (const char *)addresses; r->nlen = strlen(s); snprintf(r->name, sizeof r->name, "%s", s);
	}
}

enum { M_DIRECT, M_UDP, M_TCP };
struct cx {
	struct event_base *eb; struct evdns_base *dns;
	int usock, lsock, csock; struct sockaddr_in sin, peer;
	struct qinfo q; uint8_t query[700]; size_t qlen;
	int events0;            /* events in the event_base when the resolver is idle */
	long env_live, base_live;   /* allocation baselines: no resolver / idle resolver */
};

static int cx_accept(struct cx *c)
{
	for (int tries = 0; tries < 40 && c->csock < 0; tries++) {
		event_base_loop(c->eb, EVLOOP_NONBLOCK);
		if (dp_wait_fd(c->lsock, POLLIN, 100)) c->csock = accept4(c->lsock, NULL, NULL, SOCK_NONBLOCK | SOCK_CLOEXEC);
	}
	return c->csock >= 0 ? 0 : -1;
}

/* per-item environment: the event_base and the harness-side sockets are created once per item
 * and are inert between executions (checked: no event left after evdns_base_free); everything
 * the property talks about (evdns_base, nameserver, request, TCP connection) is per execution. */
static struct { struct event_base *eb; int usock, lsock; struct sockaddr_in sin; } g_env = { NULL, -1, -1, {0} };

static void env_noop_cb(evutil_socket_t fd, short what, void *arg) { (void)fd; (void)what; (void)arg; }
static int env_open(int mode)
{
	g_env.usock = g_env.lsock = -1;
	g_env.eb = event_base_new();
	if (!g_env.eb) return -1;
	if (mode == M_TCP) g_env.lsock = dp_tcp_listener(&g_env.sin); else g_env.usock = dp_udp_bound(&g_env.sin);
	if (g_env.lsock < 0 && g_env.usock < 0) return -1;
	/* the event_base keeps one lazily allocated slot per fd number it has ever watched: touch the
	 * next few fd numbers now so that the per-execution allocation baseline does not move later */
	int fds[10]; struct event ev;
	for (int i = 0; i < 10; i++) fds[i] = eventfd(0, EFD_CLOEXEC);
	for (int i = 0; i < 10; i++) if (fds[i] >= 0) { event_assign(&ev, g_env.eb, fds[i], EV_READ, env_noop_cb, NULL); event_add(&ev, NULL); event_del(&ev); }
	for (int i = 0; i < 10; i++) if (fds[i] >= 0) close(fds[i]);
	return 0;
}
static void env_close(void)
{
	if (g_env.eb) event_base_free(g_env.eb);
	if (g_env.lsock >= 0) close(g_env.lsock);
	if (g_env.usock >= 0) close(g_env.usock);
	g_env.eb = NULL; g_env.usock = g_env.lsock = -1;
}

/* (re)create the resolver under test: evdns_base + its single nameserver */
static int cx_base_new(struct cx *c, int cfg)
{
	c->eb = g_env.eb; c->usock = g_env.usock; c->lsock = g_env.lsock; c->sin = g_env.sin; c->csock = -1;
	c->dns = evdns_base_new(c->eb, 0);
	if (!c->dns) return -1;
	if (evdns_base_nameserver_sockaddr_add(c->dns, (struct sockaddr *)&c->sin, sizeof c->sin, 0) != 0) return -1;
	evdns_base_set_option(c->dns, "randomize-case:", (cfg & 2) ? "1" : "0");
	c->events0 = -1;
	return 0;
}

/* Is the resolver indistinguishable from a freshly built one?  Every field that the
 * request / reply / nameserver code reads is compared with its initial value; only then
 * may the next execution of the same item reuse it (otherwise it is rebuilt). */
static int cx_pristine(struct cx *c)
{
	struct evdns_base *b = c->dns; struct nameserver *ns;
	if (!b || c->csock >= 0) return 0;
	if (b->global_requests_inflight || b->global_requests_waiting || b->req_waiting_head) return 0;
	for (int i = 0; i < b->n_req_heads; i++) if (b->req_heads[i]) return 0;
	ns = b->server_head;
	if (!ns || ns->next != ns || ns->prev != ns || b->global_good_nameservers != 1) return 0;
	if (ns->state != 1 || ns->failed_times || ns->timedout || ns->choked || ns->write_waiting || ns->probe_request || ns->connection || ns->requests_inflight) return 0;
	if (evtimer_pending(&ns->timeout_event, NULL)) return 0;
	if (b->global_search_state || !TAILQ_EMPTY(&b->hostsdb) || !SPLAY_EMPTY(&b->cache_root)) return 0;
	if (event_base_get_num_events(c->eb, EVENT_BASE_COUNT_ADDED | EVENT_BASE_COUNT_ACTIVE) != c->events0) return 0;
	return 1;
}

/* issue the request and read the query back from the wire */
static int cx_request(struct cx *c, int qt, int cfg, int mode)
{
	dp_rng_reset(); memset(&g_log, 0, sizeof g_log); g_qt = qt;
	if (c->usock >= 0) { uint8_t junk[64]; while (recv(c->usock, junk, sizeof junk, 0) >= 0) MC_COUNT("harness_stale_datagram"); }   /* nothing may be left over */
	/* connections a previous execution's resolver opened (TCP retransmission after SERVFAIL) may still sit in the listen backlog */
	if (c->lsock >= 0) { int stale; while ((stale = accept4(c->lsock, NULL, NULL, SOCK_NONBLOCK | SOCK_CLOEXEC)) >= 0) { close(stale); MC_COUNT("harness_stale_tcp_connection"); } }
	if (c->events0 < 0) { event_base_loop(c->eb, EVLOOP_NONBLOCK); c->events0 = event_base_get_num_events(c->eb, EVENT_BASE_COUNT_ADDED | EVENT_BASE_COUNT_ACTIVE); }
	int flags = DNS_QUERY_NO_SEARCH | ((cfg & 1) ? DNS_CNAME_CALLBACK : 0) | (mode == M_TCP ? DNS_QUERY_USEVC : 0);
	dp_rng_push_id(0x1234); if (cfg & 2) dp_rng_push_fill(0x5a);
	struct evdns_request *h;
	struct in_addr in; in.s_addr = htonl(0x01020304);
	if (qt == QT_A) h = evdns_base_resolve_ipv4(c->dns, NAME_FWD, flags, resolve_cb, NULL);
	else if (qt == QT_AAAA) h = evdns_base_resolve_ipv6(c->dns, NAME_FWD, flags, resolve_cb, NULL);
	else h = evdns_base_resolve_reverse(c->dns, &in, flags, resolve_cb, NULL);
	if (!h) return -2;
	if (mode == M_TCP) {
		if (cx_accept(c) < 0) return -3;
		size_t got = 0; uint8_t tmp[800];
		for (int tries = 0; tries < 40; tries++) {
			event_base_loop(c->eb, EVLOOP_NONBLOCK);
			if (!dp_wait_fd(c->csock, POLLIN, 100)) continue;
			ssize_t r = recv(c->csock, tmp + got, sizeof tmp - got, 0);
			if (r > 0) got += (size_t)r;
			if (got >= 2 && got >= 2u + dw_get_u16(tmp)) break;
		}
		if (got < 2 || got != 2u + dw_get_u16(tmp)) return -4;
		c->qlen = got - 2; memcpy(c->query, tmp + 2, c->qlen);
	} else {
		socklen_t sl = sizeof c->peer;
		ssize_t r = recvfrom(c->usock, c->query, sizeof c->query, 0, (struct sockaddr *)&c->peer, &sl);
		if (r < 0 && errno == EAGAIN) {
			if (!dp_wait_fd(c->usock, POLLIN, 2000)) return -5;
			sl = sizeof c->peer; r = recvfrom(c->usock, c->query, sizeof c->query, 0, (struct sockaddr *)&c->peer, &sl);
		}
		if (r < 12) return -6;
		c->qlen = (size_t)r;
	}
	/* id + question as transmitted (reference decoder) */
	static struct dw_reader rd; struct dw_header hd; static struct dw_question qq;
	dw_reader_init(&rd, c->query, c->qlen);
	if (dw_read_header(&rd, &hd) || hd.qd != 1 || dw_read_question(&rd, &qq) || qq.type != qt_code[qt]) return -7;
	c->q.id = hd.id; c->q.qt = qt;
	c->q.qlen = rd.off - 4 - 12; memcpy(c->q.qname, c->query + 12, c->q.qlen);
	return 0;
}

/* destroy the resolver; afterwards the event_base must be empty */
static void cx_base_free(struct cx *c)
{
	if (!c->dns) return;
	event_base_loop(c->eb, EVLOOP_NONBLOCK);
	evdns_base_free(c->dns, 0);
	c->dns = NULL;
	event_base_loop(c->eb, EVLOOP_NONBLOCK);         /* bufferevent finalizers of a TCP connection run here */
	if (event_base_get_num_events(c->eb, EVENT_BASE_COUNT_ADDED | EVENT_BASE_COUNT_ACTIVE)) event_base_loop(c->eb, EVLOOP_NONBLOCK);
	int left = event_base_get_num_events(c->eb, EVENT_BASE_COUNT_ADDED | EVENT_BASE_COUNT_ACTIVE);
	if (left) mc_fail("C33/events-left-after-free", "%d event(s) still added/active in the event_base after evdns_base_free", left);
	if (c->csock >= 0) close(c->csock);
	c->csock = -1;
}

static int ns_tcp_fd(struct cx *c)
{
	struct nameserver *ns = c->dns->server_head;
	if (!ns || !ns->connection || !ns->connection->bev) return -1;
	return bufferevent_getfd(ns->connection->bev);
}

/* deliver msg[0..len) through the chosen transport; cut1/cut2: stream offsets (TCP) at which to pause */
static void cx_deliver(struct cx *c, int mode, const uint8_t *msg, size_t len, size_t cut1, size_t cut2)
{
	if (mode == M_DIRECT) {
		uint8_t *exact = malloc(len ? len : 1);
		uint8_t *p = len ? exact : exact + 1;          /* len 0: point at the end of a 1-byte block */
		if (len) memcpy(exact, msg, len);
		EVDNS_LOCK(c->dns);
		reply_parse(c->dns, p, (int)len);
		EVDNS_UNLOCK(c->dns);
		free(exact);
		event_base_loop(c->eb, EVLOOP_NONBLOCK);
	} else if (mode == M_UDP) {
		struct nameserver *ns = c->dns->server_head;
		if (sendto(c->usock, msg, len, 0, (struct sockaddr *)&c->peer, sizeof c->peer) < 0) { mc_fail("harness:sendto", "%s", strerror(errno)); return; }
		if (!dp_wait_fd(ns->socket, POLLIN, 2000)) { mc_fail("harness:udp-not-delivered", "reply of %zu bytes not readable", len); return; }
		event_base_loop(c->eb, EVLOOP_NONBLOCK);
		event_base_loop(c->eb, EVLOOP_NONBLOCK);
	} else {
		static uint8_t stream[70002]; size_t sl = len + 2, at = 0;
		stream[0] = (uint8_t)(len >> 8); stream[1] = (uint8_t)len; memcpy(stream + 2, msg, len);
		size_t cuts[3] = { cut1, cut2, sl };
		/* the connection our stream goes to; the resolver may drop / replace it (then there is nothing to wait for) */
		struct nameserver *ns0 = c->dns->server_head; struct bufferevent *bev0 = (ns0 && ns0->connection) ? ns0->connection->bev : NULL;
		for (int i = 0; i < 3; i++) {
			size_t to = cuts[i] > sl ? sl : cuts[i];
			if (to <= at) continue;
			if (dp_write_all(c->csock, stream + at, to - at) < 0) break;    /* peer closed: fine */
			at = to;
			int fd = ns_tcp_fd(c);
			if (fd >= 0 && bev0 && c->dns->server_head->connection->bev == bev0) dp_wait_fd(fd, POLLIN, 2000);
			event_base_loop(c->eb, EVLOOP_NONBLOCK);
			event_base_loop(c->eb, EVLOOP_NONBLOCK);
		}
	}
}

/* ------------------------------------------------------------------ */
/* oracle                                                               */

static const char *qtn[3] = { "A", "AAAA", "PTR" };
static char g_ctx[256];     /* where we are, for failure messages */

static int nm_match(const struct nm *set, int n, const struct cb_rec *c, uint32_t *ttl_out, int *nul_trunc)
{
	for (int i = 0; i < n; i++) {
		if (set[i].len == c->nlen && !memcmp(set[i].text, c->name, c->nlen)) { *ttl_out = set[i].ttl; return 1; }
		if (set[i].has_nul && c->nlen == strlen(set[i].text) && !memcmp(set[i].text, c->name, c->nlen)) *nul_trunc = 1;
	}
	return 0;
}

/* does the delivered data equal what reference reading `r` says? returns 0 ok, else a key suffix */
static const char *match_data(const struct refres *r, int qt, const struct cb_log *log, int cname_cb)
{
	const struct cb_rec *c0 = &log->r[0];
	if (r->cls != R_USABLE) return "unmatched-reply-used";
	if (qt != QT_PTR) {
		size_t unit = qt == QT_A ? 4 : 16;
		if (c0->count < 0 || (size_t)c0->count * unit != r->addr_len) return "wrong-addresses";
		if (c0->dlen != r->addr_len || memcmp(c0->data, r->addr, r->addr_len)) return "wrong-addresses";
		if (r->n_main == 0) return "success-without-answer";
		if ((uint32_t)c0->ttl > r->min_ttl) return "ttl-exceeds-min";
	} else {
		uint32_t t = 0; int nt = 0;
		if (c0->count != 1) return "wrong-ptr-count";
		if (!nm_match(r->ptr, r->n_ptr, c0, &t, &nt)) return nt ? "ptr-name-truncated-at-nul" : "wrong-ptr-name";
		if ((uint32_t)c0->ttl > t) return "ttl-exceeds-min";
	}
	if (log->n >= 2) {
		const struct cb_rec *c1 = &log->r[1]; uint32_t t = 0; int nt = 0;
		if (c1->type != DNS_CNAME || c1->result != 0 || c1->count != 1) return "bad-second-callback";
		if (!cname_cb) return "unrequested-cname-callback";
		if (!nm_match(r->cn, r->n_cname, c1, &t, &nt)) return nt ? "cname-truncated-at-nul" : "wrong-cname";
		if ((uint32_t)c1->ttl > t) return "cname-ttl-exceeds-record";
	}
	return NULL;
}

static void judge(const struct cx *c, int cfg, const struct spec *s, const uint8_t *msg, size_t len, int full)
{
	static struct refres A, B;
	const struct cb_log *log = &g_log;
	int qt = c->q.qt, cname_cb = cfg & 1;
	static const int exp_type[3] = { DNS_IPv4_A, DNS_IPv6_AAAA, DNS_PTR };
	ref_eval(msg, len, &c->q, 0, &A);
	ref_eval(msg, len, &c->q, 1, &B);
	switch (A.cls) {
	case R_SHORT: MC_COUNT("ref_short"); break;
	case R_FOREIGN_ID: MC_COUNT("ref_foreign_id"); break;
	case R_NOT_RESPONSE: MC_COUNT("ref_not_response"); break;
	case R_QMALFORMED: MC_COUNT("ref_question_malformed"); break;
	case R_QMISMATCH: MC_COUNT("ref_question_mismatch"); break;
	default: if (A.answers_complete) MC_COUNT("ref_usable_complete"); else MC_COUNT("ref_usable_answers_malformed"); break;
	}
	if (log->n == 0) {
		MC_COUNT("outcome_no_callback");
		if (s->canon && full) mc_fail("C33/wellformed-reply-not-delivered", "%s: canonical well-formed reply produced no callback", g_ctx);
		return;
	}
	if (log->n > 2) { mc_fail("C33/callback-more-than-once", "%s: %d callbacks", g_ctx, log->n); return; }
	const struct cb_rec *c0 = &log->r[0];
	if (c0->type != exp_type[qt]) { mc_fail("C33/callback-wrong-type", "%s: type %d for a %s request", g_ctx, c0->type, qtn[qt]); return; }
	if (c0->result != DNS_ERR_NONE) {
		MC_COUNT("outcome_error");
		/* event2/dns.h: "result is one of the DNS_ERR_* values" */
		if (!((c0->result >= DNS_ERR_FORMAT && c0->result <= DNS_ERR_REFUSED) || (c0->result >= DNS_ERR_TRUNCATED && c0->result <= DNS_ERR_NODATA)))
			mc_fail("C33/undocumented-result-code", "%s: callback result %d is none of the DNS_ERR_* values (reply flags %04x)", g_ctx, c0->result, A.flags);
		if (c0->count != 0 || c0->nonnull) mc_fail("C33/error-with-data", "%s: result %d with count %d ptr %d", g_ctx, c0->result, c0->count, c0->nonnull);
		if (A.cls != R_USABLE && c0->ttl != 0) mc_fail("C33/unmatched-reply-contributes-ttl", "%s: %s reply gave ttl %d", g_ctx, cls_name[A.cls], c0->ttl);
		if (log->n > 1) mc_fail("C33/callback-more-than-once", "%s: %d callbacks after an error", g_ctx, log->n);
		if (s->canon && full) mc_fail("C33/wellformed-reply-not-delivered", "%s: canonical well-formed reply gave error %d", g_ctx, c0->result);
		return;
	}
	MC_COUNT("outcome_data");
	if (A.reserved_label || B.reserved_label) { MC_COUNT("ref_reserved_label_type_unjudged"); return; }
	if (A.cls != R_USABLE) { MC_COUNT("oracle_unmatched_checked"); mc_fail("C33/unmatched-reply-used", "%s: a %s reply delivered data (count %d)", g_ctx, cls_name[A.cls], c0->count); return; }
	const char *ka = match_data(&A, qt, log, cname_cb), *kb = ka ? match_data(&B, qt, log, cname_cb) : NULL;
	MC_COUNT("oracle_data_compared");
	if (log->n >= 2) MC_COUNT("oracle_cname_compared");
	if (ka && kb) {
		char key[96], hx[200];
		snprintf(key, sizeof key, "C33/%s", strstr(kb, "truncated-at-nul") ? kb : ka);
		mc_fail(key, "%s: delivered count=%d ttl=%d data=%s name='%s' cname='%s' ttl2=%d; reference: %zu address bytes, %d ptr, %d cname, min ttl %u",
		    g_ctx, c0->count, c0->ttl, dp_hex(c0->data, c0->dlen > 40 ? 40 : c0->dlen, hx, sizeof hx), c0->name, log->n > 1 ? log->r[1].name : "", log->n > 1 ? log->r[1].ttl : -1,
		    A.addr_len, A.n_ptr, A.n_cname, A.min_ttl);
		return;
	}
	if (cname_cb && qt != QT_PTR && log->n == 1 && A.answers_complete && A.n_cname > 0 && !ka)
		mc_fail("C33/cname-not-reported", "%s: DNS_CNAME_CALLBACK set, answer has a CNAME, none reported", g_ctx);
}

/* one execution: fresh resolver, pending request, deliver msg[0..len), judge, hygiene */
static struct cx g_cx;

/* Inputs already executed (by any worker): an execution is a function of (transport, cfg, qtype, cuts, bytes)
 * alone because the resolver is pristine, so a byte-identical prefix of another message is not run again. */
static uint64_t *g_done; static size_t g_done_cap;
static int done_insert(uint64_t h)
{
	if (!g_done || mc_replaying()) return 1;
	h |= 1;
	size_t i = (size_t)((h * 0x9e3779b97f4a7c15ULL) >> 24) & (g_done_cap - 1);
	for (int n = 0; n < 256; n++, i = (i + 1) & (g_done_cap - 1)) {
		uint64_t v = g_done[i];
		if (v == h) return 0;
		if (v == 0) { if (__sync_bool_compare_and_swap(&g_done[i], 0, h)) return 1; if (g_done[i] == h) return 0; }
	}
	return 1;
}

static long g_item_leaks;
static int spec_has_cname(const struct spec *s)
{
	static const uint8_t set[] = { 5, 6, 7, 8, 24, 25, 26, 28, 29, 30, 33 };
	if (s->kind == K_MUTANT) return 1;
	for (size_t i = 0; i < sizeof set; i++) if (s->a == set[i]) return s->qt != QT_PTR || (s->a != 28 && s->a != 29);
	return 0;
}
static void report_leak(long leaked, int cfg, const struct spec *s, const char *when)
{
	/* DNS_CNAME_CALLBACK + a CNAME record in the reply: the strdup'ed reply.cname (one defect: it has no owner on the
	 * overwrite / error / rcode paths); anything else is a different leak */
	const char *k = ((cfg & 1) && spec_has_cname(s)) ? "C33/leak/reply-cname" : "C33/leak/other";
	g_item_leaks += leaked;
	mc_fail(k, "%s: %ld allocation(s) still live %s", g_ctx, leaked, when);
}

/* one execution: pending request on a pristine resolver, deliver msg[0..len), judge, hygiene */
static void run_exec(const struct spec *s, int cfg, int mode, const struct dp_buf *full_msg, size_t len, size_t cut1, size_t cut2, const struct qinfo *predicted)
{
	struct cx *c = &g_cx;
	{
		uint64_t h = mc_hash_u64(mc_hash_u64(11, (uint64_t)mode * 64 + (uint64_t)cfg * 8 + s->qt), (uint64_t)cut1 * 70001 + cut2);
		h = mc_hash(h, full_msg->b, len); h = mc_hash_u64(h, len * 2 + (len == full_msg->n && s->canon));
		if (!done_insert(h)) { MC_COUNT("executions_skipped_identical_input"); return; }
	}
	if (!c->dns) {
		c->env_live = mcx_alloc_live();
		if (cx_base_new(c, cfg)) { mc_fail("harness:setup", "%s: cannot build the resolver: %s", g_ctx, strerror(errno)); cx_base_free(c); return; }
		c->base_live = mcx_alloc_live();
		MC_COUNT("resolvers_built");
	}
	int rc = cx_request(c, s->qt, cfg, mode);
	if (rc) { mc_fail("harness:setup", "%s: cx_request rc=%d errno=%s", g_ctx, rc, strerror(errno)); cx_base_free(c); return; }
	if (predicted && (predicted->id != c->q.id || predicted->qlen != c->q.qlen || memcmp(predicted->qname, c->q.qname, c->q.qlen)))
		mc_fail("harness:query-prediction", "%s: transmitted query differs from the predicted one", g_ctx);
	MC_COUNT("executions");
	cx_deliver(c, mode, full_msg->b, len, cut1, cut2);
	int full = len == full_msg->n;
	judge(c, cfg, s, full_msg->b, len, full);
	int delivered = g_log.n > 0 && g_log.r[0].result == 0;
	/* a reply that was ignored must leave the request usable: follow up with the canonical answer */
	if (mode != M_TCP && g_log.n == 0 && full) {
		static struct refres R; ref_eval(full_msg->b, len, &c->q, 0, &R);
		if (R.cls == R_SHORT || R.cls == R_FOREIGN_ID || R.cls == R_NOT_RESPONSE) {
			static struct dp_buf v; struct spec canon; memset(&canon, 0, sizeof canon); canon.qt = s->qt; canon.a = 2; canon.canon = 1;
			build_message(&canon, &c->q, &v);
			cx_deliver(c, mode, v.b, v.n, 0, 0);
			MC_COUNT("oracle_followup_after_ignored");
			if (g_log.n == 0 || g_log.r[0].result != 0) mc_fail("C33/valid-reply-after-ignored-not-delivered", "%s: canonical reply after an ignored (%s) one gave %s", g_ctx, cls_name[R.cls], g_log.n ? "an error" : "no callback");
			else judge(c, cfg, &canon, v.b, v.n, 1);
		}
	}
	MC_COUNT("oracle_leak_checked");
	if (mode != M_TCP && cx_pristine(c) && !mc_failed()) {
		long leaked = mcx_alloc_live() - c->base_live;
		if (!leaked) { MC_COUNT("resolver_reused"); return; }
		report_leak(leaked, cfg, s, "with the request finished and the resolver idle");
		c->env_live += leaked;
	}
	(void)delivered;
	cx_base_free(c);
	long leaked = mcx_alloc_live() - c->env_live;
	if (leaked) report_leak(leaked, cfg, s, "after evdns_base_free");
	dp_alloc_trace_dump(g_ctx);
}

/* ------------------------------------------------------------------ */
/* enumeration                                                          */

struct item { uint32_t spec; uint8_t cfg, mode, plan; };   /* plan: 0 full only, 1 every prefix, 2 tcp cut set, 3 tcp every single cut, 4 tcp every pair of cuts, 5 pairs of cuts on a stride */
static struct spec *specs; static size_t n_specs, cap_specs;
static struct item *items; static size_t n_items, cap_items;
static uint64_t *dedupe; static size_t dedupe_cap;

static struct qinfo predicted[3];
static void predict_queries(void)
{
	static const char *names[3] = { NAME_FWD, NAME_FWD, "4.3.2.1.in-addr.arpa" };
	for (int qt = 0; qt < 3; qt++) {
		struct qinfo *q = &predicted[qt]; const char *n = names[qt]; char buf[64]; size_t l = strlen(n);
		q->id = 0x1234; q->qt = qt;
		memcpy(buf, n, l + 1);
		for (size_t i = 0; i < l; i++) {          /* RFC draft 0x20: bit i of the random string selects lower (1) / upper (0) */
			int alpha = (buf[i] >= 'a' && buf[i] <= 'z') || (buf[i] >= 'A' && buf[i] <= 'Z');
			if (alpha) { if ((0x5a >> (i & 7)) & 1) buf[i] |= 0x20; else buf[i] &= ~0x20; }
		}
		q->qlen = text_wire(buf, q->qname);
	}
}
static struct qinfo predicted_plain[3];

static int dedupe_add(uint64_t h)
{
	size_t i = (size_t)(h * 0x9e3779b97f4a7c15ULL >> 20) % dedupe_cap;
	if (!h) h = 1;
	while (dedupe[i]) { if (dedupe[i] == h) return 0; i = (i + 1) % dedupe_cap; }
	dedupe[i] = h; return 1;
}

static long add_spec(const struct spec *s)
{
	static struct dp_buf w;
	build_message(s, &predicted[s->qt], &w);
	uint64_t h = dp_hash_bytes(s->qt + 1, w.b, w.n);
	if (!dedupe_add(h)) return -1;
	if (n_specs == cap_specs) { cap_specs = cap_specs ? cap_specs * 2 : 4096; specs = realloc(specs, cap_specs * sizeof *specs); }
	specs[n_specs] = *s;
	return (long)n_specs++;
}
static void add_item(long spec, int cfg, int mode, int plan)
{
	if (spec < 0) return;
	if (n_items == cap_items) { cap_items = cap_items ? cap_items * 2 : 4096; items = realloc(items, cap_items * sizeof *items); }
	items[n_items].spec = (uint32_t)spec; items[n_items].cfg = (uint8_t)cfg; items[n_items].mode = (uint8_t)mode; items[n_items].plan = (uint8_t)plan; n_items++;
}

static int is_canon(const struct spec *s)
{
	return s->kind == K_GRAMMAR && (s->h == 0 || s->h == 13) && s->q == 0 && (s->a == 1 || s->a == 2 || s->a == 3 || s->a == 5 || s->a == 6 || s->a == 4 || s->a == 9)
	    && (s->au == 0 || s->au == 1) && (s->c == 0 || ((s->c == 1 || s->c == 2) && s->cpos != POS_QNAME));
}

static void generate(const char *tier)
{
	int thorough = !strcmp(tier, "thorough");
	int maxdev = thorough ? 3 : 2;
	dedupe_cap = thorough ? (1u << 22) : (1u << 18); dedupe = calloc(dedupe_cap, sizeof *dedupe);
	predict_queries();
	for (int qt = 0; qt < 3; qt++) {
		struct spec s;
		for (int h = 0; h < N_H; h++) for (int q = 0; q < N_Q; q++) for (int a = 0; a < N_A; a++) for (int au = 0; au < N_AU; au++)
		for (int c = 0; c < N_C; c++) for (int cp = 0; cp < (c ? N_CPOS : 1); cp++) {
			int dev = (h != 0) + (q != 0) + (a != 1) + (au != 0) + (c != 0);
			if (dev > maxdev) continue;
			if (h >= 14 && !thorough && dev > 1 && !(dev == 2 && a == 0)) continue;   /* quick: the rarer RCODEs alone and with an empty answer section */
			memset(&s, 0, sizeof s); s.kind = K_GRAMMAR; s.qt = (uint8_t)qt; s.h = (uint8_t)h; s.q = (uint8_t)q; s.a = (uint8_t)a; s.au = (uint8_t)au; s.c = (uint8_t)c; s.cpos = (uint8_t)cp;
			s.canon = (uint8_t)is_canon(&s);
			long id = add_spec(&s);
			if (id < 0) continue;
			if (!thorough) {
				/* quick: every prefix for A (all pairs) and for the single deviations of AAAA/PTR; AAAA/PTR pairs as whole messages */
				add_item(id, 3, M_DIRECT, (qt == QT_A || dev <= 1) ? 1 : 0);
				if (dev <= 1) { add_item(id, 0, M_DIRECT, 1); add_item(id, 1, M_DIRECT, 1); add_item(id, 2, M_DIRECT, 1); add_item(id, 3, M_UDP, 1); add_item(id, 1, M_TCP, 2); add_item(id, 3, M_TCP, 0); }
				else if (qt == QT_A) add_item(id, 3, M_UDP, 0);
			} else {
				/* thorough: <=2 deviations: every prefix direct under all four configurations and over UDP, TCP cut plans + whole;
				 * <=1: every single TCP cut, pairs of TCP cuts (all pairs for the unmodified reply, a stride otherwise), every prefix over TCP;
				 * exactly 3 deviations: whole message.  (3 deviations x every prefix was tried: ~10x the cost, not kept.) */
				add_item(id, 3, M_DIRECT, dev <= 2 ? 1 : 0);
				if (dev <= 2) { add_item(id, 0, M_DIRECT, 1); add_item(id, 1, M_DIRECT, 1); add_item(id, 2, M_DIRECT, 1); add_item(id, 3, M_UDP, 1); add_item(id, 3, M_TCP, 2); add_item(id, 3, M_TCP, 0); }
				if (dev <= 1) { add_item(id, 1, M_TCP, 3); add_item(id, 3, M_TCP, 1); add_item(id, 3, M_TCP, dev == 0 ? 4 : 5); }
			}
		}
		/* mutated captures of a compressed CNAME + address + SOA reply */
		static struct dp_buf w; memset(&s, 0, sizeof s); s.kind = K_MUTANT; s.qt = (uint8_t)qt;
		build_reply(&s, &predicted[qt], &w);
		size_t L = w.n;
		for (size_t p = 0; p < L; p++) for (int v = 0; v < 8; v++) {
			s.mpos = (uint16_t)p; s.mval = (uint8_t)v;
			long id = add_spec(&s);
			if (id < 0) continue;
			add_item(id, 3, M_DIRECT, 0);
			if (thorough) { add_item(id, 1, M_DIRECT, 0); add_item(id, 3, M_UDP, 0); add_item(id, 3, M_TCP, 0); }
		}
	}
	free(dedupe); dedupe = NULL;
}

static void describe(const struct spec *s, int cfg, int mode, char *out, size_t cap)
{
	static const char *mn[3] = { "direct", "udp", "tcp" };
	if (s->kind == K_MUTANT) snprintf(out, cap, "%s %s cfg=%d mutant@%u:%u", qtn[s->qt], mn[mode], cfg, s->mpos, s->mval);
	else snprintf(out, cap, "%s %s cfg=%d h%u q%u a%u au%u c%u@%u", qtn[s->qt], mn[mode], cfg, s->h, s->q, s->a, s->au, s->c, s->cpos);
}

static void item_fn(uint64_t idx)
{
	const struct item *it = &items[idx]; const struct spec *s = &specs[it->spec];
	static struct dp_buf w; char d[128];
	const struct qinfo *pq = (it->cfg & 2) ? &predicted[s->qt] : NULL;
	uint64_t fd0 = mcx_fd_signature();
	/* the message is a function of the query, which is a function of cfg: build it from the prediction, verified per execution */
	struct qinfo q = predicted[s->qt];
	if (!(it->cfg & 2)) {      /* randomize-case off: the name goes out as given */
		static const char *names[3] = { NAME_FWD, NAME_FWD, "4.3.2.1.in-addr.arpa" };
		q.qlen = text_wire(names[s->qt], q.qname);
	}
	pq = &q;
	build_message(s, &q, &w);
	describe(s, it->cfg, it->mode, d, sizeof d);
	long item_live0 = mcx_alloc_live(); g_item_leaks = 0;
	if (env_open(it->mode) < 0) { mc_fail("harness:env", "%s: cannot create event_base/sockets: %s", d, strerror(errno)); env_close(); return; }
	vclock_reset(); memset(&g_cx, 0, sizeof g_cx); g_cx.csock = -1;
	{	/* warm-up execution (not judged): sizes the event_base's lazily allocated tables */
		static struct dp_buf v; struct spec canon; memset(&canon, 0, sizeof canon); canon.qt = s->qt; canon.a = 1;
		if (cx_base_new(&g_cx, it->cfg) == 0 && cx_request(&g_cx, s->qt, it->cfg, it->mode) == 0) { build_message(&canon, &g_cx.q, &v); cx_deliver(&g_cx, it->mode, v.b, v.n, 0, 0); }
		cx_base_free(&g_cx);
	}
	dp_alloc_trace_mark();
	if (it->plan == 0) { snprintf(g_ctx, sizeof g_ctx, "%s len=%zu", d, w.n); run_exec(s, it->cfg, it->mode, &w, w.n, 0, 0, pq); }
	else if (it->plan == 1) {
		for (size_t L = 0; L <= w.n; L++) { snprintf(g_ctx, sizeof g_ctx, "%s prefix=%zu/%zu", d, L, w.n); run_exec(s, it->cfg, it->mode, &w, L, 0, 0, pq); }
		MC_COUNT("items_all_prefixes");
	} else if (it->plan == 2) {
		size_t sl = w.n + 2; size_t cs[][2] = { {1, 0}, {2, 0}, {3, 0}, {sl / 2, 0}, {sl - 1, 0}, {1, 2}, {2, sl - 1}, {1, sl / 2}, {13, 14} };
		for (size_t i = 0; i < sizeof cs / sizeof cs[0]; i++) { snprintf(g_ctx, sizeof g_ctx, "%s cuts=%zu,%zu len=%zu", d, cs[i][0], cs[i][1], w.n); run_exec(s, it->cfg, it->mode, &w, w.n, cs[i][0], cs[i][1], pq); }
	} else if (it->plan == 3) {
		for (size_t cut = 1; cut < w.n + 2; cut++) { snprintf(g_ctx, sizeof g_ctx, "%s cut=%zu len=%zu", d, cut, w.n); run_exec(s, it->cfg, it->mode, &w, w.n, cut, 0, pq); }
	} else {	/* every pair of cuts of the length-prefixed stream */
		size_t step = it->plan == 4 ? (w.n + 2) / 120 + 1 : (w.n + 2) / 35 + 1;   /* plan 4: every pair (up to 120 octets); plan 5: a stride giving <= ~600 pairs */
		for (size_t c1 = 1; c1 < w.n + 1; c1 += step) for (size_t c2 = c1 + 1; c2 < w.n + 2; c2 += step) { snprintf(g_ctx, sizeof g_ctx, "%s cuts=%zu,%zu len=%zu", d, c1, c2, w.n); run_exec(s, it->cfg, it->mode, &w, w.n, c1, c2, pq); }
		MC_COUNT("items_all_tcp_cut_pairs");
	}
	/* outcome signature of the last execution */
	uint64_t h = mc_hash_u64(7, (uint64_t)g_log.n);
	for (int i = 0; i < g_log.n && i < 4; i++) { h = mc_hash_u64(h, (uint64_t)g_log.r[i].result * 1000003u + (uint64_t)g_log.r[i].count); h = mc_hash_u64(h, (uint64_t)(uint32_t)g_log.r[i].ttl); h = mc_hash(h, g_log.r[i].data, g_log.r[i].dlen); h = mc_hash(h, g_log.r[i].name, g_log.r[i].nlen); }
	mc_nontrivial(h);
	mc_observe("%s len=%zu -> %d callback(s)", d, w.n, g_log.n);
	for (int i = 0; i < g_log.n && i < 2; i++) mc_observe(" [result=%d type=%d count=%d ttl=%d %s]", g_log.r[i].result, g_log.r[i].type, g_log.r[i].count, g_log.r[i].ttl, g_log.r[i].name);
	cx_base_free(&g_cx);
	env_close();
	if (mcx_alloc_live() != item_live0 + g_item_leaks) mc_fail("C33/leak/item", "%s: %ld allocation(s) live after the item's event_base was freed (beyond those already reported)", d, mcx_alloc_live() - item_live0 - g_item_leaks);
	if (mcx_fd_signature() != fd0) mc_fail("C33/fdleak", "%s: fd table differs after the item", d);
}

static void init(void)
{
	if (!dp_alloc_trace_install()) mcx_alloc_install();
	event_set_log_callback(dp_quiet_log);
	/* warm-up: full cycles so that one-time library allocations are not counted as leaks */
	static struct dp_buf v; struct spec canon; memset(&canon, 0, sizeof canon); canon.a = 1;
	for (int mode = M_UDP; mode <= M_TCP; mode++) {
		memset(&g_cx, 0, sizeof g_cx); g_cx.csock = -1;
		if (env_open(mode) == 0 && cx_base_new(&g_cx, 3) == 0 && cx_request(&g_cx, QT_A, 3, mode) == 0) { build_message(&canon, &g_cx.q, &v); cx_deliver(&g_cx, mode, v.b, v.n, 0, 0); }
		cx_base_free(&g_cx); env_close();
	}
}

int main(int argc, char **argv)
{
	(void)predicted_plain;
	generate(dp_argv_param(argc, argv, "tier", "quick"));
	g_done_cap = (size_t)1 << 27;
	g_done = mmap(NULL, g_done_cap * sizeof *g_done, PROT_READ | PROT_WRITE, MAP_SHARED | MAP_ANONYMOUS | MAP_NORESERVE, -1, 0);
	if (g_done == MAP_FAILED) g_done = NULL;
	struct mc_config cfg = { .property = "C33", .n_items = n_items, .item = item_fn, .init = init };
	return mc_main(argc, argv, &cfg);
}
