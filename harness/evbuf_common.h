/* Shared pieces of the evbuf harness family (C12..C16): payload generator,
 * chain validator, canonical state hash, read-only reference pages.
 * Included by harness/evbuf.c and harness/evbuf_io.c. */
#ifndef EVBUF_COMMON_H
#define EVBUF_COMMON_H
#include "mcx.h"
#include "bytestr.h"
#include <stdio.h>
#include <stdlib.h>
#include <string.h>
#include <stdarg.h>
#include <errno.h>
#include <unistd.h>
#include <limits.h>
#include <sys/mman.h>
#include <sys/uio.h>
#include <event2/event.h>
#include <event2/buffer.h>
#include <event2/buffer_compat.h>
#include "evbuffer-internal.h"
#include "mm-internal.h"

#define CAP ((size_t)(MIN_BUFFER_SIZE - EVBUFFER_CHAIN_SIZE))   /* payload of the smallest chain */

static const char *PFX = "C12";          /* property prefix of every failure key */
static const char *ORACLE_OVERRIDE;      /* set while validating the outcome of a faulted call (C14) */

static void failk(const char *oracle, const char *op, const char *fmt, ...) __attribute__((format(printf,3,4)));
static void failk(const char *oracle, const char *op, const char *fmt, ...)
{
	char key[160], msg[1000]; va_list ap;
	snprintf(key, sizeof key, "%s/%s/%s", PFX, ORACLE_OVERRIDE ? ORACLE_OVERRIDE : oracle, op);
	va_start(ap, fmt); vsnprintf(msg, sizeof msg, fmt, ap); va_end(ap);
	mc_fail(key, "%s", msg);
}

/* ---- payloads: 3 letters + CR/LF/NUL markers --------------------------------
 * A payload of length n is a fixed function of (kind, n): letters from a
 * non-periodic 3-letter pattern, the last two bytes "\r\n" (n == 1: "\n"), a
 * NUL in the middle (n >= 5) and a lone '\r' at n/3 (n >= 9).  Adding sizes
 * cap-1 / cap / cap+1 / 2 / 1 therefore puts CR|LF, CRLF|, C|RLF and runs of
 * CR LF across chain boundaries. */
#define PAY_MAX 16384
static unsigned char PAYBASE[4][PAY_MAX];
static void payload_init(void)
{
	static const char *letters[4] = { "abc", "bca", "cab", "rst" };
	for (int k = 0; k < 4; k++)
		for (size_t i = 0; i < PAY_MAX; i++) PAYBASE[k][i] = letters[k][(i + i / 3 + i / 17) % 3];
}
static void gen_payload(unsigned char *p, size_t n, int kind)
{
	memcpy(p, PAYBASE[kind & 3], n);
	if (n >= 9) p[n / 3] = '\r';
	if (n >= 5) p[n / 2] = 0;
	if (n == 1) p[0] = '\n';
	if (n >= 2) { p[n - 2] = '\r'; p[n - 1] = '\n'; }
}

/* ---- read-only reference pages -------------------------------------------- */
#define REF_PAGES 4
#define REF_BYTES (REF_PAGES * 4096)
static unsigned char *REFMEM;             /* PROT_READ after init */
static void refmem_init(void)
{
	REFMEM = mmap(NULL, REF_BYTES, PROT_READ | PROT_WRITE, MAP_PRIVATE | MAP_ANONYMOUS, -1, 0);
	if (REFMEM == MAP_FAILED) { perror("mmap"); exit(2); }
	payload_init();
	gen_payload(REFMEM, REF_BYTES, 3);
	/* make shorter references end in CRLF too */
	REFMEM[0] = 'r'; REFMEM[1] = '\n';
	if (mprotect(REFMEM, REF_BYTES, PROT_READ)) { perror("mprotect"); exit(2); }
}

/* ---- chain validator --------------------------------------------------------
 * Checks the bookkeeping rules of evbuffer-internal.h and (if m != NULL) that
 * the concatenated chain windows are exactly the model's bytes.  SENDFILE
 * chains have no memory; their bytes are compared through `filebytes`
 * (contents of the file at chain->misalign) when given. */
#define CHAIN_PINNED_ANY_(c) (((c)->flags & EVBUFFER_MEM_PINNED_ANY) != 0)
static const unsigned char *vfile_bytes; static size_t vfile_len;

static int validate_buf(struct evbuffer *eb, const struct bytestr *m, const char *op, const char *which)
{
	struct evbuffer_chain *c, *prev = NULL, *last_data = NULL;
	struct evbuffer_chain **lwd_expect = &eb->first;
	size_t sum = 0, pos = 0; int n = 0, seen_empty = 0, lwd_found = 0;
	MC_COUNT("validator_runs");
	if (eb->last_with_datap == &eb->first) lwd_found = 1;
	for (c = eb->first; c; prev = c, c = c->next, n++) {
		if (n > 64) { failk("chains/loop", op, "%s: more than 64 chains", which); return -1; }
		if (&c->next == eb->last_with_datap) lwd_found = 1;
		if (c->refcnt < 1) { failk("chains/refcnt", op, "%s: chain %d refcnt %d", which, n, c->refcnt); return -1; }
		if (c->misalign < 0 || (size_t)c->misalign + c->off > c->buffer_len || (size_t)c->misalign > c->buffer_len) {
			failk("chains/window", op, "%s: chain %d misalign %lld + off %zu > buffer_len %zu", which, n,
			    (long long)c->misalign, c->off, c->buffer_len);
			return -1;
		}
		if (c->flags & EVBUFFER_DANGLING) { failk("chains/dangling", op, "%s: chain %d dangling in list", which, n); return -1; }
		if (c->off) {
			/* DESIGN listed "no data after an empty non-pinned chain" as a rule, but the code
			 * does not keep it (PREPEND_CHAIN links src's trailing empty chains in front of
			 * dst's data) and every reader skips empty chains; the binding rule is the
			 * last_with_datap one below.  Interior empties are only counted. */
			if (seen_empty) { MC_COUNT("validator_interior_empty_chain_seen"); seen_empty = 0; }
			last_data = c;
			lwd_expect = prev ? &prev->next : &eb->first;
			if (m) {
				if (pos + c->off > m->len) { failk("content", op, "%s: chains hold more than the model's %zu bytes", which, m->len); return -1; }
				const unsigned char *src = NULL;
				if (c->flags & EVBUFFER_SENDFILE) {
					if (vfile_bytes && (size_t)c->misalign + c->off <= vfile_len) src = vfile_bytes + c->misalign;
				} else src = c->buffer + c->misalign;
				if (src && memcmp(src, m->d + pos, c->off)) {
					size_t i = 0; while (src[i] == m->d[pos + i]) i++;
					failk("content", op, "%s: byte %zu is 0x%02x, model 0x%02x (chain %d, len %zu)", which, pos + i,
					    src[i], m->d[pos + i], n, m->len);
					return -1;
				}
			}
			pos += c->off;
		} else if (!CHAIN_PINNED_ANY_(c)) seen_empty = 1;
		sum += c->off;
	}
	(void)last_data;
	if (sum != eb->total_len) { failk("chains/total_len", op, "%s: sum off %zu != total_len %zu", which, sum, eb->total_len); return -1; }
	if (eb->last != prev) { failk("chains/last", op, "%s: last is not the final chain", which); return -1; }
	if (!lwd_found) { failk("chains/lwd-dangling", op, "%s: last_with_datap points outside the list", which); return -1; }
	if (eb->last_with_datap != lwd_expect) {
		failk("chains/last_with_datap", op, "%s: last_with_datap is not the last chain with data (%d chains, len %zu)", which, n, sum);
		return -1;
	}
	if (m) {
		if (sum != m->len) { failk("length", op, "%s: length %zu, model %zu", which, sum, m->len); return -1; }
		if (evbuffer_get_length(eb) != m->len) { failk("length", op, "%s: get_length %zu, model %zu", which, evbuffer_get_length(eb), m->len); return -1; }
		if ((int)eb->freeze_start != m->fz_start || (int)eb->freeze_end != m->fz_end) {
			failk("freeze", op, "%s: freeze bits %d%d model %d%d", which, eb->freeze_start, eb->freeze_end, m->fz_start, m->fz_end);
			return -1;
		}
	}
	return 0;
}

/* ---- canonical state of one buffer ------------------------------------------
 * Completeness argument.  Every evbuffer operation in the alphabets reads, of
 * struct evbuffer: first/last/last_with_datap (as list structure, never as
 * numbers), total_len, freeze bits, flags, n_add_for_cb/n_del_for_cb, the
 * callback list and deferred_cbs; of each chain: next (structure), buffer_len,
 * misalign, off, flags, refcnt and the bytes inside the window
 * [misalign, misalign+off).  Bytes outside the window are never read (realign
 * and expand copy only the window; reserve_space exposes them write-only).
 * The canonical form holds all of these: the window bytes are exactly the
 * model's bytes (checked by validate_buf after every operation), so the model
 * content hash + the per-chain (buffer_len, misalign, off, flags, refcnt)
 * tuples determine every chain's observable content; the index of
 * last_with_datap determines that pointer; pointer *values* only take part in
 * equality tests between fields of the same buffer (commit_space compares
 * against CHAIN_SPACE_PTR computed from the same fields), which the structure
 * determines.  Allocator results do not depend on history (no faults outside
 * the choice made in the same step).  Hence two executions with equal
 * canonical states have the same continuations. */
static uint64_t canon_buf(uint64_t h, struct evbuffer *eb, const struct bytestr *m)
{
	struct evbuffer_chain *c; int i = 0, lwd = -1;
	h = mc_hash_u64(h, bs_hash(m));
	if (eb->last_with_datap == &eb->first) lwd = 0;
	for (c = eb->first; c; c = c->next, i++) {
		h = mc_hash_u64(h, c->buffer_len);
		h = mc_hash_u64(h, (uint64_t)c->misalign);
		h = mc_hash_u64(h, c->off);
		h = mc_hash_u64(h, ((uint64_t)c->flags << 32) | (uint32_t)c->refcnt);
		if (&c->next == eb->last_with_datap) lwd = i + 1;
	}
	h = mc_hash_u64(h, ((uint64_t)i << 32) | (uint32_t)lwd);
	h = mc_hash_u64(h, eb->n_add_for_cb * 0x10001 + eb->n_del_for_cb);
	h = mc_hash_u64(h, eb->flags * 16 + eb->deferred_cbs * 4 + eb->freeze_start * 2 + eb->freeze_end);
	h = mc_hash_u64(h, (uint64_t)eb->refcnt);
	return h;
}

static void describe_buf(struct evbuffer *eb, char *out, size_t n)
{
	struct evbuffer_chain *c; size_t o = 0; int i = 0;
	out[0] = 0;
	for (c = eb->first; c && o + 40 < n; c = c->next, i++)
		o += snprintf(out + o, n - o, "[%zu:%lld+%zu%s%s]", c->buffer_len, (long long)c->misalign, c->off,
		    (c->flags & EVBUFFER_IMMUTABLE) ? "i" : "", &c->next == eb->last_with_datap ? "<" : "");
}

/* a small quarantine keeps the working set (and page-fault time) small; an
 * execution makes a few dozen allocations, so freed chunks still stay poisoned
 * for hundreds of executions */
const char *__asan_default_options(void) { return "quarantine_size_mb=4:thread_local_quarantine_size_kb=256"; }

/* warnings (expected "out of memory" notes) are dropped; fatal messages (failed EVUTIL_ASSERT) must reach stderr */
static void quiet_log(int sev, const char *msg) { if (sev == EVENT_LOG_ERR) { fprintf(stderr, "[err] %s\n", msg); fflush(stderr); } }

#endif
