/* C08 — every public libevent call returns with all internal locks released.
 *
 * Tree mode.  choice 1 = scenario (a short straight-line use of a group of
 * public API calls, see c08_scen_*.inc), choice 2 (cost 1) = first injected
 * fault, choice 3 (cost 1) = second injected fault (only explored with
 * --bound 2).  A fault is: "the n-th allocation made by libevent after the
 * scenario's ARM() point fails" for every n up to the number of allocations the
 * fault-free run makes, or "the k-th call of system call s after ARM() fails
 * with errno e" for every wrapped s, every k up to the number of calls the
 * fault-free run makes, and e in {EPERM, EBADF, ENOMEM, EAGAIN}; -P margin=N adds
 * N positions per system call and 2N per allocator beyond the fault-free path.
 * The per-scenario counts come from a fault-free warm-up run in cfg.init.
 *
 * Oracle (env/locks.c): harness locks installed through
 * evthread_set_lock_callbacks; after EVERY api call made through the CI/CP/CV
 * brackets the number of held locks must equal the number held when the call
 * was entered (0 at top level; calls made from inside libevent callbacks are
 * checked relative to their entry); unlock-not-held / relock of a
 * non-recursive lock / free of a held lock are reported at once.
 */
#ifndef _GNU_SOURCE
#define _GNU_SOURCE
#endif
#include "mcx.h"
#include "locks.h"
#include "sysfault.h"
#include "vclock.h"

#include <event2/event.h>
#include <event2/event_struct.h>
#include <event2/thread.h>
#include <event2/buffer.h>
#include <event2/bufferevent.h>
#include <event2/listener.h>
#include <event2/dns.h>
#include <event2/dns_struct.h>
#include <event2/http.h>
#include <event2/watch.h>
#include <event2/util.h>

#include <stdio.h>
#include <stdlib.h>
#include <string.h>
#include <errno.h>
#include <unistd.h>
#include <fcntl.h>
#include <signal.h>
#include <dirent.h>
#include <setjmp.h>
#include <ucontext.h>
#include <stdint.h>
#include <sys/syscall.h>
#include <time.h>
#include <sys/socket.h>
#include <sys/mman.h>
#include <sys/stat.h>
#include <sys/uio.h>
#include <netinet/in.h>
#include <arpa/inet.h>

/* ------------------------------------------------------------------ */
/* API-call brackets                                                   */

static int quiet;              /* warm-up: no observations */
static int n_api_names;
static const char *api_names[512];
static long calls_checked;

static void note_api(const char *name)
{
	for (int i = 0; i < n_api_names; i++)
		if (api_names[i] == name || !strcmp(api_names[i], name)) return;
	if (n_api_names < 512) api_names[n_api_names++] = name;
}

static void lf_enter(const char *name)
{
	if (quiet) note_api(name);
	if (!quiet && locks_api_depth() == 0 && locks_held_total() != 0) {
		/* can only come from an unbracketed fixture call */
		char key[160], d[400];
		locks_describe_held(d, sizeof d);
		snprintf(key, sizeof key, "C08/lock-held-between-calls/before-%s", name);
		mc_fail(key, "%d lock(s) held at top level before %s: %s", locks_held_total(), name, d);
		locks_release_all();
	}
	locks_enter(name);
	sf_window(1);
}
static void lf_leave(const char *name, const char *fmt, long v)
{
	sf_window(0);
	int bad = locks_leave();
	calls_checked++;
	if (!quiet) {
		if (fmt) mc_observe(fmt, name, v); else mc_observe("%s ", name);
		if (bad) mc_observe("!LEAK ");
	}
}
/* int-like result */
#define CI(name, ...) ({ lf_enter(#name); long r_ = (long)name(__VA_ARGS__); lf_leave(#name, "%s=%ld ", r_); r_; })
/* pointer result */
#define CP(name, ...) ({ lf_enter(#name); __typeof__(name(__VA_ARGS__)) r_ = name(__VA_ARGS__); lf_leave(#name, r_ ? "%s=ok " : "%s=NULL ", 0); r_; })
/* the explicit lock APIs are outside the property; they are exercised as a balanced pair in one bracket */
#define CPAIR(label, lock_stmt, unlock_stmt) do { lf_enter(label); lock_stmt; unlock_stmt; lf_leave(label, NULL, 0); } while (0)
/* void */
#define CV(name, ...) do { lf_enter(#name); name(__VA_ARGS__); lf_leave(#name, NULL, 0); } while (0)

/* ------------------------------------------------------------------ */
/* fault plan                                                          */

struct fault { int kind; int which; long k; int err; };   /* kind 0 none, 1 alloc, 2 syscall */
static struct fault plan[2]; static int n_plan;
static const int errnos[4] = { EPERM, EBADF, ENOMEM, EAGAIN };
static const char *const errno_names[4] = { "EPERM", "EBADF", "ENOMEM", "EAGAIN" };
static int alloc_margin, sys_margin;   /* -P margin=N: extra positions beyond what the fault-free run reaches (a first fault can lengthen the path) */

static int armed_once;
static void ARM(void)
{
	sf_reset();
	armed_once = 1;
	for (int i = 0; i < n_plan; i++) {
		if (plan[i].kind == 1) sf_arm_alloc(plan[i].k);
		else if (plan[i].kind == 2) sf_arm_sys(plan[i].which, plan[i].k, errnos[plan[i].err]);
	}
}

/* A fixture the scenario needs from the (shared) machine could not be had - typically no loopback port
 * left.  Nothing to explore: the execution ends, counted, never a failure. */
static sigjmp_buf end_jmp; static volatile int end_armed;
static void fixture_unavailable(const char *what)
{
	(void)what;
	if (!armed_once) ARM();
	if (end_armed) siglongjmp(end_jmp, 4);
	fprintf(stderr, "c08: fixture unavailable outside an execution: %s\n", what); abort();
}
#define NEED(cond) do { if (!(cond)) fixture_unavailable(#cond); } while (0)

/* ------------------------------------------------------------------ */
/* shared fixtures                                                     */

static struct event_base *B;        /* base the idle hook breaks */
static int fd_data = -1, fd_hosts = -1, fd_resolv = -1;   /* memfds made in init */
static char path_hosts[64], path_resolv[64];
static unsigned char fd_baseline[4096];

static void idle(void) { if (B) event_base_loopbreak(B); }
static char last_err[300];
static void dnslogcb(int w, const char *m) { (void)w; (void)m; }
static void logcb(int sev, const char *m)
{
	/* warnings are expected by the hundred (injected faults); errors precede abort()/exit() and name the assertion */
	if (sev == EVENT_LOG_ERR) {
		snprintf(last_err, sizeof last_err, "%s", m);
		if (mc_replaying()) { fprintf(stderr, "[libevent err] %s\n", m); fflush(stderr); }
	}
}
/* Ways an execution can end early, all funnelled through one sigjmp_buf in run_scenario:
 *  1 libevent's deliberate fatal exit (event_err(1, "calloc") in event_base_priority_init, evmap, ...):
 *    the process is gone by design, no lock question remains -> plain end of execution;
 *  2 a failed EVUTIL_ASSERT (event_errx(EVENT_ERR_ABORT_)) -> mc_fail crash:assert:<func>:<cond>;
 *  3 SIGSEGV inside libevent (typically a NULL dereference after an injected ENOMEM)
 *    -> mc_fail crash:SIGSEGV:<function containing the faulting pc>.
 * 2 and 3 are robustness defects outside C08; they are reported under their own keys and the
 * exploration goes on (a dying worker would cost a re-init and the explorer stops after 40 deaths).
 * Errors found by AddressSanitizer itself (use-after-free, overflow) still kill the worker. */
static int fatal_code;
#define EVENT_ERR_ABORT_CODE ((int)0xdeaddead)
static void fatalcb(int err)
{
	if (!end_armed) return;
	if (err == EVENT_ERR_ABORT_CODE) {
		/* "file:line: Assertion COND failed in FUNC" */
		char key[200], cond[120] = "?", func[80] = "?";
		const char *a = strstr(last_err, "Assertion "), *f = strstr(last_err, " failed in ");
		if (a && f && f > a) {
			size_t n = (size_t)(f - (a + 10)); if (n >= sizeof cond) n = sizeof cond - 1;
			memcpy(cond, a + 10, n); cond[n] = 0;
			snprintf(func, sizeof func, "%s", f + 11);
			for (char *c = cond, *o = cond; ; c++) { if (*c != ' ') *o++ = *c; if (!*c) break; }
		}
		snprintf(key, sizeof key, "crash:assert:%s:%s", func, cond);
		mc_fail(key, "%s (during %s)", last_err, locks_current_api());
		siglongjmp(end_jmp, 2);
	}
	fatal_code = err;
	siglongjmp(end_jmp, 1);
}
extern void __sanitizer_symbolize_pc(void *pc, const char *fmt, char *out_buf, size_t out_buf_size);
int __real_sigaction(int, const struct sigaction *, struct sigaction *);
static struct sigaction old_segv;
static void segv_handler(int sig, siginfo_t *si, void *ucv)
{
	ucontext_t *uc = ucv;
	if (!end_armed) {
		/* not ours: hand over to the previous handler (AddressSanitizer's report) */
		if (old_segv.sa_flags & SA_SIGINFO) old_segv.sa_sigaction(sig, si, ucv);
		else { signal(SIGSEGV, SIG_DFL); }
		return;
	}
	char fn[128] = "?", key[200];
	/* Name the innermost frame that belongs to this binary (libevent or harness), not libc's
	 * memmove/strcasecmp variant: candidates are the faulting pc, the return address on top of the
	 * stack (leaf routines fault before pushing anything) and the frame-pointer chain. */
	void *cand[6]; int n_cand = 0;
	uintptr_t rsp = (uintptr_t)uc->uc_mcontext.gregs[REG_RSP], rbp = (uintptr_t)uc->uc_mcontext.gregs[REG_RBP];
	cand[n_cand++] = (void *)uc->uc_mcontext.gregs[REG_RIP];
	cand[n_cand++] = (void *)((uintptr_t)*(void **)rsp - 1);
	for (int d = 0; d < 4 && rbp > rsp && rbp < rsp + (1u << 20) && (rbp & 7) == 0; d++) {
		cand[n_cand++] = (void *)((uintptr_t)((void **)rbp)[1] - 1);
		uintptr_t next = (uintptr_t)((void **)rbp)[0];
		if (next <= rbp) break;
		rbp = next;
	}
	/* symbolizing is slow (external symbolizer): remember the few pcs seen */
	static struct { void *pc; char fn[128]; } cache[32]; static int n_cache; int ci;
	void *pc = cand[0];
	for (ci = 0; ci < n_cache; ci++) if (cache[ci].pc == pc) break;
	if (ci < n_cache) snprintf(fn, sizeof fn, "%s", cache[ci].fn);
	else {
		static char self[256]; char mod[300];
		if (!self[0]) { ssize_t l = readlink("/proc/self/exe", self, sizeof self - 1); if (l < 0) l = 0; self[l] = 0; }
		for (int i = 0; i < n_cand; i++) {
			mod[0] = 0;
			__sanitizer_symbolize_pc(cand[i], "%m", mod, sizeof mod);
			if (i == n_cand - 1 || !strcmp(mod, self)) {
				__sanitizer_symbolize_pc(cand[i], "%f", fn, sizeof fn);
				if (mc_replaying()) { char loc[300]; __sanitizer_symbolize_pc(cand[i], "%f at %s:%l", loc, sizeof loc); fprintf(stderr, "[crash site] %s\n", loc); }
				if (!strcmp(mod, self)) break;
			}
		}
		if (n_cache < 32) { cache[n_cache].pc = pc; snprintf(cache[n_cache].fn, sizeof cache[n_cache].fn, "%s", fn); n_cache++; }
	}
	snprintf(key, sizeof key, "crash:SIGSEGV:%s", fn);
	mc_fail(key, "SIGSEGV at address %p in %s during %s", si->si_addr, fn, locks_current_api());
	siglongjmp(end_jmp, 3);
}
static int mk_memfd(const char *name, const char *content, size_t n)
{
	int fd = memfd_create(name, 0);
	if (fd < 0) { perror("memfd_create"); abort(); }
	if (write(fd, content, n) != (ssize_t)n) abort();
	lseek(fd, 0, SEEK_SET);
	return fd;
}

static void close_leaked_fds(void)
{
	DIR *d = opendir("/proc/self/fd"); struct dirent *e; int self;
	int tmp[512], n = 0;
	if (!d) return;
	self = dirfd(d);
	while ((e = readdir(d))) {
		if (e->d_name[0] == '.') continue;
		int fd = atoi(e->d_name);
		if (fd == self || fd < 0) continue;
		if (fd < 4096 && fd_baseline[fd]) continue;
		if (n < 512) tmp[n++] = fd;
	}
	closedir(d);
	for (int i = 0; i < n; i++) close(tmp[i]);
}
static void snapshot_fds(void)
{
	DIR *d = opendir("/proc/self/fd"); struct dirent *e; int self;
	memset(fd_baseline, 0, sizeof fd_baseline);
	if (!d) abort();
	self = dirfd(d);
	while ((e = readdir(d))) {
		if (e->d_name[0] == '.') continue;
		int fd = atoi(e->d_name);
		if (fd != self && fd >= 0 && fd < 4096) fd_baseline[fd] = 1;
	}
	closedir(d);
}

/* base made outside the brackets (not under test, never faulted) */
static struct event_base *mkbase(int method /*0 epoll 1 poll 2 select*/, int flags, int nprio)
{
	struct event_config *cfg = event_config_new();
	struct event_base *b;
	if (method != 0) event_config_avoid_method(cfg, "epoll");
	if (method == 2) event_config_avoid_method(cfg, "poll");
	if (method == 1) event_config_avoid_method(cfg, "select");
	if (flags) event_config_set_flag(cfg, flags);
	b = event_base_new_with_config(cfg);
	event_config_free(cfg);
	if (!b) { fprintf(stderr, "c08: cannot make base\n"); abort(); }
	if (nprio > 1) event_base_priority_init(b, nprio);
	evthread_make_base_notifiable(b);
	B = b;
	return b;
}
static void spin(struct event_base *b, int n)
{
	for (int i = 0; i < n; i++) CI(event_base_loop, b, EVLOOP_NONBLOCK);
}
static int mk_socketpair(int sv[2])
{
	if (socketpair(AF_UNIX, SOCK_STREAM, 0, sv) < 0) fixture_unavailable("socketpair");
	evutil_make_socket_nonblocking(sv[0]); evutil_make_socket_nonblocking(sv[1]);
	return 0;
}
/* a loopback TCP port that refuses connections: bound, never listening, and kept open until the
 * end-of-execution hygiene closes it, so that no other process on this (shared) machine can take it */
static int closed_port(int type)
{
	struct sockaddr_in sin; socklen_t l = sizeof sin;
	int s = socket(AF_INET, type, 0), one = 1;
	memset(&sin, 0, sizeof sin); sin.sin_family = AF_INET; sin.sin_addr.s_addr = htonl(0x7f000001);
	/* SO_REUSEADDR: ports that only carry TIME_WAIT remnants of earlier executions stay usable (a long
	 * run makes tens of thousands of loopback connections per minute) */
	if (s >= 0) setsockopt(s, SOL_SOCKET, SO_REUSEADDR, &one, sizeof one);
	if (s < 0 || bind(s, (struct sockaddr *)&sin, sizeof sin) < 0 || getsockname(s, (struct sockaddr *)&sin, &l) < 0) {
		if (s >= 0) close(s);
		return 1;       /* tcpmux: nothing listens there; only the outcome "refused" matters */
	}
	return ntohs(sin.sin_port);
}
/* a bound loopback UDP socket (nobody reads it unless the scenario does) */
static int udp_bound(struct sockaddr_in *out)
{
	struct sockaddr_in sin; socklen_t l = sizeof sin;
	int s = socket(AF_INET, SOCK_DGRAM, 0);
	memset(&sin, 0, sizeof sin); sin.sin_family = AF_INET; sin.sin_addr.s_addr = htonl(0x7f000001);
	if (s < 0 || bind(s, (struct sockaddr *)&sin, sizeof sin) < 0 || getsockname(s, (struct sockaddr *)&sin, &l) < 0) fixture_unavailable("udp_bound");
	evutil_make_socket_nonblocking(s);
	if (out) *out = sin;
	return s;
}
static struct sockaddr_in loop_addr(int port)
{
	struct sockaddr_in sin;
	memset(&sin, 0, sizeof sin); sin.sin_family = AF_INET; sin.sin_addr.s_addr = htonl(0x7f000001); sin.sin_port = htons(port);
	return sin;
}

/* ------------------------------------------------------------------ */
/* scenarios                                                           */

#include "c08_scen_event.inc"
#include "c08_scen_buffer.inc"
#include "c08_scen_bev.inc"
#include "c08_scen_net.inc"

struct scenario { const char *name; void (*fn)(int); int arg; };
static const struct scenario scen[] = {
	SCEN_EVENT
	SCEN_BUFFER
	SCEN_BEV
	SCEN_NET
};
#define NSCEN ((int)(sizeof scen / sizeof scen[0]))

struct scount { long allocs; long sys[SF_N]; int K; int unstable; };
static struct scount sc[256];

static int run_scenario(int s)
{
	locks_begin_execution();
	sf_reset();
	vclock_reset(); vclock_idle_hook = idle;
	B = NULL; armed_once = 0;
	fatal_code = 0;
	int how = sigsetjmp(end_jmp, 1);
	if (how == 0) { end_armed = 1; scen[s].fn(scen[s].arg); }
	end_armed = 0;
	if (how == 4) { if (!quiet) { mc_observe("*fixture-unavailable* "); MC_COUNT("fixture_unavailable"); } }
	else if (how && !quiet) {
		if (how == 1) { mc_observe("*libevent-fatal-exit(%d)* ", fatal_code); MC_COUNT("runs_ended_by_libevent_fatal_exit"); }
		else { mc_observe("*crash(%s)* ", how == 2 ? "assert" : "SIGSEGV"); MC_COUNT("runs_ended_by_crash_inside_libevent"); }
	}
	if (how && how != 4 && quiet) { fprintf(stderr, "c08: scenario %s ends abnormally (%d) without any fault: %s\n", scen[s].name, how, last_err); abort(); }
	B = NULL;
	/* hygiene: anything a failed path leaked must not influence the next execution */
	close_leaked_fds();
	signal(SIGUSR1, SIG_DFL); signal(SIGUSR2, SIG_DFL);
	return how;
}

static int decode_fault(const struct scount *c, int idx, struct fault *f)
{
	memset(f, 0, sizeof *f);
	if (idx == 0) return 0;
	idx--;
	long na = c->allocs + alloc_margin;
	if (idx < na) { f->kind = 1; f->k = idx + 1; return 1; }
	idx -= na;
	for (int s = 0; s < SF_N; s++) {
		long n = (c->sys[s] + sys_margin) * 4;
		if (idx < n) { f->kind = 2; f->which = s; f->k = idx / 4 + 1; f->err = idx % 4; return 1; }
		idx -= n;
	}
	return 0;
}
/* a position the fault-free run never reaches (margin): it can only fire when another fault changed
 * the path, so a pair of two such positions is the same execution as no fault at all */
static int fault_in_margin(const struct scount *c, int idx)
{
	struct fault f;
	if (!decode_fault(c, idx, &f)) return 0;
	if (f.kind == 1) return f.k > c->allocs;
	return f.k > c->sys[f.which];
}
static void describe_fault(const struct fault *f, char *buf, size_t n)
{
	if (f->kind == 1) snprintf(buf, n, "alloc#%ld", f->k);
	else if (f->kind == 2) snprintf(buf, n, "%s#%ld:%s", sf_names[f->which], f->k, errno_names[f->err]);
	else snprintf(buf, n, "none");
}

static void body(void)
{
	int only = mc_param("scen", -1);
	int s = mc_choose(NSCEN, 0, "scenario");
	if (only >= 0 && s != only) return;
	const struct scount *c = &sc[s];
	if (c->unstable) { mc_fail("harness:unstable-counts", "scenario %s: fault-free runs differ in allocation/system-call counts", scen[s].name); return; }
	int f1 = mc_choose(c->K, 1, "fault1"), f2 = 0;
	if (f1) f2 = mc_choose(c->K, 1, "fault2");
	if (f2 && f2 <= f1) { MC_COUNT("skipped_unordered_fault_pairs"); return; }   /* {f1,f2} is a set: explored as f1<f2 */
	if (f2 && fault_in_margin(c, f1) && fault_in_margin(c, f2)) { MC_COUNT("skipped_pairs_both_beyond_fault_free_path"); return; }
	n_plan = 0;
	if (decode_fault(c, f1, &plan[n_plan])) n_plan++;
	if (decode_fault(c, f2, &plan[n_plan])) n_plan++;
	char d1[64], d2[64];
	describe_fault(&plan[0], d1, sizeof d1);
	if (n_plan > 1) describe_fault(&plan[1], d2, sizeof d2); else d2[0] = 0;
	mc_observe("%s fault=%s%s%s: ", scen[s].name, n_plan ? d1 : "none", d2[0] ? "+" : "", d2);
	calls_checked = 0;
	run_scenario(s);
	mc_observe("| fired=%d ", sf_fired());
	MC_COUNT("executions");
	MC_COUNTN("api_calls_balance_checked", calls_checked);
	MC_COUNTN("lock_acquisitions_monitored", locks_ops());
	if (n_plan == 0) MC_COUNT("runs_without_fault");
	else if (sf_fired() >= n_plan) MC_COUNT("runs_all_faults_fired");
	else if (sf_fired() > 0) MC_COUNT("runs_some_faults_fired");
	else MC_COUNT("runs_fault_position_not_reached");
	if (plan[0].kind == 1 && sf_fired()) MC_COUNT("alloc_faults_fired");
	if (plan[0].kind == 2 && sf_fired()) MC_COUNT("syscall_faults_fired");
	if (!armed_once) mc_fail("harness:scenario-without-ARM", "%s", scen[s].name);
	n_plan = 0;
}

static double real_now(void) { struct timespec ts; syscall(SYS_clock_gettime, CLOCK_MONOTONIC, &ts); return ts.tv_sec + ts.tv_nsec * 1e-9; }
static void init(void)
{
	static const char hosts[] = "127.0.0.1 hosta.test\n::1 hosta.test\n10.9.8.7 hostb.test\n::2 hostc.test\n";
	static const char resolv[] = "nameserver 127.0.0.1\nsearch example.test\noptions ndots:2 timeout:1 attempts:2\n";
	static char data[8192];
	sf_alloc_install();
	event_set_log_callback(logcb);
	event_set_fatal_callback(fatalcb);
	{ struct sigaction sa; memset(&sa, 0, sizeof sa); sa.sa_sigaction = segv_handler; sa.sa_flags = SA_SIGINFO | SA_NODEFER; sigemptyset(&sa.sa_mask); __real_sigaction(SIGSEGV, &sa, &old_segv); }
	signal(SIGPIPE, SIG_IGN);
	evdns_set_log_fn(dnslogcb);
	locks_install("C08", mc_param("lockdebug", 0));
	memset(data, 'x', sizeof data);
	for (int i = 63; i < (int)sizeof data; i += 64) data[i] = '\n';
	fd_data = mk_memfd("lf-data", data, sizeof data);
	fd_hosts = mk_memfd("lf-hosts", hosts, sizeof hosts - 1);
	fd_resolv = mk_memfd("lf-resolv", resolv, sizeof resolv - 1);
	snprintf(path_hosts, sizeof path_hosts, "/proc/self/fd/%d", fd_hosts);
	snprintf(path_resolv, sizeof path_resolv, "/proc/self/fd/%d", fd_resolv);
	snapshot_fds();
	if (NSCEN > 256) abort();
	sys_margin = mc_param("margin", 0); alloc_margin = 2 * sys_margin;
	/* warm-up: run every scenario fault-free three times; one-time
	 * initialisations happen in run 1, counts are taken from run 2 and
	 * must be identical in run 3 */
	quiet = 1; locks_set_quiet(1); n_plan = 0;
	for (int s = 0; s < NSCEN; s++) {
		struct scount a, b; double t_start = real_now();
		for (int r = 0; r < 3; r++) {
			struct scount *t = r == 1 ? &a : &b;
			int tries = 0;
			while (run_scenario(s) == 4) {      /* counts of a run without its fixture would be wrong */
				struct timespec ts = { 0, 200000000 };
				if (++tries > 100) { fprintf(stderr, "c08: scenario %s: fixture unavailable during warm-up\n", scen[s].name); abort(); }
				syscall(SYS_nanosleep, &ts, NULL);
			}
			t->allocs = sf_alloc_count();
			for (int i = 0; i < SF_N; i++) t->sys[i] = sf_sys_count(i);
		}
		sc[s] = a;
		sc[s].unstable = a.allocs != b.allocs || memcmp(a.sys, b.sys, sizeof a.sys) != 0;
		int K = 1 + (int)a.allocs + alloc_margin;
		for (int i = 0; i < SF_N; i++) K += (int)(a.sys[i] + sys_margin) * 4;
		sc[s].K = K;
		if (mc_param("list", 0)) {
			fprintf(stderr, "scenario %3d %-28s allocs=%ld K=%d %.2f ms/run%s\n", s, scen[s].name, a.allocs, K, (real_now() - t_start) * 1000 / 3, sc[s].unstable ? " UNSTABLE" : "");
		}
	}
	quiet = 0; locks_set_quiet(0);
	if (mc_param("list", 0)) {
		fprintf(stderr, "%d distinct API functions bracketed:", n_api_names);
		for (int i = 0; i < n_api_names; i++) fprintf(stderr, " %s", api_names[i]);
		fprintf(stderr, "\n");
	}
	if (mc_param("bench", -1) >= 0) {
		int bs = mc_param("bench", 0); struct timespec c0, c1; quiet = 1; locks_set_quiet(1);
		clock_t k0 = clock();
		syscall(SYS_clock_gettime, CLOCK_PROCESS_CPUTIME_ID, &c0);
		for (int i = 0; i < 200; i++) run_scenario(bs);
		syscall(SYS_clock_gettime, CLOCK_PROCESS_CPUTIME_ID, &c1); (void)k0;
		fprintf(stderr, "bench %s: %.3f ms cpu/run\n", scen[bs].name, ((c1.tv_sec - c0.tv_sec) + (c1.tv_nsec - c0.tv_nsec) * 1e-9) * 1000 / 200);
		syscall(SYS_clock_gettime, CLOCK_PROCESS_CPUTIME_ID, &c0);
		for (int i = 0; i < 200; i++) { locks_begin_execution(); sf_reset(); }
		syscall(SYS_clock_gettime, CLOCK_PROCESS_CPUTIME_ID, &c1);
		fprintf(stderr, "bench locks_begin: %.3f ms cpu/run\n", ((c1.tv_sec - c0.tv_sec) + (c1.tv_nsec - c0.tv_nsec) * 1e-9) * 1000 / 200);
		syscall(SYS_clock_gettime, CLOCK_PROCESS_CPUTIME_ID, &c0);
		for (int i = 0; i < 200; i++) close_leaked_fds();
		syscall(SYS_clock_gettime, CLOCK_PROCESS_CPUTIME_ID, &c1);
		fprintf(stderr, "bench close_leaked_fds: %.3f ms cpu/run\n", ((c1.tv_sec - c0.tv_sec) + (c1.tv_nsec - c0.tv_nsec) * 1e-9) * 1000 / 200);
		syscall(SYS_clock_gettime, CLOCK_PROCESS_CPUTIME_ID, &c0);
		for (int i = 0; i < 200; i++) { struct event_base *b = mkbase(0, 0, 1); event_base_free(b); }
		syscall(SYS_clock_gettime, CLOCK_PROCESS_CPUTIME_ID, &c1);
		fprintf(stderr, "bench mkbase+free: %.3f ms cpu/run\n", ((c1.tv_sec - c0.tv_sec) + (c1.tv_nsec - c0.tv_nsec) * 1e-9) * 1000 / 200);
		quiet = 0; locks_set_quiet(0);
	}
	if (mc_worker() == 0 && !mc_replaying()) {
		MC_COUNTN("catalogue_scenarios", NSCEN);
		MC_COUNTN("catalogue_distinct_api_functions", n_api_names);
	}
}

int main(int argc, char **argv)
{
	struct mc_config cfg = { .property = "C08", .body = body, .init = init, .default_split = 1 };
	return mc_main(argc, argv, &cfg);
}
