/* C05 — whenever the loop waits, the kernel-facing interest set equals the union
 * of the added I/O events per fd (EPOLLET iff requested).
 *
 * One execution = one history over a real event_base of the chosen backend
 * (-P backend=0 epoll, 1 epoll+changelist, 2 poll, 3 select):
 *
 *   toggle(slot, template)   event_add / event_del of one of 7 (5 for poll/select) events
 *                            per fd slot:  R, W, R|W, R|CLOSED (persistent LT), one-shot R,
 *                            ET·R, ET·W (epoll only; never mixed with LT on one fd)
 *   reopen(slot, readd)      event_del all events of the slot, close both ends, open a new
 *                            socketpair at the same fd numbers, optionally event_add the
 *                            same events again
 *   wait                     one loop iteration (EVLOOP_ONCE|EVLOOP_NONBLOCK)
 *
 * Slot 0 lives at fd 20 and is idle; slot 1 lives at fd 64 (the first fd beyond select's
 * initial 64-bit fd_set allocation) and is readable, so the one-shot event is deleted by the
 * loop itself.  Observation point: the --wrap'ed epoll_pwait2/poll/select
 * (vclock_prewait_hook): epoll's interest list is read from /proc/self/fdinfo,
 * poll/select give their arrays.  Every history ends with a wait. */
#include "backend_digest.h"

#define NSLOT 3                      /* -P slots=2 (default) or 3 */
static int nslot = 2;
#define NT 7
static const int slot_fd[NSLOT] = { 20, 64, 130 }, slot_peer[NSLOT] = { 21, 65, 131 };   /* 64 and 130 cross select's 64- and 128-bit set sizes */
static const struct { short ev; const char *name; int et; } T[NT] = {
	{ EV_READ | EV_PERSIST, "R", 0 }, { EV_WRITE | EV_PERSIST, "W", 0 }, { EV_READ | EV_WRITE | EV_PERSIST, "RW", 0 },
	{ EV_READ | EV_CLOSED | EV_PERSIST, "RC", 0 }, { EV_READ, "R1", 0 },
	{ EV_READ | EV_ET | EV_PERSIST, "etR", 1 }, { EV_WRITE | EV_ET | EV_PERSIST, "etW", 1 } };

static int BK, NTB;
static struct event_base *base;
static struct event evs[NSLOT][NT];
static int added[NSLOT][NT];          /* reference model: which events are added */
static struct event sentinel;
static long live0; static uint64_t fd0;   /* per-process baselines (taken once in init) */
static int n_cb, n_waits, ops_since_wait;
static char keybuf[96];

static const char *K(const char *what) { snprintf(keybuf, sizeof keybuf, "C05/%s/%s", bk_name[BK], what); return keybuf; }

static void cb(evutil_socket_t fd, short what, void *arg)
{
	int id = (int)(intptr_t)arg, s = id / NT, t = id % NT;
	(void)fd; (void)what;
	n_cb++;
	if (!(T[t].ev & EV_PERSIST)) added[s][t] = 0;     /* one-shot: the loop deleted it before calling us */
}
static void sentinel_cb(evutil_socket_t fd, short what, void *arg) { (void)fd; (void)what; (void)arg; }

static int open_slot(int s)
{
	int sv[2];
	if (socketpair(AF_UNIX, SOCK_STREAM | SOCK_NONBLOCK, 0, sv) < 0) { mc_fail("harness:socketpair", "%s", strerror(errno)); return -1; }
	/* move the peer first: sv[0] may sit on the peer's target number */
	int a = sv[0], b = sv[1];
	if (a == slot_peer[s]) { int c = dup(a); close(a); a = c; }
	if (bk_move_fd(b, slot_peer[s]) < 0 || bk_move_fd(a, slot_fd[s]) < 0) return -1;
	if (s == 1 && write(slot_peer[s], "x", 1) != 1) { mc_fail("harness:write", "%s", strerror(errno)); return -1; }
	return 0;
}
static void close_slot(int s) { close(slot_fd[s]); close(slot_peer[s]); }

/* what the model says the kernel must hold for slot s */
static short want_events(int s, int *et)
{
	short u = 0; *et = 0;
	for (int t = 0; t < NT; t++) if (added[s][t]) { u |= T[t].ev & (EV_READ | EV_WRITE | EV_CLOSED); if (T[t].et) *et = 1; }
	return u;
}
static int slot_of_fd(int fd) { for (int s = 0; s < nslot; s++) if (slot_fd[s] == fd) return s; return -1; }

static void evstr(short e, int et, char *b) { sprintf(b, "%s%s%s%s", e & EV_READ ? "R" : "", e & EV_WRITE ? "W" : "", e & EV_CLOSED ? "C" : "", et ? "+ET" : ""); if (!*b) strcpy(b, "-"); }

/* compare one slot: have = conditions the kernel-facing structure holds (-1 = no entry) */
static void compare_slot(int s, int have, int have_et, int check_closed, int check_et)
{
	int et; short want = want_events(s, &et); char a[16], b[16];
	if (!check_closed) { want &= ~EV_CLOSED; if (have > 0) have &= ~EV_CLOSED; }
	if (!check_et) et = have_et = 0;
	MC_COUNT("c05_slot_comparisons");
	if (want) MC_COUNT("c05_slot_comparisons_nonempty");
	evstr(want, et, a); evstr(have < 0 ? 0 : (short)have, have_et, b);
	if (have <= 0 && want) mc_fail(K("missing"), "fd %d: added events want %s, kernel-facing set has %s", slot_fd[s], a, have < 0 ? "no entry" : "an empty entry");
	else if (have >= 0 && !want) mc_fail(K("stale"), "fd %d: no event added, kernel-facing set still has %s", slot_fd[s], have ? b : "an (empty) entry");
	else if (have > 0 && (short)have != want) mc_fail(K("wrong-conditions"), "fd %d: union of added events is %s, kernel-facing set has %s", slot_fd[s], a, b);
	else if (want && et && !have_et) mc_fail(K("et-lost"), "fd %d: edge-triggered events added (%s) but registered level-triggered (%s)", slot_fd[s], a, b);
	else if (want && !et && have_et) mc_fail(K("et-spurious"), "fd %d: only level-triggered events added (%s) but registered %s", slot_fd[s], a, b);
}

static void prewait(int kind, void *a, long n, int64_t timeout_us)
{
	int have[NSLOT], het[NSLOT], cnt[NSLOT];
	(void)timeout_us;
	n_waits++; ops_since_wait = 0;
	MC_COUNT("c05_waits_observed");
	for (int s = 0; s < nslot; s++) { have[s] = -1; het[s] = 0; cnt[s] = 0; }
	if (kind == 'e') {
		struct bk_epreg r[64]; int epfd = *(int *)a;
		int k = bk_epoll_registrations(epfd, r, 64);
		if (k < 0) { mc_fail("harness:fdinfo", "cannot read fdinfo of %d", epfd); return; }
		if (BK != BK_EPOLL && BK != BK_EPOLL_CL) mc_fail("harness:wrong-wait", "epoll wait on backend %s", bk_name[BK]);
		for (int i = 0; i < k; i++) {
			int s = slot_of_fd(r[i].fd);
			if (s < 0) {
				if (!bk_is_internal_fd(base, r[i].fd)) mc_fail(K("unexpected-fd"), "fd %d registered with %#x", r[i].fd, r[i].events);
				continue;
			}
			cnt[s]++;
			have[s] = (r[i].events & EPOLLIN ? EV_READ : 0) | (r[i].events & EPOLLOUT ? EV_WRITE : 0) | (r[i].events & EPOLLRDHUP ? EV_CLOSED : 0);
			het[s] = !!(r[i].events & EPOLLET);
		}
		for (int s = 0; s < nslot; s++) compare_slot(s, have[s], het[s], 1, 1);
	} else if (kind == 'p') {
		struct pollfd *p = a;
		if (BK != BK_POLL) mc_fail("harness:wrong-wait", "poll wait on backend %s", bk_name[BK]);
		for (long i = 0; i < n; i++) {
			int s = slot_of_fd(p[i].fd);
			if (s < 0) {
				if (!bk_is_internal_fd(base, p[i].fd)) mc_fail(K("unexpected-fd"), "pollfd[%ld] = fd %d events %#x", i, p[i].fd, p[i].events);
				continue;
			}
			if (cnt[s]++) { mc_fail(K("duplicate-entry"), "fd %d appears twice in the pollfd array", p[i].fd); continue; }
			have[s] = (p[i].events & POLLIN ? EV_READ : 0) | (p[i].events & POLLOUT ? EV_WRITE : 0) | (p[i].events & POLLRDHUP ? EV_CLOSED : 0);
			if (p[i].events & ~(POLLIN | POLLOUT | POLLRDHUP)) mc_fail(K("wrong-conditions"), "fd %d: unexpected poll bits %#x", p[i].fd, p[i].events);
		}
		for (int s = 0; s < nslot; s++) compare_slot(s, have[s], 0, 1, 0);
	} else if (kind == 's') {
		fd_set **sets = a;
		if (BK != BK_SELECT) mc_fail("harness:wrong-wait", "select wait on backend %s", bk_name[BK]);
		for (int fd = 0; fd < n; fd++) {
			int r = sets[0] && FD_ISSET(fd, sets[0]), w = sets[1] && FD_ISSET(fd, sets[1]), x = sets[2] && FD_ISSET(fd, sets[2]);
			int s = slot_of_fd(fd);
			if (!r && !w && !x) continue;
			if (s < 0) {
				if (!bk_is_internal_fd(base, fd)) mc_fail(K("unexpected-fd"), "fd %d in select sets (r=%d w=%d x=%d)", fd, r, w, x);
				continue;
			}
			have[s] = (r ? EV_READ : 0) | (w ? EV_WRITE : 0);
		}
		/* a slot beyond nfds is not watched: have stays -1 */
		for (int s = 0; s < nslot; s++) compare_slot(s, have[s], 0, 0, 0);
	}
}

static int any_added(int s, int et) { for (int t = 0; t < NT; t++) if (added[s][t] && T[t].et == et) return 1; return 0; }

static void do_add(int s, int t)
{
	int r = event_add(&evs[s][t], NULL);
	if (r != 0) mc_fail(K("add-failed"), "event_add(%s on fd %d) returned %d (%s)", T[t].name, slot_fd[s], r, bk_last_warning);
	added[s][t] = 1;
}
static void do_del(int s, int t)
{
	int r = event_del(&evs[s][t]);
	if (r != 0) mc_fail(K("del-failed"), "event_del(%s on fd %d) returned %d (%s)", T[t].name, slot_fd[s], r, bk_last_warning);
	added[s][t] = 0;
}

/* Canonical state for pruning.  Everything the remaining operations and the
 * oracle can depend on: the model (set of added events per slot — the order of the
 * evmap list only decides callback order, which this oracle never looks at), the
 * kernel's epoll registration of the slot fds, the queued changelist, the
 * poll array + per-fd index, select's input sets and sizes.  Not included:
 * weakrand state (decides only the order of callbacks across fds), allocation
 * capacities other than the ones named (they never shrink and are far from
 * their limits with 2 fds). */
static uint64_t canon(void)
{
	uint64_t h = mc_hash_u64(0x5c05, (uint64_t)BK);
	for (int s = 0; s < nslot; s++) { int m = 0; for (int t = 0; t < NT; t++) m |= added[s][t] << t; h = mc_hash_u64(h, (uint64_t)m); }
	return mc_hash_u64(h, bk_impl_digest(base, BK, slot_fd, nslot));
}

static void one_wait(void)
{
	int w0 = n_waits;
	int r = event_base_loop(base, EVLOOP_ONCE | EVLOOP_NONBLOCK);
	if (r != 0) mc_fail(K("loop-failed"), "event_base_loop returned %d (%s)", r, bk_last_warning);
	if (n_waits != w0 + 1) mc_fail("harness:wait-count", "%d waits in one ONCE|NONBLOCK loop", n_waits - w0);
}

static void body(void)
{
	int D = mc_param("depth", 4), pruned = 0;
	BK = mc_param("backend", 0); nslot = mc_param("slots", 2); if (nslot < 1 || nslot > NSLOT) nslot = 2;
	NTB = (BK == BK_EPOLL || BK == BK_EPOLL_CL) ? NT : NT - 2;
	vclock_reset(); vclock_prewait_hook = prewait; vclock_idle_hook = NULL;
	bk_warnings = 0; bk_last_warning[0] = 0; n_cb = n_waits = ops_since_wait = 0;
	memset(added, 0, sizeof added);
	base = bk_new_base(BK, mc_param("sigfd", 0));
	if (!base) return;
	for (int s = 0; s < nslot; s++) {
		if (open_slot(s) < 0) return;
		for (int t = 0; t < NT; t++) event_assign(&evs[s][t], base, slot_fd[s], T[t].ev, cb, (void *)(intptr_t)(s * NT + t));
	}
	/* keeps event_haveevents() true so that every `wait` really reaches the backend */
	struct timeval far = { 100000, 0 };
	event_assign(&sentinel, base, -1, EV_PERSIST, sentinel_cb, NULL); event_add(&sentinel, &far);

	const int n_toggle = nslot * NTB, n_ops = n_toggle + 2 * nslot + 1;
	for (int step = 0; step < D; step++) {
		int op = mc_choose(n_ops + 1, 0, "op");
		if (!op) break;
		op--;
		if (op < n_toggle) {
			int s = op / NTB, t = op % NTB;
			if (added[s][t]) { do_del(s, t); mc_observe("del(%d,%s) ", slot_fd[s], T[t].name); MC_COUNT("c05_op_del"); }
			else if (any_added(s, !T[t].et)) { mc_observe("skip-mix(%d,%s) ", slot_fd[s], T[t].name); MC_COUNT("c05_op_skipped_et_lt_mix"); }
			else { do_add(s, t); mc_observe("add(%d,%s) ", slot_fd[s], T[t].name); MC_COUNT("c05_op_add"); }
			ops_since_wait++;
		} else if (op < n_toggle + 2 * nslot) {
			int s = (op - n_toggle) / 2, readd = (op - n_toggle) & 1, was[NT];
			for (int t = 0; t < NT; t++) { was[t] = added[s][t]; if (was[t]) do_del(s, t); }
			close_slot(s);
			if (open_slot(s) < 0) break;
			if (readd) for (int t = 0; t < NT; t++) if (was[t]) do_add(s, t);
			mc_observe("reopen(%d,%s) ", slot_fd[s], readd ? "readd" : "noadd");
			MC_COUNT("c05_op_reopen");
			ops_since_wait++;
		} else {
			int c0 = n_cb;
			one_wait();
			mc_observe("wait[%d cb] ", n_cb - c0);
			MC_COUNT("c05_op_wait");
		}
		if (mc_failed()) break;
		if (mc_state(canon(), D - 1 - step)) { pruned = 1; break; }
	}
	if (!pruned && !mc_failed() && ops_since_wait) { one_wait(); mc_observe("final-wait "); }

	for (int s = 0; s < nslot; s++) for (int t = 0; t < NT; t++) event_del(&evs[s][t]);
	event_del(&sentinel);
	event_base_free(base); base = NULL;
	for (int s = 0; s < nslot; s++) close_slot(s);
	vclock_prewait_hook = NULL;
	if (mcx_alloc_live() != live0) mc_fail(K("leak"), "%ld library allocations left", mcx_alloc_live() - live0);
	if (mcx_fd_signature() != fd0) mc_fail(K("fd-table-changed"), "fd table differs from baseline after teardown");
}

static void init(void)
{
	bk_process_init();
	for (int s = 0; s < nslot; s++)
		if (fcntl(slot_fd[s], F_GETFD) != -1 || fcntl(slot_peer[s], F_GETFD) != -1) { fprintf(stderr, "c05: slot fd numbers are in use\n"); _exit(2); }
	live0 = mcx_alloc_live(); fd0 = mcx_fd_signature();
}

int main(int argc, char **argv)
{
	struct mc_config cfg = { .property = "C05", .body = body, .init = init };
	return mc_main(argc, argv, &cfg);
}
