/* evcore — bounded exhaustive exploration of libevent's event core against the
 * reference model models/evcore_model.c.  One binary, four properties:
 *   -P prop=1   C01 timers            -P prop=2   C02 event state machine
 *   -P prop=3   C03 priorities/loop   -P prop=45  C45 prepare/check watchers
 * See notes/evcore.md for alphabets, bounds and oracles. */
#define _GNU_SOURCE
#include "mcx.h"
#include "vclock.h"
#include "evcore_model.h"
#include <event2/event.h>
#include <event2/event_struct.h>
#include <event2/watch.h>
#include "event-internal.h"
#include "defer-internal.h"
#include <stdio.h>
#include <stdlib.h>
#include <string.h>
#include <signal.h>
#include <unistd.h>
#include <fcntl.h>
#include <sys/time.h>

#include "evcore_base.inc"
#include "evcore_shadow.inc"

/* ------------------------------------------------------------------ */
/* alphabets                                                            */

#define HUGE_US (1000000000LL * 1000000LL)      /* 1e9 s */
static const int64_t DUR[] = { 0, 1, 999, 1000, 5000, HUGE_US };
static const char *DURN[] = { "0", "1us", "999us", "1ms", "5ms", "1e9s" };
static const int64_t CDUR[] = { 1000, 5000, 0 };   /* common-timeout durations */

enum opc { O_END = 0, O_ADD, O_ADDNULL, O_ADDC, O_DEL, O_RMT, O_ACTIVE, O_LATER, O_PRIO, O_NEW, O_FREE, O_LOOP, O_ADV, O_RAISE,
	O_MAXCLR, O_VIRT, O_EXIT, O_BREAK, O_CONT, O_DEFER, O_WNEW, O_WFREE, O_LATERACT, O_NOP };
struct op { short code, a, b; };
#define MAXOPS 96
static struct op OPS[MAXOPS]; static int nops;
static void op_push(int c, int a, int b) { if (nops < MAXOPS) { OPS[nops].code = (short)c; OPS[nops].a = (short)a; OPS[nops].b = (short)b; nops++; } }

/* pools: kinds and creation priorities of the event slots */
struct pool { int kind[NSLOT]; int pri[NSLOT]; };
static const struct pool POOL_C01[] = {
	{ { K_TIMER, K_TIMER_P, K_TIMER, K_RD_EMPTY_P }, { 0, -1, 0, -1 } },
};
static const struct pool POOL_C02[] = {
	{ { K_RD_READY, K_TIMER_P, K_SIG_P, K_WR_P }, { -1, -1, -1, -1 } },
	{ { K_RD_READY_P, K_RD_EMPTY, K_SIG, K_TIMER }, { -1, -1, -1, -1 } },
	{ { K_RD_READY_P, K_RD_READY, K_TIMER_P, K_SIG_P }, { -1, 0, 2, -1 } },
	{ { K_SIG_P, K_SIG_P, K_WR, K_RD_EMPTY_P }, { -1, 0, -1, -1 } },
};
static const struct pool POOL_C03[] = {
	{ { K_TIMER, K_TIMER, K_SIG_P, K_TIMER }, { 0, 1, 1, 2 } },
};
static const struct pool POOL_C45[] = {
	{ { K_TIMER, K_RD_READY_P, K_TIMER_P, K_NONE }, { -1, -1, -1, -1 } },
};
static const struct pool *pool;

/* base configurations for C03 */
struct bcfg { int npri, maxcb; int64_t maxtime; int limit_after; };
static const struct bcfg BCFG_C03[] = {
	{ 3, -1, -1, 1 }, { 1, -1, -1, 1 }, { 3, 1, -1, 0 }, { 3, 2, -1, 1 }, { 3, -1, 1000, 0 }, { 3, 1, 1000, 1 },
	{ 1, 1, -1, 0 }, { 1, 2, 1000, 0 }, { 3, 2, -1, 0 }, { 3, 1, -1, 1 }, { 3, -1, 1000, 1 }, { 1, -1, 1000, 0 },
	{ 3, 2, 1000, 0 }, { 3, 2, 1000, 1 }, { 1, 2, -1, 0 }, { 1, 1, 1000, 0 },
};

/* parameters */
static int p_pool, p_cfg, p_depth, p_slots, p_pools, p_cfgs, p_nocache, p_durs, p_cdurs, p_wake, p_scripts, p_loopmask, p_npri;

/* ------------------------------------------------------------------ */
/* callbacks                                                            */

static void run_script(int ctx, int self);     /* ctx: 0 event cb, 1 watcher cb, 2 deferred cb */

static void ev_cb(evutil_socket_t fd, short res, void *arg)
{
	struct slot *s = arg;
	char f[8];
	int was = in_cb;
	in_cb = 1;
	mc_observe("[%d%s", s->id, flagstr(res, f));
	if (!dead && fd != s->fd) { MSG("slot %d (%s) callback got fd %d, expected %d", s->id, kind_name[s->kind], (int)fd, s->fd); FAIL("%s/obs/callback-fd/%s", P, kind_name[s->kind]); }
	shadow_fired(s->id, res);
	observe(EMO_CALLBACK, s->id, res, EM_INF, 0);
	if (!dead && s->exists) {
		struct event *cur = event_base_get_running_event(base);
		if (cur != s->ev) { MSG("event_base_get_running_event != running event of slot %d", s->id); FAIL("%s/state/running-event", P); }
	}
	run_script(0, s->id);
	mc_observe("]");
	in_cb = was;
}
static void tramp_sig(evutil_socket_t fd, short what, void *arg)
{
	orig_sig_cb(fd, what, arg);
	observe(EMO_CALLBACK, EM_ID_SIG, what, EM_INF, 0);
}
static void tramp_ctl(evutil_socket_t fd, short what, void *arg)
{
	struct common_timeout_list *ctl = arg;
	int idx = (int)((ctl->duration.tv_usec & 0x0ff00000) >> 20);
	orig_ctl_cb[idx](fd, what, arg);
	observe(EMO_CALLBACK, EM_ID_CTL0 + idx, what, EM_INF, 0);
}
static void tramp_once(evutil_socket_t fd, short what, void *arg)
{
	orig_once_cb(fd, what, arg);
	mc_observe("[exit]");
	observe(EMO_CALLBACK, EM_ID_ONCE_ANY, what, EM_INF, 0);
}
static void defer_cb(struct event_callback *cb, void *arg)
{
	int k = (int)(cb - dcb);
	int was = in_cb;
	(void)arg;
	in_cb = 1;
	if (k == 0 || k == EM_NDEFER - 1) mc_observe("[d%d", k);
	observe(EMO_CALLBACK, EM_ID_DEFER0 + k, 0, EM_INF, 0);
	if (k == 0 || k == EM_NDEFER - 1) { run_script(2, -1); mc_observe("]"); }
	in_cb = was;
}
static void watch_common(struct evwatch *w, struct hwarg *a, int type, int64_t told)
{
	struct hw *h = &HW[a->idx];
	int was = cur_watch_cb_type;
	mc_observe("{%c%d", type == EM_W_PREPARE ? 'p' : 'c', a->idx);
	if (!dead && (!h->live || h->gen != a->gen || h->w != w)) {
		MSG("%s watcher callback ran for a watcher that had been freed (arena slot %d)", type == EM_W_PREPARE ? "prepare" : "check", a->idx);
		FAIL("%s/watch/callback-after-free/%s", P, type == EM_W_PREPARE ? "prepare" : "check");
	}
	h->calls++; h->told = told;
	cur_watch_cb_type = type;
	observe(type == EM_W_PREPARE ? EMO_PREPARE : EMO_CHECK, a->idx, 0, told, 0);
	run_script(1, a->idx);
	cur_watch_cb_type = was;
	mc_observe("}");
}
static void prep_cb(struct evwatch *w, const struct evwatch_prepare_cb_info *info, void *arg)
{
	struct timeval tv;
	int64_t told = EM_INF;
	if (evwatch_prepare_get_timeout(info, &tv)) told = (int64_t)tv.tv_sec * 1000000 + tv.tv_usec;
	watch_common(w, arg, EM_W_PREPARE, told);
}
static void check_cb(struct evwatch *w, const struct evwatch_check_cb_info *info, void *arg)
{
	(void)info;
	watch_common(w, arg, EM_W_CHECK, EM_INF);
}

/* ------------------------------------------------------------------ */
/* operations (applied to the library and to the model, results compared) */

#define CHECK_RET(name, r, mr, s) do { if (!dead && (r) != (mr)) { MSG("%s on slot %d (%s) returned %d, model %d", name, s, kind_name[S[s].kind], (int)(r), (int)(mr)); \
	FAIL("%s/ret/%s/%s", P, name, kind_name[S[s].kind]); } } while (0)

static void do_new(int i)
{
	struct slot *s = &S[i];
	short what = kind_what[s->kind];
	if (s->exists) return;
	if (s->heap) s->ev = event_new(base, s->fd, what, ev_cb, s);
	else { s->ev = &s->store; event_assign(s->ev, base, s->fd, what, ev_cb, s); }
	s->exists = 1;
	em_assign(&M, i, what, kind_fdobj[s->kind]);
	if (s->pri0 >= 0 && s->pri0 < CFG.npri) { event_priority_set(s->ev, s->pri0); em_priority_set(&M, i, s->pri0); }
}
static void do_free(int i)
{
	struct slot *s = &S[i];
	if (!s->exists) return;
	if (s->heap) event_free(s->ev);
	else { event_del(s->ev); event_debug_unassign(s->ev); }
	s->exists = 0; s->ev = NULL;
	em_free(&M, i);
	shadow_cancel(i);
}
static void do_add(int i, int di)
{
	struct timeval tv = { (time_t)(DUR[di] / 1000000), (suseconds_t)(DUR[di] % 1000000) };
	int r = event_add(S[i].ev, &tv), mr = em_add(&M, i, 1, DUR[di], -1);
	CHECK_RET("event_add", r, mr, i);
	shadow_add(i, DUR[di], -1);
}
static void do_addnull(int i)
{
	int r = event_add(S[i].ev, NULL), mr = em_add(&M, i, 0, 0, -1);
	CHECK_RET("event_add", r, mr, i);
}
static void do_addc(int i, int ci)
{
	struct timeval d = { (time_t)(CDUR[ci] / 1000000), (suseconds_t)(CDUR[ci] % 1000000) };
	int before = M.nctl, idx = em_common_init(&M, CDUR[ci]);
	const struct timeval *ctv;
	int r, mr;
	if (idx < 0) return;
	ctv = event_base_init_common_timeout(base, &d);
	if (!ctv) { MSG("event_base_init_common_timeout(%lld us) returned NULL", (long long)CDUR[ci]); FAIL("%s/ret/init_common_timeout", P); return; }
	if (idx == before) {
		struct common_timeout_list *ctl = base->common_timeout_queues[idx];
		orig_ctl_cb[idx] = ctl->timeout_event.ev_callback;
		ctl->timeout_event.ev_callback = tramp_ctl;
	}
	r = event_add(S[i].ev, ctv); mr = em_add(&M, i, 1, CDUR[ci], idx);
	CHECK_RET("event_add", r, mr, i);
	shadow_add(i, CDUR[ci], idx);
}
static void do_del(int i) { int r = event_del(S[i].ev), mr = em_del(&M, i); CHECK_RET("event_del", r, mr, i); shadow_cancel(i); }
static void do_rmt(int i) { int r = event_remove_timer(S[i].ev), mr = em_remove_timer(&M, i); CHECK_RET("event_remove_timer", r, mr, i); shadow_remove_timer(i); }
static void do_active(int i, int res, int ncalls) { event_active(S[i].ev, res, (short)ncalls); em_active(&M, i, res, ncalls); }
static void do_later(int i, int res) { event_active_later_(S[i].ev, res); em_active_later(&M, i, res); }
static void do_prio(int i, int p) { int r = event_priority_set(S[i].ev, p), mr = em_priority_set(&M, i, p); CHECK_RET("event_priority_set", r, mr, i); }
static void do_adv(int64_t d) { vclock_advance(d); M.clock = vclock_us; }
static void do_raise(void) { raise(SIGUSR1); em_raise(&M); }
static void do_exit(int di)
{
	struct timeval tv = { 0, 0 };
	int r;
	if (!em_once_free_slots(&M)) return;
	if (di >= 0) { tv.tv_sec = (time_t)(DUR[di] / 1000000); tv.tv_usec = (suseconds_t)(DUR[di] % 1000000); }
	r = event_base_loopexit(base, di >= 0 ? &tv : NULL);
	if (r != 0) { MSG("event_base_loopexit returned %d", r); FAIL("%s/ret/loopexit", P); return; }
	em_loopexit(&M, di >= 0, di >= 0 ? DUR[di] : 0);
	{
		struct event_once *eo = LIST_FIRST(&base->once_events);
		if (eo->cb != tramp_once) { orig_once_cb = eo->cb; eo->cb = tramp_once; }
	}
}
static void do_break(void) { event_base_loopbreak(base); em_loopbreak(&M); }
static void do_cont(void) { event_base_loopcontinue(base); em_loopcontinue(&M); }
static void do_defer(void)
{
	if (!dcb_inited) {
		for (int k = 0; k < EM_NDEFER; k++) { event_deferred_cb_init_(&dcb[k], (ev_uint8_t)(CFG.npri / 2), defer_cb, NULL); em_defer_init(&M, k, CFG.npri / 2); }
		dcb_inited = 1;
	}
	for (int k = 0; k < EM_NDEFER; k++) {
		int r = event_deferred_cb_schedule_(base, &dcb[k]), mr = em_defer_schedule(&M, k);
		MC_COUNT("oracle_defer_schedule");
		if (!dead && r != mr) { MSG("event_deferred_cb_schedule_ #%d returned %d, model %d (queued this iteration: %d)", k, r, mr, M.ndeferred); FAIL("%s/ret/deferred_schedule", P); return; }
	}
}
static void do_wnew(int type)
{
	int idx = em_watch_new(&M, type);
	struct hw *h;
	struct hwarg *a;
	if (idx < 0 || nhwarg >= 64) { if (idx >= 0) em_watch_free(&M, idx); return; }
	h = &HW[idx]; a = &HWARG[nhwarg++];
	h->gen++; a->idx = idx; a->gen = h->gen;
	h->type = type; h->live = 1; h->calls = 0; h->born_in_pass = cur_watch_cb_type == type;
	h->w = type == EM_W_PREPARE ? evwatch_prepare_new(base, prep_cb, a) : evwatch_check_new(base, check_cb, a);
}
static void do_wfree(int idx)
{
	struct hw *h = &HW[idx];
	if (!h->live) return;
	evwatch_free(h->w);
	h->live = 0; h->w = NULL;
	em_watch_free(&M, idx);
}
static void do_maxclr(unsigned mask)
{
	int r, mr;
	compare_all("before clear");      /* narrows a tie-dependent maximum to the implementation's value */
	if (dead) return;
	r = event_base_get_max_events(base, mask, 1); mr = em_max_events(&M, mask, 1);
	if (r != mr) { MSG("get_max_events(%u, clear) = %d, model %d", mask, r, mr); FAIL("%s/state/max_events_clear/mask%u", P, mask); }
}
static void do_virt(int d)
{
	if (d < 0 && M.virt <= 0) return;
	if (d > 0) event_base_add_virtual_(base); else event_base_del_virtual_(base);
	em_virtual(&M, d);
}
static int do_loop(int flags)
{
	int r;
	loop_waits = 0; horizon_hit = 0; wake_asked = 0; loop_flags = flags; in_loop = 1;
	M.clock = vclock_us;
	em_loop_begin(&M, flags);
	r = event_base_loop(base, flags);
	in_loop = 0;
	mc_observe("=%d%s ", r, horizon_hit ? "h" : "");
	observe(EMO_RETURN, 0, 0, EM_INF, r);
	return r;
}

/* ------------------------------------------------------------------ */
/* wait hooks                                                           */

static void horizon(void)
{
	horizon_hit = 1;
	event_base_loopbreak(base);
	if (!dead) em_loopbreak(&M);
}
static void prewait(int kind, void *a, long n, int64_t timeout_us)
{
	(void)kind; (void)a; (void)n;
	loop_waits++;
	mc_observe("w%lld ", (long long)timeout_us);
	observe(EMO_WAIT, 0, 0, timeout_us, 0);
	wait_serial++;
	if (loop_waits > wait_cap) horizon();
}
static int64_t block_hook(int64_t timeout_us)
{
	int c;
	if (timeout_us < 0) { horizon(); return 0; }
	if (wake_asked >= wake_max) return timeout_us;
	wake_asked++;
	c = mc_choose(3, 1, "wake");
	if (c == 1) { mc_observe("early "); MC_COUNT("wake_early"); return timeout_us - (backend == 1 ? 1000 : 1); }
	if (c == 2) { mc_observe("jump "); MC_COUNT("wake_jump"); return timeout_us + 3600LL * 1000000; }
	return timeout_us;
}
static void postwait(int nready)
{
	iter_reading = vclock_us;
	/* the backend reports exactly the registered fds that are ready: a stale or
	 * missing kernel registration shows up here (each fd object is watched for
	 * one direction only, so all three backends count fds) */
	if (!dead) {
		MC_COUNT("oracle_nready");
		if (nready != em_ready_fds(&M)) {
			MSG("the backend wait reported %d ready fds, the model has %d registered fds that are ready", nready, em_ready_fds(&M));
			FAIL("%s/wait/nready/impl=%d/model=%d", P, nready, em_ready_fds(&M));
		}
	}
}

/* ------------------------------------------------------------------ */
/* op lists                                                             */

static int natural_res(int kind)
{
	short w = kind_what[kind];
	if (w & EV_READ) return EV_READ;
	if (w & EV_WRITE) return EV_WRITE;
	if (w & EV_SIGNAL) return EV_SIGNAL;
	return EV_TIMEOUT;
}

static void build_ops(void)
{
	nops = 0;
	if (PROP == 1) {
		for (int i = 0; i < nslots; i++) {
			int persist = kind_what[S[i].kind] & EV_PERSIST;
			if (i == 2) { op_push(O_ADD, i, 3); }
			else for (int d = 0; d < p_durs; d++) op_push(O_ADD, i, d);
			if (i == 2 || persist) for (int c = 0; c < p_cdurs; c++) op_push(O_ADDC, i, c);
			op_push(O_DEL, i, 0); op_push(O_RMT, i, 0);
			/* an activation "for another reason" of the persistent timer */
			if (persist && !(kind_what[S[i].kind] & (EV_READ | EV_WRITE))) op_push(O_ACTIVE, i, EV_READ);
		}
		for (int d = 1; d < p_durs; d++) op_push(O_ADV, d, 0);
		op_push(O_LOOP, EVLOOP_ONCE, 0); op_push(O_LOOP, EVLOOP_NONBLOCK, 0);
	} else if (PROP == 2) {
		for (int i = 0; i < nslots; i++) {
			if (!S[i].exists) { op_push(O_NEW, i, 0); continue; }
			op_push(O_ADDNULL, i, 0); op_push(O_ADD, i, 0); op_push(O_ADD, i, 3); op_push(O_ADD, i, 4);
			op_push(O_DEL, i, 0); op_push(O_RMT, i, 0);
			op_push(O_ACTIVE, i, natural_res(S[i].kind));
			if (natural_res(S[i].kind) != EV_TIMEOUT) op_push(O_ACTIVE, i, EV_TIMEOUT);
			op_push(O_LATER, i, EV_WRITE);
			if (kind_what[S[i].kind] & EV_SIGNAL) op_push(O_ACTIVE, i, EV_SIGNAL | 0x100);     /* ncalls = 2 */
			op_push(O_PRIO, i, 0); op_push(O_PRIO, i, CFG.npri - 1);
			if (i == 0) op_push(O_PRIO, i, CFG.npri);       /* out of range */
			op_push(O_FREE, i, 0);
		}
		op_push(O_LOOP, EVLOOP_NONBLOCK, 0);
		if (p_loopmask & 2) op_push(O_LOOP, EVLOOP_ONCE, 0);
		op_push(O_ADV, 3, 0); op_push(O_ADV, 4, 0);
		op_push(O_RAISE, 0, 0);
		op_push(O_MAXCLR, 1, 0); op_push(O_MAXCLR, 4, 0); op_push(O_MAXCLR, 7, 0);
		op_push(O_VIRT, 1, 0); if (M.virt > 0) op_push(O_VIRT, -1, 0);
	} else if (PROP == 3) {
		for (int i = 0; i < nslots; i++) {
			op_push(O_ACTIVE, i, EV_READ); op_push(O_LATER, i, EV_WRITE);
			/* a signal event whose callback runs 2 or 3 times per activation
			 * (break / exit / continue scripts run inside each invocation) */
			if (kind_what[S[i].kind] & EV_SIGNAL) { op_push(O_ACTIVE, i, EV_SIGNAL | 0x100); op_push(O_ACTIVE, i, EV_SIGNAL | 0x200); }
		}
		op_push(O_ADD, 0, 3); op_push(O_ADD, 3, 4);
		op_push(O_ADDC, 1, 0); op_push(O_DEL, 1, 0);
		op_push(O_DEFER, 0, 0);
		op_push(O_EXIT, -1, 0); op_push(O_EXIT, 4, 0);
		op_push(O_BREAK, 0, 0); op_push(O_CONT, 0, 0);
		op_push(O_LOOP, 0, 0); op_push(O_LOOP, EVLOOP_ONCE, 0); op_push(O_LOOP, EVLOOP_NONBLOCK, 0);
		op_push(O_LOOP, EVLOOP_NO_EXIT_ON_EMPTY, 0); op_push(O_LOOP, EVLOOP_ONCE | EVLOOP_NONBLOCK, 0);
	} else {
		op_push(O_WNEW, EM_W_PREPARE, 0); op_push(O_WNEW, EM_W_CHECK, 0);
		for (int k = 0; k < EM_NWATCH; k++) if (HW[k].live) op_push(O_WFREE, k, 0);
		op_push(O_ADD, 0, 3); op_push(O_ADD, 0, 4); op_push(O_ADD, 2, 3);
		op_push(O_ADDNULL, 1, 0); op_push(O_DEL, 1, 0);
		op_push(O_ACTIVE, 0, EV_TIMEOUT);
		op_push(O_ADV, 3, 0);
		op_push(O_LOOP, EVLOOP_ONCE, 0); op_push(O_LOOP, EVLOOP_NONBLOCK, 0);
	}
}

/* scripts run inside callbacks: a second, smaller alphabet */
static void build_scripts(int ctx, int self)
{
	nops = 0;
	if (PROP == 1) {
		int other = (self + 1) % nslots;
		op_push(O_ADD, self, 0); op_push(O_ADD, self, 3);
		op_push(O_DEL, other, 0); op_push(O_ADD, other, 3);
		if (kind_what[S[other].kind] & EV_PERSIST || other == 2) op_push(O_ADDC, other, 0);
		op_push(O_ADV, 4, 0);
		if (p_scripts > 1) { op_push(O_RMT, other, 0); op_push(O_ADD, other, 0); op_push(O_DEL, self, 0); op_push(O_ADV, 3, 0); }
	} else if (PROP == 2) {
		int other = (self + 1) % nslots, other2 = (self + 2) % nslots;
		op_push(O_DEL, self, 0); op_push(O_ADDNULL, self, 0); op_push(O_ADD, self, 3);
		op_push(O_ACTIVE, self, natural_res(S[self].kind));
		op_push(O_FREE, self, 0);
		if (kind_what[S[self].kind] & EV_SIGNAL) op_push(O_BREAK, 0, 0);   /* break between the invocations of one activation */
		if (S[other].exists) { op_push(O_DEL, other, 0); op_push(O_ACTIVE, other, natural_res(S[other].kind)); op_push(O_ADD, other, 0); op_push(O_FREE, other, 0); }
		if (p_scripts > 1 && S[other2].exists) { op_push(O_DEL, other2, 0); op_push(O_ACTIVE, other2, EV_TIMEOUT); }
		if (p_scripts > 1) { op_push(O_RMT, self, 0); op_push(O_PRIO, self, 0); op_push(O_RAISE, 0, 0); op_push(O_ADV, 4, 0); }
	} else if (PROP == 3) {
		for (int i = 0; i < nslots; i++) op_push(O_ACTIVE, i, EV_READ);
		if (ctx == 0) op_push(O_LATER, self, EV_WRITE);
		/* event_active_later_ + event_active on the most urgent event in one callback */
		if (!(ctx == 0 && self == 0)) op_push(O_LATERACT, 0, 0);
		op_push(O_BREAK, 0, 0); op_push(O_EXIT, -1, 0); op_push(O_CONT, 0, 0);
		op_push(O_ADV, 3, 0);
		op_push(O_DEFER, 0, 0);
	} else {
		if (ctx == 1) op_push(O_WFREE, self, 0);
		for (int k = 0; k < EM_NWATCH; k++) if (HW[k].live && !(ctx == 1 && k == self)) op_push(O_WFREE, k, 0);
		op_push(O_WNEW, EM_W_PREPARE, 0); op_push(O_WNEW, EM_W_CHECK, 0);
		if (ctx == 1) { op_push(O_ADD, 0, 3); op_push(O_ACTIVE, 0, EV_TIMEOUT); }
	}
}

static void apply_op(const struct op *o)
{
	int i = o->a;
	M.clock = vclock_us;
	switch (o->code) {
	case O_ADD: if (S[i].exists) { mc_observe("a%d:%s ", i, DURN[o->b]); do_add(i, o->b); } break;
	case O_ADDNULL: if (S[i].exists) { mc_observe("a%d:- ", i); do_addnull(i); } break;
	case O_ADDC: if (S[i].exists) { mc_observe("c%d:%lld ", i, (long long)CDUR[o->b]); do_addc(i, o->b); } break;
	case O_DEL: if (S[i].exists) { mc_observe("d%d ", i); do_del(i); } break;
	case O_RMT: if (S[i].exists) { mc_observe("r%d ", i); do_rmt(i); } break;
	case O_ACTIVE: if (S[i].exists) { char f[8]; int nc = 1 + ((o->b >> 8) & 3); mc_observe("A%d%sx%d ", i, flagstr(o->b & 0xff, f), nc); do_active(i, o->b & 0xff, nc); } break;
	case O_LATER: if (S[i].exists) { mc_observe("L%d ", i); do_later(i, o->b); } break;
	case O_LATERACT: if (S[i].exists) { mc_observe("LA%d ", i); do_later(i, EV_WRITE); do_active(i, EV_READ, 1); } break;
	case O_PRIO: if (S[i].exists) { mc_observe("p%d:%d ", i, o->b); do_prio(i, o->b); } break;
	case O_NEW: mc_observe("n%d ", i); do_new(i); break;
	case O_FREE: mc_observe("f%d ", i); do_free(i); break;
	case O_LOOP: mc_observe("loop%d ", o->a); do_loop(o->a); break;
	case O_ADV: mc_observe("+%s ", DURN[o->a]); do_adv(DUR[o->a]); break;
	case O_RAISE: mc_observe("raise "); do_raise(); break;
	case O_MAXCLR: mc_observe("mc%d ", o->a); do_maxclr((unsigned)o->a); break;
	case O_VIRT: mc_observe("v%+d ", o->a); do_virt(o->a); break;
	case O_EXIT: mc_observe("exit%s ", o->a < 0 ? "" : DURN[o->a]); do_exit(o->a); break;
	case O_BREAK: mc_observe("break "); do_break(); break;
	case O_CONT: mc_observe("cont "); do_cont(); break;
	case O_DEFER: mc_observe("defer34 "); do_defer(); break;
	case O_WNEW: mc_observe("W%c ", o->a == EM_W_PREPARE ? 'p' : 'c'); do_wnew(o->a); break;
	case O_WFREE: mc_observe("F%d ", o->a); do_wfree(o->a); break;
	default: break;
	}
}

static void run_script(int ctx, int self)
{
	struct op o;
	int c;
	if (dead || depth_left <= 0) return;
	if (ctx == 0 && !S[self].exists) return;
	build_scripts(ctx, self);
	c = mc_choose(nops + 1, 0, "script");
	if (!c) return;
	depth_left--;
	o = OPS[c - 1];
	MC_COUNT("scripts_run");
	apply_op(&o);
	compare_all("after script");
}

/* ------------------------------------------------------------------ */
/* canonical state of implementation + harness, for mc_state            */

/* The model state (em_canon, see the argument there) determines every future
 * answer of the model.  The implementation could in addition depend on layout
 * the model abstracts away; the layouts that decide how documented ties are
 * resolved are therefore hashed too: the order of the timer heap array and of
 * every active queue (as model ids).  Harness-side state that influences the
 * future: which slots exist (in the model: used), live watchers and their
 * arena generation is irrelevant (fresh args each time), deferred table
 * initialised, the pool/config (hashed once at the start via the path: it is a
 * choice made before any state is recorded, and part of em_canon through cfg
 * and through each event's `what`). */
static uint64_t canon(void)
{
	uint64_t h = em_canon(&M, 0x45);
	h = mc_hash_u64(h, (uint64_t)base->timeheap.n);
	for (size_t u = 0; u < base->timeheap.n; u++) h = mc_hash_u64(h, (uint64_t)id_of_event(base->timeheap.p[u]));
	for (int p = 0; p < base->nactivequeues; p++) {
		struct event_callback *evcb;
		TAILQ_FOREACH(evcb, &base->activequeues[p], evcb_active_next) h = mc_hash_u64(h, (uint64_t)id_of_evcb(evcb) + 100);
		h = mc_hash_u64(h, 7777);
	}
	h = mc_hash_u64(h, (uint64_t)dcb_inited);
	for (int i = 0; i < nslots; i++) h = mc_hash_u64(h, (uint64_t)(S[i].kind * 8 + S[i].heap * 2 + S[i].exists));
	for (int i = 0; i < nslots; i++) h = mc_hash_u64(h, (uint64_t)(SH[i].armed ? SH[i].deadline - vclock_us : -1) ^ (uint64_t)SH[i].interval << 20);
	h = mc_hash_u64(h, (uint64_t)backend);
	return h;
}

/* ------------------------------------------------------------------ */

static void lcb(int sev, const char *m) { (void)sev; (void)m; }

/* fd-table signature without opendir(): under ASan every opendir() takes a
 * fresh 32 KB chunk through the quarantine, which dominated the run time */
#include <sys/syscall.h>
static uint64_t fd_signature(void)
{
	static char buf[4096];
	uint64_t h = 0;
	int d = open("/proc/self/fd", O_RDONLY | O_DIRECTORY | O_CLOEXEC);
	long n;
	if (d < 0) return 0;
	while ((n = syscall(SYS_getdents64, d, buf, sizeof buf)) > 0) {
		for (long o = 0; o < n; ) {
			struct { uint64_t ino; int64_t off; unsigned short reclen; unsigned char type; char name[]; } *e = (void *)(buf + o);
			if (e->name[0] != '.') { int fd = atoi(e->name); if (fd != d) h += mc_hash_u64(0x1234, (uint64_t)fd); }
			o += e->reclen;
		}
	}
	close(d);
	return h;
}
/* a small quarantine is enough: every use-after-free this harness can provoke
 * happens within the execution that freed the object (a few KB of allocations) */
const char *__asan_default_options(void) { return "quarantine_size_mb=16"; }

static void init(void)
{
	struct sigaction sa;
	char one = 1;
	mcx_alloc_install();
	event_set_log_callback(lcb);
	if (pipe2(pipe_a, O_NONBLOCK | O_CLOEXEC) || pipe2(pipe_b, O_NONBLOCK | O_CLOEXEC) || pipe2(pipe_c, O_NONBLOCK | O_CLOEXEC)) abort();
	if (write(pipe_a[1], &one, 1) != 1) abort();
	memset(&sa, 0, sizeof sa); sa.sa_handler = SIG_IGN;
	sigaction(SIGUSR1, &sa, NULL);
	vclock_reset();
	{
		struct timeval tv;
		gettimeofday(&tv, NULL);
		wall_off = (int64_t)tv.tv_sec * 1000000 + tv.tv_usec - vclock_us;
	}
	p_depth = mc_param("depth", 4);
	p_slots = mc_param("slots", 3);
	p_pools = mc_param("pools", 1);
	p_pool = mc_param("pool", -1);          /* fixed pool index instead of a choice */
	p_cfg = mc_param("cfg", -1);            /* fixed C03 base configuration */
	p_cfgs = mc_param("cfgs", 1);
	p_nocache = mc_param("nocache", 0);      /* 0 cached, 1 NO_CACHE_TIME, 2 both (choice) */
	p_durs = mc_param("durs", 6);
	p_cdurs = mc_param("cdurs", 2);
	p_wake = mc_param("wake", 2);
	p_scripts = mc_param("scripts", 1);
	p_loopmask = mc_param("loops", 3);
	p_npri = mc_param("npri", 0);
	backend = mc_param("backend", 0);
	wait_cap = mc_param("waitcap", WAIT_CAP_DEFAULT);
	if (p_slots > NSLOT) p_slots = NSLOT;
	live0 = mcx_alloc_live(); fdsig0 = fd_signature();
}

static void setup(void)
{
	struct event_config *cfg;
	static const char *methods[] = { "epoll", "poll", "select" };
	int pi = 0, ci = 0;
	const struct pool *pools; int npools;
	vclock_reset();
	vclock_block_hook = block_hook; vclock_prewait_hook = prewait; vclock_postwait_hook = postwait; vclock_idle_hook = NULL;
	dead = 0; in_loop = in_cb = 0; wait_serial = 0; iter_reading = 0; nhwarg = 0; dcb_inited = 0; iter_open = check_phase_open = 0;
	cur_watch_cb_type = -1; wake_max = p_wake;
	memset(HW, 0, sizeof HW);
	memset(dcb, 0, sizeof dcb);
	shadow_reset();
	shadow_on = PROP == 1;

	memset(&CFG, 0, sizeof CFG);
	CFG.npri = 1; CFG.maxcb = EM_NOLIMIT; CFG.maxtime = -1; CFG.limit_after = 1;
	switch (PROP) {
	case 1: pools = POOL_C01; npools = 1; CFG.npri = p_npri ? p_npri : 1; break;
	case 2: pools = POOL_C02; npools = (int)(sizeof POOL_C02 / sizeof POOL_C02[0]); CFG.npri = 3; break;
	case 3: pools = POOL_C03; npools = 1; break;
	default: pools = POOL_C45; npools = 1; CFG.npri = 1; break;
	}
	if (p_pool >= 0 && p_pool < npools) pi = p_pool;
	else {
		if (p_pools < npools) npools = p_pools;
		if (npools > 1) pi = mc_choose(npools, 0, "pool");
	}
	pool = &pools[pi];
	if (PROP == 3) {
		int n = (int)(sizeof BCFG_C03 / sizeof BCFG_C03[0]);
		if (p_cfg >= 0 && p_cfg < n) ci = p_cfg;
		else {
			if (p_cfgs < n) n = p_cfgs;
			if (n > 1) ci = mc_choose(n, 0, "cfg");
		}
		CFG.npri = BCFG_C03[ci].npri; CFG.maxcb = BCFG_C03[ci].maxcb < 0 ? EM_NOLIMIT : BCFG_C03[ci].maxcb;
		CFG.maxtime = BCFG_C03[ci].maxtime; CFG.limit_after = BCFG_C03[ci].limit_after;
	}
	if (p_nocache == 2) CFG.no_cache = mc_choose(2, 0, "nocache"); else CFG.no_cache = p_nocache;
	mc_observe("cfg[pool%d pri%d cb%d t%lld lim%d nc%d] ", pi, CFG.npri, CFG.maxcb == EM_NOLIMIT ? -1 : CFG.maxcb, (long long)CFG.maxtime, CFG.limit_after, CFG.no_cache);

	cfg = event_config_new();
	for (int b = 0; b < 3; b++) if (b != backend) event_config_avoid_method(cfg, methods[b]);
	event_config_set_flag(cfg, EVENT_BASE_FLAG_IGNORE_ENV);
	if (CFG.no_cache) event_config_set_flag(cfg, EVENT_BASE_FLAG_NO_CACHE_TIME);
	if (CFG.maxcb != EM_NOLIMIT || CFG.maxtime >= 0) {
		struct timeval tv = { (time_t)(CFG.maxtime / 1000000), (suseconds_t)(CFG.maxtime % 1000000) };
		event_config_set_max_dispatch_interval(cfg, CFG.maxtime >= 0 ? &tv : NULL, CFG.maxcb == EM_NOLIMIT ? -1 : CFG.maxcb, CFG.limit_after);
	}
	base = event_base_new_with_config(cfg);
	event_config_free(cfg);
	if (!base) { fprintf(stderr, "evcore: cannot create base for backend %d\n", backend); abort(); }
	if (CFG.npri > 1 && event_base_priority_init(base, CFG.npri) != 0) abort();
	base->weakrand_seed.seed = 12345;
	orig_sig_cb = base->sig.ev_signal.ev_callback;
	base->sig.ev_signal.ev_callback = tramp_sig;
	em_init(&M, &CFG);
	M.clock = vclock_us;

	nslots = 0;
	for (int i = 0; i < NSLOT && i < p_slots; i++) {
		struct slot *s = &S[i];
		if (pool->kind[i] == K_NONE) break;
		memset(s, 0, sizeof *s);
		s->id = i; s->kind = pool->kind[i]; s->pri0 = pool->pri[i]; s->heap = !(i & 1);
		switch (kind_fdobj[s->kind]) {
		case EM_FD_RD_READY: s->fd = (kind_what[s->kind] & EV_SIGNAL) ? SIGUSR1 : pipe_a[0]; break;
		case EM_FD_RD_EMPTY: s->fd = pipe_b[0]; break;
		case EM_FD_WR_READY: s->fd = pipe_c[1]; break;
		default: s->fd = -1; break;
		}
		if (kind_what[s->kind] & EV_SIGNAL) s->fd = SIGUSR1;
		nslots++;
		do_new(i);
	}
}

static void teardown(void)
{
	struct sigaction sa;
	sigset_t cur;
	for (int i = 0; i < nslots; i++) if (S[i].exists) { if (S[i].heap) event_free(S[i].ev); else { event_del(S[i].ev); event_debug_unassign(S[i].ev); } S[i].exists = 0; }
	event_base_free(base);
	base = NULL;
	vclock_block_hook = NULL; vclock_prewait_hook = NULL; vclock_postwait_hook = NULL;
	if (mcx_alloc_live() != live0) mc_fail("hygiene/leak", "%ld library allocations left after event_base_free", mcx_alloc_live() - live0);
	if (fd_signature() != fdsig0) mc_fail("hygiene/fdleak", "fd table differs from baseline after event_base_free");
	sigaction(SIGUSR1, NULL, &sa);
	if (sa.sa_handler != SIG_IGN) { mc_fail("hygiene/signal-disposition", "SIGUSR1 disposition not restored"); sa.sa_handler = SIG_IGN; sa.sa_flags = 0; sigaction(SIGUSR1, &sa, NULL); }
	sigprocmask(SIG_SETMASK, NULL, &cur);
	if (sigismember(&cur, SIGUSR1)) mc_fail("hygiene/signal-mask", "SIGUSR1 left blocked");
}

static void body(void)
{
	int pruned = 0;
	setup();
	depth_left = p_depth;
	compare_all("initial");
	while (depth_left > 0 && !dead) {
		struct op o;
		int c;
		build_ops();
		c = mc_choose(nops + 1, 0, "op");
		if (!c) { depth_left = 0; break; }
		depth_left--;
		o = OPS[c - 1];
		MC_COUNT("ops_run");
		apply_op(&o);
		compare_all("after op");
		if (dead) break;
		if (mc_state(canon(), depth_left)) { MC_COUNT("pruned"); pruned = 1; depth_left = 0; break; }
	}
	if (!dead && !pruned && PROP == 3) {
		/* never lost: a final draining loop runs everything that is still queued */
		mc_observe("drain ");
		for (int k = 0; k < 3 && !dead && (M.nactive || event_base_get_num_events(base, EVENT_BASE_COUNT_ACTIVE)); k++) do_loop(EVLOOP_NONBLOCK);
		if (!dead && !horizon_hit && (M.nactive || event_base_get_num_events(base, EVENT_BASE_COUNT_ACTIVE)) && !event_base_got_break(base) && !event_base_got_exit(base)) {
			MSG("after draining loops %d callbacks are still queued", event_base_get_num_events(base, EVENT_BASE_COUNT_ACTIVE));
			FAIL("%s/never-lost/still-queued", P);
		}
		MC_COUNT("oracle_c03_drained");
	}
	teardown();
}

int main(int argc, char **argv)
{
	static struct mc_config cfg;
	PROP = 1;
	for (int i = 1; i + 1 < argc; i++) if (!strcmp(argv[i], "-P") && !strncmp(argv[i + 1], "prop=", 5)) PROP = atoi(argv[i + 1] + 5);
	P = PROP == 1 ? "C01" : PROP == 2 ? "C02" : PROP == 3 ? "C03" : "C45";
	cfg.property = P; cfg.body = body; cfg.init = init; cfg.default_split = 2;
	return mc_main(argc, argv, &cfg);
}
