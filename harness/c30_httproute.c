/* C30 — request routing of the evhttp server: path callbacks, general callback,
 * virtual hosts (patterns, aliases, nesting), allowed-method mask.
 *
 * Shard mode.  item = (slice, vhost structure, path set, gencb mode, method
 * mask, method, request-target, Host value).  One fresh server per item, one
 * request in one write.  Observed: which callback (node, path) received the
 * request and the final status.  Compared with a reference matcher written
 * from include/event2/http.h:
 *   - method outside the LISTENING server's allowed mask (or unknown) → 501, no callback;
 *     a selected vhost's own mask (same / default / complement, field vm) never matters
 *   - host = host of an absolute-form target, else Host header (port removed), else none
 *   - vhost: an alias equal to the host (ASCII case-insensitive) anywhere in the
 *     tree wins; otherwise descend from the root into the first child whose
 *     glob pattern (only '*' used here, matches any run of characters including
 *     none, case-insensitive) matches, repeatedly; no match → root
 *   - path = percent-decoded (once, '+' kept) path component; the callback whose
 *     registered path is byte-for-byte equal (same length) is called, otherwise
 *     the chosen server's general callback, otherwise 404.
 */
#include "httpsrv.h"

#define MAXN 6
struct node { const char *pattern; const char *aliases[2]; int parent; };
struct vstruct { const char *name; int n; struct node nd[MAXN]; };

/* node 0 is the root; children are added in index order to their parent */
static const struct vstruct VS[] = {
	{ "V0-root-only", 1, { { NULL, { NULL, NULL }, -1 } } },
	{ "V1-siblings", 4, { { NULL, { NULL, NULL }, -1 }, { "*.ex.com", { NULL, NULL }, 0 }, { "ex.*", { NULL, NULL }, 0 }, { "a*z.com", { NULL, NULL }, 0 } } },
	{ "V2-nested", 5, { { NULL, { NULL, NULL }, -1 }, { "*.ex.com", { NULL, NULL }, 0 }, { "foo.ex.com", { NULL, NULL }, 1 }, { "bar*", { NULL, NULL }, 1 }, { "*", { NULL, NULL }, 0 } } },
	{ "V3-aliases", 4, { { NULL, { "root.alias", NULL }, -1 }, { "v.ex.com", { "Alias.Org", "second.alias" }, 0 }, { "*.org", { NULL, NULL }, 0 }, { "never.match", { "deep.alias", NULL }, 2 } } },
	{ "V4-star-edges", 5, { { NULL, { NULL, NULL }, -1 }, { "ex*", { NULL, NULL }, 0 }, { "ex*", { NULL, NULL }, 0 }, { "*ex", { NULL, NULL }, 0 }, { "e*x*", { NULL, NULL }, 0 } } },
	{ "V5-case-order", 3, { { NULL, { NULL, NULL }, -1 }, { "*.EX.com", { NULL, NULL }, 0 }, { "www.ex.com", { NULL, NULL }, 0 } } },
};
#define NVS ((int)(sizeof VS / sizeof VS[0]))

static const char *const PS[][6] = {
	{ NULL },
	{ "/a", NULL },
	{ "/a", "/a/", "/a/b", "/", NULL },
	{ "/A", "/a b", "/a+b", "/a%2Fb", "/a?x", NULL },
	{ "/%61", "/a;p", "/a%", "/a\x01", "/a/../a", NULL },
};
#define NPS 5

struct tgt { const char *tag; const char *text; };
static const struct tgt TG[] = {
	{ "plain", "/a" }, { "trailing-slash", "/a/" }, { "sub", "/a/b" }, { "pct-slash", "/a%2Fb" }, { "pct-slash-lc", "/a%2fb" },
	{ "pct-letter", "/%61" }, { "pct-first-slash", "/%2Fa" }, { "pct-nul", "/a%00b" }, { "pct-nul", "/a%00" }, { "pct-nul", "/%00" },
	{ "query", "/a?x" }, { "query-with-slash", "/a?x=/a/" }, { "empty-query", "/a/?" }, { "case", "/A" }, { "pct-space", "/a%20b" },
	{ "plus", "/a+b" }, { "root", "/" }, { "unregistered", "/zz" }, { "pct-incomplete", "/a%" }, { "pct-incomplete", "/a%4" },
	{ "pct-nonhex", "/a%zz" }, { "pct-pct", "/%2561" }, { "inner-double-slash", "/a//b" }, { "semicolon", "/a;p" }, { "pct-question", "/a%3Fx" },
	{ "pct-ctl", "/a%01" }, { "dot-segments", "/a/../a" },
	{ "absolute-form", "http://h/a" }, { "absolute-form", "http://www.ex.com/a" }, { "absolute-form", "http://WWW.EX.COM:81/a/" },
	{ "absolute-form", "http://ex/a" }, { "pct-nul", "https://alias.org/a%00b" }, { "absolute-form", "http://u@bar.ex.com:8/zz?q" },
};
#define NTG ((int)(sizeof TG / sizeof TG[0]))

static const char *const HOSTS[] = {
	NULL, "h", "www.ex.com", "WWW.Ex.CoM", "www.ex.com:8080", "www.ex.com:", "ex.com", ".ex.com", "ex.org", "ex.", "ex",
	"foo.ex.com", "bar.ex.com", "barn", "bar", "alias.org", "ALIAS.ORG:80", "second.alias", "root.alias", "deep.alias", "v.ex.com",
	"a.z.com", "az.com", "axz.com", "x.org", "", "www.ex.com.", "xex", "eax", "[::1]:80", "exex", "foo.ex.com:x",
};
#define NHOSTS ((int)(sizeof HOSTS / sizeof HOSTS[0]))

struct meth { const char *name; unsigned bit; };
static const struct meth METH[] = {
	/* the first five are the subset crossed with the full routing product in the thorough tier */
	{ "GET", EVHTTP_REQ_GET }, { "POST", EVHTTP_REQ_POST }, { "PATCH", EVHTTP_REQ_PATCH }, { "EXTB", SRV_EXT_B }, { "FOO", 0 },
	{ "HEAD", EVHTTP_REQ_HEAD }, { "PUT", EVHTTP_REQ_PUT }, { "DELETE", EVHTTP_REQ_DELETE }, { "OPTIONS", EVHTTP_REQ_OPTIONS },
	{ "TRACE", EVHTTP_REQ_TRACE }, { "PROPFIND", EVHTTP_REQ_PROPFIND }, { "MOVE", EVHTTP_REQ_MOVE }, { "EXTN", SRV_EXT_N }, { "get", 0 },
};
#define NMETH ((int)(sizeof METH / sizeof METH[0]))
#define MASK_DEFAULT 0xfffffffeu   /* marker: leave evhttp's default (GET POST HEAD PUT DELETE) */
static const unsigned MASKS[] = { MASK_DEFAULT, EVHTTP_REQ_GET, SRV_ALL_METHODS, 0, EVHTTP_REQ_POST | EVHTTP_REQ_PATCH | SRV_EXT_B, EVHTTP_REQ_MOVE | SRV_EXT_N };
#define NMASKS 6
#define DEFAULT_MASK (EVHTTP_REQ_GET | EVHTTP_REQ_POST | EVHTTP_REQ_HEAD | EVHTTP_REQ_PUT | EVHTTP_REQ_DELETE)

/* gencb mode: bit0 = root has a general callback, bit1 = the vhosts have one */
#define NGEN 4

/* vm = what the vhosts' own allowed-method masks are: 0 same as the listening server's,
 * 1 left at evhttp_new()'s default, 2 the complement of the listening server's mask.
 * The listening (root) server's mask decides in every mode (see ref_route). */
struct cfg { int vs, ps, gen, mask, meth, tg, host, vm; };

/* ---- slices (mixed radix) ---- */
struct slice { const char *name; int dims[7]; /* radix per field, 0 = fixed at fix[] */ int fix[7]; /* fixed value, or first value when enumerated */ int vm; uint64_t size; };
/* field order: vs ps gen mask meth tg host */
static struct slice SL[8]; static int nsl; static uint64_t total;

static void add_slice(const char *name, const int dims[7], const int fix[7], int vm)
{
	struct slice *s = &SL[nsl++];
	s->name = name; s->size = 1; s->vm = vm;
	for (int i = 0; i < 7; i++) { s->dims[i] = dims[i]; s->fix[i] = fix[i]; if (dims[i]) s->size *= (uint64_t)dims[i]; }
	total += s->size;
}

static void decode_item(uint64_t it, struct cfg *c, const char **slname)
{
	int v[7];
	for (int k = 0; k < nsl; k++) {
		if (it >= SL[k].size) { it -= SL[k].size; continue; }
		for (int i = 6; i >= 0; i--) {
			/* fix[] is the fixed value of a collapsed field, or the offset of an enumerated one */
			if (SL[k].dims[i]) { v[i] = SL[k].fix[i] + (int)(it % (uint64_t)SL[k].dims[i]); it /= (uint64_t)SL[k].dims[i]; }
			else v[i] = SL[k].fix[i];
		}
		*slname = SL[k].name; c->vm = SL[k].vm;
		break;
	}
	c->vs = v[0]; c->ps = v[1]; c->gen = v[2]; c->mask = v[3]; c->meth = v[4]; c->tg = v[5]; c->host = v[6];
}

/* ------------------------------------------------------------------ */
/* reference matcher                                                    */

static int rlc(int ch) { return (ch >= 'A' && ch <= 'Z') ? ch + 32 : ch; }
static int ieq_str(const char *a, const char *b)
{
	for (; *a && *b; a++, b++) if (rlc((unsigned char)*a) != rlc((unsigned char)*b)) return 0;
	return *a == *b;
}
/* shell glob with '*' only: '*' matches any run of characters, including the empty one */
static int glob_ci(const char *pat, const char *s)
{
	if (*pat == 0) return *s == 0;
	if (*pat == '*') {
		for (const char *t = s;; t++) { if (glob_ci(pat + 1, t)) return 1; if (!*t) return 0; }
	}
	if (*s && rlc((unsigned char)*pat) == rlc((unsigned char)*s)) return glob_ci(pat + 1, s + 1);
	return 0;
}

static int ref_alias_search(const struct vstruct *v, int node, const char *host)
{
	for (int a = 0; a < 2; a++) if (v->nd[node].aliases[a] && ieq_str(v->nd[node].aliases[a], host)) return node;
	for (int ch = 0; ch < v->n; ch++)
		if (v->nd[ch].parent == node) { int r = ref_alias_search(v, ch, host); if (r >= 0) return r; }
	return -1;
}
static int ref_vhost(const struct vstruct *v, const char *host, int *via_alias)
{
	int node = 0, r;
	*via_alias = 0;
	if (!host) return 0;
	if ((r = ref_alias_search(v, 0, host)) >= 0) { *via_alias = 1; return r; }
	for (;;) {
		int next = -1;
		for (int ch = 0; ch < v->n; ch++)
			if (v->nd[ch].parent == node && glob_ci(v->nd[ch].pattern, host)) { next = ch; break; }
		if (next < 0) return node;
		node = next;
	}
}

/* split the request-target (RFC 3986 appendix B): host of an absolute-form (userinfo and port removed), path */
static void ref_split(const char *t, char *host, size_t hcap, int *has_host, char *path, size_t pcap)
{
	const char *p = t, *colon = strchr(t, ':');
	*has_host = 0; host[0] = 0;
	if (colon && t[0] != '/' && colon[1] == '/' && colon[2] == '/') {
		const char *a = colon + 3, *e = a + strcspn(a, "/?#");
		const char *at = memchr(a, '@', (size_t)(e - a));
		if (at) a = at + 1;
		const char *he = e;
		if (*a == '[') { const char *rb = memchr(a, ']', (size_t)(e - a)); if (rb) he = rb + 1; }
		else { const char *pc = memchr(a, ':', (size_t)(e - a)); if (pc) he = pc; }
		snprintf(host, hcap, "%.*s", (int)(he - a), a);
		*has_host = 1;
		p = e;
	}
	size_t n = strcspn(p, "?#");
	snprintf(path, pcap, "%.*s", (int)n, p);
}
static int hexv(int c) { return (c >= '0' && c <= '9') ? c - '0' : (c >= 'a' && c <= 'f') ? c - 'a' + 10 : (c >= 'A' && c <= 'F') ? c - 'A' + 10 : -1; }
static size_t ref_pct_decode(const char *in, unsigned char *out)
{
	size_t o = 0;
	for (size_t i = 0; in[i]; i++) {
		if (in[i] == '%' && hexv((unsigned char)in[i + 1]) >= 0 && in[i + 1] && hexv((unsigned char)in[i + 2]) >= 0) {
			out[o++] = (unsigned char)(hexv((unsigned char)in[i + 1]) * 16 + hexv((unsigned char)in[i + 2])); i += 2;
		} else out[o++] = (unsigned char)in[i];
	}
	return o;
}
/* Host header value with a trailing ":port" (port = *DIGIT) removed */
static void ref_host_header(const char *hv, char *out, size_t cap)
{
	size_t n = strlen(hv), e = n;
	while (e > 0 && hv[e - 1] >= '0' && hv[e - 1] <= '9') e--;
	if (e > 1 && hv[e - 1] == ':') n = e - 1;
	snprintf(out, cap, "%.*s", (int)n, hv);
}

struct verdict { int status; int cb; int node; int via_alias; int host_present; char host[128]; };

static void ref_route(const struct cfg *c, struct verdict *v)
{
	const struct vstruct *vs = &VS[c->vs];
	unsigned mask = MASKS[c->mask] == MASK_DEFAULT ? DEFAULT_MASK : MASKS[c->mask];
	char path[256]; unsigned char dec[256]; int has;
	memset(v, 0, sizeof *v);
	v->cb = -1;
	ref_split(TG[c->tg].text, v->host, sizeof v->host, &has, path, sizeof path);
	v->host_present = has;
	if (!has && HOSTS[c->host]) { ref_host_header(HOSTS[c->host], v->host, sizeof v->host); v->host_present = 1; }
	v->node = ref_vhost(vs, v->host_present ? v->host : NULL, &v->via_alias);
	/* evhttp_set_allowed_methods: "methods supported in requests accepted by this server": the
	 * server that accepted the connection (the root) decides, whatever vhost is selected and
	 * whatever that vhost's own mask is (evhttp_handle_request checks before looking at Host) */
	if ((METH[c->meth].bit & mask) == 0) { v->status = 501; return; }
	size_t dl = ref_pct_decode(path, dec);
	for (int i = 0; PS[c->ps][i]; i++)
		if (strlen(PS[c->ps][i]) == dl && !memcmp(PS[c->ps][i], dec, dl)) { v->status = 200; v->cb = v->node * 10 + i; return; }
	int gen = v->node == 0 ? (c->gen & 1) : (c->gen & 2);
	if (gen) { v->status = 200; v->cb = v->node * 10 + 9; return; }
	v->status = 404;
}

/* ------------------------------------------------------------------ */

static struct evhttp *nodes[MAXN];

static void configure(struct srv *s, void *arg)
{
	const struct cfg *c = arg;
	const struct vstruct *vs = &VS[c->vs];
	for (int i = 0; i < vs->n; i++) {
		struct evhttp *h = i == 0 ? s->http : evhttp_new(s->base);
		nodes[i] = h;
		if (i) {
			evhttp_set_ext_method_cmp(h, srv_ext_cmp);
			if (evhttp_add_virtual_host(nodes[vs->nd[i].parent], vs->nd[i].pattern, h) != 0) mc_fail("harness:add_virtual_host", "%s", vs->nd[i].pattern);
		}
		unsigned rootmask = MASKS[c->mask] == MASK_DEFAULT ? DEFAULT_MASK : MASKS[c->mask];
		if (i == 0) evhttp_set_allowed_methods(h, rootmask);   /* srv_open() had opened it up to all methods */
		else if (c->vm == 0) { if (MASKS[c->mask] != MASK_DEFAULT) evhttp_set_allowed_methods(h, rootmask); }
		else if (c->vm == 2) evhttp_set_allowed_methods(h, SRV_ALL_METHODS & ~rootmask);
		/* vm == 1: the vhost keeps the default mask of evhttp_new() */
		for (int a = 0; a < 2; a++) if (vs->nd[i].aliases[a]) evhttp_add_server_alias(h, vs->nd[i].aliases[a]);
		for (int p = 0; PS[c->ps][p]; p++)
			if (evhttp_set_cb(h, PS[c->ps][p], srv_handler, (void *)(intptr_t)(i * 10 + p)) != 0) mc_fail("harness:set_cb", "%s", PS[c->ps][p]);
		if (i == 0 ? (c->gen & 1) : (c->gen & 2)) evhttp_set_gencb(h, srv_handler, (void *)(intptr_t)(i * 10 + 9));
	}
}

static void item(uint64_t it)
{
	struct cfg c; const char *sl = "?";
	struct srv s; struct verdict v;
	char req[512], e1[300];
	decode_item(it, &c, &sl);
	ref_route(&c, &v);
	int n = snprintf(req, sizeof req, "%s %s HTTP/1.1\r\n", METH[c.meth].name, TG[c.tg].text);
	if (HOSTS[c.host]) n += snprintf(req + n, sizeof req - (size_t)n, "Host: %s\r\n", HOSTS[c.host]);
	n += snprintf(req + n, sizeof req - (size_t)n, "\r\n");

	if (srv_open(&s, configure, &c) < 0) return;
	srv_send(&s, (unsigned char *)req, (size_t)n);
	srv_pump(&s);
	srv_parse_responses(&s);
	int got_cb = s.nreq ? s.req[0].cb_id : -1;
	int got_status = s.nfinal ? s.final[0] : 0;
	mc_observe("[%s] %s ps=%d gen=%d vm=%d mask=%#x | %s -> ref %d cb=%d (host %s%s, node %d) | impl %d cb=%d", sl, VS[c.vs].name, c.ps, c.gen, c.vm,
	    MASKS[c.mask] == MASK_DEFAULT ? DEFAULT_MASK : MASKS[c.mask], srv_show((unsigned char *)req, (size_t)n, e1, sizeof e1), v.status, v.cb,
	    v.host_present ? "=" : "absent", v.host, v.node, got_status, got_cb);
	mc_nontrivial(mc_hash_u64(mc_hash_u64(7, (uint64_t)(got_cb + 2)), (uint64_t)got_status) ^ mc_hash(0, VS[c.vs].name, strlen(VS[c.vs].name)) ^ (uint64_t)c.tg * 1315423911u ^ (uint64_t)c.host << 40);

	const char *ttag = TG[c.tg].tag;
	char key[200];
	if (s.nreq > 1 || s.nfinal > 1) mc_fail("C30/more-than-one-dispatch", "%d callbacks, %d responses for one request", s.nreq, s.nfinal);
	if (v.status == 501) {
		MC_COUNT("oracle_method_filter_501");
		if (got_status != 501 || got_cb != -1) {
			if (c.vm && v.node) snprintf(key, sizeof key, "C30/method-outside-mask-not-501/vhost-with-own-mask");
			else snprintf(key, sizeof key, "C30/method-outside-mask-not-501/%s", METH[c.meth].name);
			mc_fail(key, "%s vhost-mask-mode=%d host %s -> node %d: method %s is outside the listening server's mask %#x: expected 501 and no callback, got status %d callback %d", VS[c.vs].name, c.vm, v.host_present ? v.host : "(none)", v.node, METH[c.meth].name, MASKS[c.mask], got_status, got_cb);
		}
	} else if (got_status == 501) {
		MC_COUNT("oracle_method_filter_allowed");
		if (c.vm && v.node) snprintf(key, sizeof key, "C30/allowed-method-rejected/vhost-with-own-mask");
		else snprintf(key, sizeof key, "C30/allowed-method-rejected/%s", METH[c.meth].name);
		mc_fail(key, "%s vhost-mask-mode=%d host %s -> node %d: method %s is inside the listening server's mask %#x but was answered 501", VS[c.vs].name, c.vm, v.host_present ? v.host : "(none)", v.node, METH[c.meth].name, MASKS[c.mask]);
	} else {
		MC_COUNT("oracle_method_filter_allowed");
		int got_node = got_cb >= 0 ? got_cb / 10 : -1;
		if (v.cb >= 0 && v.cb % 10 == 9) MC_COUNT("oracle_route_gencb"); else if (v.cb >= 0) MC_COUNT("oracle_route_path_cb"); else MC_COUNT("oracle_route_404");
		if (v.node) MC_COUNT("oracle_vhost_selected"); else MC_COUNT("oracle_vhost_root");
		if (got_cb != v.cb || got_status != v.status) {
			if (got_cb >= 0 && v.cb >= 0 && got_node != v.node) {
				/* class of the vhost the reference chose: by alias, or by which kind of pattern */
				const char *pat = VS[c.vs].nd[v.node].pattern;
				const char *cls = v.node == 0 ? "root" : v.via_alias ? "alias" :
				    pat[strlen(pat) - 1] == '*' ? "pattern-ending-in-star" : pat[0] == '*' ? "pattern-starting-with-star" :
				    strchr(pat, '*') ? "pattern-with-inner-star" : "literal-pattern";
				snprintf(key, sizeof key, "C30/wrong-vhost/expected-%s", cls);
			}
			else if (got_status == 400)
				snprintf(key, sizeof key, "C30/routable-request-rejected/target:%s", ttag);
			else
				snprintf(key, sizeof key, "C30/wrong-callback/target:%s", ttag);
			mc_fail(key, "%s ps=%d gen=%d request [%s]: reference: host %s%s -> node %d, status %d callback %d; server: status %d callback %d", VS[c.vs].name,
			    c.ps, c.gen, srv_show((unsigned char *)req, (size_t)n, e1, sizeof e1), v.host_present ? "=" : "absent", v.host, v.node, v.status, v.cb, got_status, got_cb);
		}
	}
	srv_half_close(&s);
	srv_free_reqs(&s);
	srv_close(&s, "C30", VS[c.vs].name);
}

static void init(void) { srv_global_init(); }

int main(int argc, char **argv)
{
	int thorough = 0;
	for (int i = 1; i + 1 < argc; i++) if (!strcmp(argv[i], "-P") && !strcmp(argv[i + 1], "full=1")) thorough = 1;
	/* field order: vs ps gen mask meth tg host;  mask index 2 = all methods, meth 0 = GET, gen 3 = both */
	if (!thorough) {
		/* methods x masks, on the root and through a vhost */
		add_slice("methods", (int[7]){ 2, 0, 0, NMASKS, NMETH, 3, 0 }, (int[7]){ 0, 2, 3, 0, 0, 0, 2 }, 0);
		/* the vhosts keep their own mask (default / complement): the listening server's mask still decides.
		 * structure V1, hosts {none, "h", "www.ex.com" (selects *.ex.com)} */
		add_slice("methods-vhost-default-mask", (int[7]){ 0, 0, 0, NMASKS, NMETH, 3, 3 }, (int[7]){ 1, 2, 3, 0, 0, 0, 0 }, 1);
		add_slice("methods-vhost-complement-mask", (int[7]){ 0, 0, 0, NMASKS, NMETH, 3, 3 }, (int[7]){ 1, 2, 3, 0, 0, 0, 0 }, 2);
		/* path dispatch: path sets x gencb x targets, three hosts, two structures */
		add_slice("paths", (int[7]){ 2, NPS, NGEN, 0, 0, NTG, 3 }, (int[7]){ 0, 0, 0, 2, 0, 0, 0 }, 0);
		/* vhost choice: structures x hosts, path set 1, gencb everywhere / only vhosts */
		add_slice("vhosts", (int[7]){ NVS, 0, 2, 0, 0, 0, NHOSTS }, (int[7]){ 0, 1, 2, 2, 0, 0, 0 }, 0);
		/* absolute-form targets against every structure and Host value */
		add_slice("absolute", (int[7]){ NVS, 0, 0, 0, 0, 6, NHOSTS }, (int[7]){ 0, 1, 3, 2, 0, NTG - 6, 0 }, 0);
	} else {
		add_slice("methods", (int[7]){ NVS, 0, 0, NMASKS, NMETH, 3, 4 }, (int[7]){ 0, 2, 3, 0, 0, 0, 0 }, 0);
		add_slice("methods-vhost-default-mask", (int[7]){ NVS, 0, 0, NMASKS, NMETH, 3, 4 }, (int[7]){ 0, 2, 3, 0, 0, 0, 0 }, 1);
		add_slice("methods-vhost-complement-mask", (int[7]){ NVS, 0, 0, NMASKS, NMETH, 3, 4 }, (int[7]){ 0, 2, 3, 0, 0, 0, 0 }, 2);
		/* the full routing product, crossed with 5 methods x all masks x the three vhost-mask modes */
		add_slice("routing", (int[7]){ NVS, NPS, NGEN, NMASKS, 5, NTG, NHOSTS }, (int[7]){ 0, 0, 0, 0, 0, 0, 0 }, 0);
		add_slice("routing-vhost-default-mask", (int[7]){ NVS, NPS, NGEN, NMASKS, 5, NTG, NHOSTS }, (int[7]){ 0, 0, 0, 0, 0, 0, 0 }, 1);
		add_slice("routing-vhost-complement-mask", (int[7]){ NVS, NPS, NGEN, NMASKS, 5, NTG, NHOSTS }, (int[7]){ 0, 0, 0, 0, 0, 0, 0 }, 2);
	}
	struct mc_config cfg = { .property = "C30", .init = init, .n_items = total, .item = item };
	return mc_main(argc, argv, &cfg);
}
