/* dnspkt family (C33 C35 C36 C37) — shared harness plumbing.
 *
 * Included AFTER `#include "evdns.c"` by each harness translation unit, so the
 * static parsers and the private structs of evdns.c are visible.  Everything
 * here is `static`; the file defines no oracle, only transport and capture.
 *
 * Determinism: every execution builds a fresh event_base + evdns_base /
 * server port + sockets and destroys them; the RNG behind transaction ids and
 * 0x20 bits is scripted (--wrap=evutil_secure_rng_get_bytes); time is the
 * virtual clock; the harness waits for loopback delivery with the *real* poll
 * (so outcomes never depend on timing).
 */
#ifndef DNSPKT_COMMON_H
#define DNSPKT_COMMON_H
#include "mcx.h"
#include "vclock.h"
#include "dnswire.h"
#include <poll.h>
#include <unistd.h>
#include <fcntl.h>
#include <errno.h>
#include <stdlib.h>
#include <stdio.h>
#include <stdarg.h>
#include <string.h>
#include <netinet/tcp.h>
#include <event2/listener.h>
#include <event2/dns.h>
#include <event2/dns_struct.h>

#define DP_UNUSED __attribute__((unused))

/* ---- real poll (vclock wraps poll for libevent) ---- */
int __real_poll(struct pollfd *, nfds_t, int);
static DP_UNUSED int dp_wait_fd(int fd, short ev, int ms)
{
	struct pollfd p = { fd, ev, 0 };
	int r;
	do r = __real_poll(&p, 1, ms); while (r < 0 && errno == EINTR);
	return r > 0 ? p.revents : 0;
}

/* ---- scripted RNG ---- */
#define DP_RNG_Q 16
static uint8_t dp_rng_q[DP_RNG_Q][40]; static int dp_rng_qlen[DP_RNG_Q], dp_rng_head, dp_rng_tail;
static unsigned dp_rng_calls; static uint16_t dp_rng_next_id;
static DP_UNUSED void dp_rng_reset(void) { dp_rng_head = dp_rng_tail = 0; dp_rng_calls = 0; dp_rng_next_id = 0x2a00; }
static DP_UNUSED void dp_rng_push(const void *p, int n)
{
	if (dp_rng_tail - dp_rng_head >= DP_RNG_Q) return;
	int s = dp_rng_tail++ % DP_RNG_Q;
	if (n > 40) n = 40;
	memcpy(dp_rng_q[s], p, n); dp_rng_qlen[s] = n;
}
static DP_UNUSED void dp_rng_push_id(uint16_t id) { dp_rng_push(&id, 2); }         /* native order, as evdns reads it */
static DP_UNUSED void dp_rng_push_fill(uint8_t b) { uint8_t t[40]; memset(t, b, 40); dp_rng_push(t, 40); }
void __wrap_evutil_secure_rng_get_bytes(void *buf, size_t n);
void __wrap_evutil_secure_rng_get_bytes(void *buf, size_t n)
{
	uint8_t *o = buf;
	dp_rng_calls++;
	if (dp_rng_head < dp_rng_tail) {
		int s = dp_rng_head++ % DP_RNG_Q, l = dp_rng_qlen[s];
		for (size_t i = 0; i < n; i++) o[i] = l ? dp_rng_q[s][i < (size_t)l ? i : (size_t)l - 1] : 0;
		return;
	}
	/* unscripted: a fresh id-like value for 2-byte reads, 0x55 bits otherwise */
	if (n == 2) { uint16_t v = dp_rng_next_id++; if (v == 0xffff) v = dp_rng_next_id++; memcpy(o, &v, 2); return; }
	memset(o, 0x55, n);
}

/* warnings are expected by the thousands; errors (failed EVUTIL_ASSERT -> event_errx) must stay visible for the crash key */
static DP_UNUSED void dp_quiet_log(int sev, const char *msg) { if (sev >= EVENT_LOG_ERR) { fprintf(stderr, "[err] %s\n", msg); printf("[err] %s\n", msg); fflush(stdout); } }
static DP_UNUSED void dp_quiet_dnslog(int w, const char *msg) { (void)w; (void)msg; }

/* ---- sockets ---- */
static DP_UNUSED int dp_udp_bound(struct sockaddr_in *sin)
{
	int s = socket(AF_INET, SOCK_DGRAM | SOCK_NONBLOCK | SOCK_CLOEXEC, 0);
	socklen_t sl = sizeof *sin;
	if (s < 0) return -1;
	memset(sin, 0, sizeof *sin);
	sin->sin_family = AF_INET; sin->sin_addr.s_addr = htonl(INADDR_LOOPBACK); sin->sin_port = 0;
	if (bind(s, (struct sockaddr *)sin, sizeof *sin) < 0 || getsockname(s, (struct sockaddr *)sin, &sl) < 0) { close(s); return -1; }
	int big = 1 << 20;
	setsockopt(s, SOL_SOCKET, SO_RCVBUF, &big, sizeof big);
	setsockopt(s, SOL_SOCKET, SO_SNDBUF, &big, sizeof big);
	return s;
}
static DP_UNUSED int dp_tcp_listener(struct sockaddr_in *sin)
{
	/* no SO_REUSEADDR: with it two sockets may be given the same ephemeral port and the second listen() fails */
	for (int attempt = 0; attempt < 20; attempt++) {
		int s = socket(AF_INET, SOCK_STREAM | SOCK_NONBLOCK | SOCK_CLOEXEC, 0);
		socklen_t sl = sizeof *sin;
		if (s < 0) return -1;
		memset(sin, 0, sizeof *sin);
		sin->sin_family = AF_INET; sin->sin_addr.s_addr = htonl(INADDR_LOOPBACK); sin->sin_port = 0;
		if (bind(s, (struct sockaddr *)sin, sizeof *sin) == 0 && listen(s, 8) == 0 && getsockname(s, (struct sockaddr *)sin, &sl) == 0) return s;
		close(s);
		if (errno != EADDRINUSE) return -1;
	}
	return -1;
}
/* blocking-with-deadline helpers on a non-blocking stream socket */
static DP_UNUSED int dp_write_all(int fd, const void *p, size_t n)
{
	const uint8_t *c = p;
	while (n) {
		ssize_t w = send(fd, c, n, MSG_NOSIGNAL);
		if (w > 0) { c += w; n -= (size_t)w; continue; }
		if (w < 0 && (errno == EAGAIN || errno == EINTR)) { if (!dp_wait_fd(fd, POLLOUT, 2000)) return -1; continue; }
		return -1;
	}
	return 0;
}

/* ---- a growable byte buffer with patching, for message grammars ---- */
struct dp_buf { uint8_t b[70000]; size_t n; };
static DP_UNUSED void dp_u8(struct dp_buf *w, unsigned v) { if (w->n < sizeof w->b) w->b[w->n++] = (uint8_t)v; }
static DP_UNUSED void dp_u16(struct dp_buf *w, unsigned v) { dp_u8(w, v >> 8); dp_u8(w, v); }
static DP_UNUSED void dp_u32(struct dp_buf *w, uint32_t v) { dp_u16(w, v >> 16); dp_u16(w, v & 0xffff); }
static DP_UNUSED void dp_bytes(struct dp_buf *w, const void *p, size_t n) { const uint8_t *c = p; while (n--) dp_u8(w, *c++); }
static DP_UNUSED void dp_fill(struct dp_buf *w, unsigned v, size_t n) { while (n--) dp_u8(w, v); }
static DP_UNUSED void dp_patch16(struct dp_buf *w, size_t at, unsigned v) { w->b[at] = (uint8_t)(v >> 8); w->b[at + 1] = (uint8_t)v; }
/* dotted text -> uncompressed labels (generator convenience; dots split, no validation beyond 63) */
static DP_UNUSED void dp_name(struct dp_buf *w, const char *s)
{
	while (*s) {
		const char *d = strchr(s, '.'); size_t l = d ? (size_t)(d - s) : strlen(s);
		if (l) { dp_u8(w, (unsigned)l); dp_bytes(w, s, l); }
		s += l; if (*s == '.') s++;
	}
	dp_u8(w, 0);
}
static DP_UNUSED void dp_labels_only(struct dp_buf *w, const char *s)   /* like dp_name without the root octet */
{
	while (*s) {
		const char *d = strchr(s, '.'); size_t l = d ? (size_t)(d - s) : strlen(s);
		if (l) { dp_u8(w, (unsigned)l); dp_bytes(w, s, l); }
		s += l; if (*s == '.') s++;
	}
}
static DP_UNUSED void dp_ptr(struct dp_buf *w, unsigned target) { dp_u16(w, 0xc000u | (target & 0x3fff)); }

static DP_UNUSED uint64_t dp_hash_bytes(uint64_t h, const void *p, size_t n) { return mc_hash(h ? h : 1469598103934665603ULL, p, n); }

static DP_UNUSED const char *dp_hex(const uint8_t *p, size_t n, char *out, size_t cap)
{
	size_t o = 0;
	for (size_t i = 0; i < n && o + 3 < cap; i++) o += (size_t)snprintf(out + o, cap - o, "%02x", p[i]);
	out[o] = 0;
	return out;
}

/* ---- debugging aid (replay only): DP_ALLOC_TRACE=1 lists the library allocations made after the last mark and still live ---- */
#include <execinfo.h>
#include <event2/event.h>
#define DP_TR_MAX 4096
static struct { void *p; size_t n; void *bt[14]; int nbt; long seq; } dp_tr[DP_TR_MAX]; static int dp_tr_on; static long dp_tr_seq, dp_tr_mark;
static void *dp_tr_malloc(size_t n) { void *p = malloc(n ? n : 1); if (p) for (int i = 0; i < DP_TR_MAX; i++) if (!dp_tr[i].p) { dp_tr[i].p = p; dp_tr[i].n = n; dp_tr[i].seq = ++dp_tr_seq; dp_tr[i].nbt = backtrace(dp_tr[i].bt, 14); break; } return p; }
static void dp_tr_free(void *p) { if (!p) return; for (int i = 0; i < DP_TR_MAX; i++) if (dp_tr[i].p == p) { dp_tr[i].p = NULL; break; } free(p); }
static void *dp_tr_realloc(void *p, size_t n) { if (!p) return dp_tr_malloc(n); if (!n) { dp_tr_free(p); return NULL; } void *q = realloc(p, n); for (int i = 0; i < DP_TR_MAX; i++) if (dp_tr[i].p == p) { dp_tr[i].p = q; dp_tr[i].n = n; break; } return q; }
static DP_UNUSED int dp_alloc_trace_install(void) { if (!getenv("DP_ALLOC_TRACE")) return 0; dp_tr_on = 1; event_set_mem_functions(dp_tr_malloc, dp_tr_realloc, dp_tr_free); return 1; }
static DP_UNUSED void dp_alloc_trace_mark(void) { dp_tr_mark = dp_tr_seq; }
static DP_UNUSED void dp_alloc_trace_dump(const char *why)
{
	if (!dp_tr_on) return;
	for (int i = 0; i < DP_TR_MAX; i++) if (dp_tr[i].p && dp_tr[i].seq > dp_tr_mark) {
		fprintf(stderr, "--- live allocation %p size %zu seq %ld at: %s\n", dp_tr[i].p, dp_tr[i].n, dp_tr[i].seq, why);
		backtrace_symbols_fd(dp_tr[i].bt + 1, dp_tr[i].nbt - 1, 2);
		dp_tr[i].seq = 0;   /* report once */
	}
}

/* argv pre-scan for -P name=value (mc_main parses them too; we need some before mc_main to size n_items) */
static DP_UNUSED const char *dp_argv_param(int argc, char **argv, const char *name, const char *dflt)
{
	size_t l = strlen(name);
	for (int i = 1; i + 1 < argc; i++)
		if (!strcmp(argv[i], "-P") && !strncmp(argv[i + 1], name, l) && argv[i + 1][l] == '=') return argv[i + 1] + l + 1;
	return dflt;
}
#endif
