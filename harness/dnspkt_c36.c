/* C36 — queries on the wire (evdns_request_data_build, dnsname_to_labels, request_new, search_*).
 *
 * Shard-mode enumeration.  Every item configures a fresh evdns_base whose only
 * nameserver is a loopback socket owned by the harness, issues one request
 * through the public API and captures every datagram (or TCP message) the
 * resolver transmits.  Each captured query is decoded with the RFC 1035
 * reference decoder and compared with what was asked for:
 *   names   : a grammar of presentation names (empty labels, leading/trailing dots, 62..65 octet labels,
 *             252..300 octet names, non-ASCII, blanks) x {A, AAAA} x 0x20 {off, bits 00, ff, 5a} x EDNS {off, 1232}
 *   reverse : resolve_reverse / resolve_reverse_ipv6 for boundary addresses
 *   edns    : "edns-udp-size" values below / at / above the documented bounds
 *   search  : domain lists (API and resolv.conf) x ndots x names x flags, every query answered NXDOMAIN
 *             (or the k-th answered positively): the sequence of names asked is compared with the documented order
 *   retx    : the retransmission after a (virtual) timeout is the same message
 */
#include "evdns.c"
#include "dnspkt_common.h"
#include <stddef.h>
#include <sys/mman.h>
#include <sys/eventfd.h>

/* the warm-up cycle in init() runs outside any item: it must not report */
static int g_warm;
#define mc_fail(...) do { if (!g_warm) (mc_fail)(__VA_ARGS__); } while (0)

enum { F_NAME, F_REVERSE, F_EDNS, F_SEARCH, F_RETX };
struct item { uint8_t fam, tcp; uint16_t a, b, c, d, e; };
static struct item *items; static size_t n_items, cap_items;
static void add_item(int fam, int tcp, int a, int b, int c, int d, int e)
{
	if (n_items == cap_items) { cap_items = cap_items ? cap_items * 2 : 2048; items = realloc(items, cap_items * sizeof *items); }
	struct item *it = &items[n_items++]; it->fam = (uint8_t)fam; it->tcp = (uint8_t)tcp; it->a = (uint16_t)a; it->b = (uint16_t)b; it->c = (uint16_t)c; it->d = (uint16_t)d; it->e = (uint16_t)e;
}

/* ---- name grammar ---- */
#define MAXN 96
static struct { char s[400]; size_t len; const char *tag; int canon; } names[MAXN]; static int n_names;
static void nm_add(const char *tag, const char *s, size_t len, int canon) { memcpy(names[n_names].s, s, len); names[n_names].s[len] = 0; names[n_names].len = len; names[n_names].tag = tag; names[n_names].canon = canon; n_names++; }
static void nm_adds(const char *tag, const char *s, int canon) { nm_add(tag, s, strlen(s), canon); }
static void nm_label(const char *tag, int l, int canon) { char b[400]; memset(b, 'l', (size_t)l); strcpy(b + l, ".test"); nm_adds(tag, b, canon); }
static void nm_total(const char *tag, int total, int dot, int canon)
{	/* labels of 63 (last shorter) separated by dots, `total` characters altogether, optional trailing dot on top */
	char b[400]; int o = 0, run = 0;
	while (o < total) { if (run == 63 && o < total - 1) { b[o++] = '.'; run = 0; } else { b[o++] = (char)('a' + (o % 26)); run++; } }
	if (dot) b[o++] = '.';
	b[o] = 0; nm_adds(tag, b, canon);
}
static void make_names(void)
{
	nm_adds("plain", "example.test", 1); nm_adds("single", "a", 1); nm_adds("mixed", "A.B.c", 1); nm_adds("hyphen-digit", "x-1.y_2.z9", 1);
	nm_adds("digits", "123.45", 1); nm_adds("trailing-dot", "example.test.", 1); nm_adds("upper", "EXAMPLE.TEST", 1);
	nm_adds("utf8", "b\xc3\xbc" "cher.test", 1); nm_adds("high-bytes", "\xff\x80\xe9.test", 1); nm_adds("at-bracket", "@[`{.test", 1);
	nm_adds("blank", "a b.test", 1); nm_adds("tab", "a\tb", 1); nm_adds("wild", "*.wild.test", 1); nm_adds("srv", "_srv._tcp.test", 1);
	nm_adds("backslash", "a\\.b.test", 0); nm_adds("many-labels", "a.b.c.d.e.f.g.h.i.j.k.l.m.n.o.p", 1);
	nm_adds("root-empty", "", 0); nm_adds("root-dot", ".", 0);
	nm_adds("empty-mid", "a..b", 0); nm_adds("empty-lead", ".a", 0); nm_adds("empty-only", "..", 0); nm_adds("empty-trail", "a..", 0); nm_adds("empty-lead2", "..a.test", 0);
	nm_label("label62", 62, 1); nm_label("label63", 63, 1); nm_label("label64", 64, 0); nm_label("label65", 65, 0);
	{ char b[200]; memset(b, 'q', 63); b[63] = 0; nm_adds("label63-only", b, 1); memset(b, 'q', 64); b[64] = 0; nm_adds("label64-only", b, 0); }
	nm_total("total252", 252, 0, 1); nm_total("total253", 253, 0, 1); nm_total("total253-dot", 253, 1, 1); nm_total("total254", 254, 0, 0); nm_total("total254-dot", 254, 1, 0);
	nm_total("total255", 255, 0, 0); nm_total("total256", 256, 0, 0); nm_total("total300", 300, 0, 0);
	{ char b[400]; int o = 0; for (int i = 0; i < 126; i++) { b[o++] = 'a'; b[o++] = '.'; } b[o++] = 'b'; b[o] = 0; nm_adds("127-labels", b, 1);      /* 253 chars, 127 one-octet labels */
	  o = 0; for (int i = 0; i < 127; i++) { b[o++] = 'a'; b[o++] = '.'; } b[o++] = 'b'; b[o] = 0; nm_adds("128-labels", b, 0); }                 /* 255 chars: encodes to 257 octets */
}

/* ---- environment (per item) and capture ---- */
static struct { struct event_base *eb; int usock, lsock, csock; struct sockaddr_in sin, peer; } E = { NULL, -1, -1, -1, {0}, {0} };
static struct evdns_base *g_dns;
static void noop_cb(evutil_socket_t fd, short what, void *arg) { (void)fd; (void)what; (void)arg; }
static int env_open(int tcp)
{
	E.usock = E.lsock = E.csock = -1;
	E.eb = event_base_new(); if (!E.eb) return -1;
	int fds[10]; struct event ev;
	for (int i = 0; i < 10; i++) fds[i] = eventfd(0, EFD_CLOEXEC);
	for (int i = 0; i < 10; i++) if (fds[i] >= 0) { event_assign(&ev, E.eb, fds[i], EV_READ, noop_cb, NULL); event_add(&ev, NULL); event_del(&ev); }
	for (int i = 0; i < 10; i++) if (fds[i] >= 0) close(fds[i]);
	if (tcp) E.lsock = dp_tcp_listener(&E.sin); else E.usock = dp_udp_bound(&E.sin);
	return (E.usock < 0 && E.lsock < 0) ? -1 : 0;
}
static void env_close(void)
{
	if (g_dns) { event_base_loop(E.eb, EVLOOP_NONBLOCK); evdns_base_free(g_dns, 0); g_dns = NULL; event_base_loop(E.eb, EVLOOP_NONBLOCK); event_base_loop(E.eb, EVLOOP_NONBLOCK); }
	if (E.eb) event_base_free(E.eb);
	if (E.csock >= 0) close(E.csock);
	if (E.lsock >= 0) close(E.lsock);
	if (E.usock >= 0) close(E.usock);
	E.eb = NULL; E.usock = E.lsock = E.csock = -1;
}

struct cb_log { int n, result, type, count; } g_cb;
static void resolve_cb(int result, char type, int count, int ttl, void *addresses, void *arg) { (void)ttl; (void)addresses; (void)arg; if (g_cb.n++ == 0) { g_cb.result = result; g_cb.type = type; g_cb.count = count; } }

/* next transmitted query, or 0 when nothing (more) was sent */
static size_t capture(int tcp, uint8_t *out, size_t cap)
{
	if (!tcp) {
		socklen_t sl = sizeof E.peer;
		ssize_t r = recvfrom(E.usock, out, cap, 0, (struct sockaddr *)&E.peer, &sl);   /* loopback UDP is synchronous: a sent datagram is already queued */
		return r > 0 ? (size_t)r : 0;
	}
	static uint8_t acc[2048]; static size_t got;
	if (E.csock < 0) {
		got = 0;
		for (int t = 0; t < 3 && E.csock < 0; t++) { event_base_loop(E.eb, EVLOOP_NONBLOCK); if (dp_wait_fd(E.lsock, POLLIN, 50)) E.csock = accept4(E.lsock, NULL, NULL, SOCK_NONBLOCK | SOCK_CLOEXEC); }
		if (E.csock < 0) return 0;
	}
	for (int t = 0; t < 4; t++) {
		if (got >= 2 && got >= 2u + dw_get_u16(acc)) break;
		event_base_loop(E.eb, EVLOOP_NONBLOCK);
		if (dp_wait_fd(E.csock, POLLIN, 50)) { ssize_t r = recv(E.csock, acc + got, sizeof acc - got, 0); if (r > 0) got += (size_t)r; }
	}
	if (got < 2 || got < 2u + dw_get_u16(acc)) return 0;
	size_t l = dw_get_u16(acc); if (l > cap) l = cap;
	memcpy(out, acc + 2, l);
	memmove(acc, acc + 2 + dw_get_u16(acc), got - 2 - dw_get_u16(acc)); got -= 2 + l;
	return l;
}
static void reply_to(int tcp, const uint8_t *q, size_t qlen, int rcode, int with_answer)
{
	static struct dp_buf w; w.n = 0;
	dp_u16(&w, dw_get_u16(q)); dp_u16(&w, 0x8180u | (unsigned)rcode); dp_u16(&w, 1); dp_u16(&w, with_answer ? 1 : 0); dp_u16(&w, 0); dp_u16(&w, 0);
	/* echo the question section verbatim */
	static struct dw_reader rd; struct dw_header h; static struct dw_question qq;
	dw_reader_init(&rd, q, qlen);
	if (dw_read_header(&rd, &h) || dw_read_question(&rd, &qq)) return;
	dp_bytes(&w, q + 12, rd.off - 12);
	if (with_answer) { dp_ptr(&w, 12); dp_u16(&w, qq.type); dp_u16(&w, 1); dp_u32(&w, 60); if (qq.type == 28) { dp_u16(&w, 16); dp_fill(&w, 7, 16); } else { dp_u16(&w, 4); dp_fill(&w, 7, 4); } }
	if (!tcp) {
		struct nameserver *ns = g_dns->server_head;
		sendto(E.usock, w.b, w.n, 0, (struct sockaddr *)&E.peer, sizeof E.peer);
		dp_wait_fd(ns->socket, POLLIN, 2000);
	} else {
		uint8_t l[2] = { (uint8_t)(w.n >> 8), (uint8_t)w.n };
		dp_write_all(E.csock, l, 2); dp_write_all(E.csock, w.b, w.n);
		struct nameserver *ns = g_dns->server_head;
		if (ns->connection && ns->connection->bev) dp_wait_fd(bufferevent_getfd(ns->connection->bev), POLLIN, 2000);
	}
	event_base_loop(E.eb, EVLOOP_NONBLOCK); event_base_loop(E.eb, EVLOOP_NONBLOCK);
}

/* ---- the oracle for one captured query ---- */
static char g_ctx[600];
static char g_sfx[80];     /* input class appended to failure keys so that one key names one kind of input */
#define QFAIL(what, ...) do { char k_[160]; snprintf(k_, sizeof k_, "C36/%s%s", what, g_sfx); mc_fail(k_, __VA_ARGS__); return; } while (0)
static void check_query(const uint8_t *m, size_t len, const struct dw_name *want, int qtype, int ci, unsigned edns)
{
	static struct dw_reader rd; struct dw_header h; static struct dw_question q; static struct dw_rr rr; char hx[200];
	MC_COUNT("oracle_query_checked");
	dw_reader_init(&rd, m, len);
	if (dw_read_header(&rd, &h)) QFAIL("query-too-short", "%s: %zu octets", g_ctx, len);
	if ((h.flags & (DW_F_QR | DW_F_OPCODE | DW_F_TC | DW_F_RCODE | DW_F_AA)) != 0 || !(h.flags & DW_F_RD)) QFAIL("bad-header-flags", "%s: flags %04x (want a standard query with RD)", g_ctx, h.flags);
	if (h.qd != 1 || h.an != 0 || h.ns != 0 || h.ar != (edns ? 1 : 0)) QFAIL("bad-counts", "%s: qd=%u an=%u ns=%u ar=%u, EDNS %s", g_ctx, h.qd, h.an, h.ns, h.ar, edns ? "on" : "off");
	int rc = dw_read_question(&rd, &q);
	if (rc || q.name.overlong) QFAIL("question-undecodable", "%s: %s: %s", g_ctx, rc ? dw_strerror(rc) : "name longer than 255 octets", dp_hex(m, len > 60 ? 60 : len, hx, sizeof hx));
	if (want && !dw_name_eq(&q.name, want, ci)) { char t[320]; dw_name_text(&q.name, t, sizeof t); QFAIL("question-name-differs", "%s: asked on the wire: '%s' (%d labels), requested %d labels: %s", g_ctx, t, q.name.nlabels, want->nlabels, dp_hex(m, len > 60 ? 60 : len, hx, sizeof hx)); }
	if (q.type != qtype || q.class_ != DW_CLASS_IN) QFAIL("question-type-class-differs", "%s: type %u class %u, want %d/IN: %s", g_ctx, q.type, q.class_, qtype, dp_hex(m, len > 60 ? 60 : len, hx, sizeof hx));
	if (h.ar >= 1 && edns) {
		rc = dw_read_rr(&rd, &rr);
		MC_COUNT("oracle_opt_checked");
		if (rc || rr.owner.nlabels || rr.type != DW_TYPE_OPT || rr.class_ != edns || rr.ttl != 0 || rr.rdlen != 0)
			QFAIL("opt-record-wrong", "%s: rc=%d owner labels=%d type=%u class=%u ttl=%u rdlen=%u, configured size %u", g_ctx, rc, rr.owner.nlabels, rr.type, rr.class_, rr.ttl, rr.rdlen, edns);
	}
	if (rd.off != len) QFAIL("trailing-bytes", "%s: %zu octets after the last record", g_ctx, len - rd.off);
}

static const char *why_key(int rc) { return rc == DW_E_EMPTY_LABEL ? "empty-label" : rc == DW_E_LABEL_LONG ? "label-too-long" : "name-too-long"; }

static int new_resolver(int randcase, const char *edns_val)
{
	vclock_reset(); dp_rng_reset(); memset(&g_cb, 0, sizeof g_cb);
	if (E.lsock >= 0) { int stale; while ((stale = accept4(E.lsock, NULL, NULL, SOCK_NONBLOCK | SOCK_CLOEXEC)) >= 0) close(stale); }
	g_dns = evdns_base_new(E.eb, 0);
	if (!g_dns) return -1;
	if (evdns_base_nameserver_sockaddr_add(g_dns, (struct sockaddr *)&E.sin, sizeof E.sin, 0)) return -1;
	evdns_base_set_option(g_dns, "randomize-case:", randcase ? "1" : "0");
	if (edns_val) evdns_base_set_option(g_dns, "edns-udp-size:", edns_val);
	return 0;
}
static void free_resolver(void)
{
	event_base_loop(E.eb, EVLOOP_NONBLOCK);
	evdns_base_free(g_dns, 0); g_dns = NULL;
	event_base_loop(E.eb, EVLOOP_NONBLOCK); event_base_loop(E.eb, EVLOOP_NONBLOCK);
	if (E.csock >= 0) { close(E.csock); E.csock = -1; }
	if (E.usock >= 0) { uint8_t j[64]; while (recv(E.usock, j, sizeof j, 0) >= 0) ; }
}

/* F_NAME / F_EDNS / F_RETX: one request without search */
static void run_single(const char *nm_tag, const char *name, size_t name_len, int canon, int qtype, int rc_mode, const char *edns_val, unsigned edns_expect, int tcp, int retx)
{
	static struct dw_name want; static uint8_t q1[1024], q2[1024];
	static const uint8_t fills[8] = { 0, 0x00, 0xff, 0x5a, 0xa5, 0x0f, 0xf0, 0x33 };
	int ref = memchr(name, 0, name_len) ? DW_E_EMPTY_LABEL : dw_name_from_text(name, name_len, &want);
	if (new_resolver(rc_mode != 0, edns_val)) { mc_fail("harness:setup", "%s: %s", g_ctx, strerror(errno)); if (g_dns) free_resolver(); return; }
	dp_rng_push_id(0x4321); if (rc_mode) dp_rng_push_fill(fills[rc_mode]);
	int flags = DNS_QUERY_NO_SEARCH | (tcp ? DNS_QUERY_USEVC : 0);
	struct evdns_request *h = qtype == 1 ? evdns_base_resolve_ipv4(g_dns, name, flags, resolve_cb, NULL) : evdns_base_resolve_ipv6(g_dns, name, flags, resolve_cb, NULL);
	MC_COUNT("executions");
	size_t l1 = capture(tcp, q1, sizeof q1);
	mc_observe("%s %s rc=%d edns=%s%s -> %s, %zu octets", nm_tag, qtype == 1 ? "A" : "AAAA", rc_mode, edns_val ? edns_val : "-", tcp ? " tcp" : "", h ? "request" : "NULL", l1);
	if (ref != DW_OK) {
		MC_COUNT("oracle_unencodable_checked");
		if (l1) { char key[160], hx[200]; snprintf(key, sizeof key, "C36/unencodable-name-transmitted/%s%s", why_key(ref), g_sfx); mc_fail(key, "%s: the name cannot be encoded (%s) but %zu octets went out: %s", g_ctx, dw_strerror(ref), l1, dp_hex(q1, l1 > 70 ? 70 : l1, hx, sizeof hx)); }
		else if (h) { event_base_loop(E.eb, EVLOOP_NONBLOCK); if (!g_cb.n) MC_COUNT("unencodable_pending_without_transmission"); }
	} else {
		if (!h) { if (canon) mc_fail("C36/valid-name-rejected", "%s: request refused for a valid name", g_ctx); }
		else if (!l1) mc_fail("C36/nothing-transmitted", "%s: the request was accepted but no query appeared on the wire", g_ctx);
		else {
			check_query(q1, l1, &want, qtype, rc_mode != 0, edns_expect);
			if (dw_get_u16(q1) != 0x4321) mc_fail("harness:rng-script", "%s: id %04x", g_ctx, dw_get_u16(q1));
			mc_nontrivial(dp_hash_bytes(3, q1, l1));
			if (retx && !tcp) {
				/* request timeout (5 s, virtual): the retransmission must be the same message */
				vclock_advance(5100000); event_base_loop(E.eb, EVLOOP_NONBLOCK);
				size_t l2 = capture(0, q2, sizeof q2);
				MC_COUNT("oracle_retransmission_checked");
				if (!l2) mc_fail("C36/no-retransmission", "%s: nothing sent after the request timeout", g_ctx);
				else if (l2 != l1 || memcmp(q1, q2, l1)) mc_fail("C36/retransmission-differs", "%s: retransmitted query differs from the first transmission", g_ctx);
			}
			if (capture(tcp, q2, sizeof q2)) mc_fail("C36/extra-transmission", "%s: more than one message sent for one request", g_ctx);
		}
	}
	free_resolver();
}

/* F_REVERSE */
static void run_reverse(int idx, int rc_mode, int edns)
{
	static const uint8_t v4[][4] = { {1,2,3,4}, {0,0,0,0}, {255,255,255,255}, {10,0,0,200}, {127,0,0,1}, {100,100,100,100}, {199,200,201,202}, {9,99,100,255} };
#define N_V4 8
	static const uint8_t v6[][16] = { {0,0,0,0,0,0,0,0,0,0,0,0,0,0,0,1}, {0x20,0x01,0x0d,0xb8,0,0,0,0,0,0,0,0,0xff,0,0xab,0xcd}, {255,255,255,255,255,255,255,255,255,255,255,255,255,255,255,255}, {0} };
	static struct dw_name want; static uint8_t q1[1024]; char exp[128]; size_t o = 0;
	uint8_t swept[4] = { 1, 2, 3, 4 };
	int is6 = idx >= N_V4 && idx < 100;
	if (idx >= 100) { swept[idx - 100] = (uint8_t)rc_mode; rc_mode = 1; }      /* thorough: octet value `rc_mode` at position idx-100 */
	if (!is6) { const uint8_t *a = idx >= 100 ? swept : v4[idx]; snprintf(exp, sizeof exp, "%u.%u.%u.%u.in-addr.arpa", a[3], a[2], a[1], a[0]); }
	else { const uint8_t *a = v6[idx - N_V4]; for (int i = 15; i >= 0; i--) o += (size_t)snprintf(exp + o, sizeof exp - o, "%x.%x.", a[i] & 15, a[i] >> 4); snprintf(exp + o, sizeof exp - o, "ip6.arpa"); }
	dw_name_from_text(exp, strlen(exp), &want);
	if (new_resolver(rc_mode != 0, edns ? "1232" : NULL)) { mc_fail("harness:setup", "%s", g_ctx); if (g_dns) free_resolver(); return; }
	dp_rng_push_id(0x4321); if (rc_mode) dp_rng_push_fill(rc_mode == 1 ? 0x00 : 0xff);
	struct evdns_request *h;
	if (!is6) { struct in_addr in; memcpy(&in, idx >= 100 ? swept : v4[idx], 4); h = evdns_base_resolve_reverse(g_dns, &in, 0, resolve_cb, NULL); }
	else { struct in6_addr in6; memcpy(&in6, v6[idx - N_V4], 16); h = evdns_base_resolve_reverse_ipv6(g_dns, &in6, 0, resolve_cb, NULL); }
	MC_COUNT("executions");
	size_t l1 = capture(0, q1, sizeof q1);
	mc_observe("reverse %s -> %zu octets", exp, l1);
	if (!h || !l1) mc_fail("C36/nothing-transmitted", "%s: reverse lookup of %s produced no query", g_ctx, exp);
	else { check_query(q1, l1, &want, DW_TYPE_PTR, rc_mode != 0, edns ? 1232 : 0); mc_nontrivial(dp_hash_bytes(5, q1, l1)); }
	free_resolver();
}

/* F_SEARCH */
static const char *doms[] = { "alpha.example", "beta.test", "c" , ".dotted.example", "five.levels.deep.zone.example" };
static const char *snames[] = { "host", "host.sub", "a.b.c", "x.y.z.w", "UPPER", "h-1.d_2", "a.b.c.d.e", "xn--bcher-kva",
	"host.", "a.b." };   /* trailing dot: the expansion must not insert a second dot (search_make_new's need_to_append_dot == 0 branch) */
static void run_search(int ndom, int via_conf, int ndots, int name_i, int variant, int tcp)
{
	/* variant: 0 all NXDOMAIN, 1 NO_SEARCH flag, 2 second query answered positively, 3 all NODATA (NOERROR, no answer) */
	static uint8_t q[1024]; char seq[12][300]; int nseq = 0; const char *name = snames[name_i];
	const char *dl[5]; for (int i = 0; i < ndom; i++) dl[i] = doms[(i == 2 && ndom == 3) ? 3 : i];
	if (new_resolver(1, NULL)) { mc_fail("harness:setup", "%s", g_ctx); if (g_dns) free_resolver(); return; }
	if (via_conf) {
		char conf[512]; size_t o = 0; int mfd = memfd_create("resolv", MFD_CLOEXEC); char path[64];
		o += (size_t)snprintf(conf + o, sizeof conf - o, "search");
		for (int i = 0; i < ndom; i++) o += (size_t)snprintf(conf + o, sizeof conf - o, " %s", dl[i]);
		o += (size_t)snprintf(conf + o, sizeof conf - o, "\noptions ndots:%d\n", ndots);
		if (mfd < 0 || write(mfd, conf, o) != (ssize_t)o) { mc_fail("harness:memfd", "%s", strerror(errno)); if (mfd >= 0) close(mfd); free_resolver(); return; }
		snprintf(path, sizeof path, "/proc/self/fd/%d", mfd);
		evdns_base_resolv_conf_parse(g_dns, DNS_OPTION_SEARCH, path);
		close(mfd);
	} else {
		for (int i = 0; i < ndom; i++) evdns_base_search_add(g_dns, dl[i]);
		evdns_base_search_ndots_set(g_dns, ndots);
	}
	int flags = (variant == 1 ? DNS_QUERY_NO_SEARCH : 0) | (tcp ? DNS_QUERY_USEVC : 0);
	struct evdns_request *h = evdns_base_resolve_ipv4(g_dns, name, flags, resolve_cb, NULL);
	MC_COUNT("executions");
	if (!h) { mc_fail("C36/valid-name-rejected", "%s: search request refused", g_ctx); free_resolver(); return; }
	/* expected order (header of event2/dns.h: as many dots as ndots -> the name itself first, else last) */
	char exp[12][300]; int nexp = 0, dots = 0; for (const char *p = name; *p; p++) dots += *p == '.';
	/* the wire has no notion of a trailing dot: expected texts are built from the name without it (dots still counts it, as evdns does) */
	char base[64]; snprintf(base, sizeof base, "%s", name); { size_t bl = strlen(base); if (bl && base[bl - 1] == '.') base[bl - 1] = 0; }
	int searching = variant != 1 && ndom > 0;
	if (!searching) snprintf(exp[nexp++], 300, "%s", base);
	else {
		if (dots >= ndots) snprintf(exp[nexp++], 300, "%s", base);
		for (int i = 0; i < ndom; i++) { const char *d = dl[i]; while (*d == '.') d++; snprintf(exp[nexp++], 300, "%s.%s", base, d); }
		if (dots < ndots) snprintf(exp[nexp++], 300, "%s", base);
	}
	for (int step = 0; step < 10; step++) {
		size_t l = capture(tcp, q, sizeof q);
		if (!l) break;
		static struct dw_reader rd; struct dw_header hd; static struct dw_question qq; static struct dw_name want;
		dw_reader_init(&rd, q, l);
		if (dw_read_header(&rd, &hd) || dw_read_question(&rd, &qq)) { mc_fail("C36/question-undecodable", "%s: search query %d", g_ctx, step); break; }
		dw_name_text(&qq.name, seq[nseq], 300);
		/* every query of the search is itself a well-formed query (the names are compared as a sequence below) */
		(void)want; check_query(q, l, NULL, 1, 1, 0);
		nseq++;
		if (g_cb.n) { mc_fail("C36/query-after-callback", "%s: a query was sent after the user callback ran", g_ctx); break; }
		if (variant == 2 && step == 1) reply_to(tcp, q, l, 0, 1);
		else if (variant == 3) reply_to(tcp, q, l, 0, 0);
		else reply_to(tcp, q, l, 3, 0);
	}
	char got[1400] = "", want_s[1400] = ""; size_t o = 0;
	for (int i = 0; i < nseq; i++) o += (size_t)snprintf(got + o, sizeof got - o, "%s%s", i ? ", " : "", seq[i]);
	o = 0; for (int i = 0; i < nexp; i++) o += (size_t)snprintf(want_s + o, sizeof want_s - o, "%s%s", i ? ", " : "", exp[i]);
	mc_observe("search ndom=%d %s ndots=%d '%s' v%d: [%s]", ndom, via_conf ? "conf" : "api", ndots, name, variant, got);
	mc_nontrivial(dp_hash_bytes(9, got, strlen(got)));
	MC_COUNT("oracle_search_order_checked");
	int stop_after = (variant == 2 && nexp >= 2) ? 2 : nexp;
	int ok = nseq == stop_after;
	for (int i = 0; ok && i < nseq; i++) if (evutil_ascii_strcasecmp(seq[i], exp[i])) ok = 0;
	if (!ok && !via_conf && searching && ndom > 1) {
		/* evdns_base_search_add documents no order between the domains: accept the reverse list too */
		char rexp[12][300]; int k = 0;
		if (dots >= ndots) snprintf(rexp[k++], 300, "%s", base);
		for (int i = ndom - 1; i >= 0; i--) { const char *d = dl[i]; while (*d == '.') d++; snprintf(rexp[k++], 300, "%s.%s", base, d); }
		if (dots < ndots) snprintf(rexp[k++], 300, "%s", base);
		ok = nseq == stop_after;
		for (int i = 0; ok && i < nseq; i++) if (evutil_ascii_strcasecmp(seq[i], rexp[i])) ok = 0;
		if (ok) MC_COUNT("search_api_order_reversed");
	}
	if (!ok) mc_fail("C36/search-order", "%s: asked [%s], documented order [%s]%s", g_ctx, got, want_s, variant == 2 ? " (stopping after the 2nd)" : "");
	if (g_cb.n != 1) mc_fail("C36/search-callback-count", "%s: %d callbacks after the search ended", g_ctx, g_cb.n);
	else if (variant == 2 && nexp >= 2 ? g_cb.result != DNS_ERR_NONE : g_cb.result == DNS_ERR_NONE) mc_fail("C36/search-result", "%s: result %d", g_ctx, g_cb.result);
	free_resolver();
}

/* ------------------------------------------------------------------ */
static const char *edns_vals[] = { "100", "511", "512", "513", "1232", "4096", "65535", "65536", "70000", "abc", "" };
static const unsigned edns_exp[] = { 0, 0, 0, 513, 1232, 4096, 65535, 65535, 65535, 0, 0 };

static void generate(const char *tier)
{
	int thorough = !strcmp(tier, "thorough");
	make_names();
	for (int n = 0; n < n_names; n++) for (int qt = 0; qt < 2; qt++) for (int rc = 0; rc < (thorough ? 8 : 4); rc++) for (int ed = 0; ed < (thorough ? 4 : 2); ed++) {
		add_item(F_NAME, 0, n, qt, rc, ed, 0);
		if (thorough || (rc == 3 && ed == 1 && qt == 0)) add_item(F_NAME, 1, n, qt, rc, ed, 0);
	}
	for (int i = 0; i < 12; i++) for (int rc = 0; rc < 3; rc++) for (int ed = 0; ed < 2; ed++) add_item(F_REVERSE, 0, i, rc, ed, 0, 0);
	if (thorough) for (int a = 0; a < 256; a++) for (int pos = 0; pos < 4; pos++) add_item(F_REVERSE, 0, 100 + pos, a, 0, 0, 0);   /* every octet value at every position */
	for (size_t i = 0; i < sizeof edns_vals / sizeof edns_vals[0]; i++) for (int qt = 0; qt < 2; qt++) { add_item(F_EDNS, 0, (int)i, qt, 0, 0, 0); add_item(F_EDNS, 1, (int)i, qt, 0, 0, 0); }
	for (int ndom = 0; ndom <= (thorough ? 5 : 3); ndom++) for (int conf = 0; conf < 2; conf++) for (int nd = 0; nd <= (thorough ? 5 : 3); nd++) for (int nj = 0; nj < (thorough ? 10 : 6); nj++) for (int v = 0; v < 4; v++) {
		int ni = (!thorough && nj >= 4) ? nj + 4 : nj;   /* quick: the first four names and the two trailing-dot names */
		if (conf && ndom == 0) continue;
		add_item(F_SEARCH, 0, ndom, conf, nd, ni, v);
		if (thorough || (nd == 1 && v == 0)) add_item(F_SEARCH, 1, ndom, conf, nd, ni, v);
	}
	for (int n = 0; n < n_names; n++) if (names[n].canon) add_item(F_RETX, 0, n, 0, thorough ? 3 : 0, 0, 0);
	if (thorough) for (int n = 0; n < n_names; n++) if (names[n].canon) for (int rc = 0; rc < 8; rc++) { add_item(F_RETX, 0, n, 1, rc, 1, 0); add_item(F_RETX, 0, n, 0, rc, 0, 0); }
}

static void item_fn(uint64_t idx)
{
	const struct item *it = &items[idx];
	uint64_t fd0 = mcx_fd_signature(); long live0 = mcx_alloc_live();
	if (env_open(it->tcp) < 0) { mc_fail("harness:env", "%s", strerror(errno)); env_close(); return; }
	g_sfx[0] = 0;
	switch (it->fam) {
	case F_NAME: snprintf(g_sfx, sizeof g_sfx, ":name=%s", names[it->a].tag); snprintf(g_ctx, sizeof g_ctx, "name[%s] len=%zu %s 0x20=%d edns=%d%s", names[it->a].tag, names[it->a].len, it->b ? "AAAA" : "A", it->c, it->d, it->tcp ? " tcp" : "");
		{ static const char *ev[4] = { NULL, "1232", "513", "65535" }; static const unsigned ex[4] = { 0, 1232, 513, 65535 };
		  run_single(names[it->a].tag, names[it->a].s, names[it->a].len, names[it->a].canon, it->b ? 28 : 1, it->c, ev[it->d], ex[it->d], it->tcp, 0); } break;
	case F_REVERSE: snprintf(g_sfx, sizeof g_sfx, ":reverse"); snprintf(g_ctx, sizeof g_ctx, "reverse[%d] 0x20=%d edns=%d", it->a, it->b, it->c); run_reverse(it->a, it->b, it->c); break;
	case F_EDNS: snprintf(g_sfx, sizeof g_sfx, ":edns=%s", edns_vals[it->a]); snprintf(g_ctx, sizeof g_ctx, "edns-udp-size='%s' %s%s", edns_vals[it->a], it->b ? "AAAA" : "A", it->tcp ? " tcp" : "");
		run_single("plain", names[0].s, names[0].len, 1, it->b ? 28 : 1, 3, edns_vals[it->a], edns_exp[it->a], it->tcp, 0); break;
	case F_SEARCH: snprintf(g_sfx, sizeof g_sfx, ":search"); snprintf(g_ctx, sizeof g_ctx, "search ndom=%d %s ndots=%d name='%s' variant=%d%s", it->a, it->b ? "resolv.conf" : "api", it->c, snames[it->d], it->e, it->tcp ? " tcp" : "");
		run_search(it->a, it->b, it->c, it->d, it->e, it->tcp); break;
	case F_RETX: snprintf(g_sfx, sizeof g_sfx, ":name=%s", names[it->a].tag); snprintf(g_ctx, sizeof g_ctx, "retransmit name[%s] %s 0x20=%d edns=%d", names[it->a].tag, it->b ? "AAAA" : "A", it->c, it->d);
		run_single(names[it->a].tag, names[it->a].s, names[it->a].len, 1, it->b ? 28 : 1, it->c, it->d ? "1232" : NULL, it->d ? 1232 : 0, 0, 1); break;
	}
	env_close();
	if (mcx_alloc_live() != live0) mc_fail("C36/leak", "%s: %ld allocation(s) live after evdns_base_free + event_base_free", g_ctx, mcx_alloc_live() - live0);
	if (mcx_fd_signature() != fd0) mc_fail("C36/fdleak", "%s: fd table differs after the item", g_ctx);
}

static void init(void)
{
	if (!dp_alloc_trace_install()) mcx_alloc_install();
	event_set_log_callback(dp_quiet_log);
	g_warm = 1;
	for (int tcp = 0; tcp < 2; tcp++) { snprintf(g_ctx, sizeof g_ctx, "init"); if (env_open(tcp) == 0) run_single("plain", "example.test", 12, 1, 1, 3, "1232", 1232, tcp, 0); env_close(); }
	g_warm = 0;
}

int main(int argc, char **argv)
{
	generate(dp_argv_param(argc, argv, "tier", "quick"));
	struct mc_config cfg = { .property = "C36", .n_items = n_items, .item = item_fn, .init = init };
	return mc_main(argc, argv, &cfg);
}
