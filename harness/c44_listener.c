/* C44 — evconnlistener: every connection accepted on the listening socket is
 * passed to the callback exactly once with the peer's address, or closed; no
 * accept while disabled; non-retriable accept errors go to the error callback;
 * the listening socket is closed on free iff LEV_OPT_CLOSE_ON_FREE.
 *
 * Tree mode.  Per execution: fresh event_base, fresh listening socket
 * (loopback TCP or AF_UNIX with kernel-chosen addresses), real kernel
 * connections made by the harness, histories of
 *   connect / close-pending-client / enable / disable / set_cb(NULL|cb1|cb2) /
 *   free / loop-step
 * plus actions chosen from inside the accept callback and the error callback
 * (disable, disable+enable, set_cb, free).  accept4()/accept() are wrapped at
 * link time and armed for the listener fd only; every call asks the explorer
 * for its answer (cost 1 unless "real").
 *
 * listener.c is #included so that the canonical state can contain the real
 * implementation fields (enabled, cb, refcnt, event pending) — the oracles do
 * not read them. */
#include "mcx.h"
#include "listener.c"
#include <sys/un.h>
#include <netinet/in.h>
#include <netinet/tcp.h>
#include <arpa/inet.h>
#include <poll.h>
#include <stddef.h>
#include <stdio.h>
#include <string.h>
#include "event2/thread.h"

#define MAXCLI 3
#define MAXREC 16
#define MAXIT  4
#define BURST  3

/* ---- accept answers --------------------------------------------------- */
enum { A_REAL, A_EAGAIN, A_EINTR, A_ECONNABORTED, A_EMFILE, A_SOCKLEN0, A_STICKY_EMFILE, /* -P answers=9: */ A_ENOMEM, A_STICKY_ECONNABORTED, A_N };
static const char *const ans_name[A_N] = { "real", "EAGAIN", "EINTR", "ECONNABORTED", "EMFILE", "socklen0", "burst-EMFILE", "ENOMEM", "burst-ECONNABORTED" };

/* ---- configuration ---------------------------------------------------- */
enum { K_TCP_NEW, K_UNIX_NEW, K_TCP_BIND, K_N };
static struct {
	int kind, ts, errcb;          /* cfgA */
	int cof, disabled, cb0;       /* cfgB */
} C;

/* ---- specification-level model ---------------------------------------- */
static struct {
	int enabled;      /* last enable/disable (or !LEV_OPT_DISABLED) */
	int cb;           /* 0 none, 1 cb1, 2 cb2 */
	int had_cb;       /* a callback has been set at some point since creation */
	int freed;        /* evconnlistener_free has been called */
	int destroyed_checked;
} M;

struct client {
	int used, fd, open;
	int handed;                   /* the kernel handed this connection over in a real accept */
	int closemode;                /* 0 open, 1 closed FIN, 2 closed RST (before being accepted) */
	struct sockaddr_storage local; socklen_t llen;
	int delivered;
};
static struct client cli[MAXCLI];
static int ncli;

enum { R_UNDISPOSED, R_DELIVERED, R_CLOSED };
struct rec {                          /* one successful real accept */
	int fd, state, client, deliverable, socklen0;
	struct sockaddr_storage addr; socklen_t alen;
};
static struct rec rec[MAXREC];
static int nrec;

static struct event_base *base;
static struct evconnlistener *lev;
static int lfd = -1;
static struct sockaddr_storage laddr; static socklen_t laddrlen;
static int armed, accept_calls, sticky, sticky_left, pending_err, pending_err_errno, in_loop;
static int n_errcb, n_deliv;
static int n_answers = A_N, incb_max = 99, incb_used;

static char ud1, ud2;                 /* user_data for cb1 / cb2 */
static void acb1(struct evconnlistener *, evutil_socket_t, struct sockaddr *, int, void *);
static void acb2(struct evconnlistener *, evutil_socket_t, struct sockaddr *, int, void *);
static void ecb(struct evconnlistener *, void *);

static int fd_is_open(int fd) { return fcntl(fd, F_GETFD) != -1 || errno != EBADF; }

/* fd-table signature: which of the first MAXFD descriptors are open.  (Same idea as
 * mcx_fd_signature(), without opendir's 32 KiB ASan-tracked buffer per call; descriptors are
 * handed out lowest-first and an execution never holds more than ~20.) */
#define MAXFD 64
static uint64_t fd_table_signature(void)
{
	uint64_t h = 0x66647369;
	for (int fd = 0; fd < MAXFD; fd++) if (fd_is_open(fd)) h = mc_hash_u64(h, fd);
	return h;
}

static int is_retriable(int e) { return e == EINTR || e == EAGAIN || e == EWOULDBLOCK || e == ECONNABORTED; }

static void hard_close(int fd)
{
	/* RST instead of FIN: no TIME_WAIT litter on loopback */
	struct linger lg = { 1, 0 };
	setsockopt(fd, SOL_SOCKET, SO_LINGER, &lg, sizeof lg);
	close(fd);
}

/* ---- the listening fd's fate after free -------------------------------- */
static void check_listen_fd_after_free(const char *where)
{
	if (M.destroyed_checked) return;
	M.destroyed_checked = 1;
	armed = 0;
	int open = fd_is_open(lfd);
	MC_COUNT("oracle_close_on_free_checked");
	if (C.cof) {
		if (open) {
			mc_fail("C44/listen-fd-not-closed-on-free", "LEV_OPT_CLOSE_ON_FREE set, fd still open after free (%s)", where);
			close(lfd);
		} else MC_COUNT("listen_fd_closed_by_free");
	} else {
		if (!open) mc_fail("C44/listen-fd-closed-without-flag", "LEV_OPT_CLOSE_ON_FREE not set, fd closed by free (%s)", where);
		else {
			int v = 0; socklen_t l = sizeof v;
			if (getsockopt(lfd, SOL_SOCKET, SO_ACCEPTCONN, &v, &l) < 0 || !v)
				mc_fail("C44/listen-fd-closed-without-flag", "fd no longer a listening socket after free (%s)", where);
			MC_COUNT("listen_fd_left_open_by_free");
			close(lfd);
		}
	}
	lfd = -1;
}

/* ---- accept wrappers --------------------------------------------------- */
int __real_accept4(int, struct sockaddr *, socklen_t *, int);
int __real_accept(int, struct sockaddr *, socklen_t *);

static int addr_eq(const struct sockaddr_storage *a, socklen_t al, const struct sockaddr_storage *b, socklen_t bl)
{
	if (a->ss_family != b->ss_family) return 0;
	if (a->ss_family == AF_INET) {
		const struct sockaddr_in *x = (const void *)a, *y = (const void *)b;
		return al >= sizeof *x && bl >= sizeof *y && x->sin_port == y->sin_port && x->sin_addr.s_addr == y->sin_addr.s_addr;
	}
	return al == bl && !memcmp(a, b, al);
}

static int scripted_accept(int fd, struct sockaddr *addr, socklen_t *alen, int flags, int use4)
{
	int a;
	accept_calls++;
	MC_COUNT("accept_calls");
	/* an error answered by the previous call must have reached the error callback by now */
	if (pending_err && C.errcb && !M.freed) {
		mc_fail("C44/error-not-reported", "accept failed with non-retriable errno %d and the error callback was not invoked before the next accept", pending_err_errno);
	}
	pending_err = 0;
	if (M.freed) mc_fail("C44/accept-after-free", "accept() on the listening socket after evconnlistener_free");
	else if (!M.enabled) mc_fail("C44/accept-while-disabled", "accept() on the listening socket while the listener is disabled");
	else if (!M.had_cb) mc_fail("C44/accept-before-callback-set", "accept() although the listener never had a callback (documented: treated as disabled)");
	else MC_COUNT("oracle_accept_allowed_checked");

	/* NB: event_base_loop(EVLOOP_NONBLOCK) only returns once no callback is active, and a
	 * failing accept leaves the listening fd readable, so a "permanent" failure has to be a
	 * finite burst: the next BURST accept calls all fail with the same errno (one deviation). */
	if (sticky_left > 0) { a = sticky; sticky_left--; }
	else {
		sticky = 0;
		a = mc_choose(n_answers, 1, "accept");
		if (a == A_STICKY_EMFILE) { sticky = A_EMFILE; a = A_EMFILE; sticky_left = BURST - 1; }
		else if (a == A_STICKY_ECONNABORTED) { sticky = A_ECONNABORTED; a = A_ECONNABORTED; sticky_left = BURST - 1; }
	}
	if (a != A_REAL && a != A_SOCKLEN0) {   /* an errno answer */
		static const int e[A_N] = { 0, EAGAIN, EINTR, ECONNABORTED, EMFILE, 0, 0, ENOMEM, 0 };
		mc_observe("acc:%s%s ", ans_name[a], sticky ? "*" : "");
		MC_COUNT("accept_faults_injected");
		if (!is_retriable(e[a])) { pending_err = 1; pending_err_errno = e[a]; }
		errno = e[a];
		return -1;
	}
	/* The loopback interface is shared with other processes: a stranger that connects to our
	 * kernel-chosen port (a port scan, another test probing "closed" ports) is not part of the
	 * history.  Such a connection is reset here and never shown to the library. */
	int nfd, mine; socklen_t alen0 = *alen;
	for (;;) {
		*alen = alen0;
		nfd = use4 ? __real_accept4(fd, addr, alen, flags) : __real_accept(fd, addr, alen);
		if (nfd < 0) break;
		mine = 0;
		for (int i = 0; i < ncli; i++)
			if (cli[i].used && !cli[i].handed && addr_eq((struct sockaddr_storage *)addr, *alen, &cli[i].local, cli[i].llen)) mine = 1;
		if (mine) break;
		MC_COUNT("foreign_connections_dropped");
		hard_close(nfd);
	}
	if (nfd < 0) {
		int e = errno;
		if (e != EAGAIN && e != EWOULDBLOCK) mc_fail("harness:real-accept-error", "errno %d", e);
		mc_observe("acc:empty ");
		errno = e;
		return -1;
	}
	MC_COUNT("accept_real_success");
	/* fd number reused ⇒ the earlier connection with this number was closed by the library */
	for (int i = 0; i < nrec; i++)
		if (rec[i].state == R_UNDISPOSED && rec[i].fd == nfd) {
			rec[i].state = R_CLOSED;
			if (rec[i].deliverable) mc_fail("C44/accepted-not-delivered", "connection of client %d was accepted while enabled with a callback but closed instead of delivered", rec[i].client);
			else MC_COUNT("undeliverable_closed");
		}
	if (nrec >= MAXREC) { mc_fail("harness:too-many-accepts", "x"); hard_close(nfd); errno = EAGAIN; return -1; }
	struct rec *r = &rec[nrec++];
	memset(r, 0, sizeof *r);
	r->fd = nfd; r->state = R_UNDISPOSED; r->client = -1;
	r->alen = *alen; memcpy(&r->addr, addr, *alen < sizeof r->addr ? *alen : sizeof r->addr);
	for (int i = 0; i < ncli; i++)
		if (cli[i].used && !cli[i].handed && addr_eq(&r->addr, r->alen, &cli[i].local, cli[i].llen)) { r->client = i; break; }
	if (r->client < 0) mc_fail("harness:unknown-peer", "accept returned a connection that matches no pending client");
	else cli[r->client].handed = 1;
	r->socklen0 = a == A_SOCKLEN0;
	r->deliverable = M.enabled && !M.freed && M.cb != 0 && !r->socklen0;
	if (r->socklen0) { *alen = 0; MC_COUNT("accept_socklen0_injected"); }
	mc_observe("acc:c%d%s ", r->client, r->socklen0 ? "/len0" : "");
	return nfd;
}

int __wrap_accept4(int fd, struct sockaddr *addr, socklen_t *alen, int flags)
{
	if (!armed || fd != lfd) return __real_accept4(fd, addr, alen, flags);
	return scripted_accept(fd, addr, alen, flags, 1);
}
int __wrap_accept(int fd, struct sockaddr *addr, socklen_t *alen)
{
	if (!armed || fd != lfd) return __real_accept(fd, addr, alen);
	return scripted_accept(fd, addr, alen, 0, 0);
}

/* ---- listener operations applied to implementation and model ------------ */
static void do_enable(void)  { evconnlistener_enable(lev); M.enabled = 1; }
static void do_disable(void) { evconnlistener_disable(lev); M.enabled = 0; }
static void do_set_cb(int which)
{
	evconnlistener_set_cb(lev, which == 1 ? acb1 : which == 2 ? acb2 : NULL, which == 1 ? (void *)&ud1 : which == 2 ? (void *)&ud2 : NULL);
	M.cb = which; if (which) M.had_cb = 1;
}
static void do_free(void)    { evconnlistener_free(lev); M.freed = 1; M.cb = 0; }

/* ---- callbacks ---------------------------------------------------------- */
enum { IN_NONE, IN_DISABLE, IN_SETCB_NULL, IN_SETCB_OTHER, IN_FREE, IN_DISABLE_ENABLE, IN_N };
static const char *const in_name[IN_N] = { "", "disable", "set_cb(NULL)", "set_cb(other)", "free", "disable+enable" };

static void accept_cb(int which, struct evconnlistener *l, evutil_socket_t fd, struct sockaddr *sa, int socklen, void *arg)
{
	struct rec *r = NULL;
	n_deliv++;
	MC_COUNT("callback_invocations");
	if (l != lev) mc_fail("C44/callback-wrong-listener", "callback got a different listener pointer");
	if (M.freed) mc_fail("C44/callback-after-free", "accept callback invoked after evconnlistener_free");
	else if (!M.enabled) mc_fail("C44/callback-while-disabled", "accept callback invoked while disabled");
	else if (M.cb != which) mc_fail("C44/callback-stale", "callback %d invoked, current callback is %d", which, M.cb);
	else if (arg != (which == 1 ? (void *)&ud1 : (void *)&ud2)) mc_fail("C44/callback-wrong-user-data", "callback %d got the wrong user_data", which);
	else MC_COUNT("oracle_callback_state_checked");
	if (pending_err && C.errcb) { mc_fail("C44/error-not-reported", "accept callback ran although the previous accept error (%d) was not reported", pending_err_errno); pending_err = 0; }

	for (int i = nrec - 1; i >= 0; i--)
		if (rec[i].fd == fd && rec[i].state == R_UNDISPOSED) { r = &rec[i]; break; }
	if (!r) {
		mc_fail("C44/callback-for-unknown-connection", "callback got fd %s: not an accepted, not yet delivered connection (duplicate or invented delivery)", fd < 0 ? "<0" : ">=0");
		return;
	}
	r->state = R_DELIVERED;
	MC_COUNT("oracle_exactly_once_checked");
	if (r->client >= 0 && ++cli[r->client].delivered != 1)
		mc_fail("C44/delivered-twice", "client %d delivered %d times", r->client, cli[r->client].delivered);
	/* peer address: what the kernel reported in accept, which is the client's own address */
	if (r->socklen0) mc_fail("C44/delivered-without-address", "a connection whose accept reported no peer address was delivered (socklen %d)", socklen);
	else if ((socklen_t)socklen != r->alen || memcmp(sa, &r->addr, r->alen))
		mc_fail("C44/wrong-peer-address", "callback address (len %d) differs from the one accept reported (len %d)", socklen, (int)r->alen);
	else if (r->client >= 0 && !addr_eq((struct sockaddr_storage *)&r->addr, r->alen, &cli[r->client].local, cli[r->client].llen))
		mc_fail("C44/wrong-peer-address", "callback address is not the client's address");
	else MC_COUNT("oracle_peer_address_checked");
	if (!fd_is_open(fd)) mc_fail("C44/delivered-fd-closed", "delivered fd is not open");

	int act = incb_used < incb_max ? mc_choose(IN_N, 0, "in-callback") : 0;
	if (act) incb_used++;
	mc_observe("cb%d(c%d)%s%s ", which, r->client, act ? ":" : "", in_name[act]);
	switch (act) {
	case IN_DISABLE: do_disable(); MC_COUNT("incb_disable"); break;
	case IN_SETCB_NULL: do_set_cb(0); MC_COUNT("incb_setcb_null"); break;
	case IN_SETCB_OTHER: do_set_cb(3 - which); MC_COUNT("incb_setcb_other"); break;
	case IN_FREE: do_free(); MC_COUNT("incb_free"); break;
	case IN_DISABLE_ENABLE: do_disable(); do_enable(); MC_COUNT("incb_disable_enable"); break;
	}
}
static void acb1(struct evconnlistener *l, evutil_socket_t fd, struct sockaddr *sa, int sl, void *arg) { accept_cb(1, l, fd, sa, sl, arg); }
static void acb2(struct evconnlistener *l, evutil_socket_t fd, struct sockaddr *sa, int sl, void *arg) { accept_cb(2, l, fd, sa, sl, arg); }

enum { EIN_NONE, EIN_FREE, EIN_DISABLE, EIN_N };
static void ecb(struct evconnlistener *l, void *arg)
{
	n_errcb++;
	MC_COUNT("errorcb_invocations");
	if (l != lev) mc_fail("C44/callback-wrong-listener", "error callback got a different listener pointer");
	if (M.freed) mc_fail("C44/callback-after-free", "error callback invoked after evconnlistener_free");
	if (!pending_err) mc_fail("C44/error-cb-spurious", "error callback invoked without a preceding non-retriable accept failure");
	else MC_COUNT("oracle_error_reported_checked");
	if (!M.freed && arg != (M.cb == 1 ? (void *)&ud1 : M.cb == 2 ? (void *)&ud2 : NULL))
		mc_fail("C44/callback-wrong-user-data", "error callback got the wrong user_data");
	pending_err = 0;
	int act = incb_used < incb_max ? mc_choose(EIN_N, 0, "in-errorcb") : 0;
	if (act) incb_used++;
	mc_observe("ecb%s ", act == EIN_FREE ? ":free" : act == EIN_DISABLE ? ":disable" : "");
	if (act == EIN_FREE) { do_free(); MC_COUNT("inecb_free"); }
	else if (act == EIN_DISABLE) { do_disable(); MC_COUNT("inecb_disable"); }
}

/* ---- harness-side sockets ----------------------------------------------- */
static int make_listen_socket(void)
{
	int fd;
	if (C.kind == K_UNIX_NEW) {
		struct sockaddr_un sun; memset(&sun, 0, sizeof sun); sun.sun_family = AF_UNIX;
		fd = socket(AF_UNIX, SOCK_STREAM | SOCK_NONBLOCK, 0);
		if (fd < 0 || bind(fd, (struct sockaddr *)&sun, sizeof(sa_family_t)) < 0) return -1;   /* autobind: abstract name from the kernel */
		if (listen(fd, 8) < 0) return -1;
	} else {
		struct sockaddr_in sin; memset(&sin, 0, sizeof sin); sin.sin_family = AF_INET; sin.sin_addr.s_addr = htonl(INADDR_LOOPBACK);
		int one = 1;
		fd = socket(AF_INET, SOCK_STREAM | SOCK_NONBLOCK, 0);
		if (fd >= 0) setsockopt(fd, SOL_SOCKET, SO_REUSEADDR, &one, sizeof one);   /* ports with TIME_WAIT leftovers stay usable */
		if (fd < 0) return -1;
		/* port 0: failing means ephemeral-port exhaustion on this machine -- an environment condition; wait for it to drain */
		for (int attempt = 0; bind(fd, (struct sockaddr *)&sin, sizeof sin) < 0; attempt++) {
			if ((errno != EADDRINUSE && errno != EADDRNOTAVAIL) || attempt >= 3000) return -1;
			MC_COUNT("env_bind_retries"); usleep(20000);
		}
	}
	return fd;
}

static int do_connect(void)
{
	struct client *c = &cli[ncli];
	int fd, r;
	memset(c, 0, sizeof *c);
	fd = socket(laddr.ss_family, SOCK_STREAM | SOCK_NONBLOCK, 0);
	if (fd < 0) return -1;
	if (laddr.ss_family == AF_UNIX) {
		struct sockaddr_un sun; memset(&sun, 0, sizeof sun); sun.sun_family = AF_UNIX;
		if (bind(fd, (struct sockaddr *)&sun, sizeof(sa_family_t)) < 0) { close(fd); return -1; }
	}
	r = connect(fd, (struct sockaddr *)&laddr, laddrlen);
	if (r < 0 && errno != EINPROGRESS) { close(fd); return -1; }
	struct pollfd p = { fd, POLLOUT, 0 };
	if (poll(&p, 1, 5000) != 1) { close(fd); return -1; }          /* real wait: the handshake is complete, the connection is queued */
	int e = 0; socklen_t el = sizeof e;
	if (getsockopt(fd, SOL_SOCKET, SO_ERROR, &e, &el) < 0 || e) { close(fd); return -1; }
	c->llen = sizeof c->local;
	if (getsockname(fd, (struct sockaddr *)&c->local, &c->llen) < 0) { close(fd); return -1; }
	c->used = 1; c->fd = fd; c->open = 1;
	ncli++;
	return 0;
}

/* ---- one loop step: run the base until the listener is quiescent --------- */
static void end_of_iteration(void)
{
	if (pending_err) {
		if (C.errcb && !M.freed) mc_fail("C44/error-not-reported", "accept failed with non-retriable errno %d and the error callback was not invoked", pending_err_errno);
		else MC_COUNT("error_without_errorcb");
		pending_err = 0;
	}
	/* every connection handed over in this iteration is delivered or closed by now */
	for (int i = 0; i < nrec; i++) {
		struct rec *r = &rec[i];
		if (r->state != R_UNDISPOSED) continue;
		MC_COUNT("oracle_undelivered_disposal_checked");
		if (fd_is_open(r->fd)) {
			mc_fail("C44/undelivered-connection-leaked", "connection of client %d was accepted, not delivered (%s) and left open", r->client,
			    r->socklen0 ? "no peer address" : r->deliverable ? "deliverable!" : "no callback");
			hard_close(r->fd);
		} else if (r->deliverable)
			mc_fail("C44/accepted-not-delivered", "connection of client %d was accepted while enabled with a callback but closed instead of delivered", r->client);
		else MC_COUNT("undeliverable_closed");
		r->state = R_CLOSED;
	}
	if (M.freed) check_listen_fd_after_free("after the loop iteration in which it was freed");
}

static void loop_step(void)
{
	int it, quiescent = 0;
	sticky = sticky_left = 0;
	for (it = 0; it < MAXIT; it++) {
		int before = accept_calls, cbs = n_deliv + n_errcb;
		in_loop = 1;
		event_base_loop(base, EVLOOP_NONBLOCK);
		in_loop = 0;
		end_of_iteration();
		if (accept_calls == before && n_deliv + n_errcb == cbs) { quiescent = 1; break; }
	}
	if (!quiescent) mc_fail("harness:no-quiescence", "listener still busy after %d iterations", MAXIT);
	/* liveness: enabled + callback + no fault in force ⇒ the kernel queue has been drained */
	if (quiescent && !M.freed && M.enabled && M.cb) {
		int npend = 0;
		for (int i = 0; i < ncli; i++) if (cli[i].used && !cli[i].handed) npend++;   /* connected (handshake complete) and not yet returned by a real accept */
		MC_COUNT("oracle_queue_drained_checked");
		if (npend)
			mc_fail("C44/pending-not-accepted", "listener enabled with a callback and idle, but %d connection(s) are still waiting in the accept queue", npend);
	}
	sticky = sticky_left = 0;
	mc_observe("| ");
}

/* ---- canonical state -----------------------------------------------------
 * Everything the remaining operations can observe:
 *  - the configuration (flags, socket kind, error callback),
 *  - the model (enabled, cb, had_cb, freed),
 *  - the implementation fields of the listener that decide what it does next
 *    (enabled bit, which callback, refcnt, whether its event is registered),
 *  - the kernel accept queue: for each client not yet handed over, in queue
 *    (= connect) order, how it was closed; plus how many client slots are used
 *    (bounds the remaining connects).
 *  - how many in-callback actions have been spent (bounds the remaining ones).
 * Delivered / closed connections cannot influence the future: the harness only
 * holds their fds until the end.  Sticky faults and pending errors never cross
 * an operation boundary. */
static uint64_t canon(void)
{
	uint64_t h = 0x4c34;
	h = mc_hash_u64(h, C.kind | C.ts << 2 | C.errcb << 3 | C.cof << 4 | C.disabled << 5 | C.cb0 << 6);
	h = mc_hash_u64(h, M.enabled | M.cb << 1 | M.had_cb << 3 | M.freed << 4 | ncli << 5 | (incb_used < incb_max ? incb_used : incb_max) << 8);
	if (!M.freed) {
		struct evconnlistener_event *le = EVUTIL_UPCAST(lev, struct evconnlistener_event, base);
		int icb = lev->cb == acb1 ? 1 : lev->cb == acb2 ? 2 : lev->cb ? 3 : 0;
		h = mc_hash_u64(h, lev->enabled | icb << 1 | (lev->errorcb ? 1 : 0) << 3 | (event_pending(&le->listener, EV_READ, NULL) ? 1 : 0) << 4 | (uint64_t)lev->refcnt << 8);
		h = mc_hash_u64(h, lev->user_data == &ud1 ? 1 : lev->user_data == &ud2 ? 2 : lev->user_data ? 3 : 0);
	}
	for (int i = 0; i < ncli; i++)
		if (cli[i].used && !cli[i].handed) h = mc_hash_u64(h, 0x100 + cli[i].closemode);
	return h;
}

/* ---- body ---------------------------------------------------------------- */
enum { OP_END, OP_LOOP, OP_CONNECT, OP_CLOSE_CLIENT, OP_FREE, OP_ENABLE, OP_DISABLE, OP_SETCB_NULL, OP_SETCB_1, OP_SETCB_2, OP_N };

static void logcb(int sev, const char *msg) { if (sev == EVENT_LOG_ERR) fprintf(stderr, "[err] %s\n", msg); }

static void init(void)
{
	mcx_alloc_install();
	event_set_log_callback(logcb);
	if (mc_param("threads", 1)) {
		evthread_use_pthreads();
		evthread_enable_lock_debugging();
	}
}

static void body(void)
{
	int D = mc_param("depth", 5);
	long live0 = mcx_alloc_live();
	uint64_t fds0 = mc_param("fdsig", 0) ? mcx_fd_signature() : fd_table_signature();
	int threads = mc_param("threads", 1);

	memset(&M, 0, sizeof M); memset(cli, 0, sizeof cli); memset(rec, 0, sizeof rec);
	ncli = nrec = 0; armed = accept_calls = sticky = sticky_left = pending_err = in_loop = n_errcb = n_deliv = 0;
	lev = NULL; lfd = -1;

	/* cfgA: socket kind x LEV_OPT_THREADSAFE x error callback installed.
	 * -P cfgs=0: a curated third of the product (every value of every dimension occurs). */
	static const int curated[4] = { 0 /* tcp */, 1 + K_N /* unix,ts */, 2 + 3 * K_N /* tcp-bind,ts,no errcb */, 0 + 2 * K_N /* tcp,no errcb */ };
	int a = mc_param("cfgs", 1) ? mc_choose(K_N * 2 * 2, 0, "cfgA") : curated[mc_choose(4, 0, "cfgA")];
	int b = mc_choose(8, 0, "cfgB");
	n_answers = mc_param("answers", A_N); if (n_answers < 2 || n_answers > A_N) n_answers = A_N;
	incb_max = mc_param("incb", 99); incb_used = 0;
	C.kind = a % K_N; C.ts = (a / K_N) & 1; C.errcb = !((a / K_N) >> 1 & 1);
	C.cof = !(b & 1); C.disabled = b >> 1 & 1; C.cb0 = !(b >> 2 & 1);
	if (!threads) C.ts = 0;

	base = event_base_new();
	if (!base) { mc_fail("harness:base", "event_base_new failed"); return; }

	unsigned flags = (C.cof ? LEV_OPT_CLOSE_ON_FREE : 0) | (C.disabled ? LEV_OPT_DISABLED : 0) | (C.ts ? LEV_OPT_THREADSAFE : 0);
	if (C.kind == K_UNIX_NEW) flags |= LEV_OPT_CLOSE_ON_EXEC;
	if (C.kind == K_TCP_BIND) flags |= LEV_OPT_LEAVE_SOCKETS_BLOCKING | LEV_OPT_REUSEABLE;
	M.enabled = !C.disabled; M.cb = C.cb0 ? 1 : 0; M.had_cb = C.cb0;
	if (C.kind == K_TCP_BIND) {
		struct sockaddr_in sin; memset(&sin, 0, sizeof sin); sin.sin_family = AF_INET; sin.sin_addr.s_addr = htonl(INADDR_LOOPBACK);
		for (int attempt = 0; attempt < 3000; attempt++) {   /* see make_listen_socket(): port exhaustion is waited out */
			lev = evconnlistener_new_bind(base, C.cb0 ? acb1 : NULL, C.cb0 ? &ud1 : NULL, flags, 8, (struct sockaddr *)&sin, sizeof sin);
			if (lev || (errno != EADDRINUSE && errno != EADDRNOTAVAIL)) break;
			MC_COUNT("env_bind_retries"); usleep(20000);
		}
		if (lev) lfd = evconnlistener_get_fd(lev);
	} else {
		lfd = make_listen_socket();
		if (lfd < 0) { mc_fail("harness:listen-socket", "%s", strerror(errno)); event_base_free(base); return; }
		lev = evconnlistener_new(base, C.cb0 ? acb1 : NULL, C.cb0 ? &ud1 : NULL, flags, C.kind == K_UNIX_NEW ? 0 : -1, lfd);
	}
	if (!lev || lfd < 0) { mc_fail("harness:listener-new", "evconnlistener_new failed"); if (lfd >= 0) close(lfd); event_base_free(base); return; }
	if (evconnlistener_get_base(lev) != base) mc_fail("harness:get-base", "x");
	laddrlen = sizeof laddr;
	if (getsockname(lfd, (struct sockaddr *)&laddr, &laddrlen) < 0) mc_fail("harness:getsockname", "%s", strerror(errno));
	if (C.errcb) evconnlistener_set_error_cb(lev, ecb);
	armed = 1;
	mc_observe("%s%s%s%s%s%s: ", C.kind == K_TCP_NEW ? "tcp" : C.kind == K_UNIX_NEW ? "unix" : "tcp-bind", C.ts ? ",ts" : "", C.errcb ? "" : ",noerrcb",
	    C.cof ? ",cof" : "", C.disabled ? ",disabled" : "", C.cb0 ? "" : ",nullcb");

	for (int step = 0; step < D; step++) {
		int op, npend = 0, pend[MAXCLI];
		for (int i = 0; i < ncli; i++) if (cli[i].used && !cli[i].handed && cli[i].open) pend[npend++] = i;
		op = mc_choose(M.freed ? OP_CONNECT : OP_N, 0, "op");   /* after free only loop steps remain meaningful */
		if (op == OP_END) break;
		switch (op) {
		case OP_LOOP: loop_step(); break;
		case OP_CONNECT:
			if (ncli >= MAXCLI) { mc_observe("connect- "); break; }
			if (do_connect() < 0) mc_fail("harness:connect", "%s", strerror(errno));
			mc_observe("connect ");
			MC_COUNT("op_connect");
			break;
		case OP_CLOSE_CLIENT: {
			if (!npend) { mc_observe("close- "); break; }
			int k = pend[mc_choose(npend, 0, "which")];
			int mode = laddr.ss_family == AF_INET ? 1 + mc_choose(2, 0, "fin/rst") : 1;
			if (mode == 2) hard_close(cli[k].fd); else close(cli[k].fd);
			cli[k].open = 0; cli[k].closemode = mode;
			mc_observe("close(c%d,%s) ", k, mode == 2 ? "rst" : "fin");
			MC_COUNT("op_close_pending_client");
			break; }
		case OP_FREE:
			do_free();
			mc_observe("free ");
			MC_COUNT("op_free_outside");
			check_listen_fd_after_free("free outside the loop");
			break;
		case OP_ENABLE: do_enable(); mc_observe("enable "); break;
		case OP_DISABLE: do_disable(); mc_observe("disable "); break;
		case OP_SETCB_NULL: do_set_cb(0); mc_observe("set_cb(NULL) "); break;
		case OP_SETCB_1: do_set_cb(1); mc_observe("set_cb(1) "); break;
		case OP_SETCB_2: do_set_cb(2); mc_observe("set_cb(2) "); break;
		}
		if (mc_failed()) break;
		if (mc_state(canon(), D - 1 - step)) break;
	}

	/* ---- teardown and hygiene ---- */
	if (!M.freed) {
		do_free();
		check_listen_fd_after_free("free at teardown");
	} else if (!M.destroyed_checked) check_listen_fd_after_free("teardown");
	armed = 0;
	for (int i = 0; i < nrec; i++) {
		if (rec[i].state == R_DELIVERED) {
			if (!fd_is_open(rec[i].fd)) mc_fail("C44/delivered-fd-closed", "a delivered fd was closed behind the callback's back");
			else hard_close(rec[i].fd);
		} else if (rec[i].state == R_UNDISPOSED) {
			mc_fail("harness:undisposed-at-end", "x");
			hard_close(rec[i].fd);
		}
	}
	for (int i = 0; i < ncli; i++) if (cli[i].used && cli[i].open) hard_close(cli[i].fd);
	event_base_free(base); base = NULL;
	MC_COUNT("oracle_baselines_checked");
	if (mcx_alloc_live() != live0) mc_fail("C44/memory-leak", "%ld library allocations outlive listener and base", mcx_alloc_live() - live0);
	if ((mc_param("fdsig", 0) ? mcx_fd_signature() : fd_table_signature()) != fds0) mc_fail("C44/fd-leak", "fd table differs from the baseline after everything handed to the harness was closed");
}

int main(int c, char **v)
{
	struct mc_config cfg = { .property = "C44", .body = body, .init = init, .default_split = 2 };
	return mc_main(c, v, &cfg);
}
