/* httpsrv.h — shared driver of the "httpsrv" harness family (C23, C25, C30).
 *
 * A real evhttp server runs in-process.  Per execution: fresh event_base +
 * evhttp, an AF_UNIX socketpair whose one end is handed to the server through
 * the static evhttp_get_request() (http.c is #included to reach it), the other
 * end is the scripted client.  The client writes the request stream in the
 * chosen segments; after each segment the loop is run with EVLOOP_NONBLOCK
 * until no callback is active (quiescent).  Time is virtual (env/vclock.c), so
 * no timeout can fire on its own.
 *
 * Recorded: every request handed to a user callback (method, target, version,
 * header fields in order, body bytes, which callback) and everything the
 * server wrote back (status codes, connection closed or not).
 */
#ifndef HTTPSRV_H
#define HTTPSRV_H
#include "mcx.h"
#include "vclock.h"
#include "http.c"
#include <sys/socket.h>
#include <sys/un.h>
#include <stdio.h>
#include <stdlib.h>
#include <string.h>
#include <errno.h>
#include <unistd.h>

#define SRV_MAXREQ 8
#define SRV_MAXHDR 256
#define SRV_MAXRESP 12
#define SRV_EXT_B (1u << 16)    /* extension method "EXTB": may have a body */
#define SRV_EXT_N (1u << 17)    /* extension method "EXTN": registered without EVHTTP_METHOD_HAS_BODY */
#define SRV_ALL_METHODS (0xffffu | SRV_EXT_B | SRV_EXT_N)

struct srv_req {
	char method[24];
	char *uri;
	int major, minor;
	int nh; char *hk[SRV_MAXHDR], *hv[SRV_MAXHDR];
	unsigned char *body; size_t body_len;
	int cb_id;
	char *host;                /* evhttp_request_get_host() */
};

struct srv {
	struct event_base *base;
	struct evhttp *http;
	int cfd, sfd;
	int nreq, req_overflow;
	struct srv_req req[SRV_MAXREQ];
	unsigned char *out; size_t out_len, out_cap;
	int eof;                   /* client end saw EOF / reset: server closed the connection */
	int send_failed;           /* a client write hit a closed connection */
	size_t sent;
	/* responses parsed from out (filled by srv_parse_responses) */
	int nresp, resp[SRV_MAXRESP], nfinal, final[SRV_MAXRESP], resp_garbage;
	/* per-loop-iteration observation of the server connection's input buffer */
	size_t max_in_head, max_in_body, max_in_any; long iters;
	int reply_code;            /* status the default handler answers with */
	long live0; uint64_t fd0;
};

static struct srv *srv_cur;

static void srv_log_cb(int sev, const char *msg) { (void)sev; (void)msg; }
static void srv_idle(void) { if (srv_cur && srv_cur->base) event_base_loopbreak(srv_cur->base); }

static int srv_ext_cmp(struct evhttp_ext_method *m)
{
	if (m->method == NULL) {
		if (m->type == SRV_EXT_B) { m->method = "EXTB"; m->flags = EVHTTP_METHOD_HAS_BODY; return 0; }
		if (m->type == SRV_EXT_N) { m->method = "EXTN"; return 0; }
		return -1;
	}
	if (!strcmp(m->method, "EXTB")) { m->type = SRV_EXT_B; return 0; }
	if (!strcmp(m->method, "EXTN")) { m->type = SRV_EXT_N; return 0; }
	return -1;
}

static char *srv_dup(const char *s) { size_t n = strlen(s); char *d = malloc(n + 1); memcpy(d, s, n + 1); return d; }

/* copy everything the callback can see out of the request object */
static void srv_capture(struct evhttp_request *req, int cb_id)
{
	struct srv *s = srv_cur;
	if (s->nreq >= SRV_MAXREQ) { s->req_overflow++; return; }
	struct srv_req *r = &s->req[s->nreq++];
	memset(r, 0, sizeof *r);
	const char *m = evhttp_method_(req->evcon, req->type, NULL);
	snprintf(r->method, sizeof r->method, "%s", m ? m : "?");
	r->uri = srv_dup(evhttp_request_get_uri(req) ? evhttp_request_get_uri(req) : "(null)");
	r->major = req->major; r->minor = req->minor;
	struct evkeyval *h;
	TAILQ_FOREACH(h, evhttp_request_get_input_headers(req), next) {
		if (r->nh >= SRV_MAXHDR) break;
		r->hk[r->nh] = srv_dup(h->key); r->hv[r->nh] = srv_dup(h->value); r->nh++;
	}
	struct evbuffer *in = evhttp_request_get_input_buffer(req);
	r->body_len = evbuffer_get_length(in);
	r->body = malloc(r->body_len + 1);
	evbuffer_copyout(in, r->body, r->body_len);
	r->body[r->body_len] = 0;
	const char *host = evhttp_request_get_host(req);
	r->host = host ? srv_dup(host) : NULL;
	r->cb_id = cb_id;
}

static void srv_handler(struct evhttp_request *req, void *arg)
{
	srv_capture(req, (int)(intptr_t)arg);
	evhttp_send_reply(req, srv_cur->reply_code, "OK", NULL);
}

static void srv_prewait(int kind, void *a, long n, int64_t t)
{
	(void)kind; (void)a; (void)n; (void)t;
	struct srv *s = srv_cur;
	if (!s || !s->http) return;
	struct evhttp_connection *evcon = TAILQ_FIRST(&s->http->connections);
	if (!evcon || !evcon->bufev) return;
	size_t len = evbuffer_get_length(bufferevent_get_input(evcon->bufev));
	s->iters++;
	if (len > s->max_in_any) s->max_in_any = len;
	if (evcon->state == EVCON_READING_BODY) { if (len > s->max_in_body) s->max_in_body = len; }
	else if (evcon->state == EVCON_READING_FIRSTLINE || evcon->state == EVCON_READING_HEADERS ||
	    evcon->state == EVCON_READING_TRAILER) { if (len > s->max_in_head) s->max_in_head = len; }
}

/* once per worker process */
static void srv_global_init(void)
{
	mcx_alloc_install();
	event_set_log_callback(srv_log_cb);
	signal(SIGPIPE, SIG_IGN);
}

/* fresh base + server + connected socketpair.  `configure` registers callbacks, limits, vhosts. */
static int srv_open(struct srv *s, void (*configure)(struct srv *, void *), void *carg)
{
	int sv[2];
	struct sockaddr_un sun;
	memset(s, 0, sizeof *s);
	s->cfd = s->sfd = -1;
	s->reply_code = 200;
	srv_cur = s;
	vclock_reset();
	vclock_idle_hook = srv_idle;
	vclock_prewait_hook = srv_prewait;
	s->live0 = mcx_alloc_live(); s->fd0 = mcx_fd_signature();
	s->base = event_base_new();
	if (!s->base) { mc_fail("harness:event_base_new", "failed"); return -1; }
	s->http = evhttp_new(s->base);
	evhttp_set_ext_method_cmp(s->http, srv_ext_cmp);
	evhttp_set_allowed_methods(s->http, SRV_ALL_METHODS);
	if (configure) configure(s, carg);
	if (socketpair(AF_UNIX, SOCK_STREAM, 0, sv) < 0) { mc_fail("harness:socketpair", "%s", strerror(errno)); return -1; }
	evutil_make_socket_nonblocking(sv[0]);
	evutil_make_socket_nonblocking(sv[1]);
	s->sfd = sv[0]; s->cfd = sv[1];
	memset(&sun, 0, sizeof sun);
	sun.sun_family = AF_UNIX;
	/* salen as accept() reports for an unnamed AF_UNIX peer */
	evhttp_get_request(s->http, s->sfd, (struct sockaddr *)&sun, sizeof(sa_family_t), NULL);
	return 0;
}

static void srv_drain_client(struct srv *s)
{
	unsigned char buf[8192];
	for (;;) {
		ssize_t r = recv(s->cfd, buf, sizeof buf, 0);
		if (r > 0) {
			if (s->out_len + (size_t)r + 1 > s->out_cap) { s->out_cap = (s->out_len + (size_t)r + 1) * 2; s->out = realloc(s->out, s->out_cap); }
			memcpy(s->out + s->out_len, buf, (size_t)r); s->out_len += (size_t)r; s->out[s->out_len] = 0;
			continue;
		}
		if (r == 0) { s->eof = 1; return; }
		if (errno == EINTR) continue;
		if (errno == EAGAIN || errno == EWOULDBLOCK) return;
		s->eof = 1; return;             /* ECONNRESET etc.: the server end is gone */
	}
}

/* run the loop until no callback is active, collect what came back; twice, so that
 * output produced by the last callbacks is collected and any reaction to it is run */
static void srv_pump(struct srv *s)
{
	for (int i = 0; i < 2; i++) {
		event_base_loop(s->base, EVLOOP_NONBLOCK);
		srv_drain_client(s);
	}
}

static void srv_send(struct srv *s, const unsigned char *p, size_t n)
{
	int stalls = 0;
	while (n) {
		ssize_t w = send(s->cfd, p, n, MSG_NOSIGNAL);
		if (w > 0) { p += w; n -= (size_t)w; s->sent += (size_t)w; stalls = 0; continue; }
		if (w < 0 && errno == EINTR) continue;
		if (w < 0 && (errno == EAGAIN || errno == EWOULDBLOCK)) {
			if (++stalls > 1000) { mc_fail("harness:send-stalled", "socket buffer full and server not reading"); return; }
			srv_pump(s);
			if (s->eof) { s->send_failed = 1; return; }
			continue;
		}
		s->send_failed = 1;      /* EPIPE / ECONNRESET: server closed */
		return;
	}
}

/* send stream[0..len) cut at the given sorted positions (0 < cut < len), pumping after each segment */
static void srv_send_segmented(struct srv *s, const unsigned char *stream, size_t len, const size_t *cuts, int ncuts)
{
	size_t from = 0;
	for (int i = 0; i <= ncuts; i++) {
		size_t to = i < ncuts ? cuts[i] : len;
		if (to > from) srv_send(s, stream + from, to - from);
		srv_pump(s);
		from = to;
	}
}

static void srv_send_bytewise(struct srv *s, const unsigned char *stream, size_t len)
{
	for (size_t i = 0; i < len; i++) { srv_send(s, stream + i, 1); srv_pump(s); }
	srv_pump(s);
}

/* client half-close: the server sees EOF */
static void srv_half_close(struct srv *s)
{
	shutdown(s->cfd, SHUT_WR);
	srv_pump(s);
}

/* status codes of all responses in s->out.  Every reply of srv_handler has an
 * empty body; error pages carry Content-Length (or are followed by close). */
static void srv_parse_responses(struct srv *s)
{
	size_t pos = 0;
	s->nresp = s->nfinal = 0; s->resp_garbage = 0;
	while (pos < s->out_len) {
		unsigned char *p = s->out + pos;
		size_t left = s->out_len - pos;
		if (left < 12 || memcmp(p, "HTTP/", 5) || p[8] != ' ') { s->resp_garbage = 1; return; }
		int code = atoi((char *)p + 9);
		unsigned char *eoh = memmem(p, left, "\r\n\r\n", 4);
		if (!eoh) { s->resp_garbage = 1; return; }
		size_t hl = (size_t)(eoh - p) + 4;
		if (s->nresp < SRV_MAXRESP) s->resp[s->nresp++] = code;
		if (code >= 200 && s->nfinal < SRV_MAXRESP) s->final[s->nfinal++] = code;
		size_t cl = 0;
		unsigned char *c = memmem(p, hl, "\r\nContent-Length: ", 18);
		if (c) cl = (size_t)strtoul((char *)c + 18, NULL, 10);
		pos += hl;
		if (code >= 200) {
			if (cl > s->out_len - pos) cl = s->out_len - pos;
			pos += cl;
			if (!c && code >= 400) return;      /* error page without length: rest is its body, then close */
		}
	}
}

static void srv_free_reqs(struct srv *s)
{
	for (int i = 0; i < s->nreq; i++) {
		struct srv_req *r = &s->req[i];
		free(r->uri); free(r->body); free(r->host);
		for (int k = 0; k < r->nh; k++) { free(r->hk[k]); free(r->hv[k]); }
	}
	s->nreq = 0;
	free(s->out); s->out = NULL; s->out_len = s->out_cap = 0;
}

/* tear everything down and check the allocator / fd baselines.  `prop` prefixes the failure keys. */
static void srv_close(struct srv *s, const char *prop, const char *what)
{
	char key[160];
	if (s->http) evhttp_free(s->http);
	s->http = NULL;
	if (s->base) event_base_free(s->base);
	s->base = NULL;
	if (s->cfd >= 0) close(s->cfd);
	s->cfd = -1;
	/* the server end is owned (and closed) by the connection's bufferevent */
	vclock_prewait_hook = NULL;
	long live = mcx_alloc_live();
	if (live != s->live0) {
		snprintf(key, sizeof key, "%s/leak", prop);
		mc_fail(key, "%ld library allocations still live after evhttp_free+event_base_free (%s)", live - s->live0, what);
	}
	if (mcx_fd_signature() != s->fd0) {
		snprintf(key, sizeof key, "%s/fdleak", prop);
		mc_fail(key, "fd table differs from the baseline after teardown (%s)", what);
		/* repair so that later executions start clean */
		if (s->sfd >= 0) close(s->sfd);
	}
	s->sfd = -1;
	srv_cur = NULL;
}

/* printable rendering of bytes for traces */
static const char *srv_show(const unsigned char *p, size_t n, char *buf, size_t cap)
{
	size_t o = 0;
	for (size_t i = 0; i < n && o + 5 < cap; i++) {
		unsigned char c = p[i];
		if (c == '\r') { buf[o++] = '\\'; buf[o++] = 'r'; }
		else if (c == '\n') { buf[o++] = '\\'; buf[o++] = 'n'; }
		else if (c == '\t') { buf[o++] = '\\'; buf[o++] = 't'; }
		else if (c < 0x20 || c >= 0x7f || c == '\\') o += (size_t)snprintf(buf + o, cap - o, "\\x%02x", c);
		else buf[o++] = (char)c;
	}
	buf[o] = 0;
	return buf;
}
#endif
