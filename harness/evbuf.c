/* evbuf — C12 (byte-string model), C13 (change callbacks), C14 (allocation
 * failure) on the real buffer.c.  One binary, -P mode=12|13|14.
 *
 * Tree mode.  An execution is a history of at most `depth` *mutating*
 * operations over two evbuffers A and B, each chosen from a flat instance
 * table (operation x buffer x argument values, "simplest first").  After
 * every operation: return value vs. the byte-string model, chain validator
 * (bookkeeping + chain bytes == model bytes), and in modes 13/14 the callback
 * accounting oracles.  The *read-only* operations (copyout, copyout_from,
 * peek, search, search_range, search_eol, ptr_set) are not choices: they do
 * not change the state, so the whole battery of them is run on the final state
 * of every execution.  Every history of length <= depth is the final state of
 * exactly one execution (the one that chooses END next), so every reachable
 * state gets the battery once.
 *
 * -P depth=N  -P alpha=0|1|2 (size of the instance table)  -P prune=0|1
 */
#include "evbuf_common.h"

enum { RS_OK = 0, RS_FAILED = 1, RS_SKIP = 2, RS_DEAD = -1 };
enum { SZ_CAPM1 = -10, SZ_CAP = -11, SZ_CAPP1 = -12, SZ_L1 = -13, SZ_L = -14, SZ_LP1 = -15, SZ_HUGE = -16, SZ_NEG = -17, SZ_FIT = -18 };

static int MODE = 12, DEPTH, ALPHA, PRUNE;
static struct evbuffer *EB[2];
static struct bytestr M[2], SNAP[2];
static const char *BN[2] = { "A", "B" };
static unsigned char PAY[8300], OUT[BS_MAX + 16], OUT2[BS_MAX + 16];
static const char *curop = "?";

/* ---- fault injection (mode 14) ---- */
static int fault_armed;
static int fault_hit(void) { return fault_armed && mcx_alloc_failed(); }
static void restore_models(void) { bs_copy(&M[0], &SNAP[0]); bs_copy(&M[1], &SNAP[1]); }

static size_t resolve(long code, size_t L)
{
	switch (code) {
	case SZ_CAPM1: return CAP - 1;
	case SZ_CAP: return CAP;
	case SZ_CAPP1: return CAP + 1;
	case SZ_L1: return L ? L - 1 : 0;
	case SZ_L: return L;
	case SZ_LP1: return L + 1;
	case SZ_HUGE: return (size_t)-1;
	default: return (size_t)code;
	}
}

static int chk_ret(const char *op, long exp, long got, int is_fail)
{
	MC_COUNT("retval_compared");
	if (exp == got) return RS_OK;
	if (fault_hit() && is_fail) { restore_models(); return RS_FAILED; }
	failk("retval", op, "returned %ld, model %ld", got, exp);
	return RS_DEAD;
}

/* ================= reference bookkeeping ================= */
#define MAXREF 16
static int nref; static int ref_cleaned[MAXREF]; static const void *ref_base[MAXREF]; static size_t ref_total[MAXREF];
static void ref_cleanup(const void *data, size_t len, void *extra)
{
	int id = (int)(intptr_t)extra;
	MC_COUNT("ref_cleanup_calls");
	if (id < 0 || id >= nref) { failk("ref-cleanup", "bad-id", "cleanup with unknown id %d", id); return; }
	if (data != ref_base[id] || len != ref_total[id])
		failk("ref-cleanup", "args", "cleanup(%p,%zu) for reference (%p,%zu)", data, len, ref_base[id], ref_total[id]);
	ref_cleaned[id]++;
}

/* ================= callbacks (modes 13, 14) ================= */
struct cbstate {
	struct evbuffer_cb_entry *ent;
	int installed, enabled, nodefer, behav;   /* behav: 0 plain, 1 drain 1 byte when bytes were added, 2 remove itself at first call */
	size_t op_add, op_del; int op_calls, removed_in_op, was_ok_at_start;
	int marked, elig;
};
static struct cbstate CB[3];                 /* 0,1 on A; 2 on B */
static int deferredA, scheduledA, uncertainA, run_uncertain, in_loop_step, run_open, in_cb_drain, runs_in_step;
static size_t accA_add, accA_del, snap_add, snap_del;
static size_t len0[2], cbinit_del[2];
static struct event_base *BASE;
#define CB_BUF(k) ((k) == 2 ? 1 : 0)

static void close_run(void)
{
	if (!run_open) return;
	for (int k = 0; k < 2; k++)
		if (CB[k].elig && !CB[k].marked && CB[k].installed && CB[k].enabled && !CB[k].nodefer)
			failk("deferred-missed", curop, "callback %d eligible for the deferred run was not invoked", k);
	run_open = 0;
}

static void cbfn(struct evbuffer *buf, const struct evbuffer_cb_info *info, void *arg)
{
	int k = (int)(intptr_t)arg, b = CB_BUF(k);
	struct cbstate *c = &CB[k];
	MC_COUNT("cb_invocations");
	if (buf != EB[b]) { failk("cb-buffer", curop, "callback %d got the wrong buffer", k); return; }
	if (info->orig_size + info->n_added - info->n_deleted != evbuffer_get_length(buf)) {
		/* known shape: the info was computed before an earlier callback of the same
		 * dispatch drained, i.e. it is too large by bytes that callbacks drained during this operation */
		size_t stale_by = info->orig_size + info->n_added - info->n_deleted - evbuffer_get_length(buf);
		if (stale_by >= 1 && stale_by <= cbinit_del[b])
			failk("size-identity", "after-modifying-callback", "cb %d in %s: orig %zu + added %zu - deleted %zu != length %zu (an earlier callback of the same dispatch drained)",
			    k, curop, info->orig_size, info->n_added, info->n_deleted, evbuffer_get_length(buf));
		else
			failk("size-identity", curop, "cb %d: orig %zu + added %zu - deleted %zu != length %zu", k, info->orig_size,
			    info->n_added, info->n_deleted, evbuffer_get_length(buf));
	} else MC_COUNT("cb_size_identity_ok");
	if (!c->installed || !c->enabled) { failk("disabled-called", curop, "callback %d invoked while %s", k, c->installed ? "disabled" : "removed"); return; }
	if (info->n_added == 0 && info->n_deleted == 0) failk("empty-report", curop, "callback %d invoked with no change", k);
	if (b == 0 && deferredA && !c->nodefer) {
		/* deferred delivery */
		MC_COUNT("cb_deferred_reports");
		if (!in_loop_step) failk("deferred-outside-loop", curop, "deferred callback %d ran outside the loop", k);
		if (!run_open || c->marked) {
			close_run();
			snap_add = accA_add; snap_del = accA_del; accA_add = accA_del = 0; scheduledA = 0;
			run_uncertain = uncertainA; uncertainA = 0;
			run_open = 1; runs_in_step++;
			for (int j = 0; j < 2; j++) { CB[j].marked = 0; CB[j].elig = CB[j].installed && CB[j].enabled && !CB[j].nodefer; }
		}
		c->marked = 1;
		if (run_uncertain) MC_COUNT("cb_deferred_unchecked_uncertain");
		else if (info->n_added != snap_add || info->n_deleted != snap_del)
			failk("deferred-aggregate", curop, "cb %d deferred report added %zu deleted %zu, changes since previous report %zu/%zu",
			    k, info->n_added, info->n_deleted, snap_add, snap_del);
		else MC_COUNT("cb_deferred_aggregate_ok");
	} else {
		c->op_add += info->n_added; c->op_del += info->n_deleted; c->op_calls++;
	}
	if (c->behav == 1 && info->n_added > 0 && !in_cb_drain) {
		size_t before = M[b].len;
		in_cb_drain = 1;
		/* The model already holds the whole effect of the running operation
		 * (it is applied before the real call).  A front drain commutes with the rest
		 * of the operation unless the real buffer is empty right now (possible for a
		 * callback that is handed stale info after an earlier callback drained):
		 * then the real drain is a no-op and so is the model's. */
		int exp = evbuffer_get_length(buf) == 0 ? 0 : bs_drain(&M[b], 1);
		cbinit_del[b] += before - M[b].len;
		if (b == 0 && deferredA && before != M[b].len) { accA_del += before - M[b].len; scheduledA = 1; }
		int got = evbuffer_drain(buf, 1);
		in_cb_drain = 0;
		MC_COUNT("cb_modifies_buffer");
		if (exp != got) failk("retval", "drain-in-callback", "returned %d, model %d", got, exp);
	} else if (c->behav == 2 && in_cb_drain && !mc_param("uaf", 0)) {
		/* This invocation comes from a dispatch nested inside another
		 * callback's drain.  The outer evbuffer_run_callbacks loop has already
		 * saved a pointer to this entry as its `next`; freeing the entry now makes
		 * the outer loop read freed memory (ASan: heap-use-after-free in
		 * evbuffer_run_callbacks; run with -P uaf=1 to see it).  A crash per
		 * history would stop the exploration, so the hazard is reported under
		 * its own key and the removal is skipped. */
		failk("self-removal", "in-nested-dispatch", "%s: callback %d removes itself while an outer dispatch still holds it as next entry (use-after-free in evbuffer_run_callbacks)", curop, k);
	} else if (c->behav == 2) {
		MC_COUNT("cb_removes_itself");
		evbuffer_remove_cb_entry(buf, c->ent);
		c->installed = 0; c->ent = NULL; c->removed_in_op = 1;
		if (b == 0 && deferredA) uncertainA = 1;
	}
}

static int n_installed_A(void) { return CB[0].installed + CB[1].installed; }

static void acct_begin(void)
{
	for (int b = 0; b < 2; b++) { len0[b] = M[b].len; cbinit_del[b] = 0; }
	for (int k = 0; k < 3; k++) {
		CB[k].op_add = CB[k].op_del = 0; CB[k].op_calls = 0; CB[k].removed_in_op = 0;
		CB[k].was_ok_at_start = CB[k].installed && CB[k].enabled;
	}
}

/* after an operation (or loop step): ground truth from the model's length
 * change, compared with what immediate-class callbacks were told */
static void acct_end(int listA_nonempty_at_start, int failed_op)
{
	for (int b = 0; b < 2; b++) {
		size_t added = 0, deleted = cbinit_del[b];
		size_t after = M[b].len + cbinit_del[b];
		if (after > len0[b]) added = after - len0[b]; else deleted += len0[b] - after;
		for (int k = 0; k < 3; k++) {
			struct cbstate *c = &CB[k];
			if (CB_BUF(k) != b) continue;
			if (failed_op && c->op_calls)
				failk("callback-on-failure", curop, "callback %d invoked %d times by a call that reported failure", k, c->op_calls);
			if (!c->was_ok_at_start || !c->installed || !c->enabled || c->removed_in_op) continue;
			if (b == 0 && deferredA && !c->nodefer) continue;       /* deferred class: checked at the loop step */
			if (in_loop_step && !(added || deleted)) continue;
			MC_COUNT("cb_sum_compared");
			if (c->op_add != added || c->op_del != deleted) {
				/* known shape: a NODEFER callback on a deferred buffer is told cumulative counts (never too little) */
				if (b == 0 && deferredA && c->nodefer && c->op_add >= added && c->op_del >= deleted)
					failk("sum", "nodefer-on-deferred-buffer", "%s: NODEFER cb %d on a deferred buffer was told added %zu deleted %zu, actual %zu/%zu",
					    curop, k, c->op_add, c->op_del, added, deleted);
				else
					failk("sum", curop, "cb %d on %s was told added %zu deleted %zu in %d calls, actual %zu/%zu", k, BN[b],
					    c->op_add, c->op_del, c->op_calls, added, deleted);
			}
		}
		if (b == 0 && deferredA && !listA_nonempty_at_start && !(added || deleted) && (accA_add || accA_del)) {
			/* a call that changes nothing (drain of 0 bytes...) may still run the dispatch, and
			 * the dispatch discards the pending aggregate when no callback is installed:
			 * whether the aggregate survives is not determined by the property */
			uncertainA = 1;
		}
		if (b == 0 && deferredA && (added || deleted)) {
			/* the operation's own change (callback-initiated drains were booked when they happened) */
			size_t own_del = deleted - cbinit_del[b];
			if (!listA_nonempty_at_start) { accA_add = accA_del = 0; }
			else { accA_add += added; accA_del += own_del; if (added || own_del) scheduledA = 1; }
		}
	}
}

static void loop_step(void)
{
	if (!BASE) return;
	int sched0 = scheduledA, unc0 = uncertainA, elig0 = 0;
	size_t a0 = accA_add, d0 = accA_del;
	for (int k = 0; k < 2; k++) if (CB[k].installed && CB[k].enabled && !CB[k].nodefer) elig0 = 1;
	int list0 = n_installed_A() > 0;
	curop = "loop";
	acct_begin();
	in_loop_step = 1; run_open = 0; runs_in_step = 0;
	event_base_loop(BASE, EVLOOP_NONBLOCK);
	close_run();
	acct_end(list0, 0);
	in_loop_step = 0;
	if (sched0 && runs_in_step == 0) {
		/* the deferred callback ran but had nobody (eligible) to tell, or nothing to tell */
		if ((a0 || d0) && elig0 && !unc0 && list0)
			failk("deferred-lost", "loop", "pending changes +%zu -%zu were never reported to the enabled deferred callback", a0, d0);
		accA_add = accA_del = 0; scheduledA = 0; uncertainA = 0;
	}
	MC_COUNT("loop_steps");
}

/* ================= operations ================= */
struct inst { int (*fn)(const struct inst *); const char *name; int b; long a1, a2, a3; int kmax; };
#define MAXINST 400
static struct inst INST[MAXINST]; static int NINST;

static int op_add(const struct inst *in)
{
	size_t n = resolve(in->a1, 0);
	gen_payload(PAY, n, 0);
	int exp = bs_add(&M[in->b], PAY, n);
	int got = evbuffer_add(EB[in->b], PAY, n);
	return chk_ret(in->name, exp, got, got == -1);
}
static int op_prepend(const struct inst *in)
{
	size_t n = resolve(in->a1, 0);
	gen_payload(PAY, n, 1);
	int exp = bs_prepend(&M[in->b], PAY, n);
	int got = evbuffer_prepend(EB[in->b], PAY, n);
	return chk_ret(in->name, exp, got, got == -1);
}
static int op_drain(const struct inst *in)
{
	size_t n = resolve(in->a1, M[in->b].len);
	int exp = bs_drain(&M[in->b], n);
	int got = evbuffer_drain(EB[in->b], n);
	return chk_ret(in->name, exp, got, 0);
}
static int op_remove(const struct inst *in)
{
	size_t n = resolve(in->a1, M[in->b].len);
	if (n > BS_MAX) n = BS_MAX;
	memset(OUT, 0xEE, 8); memset(OUT2, 0xEE, 8);
	int exp = bs_remove(&M[in->b], OUT2, n);
	int got = evbuffer_remove(EB[in->b], OUT, n);
	int r = chk_ret(in->name, exp, got, 0);
	if (r == RS_OK && exp > 0) {
		MC_COUNT("copied_bytes_compared");
		if (memcmp(OUT, OUT2, exp)) { failk("copied-bytes", in->name, "removed bytes differ from the model"); return RS_DEAD; }
	}
	return r;
}
static int op_pullup(const struct inst *in)
{
	int b = in->b;
	ssize_t n = in->a1 == SZ_NEG ? -1 : (ssize_t)resolve(in->a1, M[b].len);
	size_t want = bs_pullup(&M[b], n);
	unsigned char *p = evbuffer_pullup(EB[b], n);
	MC_COUNT("retval_compared");
	if (!want) {
		if (p) { failk("retval", in->name, "pullup(%zd) returned a pointer, model NULL (len %zu)", n, M[b].len); return RS_DEAD; }
		return RS_OK;
	}
	if (!p) {
		if (fault_hit()) { restore_models(); return RS_FAILED; }
		failk("retval", in->name, "pullup(%zd) returned NULL, len %zu", n, M[b].len); return RS_DEAD;
	}
	if (evbuffer_get_contiguous_space(EB[b]) < want) { failk("pointer", in->name, "pullup(%zd): only %zu contiguous", n, evbuffer_get_contiguous_space(EB[b])); return RS_DEAD; }
	MC_COUNT("copied_bytes_compared");
	if (memcmp(p, M[b].d, want)) { failk("pointer", in->name, "pullup(%zd): bytes at the returned pointer differ from the prefix", n); return RS_DEAD; }
	return RS_OK;
}
static int op_expand(const struct inst *in)
{
	size_t n = resolve(in->a1, 0);
	int exp = bs_expand(&M[in->b], n);
	int got = evbuffer_expand(EB[in->b], n);
	int r = chk_ret(in->name, exp, got, got == -1);
	if (r == RS_OK && got == 0) {
		/* documented effect: appending n more bytes needs no allocation */
		struct evbuffer_chain *c = *EB[in->b]->last_with_datap;
		size_t space = 0;
		for (; c; c = c->next) { size_t s = (c->flags & EVBUFFER_IMMUTABLE) ? 0 : c->buffer_len - c->misalign - c->off; if (s > space) space = s; }
		MC_COUNT("expand_space_checked");
		if (space < n) { failk("effect", in->name, "expand(%zu) succeeded but the largest free extent is %zu", n, space); return RS_DEAD; }
	}
	return r;
}
/* a1 = n_vec (1|2), a2 = size code, a3 = commit mode */
enum { CM_REQ, CM_FULL, CM_NONE, CM_ZERO, CM_BADLEN, CM_BADBASE, CM_NVEC0 };
static int op_reserve(const struct inst *in)
{
	int b = in->b, nv = (int)in->a1;
	size_t size = resolve(in->a2, 0), tot = 0;
	struct evbuffer_iovec v[2], w[2];
	int exp = bs_reserve(&M[b]);
	int got = evbuffer_reserve_space(EB[b], (ev_ssize_t)size, v, nv);
	MC_COUNT("retval_compared");
	if (exp < 0) {
		if (got != -1) { failk("retval", in->name, "reserve_space on a frozen end returned %d", got); return RS_DEAD; }
		return RS_OK;
	}
	if (got == -1) {
		if (fault_hit()) { restore_models(); return RS_FAILED; }
		failk("retval", in->name, "reserve_space(%zu,%d) returned -1", size, nv); return RS_DEAD;
	}
	if (got < 0 || got > nv) { failk("retval", in->name, "reserve_space(%zu,%d) returned %d extents", size, nv, got); return RS_DEAD; }
	for (int i = 0; i < got; i++) tot += v[i].iov_len;
	if (tot < size) { failk("effect", in->name, "reserve_space(%zu,%d) gave only %zu bytes in %d extents", size, nv, tot, got); return RS_DEAD; }
	/* the reserved space is ours: fill all of it (ASan checks ownership) */
	gen_payload(PAY, tot > sizeof PAY ? sizeof PAY : tot, 2);
	{ size_t o = 0; for (int i = 0; i < got; i++) { size_t l = v[i].iov_len; if (o + l > sizeof PAY) l = sizeof PAY - o; memcpy(v[i].iov_base, PAY + o, l); o += l; } }
	/* reserving must not change the contents */
	if (validate_buf(EB[b], &M[b], in->name, BN[b])) return RS_DEAD;
	size_t want = 0;
	switch (in->a3) {
	case CM_NONE: return RS_OK;
	case CM_REQ: want = size; break;
	case CM_FULL: want = tot > sizeof PAY ? sizeof PAY : tot; break;
	case CM_ZERO: case CM_NVEC0: want = 0; break;
	case CM_BADLEN: case CM_BADBASE: want = size; break;
	}
	memcpy(w, v, sizeof v);
	{ size_t left = want; for (int i = 0; i < got; i++) { size_t l = w[i].iov_len < left ? w[i].iov_len : left; w[i].iov_len = l; left -= l; } }
	if (got > 0 && (in->a3 == CM_BADLEN || in->a3 == CM_BADBASE)) {
		struct evbuffer_iovec bad[2]; memcpy(bad, v, sizeof v);
		if (in->a3 == CM_BADLEN) bad[0].iov_len = v[0].iov_len + 1; else bad[0].iov_base = (char *)v[0].iov_base + 1;
		int r = evbuffer_commit_space(EB[b], bad, got);
		MC_COUNT("commit_rejections_checked");
		if (r != -1) { failk("retval", in->name, "commit_space accepted an extent that %s", in->a3 == CM_BADLEN ? "is longer than reserved" : "does not start where the reserved one did"); return RS_DEAD; }
		if (validate_buf(EB[b], &M[b], in->name, BN[b])) return RS_DEAD;
	}
	int ncommit = in->a3 == CM_NVEC0 ? 0 : got;
	/* drop trailing zero-length extents only when nothing at all is committed to them: keep natural usage */
	exp = bs_commit(&M[b], PAY, want);
	got = evbuffer_commit_space(EB[b], w, ncommit);
	return chk_ret(in->name, exp, got, 0);
}
/* a1 = variant */
static int op_add_iovec(const struct inst *in)
{
	static const long lens[3][2] = { { 1, SZ_CAP }, { SZ_CAPP1, 2 }, { 0, 0 } };
	struct evbuffer_iovec v[2]; size_t l0 = resolve(lens[in->a1][0], 0), l1 = resolve(lens[in->a1][1], 0);
	gen_payload(PAY, l0 + l1, 2);
	v[0].iov_base = PAY; v[0].iov_len = l0; v[1].iov_base = PAY + l0; v[1].iov_len = l1;
	size_t exp = M[in->b].fz_end ? 0 : l0 + l1;
	bs_add(&M[in->b], PAY, exp);                 /* model first: callbacks may run inside the call */
	size_t got = evbuffer_add_iovec(EB[in->b], v, 2);
	MC_COUNT("retval_compared");
	if (got == exp) return RS_OK;
	if (fault_hit() && (got == 0 || got == l0)) { restore_models(); bs_add(&M[in->b], PAY, got); return got ? RS_OK : RS_FAILED; }
	failk("retval", in->name, "add_iovec returned %zu, model %zu", got, exp);
	return RS_DEAD;
}
static int op_add_printf(const struct inst *in)
{
	size_t n = resolve(in->a1, 0);
	static char s[4200];
	if (in->a1 == SZ_FIT) {
		/* output exactly as long as the free space of the chain add_vprintf will format into
		 * (the chain with data if it has >= 64 free bytes, else a fresh minimal chain): the
		 * boundary of its "does it fit including the NUL" test */
		struct evbuffer_chain *c = *EB[in->b]->last_with_datap;
		size_t sp = 0;
		if (c && !(c->flags & EVBUFFER_IMMUTABLE)) sp = c->buffer_len - (size_t)c->misalign - c->off;
		if (c && sp == 0 && c->next && !(c->next->flags & EVBUFFER_IMMUTABLE)) sp = c->next->buffer_len - (size_t)c->next->misalign - c->next->off;
		n = (sp >= 64 && sp < sizeof s - 8) ? sp : CAP;
	}
	gen_payload((unsigned char *)s, n, 0);
	for (size_t i = 0; i < n; i++) if (!s[i]) s[i] = '0';
	s[n] = 0;
	int exp = bs_add(&M[in->b], s, n); if (exp == 0) exp = (int)n;
	int got = evbuffer_add_printf(EB[in->b], "%s", s);
	return chk_ret(in->name, exp, got, got == -1);
}
static int op_readln(const struct inst *in)
{
	int b = in->b; size_t ll = 0, gl = 77;
	int have = bs_readln(&M[b], (enum bs_eol)in->a1, OUT2, &ll);
	char *line = evbuffer_readln(EB[b], &gl, (enum evbuffer_eol_style)in->a1);
	MC_COUNT("retval_compared");
	if (!have) {
		if (line) { mm_free(line); failk("retval", in->name, "readln returned a line, model NULL"); return RS_DEAD; }
		if (gl != 0) { failk("retval", in->name, "readln NULL but n_read_out %zu", gl); return RS_DEAD; }
		return RS_OK;
	}
	if (!line) {
		if (fault_hit()) { restore_models(); if (gl != 0) { failk("retval", in->name, "failed readln set n_read_out %zu", gl); return RS_DEAD; } return RS_FAILED; }
		failk("retval", in->name, "readln returned NULL, model has a line of %zu bytes", ll); return RS_DEAD;
	}
	int bad = gl != ll || memcmp(line, OUT2, ll) || line[ll] != 0;
	mm_free(line);
	MC_COUNT("copied_bytes_compared");
	if (bad) { failk("copied-bytes", in->name, "readln line (len %zu) differs from the model's (len %zu)", gl, ll); return RS_DEAD; }
	return RS_OK;
}
static int op_freeze(const struct inst *in)
{
	int exp = in->a2 ? bs_freeze(&M[in->b], (int)in->a1) : bs_unfreeze(&M[in->b], (int)in->a1);
	int got = in->a2 ? evbuffer_freeze(EB[in->b], (int)in->a1) : evbuffer_unfreeze(EB[in->b], (int)in->a1);
	return chk_ret(in->name, exp, got, 0);
}
/* a1 = offset into the reference page, a2 = length, a3 = use _with_offset */
static int op_add_reference(const struct inst *in)
{
	int b = in->b; size_t off = (size_t)in->a1, n = resolve(in->a2, 0);
	if (nref >= MAXREF) return RS_SKIP;
	int id = nref++;
	const unsigned char *base = in->a3 ? REFMEM : REFMEM + off;
	ref_base[id] = base; ref_total[id] = in->a3 ? off + n : n; ref_cleaned[id] = 0;
	int exp = bs_add_reference(&M[b], REFMEM + off, n);
	int got = in->a3 ? evbuffer_add_reference_with_offset(EB[b], base, off, n, ref_cleanup, (void *)(intptr_t)id)
	                 : evbuffer_add_reference(EB[b], base, n, ref_cleanup, (void *)(intptr_t)id);
	int r = chk_ret(in->name, exp, got, got == -1);
	if (got == -1) {
		/* a refused reference must not be cleaned up (the caller still owns the memory) */
		if (ref_cleaned[id]) { failk("ref-cleanup", in->name, "cleanup ran for a reference that was refused"); return RS_DEAD; }
		nref--;
	}
	return r;
}
/* Moving buffer-reference (multicast) chains back into the buffer they refer to
 * makes that buffer own a reference to itself: it can then never be freed.
 * That is a reference cycle built by the caller, outside the properties; the
 * histories that would build one are not applicable (see notes/evbuf.md). */
static int would_cycle(int d, int s)
{
	for (struct evbuffer_chain *c = EB[s]->first; c; c = c->next)
		if ((c->flags & EVBUFFER_MULTICAST) && (EVBUFFER_CHAIN_EXTRA(struct evbuffer_multicast_parent, c))->source == EB[d]) return 1;
	return 0;
}
/* two-buffer operations: b = destination for add/prepend_buffer, source for remove_buffer */
static int op_add_buffer(const struct inst *in)
{
	int d = in->b, s = (int)in->a1;
	if (would_cycle(d, s)) return RS_SKIP;
	int exp = bs_add_buffer(&M[d], &M[s]);
	int got = evbuffer_add_buffer(EB[d], EB[s]);
	return chk_ret(in->name, exp, got, got == -1);
}
static int op_prepend_buffer(const struct inst *in)
{
	int d = in->b, s = (int)in->a1;
	if (would_cycle(d, s)) return RS_SKIP;
	int exp = bs_prepend_buffer(&M[d], &M[s]);
	int got = evbuffer_prepend_buffer(EB[d], EB[s]);
	return chk_ret(in->name, exp, got, got == -1);
}
static int op_remove_buffer(const struct inst *in)
{
	int s = in->b, d = (int)in->a1;
	size_t n = resolve(in->a2, M[s].len);
	if (would_cycle(d, s)) return RS_SKIP;
	int exp = bs_remove_buffer(&M[s], &M[d], n);
	int got = evbuffer_remove_buffer(EB[s], EB[d], n);
	MC_COUNT("retval_compared");
	if (exp == got) return RS_OK;
	if (fault_hit() && got >= -1 && got < exp) {
		/* reported a failure (-1) or a shorter move: exactly that much must have moved */
		restore_models();
		if (got > 0) bs_remove_buffer(&M[s], &M[d], (size_t)got);
		return got > 0 ? RS_OK : RS_FAILED;
	}
	failk("retval", in->name, "remove_buffer returned %d, model %d", got, exp);
	return RS_DEAD;
}
static int op_add_buffer_reference(const struct inst *in)
{
	int d = in->b, s = (int)in->a1;
	/* sources that already hold multicast chains are refused (header: "buffers
	 * already containing buffer references can't be added") */
	int has_mc = 0;
	for (struct evbuffer_chain *c = EB[s]->first; c; c = c->next) if (c->flags & EVBUFFER_MULTICAST) has_mc = 1;
	int exp = (M[s].len && has_mc) ? -1 : bs_add_buffer_reference(&M[d], &M[s]);
	int got = evbuffer_add_buffer_reference(EB[d], EB[s]);
	return chk_ret(in->name, exp, got, got == -1);
}

/* ---- mode 13 control operations ---- */
static int op_cb_add(const struct inst *in)
{
	int k = (int)in->a1;
	if (CB[k].installed) return RS_SKIP;
	memset(&CB[k], 0, sizeof CB[k]);
	CB[k].ent = evbuffer_add_cb(EB[CB_BUF(k)], cbfn, (void *)(intptr_t)k);
	if (!CB[k].ent) { failk("harness", "add_cb", "evbuffer_add_cb failed"); return RS_DEAD; }
	CB[k].installed = 1; CB[k].enabled = 1; CB[k].behav = (int)in->a2;
	return RS_OK;
}
static int op_cb_remove(const struct inst *in)
{
	int k = (int)in->a1;
	if (!CB[k].installed) return RS_SKIP;
	int got = in->a2 ? evbuffer_remove_cb(EB[CB_BUF(k)], cbfn, (void *)(intptr_t)k) : evbuffer_remove_cb_entry(EB[CB_BUF(k)], CB[k].ent);
	CB[k].installed = 0; CB[k].ent = NULL;
	return chk_ret(in->name, 0, got, 0);
}
static int op_cb_flags(const struct inst *in)
{
	int k = (int)in->a1; ev_uint32_t fl = (ev_uint32_t)in->a2;
	if (!CB[k].installed) return RS_SKIP;
	int got = in->a3 ? evbuffer_cb_set_flags(EB[CB_BUF(k)], CB[k].ent, fl) : evbuffer_cb_clear_flags(EB[CB_BUF(k)], CB[k].ent, fl);
	if (fl == EVBUFFER_CB_ENABLED) CB[k].enabled = (int)in->a3; else CB[k].nodefer = (int)in->a3;
	return chk_ret(in->name, 0, got, 0);
}
static int op_loop(const struct inst *in);
/* compound: remove callback 0, run one loop step (a pending deferred run then finds an empty
 * list), install a plain callback 0 again.  Three plain instances in a row; brings "what
 * happens to the pending aggregate when the deferred run finds nobody" within depth 3. */
static int op_cb_reinstall_across_loop(const struct inst *in)
{
	struct inst i = *in;
	if (!CB[0].installed) return RS_SKIP;
	i.a1 = 0; i.a2 = 0; if (op_cb_remove(&i) == RS_DEAD) return RS_DEAD;
	if (op_loop(&i) == RS_DEAD) return RS_DEAD;
	curop = in->name;
	i.a1 = 0; i.a2 = 0; return op_cb_add(&i);
}
static int op_defer(const struct inst *in)
{
	(void)in;
	if (deferredA) return RS_SKIP;
	if (!BASE) {
		struct event_config *cfg = event_config_new();
		event_config_avoid_method(cfg, "epoll");        /* poll backend: no extra fds */
		BASE = event_base_new_with_config(cfg);
		event_config_free(cfg);
		if (!BASE) { failk("harness", "defer", "no event base"); return RS_DEAD; }
	}
	int got = evbuffer_defer_callbacks(EB[0], BASE);
	deferredA = 1; accA_add = accA_del = 0; scheduledA = 0; uncertainA = 0;
	/* changes made before deferral that immediate callbacks already saw are not pending: n_add_for_cb is 0 here */
	return chk_ret(in->name, 0, got, 0);
}
static int op_loop(const struct inst *in)
{
	(void)in;
	if (!BASE) return RS_SKIP;
	loop_step();
	return mc_failed() ? RS_DEAD : RS_OK;
}

/* ================= instance table ================= */
static void addi(int level, int (*fn)(const struct inst *), const char *name, int b, long a1, long a2, long a3, int kmax)
{
	if (level > ALPHA) return;
	if (NINST >= MAXINST) { fprintf(stderr, "evbuf: instance table full\n"); exit(2); }
	struct inst *i = &INST[NINST++];
	i->fn = fn; i->name = name; i->b = b; i->a1 = a1; i->a2 = a2; i->a3 = a3; i->kmax = kmax;
}

/* level 0 = core (every operation, the sizes that decide which branch of the
 * chain code runs), 1 = full boundary alphabet of DESIGN §3 C12, 2 = extras */
static void build_instances(void)
{
	int A = 0, B = 1;
	/* simplest first */
	addi(0, op_add, "add", A, 1, 0, 0, 1);
	addi(0, op_add, "add", A, SZ_CAPM1, 0, 0, 1);
	addi(0, op_add, "add", A, SZ_CAPP1, 0, 0, 1);
	addi(1, op_add, "add", A, 2, 0, 0, 1);
	addi(1, op_add, "add", A, SZ_CAP, 0, 0, 1);
	addi(1, op_add, "add", A, 2049, 0, 0, 1);
	addi(1, op_add, "add", A, 4097, 0, 0, 1);
	addi(1, op_add, "add", A, 0, 0, 0, 1);
	addi(0, op_drain, "drain", A, 1, 0, 0, 0);
	addi(0, op_drain, "drain", A, SZ_CAP, 0, 0, 0);
	addi(0, op_drain, "drain", A, SZ_L1, 0, 0, 0);
	addi(2, op_drain, "drain", A, 2, 0, 0, 0);
	addi(2, op_drain, "drain", A, SZ_CAPM1, 0, 0, 0);
	addi(1, op_drain, "drain", A, SZ_CAPP1, 0, 0, 0);
	addi(1, op_drain, "drain", A, SZ_HUGE, 0, 0, 0);
	addi(0, op_prepend, "prepend", A, 1, 0, 0, 1);
	addi(0, op_prepend, "prepend", A, SZ_CAPP1, 0, 0, 1);
	addi(1, op_prepend, "prepend", A, 2, 0, 0, 1);
	addi(2, op_prepend, "prepend", A, SZ_CAPM1, 0, 0, 1);
	addi(1, op_prepend, "prepend", A, SZ_CAP, 0, 0, 1);
	addi(2, op_prepend, "prepend", A, 2049, 0, 0, 1);
	addi(2, op_prepend, "prepend", A, 4097, 0, 0, 1);
	addi(2, op_prepend, "prepend", A, 0, 0, 0, 1);
	addi(0, op_add_buffer, "add_buffer(A<-B)", A, B, 0, 0, 1);
	addi(0, op_add_buffer, "add_buffer(B<-A)", B, A, 0, 0, 1);
	addi(0, op_add, "addB", B, 1, 0, 0, 1);
	addi(0, op_add, "addB", B, SZ_CAPP1, 0, 0, 1);
	addi(1, op_add, "addB", B, SZ_CAPM1, 0, 0, 1);
	addi(0, op_remove_buffer, "remove_buffer(A->B)", A, B, 1, 0, 1);
	addi(0, op_remove_buffer, "remove_buffer(A->B)", A, B, SZ_CAP, 0, 1);
	addi(1, op_remove_buffer, "remove_buffer(A->B)", A, B, SZ_CAPP1, 0, 1);
	addi(1, op_remove_buffer, "remove_buffer(A->B)", A, B, SZ_L1, 0, 1);
	addi(1, op_remove_buffer, "remove_buffer(A->B)", A, B, SZ_HUGE, 0, 1);
	addi(0, op_remove_buffer, "remove_buffer(B->A)", B, A, 1, 0, 1);
	addi(1, op_remove_buffer, "remove_buffer(B->A)", B, A, SZ_CAP, 0, 1);
	addi(2, op_remove_buffer, "remove_buffer(B->A)", B, A, SZ_L1, 0, 1);
	addi(2, op_remove_buffer, "remove_buffer(A->A)", A, A, 1, 0, 1);
	addi(2, op_remove_buffer, "remove_buffer(A->B)", A, B, 0, 0, 1);
	addi(0, op_pullup, "pullup", A, SZ_NEG, 0, 0, 1);
	addi(0, op_pullup, "pullup", A, SZ_CAPP1, 0, 0, 1);
	addi(2, op_pullup, "pullup", A, 2, 0, 0, 1);
	addi(1, op_pullup, "pullup", A, SZ_CAP, 0, 0, 1);
	addi(1, op_pullup, "pullup", A, 2049, 0, 0, 1);
	addi(1, op_pullup, "pullup", A, SZ_LP1, 0, 0, 1);
	addi(2, op_pullup, "pullup", A, 0, 0, 0, 1);
	addi(2, op_pullup, "pullup", A, 1, 0, 0, 1);
	addi(0, op_remove, "remove", A, SZ_CAPP1, 0, 0, 0);
	addi(1, op_remove, "remove", A, 1, 0, 0, 0);
	addi(1, op_remove, "remove", A, 4097, 0, 0, 0);
	addi(2, op_remove, "remove", A, 0, 0, 0, 0);
	addi(0, op_expand, "expand", A, SZ_CAPP1, 0, 0, 1);
	addi(2, op_expand, "expand", A, 1, 0, 0, 1);
	addi(1, op_expand, "expand", A, SZ_CAP, 0, 0, 1);
	addi(1, op_expand, "expand", A, 4097, 0, 0, 1);
	addi(0, op_prepend_buffer, "prepend_buffer(A<-B)", A, B, 0, 0, 1);
	/* core: with add(A), reserve2-only(A) (A = data chain + trailing empty chain), addB this reaches
	 * PREPEND_CHAIN with a source that ends in an empty chain at depth 4 (seed C12-prepend-chain-last-with-datap) */
	addi(0, op_prepend_buffer, "prepend_buffer(B<-A)", B, A, 0, 0, 1);
	addi(0, op_reserve, "reserve1+commit", A, 1, SZ_CAPP1, CM_REQ, 1);
	addi(0, op_reserve, "reserve2+commit", A, 2, SZ_CAPP1, CM_REQ, 1);
	addi(0, op_reserve, "reserve2-only", A, 2, SZ_CAPP1, CM_NONE, 1);
	addi(1, op_reserve, "reserve1+commit", A, 1, 1, CM_REQ, 1);
	addi(1, op_reserve, "reserve2+commit", A, 2, 1, CM_REQ, 1);
	addi(1, op_reserve, "reserve1+commit", A, 1, 4097, CM_REQ, 1);
	addi(1, op_reserve, "reserve2+commit", A, 2, 4097, CM_REQ, 1);
	addi(1, op_reserve, "reserve1+commit-all", A, 1, 1, CM_FULL, 1);
	addi(1, op_reserve, "reserve2+commit-all", A, 2, SZ_CAPP1, CM_FULL, 1);
	addi(2, op_reserve, "reserve1-only", A, 1, SZ_CAPP1, CM_NONE, 1);
	addi(1, op_reserve, "reserve1+badlen", A, 1, SZ_CAPP1, CM_BADLEN, 1);
	addi(1, op_reserve, "reserve2+badbase", A, 2, SZ_CAPP1, CM_BADBASE, 1);
	addi(2, op_reserve, "reserve2+badlen", A, 2, SZ_CAPP1, CM_BADLEN, 1);
	addi(2, op_reserve, "reserve1+badbase", A, 1, SZ_CAPP1, CM_BADBASE, 1);
	addi(2, op_reserve, "reserve2+commit0", A, 2, SZ_CAPP1, CM_ZERO, 1);
	addi(2, op_reserve, "reserve1+commit-nvec0", A, 1, SZ_CAPP1, CM_NVEC0, 1);
	/* reserve_space(size 0, 2 extents) is left out: with a full last chain it trips the debug-only
	 * EVUTIL_ASSERT(chain) in evbuffer_read_setup_vecs_ (the guarded loop would not run; harmless under NDEBUG) */
	addi(2, op_reserve, "reserve1+commit", A, 1, 0, CM_REQ, 1);
	addi(0, op_readln, "readln-crlf", A, EVBUFFER_EOL_CRLF, 0, 0, 1);
	addi(1, op_readln, "readln-any", A, EVBUFFER_EOL_ANY, 0, 0, 1);
	addi(1, op_readln, "readln-strict", A, EVBUFFER_EOL_CRLF_STRICT, 0, 0, 1);
	addi(2, op_readln, "readln-lf", A, EVBUFFER_EOL_LF, 0, 0, 1);
	addi(1, op_readln, "readln-nul", A, EVBUFFER_EOL_NUL, 0, 0, 1);
	addi(0, op_add_reference, "add_reference", A, 0, 2, 0, 1);
	addi(1, op_add_reference, "add_reference", A, 0, SZ_CAPP1, 0, 1);
	addi(1, op_add_reference, "add_reference_with_offset", A, 4095, 3, 1, 1);
	addi(1, op_add_reference, "add_referenceB", B, 0, 2, 0, 1);
	addi(0, op_add_iovec, "add_iovec", A, 0, 0, 0, 3);
	addi(1, op_add_iovec, "add_iovec", A, 1, 0, 0, 3);
	addi(2, op_add_iovec, "add_iovec", A, 2, 0, 0, 3);
	addi(0, op_add_printf, "add_printf", A, 64, 0, 0, 3);
	addi(0, op_add_printf, "add_printf-exact-fit", A, SZ_FIT, 0, 0, 3);
	addi(1, op_add_printf, "add_printf", A, 1, 0, 0, 3);
	addi(2, op_add_printf, "add_printf", A, SZ_CAP, 0, 0, 3);
	addi(1, op_add_printf, "add_printf", A, 2049, 0, 0, 3);
	addi(2, op_add_printf, "add_printf", A, 0, 0, 0, 3);
	addi(0, op_freeze, "freeze-start", A, 1, 1, 0, 0);
	addi(0, op_freeze, "freeze-end", A, 0, 1, 0, 0);
	addi(1, op_freeze, "unfreeze-start", A, 1, 0, 0, 0);
	addi(1, op_freeze, "unfreeze-end", A, 0, 0, 0, 0);
	addi(1, op_freeze, "freeze-startB", B, 1, 1, 0, 0);
	addi(1, op_freeze, "freeze-endB", B, 0, 1, 0, 0);
	addi(1, op_drain, "drainB", B, 1, 0, 0, 0);
	addi(2, op_drain, "drainB", B, SZ_L1, 0, 0, 0);
	addi(1, op_prepend, "prependB", B, 2, 0, 0, 1);
	addi(2, op_pullup, "pullupB", B, SZ_NEG, 0, 0, 1);
	addi(2, op_expand, "expandB", B, SZ_CAPP1, 0, 0, 1);
	addi(1, op_reserve, "reserve2-onlyB", B, 2, SZ_CAPP1, CM_NONE, 1);
	addi(1, op_add_buffer_reference, "add_buffer_reference(B<-A)", B, A, 0, 0, 4);
	addi(1, op_add_buffer_reference, "add_buffer_reference(A<-B)", A, B, 0, 0, 4);
	addi(2, op_add_buffer, "add_buffer(A<-A)", A, A, 0, 0, 1);
	if (MODE == 13) {
		addi(0, op_cb_add, "cb_add0-plain", A, 0, 0, 0, 0);
		addi(0, op_cb_add, "cb_add1-plain", A, 1, 0, 0, 0);
		addi(0, op_cb_add, "cb_add1-drains", A, 1, 1, 0, 0);
		addi(0, op_cb_add, "cb_add0-removes-itself", A, 0, 2, 0, 0);
		addi(1, op_cb_add, "cb_add0-drains", A, 0, 1, 0, 0);
		addi(1, op_cb_add, "cb_add1-removes-itself", A, 1, 2, 0, 0);
		addi(0, op_cb_flags, "cb0-disable", A, 0, EVBUFFER_CB_ENABLED, 0, 0);
		addi(0, op_cb_flags, "cb0-enable", A, 0, EVBUFFER_CB_ENABLED, 1, 0);
		addi(0, op_cb_flags, "cb0-set-nodefer", A, 0, EVBUFFER_CB_NODEFER, 1, 0);
		addi(1, op_cb_flags, "cb0-clear-nodefer", A, 0, EVBUFFER_CB_NODEFER, 0, 0);
		addi(1, op_cb_flags, "cb1-disable", A, 1, EVBUFFER_CB_ENABLED, 0, 0);
		addi(1, op_cb_flags, "cb1-enable", A, 1, EVBUFFER_CB_ENABLED, 1, 0);
		addi(1, op_cb_flags, "cb1-set-nodefer", A, 1, EVBUFFER_CB_NODEFER, 1, 0);
		addi(0, op_cb_remove, "cb_remove0", A, 0, 0, 0, 0);
		addi(1, op_cb_remove, "cb_remove1-by-fn", A, 1, 1, 0, 0);
		addi(0, op_defer, "defer", A, 0, 0, 0, 0);
		addi(0, op_loop, "loop", A, 0, 0, 0, 0);
		addi(0, op_cb_reinstall_across_loop, "cb0-remove+loop+add", A, 0, 0, 0, 0);
	}
}

/* ================= read-only battery ================= */
static int ptr_at(int b, struct evbuffer_ptr *p, size_t pos)
{
	ssize_t mp; int exp = bs_ptr_set(&M[b], &mp, pos, 0);
	int got = evbuffer_ptr_set(EB[b], p, pos, EVBUFFER_PTR_SET);
	MC_COUNT("battery_ptr_set");
	if (exp != got || p->pos != mp) { failk("battery/ptr_set", "SET", "%s: ptr_set(%zu) = %d pos %zd, model %d pos %zd (len %zu)", BN[b], pos, got, (ssize_t)p->pos, exp, mp, M[b].len); return -1; }
	return exp;
}

static void check_peek(int b, struct evbuffer_ptr *sp, size_t start, ssize_t len)
{
	struct evbuffer_iovec v[20];
	size_t avail = M[b].len - start, want = len < 0 ? avail : ((size_t)len < avail ? (size_t)len : avail);
	int frozen_irrelevant = 1; (void)frozen_irrelevant;
	int n0 = evbuffer_peek(EB[b], len, sp, NULL, 0);
	for (int nv = 1; nv <= 20; nv += (nv == 1 ? 1 : 18)) {          /* 1, 2, 20 */
		memset(v, 0, sizeof v);
		int n = evbuffer_peek(EB[b], len, sp, v, nv);
		MC_COUNT("battery_peek");
		if (n < 0) { failk("battery/peek", "retval", "%s: peek returned %d", BN[b], n); return; }
		int filled = n < nv ? n : nv; size_t tot = 0;
		for (int i = 0; i < filled; i++) {
			if (tot + v[i].iov_len > avail) { failk("battery/peek", "extent", "%s: extents exceed the data after start %zu", BN[b], start); return; }
			if (v[i].iov_len && memcmp(v[i].iov_base, M[b].d + start + tot, v[i].iov_len)) { failk("battery/peek", "bytes", "%s: peek(len %zd, start %zu) extent %d differs from the model", BN[b], len, start, i); return; }
			tot += v[i].iov_len;
		}
		if ((len >= 0 ? n <= nv : n < nv) && tot < want) { failk("battery/peek", "coverage", "%s: peek(len %zd, start %zu, n_vec %d) = %d extents cover %zu < %zu", BN[b], len, start, nv, n, tot, want); return; }
		if (n > nv && tot >= want && want > 0 && len >= 0 && (size_t)len <= avail) { failk("battery/peek", "count", "%s: peek says %d extents needed but %d already cover %zu", BN[b], n, nv, want); return; }
		if (len >= 0 && n <= nv && n != n0) { failk("battery/peek", "count", "%s: peek(len %zd,start %zu) needs %d extents with a vector, %d without", BN[b], len, start, n, n0); return; }
		/* minimality: without the last non-empty extent the request is not covered */
		if (len >= 0 && n <= nv && n >= 1 && v[n - 1].iov_len && tot - v[n - 1].iov_len >= want && want > 0) { failk("battery/peek", "count", "%s: peek(len %zd,start %zu) returned %d extents, fewer suffice", BN[b], len, start, n); return; }
	}
}

static void battery(int b)
{
	struct bytestr *m = &M[b]; struct evbuffer *eb = EB[b];
	size_t L = m->len, pos[8]; int np = 0;
	static const char *pats[] = { "\n", "\r\n", "\r\n\r\n", "\r\na", "\0", "c\r\n", "\nb" };
	static const size_t patlen[] = { 1, 2, 4, 3, 1, 3, 2 };
	const size_t cand[] = { 0, 1, CAP - 1, CAP, CAP + 1, L > 0 ? L - 1 : 0, L };
	for (unsigned i = 0; i < sizeof cand / sizeof *cand; i++) {
		int dup = 0; if (cand[i] > L) continue;
		for (int j = 0; j < np; j++) if (pos[j] == cand[i]) dup = 1;
		if (!dup) pos[np++] = cand[i];
	}
	MC_COUNT("battery_runs");
	/* whole-buffer copyout and sizes */
	const size_t outsz[] = { 0, 1, 2, CAP + 1, L, (size_t)-1 };
	for (unsigned i = 0; i < sizeof outsz / sizeof *outsz; i++) {
		size_t n = outsz[i]; memset(OUT, 0xEE, 4);
		ssize_t exp = bs_copyout_from(m, -1, OUT2, n > BS_MAX ? BS_MAX : n), got = evbuffer_copyout(eb, OUT, n);
		MC_COUNT("battery_copyout");
		if (exp != got || (exp > 0 && memcmp(OUT, OUT2, exp))) { failk("battery/copyout", "bytes", "%s: copyout(%zu) = %zd, model %zd (len %zu)", BN[b], n, got, exp, L); return; }
	}
	{ struct evbuffer_ptr p; ptr_at(b, &p, L + 1); }
	/* NULL-start searches */
	for (unsigned w = 0; w < sizeof pats / sizeof *pats; w++) {
		struct evbuffer_ptr r = evbuffer_search(eb, pats[w], patlen[w], NULL);
		ssize_t exp = bs_search_range(m, pats[w], patlen[w], -1, -1);
		MC_COUNT("battery_search");
		if (r.pos != exp) { failk("battery/search", "from-start", "%s: search(pattern %u) = %zd, model %zd (len %zu)", BN[b], w, (ssize_t)r.pos, exp, L); return; }
	}
	for (int st = 0; st < 5; st++) {
		size_t el = 99, mel; struct evbuffer_ptr r = evbuffer_search_eol(eb, NULL, &el, (enum evbuffer_eol_style)st);
		ssize_t exp = bs_search_eol(m, -1, (enum bs_eol)st, &mel);
		MC_COUNT("battery_search_eol");
		if (r.pos != exp || el != mel) { failk("battery/search_eol", "from-start", "%s: search_eol(style %d) = %zd len %zu, model %zd len %zu", BN[b], st, (ssize_t)r.pos, el, exp, mel); return; }
	}
	check_peek(b, NULL, 0, -1); check_peek(b, NULL, 0, 0); check_peek(b, NULL, 0, 1); check_peek(b, NULL, 0, CAP + 1); check_peek(b, NULL, 0, L + 1);
	if (mc_failed()) return;
	/* find-all idiom: search, advance by one, search again */
	{
		struct evbuffer_ptr p; ssize_t mp = 0; int guard = 0;
		if (ptr_at(b, &p, 0) == 0)
			for (;;) {
				struct evbuffer_ptr r = evbuffer_search(eb, "\r\n", 2, &p);
				ssize_t exp = bs_search_range(m, "\r\n", 2, mp, -1);
				MC_COUNT("battery_search");
				if (r.pos != exp) { failk("battery/search", "find-all", "%s: next CRLF from %zd = %zd, model %zd", BN[b], mp, (ssize_t)r.pos, exp); return; }
				if (exp < 0 || ++guard > 40) break;
				p = r; mp = exp;
				int e1 = bs_ptr_set(m, &mp, 1, 1), g1 = evbuffer_ptr_set(eb, &p, 1, EVBUFFER_PTR_ADD);
				MC_COUNT("battery_ptr_set");
				if (e1 != g1 || p.pos != mp) { failk("battery/ptr_set", "ADD", "%s: ptr_set(ADD 1) = %d pos %zd, model %d pos %zd", BN[b], g1, (ssize_t)p.pos, e1, mp); return; }
				if (e1 < 0) break;
			}
	}
	/* positioned operations */
	for (int i = 0; i < np; i++) {
		struct evbuffer_ptr p, q; size_t s = pos[i];
		if (ptr_at(b, &p, s) != 0) { if (mc_failed()) return; continue; }
		const size_t cs[] = { 0, 1, 2, CAP + 1, (size_t)-1 };
		for (unsigned j = 0; j < sizeof cs / sizeof *cs; j++) {
			memset(OUT, 0xEE, 4);
			size_t n = cs[j];
			ssize_t exp = bs_copyout_from(m, (ssize_t)s, OUT2, n), got = evbuffer_copyout_from(eb, &p, OUT, n);
			MC_COUNT("battery_copyout");
			if (exp != got || (exp > 0 && memcmp(OUT, OUT2, exp))) { failk("battery/copyout_from", "bytes", "%s: copyout_from(%zu, %zu) = %zd, model %zd (len %zu)", BN[b], s, n, got, exp, L); return; }
		}
		for (int st = 0; st < 5; st++) {
			size_t el = 99, mel; q = p;
			struct evbuffer_ptr r = evbuffer_search_eol(eb, &q, &el, (enum evbuffer_eol_style)st);
			ssize_t exp = bs_search_eol(m, (ssize_t)s, (enum bs_eol)st, &mel);
			MC_COUNT("battery_search_eol");
			if (r.pos != exp || el != mel) { failk("battery/search_eol", "positioned", "%s: search_eol(style %d, start %zu) = %zd len %zu, model %zd len %zu (len %zu)", BN[b], st, s, (ssize_t)r.pos, el, exp, mel, L); return; }
		}
		for (unsigned w = 0; w < 5; w++) {
			struct evbuffer_ptr r = evbuffer_search(eb, pats[w], patlen[w], &p);
			ssize_t exp = bs_search_range(m, pats[w], patlen[w], (ssize_t)s, -1);
			MC_COUNT("battery_search");
			if (s == L && exp < 0 && r.pos < 0) continue;
			if (r.pos != exp) { failk("battery/search", "positioned", "%s: search(pattern %u, start %zu) = %zd, model %zd (len %zu)", BN[b], w, s, (ssize_t)r.pos, exp, L); return; }
		}
		{ struct evbuffer_ptr r = evbuffer_search(eb, "x", 0, &p);
		  if (r.pos != (ssize_t)s) { failk("battery/search", "empty-pattern", "%s: search(len 0, start %zu) = %zd", BN[b], s, (ssize_t)r.pos); return; } }
		for (unsigned w = 1; w < 3; w++) {
			/* end positions around the first match after s (where the answer flips) + the fixed positions */
			ssize_t mt = bs_search_range(m, pats[w], patlen[w], (ssize_t)s, -1);
			size_t ends[12]; int ne = 0;
			if (mt >= 0) { ends[ne++] = (size_t)mt; ends[ne++] = (size_t)mt + patlen[w] - 1; ends[ne++] = (size_t)mt + patlen[w]; ends[ne++] = (size_t)mt + patlen[w] + 1; }
			ends[ne++] = L; ends[ne++] = CAP; ends[ne++] = s; ends[ne++] = 0;
			for (int j = 0; j < ne; j++) {
				struct evbuffer_ptr e; size_t en = ends[j];
				if (en > L || evbuffer_ptr_set(eb, &e, en, EVBUFFER_PTR_SET)) continue;
				struct evbuffer_ptr r = evbuffer_search_range(eb, pats[w], patlen[w], &p, &e);
				ssize_t exp = bs_search_range(m, pats[w], patlen[w], (ssize_t)s, (ssize_t)en);
				MC_COUNT("battery_search_range");
				if (r.pos != exp) { failk("battery/search_range", "positioned", "%s: search_range(pattern %u, %zu..%zu) = %zd, model %zd (len %zu)", BN[b], w, s, en, (ssize_t)r.pos, exp, L); return; }
			}
		}
		if (s < L) { check_peek(b, &p, s, -1); check_peek(b, &p, s, 1); check_peek(b, &p, s, CAP + 1); }
		else { int n = evbuffer_peek(eb, -1, &p, NULL, 0); if (n != 0) { failk("battery/peek", "at-end", "%s: peek at the end position returned %d", BN[b], n); return; } }
		if (mc_failed()) return;
		const size_t adds[] = { 0, 1, CAP, L - s, L - s + 1 };
		for (unsigned j = 0; j < sizeof adds / sizeof *adds; j++) {
			ssize_t mp = (ssize_t)s; q = p;
			int exp = bs_ptr_set(m, &mp, adds[j], 1), got = evbuffer_ptr_set(eb, &q, adds[j], EVBUFFER_PTR_ADD);
			MC_COUNT("battery_ptr_set");
			if (exp != got || q.pos != mp) { failk("battery/ptr_set", "ADD", "%s: ptr_set(%zu ADD %zu) = %d pos %zd, model %d pos %zd (len %zu)", BN[b], s, adds[j], got, (ssize_t)q.pos, exp, mp, L); return; }
			if (got == 0) {
				/* the advanced pointer must address the same byte as a fresh SET */
				unsigned char c1 = 0, c2 = 0;
				ssize_t e2 = bs_copyout_from(m, mp, &c2, 1), g2 = evbuffer_copyout_from(eb, &q, &c1, 1);
				if (e2 != g2 || (e2 == 1 && c1 != c2)) { failk("battery/ptr_set", "ADD-target", "%s: pointer advanced to %zd reads 0x%02x, model 0x%02x", BN[b], mp, c1, c2); return; }
			}
		}
	}
	/* none of this may have changed anything */
	validate_buf(eb, m, "battery", BN[b]);
}

/* ================= body ================= */
static uint64_t canon(void)
{
	uint64_t h = canon_buf(0x12, EB[0], &M[0]);
	h = canon_buf(h, EB[1], &M[1]);
	h = mc_hash_u64(h, (uint64_t)nref);
	if (MODE != 12) {
		for (int k = 0; k < 3; k++)
			h = mc_hash_u64(h, CB[k].installed ? (1 + CB[k].enabled * 2 + CB[k].nodefer * 4 + CB[k].behav * 8) : 0);
		/* list order on A (LIST_INSERT_HEAD: the later callback runs first) */
		struct evbuffer_cb_entry *e = LIST_FIRST(&EB[0]->callbacks);
		h = mc_hash_u64(h, e ? (uint64_t)(intptr_t)e->cbarg + 1 : 0);
		h = mc_hash_u64(h, deferredA + scheduledA * 2 + uncertainA * 4 + (BASE ? 8 : 0));
		h = mc_hash_u64(h, accA_add * 0x10001 + accA_del);
	}
	return h;
}

static void body(void)
{
	long live0 = mcx_alloc_live();
	int dead = 0, step;
	mcx_alloc_fail_at(0);
	nref = 0; memset(CB, 0, sizeof CB);
	deferredA = scheduledA = uncertainA = in_loop_step = run_open = in_cb_drain = 0; accA_add = accA_del = 0;
	BASE = NULL; fault_armed = 0;
	for (int b = 0; b < 2; b++) { EB[b] = evbuffer_new(); bs_init(&M[b]); }
	if (MODE == 13 || MODE == 14) {
		/* B always has one plain callback; mode 14 also gives A one */
		struct inst i = { .a1 = 2 }; op_cb_add(&i);
		if (MODE == 14) { i.a1 = 0; op_cb_add(&i); }
	}
	if (MODE == 13) {
		/* initial callback configuration of A: {behaviour of cb0, of cb1 (-1 none), NODEFER mask, deferred} */
		static const struct { int b0, b1, nodefer, defer; const char *name; } setups[] = {
			{ -1, -1, 0, 0, "none" }, { 0, -1, 0, 0, "plain" }, { 0, 0, 0, 0, "plain+plain" },
			{ 1, 0, 0, 0, "plain-then-drainer" }, { 0, 1, 0, 0, "drainer-then-plain" },
			{ 0, -1, 0, 1, "plain,deferred" }, { 0, -1, 1, 1, "nodefer,deferred" }, { 0, 0, 2, 1, "nodefer+plain,deferred" },
			{ 2, 0, 0, 0, "plain-then-selfremover" }, { 1, -1, 0, 1, "drainer,deferred" }, { 2, 0, 0, 1, "plain-then-selfremover,deferred" },
		};
		int su = mc_choose((int)(sizeof setups / sizeof *setups), 0, "setup");
		struct inst i = { 0 };
		curop = "setup";
		if (setups[su].b0 >= 0) { i.a1 = 0; i.a2 = setups[su].b0; op_cb_add(&i); }
		if (setups[su].b1 >= 0) { i.a1 = 1; i.a2 = setups[su].b1; op_cb_add(&i); }
		for (int k = 0; k < 2; k++) if (setups[su].nodefer & (1 << k)) { i.a1 = k; i.a2 = EVBUFFER_CB_NODEFER; i.a3 = 1; op_cb_flags(&i); }
		if (setups[su].defer) op_defer(&i);
		mc_observe("setup=%s ", setups[su].name);
	}
	for (step = 0; step < DEPTH && !dead; step++) {
		int c = mc_choose(NINST + 1, 0, "op");
		if (!c) break;
		const struct inst *in = &INST[c - 1];
		curop = in->name;
		fault_armed = 0;
		if (MODE == 14 && in->kmax) {
			int k = mc_choose(in->kmax + 1, 1, "fail-at");
			if (k) { fault_armed = 1; mcx_alloc_fail_at(k); }
		}
		bs_copy(&SNAP[0], &M[0]); bs_copy(&SNAP[1], &M[1]);
		int listA = n_installed_A() > 0;
		long t0 = mcx_alloc_total();
		acct_begin();
		int r = in->fn(in);
		int hit = fault_hit();
		long used = mcx_alloc_total() - t0;
		mcx_alloc_fail_at(0);
		if (MODE == 14 && !fault_armed && used > in->kmax) MC_COUNT("fault_positions_beyond_kmax");
		mc_observe("%s(%ld,%ld,%ld)%s%s ", in->name, in->a1, in->a2, in->a3, r == RS_FAILED ? "=FAILED" : r == RS_SKIP ? "=n/a" : "", hit ? "!" : "");
		if (r == RS_DEAD) { dead = 1; break; }
		if (hit) MC_COUNT(r == RS_FAILED ? "fault_reported_failure" : "fault_absorbed"); else if (fault_armed) MC_COUNT("fault_not_reached");
		/* content, length, freeze bits, chain bookkeeping */
		if (hit) ORACLE_OVERRIDE = r == RS_FAILED ? "unchanged-on-failure" : "effect-after-fault";
		for (int b = 0; b < 2 && !dead; b++)
			if (validate_buf(EB[b], &M[b], in->name, BN[b])) dead = 1;
		ORACLE_OVERRIDE = NULL;
		if (dead) break;
		if (r != RS_SKIP && in->fn != op_loop && in->fn != op_cb_reinstall_across_loop) acct_end(listA, r == RS_FAILED);
		if (mc_failed()) { dead = 1; break; }
		if (PRUNE && mc_state(canon(), DEPTH - 1 - step)) { step = -1; break; }
	}
	if (!dead) {
		/* a final loop step delivers what is still pending (also needed so that a
		 * scheduled deferred callback does not keep the buffer alive) */
		if (MODE == 13 && BASE) { loop_step(); if ((accA_add || accA_del) && !uncertainA) failk("deferred-lost", "end", "changes +%zu -%zu still unreported after the final loop step", accA_add, accA_del); }
		if (step >= 0 && !mc_failed() && mc_param("battery", 1)) { curop = "battery"; battery(0); if (!mc_failed()) battery(1); }
	}
	/* teardown + hygiene */
	curop = "teardown";
	evbuffer_free(EB[0]); evbuffer_free(EB[1]);
	if (BASE) { event_base_free(BASE); BASE = NULL; }
	if (!dead) {
		for (int i = 0; i < nref; i++)
			if (ref_cleaned[i] != 1) failk("ref-cleanup", "count", "reference %d cleaned up %d times after everything was freed", i, ref_cleaned[i]);
		if (mcx_alloc_live() != live0) failk("leak", "teardown", "%ld library allocations still live", mcx_alloc_live() - live0);
	} else if (mcx_alloc_live() != live0) {
		/* a failed execution may leave memory behind; re-baseline is implicit (live0 read per execution) */
	}
}

static void init(void)
{
	mcx_alloc_install();
	event_set_log_callback(quiet_log);
	refmem_init();
	MODE = mc_param("mode", 12); DEPTH = mc_param("depth", 3); ALPHA = mc_param("alpha", 1); PRUNE = mc_param("prune", 1);
	PFX = MODE == 13 ? "C13" : MODE == 14 ? "C14" : "C12";
	build_instances();
}

int main(int c, char **v)
{
	static char prop[8] = "C12";
	for (int i = 1; i < c; i++) if (!strncmp(v[i], "mode=", 5)) snprintf(prop, sizeof prop, "C%d", atoi(v[i] + 5));
	struct mc_config cfg = { .property = prop, .body = body, .init = init, .default_split = strcmp(prop, "C13") ? 1 : 2 };
	return mc_main(c, v, &cfg);
}
