/* Shared plumbing of the httpcli family harnesses (C24, C26, C27).
 * Include AFTER `#include "http.c"` (the harness TU contains http.c so that the
 * static entry points and the private structs are reachable).
 *
 * Everything here is deterministic: virtual clock, zero-timeout waits, fresh
 * event_base / sockets per execution, one TCP port per worker process that is
 * bound but not listening (connects to it are refused). */
#ifndef HTTPCLI_COMMON_H
#define HTTPCLI_COMMON_H
#include "mcx.h"
#include "vclock.h"
#include "rfc9112_resp.h"
#include <sys/socket.h>
#include <sys/un.h>
#include <netinet/in.h>
#include <arpa/inet.h>
#include <poll.h>
#include <signal.h>
#include <fcntl.h>
#include <stdarg.h>

static struct event_base *hc_base;
static int hc_idle_hit;
static int hc_stop;                 /* set by a harness callback that abandons the loop */
static long hc_ready_total;
static int hc_refused_fd = -1, hc_refused_port;

/* AddressSanitizer in recover mode (binary built with -fsanitize-recover=address): a memory error is
 * reported, counted here and turned into a keyed failure by the harness at the end of the execution, so
 * that one known memory-safety finding does not stop the exploration of the remaining histories. */
#include <sanitizer/asan_interface.h>
static int hc_asan_errors; static char hc_asan_desc[64]; static const char *hc_asan_ctx = "";
const char *__asan_default_options(void) { return "halt_on_error=0"; }
void __asan_on_error(void)
{
	if (!hc_asan_errors++) snprintf(hc_asan_desc, sizeof hc_asan_desc, "%s", __asan_get_report_description());
}
/* report ASan errors seen since the last call; ctx names what the harness was doing (stable, part of the key) */
static void hc_asan_check(const char *prefix)
{
	if (!hc_asan_errors) return;
	char key[200];
	snprintf(key, sizeof key, "%s/asan:%s/%s", prefix, hc_asan_desc, hc_asan_ctx[0] ? hc_asan_ctx : "unattributed");
	mc_fail(key, "AddressSanitizer reported %d error(s), first: %s (see the replay output for the stack)", hc_asan_errors, hc_asan_desc);
	hc_asan_errors = 0; hc_asan_ctx = "";
}

static void hc_logcb(int sev, const char *msg) { (void)sev; (void)msg; }
static void hc_idle(void) { hc_idle_hit = 1; event_base_loopbreak(hc_base); }
static void hc_postwait(int n) { if (n > 0) hc_ready_total += n; }

/* once per worker process */
static void hc_global_init(void)
{
	struct sockaddr_in sin; socklen_t sl = sizeof sin;
	mcx_alloc_install();
	event_set_log_callback(hc_logcb);
	signal(SIGPIPE, SIG_IGN);
	/* a port nobody listens on: bound, never listen()ed, kept for the life of the worker */
	/* bind(port 0) can fail for a while when the machine's ephemeral ports are tied up (TIME_WAIT of other
	 * runs): wait (real time, this is process start-up, not an execution) instead of giving up */
	for (int attempt = 0; ; attempt++) {
		hc_refused_fd = socket(AF_INET, SOCK_STREAM, 0);
		memset(&sin, 0, sizeof sin);
		sin.sin_family = AF_INET; sin.sin_addr.s_addr = htonl(INADDR_LOOPBACK);
		if (hc_refused_fd >= 0 && bind(hc_refused_fd, (struct sockaddr *)&sin, sizeof sin) == 0 &&
		    getsockname(hc_refused_fd, (struct sockaddr *)&sin, &sl) == 0) break;
		if (attempt > 240) { perror("refused port"); abort(); }
		if (hc_refused_fd >= 0) close(hc_refused_fd);
		struct timespec ts = { 0, 250000000L }; ppoll(NULL, 0, &ts, NULL);
	}
	hc_refused_port = ntohs(sin.sin_port);
	/* warm up lazily initialised library state so that allocation baselines are stable */
	{
		struct event_base *b = event_base_new();
		struct evhttp *h = evhttp_new(b);
		char d[64]; evutil_date_rfc1123(d, sizeof d, NULL);
		evhttp_free(h); event_base_free(b);
	}
}

static void hc_exec_begin(void)
{
	vclock_reset();
	vclock_idle_hook = hc_idle;
	vclock_postwait_hook = hc_postwait;
	vclock_block_hook = NULL;
	hc_idle_hit = 0;
	hc_stop = 0;
	hc_base = event_base_new();
	if (!hc_base) { mc_fail("harness:event_base_new", "failed"); abort(); }
}
static void hc_exec_end(void)
{
	event_base_free(hc_base);
	hc_base = NULL;
}

/* real (non-virtual) wait for a socket condition; bounded; used only where the
 * kernel needs a moment (TCP connect on loopback) so that outcomes never
 * depend on timing */
static int hc_real_wait(int fd, short ev, int ms)
{
	struct pollfd p = { fd, ev, 0 };
	struct timespec ts = { ms / 1000, (ms % 1000) * 1000000L };
	return ppoll(&p, 1, &ts, NULL);
}

/* run the loop until nothing is ready any more; virtual time does not move */
static void hc_run(void)
{
	for (int i = 0; i < 200; i++) {
		hc_ready_total = 0;
		event_base_loop(hc_base, EVLOOP_NONBLOCK);
		if (!hc_ready_total || hc_stop) return;
	}
	mc_fail("harness:not-quiescent", "loop still busy after 200 non-blocking rounds");
}
/* let virtual time pass until no timer is left (or `max` timer rounds) */
static void hc_run_timers(int max)
{
	for (int i = 0; i < max; i++) {
		hc_idle_hit = 0;
		int r = event_base_loop(hc_base, EVLOOP_ONCE);
		hc_run();
		if (r == 1 || hc_idle_hit || hc_stop) return;
	}
}

static void hc_nonblock(int fd) { fcntl(fd, F_SETFL, fcntl(fd, F_GETFL) | O_NONBLOCK); fcntl(fd, F_SETFD, FD_CLOEXEC); }

static int hc_socketpair(int sv[2])
{
	if (socketpair(AF_UNIX, SOCK_STREAM, 0, sv) < 0) { mc_fail("harness:socketpair", "%s", strerror(errno)); return -1; }
	hc_nonblock(sv[0]); hc_nonblock(sv[1]);
	return 0;
}

/* growable byte buffer (libc malloc: not counted by the library allocator) */
struct hc_buf { uint8_t *p; size_t n, cap; };
static void hc_buf_add(struct hc_buf *b, const void *d, size_t n)
{
	if (b->n + n + 1 > b->cap) { b->cap = (b->n + n + 1) * 2 + 64; b->p = realloc(b->p, b->cap); if (!b->p) abort(); }
	if (n) memcpy(b->p + b->n, d, n);
	b->n += n; b->p[b->n] = 0;
}
static void hc_buf_reset(struct hc_buf *b) { b->n = 0; if (b->p) b->p[0] = 0; }
static void hc_buf_free(struct hc_buf *b) { free(b->p); b->p = NULL; b->n = b->cap = 0; }

/* read whatever is available on a harness-side socket; returns 1 when EOF was seen, -1 on error (reset) */
static int hc_peer_drain(int fd, struct hc_buf *b)
{
	char tmp[4096];
	for (;;) {
		ssize_t r = read(fd, tmp, sizeof tmp);
		if (r > 0) { hc_buf_add(b, tmp, (size_t)r); continue; }
		if (r == 0) return 1;
		if (errno == EINTR) continue;
		if (errno == EAGAIN || errno == EWOULDBLOCK) return 0;
		return -1;
	}
}
static int hc_peer_write(int fd, const void *d, size_t n)
{
	const char *p = d;
	while (n) {
		ssize_t w = write(fd, p, n);
		if (w > 0) { p += w; n -= (size_t)w; continue; }
		if (w < 0 && errno == EINTR) continue;
		return -1;
	}
	return 0;
}

/* printable rendering of bytes for observations / messages */
static void hc_esc(char *out, size_t cap, const void *d, size_t n)
{
	const uint8_t *s = d; size_t o = 0;
	for (size_t i = 0; i < n && o + 5 < cap; i++) {
		uint8_t c = s[i];
		if (c == '\r') { out[o++] = '\\'; out[o++] = 'r'; }
		else if (c == '\n') { out[o++] = '\\'; out[o++] = 'n'; }
		else if (c == '\\') { out[o++] = '\\'; out[o++] = '\\'; }
		else if (c < 0x20 || c >= 0x7f) { o += (size_t)snprintf(out + o, cap - o, "\\x%02x", c); }
		else out[o++] = (char)c;
	}
	out[o] = 0;
}

/* TCP listener on 127.0.0.1:ephemeral, harness side, non-blocking.  No SO_REUSEADDR: with it the kernel may hand
 * the same ephemeral port to two sockets that are bound but not yet listening (other workers / other checks on
 * this machine do the same), and the second listen() fails with EADDRINUSE.  A few retries for good measure. */
static int hc_listener(int *port)
{
	int err = 0;
	for (int attempt = 0; attempt < 50; attempt++) {
		struct sockaddr_in sin; socklen_t sl = sizeof sin;
		int fd = socket(AF_INET, SOCK_STREAM, 0);
		if (fd < 0) { err = errno; continue; }
		memset(&sin, 0, sizeof sin);
		sin.sin_family = AF_INET; sin.sin_addr.s_addr = htonl(INADDR_LOOPBACK);
		if (bind(fd, (struct sockaddr *)&sin, sizeof sin) == 0 && listen(fd, 8) == 0 &&
		    getsockname(fd, (struct sockaddr *)&sin, &sl) == 0) {
			hc_nonblock(fd);
			*port = ntohs(sin.sin_port);
			return fd;
		}
		err = errno;
		close(fd);
	}
	errno = err;
	return -1;
}

/* One listener per worker process, created at start-up and kept: creating (bind port 0) a listener per
 * execution runs the machine out of bindable ephemeral ports, because every served TCP connection can leave
 * a TIME_WAIT entry behind for 60 s.  Outgoing connects are not affected (tcp_tw_reuse covers loopback). */
static int hc_worker_listen_fd = -1, hc_worker_listen_port;
static void hc_worker_listener_init(void)
{
	for (int attempt = 0; hc_worker_listen_fd < 0; attempt++) {
		hc_worker_listen_fd = hc_listener(&hc_worker_listen_port);
		if (hc_worker_listen_fd >= 0) break;
		if (attempt > 240) { perror("worker listener"); abort(); }
		struct timespec ts = { 0, 250000000L }; ppoll(NULL, 0, &ts, NULL);
	}
}
/* drop whatever is waiting in the accept queue (abortively: no TIME_WAIT) */
static void hc_worker_listener_drain(void)
{
	for (;;) {
		int fd = accept(hc_worker_listen_fd, NULL, NULL);
		if (fd < 0) break;
		struct linger lg = { 1, 0 };
		setsockopt(fd, SOL_SOCKET, SO_LINGER, &lg, sizeof lg);
		close(fd);
	}
}

/* give an outgoing evhttp_connection created with ..._reuse_new a peer address so
 * that a reconnect (after the library has dropped the socket) is deterministic */
static void hc_set_peer_addr(struct evhttp_connection *evcon, int port)
{
	if (evcon->address) mm_free(evcon->address);
	evcon->address = mm_strdup("127.0.0.1");
	evcon->port = (ev_uint16_t)port;
}

/* If the connection is in the middle of a TCP connect, wait (real time, bounded)
 * for the kernel to finish it, then run the loop again. */
static void hc_settle_connect(struct evhttp_connection *evcon)
{
	for (int i = 0; i < 8 && evcon->state == EVCON_CONNECTING; i++) {
		int fd = bufferevent_getfd(evcon->bufev);
		if (fd < 0) break;
		hc_real_wait(fd, POLLOUT, 2000);
		hc_run();
	}
}
#endif
