/* C24 — the evhttp client frames and parses responses as RFC 9112 prescribes.
 *
 * Real evhttp_connection (http.c is part of this TU) on one end of an AF_UNIX
 * socketpair; the harness plays the server on the other end: it reads the
 * request(s), then writes a response stream from a grammar catalogue in a
 * chosen segmentation and half-closes at a chosen byte.  What the completion
 * callbacks receive is compared with models/rfc9112_resp.c (written from the
 * RFC) and with the unsegmented delivery of the same bytes.
 *
 * choice points: stream (catalogue index) , delivery mode, cut positions / EOF position.
 */
#include "mcx.h"
#include "http.c"
#include "httpcli_common.h"

/* ------------------------------------------------------------------ */
/* catalogue                                                           */

enum { M_GET = 0, M_HEAD = 1, M_POST = 2 };
struct stream {
	char klass[56];
	int nreq, meth[2];
	uint8_t *bytes; size_t len;
	int reconn;      /* a reconnect is accepted by the harness and answered with R3 on the new connection */
};
static struct stream cat[600]; static int ncat;

#define S(lit) (lit), (sizeof(lit) - 1)
static void add_stream(const char *klass, int nreq, int m0, int m1, int nparts, ...)
{
	va_list ap; struct stream *st = &cat[ncat++];
	struct hc_buf b = {0};
	if (ncat > 590) abort();
	snprintf(st->klass, sizeof st->klass, "%s", klass);
	st->nreq = nreq; st->meth[0] = m0; st->meth[1] = m1;
	va_start(ap, nparts);
	for (int i = 0; i < nparts; i++) { const char *p = va_arg(ap, const char *); size_t n = va_arg(ap, size_t); hc_buf_add(&b, p, n); }
	va_end(ap);
	st->bytes = b.p; st->len = b.n;
}
#define SL   "HTTP/1.1 200 OK\r\n"
#define CL5  "Content-Length: 5\r\n"
#define TEC  "Transfer-Encoding: chunked\r\n"
#define END  "\r\n"
#define R2CL  "HTTP/1.1 201 Created\r\nContent-Length: 6\r\nX-Second: yes\r\n\r\nworld!"
#define R2CLOSE "HTTP/1.1 202 Accepted\r\nX-Second: yes\r\n\r\nrest"
#define R2CH "HTTP/1.1 200 OK\r\nTransfer-Encoding: chunked\r\nX-Second: yes\r\n\r\n4\r\nwor \r\n3\r\nld!\r\n0\r\nX-Trailer: t\r\n\r\n"
/* what the harness answers on a NEW connection (streams with reconn = 1) */
static const char R3[] = "HTTP/1.1 203 Non-Authoritative Information\r\nContent-Length: 3\r\nX-Conn: 2\r\n\r\nnew";

static void one(const char *klass, const char *p, size_t n) { add_stream(klass, 1, M_GET, 0, 1, p, n); }

static void build_catalogue(void)
{
	/* --- A: status lines, body framed by Content-Length: 5 --- */
	static const struct { const char *k, *sl; } sls[] = {
		{ "sl-plain",        "HTTP/1.1 200 OK" },
		{ "sl-http10",       "HTTP/1.0 200 OK" },
		{ "sl-404",          "HTTP/1.1 404 Not Found" },
		{ "sl-201",          "HTTP/1.1 201 Created" },
		{ "sl-301",          "HTTP/1.1 301 Moved Permanently" },
		{ "sl-500",          "HTTP/1.1 500 Internal Server Error" },
		{ "sl-599",          "HTTP/1.1 599 a b  c\td" },
		{ "sl-empty-reason", "HTTP/1.1 200 " },
		{ "sl-obs-text",     "HTTP/1.1 200 caf\xe9" },
		{ "sl-http19",       "HTTP/1.9 200 OK" },
		{ "sl-no-sp-after-code", "HTTP/1.1 200" },
		{ "sl-http2",        "HTTP/2.0 200 OK" },
		{ "sl-http09",       "HTTP/0.9 200 OK" },
		{ "sl-2digit",       "HTTP/1.1 20 OK" },
		{ "sl-4digit",       "HTTP/1.1 2000 OK" },
		{ "sl-alpha-code",   "HTTP/1.1 abc OK" },
		{ "sl-2xx",          "HTTP/1.1 2xx OK" },
		{ "sl-neg-code",     "HTTP/1.1 -20 OK" },
		{ "sl-000",          "HTTP/1.1 000 OK" },
		{ "sl-099",          "HTTP/1.1 099 X" },
		{ "sl-600",          "HTTP/1.1 600 X" },
		{ "sl-999",          "HTTP/1.1 999 X" },
		{ "sl-two-sp",       "HTTP/1.1  200 OK" },
		{ "sl-lower-http",   "http/1.1 200 OK" },
		{ "sl-tab-sep",      "HTTP/1.1\t200 OK" },
		{ "sl-version-3ch",  "HTTP/1.12 200 OK" },
		{ "sl-icy",          "ICY 200 OK" },
		{ "sl-leading-sp",   " HTTP/1.1 200 OK" },
		{ "sl-only-version", "HTTP/1.1" },
		{ "sl-bare-cr",      "HTTP/1.1 200 O\rK" },
	};
	for (size_t i = 0; i < sizeof sls / sizeof sls[0]; i++)
		add_stream(sls[i].k, 1, M_GET, 0, 3, sls[i].sl, strlen(sls[i].sl), S("\r\n" CL5 END), S("hello"));
	one("sl-leading-crlf", S("\r\n" SL CL5 END "hello"));
	one("sl-all-bare-lf", S("HTTP/1.1 200 OK\nContent-Length: 5\n\nhello"));
	one("sl-garbage-no-newline", S("GARBAGE"));
	one("empty-stream", S(""));

	/* --- B: Content-Length --- */
	one("cl0", S(SL "Content-Length: 0\r\n" END));
	one("cl1", S(SL "Content-Length: 1\r\n" END "x"));
	one("cl5-extra-bytes", S(SL CL5 END "helloXYZ"));
	one("cl5-extra-response", S(SL CL5 END "hello" R2CL));
	one("cl-dup-same", S(SL CL5 CL5 END "hello"));
	one("cl-dup-diff", S(SL CL5 "Content-Length: 6\r\n" END "hello!"));
	one("cl-dup-diff", S(SL "Content-Length: 6\r\n" CL5 END "hello!"));
	one("cl-dup-diff", S(SL CL5 "X-A: b\r\n" "content-length: 3\r\n" END "hello"));
	one("cl-list-same", S(SL "Content-Length: 5, 5\r\n" END "hello"));
	one("cl-list-diff", S(SL "Content-Length: 5, 6\r\n" END "hello!"));
	one("cl-signed", S(SL "Content-Length: +5\r\n" END "hello"));
	one("cl-signed", S(SL "Content-Length: -0\r\n" END "hello"));
	one("cl-negative", S(SL "Content-Length: -5\r\n" END "hello"));
	one("cl-hex", S(SL "Content-Length: 0x5\r\n" END "hello"));
	one("cl-alpha-suffix", S(SL "Content-Length: 5a\r\n" END "hello"));
	one("cl-empty", S(SL "Content-Length:\r\n" END "hello"));
	one("cl-inner-ws", S(SL "Content-Length: 5 5\r\n" END "hello"));
	one("cl-decimal-point", S(SL "Content-Length: 5.0\r\n" END "hello"));
	one("cl-leading-sp", S(SL "Content-Length:    5\r\n" END "hello"));
	one("ows-htab", S(SL "Content-Length:\t5\r\n" END "hello"));
	one("cl-trailing-ws", S(SL "Content-Length: 5 \t \r\n" END "hello"));
	one("cl-nospace", S(SL "Content-Length:5\r\n" END "hello"));
	one("cl-lead-zeros", S(SL "Content-Length: 005\r\n" END "hello"));
	one("cl-name-lower", S(SL "content-length: 5\r\n" END "hello"));
	one("cl-name-upper", S(SL "CONTENT-LENGTH: 5\r\n" END "hello"));
	one("cl-after-others", S(SL "X-A: 1\r\nX-B: 2\r\n" CL5 "X-C: 3\r\n" END "hello"));
	one("cl-overflow-20digits", S(SL "Content-Length: 99999999999999999999\r\n" END "hello"));
	one("cl-overflow-2p64p5", S(SL "Content-Length: 18446744073709551621\r\n" END "hello"));
	one("cl-int64max", S(SL "Content-Length: 9223372036854775807\r\n" END "hello"));
	one("cl-short-body", S(SL "Content-Length: 10\r\n" END "hello"));
	one("cl-body-binary", S(SL "Content-Length: 9\r\n" END "a\0b\r\n\r\n\xff" "c"));
	one("cl-body-looks-like-response", S(SL "Content-Length: 19\r\n" END "HTTP/1.1 500 X\r\n\r\n!"));

	/* --- B: chunked --- */
	one("ch-simple", S(SL TEC END "5\r\nhello\r\n0\r\n\r\n"));
	one("ch-two", S(SL TEC END "3\r\nhel\r\n2\r\nlo\r\n0\r\n\r\n"));
	one("ch-two-long", S(SL TEC END "a\r\n0123456789\r\n6\r\nabcdef\r\n0\r\n\r\n"));
	one("ch-three", S(SL TEC END "4\r\nabcd\r\n10\r\n0123456789ABCDEF\r\n5\r\nvwxyz\r\n0\r\n\r\n"));
	one("ch-empty", S(SL TEC END "0\r\n\r\n"));
	one("ch-hex-upper", S(SL TEC END "A\r\n0123456789\r\n0\r\n\r\n"));
	one("ch-hex-lower", S(SL TEC END "a\r\n0123456789\r\n0\r\n\r\n"));
	one("ch-hex-two-digits", S(SL TEC END "1b\r\n0123456789abcdefghijklmnopq\r\n0\r\n\r\n"));
	one("ch-lead-zeros", S(SL TEC END "005\r\nhello\r\n000\r\n\r\n"));
	one("ch-data-looks-like-end", S(SL TEC END "5\r\n0\r\n\r\n\r\n0\r\n\r\n"));
	one("ch-data-binary", S(SL TEC END "4\r\n\r\n\0\xff\r\n0\r\n\r\n"));
	one("ch-extra-bytes", S(SL TEC END "5\r\nhello\r\n0\r\n\r\nXYZ"));
	one("chunk-ext", S(SL TEC END "5;x=y\r\nhello\r\n0\r\n\r\n"));
	one("chunk-ext", S(SL TEC END "5;x\r\nhello\r\n0\r\n\r\n"));
	one("chunk-ext", S(SL TEC END "5;x=\"a b\"\r\nhello\r\n0\r\n\r\n"));
	one("chunk-ext", S(SL TEC END "5\r\nhello\r\n0;last=1\r\n\r\n"));
	one("chunk-ext", S(SL TEC END "5;a=1;b=2\r\nhello\r\n0\r\n\r\n"));
	one("chunk-ext-bws", S(SL TEC END "5 ;x=y\r\nhello\r\n0\r\n\r\n"));
	one("ch-trailer", S(SL TEC END "5\r\nhello\r\n0\r\nX-T: 1\r\n\r\n"));
	one("ch-trailer2", S(SL TEC "X-H: h\r\n" END "5\r\nhello\r\n0\r\nX-T: 1\r\nX-U: 2\r\n\r\n"));
	one("ch-bad-size-0x", S(SL TEC END "0x5\r\nhello\r\n0\r\n\r\n"));
	one("ch-bad-size-minus", S(SL TEC END "-1\r\nhello\r\n0\r\n\r\n"));
	one("ch-bad-size-minus0", S(SL TEC END "5\r\nhello\r\n-0\r\n\r\n"));
	one("ch-bad-size-plus", S(SL TEC END "+5\r\nhello\r\n0\r\n\r\n"));
	one("ch-bad-size-space", S(SL TEC END " 5\r\nhello\r\n0\r\n\r\n"));
	one("ch-bad-size-alpha", S(SL TEC END "g\r\nhello\r\n0\r\n\r\n"));
	one("ch-bad-size-glued", S(SL TEC END "5g\r\nhello\r\n0\r\n\r\n"));
	one("ch-bad-size-second", S(SL TEC END "5\r\nhello\r\nzz\r\n0\r\n\r\n"));
	one("ch-size-overflow-17", S(SL TEC END "FFFFFFFFFFFFFFFFF\r\nhello\r\n0\r\n\r\n"));
	one("ch-size-2p64m1", S(SL TEC END "FFFFFFFFFFFFFFFF\r\nhello\r\n0\r\n\r\n"));
	one("ch-size-2p63", S(SL TEC END "8000000000000000\r\nhello\r\n0\r\n\r\n"));
	one("ch-size-int64max", S(SL TEC END "7FFFFFFFFFFFFFFF\r\nhello\r\n0\r\n\r\n"));
	one("ch-incomplete-no-last", S(SL TEC END "5\r\nhello\r\n"));
	one("ch-incomplete-no-final-crlf", S(SL TEC END "5\r\nhello\r\n0\r\n"));
	one("ch-trailing-sp", S(SL TEC END "5 \r\nhello\r\n0\r\n\r\n"));
	one("ch-missing-crlf-after-data", S(SL TEC END "5\r\nhello3\r\nabc\r\n0\r\n\r\n"));
	one("ch-extra-blank-line", S(SL TEC END "5\r\nhello\r\n\r\n0\r\n\r\n"));
	one("ch-bare-lf", S(SL TEC END "5\nhello\n0\n\n"));
	one("te-case", S(SL "Transfer-Encoding: Chunked\r\n" END "5\r\nhello\r\n0\r\n\r\n"));
	one("te-case", S(SL "transfer-encoding: CHUNKED\r\n" END "5\r\nhello\r\n0\r\n\r\n"));
	one("te-ows", S(SL "Transfer-Encoding:   chunked \t\r\n" END "5\r\nhello\r\n0\r\n\r\n"));
	one("te-list-chunked-final", S(SL "Transfer-Encoding: gzip, chunked\r\n" END "5\r\nhello\r\n0\r\n\r\n"));
	one("te-list-chunked-final", S(SL "Transfer-Encoding: gzip\r\nTransfer-Encoding: chunked\r\n" END "5\r\nhello\r\n0\r\n\r\n"));
	one("te-list-chunked-final", S(SL "Transfer-Encoding: gzip,chunked\r\n" END "5\r\nhello\r\n0\r\n\r\n"));
	one("te-chunked-not-final", S(SL "Transfer-Encoding: chunked, gzip\r\n" END "5\r\nhello\r\n0\r\n\r\n"));
	one("te-gzip-only", S(SL "Transfer-Encoding: gzip\r\n" END "rawbytes"));
	one("te-identity", S(SL "Transfer-Encoding: identity\r\n" END "rawbytes"));
	one("te-and-cl", S(SL TEC CL5 END "5\r\nhello\r\n0\r\n\r\n"));
	one("te-and-cl", S(SL CL5 TEC END "5\r\nhello\r\n0\r\n\r\n"));
	one("te-gzip-and-cl", S(SL "Transfer-Encoding: gzip\r\n" CL5 END "helloXYZ"));
	one("te-chunked-http10", S("HTTP/1.0 200 OK\r\n" TEC END "5\r\nhello\r\n0\r\n\r\n"));
	one("te-chunked-twice", S(SL "Transfer-Encoding: chunked, chunked\r\n" END "5\r\nhello\r\n0\r\n\r\n"));
	one("te-chunked-param", S(SL "Transfer-Encoding: chunked;q=1\r\n" END "5\r\nhello\r\n0\r\n\r\n"));

	/* --- B: close-delimited --- */
	one("close-body", S(SL END "hello"));
	one("close-empty", S(SL END));
	one("close-hdrs", S(SL "X-A: b\r\n" END "hello world"));
	one("close-conn-close", S(SL "Connection: close\r\n" END "hello"));
	one("no-length-with-connection-field", S(SL "Connection: keep-alive\r\n" END "hello"));
	one("no-length-with-connection-field", S(SL "Connection: x-foo\r\n" END "hello"));
	one("close-http10", S("HTTP/1.0 200 OK\r\n" END "hello"));
	one("close-binary", S(SL END "a\0b\r\n\r\nHTTP/1.1 200 OK\r\n\r\n\xff"));
	one("close-404", S("HTTP/1.1 404 Not Found\r\n" END "nope"));

	/* --- B: responses that never have a body --- */
	one("nobody-204", S("HTTP/1.1 204 No Content\r\n" END));
	one("nobody-204-cl", S("HTTP/1.1 204 No Content\r\n" CL5 END));
	one("nobody-204-cl-extra", S("HTTP/1.1 204 No Content\r\n" CL5 END "hello"));
	one("nobody-204-te", S("HTTP/1.1 204 No Content\r\n" TEC END));
	one("nobody-304", S("HTTP/1.1 304 Not Modified\r\n" END));
	one("nobody-304-cl", S("HTTP/1.1 304 Not Modified\r\n" CL5 "ETag: \"x\"\r\n" END));
	one("nobody-304-te", S("HTTP/1.1 304 Not Modified\r\n" TEC END));
	one("nobody-304-cl-extra", S("HTTP/1.1 304 Not Modified\r\n" CL5 END "hello"));
	one("body-205", S("HTTP/1.1 205 Reset Content\r\nContent-Length: 0\r\n" END));
	add_stream("head-cl", 1, M_HEAD, 0, 1, S(SL CL5 END));
	add_stream("head-cl-extra", 1, M_HEAD, 0, 1, S(SL CL5 END "hello"));
	add_stream("head-chunked", 1, M_HEAD, 0, 1, S(SL TEC END));
	add_stream("head-nolength", 1, M_HEAD, 0, 1, S(SL "X-A: b\r\n" END));
	add_stream("head-404", 1, M_HEAD, 0, 1, S("HTTP/1.1 404 Not Found\r\nContent-Length: 100\r\n" END));
	add_stream("head-cl-dup-diff", 1, M_HEAD, 0, 1, S(SL CL5 "Content-Length: 6\r\n" END));
	add_stream("post-cl", 1, M_POST, 0, 1, S(SL CL5 END "hello"));
	add_stream("post-chunked", 1, M_POST, 0, 1, S(SL TEC END "5\r\nhello\r\n0\r\n\r\n"));

	/* --- B: interim responses --- */
	one("interim-100", S("HTTP/1.1 100 Continue\r\n" END SL CL5 END "hello"));
	one("interim-100-twice", S("HTTP/1.1 100 Continue\r\n" END "HTTP/1.1 100 Continue\r\n" END SL CL5 END "hello"));
	one("interim-100-with-fields", S("HTTP/1.1 100 Continue\r\nX-Interim: 1\r\n" END SL CL5 END "hello"));
	one("interim-100-with-fields", S("HTTP/1.1 100 Continue\r\nContent-Length: 2\r\n" END SL CL5 END "hello"));
	one("interim-100-chunked-final", S("HTTP/1.1 100 Continue\r\n" END SL TEC END "5\r\nhello\r\n0\r\n\r\n"));
	one("interim-100-close-final", S("HTTP/1.1 100 Continue\r\n" END SL END "hello"));
	one("interim-100-alone", S("HTTP/1.1 100 Continue\r\n" END));
	one("interim-non-100", S("HTTP/1.1 102 Processing\r\n" END SL CL5 END "hello"));
	one("interim-non-100", S("HTTP/1.1 103 Early Hints\r\nLink: </s.css>; rel=preload\r\n" END SL CL5 END "hello"));
	one("interim-non-100", S("HTTP/1.1 199 Whatever\r\n" END SL CL5 END "hello"));
	one("interim-101", S("HTTP/1.1 101 Switching Protocols\r\nUpgrade: x\r\nConnection: upgrade\r\n" END "opaque"));
	add_stream("interim-100-head", 1, M_HEAD, 0, 1, S("HTTP/1.1 100 Continue\r\n" END SL CL5 END));
	add_stream("interim-100-post", 1, M_POST, 0, 1, S("HTTP/1.1 100 Continue\r\n" END SL CL5 END "hello"));

	/* --- C: field syntax, body framed by Content-Length: 5 --- */
	static const struct { const char *k, *h; size_t n; } hs[] = {
#define H(k, lit) { k, lit, sizeof(lit) - 1 }
		H("h-plain", "X-A: b\r\n"),
		H("h-empty-value", "X-E:\r\n"),
		H("h-empty-value-sp", "X-E: \r\n"),
		H("h-no-space", "X-A:b\r\n"),
		H("h-inner-spaces", "X-A: a  b \t c\r\n"),
		H("h-trailing-ws", "X-A: b \t \r\n"),
		H("h-colon-in-value", "X-A: a:b: c\r\n"),
		H("h-dup-names", "X-A: 1\r\nX-B: 2\r\nX-A: 3\r\n"),
		H("h-case-preserved", "x-LoWeR-uPPer: MiXed\r\n"),
		H("h-obs-text", "X-A: caf\xe9\x80\r\n"),
		H("h-tchars", "a!#$%&'*+-.^_`|~0: v\r\n"),
		H("h-long", "X-Long: aaaaaaaaaaaaaaaaaaaaaaaaaaaaaaaaaaaaaaaaaaaaaaaaaaaaaaaaaaaaaaaaaaaaaaaaaaaaaaaa\r\n"),
		H("h-many", "A: 1\r\nB: 2\r\nC: 3\r\nD: 4\r\nE: 5\r\nF: 6\r\nG: 7\r\nH: 8\r\nI: 9\r\nJ: 10\r\nK: 11\r\nL: 12\r\n"),
		H("h-connection-close", "Connection: close\r\n"),
		H("h-connection-keepalive", "Connection: keep-alive\r\n"),
		H("ows-htab", "X-A:\tb\r\n"),
		H("ows-htab", "X-A: \t b\r\n"),
		H("h-obs-fold", "X-A: a\r\n b\r\n"),
		H("h-obs-fold-tab", "X-A: a\r\n\tb\r\nX-B: c\r\n"),
		H("h-leading-fold", " X-A: b\r\n"),
		H("h-ws-before-colon", "X-A : b\r\n"),
		H("h-no-colon", "X-A b\r\n"),
		H("h-empty-name", ": b\r\n"),
		H("h-name-with-sp", "X A: b\r\n"),
		H("h-bare-lf", "X-A: b\nX-B: c\r\n"),
		H("h-nul-in-value", "X-A: a\0b\r\n"),
		H("h-bare-cr-in-value", "X-A: a\rb\r\n"),
		H("h-bare-cr-sp-in-value", "X-A: a\r b\r\n"),
		H("h-ctl-in-value", "X-A: a\x01" "b\r\n"),
#undef H
	};
	for (size_t i = 0; i < sizeof hs / sizeof hs[0]; i++) {
		add_stream(hs[i].k, 1, M_GET, 0, 3, S(SL), hs[i].h, hs[i].n, S(CL5 END "hello"));
		/* the same field after Content-Length (last field of the section) */
		if (i % 3 == 0) add_stream(hs[i].k, 1, M_GET, 0, 4, S(SL CL5), hs[i].h, hs[i].n, S(END), S("hello"));
	}

	/* --- D: two queued requests; the bytes after response 1 belong to request 2 --- */
	static const struct { const char *k; int m0; const char *r1; size_t n; } firsts[] = {
#define F(k, m, lit) { k, m, lit, sizeof(lit) - 1 }
		F("q-cl5", M_GET, SL CL5 END "hello"),
		F("q-cl0", M_GET, SL "Content-Length: 0\r\n" END),
		F("q-ch", M_GET, SL TEC END "5\r\nhello\r\n0\r\n\r\n"),
		F("q-ch-trailer", M_GET, SL TEC END "5\r\nhello\r\n0\r\nX-T: 1\r\n\r\n"),
		F("q-204", M_GET, "HTTP/1.1 204 No Content\r\n" END),
		F("q-204-cl", M_GET, "HTTP/1.1 204 No Content\r\n" CL5 END),
		F("q-304-cl", M_GET, "HTTP/1.1 304 Not Modified\r\n" CL5 END),
		F("q-head-cl", M_HEAD, SL CL5 END),
		F("q-head-chunked", M_HEAD, SL TEC END),
		F("q-head-nolength", M_HEAD, SL END),
		F("q-interim-100", M_GET, "HTTP/1.1 100 Continue\r\n" END SL CL5 END "hello"),
		F("q-conn-close", M_GET, SL CL5 "Connection: close\r\n" END "hello"),
		F("q-close-delimited", M_GET, SL END "hello"),
		F("q-http10-cl", M_GET, "HTTP/1.0 200 OK\r\n" CL5 END "hello"),
		F("q-http10-keepalive", M_GET, "HTTP/1.0 200 OK\r\n" CL5 "Connection: keep-alive\r\n" END "hello"),
		F("q-cl-dup-diff", M_GET, SL CL5 "Content-Length: 6\r\n" END "hello!"),
		F("q-ch-bad-size", M_GET, SL TEC END "zz\r\nhello\r\n0\r\n\r\n"),
		F("q-404", M_GET, "HTTP/1.1 404 Not Found\r\nContent-Length: 4\r\n" END "nope"),
		F("no-length-with-connection-field", M_GET, SL "Connection: keep-alive\r\n" END),
#undef F
	};
	for (size_t i = 0; i < sizeof firsts / sizeof firsts[0]; i++) {
		add_stream(firsts[i].k, 2, firsts[i].m0, M_GET, 2, firsts[i].r1, firsts[i].n, S(R2CL));
		add_stream(firsts[i].k, 2, firsts[i].m0, M_GET, 2, firsts[i].r1, firsts[i].n, S(R2CLOSE));
		/* thorough only (-P extra=1): second response chunked with a trailer */
		if (mc_param("extra", 0)) add_stream(firsts[i].k, 2, firsts[i].m0, M_GET, 2, firsts[i].r1, firsts[i].n, S(R2CH));
	}
	add_stream("q-second-head", 2, M_GET, M_HEAD, 2, S(SL CL5 END "hello"), S("HTTP/1.1 200 OK\r\nContent-Length: 6\r\n\r\n"));
	add_stream("q-only-first-answered", 2, M_GET, M_GET, 1, S(SL CL5 END "hello"));

	/* --- E: response 1 ends the connection, bytes follow it, and the reconnect for request 2 SUCCEEDS:
	 * request 2 must get what the new connection says (R3) or fail, never the stale bytes --- */
	static const struct { const char *k; const char *r1; size_t n; } ends[] = {
#define F(k, lit) { k, lit, sizeof(lit) - 1 }
		F("qr-conn-close", SL CL5 "Connection: close\r\n" END "hello"),
		F("qr-conn-close-chunked", SL TEC "Connection: close\r\n" END "5\r\nhello\r\n0\r\n\r\n"),
		F("qr-conn-close-204", "HTTP/1.1 204 No Content\r\nConnection: close\r\n" END),
		F("qr-close-delimited", SL END "hello"),
		F("qr-cl-dup-diff", SL CL5 "Content-Length: 6\r\n" END "hello!"),
		F("qr-ch-bad-size", SL TEC END "zz\r\nhello\r\n0\r\n\r\n"),
		F("qr-http10-cl", "HTTP/1.0 200 OK\r\n" CL5 END "hello"),
#undef F
	};
	for (size_t i = 0; i < sizeof ends / sizeof ends[0]; i++) {
		add_stream(ends[i].k, 2, M_GET, M_GET, 2, ends[i].r1, ends[i].n, S(R2CL));
		cat[ncat - 1].reconn = 1;
	}
}

/* ------------------------------------------------------------------ */
/* one scenario = one connection, nreq requests, one delivery of the stream */

#define MAXH 48
struct outcome {
	int called, err_called, err_code;
	int fail;                   /* callback got NULL or a request without a response code */
	int status, major, minor;
	struct hc_buf reason, body;
	int nh; struct hc_buf hn[MAXH], hv[MAXH];
	int done_seg;               /* index of the delivery step after which the callback had run */
	int sent_before_eof;        /* the harness had received this request before it half-closed */
};
struct scen { struct outcome o[2]; int nreq; };

static struct scen *cur_scen; static int cur_seg;
struct cbarg { int idx; };

static void on_done(struct evhttp_request *req, void *arg)
{
	struct outcome *o = &cur_scen->o[((struct cbarg *)arg)->idx];
	o->called++;
	o->done_seg = cur_seg;
	if (o->called > 1) return;
	if (req == NULL || req->response_code == 0) { o->fail = 1; return; }
	o->status = req->response_code; o->major = req->major; o->minor = req->minor;
	if (req->response_code_line) hc_buf_add(&o->reason, req->response_code_line, strlen(req->response_code_line));
	else hc_buf_add(&o->reason, "", 0);
	struct evkeyval *h;
	TAILQ_FOREACH(h, req->input_headers, next) {
		if (o->nh >= MAXH) break;
		hc_buf_add(&o->hn[o->nh], h->key, strlen(h->key));
		hc_buf_add(&o->hv[o->nh], h->value, strlen(h->value));
		o->nh++;
	}
	size_t n = evbuffer_get_length(req->input_buffer);
	hc_buf_add(&o->body, "", 0);
	if (n) hc_buf_add(&o->body, evbuffer_pullup(req->input_buffer, -1), n);
}
static void on_error(enum evhttp_request_error e, void *arg)
{
	struct outcome *o = &cur_scen->o[((struct cbarg *)arg)->idx];
	o->err_called++; o->err_code = (int)e;
}
static void scen_free(struct scen *s)
{
	for (int r = 0; r < 2; r++) {
		struct outcome *o = &s->o[r];
		hc_buf_free(&o->reason); hc_buf_free(&o->body);
		for (int i = 0; i < MAXH; i++) { hc_buf_free(&o->hn[i]); hc_buf_free(&o->hv[i]); }
	}
}
static void render(const struct outcome *o, char *out, size_t cap)
{
	size_t n = 0; char tmp[1400];
	if (!o->called) { snprintf(out, cap, "NOT-CALLED"); return; }
	if (o->fail) { snprintf(out, cap, "FAIL"); return; }
	hc_esc(tmp, sizeof tmp, o->reason.p, o->reason.n);
	n += (size_t)snprintf(out + n, cap - n, "%d [%s] %d.%d {", o->status, tmp, o->major, o->minor);
	for (int i = 0; i < o->nh && n + 8 < cap; i++) {
		hc_esc(tmp, 300, o->hn[i].p, o->hn[i].n);
		n += (size_t)snprintf(out + n, cap - n, "%s%s: ", i ? "|" : "", tmp);
		hc_esc(tmp, 300, o->hv[i].p, o->hv[i].n);
		if (n < cap) n += (size_t)snprintf(out + n, cap - n, "%s", tmp);
	}
	hc_esc(tmp, 600, o->body.p, o->body.n);
	if (n < cap) snprintf(out + n, cap - n, "} <%s>", tmp);
}

static int count_requests(const struct hc_buf *b)
{
	/* the requests this harness makes have no body: one per empty line */
	int k = 0;
	for (size_t i = 0; i + 3 < b->n + 0 && i + 4 <= b->n; i++) if (!memcmp(b->p + i, "\r\n\r\n", 4)) k++;
	return k;
}

/* reconnect service for streams with reconn = 1: accept on the worker's listener, read the request, answer R3 */
static int rc_fd = -1; static struct hc_buf rc_in; static int rc_answered;
static void serve_reconnect(struct evhttp_connection *evcon)
{
	if (rc_fd < 0) {
		if (evcon->state == EVCON_CONNECTING) hc_real_wait(hc_worker_listen_fd, POLLIN, 1000);
		rc_fd = accept(hc_worker_listen_fd, NULL, NULL);
		if (rc_fd < 0) return;
		hc_nonblock(rc_fd);
		MC_COUNT("reconnects_accepted");
		hc_run();
		hc_real_wait(rc_fd, POLLIN, 100);
	}
	if (!rc_answered) {
		hc_peer_drain(rc_fd, &rc_in);
		if (count_requests(&rc_in) >= 1) {
			rc_answered = 1;
			hc_peer_write(rc_fd, R3, sizeof R3 - 1);
			hc_real_wait(bufferevent_getfd(evcon->bufev), POLLIN, 200);
			hc_run();
		}
	}
}
#define STEP() do { hc_run(); hc_settle_connect(evcon); if (st->reconn) serve_reconnect(evcon); } while (0)

/* deliver st->bytes[0..avail) cut at cuts[0..ncuts) (ascending, strictly inside), then half-close */
static void run_scenario(const struct stream *st, const size_t *cuts, int ncuts, size_t avail, struct scen *sc)
{
	int sv[2];
	static struct cbarg args[2] = { {0}, {1} };
	struct hc_buf got = {0};
	memset(sc, 0, sizeof *sc);
	sc->nreq = st->nreq;
	cur_scen = sc; cur_seg = -1;
	hc_exec_begin();
	if (hc_socketpair(sv) < 0) { hc_exec_end(); return; }
	struct bufferevent *bev = bufferevent_socket_new(hc_base, sv[0], BEV_OPT_CLOSE_ON_FREE);
	struct evhttp_connection *evcon = evhttp_connection_base_bufferevent_reuse_new(hc_base, NULL, bev);
	if (!bev || !evcon) { mc_fail("harness:setup", "bufferevent/evcon"); abort(); }
	/* a reconnect is refused, deterministically -- or, for reconn streams, accepted by the worker's listener */
	hc_set_peer_addr(evcon, st->reconn ? hc_worker_listen_port : hc_refused_port);
	if (st->reconn) { hc_worker_listener_drain(); rc_fd = -1; rc_answered = 0; hc_buf_reset(&rc_in); }
	for (int r = 0; r < st->nreq; r++) {
		struct evhttp_request *req = evhttp_request_new(on_done, &args[r]);
		evhttp_request_set_error_cb(req, on_error);
		evhttp_add_header(req->output_headers, "Host", "h");
		enum evhttp_cmd_type t = st->meth[r] == M_HEAD ? EVHTTP_REQ_HEAD : st->meth[r] == M_POST ? EVHTTP_REQ_POST : EVHTTP_REQ_GET;
		if (evhttp_make_request(evcon, req, t, r ? "/second" : "/first") != 0) mc_fail("harness:make_request", "request %d", r);
	}
	hc_run();
	hc_peer_drain(sv[1], &got);
	if (count_requests(&got) < 1) mc_fail("harness:request-not-received", "peer has %zu bytes", got.n);
	/* deliveries */
	size_t from = 0;
	for (int s = 0; s <= ncuts; s++) {
		size_t to = s < ncuts ? cuts[s] : avail;
		cur_seg = s;
		if (to > from) {
			/* EPIPE: the client has already dropped the connection; the rest cannot be delivered */
			if (hc_peer_write(sv[1], st->bytes + from, to - from) < 0 && errno != EPIPE && errno != ECONNRESET) mc_fail("harness:peer-write", "%s", strerror(errno));
			STEP();
		}
		from = to;
	}
	/* the peer closes its sending side */
	cur_seg = ncuts + 1;
	hc_peer_drain(sv[1], &got);
	int nrecv = count_requests(&got);
	for (int r = 0; r < st->nreq; r++) sc->o[r].sent_before_eof = r < nrecv;
	shutdown(sv[1], SHUT_WR);
	STEP();
	STEP();
	/* anything still pending can only be finished by a timeout: let virtual time pass */
	int pending = 0;
	for (int r = 0; r < st->nreq; r++) if (!sc->o[r].called) pending = 1;
	if (pending) {
		cur_seg = ncuts + 2;
		for (int i = 0; i < 6 && pending; i++) {
			hc_run_timers(4);
			STEP();
			pending = 0;
			for (int r = 0; r < st->nreq; r++) if (!sc->o[r].called) pending = 1;
		}
	}
	evhttp_connection_free(evcon);
	close(sv[1]);
	if (rc_fd >= 0) { struct linger lg = { 1, 0 }; setsockopt(rc_fd, SOL_SOCKET, SO_LINGER, &lg, sizeof lg); close(rc_fd); rc_fd = -1; }
	if (st->reconn) hc_worker_listener_drain();
	hc_exec_end();
	hc_buf_free(&got);
	cur_scen = NULL;
}

/* ------------------------------------------------------------------ */
/* expectations                                                        */

enum xclass { X_ACCEPT, X_ACCEPT_OR_FAIL, X_FAIL, X_LATITUDE, X_FAIL_OR_ANY };
struct xpect { enum xclass c; struct r9_msg m; int have_msg; size_t end_off; const char *why; int no_timing; };

static void compute_expect(const struct stream *st, size_t avail, struct xpect ex[2])
{
	size_t off = 0; int dead = 0, loose = 0;
	memset(ex, 0, 2 * sizeof ex[0]);
	for (int r = 0; r < st->nreq; r++) {
		struct xpect *e = &ex[r];
		if (dead && st->reconn && !loose) {
			/* the request goes to a new connection, which answers R3: that, or a failure, never the stale bytes */
			r9_parse_response((const uint8_t *)R3, sizeof R3 - 1, 1, R9_REQ_OTHER, &e->m);
			e->have_msg = 1; e->c = X_ACCEPT_OR_FAIL; e->no_timing = 1; e->why = "answered on a new connection";
			continue;
		}
		if (dead) { e->c = X_FAIL; e->why = "connection ended before this request"; continue; }
		enum r9_reqkind rk = st->meth[r] == M_HEAD ? R9_REQ_HEAD : R9_REQ_OTHER;
		enum r9_result res = r9_parse_response(st->bytes + off, avail - off, 1, rk, &e->m);
		e->have_msg = 1;
		if (loose || e->m.lat) { e->c = X_LATITUDE; loose = 1; e->why = "RFC latitude"; continue; }
		if (res == R9_OK) {
			e->c = e->m.alt_reject ? X_ACCEPT_OR_FAIL : X_ACCEPT;
			off += e->m.consumed; e->end_off = off;
			if (e->m.alt_reject) loose = 1;             /* after an optional rejection the rest is open */
			if (e->m.conn_close || e->m.framing == R9_F_CLOSE) dead = 1;
			else if (e->m.major == 1 && e->m.minor == 0 && !e->m.conn_keepalive) loose = 1;   /* persistence is the client's choice */
		} else {
			e->c = X_FAIL; e->why = e->m.why; dead = 1;
			if (e->m.alt_reject) { e->c = X_LATITUDE; loose = 1; }
		}
	}
}
static void free_expect(struct xpect ex[2]) { for (int r = 0; r < 2; r++) if (ex[r].have_msg) r9_msg_free(&ex[r].m); }

static int hdr_eq(const struct outcome *o, int i, const struct r9_field *f)
{
	return o->hn[i].n == f->nlen && !memcmp(o->hn[i].p, f->name, f->nlen) &&
	       o->hv[i].n == f->vlen && !memcmp(o->hv[i].p, f->val, f->vlen);
}

static void fail_key(const char *oracle, const struct stream *st, int r, const char *fmt, ...)
{
	char key[160], msg[900], esc[500]; va_list ap;
	snprintf(key, sizeof key, "C24/%s/%s", oracle, st->klass);
	va_start(ap, fmt); vsnprintf(msg, sizeof msg, fmt, ap); va_end(ap);
	hc_esc(esc, sizeof esc, st->bytes, st->len);
	mc_fail(key, "request %d of stream \"%s\": %s", r + 1, esc, msg);
}

static void check_against_reference(const struct stream *st, size_t avail, const struct scen *sc, const size_t *cuts, int ncuts)
{
	struct xpect ex[2];
	char ren[2400];
	compute_expect(st, avail, ex);
	for (int r = 0; r < st->nreq; r++) {
		const struct outcome *o = &sc->o[r]; struct xpect *e = &ex[r];
		render(o, ren, sizeof ren);
		if (o->called != 1) {
			MC_COUNT("oracle_completion_count");
			fail_key(o->called ? "completion-twice" : "no-completion", st, r, "callback ran %d times (avail=%zu)", o->called, avail);
			continue;
		}
		MC_COUNT("oracle_completion_count");
		if (o->err_called > 1) fail_key("error-cb-twice", st, r, "error callback ran %d times", o->err_called);
		enum xclass c = e->c;
		if (!o->sent_before_eof && r > 0 && c != X_LATITUDE) {
			/* the peer closed before this request reached it: failing it is legitimate */
			MC_COUNT("note_request_unsent_at_eof");
			if (o->fail) continue;
		}
		switch (c) {
		case X_LATITUDE:
			MC_COUNT("class_latitude");
			break;
		case X_FAIL_OR_ANY:
			break;
		case X_FAIL:
			MC_COUNT("oracle_must_fail");
			if (!o->fail) fail_key("accepts-must-reject", st, r, "reference: %s (avail=%zu); callback got %s", e->why ? e->why : "?", avail, ren);
			break;
		case X_ACCEPT: case X_ACCEPT_OR_FAIL: {
			const struct r9_msg *m = &e->m;
			if (o->fail) {
				if (c == X_ACCEPT_OR_FAIL) { MC_COUNT("oracle_accept_or_fail"); break; }
				MC_COUNT("oracle_must_accept");
				fail_key("rejects-must-accept", st, r, "reference accepts (status %d, framing %d, body %zu bytes, avail=%zu); callback got a failure (error cb code %d)",
				    m->status, (int)m->framing, m->blen, avail, o->err_called ? o->err_code : -1);
				break;
			}
			MC_COUNT("oracle_must_accept");
			if (o->status != m->status || o->major != m->major || o->minor != m->minor)
				fail_key("wrong-status", st, r, "reference %d HTTP/%d.%d, callback %d HTTP/%d.%d (%s)", m->status, m->major, m->minor, o->status, o->major, o->minor, ren);
			else if (o->reason.n != m->rlen || memcmp(o->reason.p, m->reason, m->rlen))
				fail_key("wrong-reason", st, r, "reference reason has %zu bytes, callback got %s", m->rlen, ren);
			/* header fields: exactly the header section, optionally followed by the trailer section
			 * (evhttp has no separate place for trailers) */
			int ok = 0;
			if (o->nh == m->nf || o->nh == m->nf + m->nt) {
				ok = 1;
				for (int i = 0; i < o->nh && ok; i++) ok = hdr_eq(o, i, i < m->nf ? &m->f[i] : &m->t[i - m->nf]);
			}
			MC_COUNT("oracle_headers");
			if (!ok) fail_key("wrong-headers", st, r, "reference has %d fields (+%d trailers, %d interim responses skipped); callback got %s", m->nf, m->nt, m->n_interim, ren);
			MC_COUNT("oracle_body");
			if (o->body.n != m->blen || (m->blen && memcmp(o->body.p, m->body, m->blen)))
				fail_key("wrong-body", st, r, "reference body %zu bytes (framing %d), callback got %s", m->blen, (int)m->framing, ren);
			/* framing decides where the message ends: a length-delimited response must be complete
			 * as soon as its last byte has been delivered, not only when the peer closes */
			if (m->framing != R9_F_CLOSE && o->sent_before_eof && ok && o->body.n == m->blen && !e->no_timing) {
				int seg = 0;
				while (seg < ncuts && cuts[seg] < e->end_off) seg++;
				MC_COUNT("oracle_completion_time");
				if (o->done_seg > seg)
					fail_key("late-completion", st, r, "response ends at byte %zu (delivery %d) but the callback ran after delivery %d", e->end_off, seg, o->done_seg);
			}
			break; }
		}
	}
	free_expect(ex);
}

/* ------------------------------------------------------------------ */

static int modes[8], nmodes;
enum { MODE_WHOLE, MODE_CUT1, MODE_CUT2, MODE_BYTES, MODE_EOF, MODE_EOF_CUT1, MODE_EOF_BYTES, MODE_CUT3 };
static const char *mode_names[] = { "whole", "cut1", "cut2", "bytes", "eof", "eof+cut1", "eof+bytes", "cut3" };

static long live0; static uint64_t fd0;

static void init(void)
{
	hc_global_init();
	hc_worker_listener_init();
	build_catalogue();
	const char *ms = mc_param_str("modes", "0134 6");
	for (const char *p = ms; *p; p++) if (*p >= '0' && *p <= '7' && nmodes < 8) modes[nmodes++] = *p - '0';
	live0 = mcx_alloc_live(); fd0 = mcx_fd_signature();
}

static void body(void)
{
	static size_t cuts[512];
	int ncuts = 0;
	int maxlen = mc_param("maxlen", 400);
	int si = mc_choose(ncat, 0, "stream");
	int mode = modes[mc_choose(nmodes, 0, "mode")];
	const struct stream *st = &cat[si];
	size_t len = st->len, avail = len;
	size_t lim = len > (size_t)maxlen ? (size_t)maxlen : len;     /* cut positions considered: 1..lim-1 */
	int trivial = 0;
	switch (mode) {
	case MODE_WHOLE: break;
	case MODE_CUT1:
		if (lim < 2) { trivial = 1; break; }
		cuts[0] = 1 + (size_t)mc_choose((int)lim - 1, 0, "cut1"); ncuts = 1; break;
	case MODE_CUT2:
		if (lim < 3) { trivial = 1; break; }
		cuts[0] = 1 + (size_t)mc_choose((int)lim - 2, 0, "cut1");
		cuts[1] = cuts[0] + 1 + (size_t)mc_choose((int)(lim - 1 - cuts[0]), 0, "cut2"); ncuts = 2; break;
	case MODE_CUT3: {
		/* every triple of cuts among the first maxlen3 byte boundaries */
		size_t l3 = len > (size_t)mc_param("maxlen3", 100) ? (size_t)mc_param("maxlen3", 100) : len;
		if (l3 < 4) { trivial = 1; break; }
		cuts[0] = 1 + (size_t)mc_choose((int)l3 - 3, 0, "cut1");
		cuts[1] = cuts[0] + 1 + (size_t)mc_choose((int)(l3 - 2 - cuts[0]), 0, "cut2");
		cuts[2] = cuts[1] + 1 + (size_t)mc_choose((int)(l3 - 1 - cuts[1]), 0, "cut3"); ncuts = 3; break; }
	case MODE_BYTES:
		if (len < 2) { trivial = 1; break; }
		for (size_t i = 1; i < len && ncuts < 511; i++) cuts[ncuts++] = i;
		break;
	case MODE_EOF:
		if (len < 1) { trivial = 1; break; }
		avail = (size_t)mc_choose((int)len, 0, "eof-at"); break;
	case MODE_EOF_CUT1:
		if (lim < 3) { trivial = 1; break; }
		avail = 2 + (size_t)mc_choose((int)lim - 2, 0, "eof-at");
		cuts[0] = 1 + (size_t)mc_choose((int)avail - 1, 0, "cut1"); ncuts = 1; break;
	case MODE_EOF_BYTES:
		if (len < 3) { trivial = 1; break; }
		avail = 2 + (size_t)mc_choose((int)len - 2, 0, "eof-at");
		for (size_t i = 1; i < avail && ncuts < 511; i++) cuts[ncuts++] = i;
		break;
	}
	if (trivial) { mc_observe("%s/%s: n/a", st->klass, mode_names[mode]); return; }

	struct scen sc, base;
	char r0[2][2400], r1[2][2400];
	run_scenario(st, cuts, ncuts, avail, &sc);
	MC_COUNT("scenarios");
	check_against_reference(st, avail, &sc, cuts, ncuts);
	for (int r = 0; r < st->nreq; r++) render(&sc.o[r], r1[r], sizeof r1[r]);
	if (ncuts > 0) {
		/* segmentation independence: same bytes, one delivery */
		run_scenario(st, NULL, 0, avail, &base);
		for (int r = 0; r < st->nreq; r++) {
			render(&base.o[r], r0[r], sizeof r0[r]);
			MC_COUNT("oracle_segmentation_independence");
			if (strcmp(r0[r], r1[r])) {
				char c[200]; size_t n = 0; c[0] = 0;
				for (int i = 0; i < ncuts && i < 6; i++) n += (size_t)snprintf(c + n, sizeof c - n, "%s%zu", i ? "," : "", cuts[i]);
				fail_key("segmentation-dependent", st, r, "avail=%zu cuts=[%s%s]: unsegmented -> %s ; segmented -> %s", avail, c, ncuts > 6 ? ",..." : "", r0[r], r1[r]);
			}
		}
		scen_free(&base);
	}
	mc_observe("#%d %s %s avail=%zu/%zu cuts=%d:", si, st->klass, mode_names[mode], avail, len, ncuts);
	if (ncuts > 0 && ncuts <= 3) mc_observe("@%zu%s", cuts[0], ncuts >= 2 ? "+" : "");
	for (int r = 0; r < st->nreq; r++) mc_observe(" r%d=%s", r + 1, r1[r]);
	scen_free(&sc);
	if (mcx_alloc_live() != live0) { mc_fail("C24/hygiene/leak", "%ld library allocations left after stream #%d (%s)", mcx_alloc_live() - live0, si, st->klass); live0 = mcx_alloc_live(); }
	if (mcx_fd_signature() != fd0) { mc_fail("C24/hygiene/fdleak", "fd table differs after stream #%d (%s)", si, st->klass); fd0 = mcx_fd_signature(); }
}

int main(int c, char **v)
{
	struct mc_config cfg = { .property = "C24", .body = body, .init = init };
	return mc_main(c, v, &cfg);
}
