/* ws_session.h — one WebSocket server session on the real evhttp/evws code,
 * shared by the C31 and C32 harnesses.  Include AFTER `#include "http.c"`
 * (needs the static evhttp_get_request) and "mcx.h", "rfc6455.h".
 *
 *   harness end  sv[1]  <--- AF_UNIX socketpair --->  sv[0]  evhttp server (real code)
 *
 * A fresh event_base, evhttp, socketpair per session; everything is destroyed
 * in ws_sess_close(), which also checks allocation and fd baselines.
 * Nothing depends on real time: the loop is only ever run with EVLOOP_NONBLOCK
 * until nothing more happens ("quiescent").
 */
#ifndef WS_SESSION_H
#define WS_SESSION_H
#include <sys/socket.h>
#include <sys/ioctl.h>
#include <sys/un.h>
#include <fcntl.h>
#include <poll.h>
#include <unistd.h>
#include <errno.h>
#include <event2/ws.h>

struct ws_delivered { int type; unsigned char *data; size_t len; };

struct ws_sess {
	struct event_base *base;
	struct evhttp *http;
	int sv[2];
	struct evws_connection *evws;     /* NULL before accept and after the close callback */
	int handler_calls, accepted;
	int have_key; char *key_seen; size_t key_seen_len;  /* as the request handler saw it */
	struct ws_delivered *msgs; size_t nmsgs, capmsgs;
	size_t close_on_nth;              /* application calls evws_close(1000) inside the n-th message callback (0 = never) */
	int app_closed;
	int closed;                       /* close callback ran before teardown */
	int in_teardown;
	int msgs_after_closecb;           /* message callbacks after the close callback (must stay 0) */
	unsigned char *rx; size_t rxlen, rxcap; int rx_eof;   /* everything the server wrote */
	size_t hs_len;                    /* length of the HTTP response head inside rx (0 = not seen) */
	int tx_broken;                    /* our writes started to fail (peer closed) */
	long activity;                    /* bumped by every harness callback */
	long live0; uint64_t fd0[2]; uint64_t fdsig0; int fdsig_taken;
	const char *tag;                  /* property id for harness failure keys */
};

static void ws_log_quiet(int sev, const char *msg) { (void)sev; (void)msg; }

/* AddressSanitizer keeps freed chunks in a 256 MB quarantine by default, so every execution
 * touches fresh pages (page faults dominate the run time by a factor > 10 here).  A few MB
 * still cover several complete executions.  Options given in ASAN_OPTIONS take precedence. */
const char *__asan_default_options(void);
const char *__asan_default_options(void) { return "quarantine_size_mb=4"; }

/* which of the fds 0..127 are open: one poll() call (POLLNVAL marks closed ones).
 * Cheap stand-in for mcx_fd_signature(), which is still used on every 64th session. */
static void ws_fd_bitmap(uint64_t out[2])
{
	struct pollfd pf[128]; int i;
	for (i = 0; i < 128; i++) { pf[i].fd = i; pf[i].events = 0; pf[i].revents = 0; }
	out[0] = out[1] = 0;
	if (poll(pf, 128, 0) < 0) return;
	for (i = 0; i < 128; i++) if (!(pf[i].revents & POLLNVAL)) out[i >> 6] |= 1ULL << (i & 63);
}
static unsigned long ws_sess_counter;

/* receive buffer of the harness end: harness memory, reused by all executions (never read
 * beyond rxlen, which is reset per session) */
static unsigned char *ws_rx_buf; static size_t ws_rx_cap;

/* hooks for the C32 harness: run inside the message callback / inside the request handler
 * after a successful upgrade */
static void (*ws_in_msg)(struct ws_sess *s);
static void (*ws_after_accept)(struct ws_sess *s);

static void ws_on_msg(struct evws_connection *evws, int type, const unsigned char *data, size_t len, void *arg)
{
	struct ws_sess *s = arg;
	struct ws_delivered *m;
	s->activity++;
	if (s->closed) s->msgs_after_closecb++;
	if (s->nmsgs == s->capmsgs) {
		s->capmsgs = s->capmsgs ? s->capmsgs * 2 : 8;
		s->msgs = realloc(s->msgs, s->capmsgs * sizeof *s->msgs);
		if (!s->msgs) abort();
	}
	m = &s->msgs[s->nmsgs++];
	m->type = type; m->len = len;
	m->data = malloc(len ? len : 1);
	if (!m->data) abort();
	if (len) memcpy(m->data, data, len);
	if (s->close_on_nth && s->nmsgs == s->close_on_nth) {
		s->app_closed = 1;
		evws_close(evws, WS_CR_NORMAL);
	}
	if (ws_in_msg) ws_in_msg(s);
}

static void ws_on_close(struct evws_connection *evws, void *arg)
{
	struct ws_sess *s = arg;
	(void)evws;
	s->activity++;
	if (!s->in_teardown) s->closed = 1;
	s->evws = NULL;
}

static void ws_on_request(struct evhttp_request *req, void *arg)
{
	struct ws_sess *s = arg;
	const char *k;
	s->activity++;
	s->handler_calls++;
	k = evhttp_find_header(evhttp_request_get_input_headers(req), "Sec-WebSocket-Key");
	if (k) {
		s->have_key = 1;
		s->key_seen_len = strlen(k);
		free(s->key_seen);
		s->key_seen = malloc(s->key_seen_len + 1);
		if (!s->key_seen) abort();
		memcpy(s->key_seen, k, s->key_seen_len + 1);
	}
	s->evws = evws_new_session(req, ws_on_msg, s, 0);
	if (s->evws) {
		s->accepted = 1;
		evws_connection_set_closecb(s->evws, ws_on_close, s);
		if (ws_after_accept) ws_after_accept(s);
	}
}

static size_t ws_drain(struct ws_sess *s)
{
	size_t got = 0;
	for (;;) {
		ssize_t r;
		if (ws_rx_cap - s->rxlen < 65536) {
			ws_rx_cap = ws_rx_cap ? ws_rx_cap * 2 : 1 << 17;
			ws_rx_buf = realloc(ws_rx_buf, ws_rx_cap);
			if (!ws_rx_buf) abort();
		}
		s->rx = ws_rx_buf; s->rxcap = ws_rx_cap;
		r = read(s->sv[1], s->rx + s->rxlen, s->rxcap - s->rxlen);
		if (r > 0) { s->rxlen += (size_t)r; got += (size_t)r; continue; }
		if (r == 0) s->rx_eof = 1;
		break;
	}
	return got;
}

/* The backend wait is wrapped (checks.d: "wrap": ["epoll_pwait2", "epoll_wait"]) only to learn how
 * many fds it reported.  One event_base_loop(EVLOOP_NONBLOCK) call makes several waits (it goes
 * on as long as callbacks ran); a call in which no wait reported anything, no harness callback ran
 * and no event is left active cannot have changed anything, so the session is quiescent.  After
 * every other call the harness end is drained (an AF_UNIX stream socket stops being writable for
 * the server once more than a quarter of its send buffer is unread) and the loop is called again.
 * (Every syscall costs ~15 us in this sandbox; the earlier "two idle passes + read + FIONREAD"
 * pump was 40 % slower.) */
#include <sys/epoll.h>
static int ws_last_nready = -1;     /* -1: no wait observed during the current loop call */
static long ws_wait_events;         /* fds reported by all waits of the current loop call */
int __real_epoll_pwait2(int epfd, struct epoll_event *ev, int n, const struct timespec *ts, const sigset_t *ss);
int __wrap_epoll_pwait2(int epfd, struct epoll_event *ev, int n, const struct timespec *ts, const sigset_t *ss);
int __wrap_epoll_pwait2(int epfd, struct epoll_event *ev, int n, const struct timespec *ts, const sigset_t *ss)
{
	int r = __real_epoll_pwait2(epfd, ev, n, ts, ss);
	ws_last_nready = r;
	if (r > 0) ws_wait_events += r;
	return r;
}
int __real_epoll_wait(int epfd, struct epoll_event *ev, int n, int timeout);
int __wrap_epoll_wait(int epfd, struct epoll_event *ev, int n, int timeout);
int __wrap_epoll_wait(int epfd, struct epoll_event *ev, int n, int timeout)
{
	int r = __real_epoll_wait(epfd, ev, n, timeout);
	ws_last_nready = r;
	if (r > 0) ws_wait_events += r;
	return r;
}

static int ws_server_input_pending(struct ws_sess *s)
{
	int n = 0;
	if (ioctl(s->sv[0], FIONREAD, &n) < 0) return 0;   /* EBADF: the server closed its end (no fd is opened meanwhile) */
	return n > 0;
}

/* run the loop until nothing more happens */
static int ws_pump(struct ws_sess *s)
{
	int idle = 0; long iters = 0;
	while (idle < 2) {
		long a0 = s->activity;
		ws_last_nready = -1; ws_wait_events = 0;
		event_base_loop(s->base, EVLOOP_NONBLOCK);
		if (ws_last_nready >= 0 && ws_wait_events == 0 && s->activity == a0 &&
		    event_base_get_num_events(s->base, EVENT_BASE_COUNT_ACTIVE) == 0) {
			/* the waits saw nothing at all: quiescent, unless a callback that needed no wait
			 * (deferred / already active) wrote something */
			if (ws_drain(s) == 0) break;
			continue;
		}
		if (ws_last_nready < 0) {
			/* the wait was not observed (other backend): fall back to two idle passes */
			size_t got = ws_drain(s);
			if (got || s->activity != a0 || (!s->rx_eof && ws_server_input_pending(s))) idle = 0; else idle++;
		} else
			ws_drain(s);
		if (++iters > 2000000) { mc_fail("harness:ws-no-quiescence", "%s: loop did not become quiescent", s->tag); return -1; }
	}
	return 0;
}

/* write n bytes as one segment (as far as the socket buffer allows in one go), then pump */
static void ws_send_segment(struct ws_sess *s, const unsigned char *p, size_t n)
{
	size_t off = 0;
	while (off < n && !s->tx_broken) {
		ssize_t w = send(s->sv[1], p + off, n - off, MSG_NOSIGNAL | MSG_DONTWAIT);
		if (w > 0) { off += (size_t)w; continue; }
		if (w < 0 && (errno == EAGAIN || errno == EWOULDBLOCK)) { if (ws_pump(s) < 0) return; continue; }
		s->tx_broken = 1;                           /* EPIPE / ECONNRESET: the server closed */
	}
	ws_pump(s);
}

static int ws_sess_open(struct ws_sess *s, const char *tag, size_t max_headers)
{
	struct sockaddr_un sa;
	memset(s, 0, sizeof *s);
	s->tag = tag;
	s->live0 = mcx_alloc_live();
	ws_fd_bitmap(s->fd0);
	if ((ws_sess_counter++ & 63) == 0 || mc_replaying()) { s->fdsig0 = mcx_fd_signature(); s->fdsig_taken = 1; }
	s->sv[0] = s->sv[1] = -1;
	if (socketpair(AF_UNIX, SOCK_STREAM | SOCK_NONBLOCK, 0, s->sv) < 0) { mc_fail("harness:ws-socketpair", "%s", strerror(errno)); return -1; }
	s->base = event_base_new();
	s->http = s->base ? evhttp_new(s->base) : NULL;
	if (!s->http) { mc_fail("harness:ws-setup", "event_base_new/evhttp_new failed"); return -1; }
	if (max_headers) evhttp_set_max_headers_size(s->http, (ev_ssize_t)max_headers);
	evhttp_set_gencb(s->http, ws_on_request, s);
	memset(&sa, 0, sizeof sa);
	sa.sun_family = AF_UNIX;
	evhttp_get_request(s->http, s->sv[0], (struct sockaddr *)&sa, sizeof(sa_family_t), NULL);
	return 0;
}

/* send the upgrade request with the given key bytes (keylen < 0: no key header) and pump.
 * Returns 1 if the server answered 101, 0 otherwise. */
static int ws_sess_handshake(struct ws_sess *s, const char *key, long keylen)
{
	static const char head[] = "GET /ws HTTP/1.1\r\nHost: h\r\nUpgrade: websocket\r\nConnection: Upgrade\r\nSec-WebSocket-Version: 13\r\n";
	size_t n = sizeof head - 1, i;
	unsigned char *req = malloc(n + 32 + (keylen > 0 ? (size_t)keylen : 0));
	if (!req) abort();
	memcpy(req, head, n);
	if (keylen >= 0) {
		memcpy(req + n, "Sec-WebSocket-Key: ", 19); n += 19;
		memcpy(req + n, key, (size_t)keylen); n += (size_t)keylen;
		memcpy(req + n, "\r\n", 2); n += 2;
	}
	memcpy(req + n, "\r\n", 2); n += 2;
	ws_send_segment(s, req, n);
	free(req);
	for (i = 0; i + 4 <= s->rxlen; i++)
		if (!memcmp(s->rx + i, "\r\n\r\n", 4)) { s->hs_len = i + 4; break; }
	return s->hs_len >= 12 && !memcmp(s->rx, "HTTP/1.1 101", 12);
}

/* value of a response header inside the handshake head; returns count of occurrences, first value in out */
static int ws_resp_header(struct ws_sess *s, const char *name, char *out, size_t outsz)
{
	size_t nl = strlen(name), pos = 0; int count = 0;
	while (pos < s->hs_len) {
		size_t e = pos;
		while (e + 1 < s->hs_len && !(s->rx[e] == '\r' && s->rx[e + 1] == '\n')) e++;
		if (e - pos > nl + 1 && !evutil_ascii_strncasecmp((const char *)s->rx + pos, name, nl) && s->rx[pos + nl] == ':') {
			size_t v = pos + nl + 1;
			while (v < e && s->rx[v] == ' ') v++;
			if (count++ == 0) {
				size_t l = e - v; if (l >= outsz) l = outsz - 1;
				memcpy(out, s->rx + v, l); out[l] = 0;
			}
		}
		pos = e + 2;
	}
	return count;
}

static void ws_sess_close(struct ws_sess *s)
{
	size_t i;
	s->in_teardown = 1;
	if (s->evws) evws_connection_free(s->evws);
	if (s->http) evhttp_free(s->http);
	if (s->base) event_base_free(s->base);
	if (s->sv[1] >= 0) close(s->sv[1]);
	if (mcx_alloc_live() != s->live0)
		mc_fail("leak:ws-session", "%s: %ld library allocations outlive the session", s->tag, mcx_alloc_live() - s->live0);
	{
		uint64_t now[2];
		ws_fd_bitmap(now);
		if (now[0] != s->fd0[0] || now[1] != s->fd0[1] || (s->fdsig_taken && mcx_fd_signature() != s->fdsig0)) {
			mc_fail("fdleak:ws-session", "%s: fd table differs from baseline after teardown (open fds %#llx, baseline %#llx)",
			    s->tag, (unsigned long long)now[0], (unsigned long long)s->fd0[0]);
			if (s->sv[0] >= 0) close(s->sv[0]);    /* keep later executions on the same fd numbers */
		}
	}
	for (i = 0; i < s->nmsgs; i++) free(s->msgs[i].data);
	free(s->msgs); free(s->key_seen);
	s->msgs = NULL; s->rx = NULL; s->key_seen = NULL;
}

#endif
