/* C43 — evrpc: every request made through an evrpc pool completes exactly once,
 * with the reply the server's handler produced (field by field after
 * marshalling) or with an error status; handlers run only for well-formed
 * requests of their own RPC.
 *
 * Tree mode, three scenario families selected by the first choice:
 *   S0 e2e   real evhttp server + evrpc_base and an evrpc_pool over loopback TCP
 *            in one event_base; request/reply catalogue, hooks (4 positions x
 *            {none, continue, terminate, pause+resume ...}), handler reply
 *            kinds and timings, second request (queued or issued from the
 *            completion callback), connection kill points, server gone.
 *   S1 rawc  the harness plays the HTTP client on a raw socket against the real
 *            server: well-formed body, every truncation, every single-byte flip
 *            (3 masks), the byte stream cut at every byte, wrong method/URI.
 *   S2 raws  the harness plays the HTTP server on a raw socket against the real
 *            pool: reply body mutated the same way, stream cut at every byte,
 *            silence (timeout), immediate close.
 * Time is virtual (env/vclock.c); ports come from the kernel and never reach
 * keys, hashes or observations.  The generated fixture code lives in
 * models/rpcgen (see regress_gen_shim.c); models/rpc_ref.h is the independent
 * reference codec that decides "well-formed" and "equal". */
#include "mcx.h"
#include "vclock.h"
#include "rpc_ref.h"

#include <sys/types.h>
#include <sys/socket.h>
#include <netinet/in.h>
#include <arpa/inet.h>
#include <errno.h>
#include <fcntl.h>
#include <poll.h>
#include <signal.h>
#include <stdio.h>
#include <stdlib.h>
#include <string.h>
#include <unistd.h>

#include <event2/event.h>
#include <event2/event_struct.h>
#include <event2/buffer.h>
#include <event2/bufferevent.h>
#include <event2/http.h>
#include <event2/http_struct.h>
#include <event2/rpc.h>
#include <event2/rpc_struct.h>
#include <event2/tag.h>
#include "rpcgen/regress.gen.h"
extern struct event_base *event_global_current_base_;   /* event.c: what event_init() sets */

/* ---------------------------------------------------------------- allocator
 * Counting allocator that also remembers which pointers it handed out, so that
 * rpcgen_free() (the generated code's free(), see regress_gen_shim.c) can tell
 * a library allocation from a plain malloc() one. */
#define PSET 16384
static void *pset[PSET];
static long live;
#define TOMB ((void *)1)
static unsigned ph(void *p) { return (unsigned)(((uintptr_t)p >> 4) * 2654435761u) % PSET; }
#include <execinfo.h>
#define BT 10
static void *pset_bt[PSET][BT]; static size_t pset_sz[PSET];     /* filled in --replay mode only: where a leaked block came from */
static size_t cur_alloc_size;
static void pset_add(void *p)
{
	unsigned i = ph(p);
	while (pset[i] && pset[i] != TOMB) i = (i + 1) % PSET;
	pset[i] = p;
	if (mc_replaying()) { memset(pset_bt[i], 0, sizeof pset_bt[i]); backtrace(pset_bt[i], BT); pset_sz[i] = cur_alloc_size; }
}
static void pset_report_leaks(void)
{
	if (!mc_replaying()) return;
	for (int i = 0; i < PSET; i++) if (pset[i] && pset[i] != TOMB) {
		int n = 0; while (n < BT && pset_bt[i][n]) n++;
		printf("LEAKED block of %zu bytes allocated at:\n", pset_sz[i]); fflush(stdout);
		backtrace_symbols_fd(pset_bt[i] + 2, n > 2 ? n - 2 : 0, 1);
	}
}
static int pset_del(void *p)
{
	unsigned i = ph(p), n = 0;
	while (pset[i] && n++ < PSET) { if (pset[i] == p) { pset[i] = TOMB; return 1; } i = (i + 1) % PSET; }
	return 0;
}
static void pset_compact(void)
{
	static void *keep[PSET]; int n = 0;
	for (int i = 0; i < PSET; i++) if (pset[i] && pset[i] != TOMB) keep[n++] = pset[i];
	memset(pset, 0, sizeof pset);
	for (int i = 0; i < n; i++) pset_add(keep[i]);
}
static void *m_malloc(size_t n) { cur_alloc_size = n; void *p = malloc(n ? n : 1); if (p) { live++; pset_add(p); } return p; }
static void m_free(void *p) { if (!p) return; if (pset_del(p)) live--; free(p); }
static void *m_realloc(void *p, size_t n)
{
	if (!p) return m_malloc(n);
	if (!n) { m_free(p); return NULL; }
	void *q = realloc(p, n);
	if (q && q != p) { pset_del(p); cur_alloc_size = n; pset_add(q); }
	return q;
}
void rpcgen_free(void *p) { if (p && pset_del(p)) live--; free(p); }

/* ---------------------------------------------------------------- catalogue */
#define N_MSG 4
#define N_KILL 3              /* complete replies; index N_KILL = incomplete reply */
static struct ref_msg cat_msg[N_MSG];
static struct ref_kill cat_kill[N_KILL + 1];

static void set_kill(struct ref_kill *k, const char *w, const char *a, int n, const uint32_t *how)
{
	memset(k, 0, sizeof *k);
	if (w) { k->weapon_set = 1; strcpy(k->weapon, w); }
	if (a) { k->action_set = 1; strcpy(k->action, a); }
	k->n_how = n; for (int i = 0; i < n; i++) k->how[i] = how[i];
}
static void catalogue_init(void)
{
	static const uint32_t h012[] = { 0, 1, 2 }, hedge[] = { 0, 15, 16, 0xffffffffu }, hbig[] = { 0xffffffffu, 0 };
	static char longw[260];
	memset(cat_msg, 0, sizeof cat_msg);
	/* m0: the two required members only */
	cat_msg[0].from_set = cat_msg[0].to_set = 1; strcpy(cat_msg[0].from, "niels"); strcpy(cat_msg[0].to, "tester");
	/* m1: optional struct with an int array */
	cat_msg[1] = cat_msg[0]; cat_msg[1].attack_set = 1; set_kill(&cat_msg[1].attack, "feather", "tickle", 3, h012);
	/* m2: everything: two runs, bytes with a NUL, 64-bit number, arrays */
	cat_msg[2] = cat_msg[1]; strcpy(cat_msg[2].to, "phoenix");
	cat_msg[2].n_run = 2;
	struct ref_run *r = &cat_msg[2].run[0];
	r->how_set = 1; strcpy(r->how, "very fast but with some data in it");
	r->some_set = 1; memcpy(r->some, "AB\0CD", 5); r->some_len = 5;
	r->fixed_set = 1; for (int i = 0; i < 24; i++) r->fixed[i] = (unsigned char)(0xf0 + i);
	r->n_notes = 2; strcpy(r->notes[0], "this"); strcpy(r->notes[1], "pretty");
	r->large_set = 1; r->large = 0xdead0a0bcafebeefULL;
	r->n_other = 2; r->other[0] = 0xdead0a0b; r->other[1] = 0xbeefcafe;
	r = &cat_msg[2].run[1]; r->how_set = 1; r->how[0] = 0; r->fixed_set = 1; memset(r->fixed, 0, 24);
	/* m3: empty strings, extreme ints */
	cat_msg[3].from_set = cat_msg[3].to_set = 1; cat_msg[3].attack_set = 1; set_kill(&cat_msg[3].attack, "", "", 2, hbig);

	set_kill(&cat_kill[0], "dagger", "wave around like an idiot", 0, NULL);
	set_kill(&cat_kill[1], "", "", 4, hedge);
	memset(longw, 'w', 259); longw[259] = 0;                    /* length needs three nibbles */
	set_kill(&cat_kill[2], longw, "x", 1, h012 + 1);
	set_kill(&cat_kill[N_KILL], "only-weapon", NULL, 0, NULL);   /* incomplete: required 'action' missing */
}

static void fill_kill(struct kill *k, const struct ref_kill *r)
{
	if (r->weapon_set) EVTAG_ASSIGN(k, weapon, r->weapon);
	if (r->action_set) EVTAG_ASSIGN(k, action, r->action);
	for (int i = 0; i < r->n_how; i++) EVTAG_ARRAY_ADD_VALUE(k, how_often, r->how[i]);
}
static void fill_msg(struct msg *m, const struct ref_msg *r)
{
	if (r->from_set) EVTAG_ASSIGN(m, from_name, r->from);
	if (r->to_set) EVTAG_ASSIGN(m, to_name, r->to);
	if (r->attack_set) { struct kill *k = NULL; EVTAG_GET(m, attack, &k); fill_kill(k, &r->attack); }
	for (int i = 0; i < r->n_run; i++) {
		const struct ref_run *u = &r->run[i];
		struct run *x = EVTAG_ARRAY_ADD(m, run);
		if (u->how_set) EVTAG_ASSIGN(x, how, u->how);
		if (u->some_set) EVTAG_ASSIGN_WITH_LEN(x, some_bytes, u->some, u->some_len);
		if (u->fixed_set) EVTAG_ASSIGN(x, fixed_bytes, u->fixed);
		for (int j = 0; j < u->n_notes; j++) EVTAG_ARRAY_ADD_VALUE(x, notes, u->notes[j]);
		if (u->large_set) EVTAG_ASSIGN(x, large_number, u->large);
		for (int j = 0; j < u->n_other; j++) EVTAG_ARRAY_ADD_VALUE(x, other_numbers, u->other[j]);
	}
}
static void cpstr(char *dst, size_t cap, const char *s) { memset(dst, 0, cap); if (s) strncpy(dst, s, cap - 1); }
static void read_kill(const struct kill *k, struct ref_kill *r)
{
	memset(r, 0, sizeof *r);
	r->weapon_set = k->weapon_set; r->action_set = k->action_set;
	if (k->weapon_set) cpstr(r->weapon, sizeof r->weapon, k->weapon_data);
	if (k->action_set) cpstr(r->action, sizeof r->action, k->action_data);
	r->n_how = k->how_often_length > REF_ARR ? REF_ARR : k->how_often_length;
	for (int i = 0; i < r->n_how; i++) r->how[i] = k->how_often_data[i];
}
static void read_msg(const struct msg *m, struct ref_msg *r)
{
	memset(r, 0, sizeof *r);
	r->from_set = m->from_name_set; r->to_set = m->to_name_set; r->attack_set = m->attack_set;
	if (m->from_name_set) cpstr(r->from, sizeof r->from, m->from_name_data);
	if (m->to_name_set) cpstr(r->to, sizeof r->to, m->to_name_data);
	if (m->attack_set) read_kill(m->attack_data, &r->attack);
	r->n_run = m->run_length > 3 ? 3 : m->run_length;
	for (int i = 0; i < r->n_run; i++) {
		const struct run *x = m->run_data[i]; struct ref_run *u = &r->run[i];
		u->how_set = x->how_set; u->some_set = x->some_bytes_set; u->fixed_set = x->fixed_bytes_set; u->large_set = x->large_number_set;
		if (x->how_set) cpstr(u->how, sizeof u->how, x->how_data);
		if (x->some_bytes_set) { u->some_len = x->some_bytes_length > sizeof u->some ? sizeof u->some : x->some_bytes_length; memcpy(u->some, x->some_bytes_data, u->some_len); }
		if (x->fixed_bytes_set) memcpy(u->fixed, x->fixed_bytes_data, 24);
		if (x->large_number_set) u->large = x->large_number_data;
		u->n_notes = x->notes_length > REF_ARR ? REF_ARR : x->notes_length;
		for (int j = 0; j < u->n_notes; j++) cpstr(u->notes[j], sizeof u->notes[j], x->notes_data[j]);
		u->n_other = x->other_numbers_length > REF_ARR ? REF_ARR : x->other_numbers_length;
		for (int j = 0; j < u->n_other; j++) u->other[j] = x->other_numbers_data[j];
	}
}

/* ---------------------------------------------------------------- RPC glue */
EVRPC_HEADER(Message, msg, kill)
EVRPC_HEADER(NeverReply, msg, kill)
EVRPC_HEADER(Bogus, msg, kill)
EVRPC_GENERATE(Message, msg, kill)
EVRPC_GENERATE(NeverReply, msg, kill)
EVRPC_GENERATE(Bogus, msg, kill)
enum { RPC_MESSAGE, RPC_NEVERREPLY, RPC_BOGUS, N_RPCKIND };
static const char *const rpc_name[N_RPCKIND] = { "Message", "NeverReply", "Bogus" };

#define SEC 1000000LL
#define POOL_TIMEOUT_S 1
#define MAXREQ 2
#define MAXDEF 8

/* ---- per-execution state ---- */
static struct event_base *base;
static struct evhttp *http;
static struct evhttp_bound_socket *bound;
static struct evrpc_base *rpcbase;
static struct evrpc_pool *pool;
static int port, connect_port, dead_fd = -1;
static int idle_hit, nready_sum, activity;

struct creq {
	int used, kind, msg_idx, issued;
	struct msg *msg; struct kill *reply;
	int cb_count, status;
	int handler_runs, rk /* reply kind chosen by the handler, -1 none */, when, replied;
	int may_fail;
};
static struct creq creq[MAXREQ];
static int handler_calls[2];
static struct ref_msg raw_expect; static int raw_expect_valid, raw_kind;     /* S1: what the handler must see */
static int s1_rk;

/* deferred handler replies and hook resumes run off harness timers in the same base */
struct deferred { int used, what /* 0 reply, 1 resume */; struct event ev; void *rpc; struct creq *cr; int rk; void *vbase, *ctx; int res; };
static struct deferred deferred[MAXDEF];
static int n_deferred_pending;
static void *saved_rpc[MAXREQ]; static struct creq *saved_cr[MAXREQ]; static int n_saved;

/* hooks */
enum { HB_NONE, HB_CONTINUE, HB_TERMINATE, HB_PAUSE_CONT, HB_PAUSE_TERM, HB_PAUSE_CONT_LATE, HB_PAUSE_TERM_LATE, /* -P hb=8: */ HB_PAUSE_CONT_MID, N_HB };
static const char *const hb_name[N_HB] = { "-", "cont", "TERM", "pause>cont", "pause>TERM", "pause2s>cont", "pause2s>TERM", "pause0.5s>cont" };
enum { H_CO, H_CI, H_SI, H_SO, N_HOOK };
static const char *const hook_name[N_HOOK] = { "client-out", "client-in", "server-in", "server-out" };
static int hook_beh[N_HOOK], hook_calls[N_HOOK];
static int any_terminate, kill_at, server_gone, chain_second;
static int accepted_fd[8], n_accepted;

/* ---- accept4 wrapper: remembers the server side fds (kill points) ---- */
int __real_accept4(int, struct sockaddr *, socklen_t *, int);
int __wrap_accept4(int fd, struct sockaddr *a, socklen_t *l, int flags)
{
	int r = __real_accept4(fd, a, l, flags);
	if (r >= 0 && n_accepted < 8) accepted_fd[n_accepted++] = r;
	return r;
}

static void on_postwait(int n) { if (n > 0) nready_sum += n; }
static void on_idle(void) { idle_hit = 1; if (base) event_base_loopbreak(base); }

static struct deferred *deferred_new(void)
{
	for (int i = 0; i < MAXDEF; i++) if (!deferred[i].used) { memset(&deferred[i], 0, sizeof deferred[i]); deferred[i].used = 1; n_deferred_pending++; return &deferred[i]; }
	mc_fail("harness:too-many-deferred", "x");
	return NULL;
}

/* ---- server handlers ---- */
static void produce_reply(void *rpcv, struct creq *cr, int rk)
{
	EVRPC_STRUCT(Message) *rpc = rpcv;         /* Message and NeverReply have the same layout */
	fill_kill(rpc->reply, &cat_kill[rk]);
	if (cr) { cr->rk = rk; cr->replied = rk < N_KILL; }
	activity++;
	EVRPC_REQUEST_DONE(rpc);
}
static void deferred_cb(evutil_socket_t fd, short what, void *arg)
{
	struct deferred *d = arg;
	(void)fd; (void)what;
	activity++;
	n_deferred_pending--;
	if (d->what == 0) {
		mc_observe("late-reply ");
		produce_reply(d->rpc, d->cr, d->rk);
	} else {
		mc_observe("resume(%s) ", d->res == EVRPC_CONTINUE ? "cont" : "TERM");
		if (evrpc_resume_request(d->vbase, d->ctx, d->res) != 0) mc_fail("C43/resume-unknown-request", "evrpc_resume_request did not find the paused request");
	}
	d->used = 0;
}

static void handler(int which, void *rpcv)
{
	EVRPC_STRUCT(Message) *rpc = rpcv;
	struct ref_msg got;
	struct creq *cr = NULL;
	activity++;
	handler_calls[which]++;
	MC_COUNT("handler_invocations");
	read_msg(rpc->request, &got);
	if (raw_expect_valid >= 0) {
		/* S1: the raw client sent a body the reference decoder has judged */
		if (raw_kind != which) mc_fail("C43/handler-of-other-rpc-invoked", "request for %s reached the handler of %s", rpc_name[raw_kind], rpc_name[which]);
		else if (!raw_expect_valid) mc_fail("C43/handler-invoked-for-malformed-request", "handler of %s ran for a request the reference decoder rejects", rpc_name[which]);
		else if (!ref_msg_eq(&got, &raw_expect)) mc_fail("C43/handler-request-differs", "handler received a request that differs from the reference decoding of the body");
		else MC_COUNT("oracle_handler_request_checked");
		s1_rk = mc_choose(2, 0, "reply-kind");
		mc_observe("handler(%s)->k%d ", rpc_name[which], s1_rk);
		produce_reply(rpc, NULL, s1_rk);
		return;
	}
	for (int i = 0; i < MAXREQ; i++)
		if (creq[i].used && creq[i].issued && creq[i].kind == which && !creq[i].handler_runs && ref_msg_eq(&got, &cat_msg[creq[i].msg_idx])) { cr = &creq[i]; break; }
	if (!cr) {
		int same_kind = 0;
		for (int i = 0; i < MAXREQ; i++) if (creq[i].used && creq[i].issued && creq[i].kind == which && !creq[i].handler_runs) same_kind = 1;
		if (same_kind) mc_fail("C43/handler-request-differs", "handler of %s received a request that equals none of the outstanding requests", rpc_name[which]);
		else mc_fail("C43/handler-of-other-rpc-invoked", "handler of %s ran although no request for it is outstanding", rpc_name[which]);
		fill_kill(rpc->reply, &cat_kill[0]);
		EVRPC_REQUEST_DONE(rpc);
		return;
	}
	MC_COUNT("oracle_handler_request_checked");
	cr->handler_runs++;
	int rk = mc_choose(mc_param("kills", N_KILL) + 1, 0, "reply-kind");
	if (rk == mc_param("kills", N_KILL)) rk = N_KILL;
	int when = mc_choose(4, 1, "reply-when");      /* now, +0.5 s, +2 s (after the pool timeout), never */
	cr->when = when;
	mc_observe("handler(%s,m%d)->k%d%s ", rpc_name[which], cr->msg_idx, rk, when == 0 ? "" : when == 1 ? "@0.5s" : when == 2 ? "@2s" : "@never");
	if (when == 0) produce_reply(rpc, cr, rk);
	else if (when == 3) { cr->rk = rk; saved_rpc[n_saved] = rpc; saved_cr[n_saved++] = cr; }
	else {
		struct deferred *d = deferred_new();
		struct timeval tv = { when == 1 ? 0 : 2, when == 1 ? 500000 : 0 };
		if (!d) return;
		d->what = 0; d->rpc = rpc; d->cr = cr; d->rk = rk;
		evtimer_assign(&d->ev, base, deferred_cb, d);
		evtimer_add(&d->ev, &tv);
	}
}
static void MessageCb(EVRPC_STRUCT(Message) *rpc, void *arg) { (void)arg; handler(RPC_MESSAGE, rpc); }
static void NeverReplyCb(EVRPC_STRUCT(NeverReply) *rpc, void *arg) { (void)arg; handler(RPC_NEVERREPLY, rpc); }

/* ---- hooks ---- */
static int hook_fn(void *ctx, struct evhttp_request *req, struct evbuffer *evbuf, void *arg)
{
	int pos = (int)(intptr_t)arg, b = hook_beh[pos];
	(void)req; (void)evbuf;
	activity++;
	hook_calls[pos]++;
	MC_COUNT("hook_invocations");
	mc_observe("hook(%s:%s) ", hook_name[pos], hb_name[b]);
	if (b == HB_CONTINUE) return EVRPC_CONTINUE;
	if (b == HB_TERMINATE) return EVRPC_TERMINATE;
	struct deferred *d = deferred_new();
	if (!d) return EVRPC_CONTINUE;
	int late = b == HB_PAUSE_CONT_LATE || b == HB_PAUSE_TERM_LATE;
	struct timeval tv = { late ? 2 : 0, b == HB_PAUSE_CONT_MID ? 500000 : 0 };
	d->what = 1; d->vbase = pos <= H_CI ? (void *)pool : (void *)rpcbase; d->ctx = ctx;
	d->res = (b == HB_PAUSE_CONT || b == HB_PAUSE_CONT_LATE || b == HB_PAUSE_CONT_MID) ? EVRPC_CONTINUE : EVRPC_TERMINATE;
	evtimer_assign(&d->ev, base, deferred_cb, d);
	evtimer_add(&d->ev, &tv);
	MC_COUNT("hook_pauses");
	return EVRPC_PAUSE;
}

/* ---- client side ---- */
static void client_cb(struct evrpc_status *status, struct msg *m, struct kill *k, void *arg);
static void issue(struct creq *cr)
{
	cr->issued = 1;
	mc_observe("call(%s,m%d) ", rpc_name[cr->kind], cr->msg_idx);
	MC_COUNT("requests_issued");
	switch (cr->kind) {
	case RPC_MESSAGE: EVRPC_MAKE_REQUEST(Message, pool, cr->msg, cr->reply, client_cb, cr); break;
	case RPC_NEVERREPLY: EVRPC_MAKE_REQUEST(NeverReply, pool, cr->msg, cr->reply, client_cb, cr); break;
	default: EVRPC_MAKE_REQUEST(Bogus, pool, cr->msg, cr->reply, client_cb, cr); break;
	}
}
static struct ref_kill s2_expect; static int s2_expect_ok;   /* S2: what the fake server's body decodes to */
static int scenario;

static void client_cb(struct evrpc_status *status, struct msg *m, struct kill *k, void *arg)
{
	struct creq *cr = arg;
	activity++;
	MC_COUNT("client_callbacks");
	if (++cr->cb_count > 1) { mc_fail("C43/completion-callback-twice", "completion callback of request %d invoked %d times", (int)(cr - creq), cr->cb_count); return; }
	cr->status = status->error;
	mc_observe("done(r%d:%d) ", (int)(cr - creq), status->error);
	if (m != cr->msg || k != cr->reply) mc_fail("C43/completion-callback-wrong-objects", "callback got other request/reply objects than the ones passed to the call");
	if (status->error == EVRPC_STATUS_ERR_NONE) {
		struct ref_kill got;
		read_kill(k, &got);
		if (scenario == 2) {
			if (!s2_expect_ok) mc_fail("C43/success-with-malformed-reply", "status NONE although the reply body is rejected by the reference decoder (or the stream was cut)");
			else if (!ref_kill_eq(&got, &s2_expect)) mc_fail("C43/reply-differs", "reply object differs from the reference decoding of the body sent by the server");
			else MC_COUNT("oracle_reply_equal_checked");
		} else if (!cr->handler_runs || !cr->replied) mc_fail("C43/success-without-reply", "status NONE although the server's handler %s", cr->handler_runs ? "did not produce a complete reply" : "never ran for this request");
		else if (!ref_kill_eq(&got, &cat_kill[cr->rk])) mc_fail("C43/reply-differs", "reply object differs from what the handler produced (k%d)", cr->rk);
		else MC_COUNT("oracle_reply_equal_checked");
		if (any_terminate) mc_fail("C43/success-despite-hook-abort", "status NONE although a hook returned/resumed with EVRPC_TERMINATE");
	} else {
		MC_COUNT("completions_with_error");
		if (kill_complete(k) == 0 && scenario != 2) MC_COUNT("error_with_complete_reply_object");
	}
	if (chain_second && cr == &creq[0] && creq[1].used && !creq[1].issued) issue(&creq[1]);
}

/* ---- loop driver ---- */
static int all_done(void)
{
	for (int i = 0; i < MAXREQ; i++) if (creq[i].used && (!creq[i].issued || !creq[i].cb_count)) return 0;
	return n_deferred_pending == 0;
}
static void loop_nonblock(void) { nready_sum = 0; event_base_loop(base, EVLOOP_NONBLOCK); if (nready_sum) activity++; }

/* evrpc_pool_add_connection() hands the pool's base to the connection and asserts that the
 * connection has none yet, so (as in test/regress_rpc.c) the connection is created without a
 * base; the per-execution base is the "current" base while that happens. */
static struct evhttp_connection *new_pool_connection(void)
{
	return evhttp_connection_base_new(NULL, NULL, "127.0.0.1", (ev_uint16_t)(connect_port > 0 ? connect_port : port));
}
static struct event_base *new_base(void)
{
	struct event_base *b = event_base_new();
	event_global_current_base_ = b;
	return b;
}

/* ---- setup / teardown shared by the scenarios ---- */
static long live0; static uint64_t fds0;
#define MAXFD 64
static uint64_t fd_table_signature(void)
{
	uint64_t h = 0x66647369;
	for (int fd = 0; fd < MAXFD; fd++) if (fcntl(fd, F_GETFD) != -1 || errno != EBADF) h = mc_hash_u64(h, fd);
	return h;
}
static int local_port(int fd)
{
	struct sockaddr_in sin; socklen_t l = sizeof sin;
	if (getsockname(fd, (struct sockaddr *)&sin, &l) < 0) return -1;
	return ntohs(sin.sin_port);
}
static void reset_state(void)
{
	vclock_reset(); vclock_idle_hook = on_idle; vclock_postwait_hook = on_postwait;
	memset(creq, 0, sizeof creq); memset(deferred, 0, sizeof deferred); memset(hook_beh, 0, sizeof hook_beh); memset(hook_calls, 0, sizeof hook_calls);
	handler_calls[0] = handler_calls[1] = 0;
	n_deferred_pending = n_saved = n_accepted = 0; any_terminate = kill_at = server_gone = chain_second = 0;
	raw_expect_valid = -1; s2_expect_ok = 0; idle_hit = 0; activity = 0;
	base = NULL; http = NULL; bound = NULL; rpcbase = NULL; pool = NULL; port = -1; connect_port = -1; dead_fd = -1;
	pset_compact();
	live0 = live; fds0 = fd_table_signature();
}
/* bind to port 0; ephemeral-port exhaustion is an environment condition: wait for it to drain */
static int bind_any_port(int fd, struct sockaddr_in *sin)
{
	int rc = -1;
	for (int attempt = 0; attempt < 3000; attempt++) {
		rc = bind(fd, (struct sockaddr *)sin, sizeof *sin);
		if (rc == 0 || (errno != EADDRINUSE && errno != EADDRNOTAVAIL)) break;
		MC_COUNT("env_bind_retries");
		usleep(20000);
	}
	return rc;
}
static int server_setup(void)
{
	http = evhttp_new(base);
	if (!http) return -1;
	/* Port 0 = "any free port".  The only way this can fail is the machine running out of ephemeral
	 * ports (TIME_WAIT leftovers of the thousands of earlier executions, here or in other checks): an
	 * environment condition, not a verdict -- wait for ports to drain instead of reporting. */
	for (int attempt = 0; attempt < 3000; attempt++) {
		bound = evhttp_bind_socket_with_handle(http, "127.0.0.1", 0);
		if (bound || (errno != EADDRINUSE && errno != EADDRNOTAVAIL)) break;
		MC_COUNT("env_bind_retries");
		usleep(20000);
	}
	if (!bound) return -1;
	port = local_port(evhttp_bound_socket_get_fd(bound));
	rpcbase = evrpc_init(http);
	if (!rpcbase || port <= 0) return -1;
	EVRPC_REGISTER(rpcbase, Message, msg, kill, MessageCb, NULL);
	EVRPC_REGISTER(rpcbase, NeverReply, msg, kill, NeverReplyCb, NULL);
	return 0;
}
static void release_saved(void)
{
	/* handlers that never replied still own their rpc state: complete them now (the peer is long gone) */
	for (int i = 0; i < n_saved; i++) {
		EVRPC_STRUCT(Message) *rpc = saved_rpc[i];
		fill_kill(rpc->reply, &cat_kill[0]);
		EVRPC_REQUEST_DONE(rpc);
	}
	n_saved = 0;
}
static void teardown(void)
{
	release_saved();
	if (base) for (int i = 0; i < 3; i++) loop_nonblock();
	if (pool) evrpc_pool_free(pool);
	if (rpcbase) {
		if (EVRPC_UNREGISTER(rpcbase, Message) != 0 || EVRPC_UNREGISTER(rpcbase, NeverReply) != 0) mc_fail("harness:unregister", "x");
		evrpc_free(rpcbase);
	}
	if (http) evhttp_free(http);
	if (dead_fd >= 0) { close(dead_fd); dead_fd = -1; }
	for (int i = 0; i < MAXREQ; i++) if (creq[i].used) { msg_free(creq[i].msg); kill_free(creq[i].reply); }
	if (base) event_base_free(base);
	base = NULL; event_global_current_base_ = NULL;
	MC_COUNT("oracle_baselines_checked");
	if (live != live0) pset_report_leaks();
	if (live != live0) {
		char key[96] = "C43/memory-leak";
		if (scenario == 0 && any_terminate) {
			/* attribute to the first hook position that aborts */
			static const char *const pos[N_HOOK] = { "client-output", "client-input", "server-input", "server-output" };
			for (int i = 0; i < N_HOOK; i++) if (hook_beh[i] == HB_TERMINATE || hook_beh[i] == HB_PAUSE_TERM || hook_beh[i] == HB_PAUSE_TERM_LATE) { snprintf(key, sizeof key, "C43/memory-leak/%s-hook-terminate", pos[i]); break; }
		} else if (scenario == 1 && raw_expect_valid == 0 && ref_partial_run_strings > 0 && live - live0 == ref_partial_run_strings)
			/* generated msg_unmarshal(): a `run` array element whose unmarshalling fails is neither counted in run_length nor freed */
			snprintf(key, sizeof key, "C43/memory-leak/generated-unmarshal-drops-failed-array-element");
		mc_fail(key, "%ld library allocations still live after pool, rpc base, http server and event base were freed", live - live0);
	}
	if (fd_table_signature() != fds0) mc_fail("C43/fd-leak", "fd table differs from the baseline");
}
static void final_checks(void)
{
	for (int i = 0; i < MAXREQ; i++) {
		struct creq *cr = &creq[i];
		if (!cr->used) continue;
		MC_COUNT("oracle_exactly_once_checked");
		if (!cr->issued) { mc_fail("harness:request-not-issued", "r%d", i); continue; }
		if (cr->cb_count == 0) mc_fail("C43/request-never-completed", "request %d (%s) got no completion callback although every timeout has expired", i, rpc_name[cr->kind]);
		if (cr->handler_runs > 1) mc_fail("C43/handler-ran-twice", "handler ran %d times for one request", cr->handler_runs);
		if (cr->cb_count == 1 && cr->status != EVRPC_STATUS_ERR_NONE && !cr->may_fail) {
			/* nothing that the property lists as a reason for an error status happened */
			/* time the server side holds the request: 0.5 s pauses in its hooks plus the handler's own delay */
			int held_ms = 500 * (hook_beh[H_SI] == HB_PAUSE_CONT_MID) + 500 * (hook_beh[H_SO] == HB_PAUSE_CONT_MID) + (cr->when == 1 ? 500 : 0);
			int handler_caused = cr->handler_runs && (!cr->replied || cr->when >= 2 || held_ms >= 1000 * POOL_TIMEOUT_S);   /* incomplete reply, or reply at/after the timeout / never */
			if (!handler_caused) mc_fail("C43/error-without-cause", "request %d completed with error status %d although no connection failure, timeout, hook abort or bad payload occurred", i, cr->status);
		} else if (cr->cb_count == 1 && cr->status == EVRPC_STATUS_ERR_NONE) MC_COUNT("completions_with_reply");
	}
}

/* run until every request has completed and every harness timer has fired */
static void drive(int cap)
{
	for (int it = 1; it <= cap; it++) {
		activity = 0;
		loop_nonblock();
		if (kill_at == it && n_accepted > 0) {
			int fd = accepted_fd[n_accepted - 1];
			if (shutdown(fd, SHUT_RDWR) == 0) { mc_observe("KILL@%d ", it); MC_COUNT("kills_applied"); activity++; }
			else mc_observe("kill@%d:gone ", it);
		}
		if (all_done() && !activity) return;
		if (!activity) {
			idle_hit = 0;
			event_base_loop(base, EVLOOP_ONCE);      /* nothing ready: virtual time jumps to the next timer */
			if (idle_hit && !activity) {
				if (!all_done()) mc_observe("stuck ");
				return;
			}
		}
	}
	mc_fail("harness:drive-cap", "no end after %d iterations", cap);
}

/* ================================================================ S0: end to end */
static void scenario_e2e(void)
{
	int nmsg = mc_param("msgs", N_MSG);
	base = new_base();
	if (!base || server_setup() < 0) { mc_fail("harness:setup", "server setup failed: %s", strerror(errno)); teardown(); return; }
	pool = evrpc_pool_new(base);
	int varcost = mc_param("free", 0) ? 0 : 1;       /* -P free=1: request content and pool size are free choices (full cross product) */
	int nconn = 1 + mc_choose(2, varcost, "connections");
	/* hooks: each configured position is one deviation */
	for (int i = 0; i < N_HOOK; i++) {
		hook_beh[i] = mc_choose(mc_param("hb", 7) >= N_HB ? N_HB : 7, 1, hook_name[i]);
		if (hook_beh[i] == HB_TERMINATE || hook_beh[i] == HB_PAUSE_TERM || hook_beh[i] == HB_PAUSE_TERM_LATE) any_terminate = 1;
		if (hook_beh[i]) {
			void *h = evrpc_add_hook(i <= H_CI ? (void *)pool : (void *)rpcbase, (i == H_CO || i == H_SO) ? EVRPC_OUTPUT : EVRPC_INPUT, hook_fn, (void *)(intptr_t)i);
			if (!h) mc_fail("harness:add-hook", "x");
		}
	}
	/* "server gone": the pool is pointed at a port on which nothing listens.  The port belongs to a
	 * bound, non-listening socket of this execution, so that no other process (another worker's
	 * server!) can be handed the same number while the request is in flight. */
	server_gone = mc_choose(2, 1, "server-gone");
	if (server_gone) {
		struct sockaddr_in sin; memset(&sin, 0, sizeof sin); sin.sin_family = AF_INET; sin.sin_addr.s_addr = htonl(INADDR_LOOPBACK);
		dead_fd = socket(AF_INET, SOCK_STREAM, 0);
		if (dead_fd < 0 || bind_any_port(dead_fd, &sin) < 0) mc_fail("harness:dead-port", "%s", strerror(errno));
		connect_port = local_port(dead_fd);
	}
	for (int i = 0; i < nconn; i++) {
		struct evhttp_connection *c = new_pool_connection();
		if (!c) { mc_fail("harness:connection", "x"); break; }
		evrpc_pool_add_connection(pool, c);
	}
	evrpc_pool_set_timeout(pool, POOL_TIMEOUT_S);
	/* requests */
	int second = mc_choose(3, 1, "second-request");      /* 0 none, 1 queued at once, 2 issued from the first completion callback */
	chain_second = second == 2;
	int nreq = second ? 2 : 1;
	for (int i = 0; i < nreq; i++) {
		struct creq *cr = &creq[i];
		cr->used = 1; cr->rk = -1;
		cr->kind = mc_choose(N_RPCKIND, 0, "rpc");
		cr->msg_idx = mc_choose(nmsg, varcost, "msg");
		cr->msg = msg_new(); cr->reply = kill_new();
		fill_msg(cr->msg, &cat_msg[cr->msg_idx]);
	}
	kill_at = mc_choose(7, 1, "kill-at");
	mc_observe("e2e conn=%d hooks=[%s,%s,%s,%s]%s%s ", nconn, hb_name[hook_beh[0]], hb_name[hook_beh[1]], hb_name[hook_beh[2]], hb_name[hook_beh[3]],
	    server_gone ? " server-gone" : "", second == 1 ? " +queued" : second == 2 ? " +chained" : "");
	/* reasons the property accepts for an error status */
	for (int i = 0; i < nreq; i++) {
		struct creq *cr = &creq[i];
		if (any_terminate || server_gone || kill_at || cr->kind == RPC_BOGUS) cr->may_fail = 1;
		/* While a client-output hook has a request paused, the request is not yet on its connection, so
		 * evrpc_pool_find_connection() hands the same "idle" connection to the next request as well: both end
		 * up queued on one connection with their pool timeouts running from the resume.  The one behind can
		 * then time out because of the other's delay — a timeout in the property's sense. */
		if (second == 1 && hook_beh[H_CO] >= HB_PAUSE_CONT) cr->may_fail = 1;
		if (hook_beh[H_SI] == HB_PAUSE_CONT_LATE || hook_beh[H_SI] == HB_PAUSE_TERM_LATE || hook_beh[H_SO] == HB_PAUSE_CONT_LATE || hook_beh[H_SO] == HB_PAUSE_TERM_LATE) cr->may_fail = 1;   /* server holds the request past the pool timeout */
	}
	issue(&creq[0]);
	if (second == 1) issue(&creq[1]);
	drive(200);
	/* handlers that never replied: complete them now (as test/regress_rpc.c does), and let hooks they run into finish */
	release_saved();
	drive(100);
	/* nothing may fire later: stale timers, second completions */
	vclock_advance(3 * SEC); for (int i = 0; i < 3; i++) loop_nonblock();
	final_checks();
	for (int k = 0; k < 2; k++) {
		int want = 0;
		for (int i = 0; i < nreq; i++) if (creq[i].kind == k) want++;
		if (handler_calls[k] > want) mc_fail("C43/handler-of-other-rpc-invoked", "handler of %s ran %d times for %d requests of that RPC", rpc_name[k], handler_calls[k], want);
	}
	teardown();
}

/* ================================================================ raw socket helpers */
static unsigned char wire[4096]; static size_t wire_len;
static unsigned char body[1024]; static size_t body_len;

/* mutation of a captured well-formed body: returns the label, edits body/body_len */
enum { MUT_NONE, MUT_TRUNC, MUT_FLIP01, MUT_FLIP80, MUT_FLIPFF, MUT_CUT_STREAM, N_MUT };
static int mutate_body(int mut, int *stream_cut_wanted)
{
	*stream_cut_wanted = 0;
	switch (mut) {
	case MUT_NONE: mc_observe("intact "); return 0;
	case MUT_TRUNC: { int k = mc_choose((int)body_len, 0, "trunc-at"); body_len = k; mc_observe("trunc@%d ", k); return 1; }
	case MUT_FLIP01: case MUT_FLIP80: case MUT_FLIPFF: {
		int i = mc_choose((int)body_len, 0, "flip-at");
		body[i] ^= mut == MUT_FLIP01 ? 0x01 : mut == MUT_FLIP80 ? 0x80 : 0xff;
		mc_observe("flip%s@%d ", mut == MUT_FLIP01 ? "01" : mut == MUT_FLIP80 ? "80" : "ff", i);
		return 1; }
	case MUT_CUT_STREAM: *stream_cut_wanted = 1; return 0;
	}
	return 0;
}
static int marshal_catalogue_msg(int idx)
{
	struct msg *m = msg_new(); struct evbuffer *b = evbuffer_new(); unsigned char refenc[1024];
	fill_msg(m, &cat_msg[idx]);
	msg_marshal(b, m);
	body_len = evbuffer_get_length(b);
	if (body_len > sizeof body) { mc_fail("harness:body-too-long", "x"); body_len = 0; }
	evbuffer_copyout(b, body, body_len);
	evbuffer_free(b); msg_free(m);
	size_t n = ref_encode_msg(&cat_msg[idx], refenc, sizeof refenc);
	MC_COUNT("oracle_marshal_vs_reference_checked");
	if (n != body_len || memcmp(refenc, body, n)) { mc_fail("C43/marshal-differs-from-reference", "msg_marshal(m%d) produced %d bytes that differ from the reference encoding (%d bytes)", idx, (int)body_len, (int)n); return -1; }
	return 0;
}
static int marshal_catalogue_kill(int idx)
{
	struct kill *k = kill_new(); struct evbuffer *b = evbuffer_new(); unsigned char refenc[1024];
	fill_kill(k, &cat_kill[idx]);
	kill_marshal(b, k);
	body_len = evbuffer_get_length(b);
	evbuffer_copyout(b, body, body_len);
	evbuffer_free(b); kill_free(k);
	size_t n = ref_encode_kill(&cat_kill[idx], refenc, sizeof refenc);
	MC_COUNT("oracle_marshal_vs_reference_checked");
	if (n != body_len || memcmp(refenc, body, n)) { mc_fail("C43/marshal-differs-from-reference", "kill_marshal(k%d) differs from the reference encoding", idx); return -1; }
	return 0;
}
static int write_all(int fd, const unsigned char *p, size_t n)
{
	while (n) { ssize_t w = write(fd, p, n); if (w <= 0) return -1; p += w; n -= (size_t)w; }
	return 0;
}

/* ================================================================ S1: raw client against the real server */
static void scenario_rawclient(void)
{
	static const char *const methods[] = { "POST", "PUT", "GET" };
	unsigned char resp[4096]; size_t resp_len = 0; int peer_closed = 0;
	int fd = -1;
	base = new_base();
	if (!base || server_setup() < 0) { mc_fail("harness:setup", "server setup failed: %s", strerror(errno)); teardown(); return; }
	int idx = mc_choose(mc_param("msgs", N_MSG), 0, "msg");
	/* request line: the RPC's own POST, the other RPC's URI, or another method on the own URI */
	int variant = mc_choose(4, 0, "request-line");
	raw_kind = variant == 1; 
	int method = variant == 2 ? 1 : variant == 3 ? 2 : 0;
	s1_rk = 0;
	/* body mutations are combined with the other request lines only with -P rawfull=1 */
	int mut = (variant == 0 || mc_param("rawfull", 0)) ? mc_choose(N_MUT, 0, "mutation") : MUT_NONE, want_cut, mutated;
	if (marshal_catalogue_msg(idx) < 0) { teardown(); return; }
	mc_observe("rawc %s %s m%d ", methods[method], rpc_name[raw_kind], idx);
	mutated = mutate_body(mut, &want_cut);
	int hl = snprintf((char *)wire, sizeof wire, "%s /.rpc.%s HTTP/1.1\r\nHost: rpc\r\nContent-Length: %d\r\nConnection: close\r\n\r\n", methods[method], rpc_name[raw_kind], (int)body_len);
	memcpy(wire + hl, body, body_len); wire_len = (size_t)hl + body_len;
	size_t send_len = wire_len; int rst = 0;
	if (want_cut) { send_len = (size_t)mc_choose((int)wire_len, 0, "cut-at"); rst = mc_choose(2, 0, "fin/rst"); mc_observe("cut@%d%s ", (int)send_len, rst ? "/rst" : ""); }
	/* verdict of the reference decoder */
	int rv = ref_decode_msg(body, body_len, &raw_expect);
	int complete = send_len == wire_len;
	int wf = rv == 0 && method == 0 && complete && body_len > 0;
	raw_expect_valid = rv == 0 && method == 0;
	if (rv == -2) { mc_observe("outside-model "); MC_COUNT("outside_reference_model"); }
	if (mutated && rv == 0) MC_COUNT("mutants_still_wellformed"); else if (mutated) MC_COUNT("mutants_malformed");

	struct sockaddr_in sin; memset(&sin, 0, sizeof sin); sin.sin_family = AF_INET; sin.sin_addr.s_addr = htonl(INADDR_LOOPBACK); sin.sin_port = htons((uint16_t)port);
	fd = socket(AF_INET, SOCK_STREAM, 0);
	if (fd < 0 || connect(fd, (struct sockaddr *)&sin, sizeof sin) < 0 || write_all(fd, wire, send_len) < 0) { mc_fail("harness:raw-connect", "%s", strerror(errno)); if (fd >= 0) close(fd); teardown(); return; }
	fcntl(fd, F_SETFL, O_NONBLOCK);
	if (!complete) {
		if (rst) { struct linger lg = { 1, 0 }; setsockopt(fd, SOL_SOCKET, SO_LINGER, &lg, sizeof lg); close(fd); fd = -1; }
		else shutdown(fd, SHUT_WR);
	}
	for (int it = 0; it < 60 && !peer_closed; it++) {
		activity = 0;
		loop_nonblock();
		if (fd >= 0) for (;;) {
			ssize_t r = read(fd, resp + resp_len, sizeof resp - resp_len);
			if (r > 0) { resp_len += (size_t)r; activity++; continue; }
			if (r == 0 || (errno != EAGAIN && errno != EINTR)) peer_closed = 1;
			break;
		}
		if (fd < 0 && !activity) break;
		if (!activity && !peer_closed) { idle_hit = 0; event_base_loop(base, EVLOOP_ONCE); if (idle_hit && !activity) break; }
	}
	if (fd >= 0) close(fd);
	for (int i = 0; i < 2; i++) loop_nonblock();
	/* ---- verdicts ---- */
	int code = 0;
	if (resp_len > 12 && !memcmp(resp, "HTTP/1.", 7)) code = atoi((char *)resp + 9);
	mc_observe("-> %d handler=%d/%d ", code, handler_calls[0], handler_calls[1]);
	if (rv != -2) {
		MC_COUNT("oracle_handler_iff_wellformed_checked");
		if (handler_calls[1 - raw_kind]) mc_fail("C43/handler-of-other-rpc-invoked", "request for %s invoked the handler of %s", rpc_name[raw_kind], rpc_name[1 - raw_kind]);
		if (!wf && handler_calls[raw_kind]) {
			if (rv == 0 && method != 0) mc_fail("C43/handler-invoked-for-non-post", "handler ran for a %s request", methods[method]);
			else if (rv == 0 && !complete) mc_fail("C43/handler-invoked-for-incomplete-request", "handler ran although the request stream was cut at byte %d of %d", (int)send_len, (int)wire_len);
			/* (malformed body: already reported from inside the handler) */
		}
		if (wf && handler_calls[raw_kind] != 1) mc_fail("C43/handler-not-invoked", "well-formed request for %s: handler ran %d times", rpc_name[raw_kind], handler_calls[raw_kind]);
		if (wf) {
			struct ref_kill got; const unsigned char *b = NULL; size_t bl = 0;
			for (size_t i = 0; i + 3 < resp_len; i++) if (!memcmp(resp + i, "\r\n\r\n", 4)) { b = resp + i + 4; bl = resp_len - i - 4; break; }
			if (code != 200 || !b) mc_fail("C43/server-reply-not-sent", "well-formed request, handler replied, HTTP status %d", code);
			else if (ref_decode_kill(b, bl, &got) != 0 || !ref_kill_eq(&got, &cat_kill[s1_rk])) mc_fail("C43/reply-differs", "HTTP reply body does not decode to what the handler produced");
			else MC_COUNT("oracle_reply_equal_checked");
		} else if (code == 200) mc_fail("C43/success-for-rejected-request", "HTTP 200 for a request that must not reach a handler");
	}
	teardown();
}

static int is_pool_peer(int afd, struct evhttp_connection *c)
{
	struct sockaddr_in a, b; socklen_t al = sizeof a, bl = sizeof b;
	int cfd = bufferevent_getfd(evhttp_connection_get_bufferevent(c));
	if (cfd < 0 || getpeername(afd, (struct sockaddr *)&a, &al) < 0 || getsockname(cfd, (struct sockaddr *)&b, &bl) < 0) return 0;
	return a.sin_port == b.sin_port;
}
/* ================================================================ S2: the real pool against a raw server */
static void scenario_rawserver(void)
{
	int lfd = -1, afd = -1, one = 1, accepted = 0;
	unsigned char reqbuf[4096]; size_t req_len = 0; int req_complete = 0, responded = 0;
	base = new_base();
	if (!base) { mc_fail("harness:setup", "x"); return; }
	int kidx = mc_choose(N_KILL, 0, "reply");
	int behaviour = mc_choose(3, 0, "server");        /* 0 answer, 1 silent (timeout), 2 close right after accept */
	int mut = behaviour == 0 ? mc_choose(N_MUT, 0, "mutation") : MUT_NONE, want_cut = 0, mutated = 0;
	int idx = mut == MUT_NONE ? mc_choose(mc_param("msgs", N_MSG), 0, "msg") : 0;   /* the request's content does not interact with reply mutations */
	if (marshal_catalogue_kill(kidx) < 0) { teardown(); return; }
	mc_observe("raws m%d k%d %s ", idx, kidx, behaviour == 0 ? "answer" : behaviour == 1 ? "silent" : "close");
	if (behaviour == 0) mutated = mutate_body(mut, &want_cut);
	int hl = snprintf((char *)wire, sizeof wire, "HTTP/1.1 200 OK\r\nContent-Type: application/octet-stream\r\nContent-Length: %d\r\n\r\n", (int)body_len);
	memcpy(wire + hl, body, body_len); wire_len = (size_t)hl + body_len;
	size_t send_len = wire_len; int rst = 0;
	if (want_cut) { send_len = (size_t)mc_choose((int)wire_len, 0, "cut-at"); rst = mc_choose(2, 0, "fin/rst"); mc_observe("cut@%d%s ", (int)send_len, rst ? "/rst" : ""); }
	int rv = ref_decode_kill(body, body_len, &s2_expect);
	s2_expect_ok = behaviour == 0 && rv == 0 && send_len == wire_len;
	if (rv == -2) { mc_observe("outside-model "); MC_COUNT("outside_reference_model"); }
	if (mutated && rv == 0) MC_COUNT("mutants_still_wellformed"); else if (mutated) MC_COUNT("mutants_malformed");

	struct sockaddr_in sin; memset(&sin, 0, sizeof sin); sin.sin_family = AF_INET; sin.sin_addr.s_addr = htonl(INADDR_LOOPBACK);
	lfd = socket(AF_INET, SOCK_STREAM | SOCK_NONBLOCK, 0);
	setsockopt(lfd, SOL_SOCKET, SO_REUSEADDR, &one, sizeof one);
	if (lfd < 0 || bind_any_port(lfd, &sin) < 0 || listen(lfd, 4) < 0) { mc_fail("harness:raw-listen", "%s", strerror(errno)); if (lfd >= 0) close(lfd); teardown(); return; }
	port = local_port(lfd);
	pool = evrpc_pool_new(base);
	struct evhttp_connection *c = new_pool_connection();
	evrpc_pool_add_connection(pool, c);
	evrpc_pool_set_timeout(pool, POOL_TIMEOUT_S);
	struct creq *cr = &creq[0];
	cr->used = 1; cr->rk = -1; cr->kind = RPC_MESSAGE; cr->msg_idx = idx; cr->msg = msg_new(); cr->reply = kill_new();
	fill_msg(cr->msg, &cat_msg[idx]);
	issue(cr);
	for (int it = 0; it < 80; it++) {
		activity = 0;
		loop_nonblock();
		if (!accepted) {
			afd = __real_accept4(lfd, NULL, NULL, SOCK_NONBLOCK);
			if (afd >= 0 && !is_pool_peer(afd, c)) { close(afd); afd = -1; MC_COUNT("foreign_connections_dropped"); }   /* shared loopback: not ours */
			if (afd >= 0) { accepted = 1; activity++; if (behaviour == 2) { close(afd); afd = -2; mc_observe("closed "); } }
		}
		if (afd >= 0 && !req_complete) {
			for (;;) {
				ssize_t r = read(afd, reqbuf + req_len, sizeof reqbuf - 1 - req_len);
				if (r > 0) { req_len += (size_t)r; activity++; continue; }
				break;
			}
			reqbuf[req_len] = 0;
			char *he = strstr((char *)reqbuf, "\r\n\r\n");
			if (he) {
				char *cl = strcasestr((char *)reqbuf, "Content-Length:");
				size_t want = cl && cl < he ? (size_t)atoi(cl + 15) : 0, have = req_len - (size_t)(he + 4 - (char *)reqbuf);
				if (have >= want) {
					struct ref_msg got;
					req_complete = 1;
					MC_COUNT("oracle_client_request_checked");
					if (strncmp((char *)reqbuf, "POST /.rpc.Message HTTP/1.1\r\n", 29)) mc_fail("C43/client-request-line", "pool sent an unexpected request line");
					else if (ref_decode_msg((unsigned char *)he + 4, want, &got) != 0 || !ref_msg_eq(&got, &cat_msg[idx])) mc_fail("C43/client-request-differs", "request body on the wire does not decode to the request object passed to the call");
				}
			}
		}
		if (afd >= 0 && req_complete && !responded && behaviour == 0) {
			responded = 1; activity++;
			if (write_all(afd, wire, send_len) < 0) mc_fail("harness:raw-write", "%s", strerror(errno));
			if (send_len < wire_len) {
				if (rst) { struct linger lg = { 1, 0 }; setsockopt(afd, SOL_SOCKET, SO_LINGER, &lg, sizeof lg); }
				close(afd); afd = -2;
			}
		}
		if (cr->cb_count && !activity) break;
		if (!activity) { idle_hit = 0; event_base_loop(base, EVLOOP_ONCE); if (idle_hit && !activity) break; }
	}
	vclock_advance(3 * SEC); for (int i = 0; i < 3; i++) loop_nonblock();
	if (afd >= 0) close(afd);
	close(lfd);
	MC_COUNT("oracle_exactly_once_checked");
	if (cr->cb_count == 0) mc_fail("C43/request-never-completed", "no completion callback although every timeout has expired (%s)", behaviour == 1 ? "silent server" : behaviour == 2 ? "server closed" : "answered");
	else if (rv != -2) {
		if (s2_expect_ok && cr->status != EVRPC_STATUS_ERR_NONE) mc_fail("C43/error-without-cause", "well-formed complete reply, status %d", cr->status);
		if (!s2_expect_ok && cr->status != EVRPC_STATUS_ERR_NONE) MC_COUNT("oracle_error_status_checked");
	}
	teardown();
}

/* ---------------------------------------------------------------- body */
static void logcb(int sev, const char *msg) { if (sev == EVENT_LOG_ERR) fprintf(stderr, "[err] %s\n", msg); }
static void init(void)
{
	event_set_mem_functions(m_malloc, m_realloc, m_free);
	event_set_log_callback(logcb);
	signal(SIGPIPE, SIG_IGN);          /* as every network program does: a write to a dead connection must return EPIPE */
	catalogue_init();
	(void)mcx_private_netns();         /* own port space per worker when permitted; harmless when not */
}
static void body_fn(void)
{
	reset_state();
	int only = mc_param("scenario", -1);
	scenario = only >= 0 ? only : mc_choose(3, 0, "scenario");
	switch (scenario) {
	case 0: scenario_e2e(); break;
	case 1: scenario_rawclient(); break;
	default: scenario_rawserver(); break;
	}
}
int main(int c, char **v)
{
	struct mc_config cfg = { .property = "C43", .body = body_fn, .init = init, .default_split = 3 };
	return mc_main(c, v, &cfg);
}
