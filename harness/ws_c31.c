/* C31 — WebSocket frames are decoded into exactly the sent messages.
 *
 * Real code under test: evhttp upgrade (http.c, entered through the static
 * evhttp_get_request on one end of a socketpair) + ws.c (get_ws_frame,
 * ws_evhttp_read_cb, evws_close).  Reference: models/rfc6455.c.
 *
 * One execution = one choice vector:
 *   frame#k   kind of the k-th client frame (0 = end of sequence), k < frames
 *   bytewise  0 = cuts chosen below, 1 = cut at every candidate position
 *   cut@p     for every candidate cut position p of the byte stream: cut here?
 *             (cost 1, so --bound N = at most N cuts)
 * The byte stream of the frame sequence is written to the socket in the chosen
 * segments; after each segment the event loop is run until quiescent.
 * At the end: delivered (type,payload) list == reference list; connection
 * closed <=> reference stream ended (close frame / protocol failure).
 *
 * Parameters (-P):
 *   frames=N     max frames per sequence (default 2)
 *   ops=0,1,2,8,9,10,3,11   opcodes          fins=01   masks=01
 *   lens=0,1,125,126,O      payload lengths; O = header-only frame declaring 10MiB+1,
 *                           M = header-only frame declaring 2^63
 *   extras=1     add boundary kinds the reduced quick alphabet leaves out (125-byte payloads, pong, opcodes 3 and 0xB)
 *   longmax=N    at most N frames with a payload >= 4000 bytes per sequence (default: no limit);
 *                long frames are expensive here (every buffer beyond 128 KiB is mmap'ed)
 *   cutpos=edge|all   candidate cut positions: every header byte + first/last payload
 *                     byte + frame boundary | every byte
 *   bytewise=1   also run the all-cuts segmentation
 *   appclose=N   the application calls evws_close() inside its N-th message callback
 *   special=big  instead: frames of exactly the 10 MiB limit (thorough only)
 */
#include "mcx.h"
#include "http.c"
#include "rfc6455.h"
#include "ws_quirks.h"
#include "ws_session.h"

#define MAXFRAMES 4
#define WS_LIMIT 10485760ULL          /* documented in ws.c: frames above 10 MiB are refused */
#define LEN_OVERSIZE (-1L)
#define LEN_MSB (-2L)

struct kind { int op, fin, mask; long len; };
static struct kind kinds[1024]; static int nkinds;
static int p_frames, p_cut_all, p_bytewise, p_appclose, p_big, p_dry, p_longmax;
static int nshort;                    /* kinds[0..nshort) have payloads < LONG_LEN, the rest are long */
#define LONG_LEN 4000

static int parse_list(const char *s, long *out, int max)
{
	int n = 0;
	while (*s && n < max) {
		if (*s == 'O') { out[n++] = LEN_OVERSIZE; s++; }
		else if (*s == 'M') { out[n++] = LEN_MSB; s++; }
		else { char *e; out[n++] = strtol(s, &e, 10); s = e; }
		if (*s == ',') s++;
	}
	return n;
}

static void init(void)
{
	long ops[16], lens[16]; int nops, nlens, i, f, m, l;
	const char *fins = mc_param_str("fins", "01"), *masks = mc_param_str("masks", "01");
	mcx_alloc_install();
	event_set_log_callback(ws_log_quiet);
	p_frames = mc_param("frames", 2);
	if (p_frames > MAXFRAMES) p_frames = MAXFRAMES;
	p_cut_all = !strcmp(mc_param_str("cutpos", "edge"), "all");
	p_bytewise = mc_param("bytewise", 1);
	p_appclose = mc_param("appclose", 0);
	p_big = !strcmp(mc_param_str("special", ""), "big");
	p_longmax = mc_param("longmax", MAXFRAMES);
	p_dry = mc_param("dry", 0);        /* development aid: enumerate the space without running sessions */
	nops = parse_list(mc_param_str("ops", "0,1,2,8,9,10,3,11"), ops, 16);
	nlens = parse_list(mc_param_str("lens", "0,1,125,126,O"), lens, 16);
	nkinds = 0;
	for (int pass = 0; pass < 2; pass++) {            /* short kinds first, long kinds last */
		for (i = 0; i < nops; i++)
			for (f = 0; fins[f]; f++)
				for (m = 0; masks[m]; m++)
					for (l = 0; l < nlens; l++) {
						struct kind *k;
						if ((lens[l] >= LONG_LEN) != pass) continue;
						k = &kinds[nkinds++];
						k->op = (int)ops[i]; k->fin = fins[f] == '1'; k->mask = masks[m] == '1'; k->len = lens[l];
					}
		if (!pass) nshort = nkinds;
	}
	if (mc_param("extras", 0)) {
		/* boundary lengths and opcodes that the quick cross product leaves out */
		static const struct kind ex[] = {
			{1, 1, 1, 125}, {2, 1, 0, 125}, {9, 1, 1, 125}, {0, 0, 0, 125},
			{10, 1, 1, 1}, {10, 1, 0, 0}, {10, 0, 1, 1}, {11, 1, 1, 0}, {11, 0, 0, 1}, {3, 1, 1, 1}, {3, 0, 0, 0},
		};
		int j;
		for (i = 0; i < (int)(sizeof ex / sizeof ex[0]); i++) {
			for (j = 0; j < nkinds; j++)
				if (kinds[j].op == ex[i].op && kinds[j].fin == ex[i].fin && kinds[j].mask == ex[i].mask && kinds[j].len == ex[i].len) break;
			if (j == nkinds) {                          /* no duplicates: every kind is a distinct input */
				memmove(&kinds[nshort + 1], &kinds[nshort], (size_t)(nkinds - nshort) * sizeof kinds[0]);
				kinds[nshort++] = ex[i]; nkinds++;
			}
		}
	}
}

static void fill_payload(unsigned char *p, size_t n, int fidx)
{
	size_t i;
	for (i = 0; i < n; i++) p[i] = (unsigned char)(i * 131u + (unsigned)fidx * 17u + 0x81u);
}

struct stream {
	unsigned char *b; size_t n;
	size_t fstart[MAXFRAMES + 1];
	size_t cand[4096]; int ncand;      /* candidate cut positions, ascending, 0 < p < n */
};

static void add_cand(struct stream *st, size_t p)
{
	if (p == 0 || st->ncand >= 4096) return;
	if (st->ncand && st->cand[st->ncand - 1] >= p) return;
	st->cand[st->ncand++] = p;
}

static void build_stream(struct stream *st, const struct kind *const *ks, int nf)
{
	static const unsigned char keys[MAXFRAMES][4] = { {0x37, 0xfa, 0x21, 0x3d}, {0x00, 0x81, 0xff, 0x7e}, {0x88, 0x01, 0x02, 0x80}, {0xa5, 0x5a, 0x00, 0x11} };
	/* harness-owned scratch buffers, grown once and reused by all executions (large
	 * allocations are very expensive under ASan in this sandbox) */
	static unsigned char *sbuf, *pbuf; static size_t scap, pcap;
	size_t cap = 64, i, maxp = 1; int f;
	for (f = 0; f < nf; f++) {
		size_t pl = ks[f]->len > 0 ? (size_t)ks[f]->len : 0;
		cap += 16 + pl; if (pl > maxp) maxp = pl;
	}
	if (cap > scap) { scap = cap * 2; sbuf = realloc(sbuf, scap); if (!sbuf) abort(); }
	if (maxp > pcap) { pcap = maxp * 2; pbuf = realloc(pbuf, pcap); if (!pbuf) abort(); }
	st->b = sbuf; st->n = 0; st->ncand = 0;
	for (f = 0; f < nf; f++) {
		const struct kind *k = ks[f];
		size_t start = st->n, flen, hdr, plen = k->len > 0 ? (size_t)k->len : 0;
		unsigned char *pl = pbuf;
		fill_payload(pl, plen, f);
		if (k->len == LEN_OVERSIZE) flen = rfc6455_encode(st->b + start, k->fin, 0, k->op, k->mask, keys[f], 64, WS_LIMIT + 1, NULL, 0);
		else if (k->len == LEN_MSB) flen = rfc6455_encode(st->b + start, k->fin, 0, k->op, k->mask, keys[f], 64, 1ULL << 63, NULL, 0);
		else flen = rfc6455_encode(st->b + start, k->fin, 0, k->op, k->mask, keys[f], 0, plen, pl, plen);
		hdr = flen - plen;
		st->fstart[f] = start;
		st->n += flen;
		if (p_cut_all) for (i = 1; i <= flen; i++) add_cand(st, start + i);
		else {
			for (i = 1; i <= hdr; i++) add_cand(st, start + i);
			if (plen > 1) add_cand(st, start + hdr + 1);
			if (plen > 2) add_cand(st, start + flen - 1);
			add_cand(st, start + flen);
		}
	}
	st->fstart[nf] = st->n;
	while (st->ncand && st->cand[st->ncand - 1] >= st->n) st->ncand--;   /* a cut at the end is no cut */
}

static const char *opname(int op)
{
	switch (op) { case 0: return "cont"; case 1: return "text"; case 2: return "bin"; case 8: return "close"; case 9: return "ping"; case 10: return "pong"; }
	return op == 3 ? "rsv3" : op == 11 ? "rsvB" : "rsv?";
}

static void describe(const struct kind *k)
{
	if (k->len == LEN_OVERSIZE) mc_observe("%s%s%s/10MiB+1 ", opname(k->op), k->fin ? ".F" : ".-", k->mask ? ".M" : ".u");
	else if (k->len == LEN_MSB) mc_observe("%s%s%s/2^63 ", opname(k->op), k->fin ? ".F" : ".-", k->mask ? ".M" : ".u");
	else mc_observe("%s%s%s/%ld ", opname(k->op), k->fin ? ".F" : ".-", k->mask ? ".M" : ".u", k->len);
}

static int same_as_lib(const struct ws_sess *s, const struct wsq_result *q)
{
	size_t i;
	if (s->nmsgs != q->nmsgs || !s->closed != !q->closed) return 0;
	for (i = 0; i < s->nmsgs; i++)
		if (s->msgs[i].type != q->msgs[i].type || s->msgs[i].len != q->msgs[i].len ||
		    (s->msgs[i].len && memcmp(s->msgs[i].data, q->msgs[i].data, s->msgs[i].len))) return 0;
	return 1;
}

/* A divergence from the reference was found.  Is it exactly what one (or a combination) of the
 * two registered (unrepaired) deviation classes of ws.c produces on this input?  Then report those
 * classes (one narrow key each, see known_findings.jsonl); otherwise return 0 and the generic key
 * is used, i.e. the divergence is a violation. */
static int classify_known(struct ws_sess *s, const struct stream *st, const size_t *reads, size_t nreads, const char *what)
{
	static int cid_b = -1, cid_c = -1;
	int pc; unsigned f;
	for (pc = 1; pc <= 2; pc++)
		for (f = 1; f <= WSQ_REGISTERED; f++) {
			struct wsq_result q; int ok; unsigned bit;
			if ((f & ~WSQ_REGISTERED) || __builtin_popcount(f) != pc) continue;   /* repaired classes are no candidates */
			wsq_run(st->b, st->n, reads, nreads, f, WS_LIMIT, (size_t)p_appclose, &q);
			ok = same_as_lib(s, &q);
			wsq_free(&q);
			if (!ok) continue;
			mc_observe(" known[");
			for (bit = 1; bit <= WSQ_REGISTERED; bit <<= 1) if (f & bit) {
				char key[120];
				snprintf(key, sizeof key, "C31/%s", wsq_flag_key(bit));
				if (bit == WSQ_DATA_IN_FRAGMENTED_OK) mc_count_id(&cid_b, "known_class_B_data_opcode_inside_fragmented", 1);
				else mc_count_id(&cid_c, "known_class_C_continuation_without_start", 1);
				mc_observe("%s ", wsq_flag_key(bit));
				mc_fail(key, "%s: library delivered %zu messages and %s the connection; this is the reference behaviour plus the known deviation(s) %#x of ws.c",
				    what, s->nmsgs, s->closed ? "closed" : "kept", f);
			}
			mc_observe("]");
			return 1;
		}
	return 0;
}

/* the oracle: compare what the library delivered with the reference decoder */
static void compare(struct ws_sess *s, struct rfc6455_dec *ref, const struct stream *st, const size_t *reads, size_t nreads, const char *what)
{
	size_t i, n = s->nmsgs < ref->nmsgs ? s->nmsgs : ref->nmsgs;
	const char *why = rfc6455_reason_name(ref->reason);
	char key[160];
	int diverges = 0;
	MC_COUNT("oracle_delivered_list_compared");
	MC_COUNTN("ref_messages_expected", ref->nmsgs);
	if (ref->state == RFC6455_OPEN) MC_COUNT("ref_end_open");
	else if (ref->state == RFC6455_CLOSED) MC_COUNT("ref_end_closed");
	else MC_COUNT("ref_end_failed");
	for (i = 0; i < ref->nmsgs; i++) if (ref->msgs[i].nfragments > 1) { MC_COUNT("ref_fragmented_messages"); }
	mc_observe("=> ref[%s:", why);
	for (i = 0; i < ref->nmsgs; i++) mc_observe("%s%d/%zu", i ? "," : "", ref->msgs[i].opcode, ref->msgs[i].len);
	mc_observe("] lib[%s:", s->closed ? "closed" : "open");
	for (i = 0; i < s->nmsgs; i++) mc_observe("%s%d/%zu", i ? "," : "", s->msgs[i].type, s->msgs[i].len);
	mc_observe("]");
	if (s->msgs_after_closecb)
		mc_fail("C31/message-callback-after-close-callback", "%s: %d message callbacks after the close callback", what, s->msgs_after_closecb);
	{
		/* self-check of the classification model: without deviations it must be the reference */
		struct wsq_result q; int same;
		wsq_run(st->b, st->n, reads, nreads, 0, WS_LIMIT, (size_t)p_appclose, &q);
		same = q.nmsgs == ref->nmsgs && !q.closed == (ref->state == RFC6455_OPEN);
		for (i = 0; same && i < q.nmsgs; i++)
			same = q.msgs[i].type == ref->msgs[i].opcode && q.msgs[i].len == ref->msgs[i].len && (!q.msgs[i].len || !memcmp(q.msgs[i].data, ref->msgs[i].data, q.msgs[i].len));
		wsq_free(&q);
		if (!same) mc_fail("harness:C31-quirk-model-differs-from-reference", "%s: models/ws_quirks.c with no deviation disagrees with models/rfc6455.c", what);
	}
	/* does the library agree with the reference? */
	if (s->nmsgs != ref->nmsgs || !s->closed == (ref->state != RFC6455_OPEN)) diverges = 1;
	for (i = 0; i < n && !diverges; i++)
		if (s->msgs[i].type != ref->msgs[i].opcode || s->msgs[i].len != ref->msgs[i].len ||
		    (s->msgs[i].len && memcmp(s->msgs[i].data, ref->msgs[i].data, s->msgs[i].len))) diverges = 1;
	MC_COUNT("oracle_closed_state_compared");
	if (!diverges) { MC_COUNT("agrees_with_reference"); return; }
	MC_COUNT("diverges_from_reference");
	if (classify_known(s, st, reads, nreads, what)) return;
	MC_COUNT("diverges_unexplained");
	for (i = 0; i < n; i++) {
		struct ws_delivered *l = &s->msgs[i]; struct rfc6455_msg *r = &ref->msgs[i];
		const char *frag = r->nfragments > 1 ? "fragmented" : "single-frame";
		if (l->type != r->opcode) { snprintf(key, sizeof key, "C31/wrong-type/%s", frag); mc_fail(key, "%s: message %zu delivered with type %d, reference %d", what, i, l->type, r->opcode); return; }
		if (l->len != r->len) { snprintf(key, sizeof key, "C31/wrong-length/%s", frag); mc_fail(key, "%s: message %zu delivered with %zu bytes, reference %zu", what, i, l->len, r->len); return; }
		if (l->len && memcmp(l->data, r->data, l->len)) { snprintf(key, sizeof key, "C31/wrong-payload/%s", frag); mc_fail(key, "%s: message %zu payload differs from the reference", what, i); return; }
	}
	if (s->nmsgs > ref->nmsgs) {
		/* delivered something the reference does not: after the end of the stream, or partial/invalid data */
		snprintf(key, sizeof key, "C31/extra-delivery/%s", why);
		mc_fail(key, "%s: library delivered %zu messages, reference %zu (reference stream state: %s); first extra: type %d, %zu bytes",
		    what, s->nmsgs, ref->nmsgs, why, s->msgs[n].type, s->msgs[n].len);
		return;
	}
	if (s->nmsgs < ref->nmsgs) {
		snprintf(key, sizeof key, "C31/missing-delivery/%s%s", ref->msgs[n].nfragments > 1 ? "fragmented" : "single-frame", s->closed ? "/connection-closed" : "");
		mc_fail(key, "%s: library delivered %zu messages, reference %zu; first missing: type %d, %zu bytes in %d frames",
		    what, s->nmsgs, ref->nmsgs, ref->msgs[n].opcode, ref->msgs[n].len, ref->msgs[n].nfragments);
		return;
	}
	if (ref->state != RFC6455_OPEN && !s->closed) {
		snprintf(key, sizeof key, "C31/not-closed/%s", why);
		mc_fail(key, "%s: reference stream ended (%s) but the connection was not closed", what, why);
	} else if (ref->state == RFC6455_OPEN && s->closed) {
		snprintf(key, sizeof key, "C31/spurious-close%s", rfc6455_dec_pending(ref) ? "/mid-frame" : "");
		mc_fail(key, "%s: connection closed although the reference stream is still open", what);
	}
}

/* everything the server wrote after the handshake must be well-formed unmasked frames (observation; C32 decides) */
static void observe_written_back(struct ws_sess *s)
{
	struct rfc6455_dec d;
	rfc6455_dec_init(&d, UINT64_MAX >> 1, -1);
	if (s->rxlen > s->hs_len) rfc6455_dec_feed(&d, s->rx + s->hs_len, s->rxlen - s->hs_len);
	if (d.state == RFC6455_CLOSED && d.reason == RFC6455_R_CLOSE_FRAME) MC_COUNT("server_close_frames_seen");
	if (d.state == RFC6455_FAILED) MC_COUNT("server_wrote_malformed_frames");
	mc_observe(" back[%zu%s]", s->rxlen - s->hs_len, s->rx_eof ? ",eof" : "");
	rfc6455_dec_free(&d);
}

/* mode: 0 = ask mc_choose at every candidate position (cost 1 per cut), 1 = cut at every
 * candidate, 2 = cut exactly at candidate index `forced` (if >= 0) */
static void run_stream(const struct kind *const *ks, int nf, struct stream *st, int mode, int forced)
{
	struct ws_sess s; struct rfc6455_dec ref;
	size_t pos = 0, cutpos[64]; int c, nseg = 0, ncut = 0; uint64_t h;
	static size_t *reads; static size_t capreads; size_t nreads = 0;
	char what[400]; int wl = 0, f;
	if (p_dry) {
		for (c = 0; c < st->ncand; c++) if (mode == 0) (void)mc_choose(2, 1, "cut");
		return;
	}
	if (ws_sess_open(&s, "C31", 0) < 0) { ws_sess_close(&s); return; }
	s.close_on_nth = (size_t)p_appclose;
	if (!ws_sess_handshake(&s, "dGhlIHNhbXBsZSBub25jZQ==", 24)) {
		mc_fail("harness:C31-handshake", "upgrade not accepted (accepted=%d, %zu bytes back)", s.accepted, s.rxlen);
		ws_sess_close(&s); return;
	}
	/* History hash: the whole frame sequence + every cut so far.  It is unique per history
	 * prefix, so no two different histories are ever merged (the library's hidden buffers are
	 * not readable from here, hence no attempt at merging): mc_state() only counts the distinct
	 * segment-boundary states visited.  Its return value can only be 1 on a hash collision and
	 * is deliberately ignored (nothing is skipped). */
	h = mc_hash(0, st->b, st->n);
	h = mc_hash_u64(h, (uint64_t)p_appclose);
	for (c = 0; c <= st->ncand; c++) {
		size_t end = c < st->ncand ? st->cand[c] : st->n;
		if (c < st->ncand) {
			int cut = mode == 1 ? 1 : mode == 2 ? c == forced : mc_choose(2, 1, "cut");
			if (!cut) continue;
			if (ncut < 64) cutpos[ncut] = end;
			ncut++;
		}
		ws_send_segment(&s, st->b + pos, end - pos);
		/* the reads the library makes for this segment: at most 4096 bytes each (evbuffer_read) */
		while (pos < end) {
			if (nreads == capreads) { capreads = capreads ? capreads * 2 : 256; reads = realloc(reads, capreads * sizeof *reads); if (!reads) abort(); }
			pos = end - pos > 4096 ? pos + 4096 : end;
			reads[nreads++] = pos;
		}
		nseg++;
		MC_COUNT("segments_fed");
		h = mc_hash_u64(h, (uint64_t)end);
		if (mc_state(h, 0)) MC_COUNT("state_hash_collisions_ignored");
	}
	mc_observe("cuts=%d%s ", ncut, mode == 1 ? "(all)" : "");
	MC_COUNT("sessions");
	if (nseg > 1) MC_COUNT("sessions_with_cuts");
	for (f = 0; f < nf && wl < (int)sizeof what - 40; f++)
		wl += snprintf(what + wl, sizeof what - wl, "%s%s%s%s/%ld", f ? " " : "", opname(ks[f]->op), ks[f]->fin ? ".F" : ".-", ks[f]->mask ? ".M" : ".u", ks[f]->len);
	snprintf(what + wl, sizeof what - wl, " in %d segments", nseg);
	rfc6455_dec_init(&ref, WS_LIMIT, 0 /* property: "masked or not" */);
	ref.close_after_nmsgs = (size_t)p_appclose;
	rfc6455_dec_feed(&ref, st->b, st->n);
	compare(&s, &ref, st, reads, nreads, what);
	observe_written_back(&s);
	if (mc_replaying()) {
		size_t i;
		printf("STREAM %zu bytes:", st->n);
		for (i = 0; i < st->n && i < 64; i++) printf(" %02x", st->b[i]);
		printf("%s\nCUTS after byte:", st->n > 64 ? " ..." : "");
		for (c = 0; c < ncut && c < 64; c++) printf(" %zu", cutpos[c]);
		printf("\nBACK %zu bytes after handshake:", s.rxlen - s.hs_len);
		for (i = s.hs_len; i < s.rxlen && i < s.hs_len + 32; i++) printf(" %02x", s.rx[i]);
		printf("\n");
	}
	rfc6455_dec_free(&ref);
	ws_sess_close(&s);
}

static void body_big(void)
{
	/* a frame of exactly the documented limit must be accepted (limit + 1 is in the main
	 * alphabet as 'O'); a 10 MiB execution costs ~20 s here, so only two cases */
	static struct kind big[2] = { {1, 1, 1, (long)WS_LIMIT}, {2, 1, 0, (long)WS_LIMIT} };
	static struct kind tail = {1, 1, 1, 1};
	const struct kind *ks[2]; struct stream st;
	int a = mc_choose(2, 0, "big"), nf = 1;       /* 0: masked text alone; 1: unmasked binary + a small frame */
	ks[0] = &big[a];
	if (a) { ks[1] = &tail; nf = 2; }
	describe(ks[0]); if (nf == 2) describe(ks[1]);
	build_stream(&st, ks, nf);
	run_stream(ks, nf, &st, 2, a ? 3 : -1);        /* the unmasked one with a cut inside its header */
}

static void body(void)
{
	const struct kind *ks[MAXFRAMES]; struct stream st;
	int nf, c, bytewise = 0, nlong = 0;
	if (p_big) { body_big(); return; }
	for (nf = 0; nf < p_frames; nf++) {
		/* arity depends only on the choices made so far: once longmax long frames are in the
		 * sequence, only the short kinds are offered */
		int k = mc_choose((nlong >= p_longmax ? nshort : nkinds) + 1, 0, "frame");
		if (!k) break;
		ks[nf] = &kinds[k - 1];
		if (k - 1 >= nshort) nlong++;
	}
	if (nf == 0) { mc_observe("(empty sequence)"); return; }
	for (c = 0; c < nf; c++) describe(ks[c]);
	build_stream(&st, ks, nf);
	if (p_bytewise && st.ncand > 0) bytewise = mc_choose(2, 0, "all-cuts");
	run_stream(ks, nf, &st, bytewise, -1);
}

int main(int c, char **v)
{
	struct mc_config cfg = { .property = "C31", .body = body, .init = init, .default_split = 1 };
	return mc_main(c, v, &cfg);
}
