/* C09 — cross-thread calls under a preemption-bounded scheduler (env/sched.c).
 * Real libevent, real pthreads, serialised; every schedule with at most
 * `--bound` preemptions is enumerated for each driver (-P scen=...).
 *
 *  wake   loop blocked on a far timer  ||  event_active / event_add(short timer) /
 *         event_add(I/O on readable pipe) / loopbreak from another thread, twice
 *  del    callback running (yields inside) || event_del / _block / _noblock / event_free
 *         on a persistent always-ready I/O event, with and without EV_FINALIZE
 *  buf    two threads operating on locked evbuffers (linearizability by brute force)
 *  bev    THREADSAFE bufferevent pair written from a non-loop thread
 */
#include "mcx.h"
#include "vclock.h"
#include "mcsched.h"
#include <event2/event.h>
#include <event2/buffer.h>
#include <event2/bufferevent.h>
#include <event2/thread.h>
#include <unistd.h>
#include <fcntl.h>
#include <string.h>
#include <stdio.h>
#include <stdlib.h>

#define HOUR_US (3600LL * 1000000)
#define HORIZON_US (60LL * 1000000)     /* anything later than this came from the unrelated far timer */

static struct event_base *base;
static long live0; static uint64_t fds0;

/* Driver parameters: explorer choices under the scheduler; decoded from the item
 * index in the free-running (TSan) build, where mc_choose is not available. */
static int free_mode; static uint64_t free_item;
static int pick(int n, const char *label)
{
	if (!free_mode) return mc_choose(n, 0, label);
	int r = (int)(free_item % n); free_item /= n; return r;
}
#ifdef C09_FREE
void sched_set_jitter(unsigned seed);
#endif
/* In the free-running (TSan) build only sanitizer reports, crashes and hangs count: the semantic
 * oracles below rely on the scheduler's notion of time and order, which real concurrency does not give. */
#define mc_fail(...) do { if (!free_mode) (mc_fail)(__VA_ARGS__); } while (0)
static void quiet(int sev, const char *m) { (void)sev; (void)m; }

static void init(void)
{
	mcx_alloc_install();
	event_set_log_callback(quiet);
	sched_install();
}

static void begin(void)
{
	vclock_reset();
	live0 = mcx_alloc_live(); fds0 = mcx_fd_signature();
	sched_begin();
	base = event_base_new();
}
static void finish(void)
{
	event_base_free(base); base = NULL;
	sched_end();
	if (sched_locks_held()) mc_fail("C09/lock-left-held", "%d harness locks still owned at end of execution", sched_locks_held());
	if (mcx_alloc_live() != live0) mc_fail("C09/leak", "%ld library allocations left", mcx_alloc_live() - live0);
	if (mcx_fd_signature() != fds0) mc_fail("C09/fd-leak", "fd table differs from baseline");
	MC_COUNTN("sched_points", sched_points());
	MC_COUNTN("context_switches", sched_switches());
}

static int far_fired;
static void far_cb(evutil_socket_t fd, short what, void *arg) { (void)fd; (void)what; (void)arg; far_fired++; }
static int loop_started, loop_exited;
static void started_cb(evutil_socket_t fd, short what, void *arg) { (void)fd; (void)what; (void)arg; loop_started = 1; }
static void loop_thread(void *arg) { (void)arg; event_base_loop(base, 0); loop_exited = 1; }
static int loop_up(void *arg) { (void)arg; return loop_started || loop_exited; }
static struct event *started_ev;
/* A loopbreak issued before event_base_loop() has started is (documented) forgotten when the
 * loop starts, so the driver's own final loopbreak waits until the loop is really running. */
static void arm_started(void)
{
	struct timeval zero = { 0, 0 };
	loop_started = loop_exited = 0;
	started_ev = evtimer_new(base, started_cb, NULL);
	event_add(started_ev, &zero);
}
static void final_break(void)
{
	sched_wait_until(loop_up, NULL);
	event_base_loopbreak(base);
}

/* ------------------------------------------------------------------ wake */
struct wake { struct event *ev_act, *ev_tmr, *ev_io, *far; int pipefd[2];
	int act_runs, tmr_runs, io_runs; int64_t act_at, tmr_at, io_at; int ops[2]; int nops; int t2_done; int broke; int64_t tmr_added_at; int acts; };
static struct wake wk;
static void act_cb(evutil_socket_t fd, short what, void *arg) { (void)fd; (void)what; (void)arg; wk.act_runs++; wk.act_at = vclock_us; }
static void tmr_cb(evutil_socket_t fd, short what, void *arg) { (void)fd; (void)arg; wk.tmr_runs++; wk.tmr_at = vclock_us; if (what != EV_TIMEOUT) mc_fail("C09/wake/timer-flags", "what=%#x", what); }
static void io_cb(evutil_socket_t fd, short what, void *arg) { char c; (void)what; (void)arg; wk.io_runs++; wk.io_at = vclock_us; if (read(fd, &c, 1) < 0) {} }
static const char *wake_opname[] = { "none", "event_active", "event_add(timer 1ms)", "event_add(read on readable pipe)", "event_base_loopbreak", "stray event_base_loop(NONBLOCK)" };
static void wake_do(int op)
{
	struct timeval ms = { 0, 1000 };
	switch (op) {
	case 1: wk.acts++; event_active(wk.ev_act, EV_READ, 1); break;
	case 2: wk.tmr_added_at = vclock_us; event_add(wk.ev_tmr, &ms); break;
	case 3: event_add(wk.ev_io, NULL); break;
	case 4: wk.broke = 1; event_base_loopbreak(base); break;
	case 5:
		/* a second thread calls event_base_loop() while the loop runs elsewhere: the call is
		 * rejected ("reentrant invocation") and must not disturb the running loop's identity.
		 * Only issued once the loop thread is known to be inside its loop. */
		if (loop_started && !loop_exited) event_base_loop(base, EVLOOP_NONBLOCK);
		break;
	}
}
static void wake_actor(void *arg)
{
	(void)arg;
	for (int i = 0; i < wk.nops; i++) { wake_do(wk.ops[i]); if (i + 1 < wk.nops) sched_yield_point(); }
	wk.t2_done = 1;
}
static int wake_quiet(void *arg)
{
	(void)arg;
	int want_act = 0, want_tmr = 0, want_io = 0;
	for (int i = 0; i < wk.nops; i++) { if (wk.ops[i] == 1) want_act = 1; if (wk.ops[i] == 2) want_tmr = 1; if (wk.ops[i] == 3) want_io = 1; }
	if (wk.broke) return 1;      /* after a break the loop is gone; requests made after it stay queued */
	return (!want_act || wk.act_runs) && (!want_tmr || wk.tmr_runs) && (!want_io || wk.io_runs);
}
static void scen_wake(void)
{
	struct timeval hour = { 3600, 0 };
	memset(&wk, 0, sizeof wk); far_fired = 0;
	begin();
	if (pipe2(wk.pipefd, O_NONBLOCK | O_CLOEXEC) < 0) abort();
	if (write(wk.pipefd[1], "x", 1) != 1) abort();
	wk.far = evtimer_new(base, far_cb, NULL); event_add(wk.far, &hour);
	wk.ev_act = event_new(base, -1, 0, act_cb, NULL);
	wk.ev_tmr = evtimer_new(base, tmr_cb, NULL);
	wk.ev_io = event_new(base, wk.pipefd[0], EV_READ, io_cb, NULL);
	wk.nops = 1 + pick(2, "nops");
	for (int i = 0; i < wk.nops; i++) wk.ops[i] = 1 + pick(5, "op");
	mc_observe("wake ops: %s", wake_opname[wk.ops[0]]);
	if (wk.nops > 1) mc_observe(" ; %s", wake_opname[wk.ops[1]]);
	arm_started();
	int t1 = sched_spawn(loop_thread, NULL);
	int t2 = sched_spawn(wake_actor, NULL);
	sched_join(t2);
	sched_wait_until(wake_quiet, NULL);
	/* verdicts: the loop acted on each request without sleeping to the far timer */
	if (!wk.broke) {
		for (int i = 0; i < wk.nops; i++) {
			if (wk.ops[i] == 1) { MC_COUNT("oracle_wake_active"); if (wk.act_at >= HORIZON_US) mc_fail("C09/lost-wakeup/event_active", "activation from another thread only ran at virtual t=%lld us (far timer)", (long long)wk.act_at); }
			if (wk.ops[i] == 2) { MC_COUNT("oracle_wake_timer"); if (wk.tmr_at >= HORIZON_US) mc_fail("C09/lost-wakeup/event_add-timer", "1 ms timer added from another thread fired at virtual t=%lld us", (long long)wk.tmr_at);
				else if (!free_mode && wk.tmr_at < wk.tmr_added_at + 1000) mc_fail("C09/wake/timer-early", "fired at %lld, added at %lld", (long long)wk.tmr_at, (long long)wk.tmr_added_at); }
			if (wk.ops[i] == 3) { MC_COUNT("oracle_wake_io"); if (wk.io_at >= HORIZON_US) mc_fail("C09/lost-wakeup/event_add-io", "read event added from another thread on a readable pipe only ran at virtual t=%lld us", (long long)wk.io_at); }
		}
	}
	if (wk.act_runs > wk.acts) mc_fail("C09/wake/extra-callback", "%d runs for %d activations", wk.act_runs, wk.acts);
	{	/* a one-shot event runs at most once per add */
		int tmr_adds = 0, io_adds = 0;
		for (int i = 0; i < wk.nops; i++) { tmr_adds += wk.ops[i] == 2; io_adds += wk.ops[i] == 3; }
		if (wk.tmr_runs > tmr_adds || wk.io_runs > io_adds) mc_fail("C09/wake/duplicate-callback", "timer ran %d times for %d adds, io %d for %d", wk.tmr_runs, tmr_adds, wk.io_runs, io_adds);
	}
	int64_t t_before_break = vclock_us;
	final_break();
	sched_join(t1);
	MC_COUNT("oracle_wake_loopbreak");
	if (vclock_us >= HORIZON_US && t_before_break < HORIZON_US) mc_fail("C09/lost-wakeup/loopbreak", "loop only ended at virtual t=%lld us", (long long)vclock_us);
	if (far_fired && t_before_break < HORIZON_US) mc_fail("C09/wake/far-timer-fired", "the unrelated 1 h timer ran");
	mc_observe(" -> act=%d tmr=%d io=%d t=%lld", wk.act_runs, wk.tmr_runs, wk.io_runs, (long long)vclock_us);
	event_free(started_ev); event_free(wk.far); event_free(wk.ev_act); event_free(wk.ev_tmr); event_free(wk.ev_io);
	close(wk.pipefd[0]); close(wk.pipefd[1]);
	finish();
}

/* ------------------------------------------------------------------ del */
struct del { struct event *ev, *far; int pipefd[2]; volatile int in_cb, runs, del_returned, freed, variant, finalize; int started_after_del; int returned_while_running; int react; volatile int self_activated; };
static struct del dl;
static const char *del_name[] = { "event_del", "event_del_block", "event_del_noblock", "event_free" };
static void del_cb(evutil_socket_t fd, short what, void *arg)
{
	char c; (void)what; (void)arg;
	if (dl.del_returned) dl.started_after_del++;
	dl.in_cb = 1; dl.runs++;
	/* react 1: the callback queues its own event again while it is running */
	if (dl.react == 1 && dl.runs == 1) { event_active(dl.ev, EV_WRITE, 1); dl.self_activated = 1; }
	sched_yield_point();
	if (dl.runs >= 3) { if (read(fd, &c, 1) < 0) {} }   /* stop being ready: keeps executions finite */
	sched_yield_point();
	dl.in_cb = 0;
}
static int del_selfact(void *arg) { (void)arg; return dl.self_activated; }
static void del_actor(void *arg)
{
	(void)arg;
	/* react 2: the deleting thread first activates the event (program order: the activation
	 * precedes the del, so the del must cancel it), possibly while its callback is running */
	if (dl.react == 2) event_active(dl.ev, EV_WRITE, 1);
	/* react 1: the callback re-activates its own event during its first run; the del is only
	 * issued once that activation has returned, so it precedes the del and must be cancelled by it
	 * (an activation that merely overlaps the del may legitimately be ordered after it) */
	if (dl.react == 1) sched_wait_until(del_selfact, NULL);
	switch (dl.variant) {
	case 0: event_del(dl.ev); break;
	case 1: event_del_block(dl.ev); break;
	case 2: event_del_noblock(dl.ev); break;
	case 3: event_free(dl.ev); dl.freed = 1; break;
	}
	if (dl.in_cb) dl.returned_while_running = 1;
	dl.del_returned = 1;
}
static void scen_del(void)
{
	struct timeval hour = { 3600, 0 };
	memset(&dl, 0, sizeof dl); far_fired = 0;
	begin();
	if (pipe2(dl.pipefd, O_NONBLOCK | O_CLOEXEC) < 0) abort();
	if (write(dl.pipefd[1], "x", 1) != 1) abort();
	dl.variant = pick(4, "variant");
	/* event_free() of an EV_FINALIZE event whose callback may be running is documented misuse
	 * (event_free_finalize exists for that), so that combination is not driven */
	dl.finalize = dl.variant == 3 ? 0 : pick(2, "finalize");
	dl.react = pick(3, "react");
	dl.far = evtimer_new(base, far_cb, NULL); event_add(dl.far, &hour);
	dl.ev = event_new(base, dl.pipefd[0], EV_READ | EV_PERSIST | (dl.finalize ? EV_FINALIZE : 0), del_cb, NULL);
	event_add(dl.ev, NULL);
	mc_observe("del %s%s react=%d", del_name[dl.variant], dl.finalize ? " EV_FINALIZE" : "", dl.react);
	arm_started();
	int t1 = sched_spawn(loop_thread, NULL);
	int t2 = sched_spawn(del_actor, NULL);
	sched_join(t2);
	final_break();
	sched_join(t1);
	/* blocking variants on a non-finalizable event: callback not running when del returns */
	int must_block = (dl.variant == 1) || ((dl.variant == 0 || dl.variant == 3) && !dl.finalize);
	if (must_block) { MC_COUNT("oracle_del_blocks"); if (dl.returned_while_running) mc_fail("C09/del-returned-while-callback-running", "%s returned in another thread while the event's callback was still running", del_name[dl.variant]); }
	MC_COUNT("oracle_no_start_after_del");
	if (dl.started_after_del) mc_fail("C09/callback-started-after-del", "%s returned, then the callback started %d more time(s)", del_name[dl.variant], dl.started_after_del);
	if (far_fired) mc_fail("C09/del/far-timer-fired", "the unrelated 1 h timer ran");
	mc_observe(" -> runs=%d", dl.runs);
	if (!dl.freed) event_free(dl.ev);
	event_free(dl.far); event_free(started_ev);
	close(dl.pipefd[0]); close(dl.pipefd[1]);
	finish();
}

/* ------------------------------------------------------------------ buf */
/* Two threads, two ops each, on one locked evbuffer (plus add_buffer between two
 * locked buffers).  Every op is recorded with its result; the observed tuple
 * must equal the tuple of one sequential interleaving of the same ops on a
 * byte-string model (brute force over the 6 interleavings). */
struct bop { int kind; int n; char data[8]; int ret; char out[8]; };
struct bufs { struct evbuffer *a, *b; struct bop ops[2][2]; };
static struct bufs bf;
static const char *bop_name[] = { "add", "remove", "drain", "prepend", "add_buffer(b->a)", "remove_buffer(a->b)" };
static void bop_run(struct bop *o)
{
	memset(o->out, 0, sizeof o->out);
	switch (o->kind) {
	case 0: o->ret = evbuffer_add(bf.a, o->data, o->n); break;
	case 1: o->ret = evbuffer_remove(bf.a, o->out, o->n); break;
	case 2: o->ret = evbuffer_drain(bf.a, o->n); break;
	case 3: o->ret = evbuffer_prepend(bf.a, o->data, o->n); break;
	case 4: o->ret = evbuffer_add_buffer(bf.a, bf.b); break;
	case 5: o->ret = evbuffer_remove_buffer(bf.a, bf.b, o->n); break;
	}
}
struct mstr { char s[64]; int n; };
static void m_add(struct mstr *m, const char *d, int n) { memcpy(m->s + m->n, d, n); m->n += n; }
static void m_pre(struct mstr *m, const char *d, int n) { memmove(m->s + n, m->s, m->n); memcpy(m->s, d, n); m->n += n; }
static void m_del(struct mstr *m, int n) { memmove(m->s, m->s + n, m->n - n); m->n -= n; }
static void bop_model(const struct bop *o, struct mstr *a, struct mstr *b, int *ret, char *out)
{
	int k;
	memset(out, 0, 8);
	switch (o->kind) {
	case 0: m_add(a, o->data, o->n); *ret = 0; break;
	case 1: k = o->n < a->n ? o->n : a->n; memcpy(out, a->s, k); m_del(a, k); *ret = k; break;
	case 2: k = o->n < a->n ? o->n : a->n; m_del(a, k); *ret = 0; break;
	case 3: m_pre(a, o->data, o->n); *ret = 0; break;
	case 4: m_add(a, b->s, b->n); b->n = 0; *ret = 0; break;
	case 5: k = o->n < a->n ? o->n : a->n; m_add(b, a->s, k); m_del(a, k); *ret = k; break;
	}
}
static void buf_actor(void *arg) { int t = (int)(long)arg; bop_run(&bf.ops[t][0]); bop_run(&bf.ops[t][1]); }
static void scen_buf(void)
{
	static const struct bop menu[] = { {0, 2, "AB"}, {1, 3, ""}, {2, 1, ""}, {3, 2, "xy"}, {4, 0, ""}, {5, 2, ""}, {0, 3, "CDE"} };
	const int NM = sizeof menu / sizeof menu[0];
	begin();
	bf.a = evbuffer_new(); bf.b = evbuffer_new();
	evbuffer_enable_locking(bf.a, NULL); evbuffer_enable_locking(bf.b, NULL);
	evbuffer_add(bf.a, "01", 2); evbuffer_add(bf.b, "pq", 2);
	for (int t = 0; t < 2; t++) for (int i = 0; i < 2; i++) bf.ops[t][i] = menu[pick(NM, "bufop")];
	mc_observe("buf t1:[%s,%s] t2:[%s,%s]", bop_name[bf.ops[0][0].kind], bop_name[bf.ops[0][1].kind], bop_name[bf.ops[1][0].kind], bop_name[bf.ops[1][1].kind]);
	int t1 = sched_spawn(buf_actor, (void *)0L);
	int t2 = sched_spawn(buf_actor, (void *)1L);
	sched_join(t1); sched_join(t2);
	/* observed */
	char fa[64], fb[64]; int la = evbuffer_get_length(bf.a), lb = evbuffer_get_length(bf.b);
	evbuffer_copyout(bf.a, fa, sizeof fa); evbuffer_copyout(bf.b, fb, sizeof fb);
	/* all interleavings preserving per-thread order: choose positions of thread-0 ops among 4 */
	static const int inter[6][4] = { {0,0,1,1}, {0,1,0,1}, {0,1,1,0}, {1,0,0,1}, {1,0,1,0}, {1,1,0,0} };
	int ok = 0;
	for (int k = 0; k < 6 && !ok; k++) {
		struct mstr a = { "01", 2 }, b = { "pq", 2 }; int idx[2] = { 0, 0 }, match = 1;
		for (int s = 0; s < 4; s++) {
			int t = inter[k][s]; struct bop *o = &bf.ops[t][idx[t]++]; int ret; char out[8];
			bop_model(o, &a, &b, &ret, out);
			if (ret != o->ret || memcmp(out, o->out, 8)) match = 0;
		}
		if (match && a.n == la && b.n == lb && !memcmp(a.s, fa, la) && !memcmp(b.s, fb, lb)) ok = 1;
	}
	MC_COUNT("oracle_linearizable");
	if (!ok) mc_fail("C09/evbuffer-not-linearizable", "a=%.*s b=%.*s rets=%d,%d,%d,%d matches no sequential order", la, fa, lb, fb, bf.ops[0][0].ret, bf.ops[0][1].ret, bf.ops[1][0].ret, bf.ops[1][1].ret);
	mc_observe(" -> a=%.*s b=%.*s", la, fa, lb, fb);
	evbuffer_free(bf.a); evbuffer_free(bf.b);
	finish();
}

/* ------------------------------------------------------------------ bev */
struct bv { struct bufferevent *p[2]; char got[64]; int ngot; int64_t last_at; int want; int events; };
static struct bv bv;
static void bv_read(struct bufferevent *b, void *arg)
{
	(void)arg;
	int n = bufferevent_read(b, bv.got + bv.ngot, sizeof bv.got - bv.ngot);
	bv.ngot += n; bv.last_at = vclock_us;
}
static void bv_event(struct bufferevent *b, short what, void *arg) { (void)b; (void)what; (void)arg; bv.events++; }
static void bv_actor(void *arg)
{
	(void)arg;
	bufferevent_write(bv.p[0], "hello", 5);
	sched_yield_point();
	bufferevent_write(bv.p[0], "world", 5);
}
static int bv_all(void *arg) { (void)arg; return bv.ngot >= bv.want; }
static void scen_bev(void)
{
	struct timeval hour = { 3600, 0 };
	memset(&bv, 0, sizeof bv); far_fired = 0;
	begin();
	int opts = BEV_OPT_THREADSAFE | (pick(2, "defer") ? BEV_OPT_DEFER_CALLBACKS : 0);
	struct event *far = evtimer_new(base, far_cb, NULL); event_add(far, &hour);
	bufferevent_pair_new(base, opts, bv.p);
	bufferevent_setcb(bv.p[1], bv_read, NULL, bv_event, NULL);
	bufferevent_enable(bv.p[1], EV_READ); bufferevent_enable(bv.p[0], EV_WRITE);
	bv.want = 10;
	mc_observe("bev pair%s", (opts & BEV_OPT_DEFER_CALLBACKS) ? " deferred" : "");
	arm_started();
	int t1 = sched_spawn(loop_thread, NULL);
	int t2 = sched_spawn(bv_actor, NULL);
	sched_join(t2);
	sched_wait_until(bv_all, NULL);
	MC_COUNT("oracle_bev_stream");
	if (bv.ngot != 10 || memcmp(bv.got, "helloworld", 10)) mc_fail("C09/bev-stream-corrupt", "read %d bytes '%.*s'", bv.ngot, bv.ngot, bv.got);
	if (bv.last_at >= HORIZON_US) mc_fail("C09/lost-wakeup/bufferevent_write", "data written from another thread was only delivered at virtual t=%lld us", (long long)bv.last_at);
	final_break();
	sched_join(t1);
	mc_observe(" -> got=%.*s", bv.ngot, bv.got);
	bufferevent_free(bv.p[0]); bufferevent_free(bv.p[1]);
	event_free(far); event_free(started_ev);
	/* deferred frees need one more pass of the loop */
	event_base_loop(base, EVLOOP_NONBLOCK);
	finish();
}

/* ------------------------------------------------------------------ mix */
/* Two actor threads, two ops each, on a timer event e0 and a one-shot read event e1 (always-readable
 * pipe) while the loop runs.  Checked at quiescence (loop parked on the far timer only, actors done):
 * nothing is left active or armed (a lost notification would leave it so), callbacks never exceed
 * the requests, an event that was only ever added/activated did run, base consistency holds. */
#include "event-internal.h"
struct mix { struct event *e[2], *far; int pipefd[2]; int runs[2], reqs[2], dels[2]; int ops[2][2]; int t1; };
static struct mix mx;
static const char *mix_name[] = { "add_timer(e0)", "del(e0)", "active(e0)", "add(e1)", "del(e1)", "active(e1)" };
static void mix_cb(evutil_socket_t fd, short what, void *arg) { (void)fd; (void)what; mx.runs[(int)(long)arg]++; }
static void mix_do(int op)
{
	struct timeval ms = { 0, 1000 };
	switch (op) {
	case 0: __sync_fetch_and_add(&mx.reqs[0], 1); event_add(mx.e[0], &ms); break;
	case 1: __sync_fetch_and_add(&mx.dels[0], 1); event_del(mx.e[0]); break;
	case 2: __sync_fetch_and_add(&mx.reqs[0], 1); event_active(mx.e[0], EV_WRITE, 1); break;
	case 3: __sync_fetch_and_add(&mx.reqs[1], 1); event_add(mx.e[1], NULL); break;
	case 4: __sync_fetch_and_add(&mx.dels[1], 1); event_del(mx.e[1]); break;
	case 5: __sync_fetch_and_add(&mx.reqs[1], 1); event_active(mx.e[1], EV_WRITE, 1); break;
	}
}
static void mix_actor(void *arg) { int t = (int)(long)arg; mix_do(mx.ops[t][0]); mix_do(mx.ops[t][1]); }
static int mix_quiet(void *arg) { (void)arg; return loop_exited || (loop_started && sched_thread_idle(mx.t1, HORIZON_US)); }
static void scen_mix(void)
{
	struct timeval hour = { 3600, 0 };
	memset(&mx, 0, sizeof mx); far_fired = 0;
	begin();
	if (pipe2(mx.pipefd, O_NONBLOCK | O_CLOEXEC) < 0) abort();
	if (write(mx.pipefd[1], "x", 1) != 1) abort();
	mx.far = evtimer_new(base, far_cb, NULL); event_add(mx.far, &hour);
	mx.e[0] = event_new(base, -1, 0, mix_cb, (void *)0L);
	mx.e[1] = event_new(base, mx.pipefd[0], EV_READ, mix_cb, (void *)1L);
	for (int t = 0; t < 2; t++) for (int i = 0; i < 2; i++) mx.ops[t][i] = pick(6, "mixop");
	mc_observe("mix t2:[%s,%s] t3:[%s,%s]", mix_name[mx.ops[0][0]], mix_name[mx.ops[0][1]], mix_name[mx.ops[1][0]], mix_name[mx.ops[1][1]]);
	arm_started();
	mx.t1 = sched_spawn(loop_thread, NULL);
	int t2 = sched_spawn(mix_actor, (void *)0L);
	int t3 = sched_spawn(mix_actor, (void *)1L);
	sched_join(t2); sched_join(t3);
	sched_wait_until(mix_quiet, NULL);
	MC_COUNT("oracle_mix_quiescent");
	if (vclock_us >= HORIZON_US || far_fired) mc_fail("C09/mix/slept-to-far-timer", "virtual time reached %lld us", (long long)vclock_us);
#ifndef C09_FREE
	for (int i = 0; i < 2; i++) {
		int p = event_pending(mx.e[i], EV_READ | EV_WRITE | EV_TIMEOUT, NULL);
		if (p) mc_fail("C09/mix/request-not-processed", "loop is parked on the far timer but e%d is still pending/active (%#x)", i, p);
		if (mx.runs[i] > mx.reqs[i]) mc_fail("C09/mix/extra-callback", "e%d ran %d times for %d requests", i, mx.runs[i], mx.reqs[i]);
		if (mx.reqs[i] && !mx.dels[i] && !mx.runs[i]) mc_fail("C09/mix/request-lost", "e%d was added/activated %d times, never deleted, and never ran", i, mx.reqs[i]);
	}
#endif
	event_base_assert_ok_(base);
	final_break();
	sched_join(mx.t1);
	mc_observe(" -> runs=%d,%d", mx.runs[0], mx.runs[1]);
	event_free(mx.e[0]); event_free(mx.e[1]); event_free(mx.far); event_free(started_ev);
	close(mx.pipefd[0]); close(mx.pipefd[1]);
	finish();
}

static const char *scen_arg = NULL;
static void body(void)
{
	const char *s = scen_arg ? scen_arg : mc_param_str("scen", "wake");
	if (!strcmp(s, "wake")) scen_wake();
	else if (!strcmp(s, "del")) scen_del();
	else if (!strcmp(s, "buf")) scen_buf();
	else if (!strcmp(s, "bev")) scen_bev();
	else if (!strcmp(s, "mix")) scen_mix();
}

#ifdef C09_FREE
/* free-running pass: item = (repetition, driver parameters); repetition only changes the jitter */
static uint64_t combo_cap;
static uint64_t combos(const char *s) { uint64_t c = !strcmp(s, "wake") ? 50 : !strcmp(s, "del") ? 24 : !strcmp(s, "buf") ? 2401 : !strcmp(s, "mix") ? 1296 : 2; return combo_cap && combo_cap < c ? combo_cap : c; }
static void free_item_fn(uint64_t i)
{
	uint64_t c = combos(scen_arg);
	free_mode = 1; free_item = i % c;
	sched_set_jitter((unsigned)i);
	body();
	MC_COUNT("tsan_free_runs");
	mc_nontrivial(i + 1);
}
#endif

int main(int argc, char **argv)
{
	struct mc_config cfg = { .property = "C09", .body = body, .init = init, .default_split = 3 };
#ifdef C09_FREE
	int reps = 4;
	scen_arg = "wake";
	for (int i = 1; i + 1 < argc; i++) if (!strcmp(argv[i], "-P")) {
		if (!strncmp(argv[i + 1], "scen=", 5)) scen_arg = argv[i + 1] + 5;
		if (!strncmp(argv[i + 1], "reps=", 5)) reps = atoi(argv[i + 1] + 5);
		if (!strncmp(argv[i + 1], "combos=", 7)) combo_cap = strtoull(argv[i + 1] + 7, NULL, 10);
	}
	cfg.body = NULL; cfg.item = free_item_fn; cfg.n_items = combos(scen_arg) * reps;
#endif
	return mc_main(argc, argv, &cfg);
}
