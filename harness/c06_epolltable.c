/* C06 — the epoll change table, all 8x4x4x4 rows x ET, against the live kernel.
 * The real static epoll_apply_one_change() (epoll.c is included here) is
 * applied to a fresh epoll fd holding exactly `old`; the registration is read
 * back from /proc/self/fdinfo and compared with (old ∪ adds) \ dels. */
#include "mcx.h"
#include "epoll.c"
#include <sys/socket.h>

static int n_ctl, first_rc, first_errno, first_op;
int __real_epoll_ctl(int epfd, int op, int fd, struct epoll_event *ev);
int __wrap_epoll_ctl(int epfd, int op, int fd, struct epoll_event *ev)
{
	int r = __real_epoll_ctl(epfd, op, fd, ev);
	if (n_ctl++ == 0) { first_rc = r; first_errno = errno; first_op = op; }
	return r;
}

/* returns registered epoll event mask of tfd in epfd, or -1 if absent */
static long registered(int epfd, int tfd)
{
	char fn[64], line[256]; long ev = -1;
	snprintf(fn, sizeof fn, "/proc/self/fdinfo/%d", epfd);
	FILE *f = fopen(fn, "r");
	if (!f) return -2;
	while (fgets(line, sizeof line, f)) {
		int t; unsigned e;
		if (sscanf(line, "tfd: %d events: %x", &t, &e) == 2 && t == tfd) ev = e;
	}
	fclose(f);
	return ev;
}

static unsigned to_epoll(int evs)
{
	unsigned e = 0;
	if (evs & EV_READ) e |= EPOLLIN;
	if (evs & EV_WRITE) e |= EPOLLOUT;
	if (evs & EV_CLOSED) e |= EPOLLRDHUP;
	return e;
}

static void item(uint64_t i)
{
	static const short olds[8] = {0, EV_READ, EV_WRITE, EV_READ|EV_WRITE, EV_CLOSED, EV_CLOSED|EV_READ, EV_CLOSED|EV_WRITE, EV_CLOSED|EV_READ|EV_WRITE};
	int old = olds[i & 7], rc = (i >> 3) & 3, wc = (i >> 5) & 3, cc = (i >> 7) & 3, et = (i >> 9) & 1;
	int sv[2];
	struct epollop op; struct event_change ch; struct epoll_event ee;
	if (socketpair(AF_UNIX, SOCK_STREAM, 0, sv) < 0) { mc_fail("harness:socketpair", "%s", strerror(errno)); return; }
	memset(&op, 0, sizeof op);
	op.epfd = epoll_create1(0);
	if (old) {
		memset(&ee, 0, sizeof ee); ee.events = to_epoll(old); ee.data.fd = sv[0];
		if (__real_epoll_ctl(op.epfd, EPOLL_CTL_ADD, sv[0], &ee) < 0) mc_fail("harness:preregister", "%s", strerror(errno));
	}
	memset(&ch, 0, sizeof ch);
	ch.fd = sv[0]; ch.old_events = old;
	ch.read_change = rc | (et && rc ? EV_CHANGE_ET : 0);
	ch.write_change = wc | (et && wc ? EV_CHANGE_ET : 0);
	ch.close_change = cc | (et && cc ? EV_CHANGE_ET : 0);
	int any_et = et && (rc || wc || cc);
	int impossible = rc == 3 || wc == 3 || cc == 3;
	int adds = (rc & 1 ? EV_READ : 0) | (wc & 1 ? EV_WRITE : 0) | (cc & 1 ? EV_CLOSED : 0);
	int dels = (rc & 2 ? EV_READ : 0) | (wc & 2 ? EV_WRITE : 0) | (cc & 2 ? EV_CLOSED : 0);
	int realizable = !impossible && (dels & ~old) == 0;
	int desired = impossible ? old : ((old | adds) & ~dels);
	n_ctl = 0; first_rc = 0;
	int r = epoll_apply_one_change(NULL, &op, &ch);
	long reg = registered(op.epfd, sv[0]);
	unsigned have = reg < 0 ? 0 : (unsigned)reg;
	mc_observe("old=%#x r=%d w=%d c=%d et=%d -> rc=%d nctl=%d reg=%#lx", old, rc, wc, cc, et, r, n_ctl, reg);
	if (n_ctl) mc_nontrivial(i + 1);
	if (impossible) {
		MC_COUNT("rows_impossible");
		if (n_ctl != 0) mc_fail("C06/impossible-row-issues-op", "old=%#x r=%d w=%d c=%d et=%d issued %d epoll_ctl", old, rc, wc, cc, et, n_ctl);
		if (r != 0) mc_fail("C06/impossible-row-fails", "old=%#x r=%d w=%d c=%d returned %d", old, rc, wc, cc, r);
	} else {
		if (realizable) MC_COUNT("rows_realizable"); else MC_COUNT("rows_unrealizable");
		if (r != 0) mc_fail("C06/change-fails", "old=%#x r=%d w=%d c=%d et=%d returned %d", old, rc, wc, cc, et, r);
		if ((have & (EPOLLIN|EPOLLOUT|EPOLLRDHUP)) != to_epoll(desired))
			mc_fail("C06/wrong-registration", "old=%#x r=%d w=%d c=%d et=%d: kernel holds %#x, desired %#x", old, rc, wc, cc, et, have, to_epoll(desired));
		if (adds | dels) {
			if (desired && any_et && (adds) && !(have & EPOLLET))
				mc_fail("C06/et-lost", "old=%#x r=%d w=%d c=%d et=1: EPOLLET not registered (%#x)", old, rc, wc, cc, have);
			if (!any_et && (have & EPOLLET))
				mc_fail("C06/et-spurious", "old=%#x r=%d w=%d c=%d et=0: EPOLLET registered", old, rc, wc, cc);
		}
		if (realizable && n_ctl > 0 && first_rc != 0)
			mc_fail("C06/kernel-rejects-op", "old=%#x r=%d w=%d c=%d: first epoll_ctl(op=%d) failed: %s", old, rc, wc, cc, first_op, strerror(first_errno));
		if (realizable && n_ctl > 1)
			mc_fail("C06/needs-fallback", "old=%#x r=%d w=%d c=%d: %d epoll_ctl calls", old, rc, wc, cc, n_ctl);
		if (realizable && (adds | dels) && n_ctl == 0 && desired != old)
			mc_fail("C06/no-op-issued", "old=%#x r=%d w=%d c=%d: nothing issued but %#x desired", old, rc, wc, cc, desired);
	}
	close(op.epfd); close(sv[0]); close(sv[1]);
}

int main(int argc, char **argv)
{
	struct mc_config cfg = { .property = "C06", .n_items = 1024, .item = item };
	return mc_main(argc, argv, &cfg);
}
