/* C20 — bufferevent read/write idle timeouts, socket / pair / filter.
 *
 * Tree-mode exploration of operation histories over the real bufferevent
 * code under a virtual clock.  One bufferevent under test (B):
 *   -P type=sock    bufferevent_socket_new on one end of an AF_UNIX socketpair
 *                   (SO_SNDBUF of B's end minimal, so that a big write blocks);
 *   -P type=pair    B = pair[0], peer P = pair[1];
 *   -P type=filter  B = identity filter over pair[0], peer P = pair[1].
 * The harness only *drives* B through public API calls and observes
 *   - successful transfers (evbuffer callbacks on B's input/output: bytes added
 *     to the input = a read happened, bytes removed from the output = a write
 *     happened), and
 *   - event callbacks (what, virtual time).
 * The oracle is a reference model of the two idle timers written from the
 * documentation of bufferevent_set_timeouts() (include/event2/bufferevent.h)
 * and the text of property C20 — see notes/bevB.md for the reading.
 */
#include "mcx.h"
#include "vclock.h"
#include <event2/event.h>
#include <event2/bufferevent.h>
#include <event2/buffer.h>
#include "event-internal.h"
#include "bufferevent-internal.h"
#include "ratelim-internal.h"
#include <sys/socket.h>
#include <unistd.h>
#include <errno.h>
#include <string.h>
#include <stdio.h>
#include <time.h>
#include <fcntl.h>

enum { T_SOCK, T_PAIR, T_FILTER };
enum { R = 0, W = 1 };
static const char *tname[] = { "sock", "pair", "filter" };
static const char *dname[] = { "read", "write" };

/* ------------------------------------------------------------------ */
/* implementation side                                                 */
static int type;
static struct event_base *base;
static struct bufferevent *B, *P, *U;   /* under test, peer (pair types), underlying (filter) */
static int fds[2];
static int harness_draining;            /* the harness itself removes bytes: not a transfer */
static struct ev_token_bucket_cfg *rlcfg; /* -P rl=1 (sock): 4 B per 4 ms tick, burst 4, both directions */

enum { L_XFER_R, L_XFER_W, L_EVENT };
struct logent { int kind; short what; int64_t t; size_t n, len_after; };
static struct logent slog[512]; static int nlog, log_overflow;
static long n_readcb, n_writecb, n_eventcb;

static void addlog(int kind, short what, size_t n, size_t len_after)
{
	if (nlog >= (int)(sizeof slog / sizeof slog[0])) { log_overflow = 1; return; }
	slog[nlog].kind = kind; slog[nlog].what = what; slog[nlog].t = vclock_us;
	slog[nlog].n = n; slog[nlog].len_after = len_after; nlog++;
}
static void in_cb(struct evbuffer *b, const struct evbuffer_cb_info *i, void *a)
{
	(void)a;
	if (i->n_added) addlog(L_XFER_R, 0, i->n_added, evbuffer_get_length(b));
}
static void out_cb(struct evbuffer *b, const struct evbuffer_cb_info *i, void *a)
{
	(void)a;
	if (i->n_deleted && !harness_draining) addlog(L_XFER_W, 0, i->n_deleted, evbuffer_get_length(b));
}
/* With a read high-water mark reached and a reader that does not drain, libevent
 * re-schedules the (deferred) read callback for ever (bufferevent_inbuf_wm_check):
 * a NONBLOCK loop would never return.  Timers activated in the same iteration sit
 * in the same queue behind at most one such callback, so breaking out after a
 * few invocations loses nothing. */
static int rd_in_call;
static void b_readcb(struct bufferevent *bev, void *a)
{
	(void)bev; (void)a; n_readcb++;
	if (++rd_in_call >= 4) event_base_loopbreak(base);
}
static void b_writecb(struct bufferevent *bev, void *a) { (void)bev; (void)a; n_writecb++; }
static void b_eventcb(struct bufferevent *bev, short what, void *a)
{
	(void)bev; (void)a; n_eventcb++;
	/* deferred callbacks OR the pending events together: TIMEOUT|READING|WRITING = both directions timed out */
	if (what == (BEV_EVENT_TIMEOUT|BEV_EVENT_READING|BEV_EVENT_WRITING)) {
		addlog(L_EVENT, BEV_EVENT_TIMEOUT|BEV_EVENT_READING, 0, 0);
		addlog(L_EVENT, BEV_EVENT_TIMEOUT|BEV_EVENT_WRITING, 0, 0);
	} else addlog(L_EVENT, what, 0, 0);
}
static void p_eventcb(struct bufferevent *bev, short what, void *a)
{
	(void)bev; (void)a;
	mc_fail("C20/harness/peer-event", "peer bufferevent got event %#x", (unsigned)what);
}
/* -P filt=rec: record-oriented input filter.  Passes complete 3-byte records and answers
 * BEV_NEED_MORE for a trailing partial record, so a single arrival of 10 bytes makes
 * be_filter_process_input() deliver 9 bytes (BEV_OK) and then end the same batch with
 * BEV_NEED_MORE — data was transferred although the last filter result is not BEV_OK. */
static enum bufferevent_filter_result
rec_in(struct evbuffer *src, struct evbuffer *dst, ev_ssize_t lim, enum bufferevent_flush_mode mode, void *ctx)
{
	size_t have = evbuffer_get_length(src), n = have / 3 * 3;
	(void)ctx;
	if (mode != BEV_NORMAL) n = have;
	else if (lim >= 0 && (size_t)lim < n) n = (size_t)lim / 3 * 3;
	if (n == 0) return BEV_NEED_MORE;
	MC_COUNT("record_filter_batches");
	return evbuffer_remove_buffer(src, dst, n) >= 0 ? BEV_OK : BEV_ERROR;
}
static void idle(void) { event_base_loopbreak(base); }
static void logcb(int sev, const char *m) { (void)sev; (void)m; }

/* ------------------------------------------------------------------ */
/* reference model (from the header documentation; see notes/bevB.md)   */
enum { BY_NONE, BY_ENABLE, BY_SETTMO, BY_WRITE, BY_XFER, BY_UNSUSPEND, BY_WATERMARK, BY_DISABLE, BY_OTHER };
static const char *byname[] = { "none", "enable", "set-timeouts", "output-became-pending", "transfer", "unsuspend",
	"watermark-reevaluated", "disable", "other" };
static struct {
	int en[2];
	int64_t tmo[2];          /* 0 = no timeout */
	int armed[2];
	int64_t deadline[2];
	int by[2];               /* which rule (re)started the running interval */
	int last[2];             /* last thing that happened to the direction (only feeds failure keys) */
	size_t wm_high;
	size_t inlen, outlen;    /* facts about the environment, taken from the real buffers */
	int susp_bw[2];          /* environment fact (rate-limited variant): direction suspended for bandwidth */
	int64_t cleared_at[2], cleared_tmo[2]; /* when set_timeouts removed the timeout of d, and what it was (keys only) */
} m;
static int dead;             /* model and implementation have diverged: stop the history */
static int64_t mono_now(void);

static int susp_r(void) { return m.wm_high && m.inlen >= m.wm_high; }
static int active(int d)
{
	if (!m.en[d] || !m.tmo[d] || m.susp_bw[d]) return 0;
	if (d == R) return !susp_r();
	return m.outlen > 0;
}
/* (re)evaluate after something changed; `by` names the rule when a new interval starts */
static void m_refresh(int d, int by)
{
	if (active(d)) {
		if (!m.armed[d]) { m.armed[d] = 1; m.deadline[d] = vclock_us + m.tmo[d]; m.by[d] = by; }
	} else m.armed[d] = 0;
}
/* restart the interval now (transfer, enable, set_timeouts) */
static void m_restart(int d, int by)
{
	if (active(d)) { m.armed[d] = 1; m.deadline[d] = vclock_us + m.tmo[d]; m.by[d] = by; }
	else m.armed[d] = 0;
}
static void failk(int d, const char *cls, const char *detail, const char *fmt, int64_t a, int64_t b)
{
	char key[160], msg[300];
	snprintf(key, sizeof key, "C20/%s/%s/%s%s%s", tname[type], dname[d], cls, detail ? "/" : "", detail ? detail : "");
	snprintf(msg, sizeof msg, fmt, (long long)a, (long long)b);
	mc_fail(key, "%s (t=%lld us; model: en=%d tmo=%lld armed=%d deadline=%lld in=%zu out=%zu wm=%zu)", msg,
	    (long long)vclock_us, m.en[d], (long long)m.tmo[d], m.armed[d], (long long)m.deadline[d], m.inlen, m.outlen, m.wm_high);
	dead = 1;
}

/* consume the implementation's log in order; after_loop: a loop step ran to quiescence */
static void m_consume(int after_loop)
{
	if (log_overflow) { mc_fail("C20/harness/log-overflow", "log overflow"); dead = 1; }
	for (int i = 0; i < nlog && !dead; i++) {
		struct logent *e = &slog[i];
		if (e->kind == L_XFER_R) {
			m.inlen = e->len_after;
			MC_COUNT("xfer_read");
			if (m.armed[R]) MC_COUNT("xfer_read_restarts_interval");
			m_restart(R, BY_XFER); m.last[R] = BY_XFER;
		} else if (e->kind == L_XFER_W) {
			m.outlen = e->len_after;
			MC_COUNT("xfer_write");
			if (m.armed[W]) MC_COUNT("xfer_write_restarts_interval");
			m_restart(W, BY_XFER); m.last[W] = BY_XFER;
		} else {
			short what = e->what;
			int d;
			mc_observe("ev(%#x@%lld) ", (unsigned)what, (long long)e->t);
			if (!(what & BEV_EVENT_TIMEOUT) ||
			    (what != (BEV_EVENT_TIMEOUT|BEV_EVENT_READING) && what != (BEV_EVENT_TIMEOUT|BEV_EVENT_WRITING))) {
				char k[96]; snprintf(k, sizeof k, "C20/%s/unexpected-event", tname[type]);
				mc_fail(k, "event %#x at %lld", (unsigned)what, (long long)e->t); dead = 1; break;
			}
			d = (what & BEV_EVENT_READING) ? R : W;
			if (!after_loop) { failk(d, "fires-outside-loop", NULL, "timeout event delivered by an API call%.0lld%.0lld", 0, 0); break; }
			if (!m.armed[d]) {
				const char *why = !m.en[d] ? "while-disabled" : !m.tmo[d] ? "without-timeout-set" :
				    m.susp_bw[d] ? "while-suspended-for-bandwidth" :
				    d == R ? "while-suspended" : "with-empty-output";
				failk(d, "spurious", why, "timeout fired although the idle timer is not running%.0lld%.0lld", 0, 0);
				break;
			}
			if (e->t < m.deadline[d]) {
				failk(d, "early", byname[m.by[d]], "timeout fired at %lld, interval runs until %lld", e->t, m.deadline[d]);
				break;
			}
			if (d == R) MC_COUNT("timeout_read_matched"); else MC_COUNT("timeout_write_matched");
			m.en[d] = 0; m.armed[d] = 0;
		}
	}
	nlog = 0;
}

/* environment facts: buffer lengths and (rate-limited variant) bandwidth suspension */
static void m_sync_env(void)
{
	struct bufferevent_private *p = BEV_UPCAST(B);
	m.inlen = evbuffer_get_length(bufferevent_get_input(B));
	m.outlen = evbuffer_get_length(bufferevent_get_output(B));
	m.susp_bw[R] = !!(p->read_suspended & (BEV_SUSPEND_BW|BEV_SUSPEND_BW_GROUP));
	m.susp_bw[W] = !!(p->write_suspended & (BEV_SUSPEND_BW|BEV_SUSPEND_BW_GROUP));
	m_refresh(R, BY_UNSUSPEND); m_refresh(W, BY_UNSUSPEND);
}

/* a loop step ran to quiescence at the current time */
static void m_after_loop(void)
{
	for (int d = 0; d < 2; d++) {
		if (m.armed[d] && vclock_us >= m.deadline[d]) {
			/* Signature (only used to key the failure): the implementation restarted the interval in
			 * this very loop run although no byte was transferred in it — its timer is pending with
			 * deadline now + duration. */
			struct event *ev = d == R ? &B->ev_read : &B->ev_write;
			int restarted = (ev->ev_evcallback.evcb_flags & EVLIST_TIMEOUT) &&
			    (int64_t)ev->ev_timeout.tv_sec * 1000000 + ev->ev_timeout.tv_usec - mono_now() == m.tmo[d];
			failk(d, "missing", restarted ? "restarted-in-loop-without-transfer" : byname[m.by[d]],
			    "no timeout although idle since %lld (now %lld)", m.deadline[d] - m.tmo[d], vclock_us);
			return;
		}
		if (m.armed[d]) { if (d == R) MC_COUNT("loop_with_read_timer_running"); else MC_COUNT("loop_with_write_timer_running"); }
	}
	/* the direction must really be disabled after a timeout, and only then */
	short en = bufferevent_get_enabled(B);
	for (int d = 0; d < 2; d++) {
		int real = !!(en & (d == R ? EV_READ : EV_WRITE));
		if (real != m.en[d]) {
			failk(d, real ? "not-disabled-after-timeout" : "disabled-without-timeout", NULL,
			    "bufferevent_get_enabled disagrees with the model (real=%lld model=%lld)", real, m.en[d]);
			return;
		}
	}
	MC_COUNT("enabled_state_compared");
}

/* ------------------------------------------------------------------ */
static void loop_steps(void)
{
	for (int i = 0; i < 32; i++) {
		long c0 = n_writecb + n_eventcb; int l0 = nlog;
		rd_in_call = 0;
		event_base_loop(base, EVLOOP_NONBLOCK);
		if (c0 == n_writecb + n_eventcb && l0 == nlog) return;
	}
	mc_fail("C20/harness/loop-does-not-settle", "32 loop steps without quiescence"); dead = 1;
}

static int64_t mono_now(void)
{
	struct timespec ts; clock_gettime(CLOCK_MONOTONIC, &ts);
	return (int64_t)ts.tv_sec * 1000000 + ts.tv_nsec / 1000;
}
static uint64_t h_event(uint64_t h, struct event *ev)
{
	int fl = ev->ev_evcallback.evcb_flags & (EVLIST_INSERTED|EVLIST_TIMEOUT|EVLIST_ACTIVE|EVLIST_ACTIVE_LATER);
	h = mc_hash_u64(h, (uint64_t)fl);
	if (fl & EVLIST_TIMEOUT)
		h = mc_hash_u64(h, (uint64_t)((int64_t)ev->ev_timeout.tv_sec * 1000000 + ev->ev_timeout.tv_usec - mono_now()));
	h = mc_hash_u64(h, (uint64_t)ev->ev_.ev_io.ev_timeout.tv_sec * 1000000 + ev->ev_.ev_io.ev_timeout.tv_usec);
	return h;
}
static uint64_t h_bev(uint64_t h, struct bufferevent *b)
{
	struct bufferevent_private *p = BEV_UPCAST(b);
	h = mc_hash_u64(h, (uint64_t)b->enabled);
	h = mc_hash_u64(h, (uint64_t)b->timeout_read.tv_sec * 1000000 + b->timeout_read.tv_usec);
	h = mc_hash_u64(h, (uint64_t)b->timeout_write.tv_sec * 1000000 + b->timeout_write.tv_usec);
	h = mc_hash_u64(h, (uint64_t)p->read_suspended | (uint64_t)p->write_suspended << 16);
	h = mc_hash_u64(h, (uint64_t)b->wm_read.high); h = mc_hash_u64(h, (uint64_t)b->wm_read.low);
	h = mc_hash_u64(h, (uint64_t)b->wm_write.high); h = mc_hash_u64(h, (uint64_t)b->wm_write.low);
	h = mc_hash_u64(h, evbuffer_get_length(b->input)); h = mc_hash_u64(h, evbuffer_get_length(b->output));
	h = mc_hash_u64(h, (uint64_t)p->readcb_pending | (uint64_t)p->writecb_pending << 1 | (uint64_t)(unsigned short)p->eventcb_pending << 2);
	h = mc_hash_u64(h, (uint64_t)(p->deferred.evcb_flags & (EVLIST_ACTIVE|EVLIST_ACTIVE_LATER)));
	h = mc_hash_u64(h, (uint64_t)p->refcnt);
	h = h_event(h, &b->ev_read); h = h_event(h, &b->ev_write);
	if (p->rate_limiting && p->rate_limiting->cfg) {
		struct timeval tv; unsigned tick;
		evutil_gettimeofday(&tv, NULL);
		tick = ev_token_bucket_get_tick_(&tv, p->rate_limiting->cfg);
		h = mc_hash_u64(h, (uint64_t)p->rate_limiting->limit.read_limit);
		h = mc_hash_u64(h, (uint64_t)p->rate_limiting->limit.write_limit);
		h = mc_hash_u64(h, (uint64_t)(tick - p->rate_limiting->limit.last_updated));
		h = h_event(h, &p->rate_limiting->refill_bucket_event);
		h = mc_hash_u64(h, (uint64_t)(vclock_us % 4000));   /* position inside the 4 ms tick */
	}
	return h;
}
/* kernel side of the socket type */
static size_t k_in;                       /* bytes written by the peer and not yet read by B */
static size_t k_out[64]; static int n_k_out; /* sizes of B's successful writes since the peer last drained */

/* Canonical state.  Argument for completeness: the remaining operations are
 * API calls on B (and P), loop steps and clock advances.  What they do depends
 * on (a) the fields of B, P, U hashed by h_bev: enabled mask, configured
 * timeouts, suspend bits, watermarks, buffer lengths, pending deferred
 * callbacks, refcount, and for both internal events their queue membership,
 * their deadline *relative to now* (libevent only ever compares deadlines with
 * the current time or adds a duration to it, so absolute time is irrelevant) and
 * the persistent interval; (b) for sockets the kernel queues: number of unread
 * bytes towards B and the exact sequence of skb sizes towards the peer (which
 * decides writability); (c) the model's own state (timers relative to now,
 * rule tags that only feed failure keys are included too, so that keys are
 * path-independent).  Chain layout of the evbuffers is not included: no timer
 * decision reads it (transfers are taken as environment facts whatever their
 * chunking).  The base has no other events. */
static uint64_t canon(void)
{
	uint64_t h = mc_hash_u64(0x20, (uint64_t)type);
	for (int d = 0; d < 2; d++) {
		h = mc_hash_u64(h, (uint64_t)m.en[d]); h = mc_hash_u64(h, (uint64_t)m.tmo[d]);
		h = mc_hash_u64(h, (uint64_t)m.armed[d]);
		h = mc_hash_u64(h, m.armed[d] ? (uint64_t)(m.deadline[d] - vclock_us) : 0);
		h = mc_hash_u64(h, m.armed[d] ? (uint64_t)m.by[d] : 0);
		h = mc_hash_u64(h, (uint64_t)m.susp_bw[d]);
	}
	h = mc_hash_u64(h, m.wm_high); h = mc_hash_u64(h, m.inlen); h = mc_hash_u64(h, m.outlen);
	h = h_bev(h, B);
	if (P) h = h_bev(h, P);
	if (U) h = h_bev(h, U);
	if (type == T_SOCK) {
		h = mc_hash_u64(h, k_in);
		for (int i = 0; i < n_k_out; i++) h = mc_hash_u64(h, k_out[i]);
		h = mc_hash_u64(h, (uint64_t)n_k_out);
	}
	return h;
}

/* ------------------------------------------------------------------ */
static const int64_t TMO[3] = { 0, 1000, 5000 };
static const int64_t ADV[5] = { 999, 1000, 4000, 5000, 1000000 };
static char payload[16384];

static void track_kernel_writes(void)
{
	/* called before m_consume: remember B's successful socket writes (skb sizes) */
	if (type != T_SOCK) return;
	for (int i = 0; i < nlog; i++)
		if (slog[i].kind == L_XFER_W && n_k_out < 64) k_out[n_k_out++] = slog[i].n;
		else if (slog[i].kind == L_XFER_R) k_in -= slog[i].n < k_in ? slog[i].n : k_in;
}

static void init(void)
{
	mcx_alloc_install();
	event_set_log_callback(logcb);
	const char *t = mc_param_str("type", "sock");
	type = !strcmp(t, "pair") ? T_PAIR : !strcmp(t, "filter") ? T_FILTER : T_SOCK;
	memset(payload, 'x', sizeof payload);
}

static void set_tmo(int r, int w)
{
	struct timeval tr = { 0, (int)TMO[r] }, tw = { 0, (int)TMO[w] };
	bufferevent_set_timeouts(B, r ? &tr : NULL, w ? &tw : NULL);
	if (!TMO[r] && m.tmo[R]) { m.cleared_at[R] = vclock_us; m.cleared_tmo[R] = m.tmo[R]; }
	if (!TMO[w] && m.tmo[W]) { m.cleared_at[W] = vclock_us; m.cleared_tmo[W] = m.tmo[W]; }
	m.tmo[R] = TMO[r]; m.tmo[W] = TMO[w];
	/* "setting a timeout for a bufferevent whose timeout is already pending resets its timeout" */
	m_restart(R, BY_SETTMO); m_restart(W, BY_SETTMO);
	m.last[R] = m.last[W] = BY_SETTMO;
}

static void body(void)
{
	int D = mc_param("depth", 5);
	int bevopts = mc_param("defer", 0) ? BEV_OPT_DEFER_CALLBACKS : 0;
	int big = mc_param("big", 8192);
	int noset = mc_param("noset", 0);
	int pwm = mc_param("pwm", 8);            /* peer's read high-water mark (pair types): partial transfers */
	static int fd_base = -1;   /* lowest free descriptor at baseline; executions use < 64 descriptors */
	long live0 = mcx_alloc_live();
	struct bufferevent *pr[2] = { NULL, NULL };
	if (fd_base < 0) { fd_base = dup(0); close(fd_base); }

	vclock_reset(); vclock_idle_hook = idle; vclock_block_hook = NULL;
	nlog = 0; log_overflow = 0; dead = 0; n_readcb = n_writecb = n_eventcb = 0; harness_draining = 0;
	k_in = 0; n_k_out = 0;
	memset(&m, 0, sizeof m);
	B = P = U = NULL; fds[0] = fds[1] = -1; rlcfg = NULL;

	base = event_base_new();
	if (!base) { mc_fail("C20/harness/setup", "event_base_new"); return; }
	base->weakrand_seed.seed = 12345;
	if (type == T_SOCK) {
		int one = 1;
		if (socketpair(AF_UNIX, SOCK_STREAM | SOCK_NONBLOCK, 0, fds) < 0) { mc_fail("C20/harness/setup", "socketpair"); goto out; }
		setsockopt(fds[0], SOL_SOCKET, SO_SNDBUF, &one, sizeof one);   /* kernel minimum (4608): an 8 KiB write blocks half-way */
		B = bufferevent_socket_new(base, fds[0], bevopts);
	} else {
		if (bufferevent_pair_new(base, 0, pr) < 0) { mc_fail("C20/harness/setup", "pair_new"); goto out; }
		P = pr[1];
		bufferevent_setcb(P, NULL, NULL, p_eventcb, NULL);
		if (pwm) bufferevent_setwatermark(P, EV_READ, 0, (size_t)pwm);
		if (type == T_PAIR) B = pr[0];
		else {
			U = pr[0];
			B = bufferevent_filter_new(U, !strcmp(mc_param_str("filt", "id"), "rec") ? rec_in : NULL, NULL, bevopts, NULL, NULL);
		}
	}
	if (!B) { mc_fail("C20/harness/setup", "bufferevent"); goto out; }
	bufferevent_setcb(B, b_readcb, b_writecb, b_eventcb, NULL);
	evbuffer_add_cb(bufferevent_get_input(B), in_cb, NULL);
	evbuffer_add_cb(bufferevent_get_output(B), out_cb, NULL);
	if (type == T_SOCK && mc_param("rl", 0)) {
		struct timeval tick = { 0, 4000 };
		rlcfg = ev_token_bucket_cfg_new(4, 4, 4, 4, &tick);
		if (!rlcfg || bufferevent_set_rate_limit(B, rlcfg) < 0) { mc_fail("C20/harness/setup", "rate limit"); goto out; }
	}
	bufferevent_enable(B, EV_READ | EV_WRITE);
	m.en[R] = m.en[W] = 1;
	{	/* optional preset timeouts (saves depth): -P rt=<0..2> -P wt=<0..2> */
		int rt = mc_param("rt", 0), wt = mc_param("wt", 0);
		if (rt || wt) set_tmo(rt, wt);
	}

	enum { OP_END, OP_SETTMO, OP_EN_R, OP_EN_W, OP_DIS_R, OP_DIS_W, OP_WRITE, OP_WRITE_BIG, OP_PEER_WRITE,
	       OP_DRAIN, OP_PEER_DRAIN, OP_WM, OP_ADV, OP_LOOP, N_OPS };
	for (int step = 0; step < D && !dead; step++) {
		/* -P noset=1 (with preset -P rt/wt): set_timeouts is not part of the alphabet */
		int op = noset ? mc_choose(N_OPS - 1, 0, "op") : mc_choose(N_OPS, 0, "op");
		int after_loop = 0;
		if (noset && op >= OP_SETTMO) op++;
		if (op == OP_END) break;
		switch (op) {
		case OP_SETTMO: {
			int a = mc_choose(9, 0, "tmo"); int r = a / 3, w = a % 3;
			set_tmo(r, w);
			mc_observe("tmo(%d,%d) ", (int)TMO[r], (int)TMO[w]);
			break; }
		case OP_EN_R: case OP_EN_W: {
			int d = op == OP_EN_R ? R : W;
			bufferevent_enable(B, d == R ? EV_READ : EV_WRITE);
			m.en[d] = 1;
			/* "calling bufferevent_enable ... for a bufferevent whose timeout is already pending resets its timeout" */
			m_restart(d, BY_ENABLE); m.last[d] = BY_ENABLE;
			mc_observe("en%c ", d == R ? 'R' : 'W');
			break; }
		case OP_DIS_R: case OP_DIS_W: {
			int d = op == OP_DIS_R ? R : W;
			bufferevent_disable(B, d == R ? EV_READ : EV_WRITE);
			m.en[d] = 0; m_refresh(d, BY_OTHER); m.last[d] = BY_DISABLE;
			mc_observe("dis%c ", d == R ? 'R' : 'W');
			break; }
		case OP_WRITE: case OP_WRITE_BIG: {
			size_t n = op == OP_WRITE ? 10 : (size_t)big;
			if (op == OP_WRITE_BIG && type != T_SOCK) n = 20;
			bufferevent_write(B, payload, n);
			m.outlen = evbuffer_get_length(bufferevent_get_output(B));
			m_refresh(W, BY_WRITE); m.last[W] = BY_WRITE;
			mc_observe("w(%zu) ", n);
			break; }
		case OP_PEER_WRITE:
			if (type == T_SOCK) {
				ssize_t r = write(fds[1], payload, 10);
				if (r != 10) { mc_fail("C20/harness/peer-write", "write -> %zd", r); dead = 1; }
				k_in += 10;
			} else bufferevent_write(P, payload, 10);
			mc_observe("pw ");
			break;
		case OP_DRAIN: {
			struct evbuffer *in = bufferevent_get_input(B);
			size_t had = evbuffer_get_length(in);
			harness_draining = 1;
			evbuffer_drain(in, evbuffer_get_length(in));
			harness_draining = 0;
			/* an immediate transfer triggered by the drain (pair) is in the log and is applied after this */
			m.inlen = 0;
			/* With a read high-water mark set, every change of the input length re-evaluates
			 * the suspension (bufferevent_inbuf_wm_cb) and, when reading is left runnable,
			 * re-enables it through the same path as bufferevent_enable(): the read interval
			 * restarts ("calling bufferevent_enable ... resets its timeout").  See notes/bevB.md (a). */
			if (m.wm_high && had) { m_restart(R, BY_WATERMARK); m.last[R] = BY_WATERMARK; }
			else m_refresh(R, BY_UNSUSPEND);
			mc_observe("drain ");
			break; }
		case OP_PEER_DRAIN:
			if (type == T_SOCK) {
				char buf[4096]; while (read(fds[1], buf, sizeof buf) > 0) ;
				n_k_out = 0;
			} else {
				struct evbuffer *pin = bufferevent_get_input(P);
				bufferevent_enable(P, EV_READ);      /* takes what B (or U) has pending, up to P's high-water mark */
				bufferevent_disable(P, EV_READ);
				evbuffer_drain(pin, evbuffer_get_length(pin));
			}
			mc_observe("pdrain ");
			break;
		case OP_WM: {
			size_t hi = mc_choose(2, 0, "wm") ? 0 : 4;
			bufferevent_setwatermark(B, EV_READ, 0, hi);
			/* bufferevent_setwatermark(EV_READ) re-evaluates the suspension and re-enables
			 * reading when it is left runnable: restarts the read interval (notes/bevB.md (a)) */
			m.wm_high = hi; m_restart(R, BY_WATERMARK); m.last[R] = BY_WATERMARK;
			mc_observe("wm(%zu) ", hi);
			break; }
		case OP_ADV: {
			int64_t d = ADV[mc_choose(5, 0, "adv")];
			vclock_advance(d);
			mc_observe("adv(%lld) ", (long long)d);
			loop_steps(); after_loop = 1;
			break; }
		case OP_LOOP:
			loop_steps(); after_loop = 1;
			mc_observe("loop ");
			break;
		}
		track_kernel_writes();
		m_consume(after_loop);
		if (dead) break;
		m_sync_env();
		if (after_loop) m_after_loop();
		if (dead) break;
		mc_observe("[%d%d a%d%d] ", m.en[R], m.en[W], m.armed[R], m.armed[W]);
		if (mc_state(canon(), D - 1 - step)) break;
	}
out:
	if (B) bufferevent_free(B);
	if (U) bufferevent_free(U);
	if (P) bufferevent_free(P);
	if (base) { event_base_loop(base, EVLOOP_NONBLOCK); event_base_free(base); }
	if (rlcfg) ev_token_bucket_cfg_free(rlcfg);
	if (fds[0] >= 0) close(fds[0]);
	if (fds[1] >= 0) close(fds[1]);
	B = P = U = NULL; base = NULL;
	if (mcx_alloc_live() != live0) mc_fail("C20/hygiene/leak", "%ld library allocations left", mcx_alloc_live() - live0);
	for (int f = fd_base; f < fd_base + 64; f++)
		if (fcntl(f, F_GETFD) != -1) { mc_fail("C20/hygiene/fdleak", "descriptor %d left open", f); close(f); }
}

/* freed blocks need not sit in a 256 MB quarantine: every execution frees all it allocated, and
 * recycling the heap early keeps the workers out of the page-fault path (4x faster) */
const char *__asan_default_options(void) { return "quarantine_size_mb=2"; }

int main(int c, char **v)
{
	struct mc_config cfg = { .property = "C20", .body = body, .init = init };
	return mc_main(c, v, &cfg);
}
