/* C39 — resolv.conf / hosts parsing and evdns_base_set_option.
 *
 * Shard mode.  Every item is one configuration text (or one set_option call
 * sequence) given to the real evdns.c (included below so that the resulting
 * state can be read from the base's fields) and to a reference parser written
 * from include/event2/dns.h, resolv.conf(5) and hosts(5).  Files are passed as
 * /proc/self/fd/<memfd>.  Sub-spaces (see notes/dnse2e.md for the readings):
 *   G  resolv.conf files made of every ordered pair (and every single, under every
 *      flag subset / line ending) of the directive lines in rc_lines[],
 *   G3 (thorough) every ordered triple of those lines;  HL every single / ordered pair of the hosts lines in hosts_lines[],
 *   R  every sequence of <= len tokens over the 10-token alphabet rc_tok[] as resolv.conf,
 *   H  every sequence of <= len tokens over hosts_tok[] as hosts file,
 *   C  every string of <= len characters over hosts_chr[] as hosts file,
 *   O  evdns_base_set_option(name, value) for every option name form x value in
 *      opt_vals[], and every ordered pair of a reduced set.
 * Compared: return values, nameserver set (evdns_base_count_nameservers /
 * evdns_base_get_nameserver_addr), search list and ndots, every option field
 * (fields the reference says are untouched must keep the value of a pristine base),
 * the hosts database and, through evdns_getaddrinfo, what a lookup of a listed name
 * returns; allocator / fd baselines; ASan. */
#include "mcx.h"
#include "evdns.c"
#include <sys/mman.h>
#include <ctype.h>

static void logcb(int sev, const char *msg) { (void)sev; (void)msg; }
static long a_live;
static void *a_malloc(size_t n) { void *p = malloc(n ? n : 1); if (p) a_live++; return p; }
static void *a_realloc(void *p, size_t n) { if (!p) return a_malloc(n); if (!n) { free(p); a_live--; return NULL; } return realloc(p, n); }
static void a_free(void *p) { if (p) { a_live--; free(p); } }

static int memfd = -1; static char memfd_path[64];
static uint64_t fd0;
static char hostname_domain[256];      /* search default derived from gethostname(), "" if none */

static void set_file(const char *data, size_t len)
{
	if (ftruncate(memfd, 0) < 0 || pwrite(memfd, data, len, 0) != (ssize_t)len) { mc_fail("harness:memfd", "write failed"); }
}

/* ================================================================== reference: addresses */
/* Formats documented for evdns_base_nameserver_ip_add: [v6]:port, [v6], v6, v4:port, v4.
 * Literal validity is the platform's strict inet_pton (as for C40).  Port: 1..65535, digits only. */
static int all_digits(const char *s) { if (!*s) return 0; for (; *s; s++) if (!isdigit((unsigned char)*s)) return 0; return 1; }
static int ref_port_text(const char *s) { if (!all_digits(s) || strlen(s) > 5) return -1; int v = atoi(s); return v >= 1 && v <= 65535 ? v : -1; }

/* IPv6 literal with an optional %zone (scoped address): the zone must name an interface or be a
 * decimal index; 1 valid, 0 invalid, -2 not pinned (empty zone) */
#include <net/if.h>
static int ref_pton6_zone(const char *txt, struct in6_addr *out)
{
	char buf[160]; const char *pc = strchr(txt, '%');
	if (!pc) return inet_pton(AF_INET6, txt, out) == 1;
	if (!pc[1]) return -2;
	if ((size_t)(pc - txt) >= sizeof buf) return 0;
	if (!if_nametoindex(pc + 1) && !(all_digits(pc + 1) && strlen(pc + 1) <= 9)) return 0;
	memcpy(buf, txt, pc - txt); buf[pc - txt] = 0;
	return inet_pton(AF_INET6, buf, out) == 1;
}

static int ref_parse_addr(const char *txt, struct sockaddr_storage *out, int *outlen, int *had_port)
{
	int zr;
	char buf[160]; struct sockaddr_in sin; struct sockaddr_in6 sin6; int port = 0;
	size_t n = strlen(txt);
	*had_port = 0;
	memset(out, 0, sizeof *out); memset(&sin, 0, sizeof sin); memset(&sin6, 0, sizeof sin6);
	if (n == 0 || n >= sizeof buf) return -1;
	if (txt[0] == '[') {
		const char *rb = strchr(txt, ']');
		if (!rb) return -1;
		memcpy(buf, txt + 1, rb - txt - 1); buf[rb - txt - 1] = 0;
		if (rb[1] == ':') { port = ref_port_text(rb + 2); if (port < 0) return -1; *had_port = 1; }
		else if (rb[1]) return -2;               /* junk after ']': documentation silent */
		if ((zr = ref_pton6_zone(buf, &sin6.sin6_addr)) != 1) return zr == -2 ? -2 : -1;
		sin6.sin6_family = AF_INET6; sin6.sin6_port = htons(port);
		memcpy(out, &sin6, sizeof sin6); *outlen = sizeof sin6; return 0;
	}
	const char *c1 = strchr(txt, ':');
	if (c1 && strchr(c1 + 1, ':')) {
		if ((zr = ref_pton6_zone(txt, &sin6.sin6_addr)) != 1) return zr == -2 ? -2 : -1;
		sin6.sin6_family = AF_INET6;
		memcpy(out, &sin6, sizeof sin6); *outlen = sizeof sin6; return 0;
	}
	if (c1) {
		memcpy(buf, txt, c1 - txt); buf[c1 - txt] = 0;
		port = ref_port_text(c1 + 1); if (port < 0) return -1; *had_port = 1;
	} else strcpy(buf, txt);
	if (inet_pton(AF_INET, buf, &sin.sin_addr) != 1) return -1;
	sin.sin_family = AF_INET; sin.sin_port = htons(port);
	memcpy(out, &sin, sizeof sin); *outlen = sizeof sin; return 0;
}

static int ns_unspecified;   /* the text contains a nameserver/bind form the documentation does not pin down */

/* ================================================================== reference: options */
enum { K_INT, K_TV, K_FLAG, K_ADDR };
enum { O_NDOTS, O_TIMEOUT, O_SKEW, O_MAXTIMEOUTS, O_MAXINFLIGHT, O_ATTEMPTS, O_RANDCASE, O_BINDTO, O_INITPROBE, O_MAXPROBE, O_BACKOFF,
       O_RCVBUF, O_SNDBUF, O_TCPIDLE, O_USEVC, O_IGNTC, O_EDNS, O_N };
static const struct optdef { const char *name; int kind; int need; long lo, hi; } optdefs[O_N] = {
	/* lo..hi: values every reading of the documentation accepts verbatim; outside: unspecified (clipping is not documented) */
	{ "ndots", K_INT, DNS_OPTION_SEARCH, 0, 15 },
	{ "timeout", K_TV, DNS_OPTION_MISC, 1, 30 },
	{ "getaddrinfo-allow-skew", K_TV, DNS_OPTION_MISC, 1, 30 },
	{ "max-timeouts", K_INT, DNS_OPTION_MISC, 1, 255 },
	{ "max-inflight", K_INT, DNS_OPTION_MISC, 1, 65000 },
	{ "attempts", K_INT, DNS_OPTION_MISC, 1, 5 },
	{ "randomize-case", K_INT, DNS_OPTION_MISC, 0, 1 },
	{ "bind-to", K_ADDR, DNS_OPTION_NAMESERVERS, 0, 0 },
	{ "initial-probe-timeout", K_TV, DNS_OPTION_MISC, 1, 3600 },
	{ "max-probe-timeout", K_INT, DNS_OPTION_MISC, 1, 3600 },
	{ "probe-backoff-factor", K_INT, DNS_OPTION_MISC, 1, 10 },
	{ "so-rcvbuf", K_INT, DNS_OPTION_MISC, 1, 1 << 20 },
	{ "so-sndbuf", K_INT, DNS_OPTION_MISC, 1, 1 << 20 },
	{ "tcp-idle-timeout", K_TV, DNS_OPTION_MISC, 1, 3600 },
	{ "use-vc", K_FLAG, DNS_OPTION_MISC, 0, 0 },
	{ "ignore-tc", K_FLAG, DNS_OPTION_MISC, 0, 0 },
	{ "edns-udp-size", K_INT, DNS_OPTION_MISC, 512, 65535 },
};

/* the observable configuration of a base */
struct conf {
	int nns; struct sockaddr_storage ns[24]; int nslen[24];
	int have_search; int nsearch; char search[24][80]; int ndots;
	long v[O_N];                 /* int options; timevals in microseconds; flags 0/1 */
	struct sockaddr_storage bind; int bindlen;
	unsigned unspecified;        /* bit per option: the reference does not pin the value */
	int nhosts; struct { char name[80]; struct sockaddr_storage a; int alen; } hosts[48];
	int hosts_overflow;
};

static void conf_from_base(struct evdns_base *b, struct conf *c)
{
	memset(c, 0, sizeof *c);
	c->nns = evdns_base_count_nameservers(b);
	for (int i = 0; i < c->nns && i < 24; i++) {
		int r = evdns_base_get_nameserver_addr(b, i, (struct sockaddr *)&c->ns[i], sizeof c->ns[i]);
		c->nslen[i] = r;
	}
	if (b->global_search_state) {
		struct search_domain *d; int k = 0;
		c->have_search = 1; c->ndots = b->global_search_state->ndots;
		for (d = b->global_search_state->head; d && k < 24; d = d->next, k++) {
			int l = d->len < 79 ? d->len : 79;
			memcpy(c->search[k], (char *)d + sizeof(struct search_domain), l); c->search[k][l] = 0;
		}
		c->nsearch = b->global_search_state->num_domains;
	} else c->ndots = 1;
	c->v[O_NDOTS] = c->ndots;
#define TVUS(tv) ((long)(tv).tv_sec * 1000000L + (tv).tv_usec)
	c->v[O_TIMEOUT] = TVUS(b->global_timeout);
	c->v[O_SKEW] = TVUS(b->global_getaddrinfo_allow_skew);
	c->v[O_MAXTIMEOUTS] = b->global_max_nameserver_timeout;
	c->v[O_MAXINFLIGHT] = b->global_max_requests_inflight;
	c->v[O_ATTEMPTS] = b->global_max_retransmits;
	c->v[O_RANDCASE] = b->global_randomize_case;
	c->v[O_INITPROBE] = TVUS(b->global_nameserver_probe_initial_timeout);
	c->v[O_MAXPROBE] = b->ns_max_probe_timeout;
	c->v[O_BACKOFF] = b->ns_timeout_backoff_factor;
	c->v[O_RCVBUF] = b->so_rcvbuf;
	c->v[O_SNDBUF] = b->so_sndbuf;
	c->v[O_TCPIDLE] = TVUS(b->global_tcp_idle_timeout);
	c->v[O_USEVC] = !!(b->global_tcp_flags & DNS_QUERY_USEVC);
	c->v[O_IGNTC] = !!(b->global_tcp_flags & DNS_QUERY_IGNTC);
	c->v[O_EDNS] = b->global_max_udp_size;
	c->bindlen = b->global_outgoing_addrlen;
	if (c->bindlen) memcpy(&c->bind, &b->global_outgoing_address, c->bindlen);
	struct hosts_entry *he; int k = 0;
	TAILQ_FOREACH(he, &b->hostsdb, next) {
		if (k >= 48) { c->hosts_overflow = 1; break; }
		snprintf(c->hosts[k].name, sizeof c->hosts[k].name, "%s", he->hostname);
		memcpy(&c->hosts[k].a, &he->addr, he->addrlen); c->hosts[k].alen = he->addrlen;
		k++;
	}
	c->nhosts = k;
}

/* does `name` select option o?  "ndots", "ndots:" and "ndots:<anything>" do (header: the
 * colon form is the pre-2.0.3 spelling; resolv.conf passes "name:value" as the name). */
static int opt_lookup(const char *name)
{
	for (int o = 0; o < O_N; o++) {
		size_t l = strlen(optdefs[o].name);
		if (!strncmp(name, optdefs[o].name, l) && (name[l] == 0 || name[l] == ':')) return o;
	}
	return -1;
}

/* value classes: 1 plain (pinned), 0 malformed (must be rejected), 2 unspecified */
static int classify_int(const char *v, long lo, long hi, long *out)
{
	if (!v || !*v) return 0;
	if (all_digits(v) && strlen(v) <= 9) { *out = atol(v); return (*out >= lo && *out <= hi) ? 1 : 2; }
	if (all_digits(v)) return 2;                                 /* huge */
	if ((v[0] == '-' || v[0] == '+' || isspace((unsigned char)v[0])) ) return 2;   /* strtol-isms: undocumented */
	if (isdigit((unsigned char)v[0])) {
		/* digits followed by junk: malformed, unless it is a decimal fraction / exponent (undocumented for integers) */
		const char *p = v; while (isdigit((unsigned char)*p)) p++;
		return (*p == '.' || *p == 'e' || *p == 'E') ? 2 : 0;
	}
	return 0;
}

/* apply one option to the reference configuration.  Returns the expected API return:
 * 0 ok, -1 rejected, 2 either.  `flags`: which groups the caller enabled. */
static int ref_set_option(struct conf *c, const char *name, const char *val, int flags)
{
	int o = opt_lookup(name); long v = 0; int cls;
	if (o < 0) return 2;                       /* unknown option: ignored; the return value is not documented */
	const struct optdef *d = &optdefs[o];
	switch (d->kind) {
	case K_INT: case K_TV:
		cls = classify_int(val, d->lo, d->hi, &v);
		if (cls == 0) return -1;
		if (!(flags & d->need)) return cls == 1 ? 0 : 2;
		if (cls == 2) { c->unspecified |= 1u << o; if (o == O_MAXPROBE) c->unspecified |= 1u << O_INITPROBE; if (o == O_NDOTS) c->have_search = 1; return 2; }
		c->v[o] = d->kind == K_TV ? v * 1000000L : v;
		c->unspecified &= ~(1u << o);
		if (o == O_NDOTS) { c->ndots = (int)v; c->have_search = 1; }
		if (o == O_MAXPROBE && !(c->unspecified & (1u << O_INITPROBE)) && c->v[O_INITPROBE] / 1000000L > v) c->v[O_INITPROBE] = v * 1000000L;
		return 0;
	case K_FLAG:
		if (!(flags & d->need)) return 2;
		if (val && *val) return -1;             /* header: "val should be an empty string or NULL" */
		c->v[o] = 1;
		return 0;
	case K_ADDR: {
		struct sockaddr_storage ss; int len, hp, r;
		if (!(flags & d->need)) return 2;
		r = val ? ref_parse_addr(val, &ss, &len, &hp) : -1;
		if (r == -2) { c->unspecified |= 1u << o; return 2; }
		if (r < 0) { return -1; }
		memcpy(&c->bind, &ss, len); c->bindlen = len; c->unspecified &= ~(1u << o);
		ns_unspecified = 1;       /* whether later nameservers can be bound to this address is the kernel's business */
		return 0; }
	}
	return 2;
}

/* ================================================================== reference: resolv.conf */
static int ns_equal(const struct sockaddr_storage *a, int alen, const struct sockaddr_storage *b, int blen)
{
	if (alen != blen || a->ss_family != b->ss_family) return 0;
	if (a->ss_family == AF_INET) {
		const struct sockaddr_in *x = (const void *)a, *y = (const void *)b;
		return x->sin_port == y->sin_port && x->sin_addr.s_addr == y->sin_addr.s_addr;
	}
	const struct sockaddr_in6 *x = (const void *)a, *y = (const void *)b;
	return x->sin6_port == y->sin6_port && !memcmp(&x->sin6_addr, &y->sin6_addr, 16);
}

static void ref_add_ns(struct conf *c, const struct sockaddr_storage *ss, int len)
{
	for (int i = 0; i < c->nns; i++) if (ns_equal(&c->ns[i], c->nslen[i], ss, len)) return;   /* listed twice: one server */
	if (c->nns < 24) { c->ns[c->nns] = *ss; c->nslen[c->nns] = len; c->nns++; }
}

static int split_ws(char *line, char **tok, int max)
{
	int n = 0; char *p = line;
	while (*p) {
		while (*p == ' ' || *p == '\t') p++;
		if (!*p) break;
		if (n < max) tok[n] = p;
		n++;
		while (*p && *p != ' ' && *p != '\t') p++;
		if (*p) *p++ = 0;
	}
	return n;
}


static int ref_resolv_conf(struct conf *c, const char *text, int flags)
{
	char *copy = strdup(text), *line = copy;
	int ret = 0;
	/* a carriage return is neither white space nor documented: what it does to an address/port token is not pinned */
	if (strchr(text, '\r')) ns_unspecified = 1;
	while (line) {
		char *nl = strchr(line, '\n'), *tok[40]; int nt;
		if (nl) *nl = 0;
		nt = split_ws(line, tok, 40);
		if (nt > 40) nt = 40;
		if (nt >= 1) {
			if (!strcmp(tok[0], "nameserver") && (flags & DNS_OPTION_NAMESERVERS)) {
				if (nt >= 2) {
					struct sockaddr_storage ss; int len, hp;
					int r = ref_parse_addr(tok[1], &ss, &len, &hp);
					if (r == -2) ns_unspecified = 1;
					if (r == 0) {
						if (!hp) { if (ss.ss_family == AF_INET) ((struct sockaddr_in *)&ss)->sin_port = htons(53); else ((struct sockaddr_in6 *)&ss)->sin6_port = htons(53); }
						ref_add_ns(c, &ss, len);
					}
				}
			} else if (!strcmp(tok[0], "domain") && (flags & DNS_OPTION_SEARCH)) {
				if (nt >= 2) { c->have_search = 1; c->nsearch = 1; snprintf(c->search[0], sizeof c->search[0], "%s", tok[1]); }
			} else if (!strcmp(tok[0], "search") && (flags & DNS_OPTION_SEARCH)) {
				c->have_search = 1; c->nsearch = 0;
				for (int i = 1; i < nt && c->nsearch < 24; i++) snprintf(c->search[c->nsearch++], sizeof c->search[0], "%s", tok[i]);
			} else if (!strcmp(tok[0], "options")) {
				for (int i = 1; i < nt; i++) {
					char *colon = strchr(tok[i], ':');
					ref_set_option(c, tok[i], colon ? colon + 1 : "", flags);
				}
			}
		}
		line = nl ? nl + 1 : NULL;
	}
	free(copy);
	if (c->nns == 0 && (flags & DNS_OPTION_NAMESERVERS) && !(flags & DNS_OPTION_NAMESERVERS_NO_DEFAULT)) {
		struct sockaddr_in sin; memset(&sin, 0, sizeof sin);
		sin.sin_family = AF_INET; sin.sin_port = htons(53); sin.sin_addr.s_addr = htonl(0x7f000001);
		struct sockaddr_storage ss; memset(&ss, 0, sizeof ss); memcpy(&ss, &sin, sizeof sin);
		ref_add_ns(c, &ss, sizeof sin);
		ret = EVDNS_ERROR_NO_NAMESERVERS_CONFIGURED;
	}
	if ((flags & DNS_OPTION_SEARCH) && (!c->have_search || c->nsearch == 0)) {
		/* no search list given: the domain part of the host name, if it has one */
		c->have_search = 1; c->nsearch = 0;
		if (hostname_domain[0]) { c->nsearch = 1; snprintf(c->search[0], sizeof c->search[0], "%s", hostname_domain); }
	}
	return ret;
}

/* ================================================================== reference: hosts(5) */
static void ref_hosts(struct conf *c, const char *text)
{
	char *copy = strdup(text), *line = copy;
	while (line) {
		char *nl = strchr(line, '\n'), *tok[40]; int nt;
		if (nl) *nl = 0;
		char *hash = strchr(line, '#');
		if (hash) *hash = 0;                            /* "#" to the end of the line is a comment */
		nt = split_ws(line, tok, 40);
		if (nt > 40) nt = 40;
		if (nt >= 2) {
			struct sockaddr_storage ss; int len = 0, ok = 0;
			struct sockaddr_in sin; struct sockaddr_in6 sin6;
			memset(&ss, 0, sizeof ss); memset(&sin, 0, sizeof sin); memset(&sin6, 0, sizeof sin6);
			if (inet_pton(AF_INET, tok[0], &sin.sin_addr) == 1) { sin.sin_family = AF_INET; memcpy(&ss, &sin, sizeof sin); len = sizeof sin; ok = 1; }
			else if (ref_pton6_zone(tok[0], &sin6.sin6_addr) == 1) { sin6.sin6_family = AF_INET6; memcpy(&ss, &sin6, sizeof sin6); len = sizeof sin6; ok = 1; }
			if (ok)
				for (int i = 1; i < nt; i++) {
					if (c->nhosts >= 48) { c->hosts_overflow = 1; break; }
					snprintf(c->hosts[c->nhosts].name, sizeof c->hosts[0].name, "%s", tok[i]);
					c->hosts[c->nhosts].a = ss; c->hosts[c->nhosts].alen = len; c->nhosts++;
				}
		}
		line = nl ? nl + 1 : NULL;
	}
	free(copy);
}

/* ================================================================== comparison */
static const char *sa_text(const struct sockaddr_storage *ss, char *buf, size_t n)
{
	char a[80] = "?";
	if (ss->ss_family == AF_INET) { const struct sockaddr_in *s = (const void *)ss; inet_ntop(AF_INET, &s->sin_addr, a, sizeof a); snprintf(buf, n, "%s:%d", a, ntohs(s->sin_port)); }
	else if (ss->ss_family == AF_INET6) { const struct sockaddr_in6 *s = (const void *)ss; inet_ntop(AF_INET6, &s->sin6_addr, a, sizeof a); snprintf(buf, n, "[%s]:%d", a, ntohs(s->sin6_port)); }
	else snprintf(buf, n, "family%d", ss->ss_family);
	return buf;
}

static void show(const char *text, char *out, size_t n)
{
	size_t o = 0;
	for (; *text && o + 5 < n; text++) {
		unsigned char ch = (unsigned char)*text;
		if (ch == '\n') { out[o++] = '\\'; out[o++] = 'n'; }
		else if (ch == '\t') { out[o++] = '\\'; out[o++] = 't'; }
		else if (ch == '\r') { out[o++] = '\\'; out[o++] = 'r'; }
		else if (ch < 32 || ch > 126) { o += snprintf(out + o, n - o, "\\x%02x", ch); }
		else out[o++] = ch;
	}
	out[o] = 0;
}

static void compare_conf(const char *space, const struct conf *ref, const struct conf *got, const char *input)
{
	char key[128], shown[400], t1[100];
	show(input, shown, sizeof shown);
	/* nameservers: same set */
	if (!ns_unspecified) {
		MC_COUNT("oracle_nameservers");
		if (ref->nns != got->nns) { snprintf(key, sizeof key, "C39/%s/nameserver-count", space); mc_fail(key, "input \"%s\": %d nameserver(s), reference %d", shown, got->nns, ref->nns); }
		for (int i = 0; i < ref->nns; i++) {
			int f = 0;
			for (int j = 0; j < got->nns && j < 24; j++) if (ns_equal(&ref->ns[i], ref->nslen[i], &got->ns[j], got->nslen[j])) f = 1;
			if (!f) { snprintf(key, sizeof key, "C39/%s/nameserver-missing", space); mc_fail(key, "input \"%s\": %s not configured", shown, sa_text(&ref->ns[i], t1, sizeof t1)); }
		}
		for (int j = 0; j < got->nns && j < 24; j++) {
			int f = 0;
			for (int i = 0; i < ref->nns; i++) if (ns_equal(&ref->ns[i], ref->nslen[i], &got->ns[j], got->nslen[j])) f = 1;
			if (!f) { snprintf(key, sizeof key, "C39/%s/nameserver-unexpected", space); mc_fail(key, "input \"%s\": %s configured", shown, sa_text(&got->ns[j], t1, sizeof t1)); }
		}
	}
	/* search list (ordered) */
	MC_COUNT("oracle_search");
	if (ref->nsearch != got->nsearch) { snprintf(key, sizeof key, "C39/%s/search-count", space); mc_fail(key, "input \"%s\": %d search domain(s), reference %d", shown, got->nsearch, ref->nsearch); }
	else for (int i = 0; i < ref->nsearch && i < 24; i++)
		if (strcmp(ref->search[i], got->search[i])) { snprintf(key, sizeof key, "C39/%s/search-domain", space); mc_fail(key, "input \"%s\": search[%d]=\"%s\", reference \"%s\"", shown, i, got->search[i], ref->search[i]); }
	/* options */
	for (int o = 0; o < O_N; o++) {
		if (ref->unspecified & (1u << o)) continue;
		MC_COUNT("oracle_option_fields");
		if (o == O_BINDTO) {
			if (ref->bindlen != got->bindlen || (ref->bindlen && !ns_equal(&ref->bind, ref->bindlen, &got->bind, got->bindlen))) {
				snprintf(key, sizeof key, "C39/%s/option/bind-to", space); mc_fail(key, "input \"%s\": outgoing address length %d, reference %d", shown, got->bindlen, ref->bindlen); }
			continue;
		}
		if (ref->v[o] != got->v[o]) { snprintf(key, sizeof key, "C39/%s/option/%s", space, optdefs[o].name); mc_fail(key, "input \"%s\": %s = %ld, reference %ld", shown, optdefs[o].name, got->v[o], ref->v[o]); }
	}
	/* hosts */
	MC_COUNT("oracle_hosts");
	if (ref->hosts_overflow || got->hosts_overflow) return;
	if (ref->nhosts != got->nhosts) { snprintf(key, sizeof key, "C39/%s/hosts-count", space); mc_fail(key, "input \"%s\": %d host entr(ies), reference %d", shown, got->nhosts, ref->nhosts); return; }
	for (int i = 0; i < ref->nhosts; i++)
		if (strcmp(ref->hosts[i].name, got->hosts[i].name) || !ns_equal(&ref->hosts[i].a, ref->hosts[i].alen, &got->hosts[i].a, got->hosts[i].alen)) {
			snprintf(key, sizeof key, "C39/%s/hosts-entry", space); mc_fail(key, "input \"%s\": entry %d is %s -> %s, reference %s", shown, i, got->hosts[i].name, sa_text(&got->hosts[i].a, t1, sizeof t1), ref->hosts[i].name); }
}

/* ---- lookups through the public API: what does evdns_getaddrinfo say for the names in the file? */
struct gres { int called, result; struct evutil_addrinfo *res; };
static void gcb(int result, struct evutil_addrinfo *res, void *arg) { struct gres *g = arg; g->called++; g->result = result; g->res = res; }

static void check_lookups(const char *space, struct evdns_base *b, const struct conf *ref, const char *input)
{
	char key[128], shown[400];
	int probed = 0;
	for (int i = 0; i < ref->nhosts && probed < 3; i++) {
		const char *name = ref->hosts[i].name; int first = 1;
		struct in6_addr tmp;
		for (int j = 0; j < i; j++) if (!strcasecmp(ref->hosts[j].name, name)) first = 0;
		if (!first || inet_pton(AF_INET, name, &tmp) == 1 || inet_pton(AF_INET6, name, &tmp) == 1) continue;
		probed++;
		struct evutil_addrinfo h; memset(&h, 0, sizeof h); h.ai_family = PF_UNSPEC; h.ai_socktype = SOCK_STREAM;
		struct gres g = {0, 0, NULL};
		struct evdns_getaddrinfo_request *rq = evdns_getaddrinfo(b, name, NULL, &h, gcb, &g);
		MC_COUNT("oracle_hosts_lookup");
		show(input, shown, sizeof shown);
		if (rq || g.called != 1 || g.result != 0) {
			snprintf(key, sizeof key, "C39/%s/hosts-lookup-fails", space); mc_fail(key, "input \"%s\": evdns_getaddrinfo(\"%s\") %s, result %d", shown, name, rq ? "went to DNS" : "answered", g.result);
			if (rq) evdns_getaddrinfo_cancel(rq);
		} else {
			int want = 0, have = 0, bad = 0;
			for (int j = 0; j < ref->nhosts; j++) if (!strcasecmp(ref->hosts[j].name, name)) want++;
			for (struct evutil_addrinfo *ai = g.res; ai; ai = ai->ai_next) {
				int f = 0; have++;
				for (int j = 0; j < ref->nhosts; j++)
					if (!strcasecmp(ref->hosts[j].name, name) && ai->ai_addr && ai->ai_addr->sa_family == ref->hosts[j].a.ss_family) {
						if (ai->ai_addr->sa_family == AF_INET && ((struct sockaddr_in *)ai->ai_addr)->sin_addr.s_addr == ((struct sockaddr_in *)&ref->hosts[j].a)->sin_addr.s_addr) f = 1;
						if (ai->ai_addr->sa_family == AF_INET6 && !memcmp(&((struct sockaddr_in6 *)ai->ai_addr)->sin6_addr, &((struct sockaddr_in6 *)&ref->hosts[j].a)->sin6_addr, 16)) f = 1;
					}
				if (!f) bad++;
			}
			if (bad || have != want) { snprintf(key, sizeof key, "C39/%s/hosts-lookup-differs", space); mc_fail(key, "input \"%s\": evdns_getaddrinfo(\"%s\") gave %d entr(ies), %d not in the file; the file lists %d", shown, name, have, bad, want); }
		}
		if (g.res) evutil_freeaddrinfo(g.res);
	}
}

/* ================================================================== item spaces */
static const char *const rc_lines[] = {
	"nameserver 1.2.3.4", "nameserver 1.2.3.4:5353", "nameserver ::1", "nameserver [::1]:5353", "nameserver [2001:db8::7]", "nameserver 2001:db8::7",
	"nameserver 10.0.0.1 10.0.0.2", "nameserver\t10.0.0.3", "nameserver  10.0.0.4  ", "nameserver 1.2.3", "nameserver 1.2.3.4.5", "nameserver 256.1.1.1",
	"nameserver 1.2.3.4:0", "nameserver 1.2.3.4:65536", "nameserver 1.2.3.4:", "nameserver [::1", "nameserver ::1::2", "nameserver", "nameserver ", "nameserverx 9.9.9.9",
	"nameserver localhost", "nameserver 1.2.3.4:65535", "nameserver fe80::1%nosuchzone", "nameserver fe80::1%lo", "nameserver fe80::1%1", "nameserver [fe80::1%nosuchzone]:53", "nameserver [fe80::2%lo]:5353", "nameserver fe80::1%1x", "nameserver 1.2.3.4%lo", "nameserver 1.2.3.4:53x", "nameserver 1.2.3.4:5.3", "nameserver [::1]:53x", "nameserver 1.2.3.4:+53",
	"domain a.example", "domain", "domain x.example y.example", "search a.example b.example", "search s1.example", "search", "search a b c d e f g h",
	"search  two.example\tthree.example ",
	"options ndots:2", "options ndots:0", "options ndots:15", "options ndots:x", "options ndots:", "options ndots", "options ndots:2x", "options ndots:3 timeout:4 attempts:2",
	"options ndots:x timeout:7", "options timeout:7 ndots:x attempts:3", "options timeout:1", "options timeout:30", "options timeout:x", "options timeout:",
	"options attempts:1", "options attempts:5", "options attempts:y", "options max-timeouts:4", "options max-inflight:2", "options max-inflight:q",
	"options randomize-case:0", "options randomize-case:1", "options bind-to:127.0.0.1", "options bind-to:nonsense", "options bind-to:fe80::1%nosuchzone", "options bind-to:127.0.0.1:7x", "options initial-probe-timeout:20",
	"options max-probe-timeout:5", "options max-probe-timeout:100 initial-probe-timeout:50", "options initial-probe-timeout:50 max-probe-timeout:7", "options probe-backoff-factor:2",
	"options getaddrinfo-allow-skew:5", "options so-rcvbuf:8192", "options so-sndbuf:4096", "options tcp-idle-timeout:9", "options use-vc", "options ignore-tc",
	"options use-vc:1", "options ignore-tc use-vc", "options edns-udp-size:1232", "options edns-udp-size:big", "options rotate", "options unknown:5 ndots:4", "options", "options :", "options ::",
	"# nameserver 8.8.8.8", "#nameserver 8.8.8.8", "; comment", "", "   ", "\t", "sortlist 130.155.160.0/255.255.240.0", "garbage in garbage out", "\r", "nameserver 7.7.7.7\r",
	"options ndots:5\r",
	"aaaaaaaaaaaaaaaaaaaaaaaaaaaaaaaaaaaaaaaaaaaaaaaaaaaaaaaaaaaaaaaaaaaaaaaaaaaaaaaaaaaaaaaaaaaaaaaaaaaaaaaaaaaaaaaaaaaaaaaaaaaaaaaaaaaaaaaaaaaaaaaaaaaaaaaaaaaaaaaaaaaaaaaaaaaaaaaaaaaaaaaaaaaaaaaaaaaaaaaaaaaaaaaaaaaaaaaaaaaaaaaaaaaaaaaaaaaaaaaaaaaaaaaaaaaaaaaaaaaaaaaaaaaaaaaaaaaaaaaaaaaaaaaaaaaaaaaaaaaaaaaaaaaaaaaaaaaaaaaaaaaaaa",
};
#define N_RC ((int)(sizeof rc_lines / sizeof rc_lines[0]))
static const int flagsets[] = { DNS_OPTION_SEARCH | DNS_OPTION_NAMESERVERS | DNS_OPTION_MISC, DNS_OPTION_NAMESERVERS, DNS_OPTION_SEARCH, DNS_OPTION_MISC,
	DNS_OPTION_SEARCH | DNS_OPTION_NAMESERVERS | DNS_OPTION_MISC | DNS_OPTION_NAMESERVERS_NO_DEFAULT, 0 };
#define N_FLAGSETS 6
#define ALLF (DNS_OPTION_SEARCH | DNS_OPTION_NAMESERVERS | DNS_OPTION_MISC)

static const char *const hosts_lines[] = {
	"1.2.3.4 a", "1.2.3.4 a b c", "::1 a6", "2001:db8::9\tv6.example alias6", "1.2.3.4 a # comment b", "1.2.3.4 a#b c", "# 1.2.3.4 commented", "#1.2.3.4 x",
	"1.2.3.4", "1.2.3.4 ", "1.2.3 bad", "1.2.3.4:80 port", "256.1.1.1 big", "fe80::1%lo scoped", "fe80::1%1 scoped1", "fe80::1%nosuchzone badzone",
	"fe80::1%1x badzone2", "fe80::1%nosuchzone", "  10.0.0.1   lead  ", "10.0.0.2\ttab\ttab2", "10.0.0.3 A", "10.0.0.4 a", "", "   ", "\r", "10.0.0.5 cr\r", "name 1.2.3.4", "::ffff:1.2.3.4 mapped",
};
#define N_HL ((int)(sizeof hosts_lines / sizeof hosts_lines[0]))
static const char *const rc_tok[10] = { "nameserver", "options", "search", " ", "\n", "1.2.3.4", "ndots:3", "x.y", "#", ":" };
static const char *const hosts_tok[10] = { "1.2.3.4", "::1", "a", "b.c", " ", "\t", "\n", "#", ":9", "7" };
static const char hosts_chr[10] = { '1', '.', ':', ' ', '\t', '\n', '#', 'a', '\r', 'f' };

static const char *const opt_vals[] = { NULL, "", "0", "1", "2", "5", "15", "16", "30", "255", "256", "512", "3600", "3601", "65000", "65535", "65536", "99999999999",
	"-1", "-2", "+1", "x", "1x", "x1", "1.5", "0.0005", "1e3", " 1", "1 ", "127.0.0.1", "::1", "1.2.3.4:5", "[::1]:53", "bad.addr", "1.2.3.4.5", "1.2.3.4:5x", "fe80::1%nosuchzone", "fe80::1%lo" };
#define N_OPTVALS ((int)(sizeof opt_vals / sizeof opt_vals[0]))
static const char *const opt_extra_names[] = { "", ":", "x", "ndot", "ndotss", "timeoutx", "attempt", "use", "rotate", "ndots:5", "timeout:junk", "bind-to:1.2.3.4" };
#define N_EXTRA ((int)(sizeof opt_extra_names / sizeof opt_extra_names[0]))
#define N_OPTNAMES (O_N * 2 + N_EXTRA)
static const char *optname(int i, char *buf, size_t n)
{
	if (i < O_N) return optdefs[i].name;
	if (i < 2 * O_N) { snprintf(buf, n, "%s:", optdefs[i - O_N].name); return buf; }
	return opt_extra_names[i - 2 * O_N];
}
/* reduced sets for ordered pairs of calls */
static const char *const pair_vals[] = { "", "2", "7", "x" };

static int LEN = 4, LEN_R, LEN_H, LEN_C;
static uint64_t n_G1, n_G2, n_G3, n_HL, n_R, n_H, n_C, n_O1, n_O2;
static int TRIPLES;
static uint64_t pow10_upto(int len) { uint64_t t = 0, p = 1; for (int l = 0; l <= len; l++) { t += p; p *= 10; } return t; }   /* strings of length 0..len */

/* decode index -> sequence of symbols of length 0..LEN */
static int seq_decode(uint64_t i, int *sym)
{
	uint64_t p = 1; int l = 0;
	while (i >= p) { i -= p; p *= 10; l++; }
	for (int k = l - 1; k >= 0; k--) { sym[k] = (int)(i % 10); i /= 10; }
	return l;
}

/* ---- run one resolv.conf text under `flags` */
static void run_resolv(const char *space, const char *text, int flags)
{
	struct event_base *eb = event_base_new();
	struct evdns_base *b = evdns_base_new(eb, 0);
	struct conf pristine, ref, got; char shown[400];
	long live1 = a_live;
	(void)live1;
	conf_from_base(b, &pristine);
	ref = pristine; ns_unspecified = 0;
	set_file(text, strlen(text));
	int expect_ret = ref_resolv_conf(&ref, text, flags);
	int ret = evdns_base_resolv_conf_parse(b, flags, memfd_path);
	conf_from_base(b, &got);
	show(text, shown, sizeof shown);
	mc_observe("resolv flags=%#x \"%s\" -> %d ns=%d search=%d ndots=%d", flags, shown, ret, got.nns, got.nsearch, got.ndots);
	MC_COUNT("oracle_return_value");
	if (ret != expect_ret && !ns_unspecified) { char key[96]; snprintf(key, sizeof key, "C39/%s/return-value", space); mc_fail(key, "input \"%s\" flags %#x: returned %d, reference %d", shown, flags, ret, expect_ret); }
	compare_conf(space, &ref, &got, text);
	if (got.nns || got.nsearch || memcmp(got.v, pristine.v, sizeof got.v)) mc_nontrivial(mc_hash(mc_hash_u64(0, (uint64_t)flags), text, strlen(text)));
	evdns_base_free(b, 0);
	event_base_free(eb);
}

static void run_hosts(const char *space, const char *text, size_t len)
{
	struct event_base *eb = event_base_new();
	struct evdns_base *b = evdns_base_new(eb, 0);
	struct conf pristine, ref, got; char shown[400];
	conf_from_base(b, &pristine);
	ref = pristine; ns_unspecified = 0;
	set_file(text, len);
	if (strlen(text) == len) ref_hosts(&ref, text);
	int ret = evdns_base_load_hosts(b, memfd_path);
	conf_from_base(b, &got);
	show(text, shown, sizeof shown);
	mc_observe("hosts \"%s\" -> %d entries=%d", shown, ret, got.nhosts);
	if (ret != 0) { char key[96]; snprintf(key, sizeof key, "C39/%s/return-value", space); mc_fail(key, "input \"%s\": evdns_base_load_hosts returned %d", shown, ret); }
	compare_conf(space, &ref, &got, text);
	check_lookups(space, b, &ref, text);
	if (got.nhosts) mc_nontrivial(mc_hash(7, text, len));
	evdns_base_free(b, 0);
	event_base_free(eb);
}

static void run_options(int n, const int *names, const char *const *vals)
{
	struct event_base *eb = event_base_new();
	struct evdns_base *b = evdns_base_new(eb, 0);
	struct conf pristine, ref, got; char nb[2][64], desc[300] = ""; size_t o = 0;
	conf_from_base(b, &pristine);
	ref = pristine; ns_unspecified = 0;
	for (int k = 0; k < n; k++) {
		const char *name = optname(names[k], nb[k], sizeof nb[k]), *val = vals[k];
		int oi0 = opt_lookup(name);
		if (!val && oi0 >= 0 && optdefs[oi0].kind != K_FLAG) val = "";   /* NULL is documented for the valueless options only */
		int e = ref_set_option(&ref, name, val, DNS_OPTIONS_ALL);
		int r = evdns_base_set_option(b, name, val);
		o += snprintf(desc + o, sizeof desc - o, "set_option(\"%s\", %s%s%s)=%d ", name, val ? "\"" : "", val ? val : "NULL", val ? "\"" : "", r);
		MC_COUNT("oracle_set_option_return");
		if (e != 2 && r != e) {
			char key[128]; int oi = opt_lookup(name);
			snprintf(key, sizeof key, "C39/set_option/return/%s/%s", oi >= 0 ? optdefs[oi].name : "unknown", e == 0 ? "good-value-rejected" : "bad-value-accepted");
			mc_fail(key, "evdns_base_set_option(\"%s\", %s%s%s) returned %d, reference %d", name, val ? "\"" : "", val ? val : "NULL", val ? "\"" : "", r, e);
		}
	}
	conf_from_base(b, &got);
	mc_observe("%s", desc);
	compare_conf("set_option", &ref, &got, desc);
	if (memcmp(got.v, pristine.v, sizeof got.v) || got.bindlen) mc_nontrivial(mc_hash(11, desc, strlen(desc)));
	evdns_base_free(b, 0);
	event_base_free(eb);
}

static void item(uint64_t i)
{
	char text[1400]; int sym[8], l;
	long live0 = a_live;
	if (i < n_G1) {
		/* single line x flag set x ending {"", "\n", "\r\n"} */
		int li = (int)(i % N_RC), fs = (int)(i / N_RC % N_FLAGSETS), en = (int)(i / N_RC / N_FLAGSETS);
		snprintf(text, sizeof text, "%s%s", rc_lines[li], en == 0 ? "" : en == 1 ? "\n" : "\r\n");
		run_resolv("resolv-line", text, flagsets[fs]);
	} else if ((i -= n_G1) < n_G2) {
		/* ordered pair of lines, final newline present or not */
		int a = (int)(i % N_RC), b = (int)(i / N_RC % N_RC), en = (int)(i / N_RC / N_RC);
		snprintf(text, sizeof text, "%s\n%s%s", rc_lines[a], rc_lines[b], en ? "\n" : "");
		run_resolv("resolv-pair", text, ALLF);
	} else if ((i -= n_G2) < n_G3) {
		/* ordered triple of lines (thorough) */
		int a = (int)(i % N_RC), b = (int)(i / N_RC % N_RC), c = (int)(i / N_RC / N_RC);
		snprintf(text, sizeof text, "%s\n%s\n%s\n", rc_lines[a], rc_lines[b], rc_lines[c]);
		run_resolv("resolv-triple", text, ALLF);
	} else if ((i -= n_G3) < n_HL) {
		/* hosts lines: singles x 3 endings, then ordered pairs x final newline or not */
		if (i < (uint64_t)N_HL * 3) snprintf(text, sizeof text, "%s%s", hosts_lines[i % N_HL], i / N_HL == 0 ? "" : i / N_HL == 1 ? "\n" : "\r\n");
		else { uint64_t j = i - (uint64_t)N_HL * 3; snprintf(text, sizeof text, "%s\n%s%s", hosts_lines[j % N_HL], hosts_lines[j / N_HL % N_HL], j / N_HL / N_HL ? "\n" : ""); }
		run_hosts("hosts-lines", text, strlen(text));
	} else if ((i -= n_HL) < n_R) {
		l = seq_decode(i, sym); text[0] = 0;
		for (int k = 0; k < l; k++) strcat(text, rc_tok[sym[k]]);
		run_resolv("resolv-tokens", text, ALLF);
	} else if ((i -= n_R) < n_H) {
		l = seq_decode(i, sym); text[0] = 0;
		for (int k = 0; k < l; k++) strcat(text, hosts_tok[sym[k]]);
		run_hosts("hosts-tokens", text, strlen(text));
	} else if ((i -= n_H) < n_C) {
		l = seq_decode(i, sym);
		for (int k = 0; k < l; k++) text[k] = hosts_chr[sym[k]];
		text[l] = 0;
		run_hosts("hosts-chars", text, (size_t)l);
	} else if ((i -= n_C) < n_O1) {
		int names[1] = { (int)(i % N_OPTNAMES) }; const char *vals[1] = { opt_vals[i / N_OPTNAMES] };
		run_options(1, names, vals);
	} else {
		i -= n_O1;
		int n1 = (int)(i % N_OPTNAMES), v1 = (int)(i / N_OPTNAMES % 4), n2 = (int)(i / N_OPTNAMES / 4 % N_OPTNAMES), v2 = (int)(i / N_OPTNAMES / 4 / N_OPTNAMES);
		int names[2] = { n1, n2 }; const char *vals[2] = { pair_vals[v1], pair_vals[v2] };
		run_options(2, names, vals);
	}
	MC_COUNT("oracle_leak");
	if (a_live != live0) mc_fail("C39/leak", "%ld allocation(s) still live after evdns_base_free", a_live - live0);
	if ((i & 1023) == 0) { MC_COUNT("oracle_fd"); if (mcx_fd_signature() != fd0) mc_fail("C39/fd-leak", "fd table differs from the baseline"); }
}

static void init(void)
{
	char hn[256];
	event_set_mem_functions(a_malloc, a_realloc, a_free);
	event_set_log_callback(logcb);
	memfd = memfd_create("c39", 0);
	if (memfd < 0) abort();
	snprintf(memfd_path, sizeof memfd_path, "/proc/self/fd/%d", memfd);
	hostname_domain[0] = 0;
	if (gethostname(hn, sizeof hn) == 0) { char *d = strchr(hn, '.'); if (d) { while (*d == '.') d++; snprintf(hostname_domain, sizeof hostname_domain, "%s", d); } }
	fd0 = mcx_fd_signature();
}

int main(int argc, char **argv)
{
	for (int i = 1; i + 1 < argc; i++) if (!strcmp(argv[i], "-P")) {
		if (!strncmp(argv[i + 1], "len=", 4)) LEN = atoi(argv[i + 1] + 4);
		if (!strncmp(argv[i + 1], "lenR=", 5)) LEN_R = atoi(argv[i + 1] + 5);
		if (!strncmp(argv[i + 1], "lenH=", 5)) LEN_H = atoi(argv[i + 1] + 5);
		if (!strncmp(argv[i + 1], "lenC=", 5)) LEN_C = atoi(argv[i + 1] + 5);
		if (!strncmp(argv[i + 1], "triples=", 8)) TRIPLES = atoi(argv[i + 1] + 8);
	}
	if (LEN < 1) LEN = 1;
	if (LEN > 8) LEN = 8;
	if (LEN_R < 1 || LEN_R > 8) LEN_R = LEN;
	if (LEN_H < 1 || LEN_H > 8) LEN_H = LEN;
	if (LEN_C < 1 || LEN_C > 8) LEN_C = LEN;
	n_G1 = (uint64_t)N_RC * N_FLAGSETS * 3; n_G2 = (uint64_t)N_RC * N_RC * 2;
	n_G3 = TRIPLES ? (uint64_t)N_RC * N_RC * N_RC : 0; n_HL = (uint64_t)N_HL * 3 + (uint64_t)N_HL * N_HL * 2;
	n_R = pow10_upto(LEN_R); n_H = pow10_upto(LEN_H); n_C = pow10_upto(LEN_C);
	n_O1 = (uint64_t)N_OPTNAMES * N_OPTVALS; n_O2 = (uint64_t)N_OPTNAMES * 4 * N_OPTNAMES * 4;
	struct mc_config cfg = { .property = "C39", .n_items = n_G1 + n_G2 + n_G3 + n_HL + n_R + n_H + n_C + n_O1 + n_O2, .item = item, .init = init };
	return mc_main(argc, argv, &cfg);
}
