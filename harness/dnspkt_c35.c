/* C35 — evdns server responses encode exactly the records that were added
 * (evdns_server_request_add_*_reply, evdns_server_request_format_response,
 * dnsname_to_labels / dnslabel_table_*, truncation).
 *
 * Shard-mode enumeration of response scenarios.  A query is sent to a real
 * server port (loopback UDP datagram, loopback TCP stream, or request_parse
 * called directly with the client's address); the user callback adds the
 * scenario's records and responds; the bytes that arrive at the client socket
 * are decoded with the RFC 1035 reference decoder and compared record by
 * record with what was added.  Size-limit scenarios sweep the response size
 * octet by octet across 512, an EDNS size, the 14-bit pointer range (16384)
 * and the 16-bit message size (65535) and compare the truncated message with
 * the server's own unlimited encoding of the same records.
 */
#include "evdns.c"
#include "dnspkt_common.h"
#include "dnspkt_srv.h"
#include <stddef.h>

enum { S_ANS = EVDNS_ANSWER_SECTION, S_AUTH = EVDNS_AUTHORITY_SECTION, S_ADD = EVDNS_ADDITIONAL_SECTION };
#define MAXREC 9000
struct exp_rec { uint8_t section, is_name; uint16_t type, class_; uint32_t ttl; char owner[264], tname[264]; uint32_t rd_off, rd_len; };
static struct exp_rec g_exp[MAXREC]; static int g_nexp;
static uint8_t g_pool[400000]; static size_t g_pool_n;
static int g_err = 0, g_setflags = -1, g_api_fail;
static char g_ctx[300];
static size_t g_rr_start[16];   /* offsets at which the first added records begin in the decoded response */
#define STRADDLE_NAME "aaaaaaaaaaaaaaaa.bbbbbbbbbbbbbbbb.cccc.newzone.example"   /* inner suffixes begin 17, 34, 39 and 47 octets after its start */

/* ---- what the callback does: driven by the scenario ---- */
static struct evdns_server_request *g_req;
static struct exp_rec *exp_new(int section, const char *owner, int type, int class_, uint32_t ttl)
{
	if (g_nexp >= MAXREC) return NULL;
	struct exp_rec *e = &g_exp[g_nexp]; memset(e, 0, offsetof(struct exp_rec, owner));
	e->section = (uint8_t)section; e->type = (uint16_t)type; e->class_ = (uint16_t)class_; e->ttl = ttl; snprintf(e->owner, sizeof e->owner, "%s", owner); e->tname[0] = 0;
	return e;
}
static void add_raw(int section, const char *owner, int type, int class_, uint32_t ttl, const uint8_t *data, size_t len)
{
	struct exp_rec *e = exp_new(section, owner, type, class_, ttl); if (!e) return;
	if (g_pool_n + len > sizeof g_pool) return;
	memcpy(g_pool + g_pool_n, data, len); e->rd_off = (uint32_t)g_pool_n; e->rd_len = (uint32_t)len;
	/* event_mm_malloc_(0) is NULL by design: zero-length rdata is passed as (NULL, 0) */
	int rc = evdns_server_request_add_reply(g_req, section, owner, type, class_, (int)ttl, (int)len, 0, len ? (const char *)data : NULL);
	if (rc == 0) { g_pool_n += len; g_nexp++; } else g_api_fail++;
}
static void add_filler(int section, const char *owner, size_t len)
{
	static uint8_t f[66000];
	for (size_t i = 0; i < len; i++) f[i] = (uint8_t)(i * 7 + 1);
	add_raw(section, owner, 16, 1, 77, f, len);
}
static void add_a(const char *owner, int n, uint32_t ttl, int seq)
{
	uint8_t a[64 * 4]; if (n > 64) n = 64;
	for (int i = 0; i < n; i++) { a[4 * i] = 10; a[4 * i + 1] = (uint8_t)(seq >> 8); a[4 * i + 2] = (uint8_t)seq; a[4 * i + 3] = (uint8_t)i; }
	struct exp_rec *e = exp_new(S_ANS, owner, 1, 1, ttl); if (!e) return;
	memcpy(g_pool + g_pool_n, a, (size_t)n * 4); e->rd_off = (uint32_t)g_pool_n; e->rd_len = (uint32_t)n * 4;
	if (evdns_server_request_add_a_reply(g_req, owner, n, a, (int)ttl) == 0) { g_pool_n += (size_t)n * 4; g_nexp++; } else g_api_fail++;
}
static void add_aaaa(const char *owner, int n, uint32_t ttl, int seq)
{
	uint8_t a[16 * 16]; if (n > 16) n = 16;
	for (int i = 0; i < n * 16; i++) a[i] = (uint8_t)(seq + i * 3);
	struct exp_rec *e = exp_new(S_ANS, owner, 28, 1, ttl); if (!e) return;
	memcpy(g_pool + g_pool_n, a, (size_t)n * 16); e->rd_off = (uint32_t)g_pool_n; e->rd_len = (uint32_t)n * 16;
	if (evdns_server_request_add_aaaa_reply(g_req, owner, n, a, (int)ttl) == 0) { g_pool_n += (size_t)n * 16; g_nexp++; } else g_api_fail++;
}
static void add_cname(const char *owner, const char *target, uint32_t ttl)
{
	struct exp_rec *e = exp_new(S_ANS, owner, 5, 1, ttl); if (!e) return;
	e->is_name = 1; snprintf(e->tname, sizeof e->tname, "%s", target);
	if (evdns_server_request_add_cname_reply(g_req, owner, target, (int)ttl) == 0) g_nexp++; else g_api_fail++;
}
static void add_ptr_name(const char *inaddr_name, const char *host, uint32_t ttl)
{
	struct exp_rec *e = exp_new(S_ANS, inaddr_name, 12, 1, ttl); if (!e) return;
	e->is_name = 1; snprintf(e->tname, sizeof e->tname, "%s", host);
	if (evdns_server_request_add_ptr_reply(g_req, NULL, inaddr_name, host, (int)ttl) == 0) g_nexp++; else g_api_fail++;
}
static void add_ptr_in(uint32_t addr_host_order, const char *host, uint32_t ttl)
{
	char nm[64]; struct in_addr in; in.s_addr = htonl(addr_host_order);
	snprintf(nm, sizeof nm, "%u.%u.%u.%u.in-addr.arpa", addr_host_order & 255, (addr_host_order >> 8) & 255, (addr_host_order >> 16) & 255, addr_host_order >> 24);
	struct exp_rec *e = exp_new(S_ANS, nm, 12, 1, ttl); if (!e) return;
	e->is_name = 1; snprintf(e->tname, sizeof e->tname, "%s", host);
	if (evdns_server_request_add_ptr_reply(g_req, &in, NULL, host, (int)ttl) == 0) g_nexp++; else g_api_fail++;
}
static void add_name_rr(int section, const char *owner, int type, const char *target, uint32_t ttl)
{
	struct exp_rec *e = exp_new(section, owner, type, 1, ttl); if (!e) return;
	e->is_name = 1; snprintf(e->tname, sizeof e->tname, "%s", target);
	if (evdns_server_request_add_reply(g_req, section, owner, type, 1, (int)ttl, -1, 1, target) == 0) g_nexp++; else g_api_fail++;
}

/* ---- scenarios ---- */
enum { F_SWEEP512, F_SWEEPEDNS, F_SWEEP16K, F_SWEEP64K, F_NAMES, F_TABLE, F_SECTIONS, F_ERR, F_PTRIN, F_STRADDLE };
struct item { uint8_t fam, mode; int16_t a, b, c, d; };
static struct item *items; static size_t n_items, cap_items;
static void add_item(int fam, int mode, int a, int b, int c, int d)
{
	if (n_items == cap_items) { cap_items = cap_items ? cap_items * 2 : 2048; items = realloc(items, cap_items * sizeof *items); }
	struct item *it = &items[n_items++]; it->fam = (uint8_t)fam; it->mode = (uint8_t)mode; it->a = (int16_t)a; it->b = (int16_t)b; it->c = (int16_t)c; it->d = (int16_t)d;
}
static const char *pool_names[] = { "a.test", "b.a.test", "c.b.a.test", "a.test.", "A.test", "b.A.test", "x.y", "test", "a.b", "b.a", "aa.test", "*.a.test", "c.b.a.test.", "", "." };
#define N_POOL ((int)(sizeof pool_names / sizeof pool_names[0]))
#define QNAME_DEFAULT "sweep.zone.test"

static const struct item *g_it; static long g_fill;     /* filler length for the sweep families */
static void scenario(struct evdns_server_request *req)
{
	const struct item *it = g_it; char nm[128], nm2[128];
	g_req = req; g_nexp = 0; g_pool_n = 0; g_api_fail = 0;
	switch (it->fam) {
	case F_SWEEP512: case F_SWEEPEDNS:
		/* a: number of leading A records, b: filler section, c: record mix */
		for (int i = 0; i < it->a; i++) {
			if (it->c == 0) add_a(QNAME_DEFAULT, 1, 60 + (uint32_t)i, i);
			else if (it->c == 1) { snprintf(nm, sizeof nm, "h%d.zone.test", i); add_a(nm, 2, 60, i); }
			else { snprintf(nm, sizeof nm, "h%d.zone.test", i % 3); snprintf(nm2, sizeof nm2, "t%d.other.example", i % 2); if (i & 1) add_cname(nm, nm2, 30); else add_aaaa(nm, 1, 30, i); }
		}
		add_filler(it->b, "fill.zone.test", (size_t)g_fill);
		if (it->c) { add_name_rr(S_AUTH, "zone.test", 2, "ns.zone.test", 3600); add_raw(S_ADD, "ns.zone.test", 1, 1, 3600, (const uint8_t *)"\x0a\x00\x00\x35", 4); }
		break;
	case F_SWEEP16K:
		/* names that first occur around offset 16384 and are used again afterwards */
		add_filler(S_ANS, "fill.zone.test", 8000); add_filler(S_ANS, "fill.zone.test", (size_t)g_fill);
		add_cname("late.one.zone.test", "late.two.other.example", 5);
		add_cname("late.one.zone.test", "late.two.other.example", 6);
		add_a("late.two.other.example", 1, 7, 1);
		add_name_rr(S_AUTH, "other.example", 2, "late.one.zone.test", 8);
		break;
	case F_STRADDLE:
		/* a name written in full that starts at or below offset 0x3fff and whose inner labels begin beyond it,
		 * followed by names that share only those inner suffixes (and by the whole name again) */
		add_filler(S_ANS, "fill.zone.test", 8000); add_filler(S_ANS, "fill.zone.test", (size_t)g_fill);
		add_a(STRADDLE_NAME, 1, 5, 1);
		add_a("x.bbbbbbbbbbbbbbbb.cccc.newzone.example", 1, 6, 2);
		add_cname("y.cccc.newzone.example", "t.newzone.example", 7);
		add_a("z.example", 1, 8, 3);
		add_a(STRADDLE_NAME, 1, 9, 4);
		add_name_rr(S_AUTH, "newzone.example", 2, "ns.cccc.newzone.example", 10);
		break;
	case F_SWEEP64K:
		for (int i = 0; i < 4; i++) add_filler(S_ANS, "fill.zone.test", 16000);
		add_filler(S_ANS, "fill.zone.test", (size_t)g_fill);
		if (it->a) add_a("tail.zone.test", 1, 9, 1);
		break;
	case F_NAMES:
		/* a: question name (sent on the wire), b: owner, c: target, d: kind */
		if ((it->d & 3) == 0) add_cname(pool_names[it->b], pool_names[it->c], 100);
		else if ((it->d & 3) == 1) add_ptr_name(pool_names[it->b], pool_names[it->c], 100);
		else { add_name_rr(S_AUTH, pool_names[it->b], 2, pool_names[it->c], 100); add_cname(pool_names[it->c], pool_names[it->b], 50); }
		break;
	case F_TABLE:
		/* a: number of distinct 3-label names (3 new suffixes each: the 128-entry table fills after 42), then all of them again */
		for (int i = 0; i < it->a; i++) { snprintf(nm, sizeof nm, "x%d.y%d.z%d", i, i, i); add_a(nm, 1, 10, i); }
		for (int i = 0; i < it->a; i++) { snprintf(nm, sizeof nm, "x%d.y%d.z%d", i, i, i); snprintf(nm2, sizeof nm2, "w.y%d.z%d", i, i); add_cname(nm, nm2, 11); }
		break;
	case F_SECTIONS: {
		/* a: permutation of the three sections, b: raw length class, c: ttl class, d: flags */
		static const int perm[6][3] = { {0,1,2}, {0,2,1}, {1,0,2}, {1,2,0}, {2,0,1}, {2,1,0} };
		static const size_t rl[] = { 0, 1, 255, 256, 1000 }; static const uint32_t ttls[] = { 0, 1, 0x7fffffffu, 0x80000000u, 0xffffffffu };
		uint8_t buf[1000]; memset(buf, 0xa5, sizeof buf);
		for (int k = 0; k < 3; k++) {
			int sec = perm[it->a][k];
			add_raw(sec, "r.zone.test", 16 + k, k == 2 ? 3 : 1, ttls[it->c], buf, rl[it->b]);
			add_raw(sec, "zone.test", 99, 255, ttls[(it->c + 1) % 5], buf, rl[(it->b + 1) % 5]);
		}
		add_aaaa("r.zone.test", 2, ttls[it->c], 4); add_a("zone.test", 3, 1, 2);
		g_setflags = it->d ? EVDNS_FLAGS_AA : -1;
		break; }
	case F_ERR: add_a(QNAME_DEFAULT, 1, 60, 1); break;
	case F_PTRIN: { static const uint32_t ad[] = { 0x01020304, 0, 0xffffffffu, 0x7f000001 }; add_ptr_in(ad[it->a], pool_names[it->b], 44); break; }
	}
	if (g_setflags >= 0) evdns_server_request_set_flags(req, g_setflags);
	g_slog.respond_rc = evdns_server_request_respond(req, g_err);
	if (g_slog.respond_rc < 0) evdns_server_request_drop(req);
}

/* ---- the query ---- */
static void build_query(struct dp_buf *w, const char *qname, unsigned opt)
{
	w->n = 0; dp_u16(w, 0x7777); dp_u16(w, 0x0100); dp_u16(w, 1); dp_u16(w, 0); dp_u16(w, 0); dp_u16(w, opt ? 1 : 0);
	dp_name(w, qname); dp_u16(w, 1); dp_u16(w, 1);
	if (opt) { dp_u8(w, 0); dp_u16(w, 41); dp_u16(w, opt); dp_u32(w, 0); dp_u16(w, 0); }
}

/* ---- oracle ---- */
#define CFAIL(key, ...) do { mc_fail("C35/" key, __VA_ARGS__); return; } while (0)
static void name_check(const struct dw_name *n, const char *what, int idx, int *bad)
{
	if (n->fwd_ptr || n->bad_target) { *bad = 1; mc_fail("C35/pointer-not-to-earlier-name", "%s: %s of record %d uses a compression pointer that does not target a name written earlier in the message", g_ctx, what, idx); }
}
/* decode `m` fully and compare with the expectation; `truncated` relaxes to "prefix of the records" */
static void verify(const uint8_t *m, size_t len, const char *qname, int had_opt, int truncated)
{
	static struct dw_reader rd; struct dw_header h; static struct dw_question q; static struct dw_rr rr; static struct dw_name want, tn;
	dw_reader_init(&rd, m, len);
	MC_COUNT("oracle_response_decoded");
	if (dw_read_header(&rd, &h)) CFAIL("response-too-short", "%s: %zu octets", g_ctx, len);
	if (h.id != 0x7777) CFAIL("id-differs", "%s: id %04x", g_ctx, h.id);
	if (!(h.flags & DW_F_QR) || (h.flags & DW_F_OPCODE) || (h.flags & DW_F_RCODE) != (unsigned)g_err || !(h.flags & DW_F_RD)) CFAIL("header-flags", "%s: flags %04x, err %d", g_ctx, h.flags, g_err);
	if (g_setflags == EVDNS_FLAGS_AA && !(h.flags & DW_F_AA)) CFAIL("header-flags", "%s: AA requested, flags %04x", g_ctx, h.flags);
	if (h.qd != 1) CFAIL("count-differs", "%s: qdcount %u", g_ctx, h.qd);
	int exp_n[3] = { 0, 0, had_opt ? 1 : 0 };
	for (int i = 0; i < g_nexp; i++) exp_n[g_exp[i].section]++;
	if (!truncated && (h.an != exp_n[0] || h.ns != exp_n[1] || h.ar != exp_n[2])) CFAIL("count-differs", "%s: header counts %u/%u/%u, records added %d/%d/%d", g_ctx, h.an, h.ns, h.ar, exp_n[0], exp_n[1], exp_n[2]);
	int rc = dw_read_question(&rd, &q);
	if (rc) { if (truncated) goto counts; CFAIL("question-undecodable", "%s: %s", g_ctx, dw_strerror(rc)); }
	dw_name_from_text(qname, strlen(qname), &want);
	if (!dw_name_eq(&q.name, &want, 0) || q.type != 1 || q.class_ != 1 || q.name.n_ptr) CFAIL("question-differs", "%s: question section does not echo the request", g_ctx);
	int present[3] = { 0, 0, 0 };
	for (int sec = 0; sec < 3; sec++) {
		int hdr = sec == 0 ? h.an : sec == 1 ? h.ns : h.ar, k = 0;
		for (int i = -1; i < g_nexp && k < hdr; i++) {
			const struct exp_rec *e = NULL; int bad = 0;
			if (i < 0) { if (!(sec == 2 && had_opt)) continue; }           /* the server's own OPT record leads the additional section */
			else { e = &g_exp[i]; if (e->section != sec) continue; }
			rc = dw_read_rr(&rd, &rr);
			if (rc) { if (truncated) goto counts; CFAIL("record-undecodable", "%s: section %d record %d: %s", g_ctx, sec, k, dw_strerror(rc)); }
			if (i >= 0 && i < 16) g_rr_start[i] = rr.start;
			name_check(&rr.owner, "owner", i, &bad); if (bad) return;
			if (!e) { if (rr.type != DW_TYPE_OPT || rr.owner.nlabels) CFAIL("record-differs", "%s: first additional record is not the OPT pseudo-record (type %u)", g_ctx, rr.type); }
			else {
				MC_COUNT("oracle_record_compared");
				dw_name_from_text(e->owner, strlen(e->owner), &want);
				if (!dw_name_eq(&rr.owner, &want, 0)) { char t[320]; dw_name_text(&rr.owner, t, sizeof t); CFAIL("record-differs", "%s: record %d owner '%s', added '%s' (offset %zu)", g_ctx, i, t, e->owner, rr.start); }
				if (rr.type != e->type || rr.class_ != e->class_ || rr.ttl != e->ttl) CFAIL("record-differs", "%s: record %d type/class/ttl %u/%u/%u, added %u/%u/%u", g_ctx, i, rr.type, rr.class_, rr.ttl, e->type, e->class_, e->ttl);
				if (e->is_name) {
					size_t ne = 0; rc = dw_read_rdata_name(&rd, rr.rdata, &tn, &ne);
					if (rc || ne != rr.end) CFAIL("rdata-name-undecodable", "%s: record %d: %s, name ends at %zu, rdata at %zu", g_ctx, i, dw_strerror(rc), ne, rr.end);
					name_check(&tn, "rdata name", i, &bad); if (bad) return;
					dw_name_from_text(e->tname, strlen(e->tname), &want);
					if (!dw_name_eq(&tn, &want, 0)) { char t[320]; dw_name_text(&tn, t, sizeof t); CFAIL("record-differs", "%s: record %d rdata name '%s', added '%s' (offset %zu)", g_ctx, i, t, e->tname, rr.rdata); }
				} else if (rr.rdlen != e->rd_len || memcmp(m + rr.rdata, g_pool + e->rd_off, e->rd_len)) CFAIL("record-differs", "%s: record %d rdata (%u octets) differs from the %u octets added", g_ctx, i, rr.rdlen, e->rd_len);
			}
			k++; present[sec]++;
		}
		if (k < hdr && !truncated) CFAIL("count-differs", "%s: section %d announces %d records, %d were added", g_ctx, sec, hdr, k);
		if (k < hdr) goto counts;
	}
	if (!truncated && rd.off != len) CFAIL("trailing-bytes", "%s: %zu octets after the last record", g_ctx, len - rd.off);
counts:
	if (truncated) {
		MC_COUNT("oracle_truncated_counts_checked");
		if (h.an > present[0] || h.ns > present[1] || h.ar > present[2])
			mc_fail("C35/truncated-counts-exceed-records", "%s: truncated to %zu octets: header announces %u/%u/%u records, only %d/%d/%d are completely present", g_ctx, len, h.an, h.ns, h.ar, present[0], present[1], present[2]);
	}
}

/* ---- one exchange ---- */
static struct srv_resp g_r;
static int exchange(int mode, const char *qname, unsigned opt)
{
	static struct dp_buf w;
	if (!g_srv.port || g_srv.mode != mode || !srv_idle()) { if (g_srv.eb) srv_close(); if (srv_open(mode) < 0) { mc_fail("harness:env", "%s: %s", g_ctx, strerror(errno)); srv_close(); return -1; } }
	memset(&g_slog, 0, sizeof g_slog); g_handler = scenario; g_nexp = 0;
	build_query(&w, qname, opt);
	srv_drain_client();
	MC_COUNT("exchanges");
	if (mode != SM_TCP) srv_udp_exchange(w.b, w.n, &g_r, 1);
	else {
		static uint8_t st[600];
		if (srv_tcp_connect()) { mc_fail("harness:tcp-connect", "%s", g_ctx); srv_close(); return -1; }
		st[0] = (uint8_t)(w.n >> 8); st[1] = (uint8_t)w.n; memcpy(st + 2, w.b, w.n);
		srv_tcp_feed(st, 0, w.n + 2);
		srv_tcp_collect(&g_r, 1);
		srv_tcp_disconnect();
	}
	if (g_slog.calls != 1) { mc_fail("harness:no-callback", "%s: the query did not reach the user callback (%d)", g_ctx, g_slog.calls); return -1; }
	return 0;
}

static long g_live0;
static void hygiene(void)
{
	if (!g_srv.port) return;
	if (!srv_idle()) { mc_fail("C35/port-not-idle", "%s: refcnt=%d after the exchange", g_ctx, g_srv.port->refcnt); srv_close(); return; }
}

/* sweep: find the filler length that makes the complete response `target + delta` octets, then test under `limit` */
static void run_sweep(const struct item *it, int mode, unsigned opt_query, size_t limit, size_t target, int delta)
{
	static uint8_t full[70000]; size_t full_n;
	unsigned probe_opt = mode == SM_TCP ? 0 : 65535;
	g_fill = 0; g_err = 0; g_setflags = -1;
	if (exchange(mode, QNAME_DEFAULT, probe_opt) || !g_r.have) { if (!mc_failed()) mc_fail("harness:probe", "%s: probe exchange gave no response", g_ctx); return; }
	long want = (long)target + delta - (long)g_r.n;
	if (want < 0) { MC_COUNT("sweep_skipped_base_larger_than_target"); mc_observe("(skipped: base %zu > target) ", g_r.n); return; }
	g_fill = want;
	/* the complete encoding with that filler (unlimited transport) */
	if (mode != SM_TCP || target + (size_t)delta <= 65535) {
		if (exchange(mode, QNAME_DEFAULT, probe_opt) || !g_r.have) { if (!mc_failed()) mc_fail("harness:probe", "%s: second probe gave no response", g_ctx); return; }
		/* (the 16k family is not linear once names land beyond the 14-bit pointer range) */
		if (it->fam != F_SWEEP16K && g_r.n != target + (size_t)delta && !(dw_get_u16(g_r.b + 2) & DW_F_TC)) { mc_fail("harness:sweep-not-linear", "%s: response %zu, wanted %zu", g_ctx, g_r.n, target + (size_t)delta); return; }
		memcpy(full, g_r.b, g_r.n); full_n = g_r.n;
	} else full_n = 0;
	if (mode == SM_TCP) {
		/* no client limit on TCP below 65536 */
		MC_COUNT("oracle_tcp_size_checked");
		if (full_n) {
			int tc = !!(dw_get_u16(full + 2) & DW_F_TC);
			if (tc) mc_fail("C35/tcp-truncated-below-64k", "%s: TC set on a %zu octet TCP response", g_ctx, full_n);
			else verify(full, full_n, QNAME_DEFAULT, 0, 0);
			mc_nontrivial(dp_hash_bytes(21, full, full_n > 64 ? 64 : full_n) ^ full_n);
		} else {
			/* would need more than 65535 octets: must come back truncated, with TC, and decodable as a prefix */
			if (exchange(mode, QNAME_DEFAULT, 0)) return;
			if (!g_r.have) { mc_fail("C35/over-64k-no-response", "%s: no response for records needing %zu octets", g_ctx, target + (size_t)delta); return; }
			if (!(dw_get_u16(g_r.b + 2) & DW_F_TC)) mc_fail("C35/over-limit-not-truncated", "%s: %zu octets needed, response of %zu without TC", g_ctx, target + (size_t)delta, g_r.n);
			else verify(g_r.b, g_r.n, QNAME_DEFAULT, 0, 1);
			mc_nontrivial(0x64000 + g_r.n);
		}
		hygiene();
		return;
	}
	/* UDP under the limit being tested */
	if (exchange(mode, QNAME_DEFAULT, opt_query)) return;
	if (!g_r.have) { mc_fail("C35/no-response", "%s: nothing arrived", g_ctx); return; }
	/* the limited response carries the server's OPT only if the query had one: compare like with like */
	int tc = !!(dw_get_u16(g_r.b + 2) & DW_F_TC);
	size_t complete = opt_query ? full_n : full_n - 11;       /* the probe's response carries an 11-octet OPT record more */
	MC_COUNT("oracle_limit_checked");
	if (complete == limit) MC_COUNT("size_exactly_at_limit"); else if (complete < limit) MC_COUNT("size_below_limit"); else MC_COUNT("size_above_limit");
	if (g_r.n > limit) mc_fail("C35/response-exceeds-limit", "%s: %zu octets sent, client limit %zu", g_ctx, g_r.n, limit);
	if (complete <= limit) {
		if (tc) mc_fail("C35/tc-without-need", "%s: complete response is %zu octets, limit %zu, yet TC is set (sent %zu)", g_ctx, complete, limit, g_r.n);
		else { if (g_r.n != complete) mc_fail("C35/size-differs", "%s: sent %zu, complete encoding %zu", g_ctx, g_r.n, complete); verify(g_r.b, g_r.n, QNAME_DEFAULT, opt_query != 0, 0); }
	} else {
		if (!tc) mc_fail("C35/over-limit-not-truncated", "%s: complete response is %zu octets, limit %zu, TC clear (sent %zu)", g_ctx, complete, limit, g_r.n);
		else {
			MC_COUNT("oracle_truncation_prefix_checked");
			if (opt_query && (g_r.n < 12 || memcmp(g_r.b + 3, full + 3, g_r.n - 3) || g_r.b[0] != full[0] || g_r.b[1] != full[1] || (g_r.b[2] & ~2) != (full[2] & ~2)))
				mc_fail("C35/truncated-not-prefix", "%s: the truncated message is not a prefix of the complete encoding", g_ctx);
			verify(g_r.b, g_r.n, QNAME_DEFAULT, opt_query != 0, 1);
		}
	}
	mc_nontrivial(dp_hash_bytes(22, g_r.b, g_r.n > 64 ? 64 : g_r.n) ^ (g_r.n * 4 + (size_t)tc));
	hygiene();
}

/* position sweep: the record that carries STRADDLE_NAME (third added record) starts exactly at offset `where` */
static void run_straddle(size_t where)
{
	g_fill = 0; g_err = 0; g_setflags = -1; memset(g_rr_start, 0, sizeof g_rr_start);
	if (exchange(SM_TCP, QNAME_DEFAULT, 0) || !g_r.have) { if (!mc_failed()) mc_fail("harness:probe", "%s: probe exchange gave no response", g_ctx); return; }
	verify(g_r.b, g_r.n, QNAME_DEFAULT, 0, 0);
	if (mc_failed()) return;
	if (!g_rr_start[2] || g_rr_start[2] > where) { mc_fail("harness:straddle-base", "%s: the name starts at %zu without padding", g_ctx, g_rr_start[2]); return; }
	g_fill = (long)(where - g_rr_start[2]); memset(g_rr_start, 0, sizeof g_rr_start);
	if (exchange(SM_TCP, QNAME_DEFAULT, 0)) return;
	if (!g_r.have) { mc_fail("C35/no-response", "%s: nothing arrived", g_ctx); return; }
	if (dw_get_u16(g_r.b + 2) & DW_F_TC) { mc_fail("C35/tcp-truncated-below-64k", "%s: TC set on a %zu octet TCP response", g_ctx, g_r.n); return; }
	verify(g_r.b, g_r.n, QNAME_DEFAULT, 0, 0);
	MC_COUNT("oracle_straddle_checked");
	if (!mc_failed()) {
		if (g_rr_start[2] != where) { mc_fail("harness:straddle-position", "%s: the name starts at %zu", g_ctx, g_rr_start[2]); return; }
		if (where <= 0x3fff && where + 47 >= 0x4000) MC_COUNT("straddle_name_crosses_0x4000");       /* starts in pointer range, an inner suffix does not */
	}
	mc_nontrivial(dp_hash_bytes(24, g_r.b + 16000, g_r.n > 16000 ? g_r.n - 16000 : 0) ^ where);
	hygiene();
}

static void run_plain(const struct item *it, int mode, const char *qname, unsigned opt)
{
	(void)it;
	if (exchange(mode, qname, opt)) return;
	if (g_slog.respond_rc < 0) {
		MC_COUNT("respond_refused");
		if (g_err >= 0 && g_err <= 15) mc_fail("C35/respond-failed", "%s: evdns_server_request_respond(%d) returned %d", g_ctx, g_err, g_slog.respond_rc);
		if (g_r.have) mc_fail("C35/response-despite-error", "%s: respond() failed but %zu octets were sent", g_ctx, g_r.n);
		hygiene(); return;
	}
	if (g_err < 0 || g_err > 15) { mc_fail("C35/invalid-rcode-accepted", "%s: respond(%d) succeeded", g_ctx, g_err); hygiene(); return; }
	if (!g_r.have) { mc_fail("C35/no-response", "%s: nothing arrived", g_ctx); return; }
	if (g_api_fail) mc_fail("harness:add-reply-failed", "%s: %d add_*_reply calls failed", g_ctx, g_api_fail);
	int tc = !!(dw_get_u16(g_r.b + 2) & DW_F_TC);
	size_t limit = mode == SM_TCP ? 65535 : opt ? (opt > 512 ? opt : 512) : 512;
	if (g_r.n > limit) mc_fail("C35/response-exceeds-limit", "%s: %zu octets sent, client limit %zu", g_ctx, g_r.n, limit);
	verify(g_r.b, g_r.n, qname, opt != 0, tc);
	mc_nontrivial(dp_hash_bytes(23, g_r.b + 2, g_r.n > 2 ? g_r.n - 2 : 0));
	hygiene();
}

/* ------------------------------------------------------------------ */
static void generate(const char *tier)
{
	int thorough = !strcmp(tier, "thorough");
	int span = thorough ? 48 : 8;
	for (int d = -span; d <= span; d++) for (int mix = 0; mix < 3; mix++) for (int k = 0; k <= (thorough ? 20 : 5); k += 5) for (int sec = 0; sec < 3; sec++) {
		if (!thorough && sec != (mix + k / 5) % 3) continue;
		if (k <= 10) {       /* more leading records would not fit under 512 - span */
			add_item(F_SWEEP512, SM_UDP, k, sec, mix, d);
			if (mix == 0 && sec == 0) add_item(F_SWEEP512, SM_DIRECT, k, sec, mix, d);
		}
		add_item(F_SWEEPEDNS, SM_UDP, k, sec, mix, d);
		if (thorough && mix != 1) add_item(F_SWEEPEDNS, SM_DIRECT, k, sec, mix, d);
	}
	for (int d = -(thorough ? 200 : 24); d <= (thorough ? 200 : 30); d++) add_item(F_SWEEP16K, SM_TCP, 0, 0, 0, d);
	for (int d = -(thorough ? 60 : 6); d <= (thorough ? 60 : 6); d++) for (int a = 0; a < 2; a++) add_item(F_SWEEP64K, SM_TCP, a, 0, 0, d);
	for (int d = -(thorough ? 400 : 64); d <= (thorough ? 100 : 16); d++) add_item(F_STRADDLE, SM_TCP, 0, 0, 0, d);   /* start of the name: 0x4000 + d */
	for (int q = 0; q < N_POOL; q++) for (int o = 0; o < N_POOL; o++) for (int t = 0; t < N_POOL; t++) for (int kind = 0; kind < 3; kind++) {
		if (pool_names[q][0] == 0) continue;                                 /* question names come from the wire: not the root */
		if (strchr(pool_names[q], 0)[-1] == '.') continue;                   /* ... and have no trailing dot */
		if (!thorough && kind != (q + o + t) % 3) continue;
		add_item(F_NAMES, SM_UDP, q, o, t, kind);
		if (thorough) { add_item(F_NAMES, SM_UDP, q, o, t, kind + 4); add_item(F_NAMES, SM_TCP, q, o, t, kind); add_item(F_NAMES, SM_DIRECT, q, o, t, kind + 4); }   /* +4: the query carries an OPT record */
	}
	for (int q = 0; q < 3; q++) for (int o = 0; o < N_POOL; o += 2) add_item(F_NAMES, SM_TCP, q, o, (o + 3) % N_POOL, q);
	{ static const int nsq[] = { 1, 20, 42, 43, 44, 60, 100 }; static int nst[140]; const int *ns = nsq; size_t nn = sizeof nsq / sizeof nsq[0];
	  if (thorough) { for (int i = 0; i < 140; i++) nst[i] = i + 1; ns = nst; nn = 140; }
	  for (size_t i = 0; i < nn; i++) { add_item(F_TABLE, SM_TCP, ns[i], 0, 0, 0); if (ns[i] <= 60) add_item(F_TABLE, SM_UDP, ns[i], 4096, 0, 0); } }
	for (int p = 0; p < 6; p++) for (int b = 0; b < 5; b++) for (int c = 0; c < 5; c++) for (int f = 0; f < 2; f++) {
		if (!thorough && (p + b + c + f) % 3) continue;
		add_item(F_SECTIONS, SM_UDP, p, b, c, f); if (thorough || f) add_item(F_SECTIONS, SM_TCP, p, b, c, f);
	}
	for (int e = -1; e <= 16; e++) { add_item(F_ERR, SM_UDP, e, 0, 0, 0); add_item(F_ERR, SM_TCP, e, 0, 0, 0); add_item(F_ERR, SM_DIRECT, e, 0, 0, 0); }
	for (int a = 0; a < 4; a++) for (int n = 0; n < N_POOL; n++) add_item(F_PTRIN, SM_UDP, a, n, 0, 0);
}

static void item_fn(uint64_t idx)
{
	static const char *mn[3] = { "direct", "udp", "tcp" };
	const struct item *it = &items[idx]; g_it = it;
	uint64_t fd0 = mcx_fd_signature(); long live0 = mcx_alloc_live();
	vclock_reset(); g_err = 0; g_setflags = -1; g_fill = 0;
	switch (it->fam) {
	case F_SWEEP512: snprintf(g_ctx, sizeof g_ctx, "%s sweep512 k=%d fillsec=%d mix=%d delta=%+d", mn[it->mode], it->a, it->b, it->c, it->d); run_sweep(it, it->mode, 0, 512, 512, it->d); break;
	case F_SWEEPEDNS: snprintf(g_ctx, sizeof g_ctx, "%s sweep-edns1232 k=%d fillsec=%d mix=%d delta=%+d", mn[it->mode], it->a, it->b, it->c, it->d); run_sweep(it, it->mode, 1232, 1232, 1232, it->d); break;
	case F_SWEEP16K: snprintf(g_ctx, sizeof g_ctx, "tcp sweep16k delta=%+d", it->d); run_sweep(it, SM_TCP, 0, 65535, 16384 + 120, it->d); break;
	case F_STRADDLE: snprintf(g_ctx, sizeof g_ctx, "tcp straddle16k name-start=0x4000%+d", it->d); run_straddle((size_t)(0x4000 + it->d)); break;
	case F_SWEEP64K: snprintf(g_ctx, sizeof g_ctx, "tcp sweep64k tail=%d delta=%+d", it->a, it->d); run_sweep(it, SM_TCP, 0, 65535, 65535, it->d); break;
	case F_NAMES: snprintf(g_ctx, sizeof g_ctx, "%s names q='%s' owner='%s' target='%s' kind=%d", mn[it->mode], pool_names[it->a], pool_names[it->b], pool_names[it->c], it->d); run_plain(it, it->mode, pool_names[it->a], (it->d & 4) ? 1232 : 0); break;
	case F_TABLE: snprintf(g_ctx, sizeof g_ctx, "%s label-table n=%d", mn[it->mode], it->a); run_plain(it, it->mode, "q.z0", (unsigned)it->b); break;
	case F_SECTIONS: snprintf(g_ctx, sizeof g_ctx, "%s sections perm=%d rawlen=%d ttl=%d aa=%d", mn[it->mode], it->a, it->b, it->c, it->d); run_plain(it, it->mode, "zone.test", 4096); break;
	case F_ERR: snprintf(g_ctx, sizeof g_ctx, "%s respond(err=%d)", mn[it->mode], it->a); g_err = it->a; run_plain(it, it->mode, QNAME_DEFAULT, 0); break;
	case F_PTRIN: snprintf(g_ctx, sizeof g_ctx, "udp ptr-by-address a=%d host='%s'", it->a, pool_names[it->b]); run_plain(it, SM_UDP, "4.3.2.1.in-addr.arpa", 0); break;
	}
	mc_observe("%s -> %zu octets%s, %d records added", g_ctx, g_r.n, g_r.have && g_r.n > 3 && (g_r.b[2] & 2) ? " TC" : "", g_nexp);
	if (g_srv.eb) srv_close();
	(void)g_live0;
	if (mcx_alloc_live() != live0) mc_fail("C35/leak", "%s: %ld allocation(s) live after the port and the event_base were freed", g_ctx, mcx_alloc_live() - live0);
	if (mcx_fd_signature() != fd0) mc_fail("C35/fdleak", "%s: fd table differs after the item", g_ctx);
}

static void init(void)
{
	if (!dp_alloc_trace_install()) mcx_alloc_install();
	event_set_log_callback(dp_quiet_log);
	static struct item warm = { F_ERR, SM_UDP, 0, 0, 0, 0 };
	for (int mode = SM_UDP; mode <= SM_TCP; mode++) { g_it = &warm; g_err = 0; g_setflags = -1; snprintf(g_ctx, sizeof g_ctx, "init"); exchange(mode, QNAME_DEFAULT, 0); srv_close(); }
}

int main(int argc, char **argv)
{
	generate(dp_argv_param(argc, argv, "tier", "quick"));
	struct mc_config cfg = { .property = "C35", .n_items = n_items, .item = item_fn, .init = init };
	return mc_main(argc, argv, &cfg);
}
