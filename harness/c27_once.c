/* C27 — every evhttp_make_request completes exactly once whatever the network
 * does; the server answers each request at most once, respects its connection
 * limit, and everything is freed exactly once.
 *
 * Client side: 1-2 queued requests, retries 0/1, over (a) a socketpair handed to
 * evhttp_connection_base_bufferevent_reuse_new, (b) a real loopback TCP connect to
 * a listener the harness accepts by hand, (c) a real connect to a refused port.
 * The harness plays the server from a script; at every byte offset of every
 * response it may inject (cost 1 each): pause (deliver what was produced so
 * far and let the client run), EOF (half close), close, reset (TCP only),
 * silence until the client's (virtual) timeout.  At the n-th callback
 * invocation (completion / error / chunk callback, n = 1..3) the "user" may
 * cancel another request, cancel the request itself from its chunk callback,
 * free the connection, issue a new request, or abandon the loop (everything
 * is then torn down, base included).
 *
 * Server side: real evhttp fed through the static evhttp_get_request on
 * socketpairs; up to 3 client connections against max_connections 0/1/2; the
 * client script may stop / close / reset at any byte of the request or vanish
 * while the reply is being written; the handler replies at once, later, or
 * only at teardown.
 */
#include "mcx.h"
#include "http.c"
#include "httpcli_common.h"
#include <netinet/tcp.h>

static long live0; static uint64_t fd0;

/* ================================================================== */
/* client side                                                         */

/* T_LATE: the first connect goes to the port that refuses; once the client has seen the refusal (a retry is
 * pending) the service "comes up": the harness points the connection object at the worker's listener, so the
 * retry connects and is served */
/* T_UNIX: evhttp_connection_base_bufferevent_unix_new to a path nobody listens on: connect() fails at once
 * (ENOENT), i.e. inside evhttp_make_request / evhttp_connection_connect_ instead of in a later loop iteration */
enum { T_PAIR, T_TCP, T_REFUSED, T_LATE, T_UNIX, NTRANSPORT };
static const char *tnames[] = { "pair", "tcp", "refused", "tcp-refused-then-listening", "unix-no-listener" };

struct script { const char *label; const char *bytes; int close_after; };
static const struct script scripts[] = {
	{ "cl", "HTTP/1.1 200 OK\r\nContent-Length: 2\r\n\r\nhi", 0 },
	{ "chunked", "HTTP/1.1 200 OK\r\nTransfer-Encoding: chunked\r\n\r\n1\r\nh\r\n1\r\ni\r\n0\r\n\r\n", 0 },
	{ "close-delimited", "HTTP/1.1 200 OK\r\n\r\nhi", 1 },
	{ "cl-conn-close", "HTTP/1.1 200 OK\r\nContent-Length: 2\r\nConnection: close\r\n\r\nhi", 1 },
};
#define NSCRIPTS 4

enum { F_NONE, F_PAUSE, F_EOF, F_CLOSE, F_SILENCE, F_RESET, NFAULTS };
static const char *fnames[] = { "-", "pause", "eof", "close", "silence", "reset" };

enum { A_NONE, A_CANCEL_OTHER, A_CANCEL_SELF_IN_CHUNK, A_FREE_CONN, A_NEW_REQUEST, A_ABANDON, NACTIONS };
static const char *anames[] = { "none", "cancel-other", "cancel-self-in-chunk-cb", "free-connection", "new-request", "abandon" };
enum { K_DONE, K_ERR, K_CHUNK };

#define MAXREQ 4
struct creq {
	struct evhttp_request *req;
	int made, done, done_ok, err, chunks;
	int cancelled, dropped;          /* cancelled by the user / freed with the connection by the user */
	int make_failed;                 /* evhttp_make_request returned -1: "the request has been freed", no callback may follow */
	int done_after_cancel;
};
static struct creq R[MAXREQ]; static int nR;
static struct evhttp_connection *c_evcon; static int c_evcon_freed, c_abandoned;
static int c_events, c_plan_action, c_plan_at, c_action_done;
static int c_in_cb, c_cb_req_nonnull;

static int req_live(const struct creq *q) { return q->made && !q->done && !q->cancelled && !q->dropped; }

static void c_done(struct evhttp_request *req, void *arg);
static void c_err(enum evhttp_request_error e, void *arg);
static void c_chunk(struct evhttp_request *req, void *arg);

static void c_make(const char *uri)
{
	struct creq *q = &R[nR];
	if (nR >= MAXREQ) return;
	q->req = evhttp_request_new(c_done, q);
	evhttp_request_set_error_cb(q->req, c_err);
	evhttp_request_set_chunked_cb(q->req, c_chunk);
	evhttp_add_header(q->req->output_headers, "Host", "h");
	nR++;
	q->made = 1;
	if (evhttp_make_request(c_evcon, q->req, EVHTTP_REQ_GET, uri) != 0) {
		/* documented: the request has been freed, no callback */
		q->dropped = 1; q->make_failed = 1;
		mc_observe("make_request(%s)=-1 ", uri);
	}
}

static void c_event(int kind, struct creq *q)
{
	c_events++;
	if (c_action_done || c_events != c_plan_at || c_plan_action == A_NONE) return;
	switch (c_plan_action) {
	case A_CANCEL_OTHER:
		for (int i = 0; i < nR; i++) {
			if (&R[i] == q || !req_live(&R[i])) continue;
			c_action_done = 1;
			R[i].cancelled = 1;
			mc_observe("[cancel r%d] ", i + 1);
			evhttp_cancel_request(R[i].req);
			MC_COUNT("action_cancel_other");
			break;
		}
		break;
	case A_CANCEL_SELF_IN_CHUNK:
		if (kind != K_CHUNK) break;
		c_action_done = 1;
		q->cancelled = 1;
		mc_observe("[cancel self r%d] ", (int)(q - R) + 1);
		evhttp_cancel_request(q->req);
		MC_COUNT("action_cancel_self_in_chunk_cb");
		break;
	case A_FREE_CONN:
		if (kind == K_CHUNK) break;           /* only cancelling is allowed from a chunk callback */
		c_action_done = 1;
		for (int i = 0; i < nR; i++) if (&R[i] != q && req_live(&R[i])) R[i].dropped = 1;
		mc_observe("[free connection] ");
		hc_asan_ctx = kind == K_ERR ? "connection-freed-in-error-cb" :
		    (q->req && q->done_ok == 0 && c_cb_req_nonnull) ? "connection-freed-in-completion-cb-of-connect-failure" : "connection-freed-in-completion-cb";
		c_evcon_freed = 1;
		evhttp_connection_free(c_evcon);
		MC_COUNT("action_free_connection");
		break;
	case A_NEW_REQUEST:
		if (kind == K_CHUNK) break;
		c_action_done = 1;
		mc_observe("[new request] ");
		c_make("/again");
		MC_COUNT("action_new_request");
		break;
	case A_ABANDON:
		c_action_done = 1;
		c_abandoned = 1; hc_stop = 1;
		mc_observe("[abandon] ");
		event_base_loopbreak(hc_base);
		MC_COUNT("action_abandon");
		break;
	}
}

static void c_done(struct evhttp_request *req, void *arg)
{
	struct creq *q = arg;
	/* documented for evhttp_cancel_request only: "the callback associated with this request is not executed" */
	if (q->cancelled) q->done_after_cancel++;
	q->done++;
	q->done_ok = req != NULL && req->response_code != 0;
	c_cb_req_nonnull = req != NULL;
	mc_observe("done(r%d,%s) ", (int)(q - R) + 1, q->done_ok ? "ok" : "fail");
	c_event(K_DONE, q);
}
static void c_err(enum evhttp_request_error e, void *arg)
{
	struct creq *q = arg;
	q->err++;
	mc_observe("err(r%d,%d) ", (int)(q - R) + 1, (int)e);
	c_event(K_ERR, q);
}
static void c_chunk(struct evhttp_request *req, void *arg)
{
	struct creq *q = arg;
	(void)req;
	q->chunks++;
	mc_observe("chunk(r%d) ", (int)(q - R) + 1);
	c_event(K_CHUNK, q);
}

/* harness-side end of one connection */
struct peer { int fd; int tcp; struct hc_buf in; int served, eof_seen, dead, silent, sent_eof; };
#define MAXPEER 6
static struct peer P[MAXPEER]; static int nP;

static void peer_close(struct peer *p, int reset)
{
	if (p->fd < 0) return;
	if (p->tcp) {
		/* never leave TIME_WAIT entries behind: abortive close (also what "reset" means) */
		struct linger lg = { 1, 0 };
		(void)reset;
		setsockopt(p->fd, SOL_SOCKET, SO_LINGER, &lg, sizeof lg);
	}
	close(p->fd);
	p->fd = -1; p->dead = 1;
}
static void peer_graceful_close(struct peer *p)
{
	if (p->fd < 0) return;
	close(p->fd);
	p->fd = -1; p->dead = 1;
}

static int count_req_ends(const struct hc_buf *b)
{
	int k = 0;
	for (size_t i = 0; i + 4 <= b->n; i++) if (!memcmp(b->p + i, "\r\n\r\n", 4)) k++;
	return k;
}

/* after a TCP peer changed what the client can read (data, FIN, RST), give the kernel a moment
 * (real, bounded; returns at once when the socket is readable).  AF_UNIX pairs are synchronous. */
static void client_fd_settle(const struct peer *p)
{
	if (!p->tcp || c_evcon_freed || !c_evcon || !c_evcon->bufev) return;
	int fd = bufferevent_getfd(c_evcon->bufev);
	if (fd >= 0) hc_real_wait(fd, POLLIN, 200);
}

static void c_loop(void)
{
	if (c_abandoned) return;
	hc_run();
}

/* serve one response on peer p following the script, asking for a fault at every byte offset.
 * returns 1 if the response was delivered completely */
static int serve(struct peer *p, const struct script *sc, int transport)
{
	size_t n = strlen(sc->bytes), from = 0;
	int nf = (transport == T_TCP || transport == T_LATE) ? NFAULTS : NFAULTS - 1;
	/* on the refused-then-listening transport the fault alphabet is only switched on with -P latefaults=1 (thorough) */
	int ask = transport != T_LATE || mc_param("latefaults", 0);
	for (size_t k = 0; k <= n; k++) {
		int f = ask ? mc_choose(nf, 1, "fault") : F_NONE;
		if (f == F_NONE) continue;
		mc_observe("{%s@%zu} ", fnames[f], k);
		MC_COUNT("faults_injected");
		int wrote = k > from;
		if (k > from) { if (hc_peer_write(p->fd, sc->bytes + from, k - from) < 0) { peer_close(p, 0); return 0; } from = k; }
		switch (f) {
		case F_PAUSE:
			if (wrote) client_fd_settle(p);
			c_loop();
			if (c_abandoned) return 0;
			break;
		case F_EOF: shutdown(p->fd, SHUT_WR); p->sent_eof = 1; client_fd_settle(p); return 0;
		case F_CLOSE: client_fd_settle(p); peer_graceful_close(p); return 0;
		case F_RESET: client_fd_settle(p); peer_close(p, 1); return 0;
		case F_SILENCE: p->silent = 1; if (wrote) client_fd_settle(p); return 0;
		}
	}
	if (n > from && hc_peer_write(p->fd, sc->bytes + from, n - from) < 0) { peer_close(p, 0); return 0; }
	p->served++;
	if (sc->close_after) { shutdown(p->fd, SHUT_WR); p->sent_eof = 1; }
	client_fd_settle(p);
	return 1;
}

static void run_client(void)
{
	int tmask = mc_param("transports", 31), smask = mc_param("scripts", 15);
	int tl[NTRANSPORT], nt = 0, sl[NSCRIPTS], ns = 0;
	for (int i = 0; i < NTRANSPORT; i++) if (tmask >> i & 1) tl[nt++] = i;
	for (int i = 0; i < NSCRIPTS; i++) if (smask >> i & 1) sl[ns++] = i;
	int transport = tl[mc_choose(nt, 0, "transport")];
	int cfg = mc_choose(4, 0, "nreq-retries");
	int nreq = 1 + (cfg & 1), retries = cfg >> 1;
	int si = sl[mc_choose(ns, 0, "script")];
	int plan = mc_choose(1 + (NACTIONS - 1) * mc_param("maxat", 3), 0, "user-action");
	const struct script *sc = &scripts[si];
	int listener = -1, lport = 0, sv[2] = { -1, -1 }, listening = 1;
	memset(R, 0, sizeof R); nR = 0; nP = 0;
	c_evcon_freed = c_abandoned = c_events = c_action_done = c_in_cb = 0;
	c_plan_action = plan ? 1 + (plan - 1) % (NACTIONS - 1) : A_NONE;
	c_plan_at = plan ? 1 + (plan - 1) / (NACTIONS - 1) : 0;
	if ((transport == T_REFUSED || transport == T_UNIX) && si != 0) { mc_observe("client: n/a (no response is ever sent to a refused connect)"); return; }
	mc_observe("client %s nreq=%d retries=%d %s action=%s@%d: ", tnames[transport], nreq, retries, sc->label, anames[c_plan_action], c_plan_at);
	MC_COUNT("client_scenarios");
	hc_exec_begin();
	if (transport == T_PAIR) {
		if (hc_socketpair(sv) < 0) { hc_exec_end(); return; }
		struct bufferevent *bev = bufferevent_socket_new(hc_base, sv[0], BEV_OPT_CLOSE_ON_FREE);
		c_evcon = evhttp_connection_base_bufferevent_reuse_new(hc_base, NULL, bev);
		hc_set_peer_addr(c_evcon, hc_refused_port);
		memset(&P[0], 0, sizeof P[0]); P[0].fd = sv[1]; nP = 1;
	} else if (transport == T_TCP) {
		listener = hc_worker_listen_fd; lport = hc_worker_listen_port;
		hc_worker_listener_drain();
		c_evcon = evhttp_connection_base_new(hc_base, NULL, "127.0.0.1", (ev_uint16_t)lport);
	} else if (transport == T_LATE) {
		listener = hc_worker_listen_fd; lport = hc_worker_listen_port;
		hc_worker_listener_drain();
		listening = 0;
		c_evcon = evhttp_connection_base_new(hc_base, NULL, "127.0.0.1", (ev_uint16_t)hc_refused_port);
	} else if (transport == T_UNIX) {
		c_evcon = evhttp_connection_base_bufferevent_unix_new(hc_base, NULL, "/nonexistent-verif-dir/no-such-socket");
	} else {
		c_evcon = evhttp_connection_base_new(hc_base, NULL, "127.0.0.1", (ev_uint16_t)hc_refused_port);
	}
	if (!c_evcon) { mc_fail("harness:evcon", "no connection object"); abort(); }
	evhttp_connection_set_retries(c_evcon, retries);
	/* a connection made from an existing bufferevent has no timeouts armed until one is set explicitly */
	evhttp_connection_set_timeout(c_evcon, 30);
	/* (a connect that fails synchronously runs callbacks from inside evhttp_make_request: the user action may
	 * already have freed the connection or abandoned the run) */
	for (int r = 0; r < nreq && !c_evcon_freed && !c_abandoned; r++) c_make(r ? "/second" : "/first");

	int rounds = 0, idle_rounds = 0;
	for (;;) {
		int progress = 0;
		if (++rounds > 200) { mc_fail("harness:client-driver-stuck", "200 rounds"); break; }
		c_loop();
		if (c_abandoned) break;
		if (!c_evcon_freed) hc_settle_connect(c_evcon);
		/* new TCP connections */
		if (listener >= 0 && !listening && !c_evcon_freed && c_evcon->retry_cnt > 0) {
			/* the first connect has been refused and a retry is scheduled: from now on the port accepts */
			c_evcon->port = (ev_uint16_t)lport;
			listening = 1; progress = 1;
			mc_observe("(service up) ");
			MC_COUNT("late_listeners_opened");
		}
		if (listener >= 0 && listening) {
			if (!c_evcon_freed && c_evcon->state == EVCON_CONNECTING) hc_real_wait(listener, POLLIN, 1000);
			for (;;) {
				int fd = accept(listener, NULL, NULL);
				if (fd < 0) break;
				if (nP >= MAXPEER) { close(fd); mc_fail("harness:too-many-connections", "more than %d", MAXPEER); break; }
				hc_nonblock(fd);
				struct peer *p = &P[nP++];
				memset(p, 0, sizeof *p); p->fd = fd; p->tcp = 1;
				progress = 1;
				MC_COUNT("tcp_connections_accepted");
				if (!c_evcon_freed && c_evcon->bufev) {
					/* environment hygiene: the client's socket is closed abortively too, so that no side of any
					 * connection is left in TIME_WAIT (a million connections per run would otherwise use up the
					 * machine's ephemeral ports); close() behaves the same for the library */
					int cfd = bufferevent_getfd(c_evcon->bufev);
					struct linger lg = { 1, 0 };
					if (cfd >= 0) setsockopt(cfd, SOL_SOCKET, SO_LINGER, &lg, sizeof lg);
				}
				c_loop();
				hc_real_wait(fd, POLLIN, 100);
			}
		}
		if (c_abandoned) break;
		/* requests that arrived */
		for (int i = 0; i < nP && !c_abandoned; i++) {
			struct peer *p = &P[i];
			if (p->fd < 0 || p->silent) continue;
			int e = hc_peer_drain(p->fd, &p->in);
			if (e && !p->eof_seen) {
				/* the client has closed (or reset) its side: the server side goes away too */
				p->eof_seen = 1; progress = 1;
				peer_close(p, 0);
				continue;
			}
			while (p->fd >= 0 && !p->silent && !p->sent_eof && count_req_ends(&p->in) > p->served && !c_abandoned) {
				progress = 1;
				if (!serve(p, sc, transport)) break;
				c_loop();
			}
		}
		if (c_abandoned) break;
		/* finished? */
		int live = 0;
		for (int i = 0; i < nR; i++) if (req_live(&R[i])) live++;
		if (!live || c_evcon_freed) { c_loop(); break; }
		if (progress) { idle_rounds = 0; continue; }
		/* nothing can happen any more except timers */
		if (++idle_rounds > 12) break;
		hc_idle_hit = 0;
		event_base_loop(hc_base, EVLOOP_ONCE);
		MC_COUNT("virtual_timer_rounds");
	}

	/* ---- verdicts ---- */
	for (int i = 0; i < nR; i++) {
		struct creq *q = &R[i];
		MC_COUNT("oracle_completion_count");
		if (q->done > 1) mc_fail("C27/client/completion-twice", "request %d: completion callback ran %d times", i + 1, q->done);
		if (q->err > 1) mc_fail("C27/client/error-cb-twice", "request %d: error callback ran %d times", i + 1, q->err);
		if (q->make_failed && q->done) mc_fail("C27/client/completion-although-make-request-failed", "request %d: evhttp_make_request returned -1 (request freed, per its documentation) but the completion callback ran %d time(s)", i + 1, q->done);
		if (q->done_after_cancel) mc_fail("C27/client/completion-after-cancel", "request %d: completion callback ran after evhttp_cancel_request", i + 1);
		if (req_live(q) && !c_abandoned && !c_evcon_freed) {
			char key[160];
			/* what the connection looks like now is part of the key: distinct ways of getting stuck stay distinct */
			const char *st = c_evcon->retry_cnt > 0 && !event_pending(&c_evcon->retry_ev, EV_TIMEOUT, NULL) ? "retry-count-left-nonzero-no-retry-pending" :
			    c_evcon->state == EVCON_DISCONNECTED ? "disconnected" : c_evcon->state == EVCON_CONNECTING ? "connecting" : c_evcon->state == EVCON_IDLE ? "idle" : "in-exchange";
			snprintf(key, sizeof key, "C27/client/never-completes/%s/%s", anames[c_plan_action], st);
			mc_fail(key, "request %d of %d never got its completion callback (transport %s, script %s, retries %d, action %s@%d)", i + 1, nR, tnames[transport], sc->label, retries, anames[c_plan_action], c_plan_at);
		}
	}
	/* ---- teardown: everything must go away exactly once ---- */
	if (!c_evcon_freed) evhttp_connection_free(c_evcon);
	c_evcon = NULL;
	for (int i = 0; i < nP; i++) { if (P[i].fd >= 0) peer_close(&P[i], 0); hc_buf_free(&P[i].in); }
	if (listener >= 0) hc_worker_listener_drain();      /* connections still in the accept queue */
	hc_exec_end();
}

/* ================================================================== */
/* server side                                                         */

#define MAXCONN 3
enum { H_NOW, H_LATER, H_AT_TEARDOWN, H_CHUNKED_LATER_END, H_BIG_NOW, NHPLANS };
static const char *hnames[] = { "reply-now", "reply-later", "reply-at-teardown", "chunked-end-later", "big-reply-now" };   /* big = 24 kB against a 4 kB send buffer */
enum { SF_NONE, SF_PAUSE, SF_EOF, SF_CLOSE, NSFAULTS };
static const char *sfnames[] = { "-", "pause", "eof", "close" };

struct sconn { int fd; struct hc_buf out; int sent_request, hdr_sent, closed, eof; };
static struct sconn SC[MAXCONN];
static struct evhttp *s_http;
static int s_hplan, s_handler_calls, s_max;
#define MAXPENDING 8
static struct { struct evhttp_request *req; int started; } s_pending[MAXPENDING]; static int s_npending;
static char *s_big; static size_t s_biglen;

static void s_reply(struct evhttp_request *req)
{
	struct evbuffer *b = evbuffer_new();
	evbuffer_add(b, "ok", 2);
	evhttp_send_reply(req, 200, "OK", b);
	evbuffer_free(b);
}
static void s_handler(struct evhttp_request *req, void *arg)
{
	(void)arg;
	s_handler_calls++;
	mc_observe("handler ");
	switch (s_hplan) {
	case H_NOW: s_reply(req); break;
	case H_BIG_NOW: {
		struct evbuffer *b = evbuffer_new();
		evbuffer_add_reference(b, s_big, s_biglen, NULL, NULL);
		evhttp_send_reply(req, 200, "OK", b);
		evbuffer_free(b);
		break; }
	case H_CHUNKED_LATER_END: {
		struct evbuffer *b = evbuffer_new();
		evhttp_send_reply_start(req, 200, "OK");
		evbuffer_add(b, "part", 4);
		evhttp_send_reply_chunk(req, b);
		evbuffer_free(b);
		if (s_npending < MAXPENDING) { s_pending[s_npending].req = req; s_pending[s_npending].started = 1; s_npending++; }
		break; }
	default:
		if (s_npending < MAXPENDING) { s_pending[s_npending].req = req; s_pending[s_npending].started = 0; s_npending++; }
		break;
	}
}
static void s_flush_pending(void)
{
	for (int i = 0; i < s_npending; i++) {
		mc_observe("late-reply ");
		if (s_pending[i].started) evhttp_send_reply_end(s_pending[i].req);
		else s_reply(s_pending[i].req);
	}
	s_npending = 0;
}

/* number of complete responses (and whether trailing garbage exists) in what a client received */
static int count_responses(const struct hc_buf *b, int eof, int *garbage)
{
	size_t off = 0; int k = 0;
	*garbage = 0;
	while (off < b->n) {
		struct r9_msg m;
		enum r9_result r = r9_parse_response(b->p + off, b->n - off, eof, R9_REQ_OTHER, &m);
		size_t used = m.consumed;
		r9_msg_free(&m);
		if (r != R9_OK) { if (r == R9_REJECT && !eof) *garbage = 1; break; }
		k++; off += used;
		if (!used) break;
	}
	return k;
}

static void run_server(void)
{
	/* request shape (-P reqshape=N, one level per shape): 0 a bodiless GET; with a server body limit of 8 bytes:
	 * 1 a POST with a 3-byte body, 2 a POST announcing 5000 bytes with "Expect: 100-continue" (headers only: the
	 * client waits for the verdict), 3 the same announcement without Expect followed by 10 body bytes.  Shapes 2
	 * and 3 are refused (413) before any handler runs; every shape must still get at most one response. */
	static const char *const shapes[] = {
		"GET /x HTTP/1.1\r\nHost: h\r\n\r\n",
		"POST /x HTTP/1.1\r\nHost: h\r\nContent-Length: 3\r\n\r\nabc",
		"POST /x HTTP/1.1\r\nHost: h\r\nContent-Length: 5000\r\nExpect: 100-continue\r\n\r\n",
		"POST /x HTTP/1.1\r\nHost: h\r\nContent-Length: 5000\r\n\r\n0123456789",
	};
	int shape = mc_param("reqshape", 0);
	if (shape < 0 || shape > 3) shape = 0;
	const char *reqbytes = shapes[shape];
	const size_t reqlen = strlen(reqbytes);
	/* once the header block is complete the server may answer (a refusal needs no body); "complete request" for
	 * the handler-call oracle still means every byte */
	const size_t hdrlen = (size_t)(strstr(reqbytes, "\r\n\r\n") - reqbytes) + 4;
	int mmask = mc_param("maxcmask", 7), ml[3], nm = 0;
	for (int i = 0; i < 3; i++) if (mmask >> i & 1) ml[nm++] = i;
	int maxc = ml[mc_choose(nm, 0, "max-connections")];
	int nconn = 1 + mc_choose(mc_param("maxconn", MAXCONN), 0, "connections");
	int hplan = mc_choose(NHPLANS, 0, "handler-plan");
	int second = mc_choose(2, 0, "second-request-on-first-connection");
	struct sockaddr_un sa; memset(&sa, 0, sizeof sa); sa.sun_family = AF_UNIX;
	if (!s_big) { s_biglen = (size_t)mc_param("big", 24000); s_big = malloc(s_biglen); memset(s_big, 0x78, s_biglen); }
	s_hplan = hplan; s_handler_calls = 0; s_npending = 0; s_max = maxc;
	mc_observe("server shape=%d max=%d conns=%d %s second=%d: ", shape, maxc, nconn, hnames[hplan], second);
	MC_COUNT("server_scenarios");
	hc_exec_begin();
	s_http = evhttp_new(hc_base);
	evhttp_set_gencb(s_http, s_handler, NULL);
	if (maxc) evhttp_set_max_connections(s_http, maxc);
	if (shape) evhttp_set_max_body_size(s_http, 8);
	int requests_sent = 0, over_limit = 0;
	for (int c = 0; c < nconn; c++) {
		int sv[2];
		struct sconn *s = &SC[c];
		memset(s, 0, sizeof *s);
		if (hc_socketpair(sv) < 0) { s->fd = -1; continue; }
		s->fd = sv[1];
		/* small send buffer on the server's socket: the 24 kB reply cannot be written in one go, so a
		 * client that vanishes meets a reply that is still being written */
		{ int sz = 4096; setsockopt(sv[0], SOL_SOCKET, SO_SNDBUF, &sz, sizeof sz); }
		int before = evhttp_get_connection_count(s_http);
		evhttp_get_request(s_http, sv[0], (struct sockaddr *)&sa, sizeof(sa_family_t), NULL);
		int is_over = maxc && before >= maxc;
		if (is_over) over_limit++;
		/* the client writes its request, possibly stopping / closing at any byte */
		size_t n = reqlen, from = 0; int stop = 0;
		for (size_t k = 0; k <= n && !stop; k++) {
			int f = mc_choose(NSFAULTS, 1, "client-fault");
			if (f == SF_NONE) continue;
			mc_observe("{c%d %s@%zu} ", c, sfnames[f], k);
			MC_COUNT("faults_injected");
			if (k > from) { hc_peer_write(s->fd, reqbytes + from, k - from); from = k; }
			switch (f) {
			case SF_PAUSE: hc_run(); break;
			case SF_EOF: if (k >= hdrlen) s->hdr_sent = 1; shutdown(s->fd, SHUT_WR); s->eof = 1; stop = 1; if (k == n) { s->sent_request = 1; requests_sent++; } break;
			case SF_CLOSE: close(s->fd); s->fd = -1; s->closed = 1; stop = 1; if (k == n) requests_sent++; break;
			}
		}
		if (!stop) {
			if (n > from) hc_peer_write(s->fd, reqbytes + from, n - from);
			s->sent_request = 1; s->hdr_sent = 1;
			requests_sent++;
		}
		hc_run();
		MC_COUNT("oracle_connection_limit");
		/* connections being served = total minus those that only get a 503 and are dropped */
		/* an over-limit connection only gets a 503 and is dropped: once the loop is quiet it is gone */
		if (maxc && evhttp_get_connection_count(s_http) > maxc)
			mc_fail("C27/server/connection-limit", "limit %d but %d connections are open (%d over-limit so far)", maxc, evhttp_get_connection_count(s_http), over_limit);
	}
	/* a client vanishing while the reply is written / pending: one more fault point per connection */
	for (int c = 0; c < nconn; c++) {
		struct sconn *s = &SC[c];
		if (s->fd < 0) continue;
		int f = mc_choose(3, 1, "client-vanishes");   /* 0 stay, 1 close now (reply unread), 2 half-close */
		if (f == 1) { mc_observe("{c%d vanishes} ", c); MC_COUNT("faults_injected"); close(s->fd); s->fd = -1; s->closed = 1; }
		else if (f == 2 && !s->eof) { mc_observe("{c%d half-closes} ", c); MC_COUNT("faults_injected"); shutdown(s->fd, SHUT_WR); s->eof = 1; }
		hc_run();
	}
	if (hplan == H_LATER || hplan == H_CHUNKED_LATER_END) { s_flush_pending(); hc_run(); }
	/* second request on the first connection (keep-alive), if it is still there */
	if (second && SC[0].fd >= 0 && !SC[0].eof && SC[0].sent_request) {
		hc_peer_drain(SC[0].fd, &SC[0].out);
		if (hc_peer_write(SC[0].fd, reqbytes, reqlen) == 0) { requests_sent++; mc_observe("second-request "); }
		hc_run();
		if (hplan == H_LATER || hplan == H_CHUNKED_LATER_END) { s_flush_pending(); hc_run(); }
	}
	/* read everything the clients got */
	int total_responses = 0, r503 = 0;
	for (int round = 0; round < 40; round++) {
		int moved = 0;
		for (int c = 0; c < nconn; c++) {
			struct sconn *s = &SC[c];
			if (s->fd < 0) continue;
			size_t before = s->out.n;
			int e = hc_peer_drain(s->fd, &s->out);
			if (s->out.n != before) moved = 1;
			if (e) { close(s->fd); s->fd = -1; moved = 1; s->closed = 2; }
		}
		hc_run();
		if (!moved) break;
	}
	MC_COUNT("oracle_connection_limit");
	if (maxc && hplan == H_NOW && evhttp_get_connection_count(s_http) > maxc)
		mc_fail("C27/server/connection-limit", "limit %d but %d connections stay open after all replies", maxc, evhttp_get_connection_count(s_http));
	for (int c = 0; c < nconn; c++) {
		struct sconn *s = &SC[c];
		int garbage, k;
		hc_buf_add(&s->out, "", 0);
		k = count_responses(&s->out, s->closed == 2, &garbage);
		total_responses += k;
		if (s->out.n >= 12 && !memcmp(s->out.p + 9, "503", 3)) r503++;
		MC_COUNT("oracle_responses_per_request");
		int asked = (s->sent_request || s->hdr_sent) + (c == 0 && second ? 1 : 0);
		if (k > asked && !(k == 1 && asked == 0 && s->out.n >= 12 && (!memcmp(s->out.p + 9, "503", 3) || !memcmp(s->out.p + 9, "400", 3))))
			mc_fail("C27/server/more-responses-than-requests", "connection %d sent %d complete requests and received %d responses", c, asked, k);
		if (garbage) mc_fail("C27/server/garbage-after-response", "connection %d: bytes after a complete response do not form a response", c);
	}
	MC_COUNT("oracle_handler_calls");
	if (s_handler_calls > requests_sent)
		mc_fail("C27/server/handler-called-too-often", "%d complete requests were sent, the handler ran %d times", requests_sent, s_handler_calls);
	mc_observe("-> handler=%d responses=%d 503=%d conns-left=%d", s_handler_calls, total_responses, r503, evhttp_get_connection_count(s_http));
	/* teardown */
	s_flush_pending();
	hc_run();
	for (int c = 0; c < nconn; c++) { if (SC[c].fd >= 0) close(SC[c].fd); hc_buf_free(&SC[c].out); }
	hc_run();
	evhttp_free(s_http); s_http = NULL;
	hc_exec_end();
}

/* ================================================================== */

static void init(void)
{
	hc_global_init();
	hc_worker_listener_init();
	live0 = mcx_alloc_live(); fd0 = mcx_fd_signature();
}

static void body(void)
{
	int sides = mc_param("sides", 3);
	int side = sides == 3 ? mc_choose(2, 0, "side") : sides - 1;
	if (side == 0) run_client(); else run_server();
	hc_asan_check(side ? "C27/server" : "C27/client");
	MC_COUNT("oracle_freed_exactly_once");
	if (mcx_alloc_live() != live0) { mc_fail(side ? "C27/server/leak" : "C27/client/leak", "%ld library allocations left", mcx_alloc_live() - live0); live0 = mcx_alloc_live(); }
	if (mcx_fd_signature() != fd0) { mc_fail(side ? "C27/server/fdleak" : "C27/client/fdleak", "fd table differs from the baseline"); fd0 = mcx_fd_signature(); }
}

int main(int c, char **v)
{
	struct mc_config cfg = { .property = "C27", .body = body, .init = init, .default_split = 4 };
	return mc_main(c, v, &cfg);
}
