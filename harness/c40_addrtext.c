/* C40 — textual address conversion of the real evutil.c against glibc.
 * Shard mode; -P part=N selects the enumeration (one run per part):
 *   part=1 ntop4   IPv4 addresses (all 2^v4bits, spread by an odd multiplier when v4bits<32) x buffer lengths
 *   part=2 ntop6   every zero-word pattern (2^8) x non-zero word values x every buffer length 0..47, v4-in-v6 forms
 *   part=3 pton4   all strings of length <= len4 over A4, plus a component grammar
 *   part=4 pton6   all strings of length <= len6 over A6, plus a group grammar
 *   part=5 sockaddr parse_sockaddr_port / format_sockaddr_port_ round trip, pton_scope
 * Every string handed to libevent and every output buffer sits at the end of an
 * exactly-sized heap block so that ASan sees any over-read / over-write.
 */
#include "mcx.h"
/* small ASan quarantine: freed blocks are reused quickly instead of every malloc touching fresh pages (20-40x faster here) */
const char *__asan_default_options(void) { return "quarantine_size_mb=4:thread_local_quarantine_size_kb=64"; }
#include <stdio.h>
#include <stdlib.h>
#include <string.h>
#include <ctype.h>
#include <arpa/inet.h>
#include <netinet/in.h>
#include <net/if.h>
#include <sys/socket.h>
#include "event2/util.h"
#include "util-internal.h"

static int PART;

/* exact-size blocks: blk(n) returns a block of exactly n bytes (cached per size) */
static char *blkcache[4][300];
static char *blk(int set, int n)
{
	if (!blkcache[set][n]) blkcache[set][n] = malloc(n ? n : 0);
	return blkcache[set][n];
}
/* copy s (with its NUL) into an exact-size block */
static const char *xstr(const char *s)
{
	size_t n = strlen(s);
	char *b = blk(0, (int)n + 1);
	memcpy(b, s, n + 1);
	return b;
}

#define ONCE(flag) (!(flag)++)
static void show(char *out, size_t n, const char *s)
{
	size_t o = 0;
	for (; *s && o + 5 < n; s++) {
		unsigned char c = *s;
		if (c >= 0x21 && c < 0x7f && c != '\\') out[o++] = c;
		else if (c == ' ') out[o++] = '_';
		else o += snprintf(out + o, n - o, "\\x%02x", c);
	}
	out[o] = 0;
}

/* ------------------------------------------------------------------ ntop IPv4 */
static int fmt4(char *out, uint32_t a)   /* independent formatter */
{
	int o = 0;
	for (int sh = 24; sh >= 0; sh -= 8) {
		unsigned b = (a >> sh) & 0xff;
		if (b >= 100) out[o++] = '0' + b / 100;
		if (b >= 10) out[o++] = '0' + (b / 10) % 10;
		out[o++] = '0' + b % 10;
		if (sh) out[o++] = '.';
	}
	out[o] = 0;
	return o;
}

struct ntop_rep { int trunc, wrong, nonul, ample, parse, own, retptr; };

/* one ntop call with an exact-size destination of `len` bytes */
static void ntop_at(int af, const void *addr, const char *full, int flen, int len, int ample, struct ntop_rep *rp, uint64_t *n_ok, uint64_t *n_fail, uint64_t *n_fail_room)
{
	const char *fam = af == AF_INET ? "ntop4" : "ntop6";
	char *dst = blk(1, len), key[96];
	if (len) memset(dst, 0x5a, len);
	const char *r = evutil_inet_ntop(af, addr, dst, len);
	if (!r) {
		(*n_fail)++;
		if (len > flen) (*n_fail_room)++;
		if (len >= ample && ONCE(rp->ample)) { snprintf(key, sizeof key, "C40/%s/fails-with-ADDRSTRLEN-buffer", fam); mc_fail(key, "%s with len=%d returned NULL", full, len); }
		return;
	}
	(*n_ok)++;
	if (r != dst) { if (ONCE(rp->retptr)) { snprintf(key, sizeof key, "C40/%s/returns-foreign-pointer", fam); mc_fail(key, "%s len=%d", full, len); } return; }
	if (!memchr(dst, 0, len)) { if (ONCE(rp->nonul)) { snprintf(key, sizeof key, "C40/%s/not-nul-terminated", fam); mc_fail(key, "%s len=%d", full, len); } return; }
	if (!strcmp(dst, full)) return;
	if (!strncmp(dst, full, strlen(dst))) {
		if (ONCE(rp->trunc)) { snprintf(key, sizeof key, "C40/%s/truncated-text-returned-when-len-equals-strlen", fam);
			if (len != flen) snprintf(key, sizeof key, "C40/%s/truncated-text-returned", fam);
			mc_fail(key, "address %s (strlen %d) with len=%d returned \"%s\" instead of failing", full, flen, len, dst); }
	} else if (ONCE(rp->wrong)) { snprintf(key, sizeof key, "C40/%s/wrong-text", fam); mc_fail(key, "expected %s, len=%d gave \"%s\"", full, len, dst); }
}

static void item_ntop4(uint64_t idx)
{
	int bits = mc_param("v4bits", 24), alllen = mc_param("alllen", 0), ownpton = mc_param("ownpton", 1), lens = mc_param("lens", 4);
	uint64_t per = 1 << 14, lo = idx * per, hi = lo + per;
	struct ntop_rep rp; memset(&rp, 0, sizeof rp);
	uint64_t n_ok = 0, n_fail = 0, n_room = 0, n_addr = 0;
	char full[20];
	for (uint64_t i = lo; i < hi; i++) {
		uint32_t a = bits >= 32 ? (uint32_t)i : (uint32_t)(i * 2654435761u);
		struct in_addr in, back; in.s_addr = htonl(a);
		int flen = fmt4(full, a);
		n_addr++;
		/* the reference text itself is checked against glibc */
		if (inet_pton(AF_INET, full, &back) != 1 || back.s_addr != in.s_addr) { mc_fail("harness:fmt4", "%s", full); return; }
		if (alllen) for (int len = 0; len <= 17; len++) ntop_at(AF_INET, &in, full, flen, len, INET_ADDRSTRLEN, &rp, &n_ok, &n_fail, &n_room);
		else { ntop_at(AF_INET, &in, full, flen, INET_ADDRSTRLEN, INET_ADDRSTRLEN, &rp, &n_ok, &n_fail, &n_room);
		       ntop_at(AF_INET, &in, full, flen, flen, INET_ADDRSTRLEN, &rp, &n_ok, &n_fail, &n_room);
		       if (lens >= 4) { ntop_at(AF_INET, &in, full, flen, flen + 1, INET_ADDRSTRLEN, &rp, &n_ok, &n_fail, &n_room);
		                        ntop_at(AF_INET, &in, full, flen, flen - 1, INET_ADDRSTRLEN, &rp, &n_ok, &n_fail, &n_room); } }
		if (ownpton) {
			struct in_addr *own = (struct in_addr *)blk(2, 4); own->s_addr = ~in.s_addr;
			int r = evutil_inet_pton(AF_INET, xstr(full), own);
			if ((r != 1 || own->s_addr != in.s_addr) && ONCE(rp.own)) mc_fail("C40/pton4/canonical-text-not-parsed-back", "%s -> r=%d %08x", full, r, ntohl(own->s_addr));
		}
	}
	MC_COUNTN("ntop4_addresses", n_addr); MC_COUNTN("ntop4_success", n_ok); MC_COUNTN("ntop4_fail", n_fail); MC_COUNTN("ntop4_fail_despite_room", n_room);
	mc_nontrivial(idx + 1);
	mc_observe("ntop4 block %llu: last address %s", (unsigned long long)idx, full);
}

/* the boundary-byte addresses x every length 0..17 (both tiers) */
static const int BB[] = { 0, 1, 9, 10, 11, 99, 100, 101, 127, 128, 199, 200, 249, 250, 254, 255 };
#define NBB 16
static void item_ntop4_bytes(uint64_t idx)          /* idx = first two bytes */
{
	struct ntop_rep rp; memset(&rp, 0, sizeof rp);
	uint64_t n_ok = 0, n_fail = 0, n_room = 0, n_addr = 0; char full[20];
	for (int c = 0; c < NBB; c++) for (int d = 0; d < NBB; d++) {
		uint32_t a = (uint32_t)BB[idx / NBB] << 24 | (uint32_t)BB[idx % NBB] << 16 | (uint32_t)BB[c] << 8 | (uint32_t)BB[d];
		struct in_addr in; in.s_addr = htonl(a);
		int flen = fmt4(full, a); n_addr++;
		for (int len = 0; len <= 17; len++) ntop_at(AF_INET, &in, full, flen, len, INET_ADDRSTRLEN, &rp, &n_ok, &n_fail, &n_room);
	}
	MC_COUNTN("ntop4_addresses", n_addr); MC_COUNTN("ntop4_success", n_ok); MC_COUNTN("ntop4_fail", n_fail); MC_COUNTN("ntop4_fail_despite_room", n_room);
	mc_nontrivial(0x10000000 + idx);
	mc_observe("ntop4 boundary bytes %d.%d.x.y, all lengths 0..17", BB[idx / NBB], BB[idx % NBB]);
}

/* ------------------------------------------------------------------ ntop IPv6 */
static const uint16_t VS_Q[] = { 0x1, 0xabcd, 0xff }, VS_T[] = { 0x1, 0x10, 0x100, 0xabcd, 0xffff };
static const uint16_t *VS; static int NVS;

static void words_to_addr(const uint16_t *w, struct in6_addr *a) { for (int i = 0; i < 8; i++) { a->s6_addr[2*i] = w[i] >> 8; a->s6_addr[2*i+1] = w[i] & 0xff; } }

static void check_ntop6(const uint16_t *w, int len_lo, int len_hi, struct ntop_rep *rp, uint64_t *cnt /* [5]: addr ok fail room sameglibc */)
{
	struct in6_addr a, back; words_to_addr(w, &a);
	char *big = blk(3, 64), full[64], g[64];
	memset(big, 0x5a, 64);
	cnt[0]++;
	if (!evutil_inet_ntop(AF_INET6, &a, big, 64) || !memchr(big, 0, 64)) {
		if (ONCE(rp->ample)) mc_fail("C40/ntop6/fails-with-ADDRSTRLEN-buffer", "%04x:%04x:%04x:%04x:%04x:%04x:%04x:%04x with len=64", w[0], w[1], w[2], w[3], w[4], w[5], w[6], w[7]);
		return;
	}
	strcpy(full, big);
	int flen = strlen(full);
	if (inet_pton(AF_INET6, full, &back) != 1 || memcmp(&back, &a, 16)) {
		if (ONCE(rp->parse)) mc_fail("C40/ntop6/text-does-not-parse-back", "%04x:%04x:%04x:%04x:%04x:%04x:%04x:%04x -> \"%s\" which glibc inet_pton %s", w[0], w[1], w[2], w[3], w[4], w[5], w[6], w[7], full,
		    inet_pton(AF_INET6, full, &back) == 1 ? "reads as another address" : "rejects");
	}
	struct in6_addr *own = (struct in6_addr *)blk(2, 16); memset(own, 0xa5, 16);
	int r = evutil_inet_pton(AF_INET6, xstr(full), own);
	if ((r != 1 || memcmp(own, &a, 16)) && ONCE(rp->own)) mc_fail("C40/pton6/own-text-not-parsed-back", "\"%s\" -> r=%d", full, r);
	if (inet_ntop(AF_INET6, &a, g, sizeof g) && !strcmp(g, full)) cnt[4]++;
	for (int len = len_lo; len <= len_hi; len++)
		ntop_at(AF_INET6, &a, full, flen, len, INET6_ADDRSTRLEN, rp, &cnt[1], &cnt[2], &cnt[3]);
}

static void flush_ntop6(uint64_t *cnt)
{
	MC_COUNTN("ntop6_address_visits", cnt[0]); MC_COUNTN("ntop6_success", cnt[1]); MC_COUNTN("ntop6_fail", cnt[2]);
	MC_COUNTN("ntop6_fail_despite_room", cnt[3]); MC_COUNTN("ntop6_text_same_as_glibc", cnt[4]);
}

/* item = (mask, block of 8 buffer lengths): all value combinations of the non-zero words */
static void item_ntop6(uint64_t idx)
{
	int mask = idx / 6, lb = idx % 6, pc = __builtin_popcount(mask);
	struct ntop_rep rp; memset(&rp, 0, sizeof rp);
	uint64_t cnt[5] = {0}, ncomb = 1;
	for (int i = 0; i < pc; i++) ncomb *= NVS;
	uint16_t w[8];
	for (uint64_t c = 0; c < ncomb; c++) {
		uint64_t x = c;
		for (int i = 0; i < 8; i++) { if (mask >> i & 1) { w[i] = VS[x % NVS]; x /= NVS; } else w[i] = 0; }
		check_ntop6(w, lb * 8, lb * 8 + 7, &rp, cnt);
	}
	flush_ntop6(cnt);
	mc_nontrivial(idx + 1);
	mc_observe("ntop6 zero-pattern %02x, buffer lengths %d..%d: %llu value combinations", mask, lb * 8, lb * 8 + 7, (unsigned long long)ncomb);
}

/* v4-in-v6 shaped addresses and their near misses, every length */
static void item_ntop6_v4(uint64_t idx)
{
	static const uint16_t BV[] = { 0, 1, 0xff, 0x100, 0x0a00, 0x7f00, 0x1234, 0xffff, 0xc0a8, 0x6464 };
	static const uint16_t W5[] = { 0, 0xffff, 0xfffe, 1 }, W4[] = { 0, 1, 0xffff };
	int nbv = sizeof BV / sizeof BV[0];
	struct ntop_rep rp; memset(&rp, 0, sizeof rp);
	uint64_t cnt[5] = {0};
	uint16_t w[8] = {0};
	w[5] = W5[idx % 4]; w[4] = W4[(idx / 4) % 3]; w[0] = (idx / 12) ? 0x2001 : 0;
	for (int a = 0; a < nbv; a++) for (int b = 0; b < nbv; b++) { w[6] = BV[a]; w[7] = BV[b]; check_ntop6(w, 0, 47, &rp, cnt); }
	flush_ntop6(cnt);
	mc_nontrivial(0x20000000 + idx);
	mc_observe("ntop6 v4-shaped w0=%x w4=%x w5=%x, all lengths", w[0], w[4], w[5]);
}

/* ------------------------------------------------------------------ pton oracle */
/* strip leading zeros of every digit run (keeping one digit) in s[from..] */
static void norm_digits(char *out, const char *s, size_t from)
{
	size_t o = 0, i = 0;
	for (; i < from; i++) out[o++] = s[i];
	while (s[i]) {
		if (s[i] >= '0' && s[i] <= '9') {
			size_t j = i; while (s[j] == '0') j++;
			if (!(s[j] >= '0' && s[j] <= '9')) j--;          /* run of zeros only: keep one */
			while (s[j] >= '0' && s[j] <= '9') out[o++] = s[j++];
			i = j;
		} else out[o++] = s[i++];
	}
	out[o] = 0;
}

struct pton_rep { int ws, plus, minus, wrap, x, colon, other, rej, addr, ret, lz_addr; };
struct pton_cnt { uint64_t n, acc, acc_lz, rej, lax; };

static int has_ws(const char *s) { return strpbrk(s, " \t\n\v\f\r") != NULL; }
static int has_wrap(const char *s)       /* a decimal run whose value does not fit 32 bits */
{
	for (const char *p = s; *p; ) {
		if (*p >= '0' && *p <= '9') { unsigned __int128 v = 0; int n = 0; while (*p >= '0' && *p <= '9') { if (n < 30) { v = v * 10 + (*p - '0'); n++; } p++; } if (v > 0xffffffffULL) return 1; }
		else p++;
	}
	return 0;
}

/* Compare evutil_inet_pton(af, s) with glibc:  G = strings glibc accepts, LZ = strings that become a member of G
 * when leading zeros of the IPv4 components are stripped.  Required: s in G => accepted with the same address;
 * s in LZ\G => may be accepted, then with the address of the stripped string; otherwise rejected. */
static void check_pton(int af, const char *s, struct pton_rep *rp, struct pton_cnt *pc)
{
	unsigned char g[16], gl[16];
	int alen = af == AF_INET ? 4 : 16;
	const char *fam = af == AF_INET ? "pton4" : "pton6";
	char nbuf[300], shown[400], key[96];
	int G = inet_pton(af, s, g) == 1, LZ = 0;
	if (!G) {
		size_t from = 0;
		if (af == AF_INET6) { const char *c = strrchr(s, ':'); from = c && strchr(c, '.') ? (size_t)(c - s) + 1 : strlen(s); }
		norm_digits(nbuf, s, from);
		LZ = strcmp(nbuf, s) && inet_pton(af, nbuf, gl) == 1;
	}
	unsigned char *out = (unsigned char *)blk(2, alen);
	memset(out, 0xa5, alen);
	int r = evutil_inet_pton(af, xstr(s), out);
	pc->n++;
	if (r != 0 && r != 1) { if (ONCE(rp->ret)) { show(shown, sizeof shown, s); snprintf(key, sizeof key, "C40/%s/returns-neither-0-nor-1", fam); mc_fail(key, "\"%s\" -> %d", shown, r); } return; }
	if (r == 1) {
		if (G) { pc->acc++; if (memcmp(out, g, alen) && ONCE(rp->addr)) { show(shown, sizeof shown, s); snprintf(key, sizeof key, "C40/%s/wrong-address", fam); mc_fail(key, "\"%s\"", shown); } return; }
		if (LZ) { pc->acc_lz++; if (memcmp(out, gl, alen) && ONCE(rp->lz_addr)) { show(shown, sizeof shown, s); snprintf(key, sizeof key, "C40/%s/leading-zero-component-not-read-as-decimal", fam); mc_fail(key, "\"%s\"", shown); } return; }
		pc->lax++;
		int *flag; const char *what;
		if (has_ws(s)) { flag = &rp->ws; what = "accepts-whitespace"; }
		else if (strchr(s, '+')) { flag = &rp->plus; what = "accepts-plus-sign"; }
		else if (strchr(s, '-')) { flag = &rp->minus; what = "accepts-minus-sign"; }
		else if (strpbrk(s, "xX")) { flag = &rp->x; what = "accepts-0x-prefix"; }
		else if (has_wrap(s)) { flag = &rp->wrap; what = "accepts-component-wrapping-32-bits"; }
		else if (af == AF_INET6 && s[0] && s[strlen(s) - 1] == ':' && (strlen(s) < 2 || s[strlen(s) - 2] != ':')) { flag = &rp->colon; what = "accepts-trailing-colon"; }
		else { flag = &rp->other; what = "accepts-other-invalid"; }
		if (ONCE(*flag)) { show(shown, sizeof shown, s); snprintf(key, sizeof key, "C40/%s/%s", fam, what); mc_fail(key, "\"%s\" is accepted (glibc inet_pton rejects it, also with leading zeros stripped)", shown); }
		return;
	}
	pc->rej++;
	if (G && ONCE(rp->rej)) { show(shown, sizeof shown, s); snprintf(key, sizeof key, "C40/%s/rejects-valid", fam); mc_fail(key, "\"%s\" is rejected, glibc accepts it", shown); }
}

static void flush_pton(int af, const struct pton_cnt *pc)
{
	if (af == AF_INET) { MC_COUNTN("pton4_strings", pc->n); MC_COUNTN("pton4_accepted_same_as_glibc", pc->acc); MC_COUNTN("pton4_accepted_leading_zeros", pc->acc_lz); MC_COUNTN("pton4_rejected", pc->rej); MC_COUNTN("pton4_lax_accepts", pc->lax); }
	else { MC_COUNTN("pton6_strings", pc->n); MC_COUNTN("pton6_accepted_same_as_glibc", pc->acc); MC_COUNTN("pton6_accepted_leading_zeros", pc->acc_lz); MC_COUNTN("pton6_rejected", pc->rej); MC_COUNTN("pton6_lax_accepts", pc->lax); }
}

/* ---- all strings up to a length over an alphabet; item = (length, first P symbols) */
#define PFX 3
static uint64_t ipow(uint64_t b, int e) { uint64_t r = 1; while (e-- > 0) r *= b; return r; }
static uint64_t allstr_items(int A, int maxlen) { uint64_t n = 0; for (int l = 0; l <= maxlen; l++) n += ipow(A, l < PFX ? l : PFX); return n; }

static void item_allstr(int af, const char *alpha, int maxlen, uint64_t idx)
{
	int A = strlen(alpha), l;
	for (l = 0; l <= maxlen; l++) { uint64_t k = ipow(A, l < PFX ? l : PFX); if (idx < k) break; idx -= k; }
	int p = l < PFX ? l : PFX, rest = l - p;
	char s[40]; uint64_t x = idx;
	for (int i = 0; i < p; i++) { s[i] = alpha[x % A]; x /= A; }
	s[l] = 0;
	struct pton_rep rp; memset(&rp, 0, sizeof rp); struct pton_cnt pc; memset(&pc, 0, sizeof pc);
	uint64_t total = ipow(A, rest);
	for (uint64_t c = 0; c < total; c++) {
		uint64_t y = c;
		for (int i = 0; i < rest; i++) { s[p + i] = alpha[y % A]; y /= A; }
		check_pton(af, s, &rp, &pc);
	}
	flush_pton(af, &pc);
	if (pc.acc + pc.acc_lz + pc.lax) mc_nontrivial(((uint64_t)af << 40) + ((uint64_t)l << 32) + idx + 1);
	char shown[100]; show(shown, sizeof shown, s);
	mc_observe("pton%d all strings of length %d starting \"%.*s\": %llu strings, %llu accepted; last \"%s\"", af == AF_INET ? 4 : 6, l, p, shown, (unsigned long long)total, (unsigned long long)(pc.acc + pc.acc_lz + pc.lax), shown);
}

/* ---- IPv4 component grammar: pre comp . comp . comp . comp post, also 3 and 5 components */
static const char *COMP[] = { "", "0", "1", "9", "00", "01", "09", "10", "99", "100", "199", "249", "255", "256", "260", "300", "999", "0255", "0256", "00000000001",
	"4294967295", "4294967296", "4294967297", "4294967551", "4294967552", "18446744073709551617", " 1", "1 ", "+1", "-1", "-0", "+0", "0x1", "0x", "1e0", "a", "\t1", "\n1", "1\n", "1.", "1:" };
#define NCOMP ((int)(sizeof COMP / sizeof COMP[0]))
static const char *PRE4[] = { "", " ", ".", "+", "0" }, *POST4[] = { "", ".", " ", "x", "\n", ":80", ".5", "/8" };
#define NPRE4 5
#define NPOST4 8

static void item_gram4(uint64_t idx)       /* idx = (c0, c1) */
{
	struct pton_rep rp; memset(&rp, 0, sizeof rp); struct pton_cnt pc; memset(&pc, 0, sizeof pc);
	const char *c0 = COMP[idx / NCOMP], *c1 = COMP[idx % NCOMP];
	char s[200];
	for (int a = 0; a < NCOMP; a++) for (int b = 0; b < NCOMP; b++) {
		snprintf(s, sizeof s, "%s.%s.%s.%s", c0, c1, COMP[a], COMP[b]); check_pton(AF_INET, s, &rp, &pc);
		if (b < NPRE4 * NPOST4 && (b / NPOST4 || b % NPOST4)) { snprintf(s, sizeof s, "%s%s.%s.%s.%s%s", PRE4[b / NPOST4], c0, c1, COMP[a], COMP[(a * 7 + 1) % 13], POST4[b % NPOST4]); check_pton(AF_INET, s, &rp, &pc); }
	}
	for (int a = 0; a < NCOMP; a++) { snprintf(s, sizeof s, "%s.%s.%s", c0, c1, COMP[a]); check_pton(AF_INET, s, &rp, &pc);
		snprintf(s, sizeof s, "%s.%s.%s.1.2", c0, c1, COMP[a]); check_pton(AF_INET, s, &rp, &pc);
		snprintf(s, sizeof s, "%s%s%s", c0, c1, COMP[a]); check_pton(AF_INET, s, &rp, &pc); }
	flush_pton(AF_INET, &pc);
	mc_nontrivial(0x30000000 + idx);
	char sh0[80], sh1[80]; show(sh0, sizeof sh0, c0); show(sh1, sizeof sh1, c1);
	mc_observe("pton4 grammar \"%s\".\"%s\".*.*: %llu strings, %llu accepted", sh0, sh1, (unsigned long long)pc.n, (unsigned long long)(pc.acc + pc.acc_lz + pc.lax));
}

/* ---- IPv6 group grammar: up to 9 groups from GS joined by ':', last group optionally an IPv4-ish tail */
static const char *GS[] = { "", "0", "1", "ffff", "Ab" };
static int NGS = 4;             /* -P full=1: 5 */
static const char *TAIL6[] = { NULL, "1.2.3.4", "255.255.255.255", "256.1.1.1", "01.2.3.4", "1.2.3", "1.2.3.4.5", "+1.2.3.4", "1.2.3.-0", " 1.2.3.4", "1. 2.3.4", "1.2.3.4 ", "4294967297.2.3.4", "1.2.3.4:", "0x1.2.3.4", "f.2.3.4", "00001", "10000", "0x1", "0x", "g", "1 ", " 1", "+1", "-1", "fffff", "ffff:" };
#define NTAIL6 ((int)(sizeof TAIL6 / sizeof TAIL6[0]))

static void item_gram6(uint64_t idx)      /* idx = (ngroups 1..9, tail, first two groups) */
{
	int g01 = idx % (NGS * NGS); idx /= NGS * NGS;
	int tail = idx % NTAIL6; idx /= NTAIL6;
	int ng = idx + 1;
	struct pton_rep rp; memset(&rp, 0, sizeof rp); struct pton_cnt pc; memset(&pc, 0, sizeof pc);
	int freeg = ng - 2 - (TAIL6[tail] ? 1 : 0);     /* groups enumerated inside */
	char s[200];
	if (freeg < 0) {
		/* short forms: only when they are expressible */
		if (ng == 1 && g01 < NGS && !TAIL6[tail]) { snprintf(s, sizeof s, "%s", GS[g01]); check_pton(AF_INET6, s, &rp, &pc); }
		else if (ng == 1 && g01 == 0 && TAIL6[tail]) { check_pton(AF_INET6, TAIL6[tail], &rp, &pc); }
		else if (ng == 2 && g01 < NGS && TAIL6[tail]) { snprintf(s, sizeof s, "%s:%s", GS[g01], TAIL6[tail]); check_pton(AF_INET6, s, &rp, &pc); }
	} else {
		uint64_t total = ipow(NGS, freeg);
		for (uint64_t c = 0; c < total; c++) {
			int o = snprintf(s, sizeof s, "%s:%s", GS[g01 / NGS], GS[g01 % NGS]);
			uint64_t y = c;
			for (int i = 0; i < freeg; i++) { o += snprintf(s + o, sizeof s - o, ":%s", GS[y % NGS]); y /= NGS; }
			if (TAIL6[tail]) snprintf(s + o, sizeof s - o, ":%s", TAIL6[tail]);
			check_pton(AF_INET6, s, &rp, &pc);
		}
	}
	flush_pton(AF_INET6, &pc);
	if (pc.n) mc_nontrivial(0x40000000 + ((uint64_t)ng << 20) + tail * 64 + g01);
	if (pc.n) { char sh[300]; show(sh, sizeof sh, s); mc_observe("pton6 grammar %d groups tail %d: %llu strings, %llu accepted; last \"%s\"", ng, tail, (unsigned long long)pc.n, (unsigned long long)(pc.acc + pc.acc_lz + pc.lax), sh); }
}

/* ------------------------------------------------------------------ sockaddr text */
static const uint32_t CAT4[] = { 0, 1, 0x01020304, 0x0a000001, 0x7f000001, 0xc0a864c8, 0xffffffff, 0x64630900, 0x00ff00ff, 0xff00ff00, 0x09090909, 0x63636363, 0xc7c7c7c7, 0xe0000001, 0x08080808, 0xfffffffe };
static const int PORTS[] = { 1, 2, 80, 255, 256, 443, 1024, 8080, 32767, 32768, 65534, 65535 };
#define NPORTS 12

static struct { int fmt, parse, eq, noport, badport, small, scope; } srep;
static uint64_t sa_round, sa_noport, sa_bad;

static void roundtrip_sa(const struct sockaddr *sa, int salen, const char *plain /* ntop text */)
{
	char key[96];
	const char *fam = sa->sa_family == AF_INET ? "v4" : "v6";
	/* exact-size copy of the sockaddr so that format cannot read past it */
	struct sockaddr *in = (struct sockaddr *)blk(3, salen); memcpy(in, sa, salen);
	char *txt = blk(1, 128); memset(txt, 0x5a, 128);
	const char *r = evutil_format_sockaddr_port_(in, txt, 128);
	if (r != txt || !memchr(txt, 0, 128)) { if (ONCE(srep.fmt)) mc_fail("C40/format/bad-return", "%s", plain); return; }
	char expect[160];
	int port = ntohs(sa->sa_family == AF_INET ? ((const struct sockaddr_in *)sa)->sin_port : ((const struct sockaddr_in6 *)sa)->sin6_port);
	snprintf(expect, sizeof expect, sa->sa_family == AF_INET ? "%s:%d" : "[%s]:%d", plain, port);
	if (strcmp(expect, txt) && ONCE(srep.fmt)) { snprintf(key, sizeof key, "C40/format/%s-wrong-text", fam); mc_fail(key, "got \"%s\" expected \"%s\"", txt, expect); }
	/* parse it back into an exactly-sized sockaddr */
	struct sockaddr *out = (struct sockaddr *)blk(2, salen); memset(out, 0xa5, salen);
	int outlen = salen;
	int pr = evutil_parse_sockaddr_port(xstr(txt), out, &outlen);
	sa_round++;
	if (pr != 0 || outlen != salen) { if (ONCE(srep.parse)) { snprintf(key, sizeof key, "C40/parse-port/%s-formatted-text-rejected", fam); mc_fail(key, "\"%s\" -> %d outlen %d", txt, pr, outlen); } }
	else if (out->sa_family != sa->sa_family ||
	    (sa->sa_family == AF_INET ? memcmp(&((struct sockaddr_in *)out)->sin_addr, &((const struct sockaddr_in *)sa)->sin_addr, 4) || ((struct sockaddr_in *)out)->sin_port != ((const struct sockaddr_in *)sa)->sin_port
	                              : memcmp(&((struct sockaddr_in6 *)out)->sin6_addr, &((const struct sockaddr_in6 *)sa)->sin6_addr, 16) || ((struct sockaddr_in6 *)out)->sin6_port != ((const struct sockaddr_in6 *)sa)->sin6_port)) {
		if (ONCE(srep.eq)) { snprintf(key, sizeof key, "C40/parse-port/%s-round-trip-differs", fam); mc_fail(key, "\"%s\"", txt); }
	}
	/* one byte too small an output must be refused (ASan watches the block) */
	struct sockaddr *sm = (struct sockaddr *)blk(2, salen - 1); int smlen = salen - 1;
	if (evutil_parse_sockaddr_port(xstr(txt), sm, &smlen) != -1 && ONCE(srep.small)) mc_fail("C40/parse-port/accepts-too-small-output", "\"%s\" outlen %d", txt, salen - 1);
	/* without a port: port 0, same address (plain and bracketed for v6) */
	for (int v = 0; v < (sa->sa_family == AF_INET6 ? 2 : 1); v++) {
		char t2[160]; snprintf(t2, sizeof t2, v ? "[%s]" : "%s", plain);
		memset(out, 0xa5, salen); outlen = salen;
		pr = evutil_parse_sockaddr_port(xstr(t2), out, &outlen);
		sa_noport++;
		int p2 = pr == 0 ? ntohs(sa->sa_family == AF_INET ? ((struct sockaddr_in *)out)->sin_port : ((struct sockaddr_in6 *)out)->sin6_port) : -1;
		if ((pr != 0 || p2 != 0 || out->sa_family != sa->sa_family || (sa->sa_family == AF_INET ? memcmp(&((struct sockaddr_in *)out)->sin_addr, &((const struct sockaddr_in *)sa)->sin_addr, 4) : memcmp(&((struct sockaddr_in6 *)out)->sin6_addr, &((const struct sockaddr_in6 *)sa)->sin6_addr, 16))) && ONCE(srep.noport)) { snprintf(key, sizeof key, "C40/parse-port/%s-portless-text", fam); mc_fail(key, "\"%s\" -> %d port %d", t2, pr, p2); }
	}
	/* a port outside 1..65535 must never come back as a successfully parsed address with another port */
	static const char *BADP[] = { "0", "65536", "65537", "-1", "131072", "4294967297" };
	for (unsigned b = 0; b < sizeof BADP / sizeof BADP[0]; b++) {
		char t3[200]; snprintf(t3, sizeof t3, sa->sa_family == AF_INET ? "%s:%s" : "[%s]:%s", plain, BADP[b]);
		memset(out, 0xa5, salen); outlen = salen;
		pr = evutil_parse_sockaddr_port(xstr(t3), out, &outlen);
		sa_bad++;
		if (pr == 0 && ONCE(srep.badport)) mc_fail("C40/parse-port/accepts-port-outside-1-65535", "\"%s\" accepted", t3);
	}
}

static void item_sockaddr(uint64_t idx)
{
	memset(&srep, 0, sizeof srep); sa_round = sa_noport = sa_bad = 0;
	char plain[64];
	if (idx < 16) {
		struct sockaddr_in sin; memset(&sin, 0, sizeof sin); sin.sin_family = AF_INET; sin.sin_addr.s_addr = htonl(CAT4[idx]);
		inet_ntop(AF_INET, &sin.sin_addr, plain, sizeof plain);
		for (int p = 0; p < NPORTS; p++) { sin.sin_port = htons(PORTS[p]); roundtrip_sa((struct sockaddr *)&sin, sizeof sin, plain); }
	} else if (idx < 16 + 256) {
		int mask = idx - 16;
		for (int variant = 0; variant < NVS; variant++) {
			uint16_t w[8]; for (int i = 0; i < 8; i++) w[i] = (mask >> i & 1) ? VS[(i + variant) % NVS] : 0;
			struct sockaddr_in6 s6; memset(&s6, 0, sizeof s6); s6.sin6_family = AF_INET6; words_to_addr(w, &s6.sin6_addr);
			/* the plain text is libevent's own (its correctness is part=2's business); if it is not parseable, glibc's */
			if (!evutil_inet_ntop(AF_INET6, &s6.sin6_addr, plain, sizeof plain)) inet_ntop(AF_INET6, &s6.sin6_addr, plain, sizeof plain);
			for (int p = 0; p < NPORTS; p++) { s6.sin6_port = htons(PORTS[p]); roundtrip_sa((struct sockaddr *)&s6, sizeof s6, plain); }
		}
	} else {
		/* scope ids through pton_scope and parse_sockaddr_port */
		static const char *ADDR[] = { "fe80::1", "::1", "ff02::1:2", "fe80::abcd:1:ff" };
		unsigned lo = if_nametoindex("lo");
		for (unsigned a = 0; a < 4; a++) {
			struct in6_addr want, *got = (struct in6_addr *)blk(2, 16); unsigned ix;
			inet_pton(AF_INET6, ADDR[a], &want);
			char t[100];
			static const unsigned ZONES[] = { 1, 2, 9, 10, 4095, 65536, 4294967295u };
			for (unsigned z = 0; z < 7; z++) {
				snprintf(t, sizeof t, "%s%%%u", ADDR[a], ZONES[z]);
				memset(got, 0xa5, 16); ix = 12345;
				int r = evutil_inet_pton_scope(AF_INET6, xstr(t), got, &ix);
				if ((r != 1 || ix != ZONES[z] || memcmp(got, &want, 16)) && ONCE(srep.scope)) mc_fail("C40/pton-scope/numeric-zone", "\"%s\" -> r=%d index %u", t, r, ix);
				struct sockaddr_in6 *o6 = (struct sockaddr_in6 *)blk(3, sizeof *o6); int ol = sizeof *o6;
				snprintf(t, sizeof t, "[%s%%%u]:%d", ADDR[a], ZONES[z], PORTS[z]);
				r = evutil_parse_sockaddr_port(xstr(t), (struct sockaddr *)o6, &ol);
				if ((r != 0 || o6->sin6_scope_id != ZONES[z] || memcmp(&o6->sin6_addr, &want, 16) || ntohs(o6->sin6_port) != PORTS[z]) && ONCE(srep.scope)) mc_fail("C40/parse-port/scoped-address", "\"%s\" -> %d", t, r);
				sa_round++;
			}
			if (lo) {
				snprintf(t, sizeof t, "%s%%lo", ADDR[a]); memset(got, 0xa5, 16); ix = 12345;
				int r = evutil_inet_pton_scope(AF_INET6, xstr(t), got, &ix);
				if ((r != 1 || ix != lo || memcmp(got, &want, 16)) && ONCE(srep.scope)) mc_fail("C40/pton-scope/named-zone", "\"%s\" -> r=%d index %u (lo is %u)", t, r, ix, lo);
			}
			/* no zone: same as evutil_inet_pton, index 0 */
			memset(got, 0xa5, 16); ix = 12345;
			int r = evutil_inet_pton_scope(AF_INET6, xstr(ADDR[a]), got, &ix);
			if ((r != 1 || ix != 0 || memcmp(got, &want, 16)) && ONCE(srep.scope)) mc_fail("C40/pton-scope/no-zone", "\"%s\" -> r=%d index %u", ADDR[a], r, ix);
			snprintf(t, sizeof t, "%s%%nosuchif0", ADDR[a]);
			r = evutil_inet_pton_scope(AF_INET6, xstr(t), got, &ix);
			if (r == 1 && ONCE(srep.scope)) mc_fail("C40/pton-scope/unknown-zone-accepted", "\"%s\"", t);
			sa_noport++;
		}
	}
	MC_COUNTN("sockaddr_round_trips", sa_round); MC_COUNTN("sockaddr_portless_parses", sa_noport); MC_COUNTN("sockaddr_bad_port_parses", sa_bad);
	mc_nontrivial(0x50000000 + idx);
	mc_observe("sockaddr item %llu: last text %s", (unsigned long long)idx, plain);
}

/* ------------------------------------------------------------------ */
static const char *A4, *A6; static int LEN4, LEN6;
static uint64_t n_a, n_b;     /* sizes of the first and second sub-range of the selected part */

static void setup(void)
{
	static int done; if (done) return; done = 1;
	int full = mc_param("full", 0);
	VS = full ? VS_T : VS_Q; NVS = full ? 5 : 3; NGS = full ? 5 : 4;
	A4 = mc_param_str("a4", "012.+- 5x");
	A6 = mc_param_str("a6", "01f:.x +-g");
	LEN4 = mc_param("len4", 8); LEN6 = mc_param("len6", 7);
}

static void item(uint64_t i)
{
	setup();
	switch (PART) {
	case 1: if (i < n_a) item_ntop4(i); else item_ntop4_bytes(i - n_a); break;
	case 2: if (i < n_a) item_ntop6(i); else item_ntop6_v4(i - n_a); break;
	case 3: if (i < n_a) item_allstr(AF_INET, A4, LEN4, i); else item_gram4(i - n_a); break;
	case 4: if (i < n_a) item_allstr(AF_INET6, A6, LEN6, i); else item_gram6(i - n_a); break;
	case 5: item_sockaddr(i); break;
	}
}

/* mc_main parses argv itself; the part and its sizes are needed before that */
static const char *arg_param(int argc, char **argv, const char *name, const char *dflt)
{
	size_t l = strlen(name);
	for (int i = 1; i + 1 < argc; i++)
		if (!strcmp(argv[i], "-P") && !strncmp(argv[i + 1], name, l) && argv[i + 1][l] == '=') return argv[i + 1] + l + 1;
	return dflt;
}

int main(int argc, char **argv)
{
	PART = atoi(arg_param(argc, argv, "part", "1"));
	int bits = atoi(arg_param(argc, argv, "v4bits", "24"));
	int l4 = atoi(arg_param(argc, argv, "len4", "8")), l6 = atoi(arg_param(argc, argv, "len6", "7"));
	const char *a4 = arg_param(argc, argv, "a4", "012.+- 5x"), *a6 = arg_param(argc, argv, "a6", "01f:.x +-g");
	switch (PART) {
	case 1: n_a = 1ULL << (bits - 14); n_b = NBB * NBB; break;
	case 2: n_a = 256 * 6; n_b = 24; break;
	case 3: n_a = allstr_items(strlen(a4), l4); n_b = (uint64_t)NCOMP * NCOMP; break;
	case 4: NGS = atoi(arg_param(argc, argv, "full", "0")) ? 5 : 4; n_a = allstr_items(strlen(a6), l6); n_b = (uint64_t)9 * NTAIL6 * NGS * NGS; break;
	case 5: n_a = 16 + 256 + 1; n_b = 0; break;
	default: fprintf(stderr, "c40: bad part\n"); return 2;
	}
	struct mc_config cfg = { .property = "C40", .n_items = n_a + n_b, .item = item };
	return mc_main(argc, argv, &cfg);
}
