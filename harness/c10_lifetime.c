/* C10 — objects are finalized exactly once and never used after release.
 *
 * Tree mode, one "world" per run (-P world=N), each world = a handful of object
 * slots and an operation alphabet; every history of length <= depth (-P depth=D)
 * is executed against the real library on a fresh event_base.  choice 0 = END.
 * END performs the canonical teardown: every object that is still alive is
 * released with its ordinary release call (no loop iteration in between), then
 * event_base_free (or event_base_free_nofinalize when the history ended with
 * the END-NOFINALIZE op), then libevent_global_shutdown, then the baselines.
 *
 * Oracles (context structs live in a static arena, never freed, so they do not
 * depend on AddressSanitizer):
 *   C10/callback-after-release/<kind>     a user callback of an object starts after the call that released it returned
 *   C10/finalizer-count/<kind>            finalizer ran twice / not at all when it had to / without being requested
 *   C10/finalizer-before-last-callback/<kind>  finalizer entered while the object's callback is still running
 *   C10/finalizer-not-run-by-loop/<kind>  a pending finalizer survived a complete loop pass
 *   C10/once-count/<variant>              event_base_once callback ran twice, or not although due, or after the base went away
 *   C10/leak/memory, C10/leak/fd, C10/leak/locks   something allocated through the library is left after
 *                                          event_base_free + libevent_global_shutdown
 *   lock discipline (env/locks.c, prefix C10lock) and ASan as always-on monitors.
 */
#ifndef _GNU_SOURCE
#define _GNU_SOURCE
#endif
#include "mcx.h"
#include "locks.h"
#include "vclock.h"

#include <event2/event.h>
#include <event2/event_struct.h>
#include <event2/thread.h>
#include <event2/buffer.h>
#include <event2/bufferevent.h>
#include <event2/listener.h>
#include <event2/util.h>
#include "mm-internal.h"
#include "evthread-internal.h"
#include "event-internal.h"
#include "defer-internal.h"

#include <stdio.h>
#include <stdlib.h>
#include <string.h>
#include <errno.h>
#include <unistd.h>
#include <signal.h>
#include <fcntl.h>
#include <sys/socket.h>
#include <sys/un.h>
#include <stddef.h>

/* ------------------------------------------------------------------ */
struct octx {
	const char *kind;        /* used in failure keys */
	int created, released, in_cb, cbs, fins, fin_requested;
	long deadline;           /* once-timer: virtual time at which it is due */
	int script;              /* what the callback does */
	int aux;
	void *obj;
	struct octx *partner;
};
#define NCTX 12
static struct octx ctx[NCTX];
static struct event_base *base;
static int base_freed, in_base_free, loops_run;
static int n_deferred_at_base_free;   /* deferred callbacks queued when event_base_free was entered */
static uint64_t hist;           /* hash of the history so far (accounting only, never prunes) */

/* sub-choices of an operation: part of the history hash */
static int choose(int n, const char *label)
{
	int c = mc_choose(n, 0, label);
	hist = mc_hash_u64(hist, (uint64_t)c * 64 + (uint64_t)n);
	return c;
}
static void fail_kind(const char *what, const struct octx *c, const char *fmt, int a, int b)
{
	char key[120];
	snprintf(key, sizeof key, "C10/%s/%s", what, c->kind);
	mc_fail(key, fmt, a, b);
}
/* every user callback of an object goes through these two */
static int cb_enter(struct octx *c)
{
	MC_COUNT("callbacks_checked");
	c->cbs++;
	if (base_freed) fail_kind("callback-after-base-free", c, "callback #%d after event_base_free (released=%d)", c->cbs, c->released);
	if (c->released) { fail_kind("callback-after-release", c, "callback #%d started after the releasing call returned (fins=%d)", c->cbs, c->fins); return 0; }
	if (c->fins) { fail_kind("callback-after-finalizer", c, "callback #%d after its finalizer ran (%d)", c->cbs, c->fins); return 0; }
	c->in_cb++;
	return 1;
}
static void cb_leave(struct octx *c) { c->in_cb--; }
static void fin_enter(struct octx *c)
{
	MC_COUNT("finalizers_checked");
	c->fins++;
	if (c->fins > 1) fail_kind("finalizer-count", c, "finalizer ran %d times (requested %d)", c->fins, c->fin_requested);
	if (!c->fin_requested) fail_kind("finalizer-count", c, "finalizer ran (%d) without being requested (%d)", c->fins, c->fin_requested);
	if (c->in_cb) fail_kind("finalizer-before-last-callback", c, "finalizer entered while %d callback(s) of the object are running (fins=%d)", c->in_cb, c->fins);
}

/* Library state at the moment event_base_free is entered, used only to give leak failures a key
 * that names the mechanism: number of queued callbacks that are not events and not finalizers,
 * i.e. deferred callbacks of bufferevents / evbuffers (each holds a reference on its owner). */
static int pending_deferred_callbacks(void)
{
	int n = 0; struct event_callback *evcb;
	for (int i = 0; i < base->nactivequeues; i++)
		TAILQ_FOREACH(evcb, &base->activequeues[i], evcb_active_next)
			if (!(evcb->evcb_flags & EVLIST_INIT) && evcb->evcb_closure == EV_CLOSURE_CB_SELF) n++;
	TAILQ_FOREACH(evcb, &base->active_later_queue, evcb_active_next)
		if (!(evcb->evcb_flags & EVLIST_INIT) && evcb->evcb_closure == EV_CLOSURE_CB_SELF) n++;
	return n;
}
/* fd table signature: which of the descriptors 0..FD_SCAN-1 are open.  The harness allocates lowest-first
 * and never holds more than about 30 descriptors; a scan of /proc/self/fd, or of a larger range, per
 * execution dominated the run time.  The baseline is taken once per process (every execution must end on it). */
#define FD_SCAN 56
static uint64_t fd_sig(int *count)
{
	uint64_t h = 0; int n = 0;
	for (int fd = 0; fd < FD_SCAN; fd++)
		if (fcntl(fd, F_GETFD) != -1) { h = mc_hash_u64(h + 0x9e37, (uint64_t)fd); n++; }
	if (count) *count = n;
	return h;
}
static uint64_t fd_baseline_sig; static int fd_baseline_known;
static void idle(void) { if (base && !base_freed) event_base_loopbreak(base); }
static void logcb(int sev, const char *m) { if (sev == EVENT_LOG_ERR && mc_replaying()) fprintf(stderr, "[libevent err] %s\n", m); }

static void op_loop(void)
{
	int r = event_base_loop(base, EVLOOP_NONBLOCK);
	loops_run++;
	mc_observe("loop=%d ", r);
	/* a complete non-blocking pass runs every active callback, finalizers included (also those
	 * requested from callbacks during the pass: the loop iterates until nothing is active) */
	for (int i = 0; i < NCTX; i++)
		if (ctx[i].created && ctx[i].fin_requested && ctx[i].fins != 1)
			fail_kind("finalizer-not-run-by-loop", &ctx[i], "finalizer requested %d time(s), ran %d time(s) after a complete loop pass", ctx[i].fin_requested, ctx[i].fins);
}

/* ------------------------------------------------------------------ */
/* world 0: events with finalizers, once-events                        */

static int sv_ev[2] = { -1, -1 };
enum { ES_NONE, ES_DEL_SELF, ES_FREE_SELF, ES_FREE_FINALIZE_SELF, ES_FINALIZE_SELF, ES_FREE_OTHER, ES_N };
enum { REL_FREE, REL_FINALIZE, REL_FREE_FINALIZE, REL_N };
static void ev_finalizer(struct event *ev, void *arg)
{
	struct octx *c = arg;
	(void)ev;
	fin_enter(c);
}
static void ev_release(struct octx *c, int how)
{
	struct event *ev = c->obj;
	if (!c->created || c->released) return;
	if (c->fin_requested) {
		/* event_finalize()d earlier: the struct is ours again once the finalizer ran */
		if (c->fins) { event_free(ev); c->released = 1; mc_observe("%s:free-after-fin ", c->kind); }
		return;
	}
	switch (how) {
	case REL_FREE: event_free(ev); c->released = 1; mc_observe("%s:free ", c->kind); break;
	case REL_FINALIZE: c->fin_requested++; event_finalize(0, ev, ev_finalizer); mc_observe("%s:finalize ", c->kind); break;
	case REL_FREE_FINALIZE: c->fin_requested++; event_free_finalize(0, ev, ev_finalizer); c->released = 1; mc_observe("%s:free_finalize ", c->kind); break;
	}
	MC_COUNT("event_releases");
}
static void ev_cb(evutil_socket_t fd, short what, void *arg)
{
	struct octx *c = arg;
	if (!cb_enter(c)) return;
	if ((what & EV_READ) && fd >= 0) { char t[16]; while (recv(fd, t, sizeof t, MSG_DONTWAIT) > 0) ; }
	switch (c->script) {
	case ES_DEL_SELF: event_del(c->obj); break;
	case ES_FREE_SELF: ev_release(c, REL_FREE); break;
	case ES_FREE_FINALIZE_SELF: ev_release(c, REL_FREE_FINALIZE); break;
	case ES_FINALIZE_SELF: ev_release(c, REL_FINALIZE); break;
	case ES_FREE_OTHER: if (c->partner) ev_release(c->partner, REL_FREE_FINALIZE); break;
	}
	cb_leave(c);
}
/* once events: ctx[4..7] */
static int n_once;
static void once_cb(evutil_socket_t fd, short what, void *arg)
{
	struct octx *c = arg;
	(void)fd; (void)what;
	MC_COUNT("once_callbacks_checked");
	c->cbs++;
	if (c->cbs > 1) fail_kind("once-count", c, "event_base_once callback ran %d times (due=%d)", c->cbs, c->aux);
	if (base_freed || in_base_free) fail_kind("once-count", c, "event_base_once callback #%d ran during/after event_base_free (%d)", c->cbs, base_freed);
}
static void world_events_setup(void)
{
	if (socketpair(AF_UNIX, SOCK_STREAM, 0, sv_ev) < 0) abort();
	evutil_make_socket_nonblocking(sv_ev[0]); evutil_make_socket_nonblocking(sv_ev[1]);
	ctx[0].kind = "event-timer"; ctx[1].kind = "event-io"; ctx[0].partner = &ctx[1]; ctx[1].partner = &ctx[0];
	for (int i = 4; i < 8; i++) ctx[i].kind = i < 6 ? "once-immediate" : "once-timer";
	n_once = 0;
}
static int world_events_op(int op)
{
	struct timeval tv = {0, 1000};
	switch (op) {
	case 1: case 2: {        /* create + add E0 (timer, EV_FINALIZE) / E1 (persistent read, EV_FINALIZE) */
		struct octx *c = &ctx[op - 1];
		if (c->created) return 0;
		c->script = choose(ES_N, "script");
		c->obj = op == 1 ? event_new(base, -1, EV_FINALIZE, ev_cb, c) : event_new(base, sv_ev[0], EV_READ | EV_PERSIST | EV_FINALIZE, ev_cb, c);
		if (!c->obj) abort();
		c->created = 1;
		event_add(c->obj, op == 1 ? &tv : NULL);
		mc_observe("new-%s(script %d) ", c->kind, c->script);
		return 1; }
	case 3: case 4: {        /* activate E0 / make E1 readable */
		struct octx *c = &ctx[op - 3];
		if (!c->created || c->released) return 0;
		if (op == 3) event_active(c->obj, EV_TIMEOUT, 1);
		else if (send(sv_ev[1], "x", 1, MSG_DONTWAIT) != 1) return 0;
		mc_observe("fire-%s ", c->kind);
		return 1; }
	case 5: case 6: {        /* release E0 / E1 from outside */
		struct octx *c = &ctx[op - 5];
		if (!c->created || c->released) return 0;
		if (c->fin_requested && !c->fins) return 0;
		ev_release(c, c->fin_requested ? REL_FREE : choose(REL_N, "how"));
		return 1; }
	case 7: {                /* event_base_once: immediate or 1 ms */
		if (n_once >= 2) return 0;
		int timer = choose(2, "once-kind");
		struct octx *c = &ctx[4 + timer * 2 + n_once];
		int r = event_base_once(base, -1, EV_TIMEOUT, once_cb, c, timer ? &tv : NULL);
		if (r != 0) mc_fail("harness:once-refused", "event_base_once returned %d", r);
		c->created = 1; c->aux = timer ? -1 : 0;      /* aux: -1 waiting for time, 0 due at the next loop pass */
		if (timer) c->deadline = (long)vclock_us + 1000;
		n_once++;
		mc_observe("once(%s) ", timer ? "1ms" : "now");
		return 1; }
	case 8: {                /* loop pass */
		for (int i = 4; i < 8; i++) if (ctx[i].created && ctx[i].aux == -1 && (long)vclock_us >= ctx[i].deadline) ctx[i].aux = 0;
		int due[8]; for (int i = 4; i < 8; i++) due[i] = ctx[i].created && ctx[i].aux == 0;
		op_loop();
		for (int i = 4; i < 8; i++) if (due[i]) {
			if (ctx[i].cbs != 1) fail_kind("once-count", &ctx[i], "event_base_once callback ran %d times after a loop pass in which it was due (%d)", ctx[i].cbs, due[i]);
			ctx[i].aux = 1;
		}
		return 1; }
	case 9: vclock_advance(2000); mc_observe("t+2ms "); return 1;
	}
	return 0;
}
#define WORLD_EVENTS_NOPS 9
static void world_events_teardown(void)
{
	for (int i = 0; i < 2; i++) {
		struct octx *c = &ctx[i];
		if (c->created && !c->released && !c->fin_requested) ev_release(c, REL_FREE);
		else if (c->created && !c->released && c->fin_requested && c->fins) ev_release(c, REL_FREE);
	}
}
static void world_events_after_base_free(int finalizers_ran)
{
	for (int i = 0; i < 2; i++) {
		struct octx *c = &ctx[i];
		if (c->created && !c->released && c->fin_requested) {
			/* event_finalize()d, base gone: the struct is plain memory now */
			if (finalizers_ran && c->fins != 1) fail_kind("finalizer-count", c, "event_base_free left the pending finalizer at %d run(s) (requested %d)", c->fins, c->fin_requested);
			event_mm_free_(c->obj); c->released = 1;
		} else if (c->created && c->fin_requested && finalizers_ran && c->fins != 1)
			fail_kind("finalizer-count", c, "event_base_free left the pending finalizer at %d run(s) (requested %d)", c->fins, c->fin_requested);
	}
	for (int i = 4; i < 8; i++)
		if (ctx[i].created && ctx[i].cbs > 1) fail_kind("once-count", &ctx[i], "event_base_once callback ran %d times (%d)", ctx[i].cbs, 0);
	close(sv_ev[0]); close(sv_ev[1]); sv_ev[0] = sv_ev[1] = -1;
}

#include "c10_worlds.inc"

/* ------------------------------------------------------------------ */
struct world { const char *name; void (*setup)(void); int (*op)(int); int nops; void (*teardown)(void); void (*after)(int); };
static const struct world worlds[] = {
	{ "events", world_events_setup, world_events_op, WORLD_EVENTS_NOPS, world_events_teardown, world_events_after_base_free },
	{ "bev-pair-filter", world_pair_setup, world_pair_op, WORLD_PAIR_NOPS, world_pair_teardown, world_pair_after_base_free },
	{ "bev-socket-evbuffer", world_sock_setup, world_sock_op, WORLD_SOCK_NOPS, world_sock_teardown, world_sock_after_base_free },
	{ "listener-once", world_lsn_setup, world_lsn_op, WORLD_LSN_NOPS, world_lsn_teardown, world_lsn_after_base_free },
};
#define NWORLDS ((int)(sizeof worlds / sizeof worlds[0]))

void c10_close_above_baseline(void);
static void body(void)
{
	int D = mc_param("depth", 5), wi = mc_param("world", 0);
	if (wi < 0 || wi >= NWORLDS) { mc_fail("harness:bad-world", "%d", wi); return; }
	const struct world *w = &worlds[wi];
	long live0; uint64_t fd0;

	memset(ctx, 0, sizeof ctx);
	base_freed = 0; in_base_free = 0; loops_run = 0; hist = 0x1234; n_deferred_at_base_free = 0;
	vclock_reset(); vclock_idle_hook = idle;
	locks_begin_execution();
	live0 = mcx_alloc_live();
	if (!fd_baseline_known) { fd_baseline_sig = fd_sig(NULL); fd_baseline_known = 1; }
	fd0 = fd_baseline_sig;
	if (event_global_setup_locks_(1) < 0) { mc_fail("harness:global-locks", "event_global_setup_locks_ failed"); return; }
	{
		struct event_config *cfg = event_config_new();
		event_config_set_flag(cfg, EVENT_BASE_FLAG_IGNORE_ENV);
		if (mc_param("method", 0) == 1) event_config_avoid_method(cfg, "epoll");
		base = event_base_new_with_config(cfg);
		event_config_free(cfg);
		if (!base) abort();
		event_base_priority_init(base, 2);
	}
	w->setup();
	mc_observe("%s: ", w->name);

	int nofinalize = 0;
	for (int step = 0; step < D; step++) {
		int op = mc_choose(w->nops + 2, 0, "op");      /* 0 = END, nops+1 = END with event_base_free_nofinalize */
		if (op == 0) break;
		if (op == w->nops + 1) { nofinalize = 1; break; }
		hist = mc_hash_u64(hist, (uint64_t)op);
		if (!w->op(op)) { mc_observe("(n/a %d) ", op); MC_COUNT("ops_not_applicable"); break; }   /* inapplicable op: this history is a duplicate of its prefix */
		MC_COUNT("ops_applied");
		if (mc_replaying()) { int nfd; fd_sig(&nfd); printf("  [after op %d: %ld allocations live, %d fds]\n", op, mcx_alloc_live() - live0, nfd); }
		/* hist identifies the history itself (ops and their sub-choices): mc_state is used for
		 * accounting (states = distinct history prefixes), it can never prune a different history */
		if (mc_state(mc_hash_u64(hist, (uint64_t)step), D - 1 - step)) break;
		if (locks_held_total() != 0) { mc_fail("C10lock/lock-held-between-ops", "%d lock(s) held after op %d", locks_held_total(), op); locks_release_all(); }
	}
	/* canonical teardown */
	w->teardown();
	if (mc_replaying()) printf("  [after teardown: %ld allocations live]\n", mcx_alloc_live() - live0);
	int n_deferred = n_deferred_at_base_free = pending_deferred_callbacks();
	if (n_deferred) MC_COUNT("base_freed_with_deferred_callbacks_queued");
	in_base_free = 1;
	if (nofinalize) { event_base_free_nofinalize(base); mc_observe("base_free_nofinalize "); }
	else { event_base_free(base); mc_observe("base_free "); }
	in_base_free = 0; base_freed = 1;
	if (mc_replaying()) printf("  [after base free: %ld allocations live]\n", mcx_alloc_live() - live0);
	w->after(!nofinalize);
	libevent_global_shutdown();
	MC_COUNT("teardowns_checked");
	if (locks_held_total() != 0) mc_fail("C10lock/lock-held-at-end", "%d lock(s) still held", locks_held_total());
	if (!nofinalize) {
		/* with event_base_free_nofinalize pending finalizers are skipped by contract: what they would
		 * have freed stays allocated, so the memory/fd baselines are only required for event_base_free */
		long live1 = mcx_alloc_live();
		if (live1 != live0) {
			char key[120];
			snprintf(key, sizeof key, "C10/leak/memory/%s/%s", n_deferred ? "deferred-callback-queued-at-base-free" : "nothing-queued-at-base-free", w->name);
			mc_fail(key, "%ld library allocation(s) left after event_base_free + libevent_global_shutdown (%d deferred callback(s) were queued when event_base_free was called)", live1 - live0, n_deferred);
		}
		{ int nfd; if (fd_sig(&nfd) != fd0)
			mc_fail(n_deferred ? "C10/leak/fd/deferred-callback-queued-at-base-free" : "C10/leak/fd/nothing-queued-at-base-free",
			    "fd table differs from the baseline (%d descriptors open below %d)", nfd, FD_SCAN);
		  if (fd_sig(NULL) != fd0) c10_close_above_baseline(); }
		if (locks_live() != 0 || locks_conds_live() != 0)
			mc_fail(n_deferred ? "C10/leak/locks/deferred-callback-queued-at-base-free" : "C10/leak/locks/nothing-queued-at-base-free",
			    "%d lock(s) and %d condition(s) still allocated", locks_live(), locks_conds_live());
		MC_COUNT("baselines_checked");
	} else {
		MC_COUNT("nofinalize_teardowns");
		/* hygiene for the next execution only */
		c10_close_above_baseline();
	}
}

static unsigned char fd_base[1024];
#include <dirent.h>
void c10_close_above_baseline(void)
{
	DIR *d = opendir("/proc/self/fd"); struct dirent *e; int tmp[256], n = 0, self;
	if (!d) return;
	self = dirfd(d);
	while ((e = readdir(d))) { int fd = atoi(e->d_name); if (e->d_name[0] == '.' || fd == self) continue; if (fd < 1024 && fd_base[fd]) continue; if (n < 256) tmp[n++] = fd; }
	closedir(d);
	for (int i = 0; i < n; i++) close(tmp[i]);
}
static void init(void)
{
	mcx_alloc_install();
	event_set_log_callback(logcb);
	signal(SIGPIPE, SIG_IGN);
	locks_install("C10lock", 0);
	/* normal form between executions: global locks freed (each execution re-creates them and
	 * ends with libevent_global_shutdown) */
	libevent_global_shutdown();
	DIR *d = opendir("/proc/self/fd"); struct dirent *e;
	if (d) { int self = dirfd(d); while ((e = readdir(d))) { int fd = atoi(e->d_name); if (e->d_name[0] != '.' && fd != self && fd < 1024) fd_base[fd] = 1; } closedir(d); }
}

int main(int argc, char **argv)
{
	struct mc_config cfg = { .property = "C10", .body = body, .init = init, .default_split = 2 };
	return mc_main(argc, argv, &cfg);
}
