/* evbuf_io — C15 (references, buffer references, file segments) and C16
 * (evbuffer_read / evbuffer_write against scripted system calls) on the real
 * buffer.c.  One binary, -P mode=15|16.
 *
 * read/readv/write/writev/sendfile/ioctl are wrapped at link time
 * (-Wl,--wrap).  The wrappers are passive (call __real_*) for every fd except
 * the one the C16 body arms; for that fd no real I/O happens at all: incoming
 * bytes are synthesised from a known stream, outgoing bytes are captured, and
 * the result of every call is chosen by mc_choose.
 */
#include "evbuf_common.h"
#include <fcntl.h>
#include <sys/socket.h>
#include <sys/ioctl.h>
#include <sys/sendfile.h>

static int MODE = 16, DEPTH, PRUNE, ANSCOST;
static const char *curop = "?";

/* ------------------------------------------------------------------ */
/* the file behind file segments: a memfd with a known pattern          */
#define FILE_LEN 20480
static int FILEFD = -1;
static unsigned char FILEBYTES[FILE_LEN];
static int SOCK[2] = { -1, -1 };           /* non-blocking AF_UNIX pair */

/* ------------------------------------------------------------------ */
/* scripted system calls                                                */
ssize_t __real_read(int, void *, size_t);
ssize_t __real_readv(int, const struct iovec *, int);
ssize_t __real_write(int, const void *, size_t);
ssize_t __real_writev(int, const struct iovec *, int);
ssize_t __real_sendfile(int, int, off_t *, size_t);
int __real_ioctl(int, unsigned long, ...);

enum { ANS_FULL, ANS_ONE, ANS_HALF, ANS_ZERO, ANS_EINTR, ANS_EAGAIN, ANS_ERR, N_ANS };
static const char *ansname[N_ANS] = { "full", "1", "half", "0", "EINTR", "EAGAIN", "error" };
static int armed_fd = -1;
static unsigned char STREAM[1 << 17]; static size_t stream_pos;      /* what the peer "sends" */
static unsigned char SINK[BS_MAX]; static size_t sink_len;            /* what the peer "received" */
static int n_in_calls, n_out_calls, n_ioctl_calls, last_ans, last_iovcnt, last_was_sendfile;
static size_t last_offered, last_accepted, in_bytes_len; static const unsigned char *in_bytes;
static int last_errno;

static ssize_t answer_size(int a, size_t tot, int err_errno)
{
	switch (a) {
	case ANS_FULL: return (ssize_t)tot;
	case ANS_ONE: return tot ? 1 : 0;
	case ANS_HALF: return (ssize_t)(tot / 2);
	case ANS_ZERO: return 0;
	case ANS_EINTR: last_errno = errno = EINTR; return -1;
	case ANS_EAGAIN: last_errno = errno = EAGAIN; return -1;
	default: last_errno = errno = err_errno; return -1;
	}
}

static ssize_t scripted_in(const struct iovec *v, int cnt)
{
	size_t tot = 0;
	for (int i = 0; i < cnt; i++) tot += v[i].iov_len;
	n_in_calls++; last_offered = tot; last_iovcnt = cnt;
	last_ans = mc_choose(N_ANS, ANSCOST, "read-answer");
	ssize_t n = answer_size(last_ans, tot, ECONNRESET);
	if (n <= 0) { last_accepted = 0; return n; }
	in_bytes = STREAM + stream_pos; in_bytes_len = (size_t)n; last_accepted = (size_t)n;
	size_t left = (size_t)n;
	for (int i = 0; i < cnt && left; i++) {
		size_t l = v[i].iov_len < left ? v[i].iov_len : left;
		memcpy(v[i].iov_base, STREAM + stream_pos, l);
		stream_pos += l; left -= l;
	}
	return n;
}
ssize_t __wrap_read(int fd, void *buf, size_t n)
{
	if (fd != armed_fd) return __real_read(fd, buf, n);
	struct iovec v = { buf, n };
	return scripted_in(&v, 1);
}
ssize_t __wrap_readv(int fd, const struct iovec *v, int cnt)
{
	if (fd != armed_fd) return __real_readv(fd, v, cnt);
	return scripted_in(v, cnt);
}

static ssize_t scripted_out(const unsigned char *bytes, size_t tot, int err_errno)
{
	n_out_calls++; last_offered = tot;
	last_ans = mc_choose(N_ANS, ANSCOST, "write-answer");
	ssize_t n = answer_size(last_ans, tot, err_errno);
	if (n <= 0) { last_accepted = 0; return n; }
	last_accepted = (size_t)n;
	if (sink_len + (size_t)n <= sizeof SINK) { memcpy(SINK + sink_len, bytes, (size_t)n); sink_len += (size_t)n; }
	return n;
}
ssize_t __wrap_write(int fd, const void *buf, size_t n)
{
	if (fd != armed_fd) return __real_write(fd, buf, n);
	last_iovcnt = 1; last_was_sendfile = 0;
	return scripted_out(buf, n, EPIPE);
}
ssize_t __wrap_writev(int fd, const struct iovec *v, int cnt)
{
	static unsigned char flat[BS_MAX];
	if (fd != armed_fd) return __real_writev(fd, v, cnt);
	size_t tot = 0;
	for (int i = 0; i < cnt; i++) { if (tot + v[i].iov_len <= sizeof flat) memcpy(flat + tot, v[i].iov_base, v[i].iov_len); tot += v[i].iov_len; }
	last_iovcnt = cnt; last_was_sendfile = 0;
	return scripted_out(flat, tot, EPIPE);
}
ssize_t __wrap_sendfile(int out, int in, off_t *off, size_t count)
{
	if (out != armed_fd) return __real_sendfile(out, in, off, count);
	last_iovcnt = 0; last_was_sendfile = 1;
	if (in != FILEFD || !off || *off < 0 || (size_t)*off > FILE_LEN) { mc_fail("harness:sendfile-args", "sendfile(in %d, off %p)", in, (void *)off); errno = EINVAL; return -1; }
	size_t avail = FILE_LEN - (size_t)*off, tot = count < avail ? count : avail;
	ssize_t n = scripted_out(FILEBYTES + *off, tot, EPIPE);
	if (n > 0) *off += n;
	return n;
}
static const int fionread_ans[] = { 4096, 1, 0, 100000, -1 };
static int last_fionread;
int __wrap_ioctl(int fd, unsigned long req, ...)
{
	va_list ap; void *arg;
	va_start(ap, req); arg = va_arg(ap, void *); va_end(ap);
	if (fd != armed_fd || req != FIONREAD) return __real_ioctl(fd, req, arg);
	n_ioctl_calls++;
	int a = mc_choose((int)(sizeof fionread_ans / sizeof *fionread_ans), ANSCOST, "FIONREAD");
	last_fionread = fionread_ans[a];
	if (last_fionread < 0) { errno = ENOTTY; return -1; }
	*(int *)arg = last_fionread;
	return 0;
}

/* ------------------------------------------------------------------ */
/* references with per-reference pages                                  */
#define NREG 6
#define REG_BYTES 8192
static unsigned char *REG;                  /* NREG regions of REG_BYTES, PROT_READ for the whole run; reg_prot_none[r] = "given back to the owner" */
static int reg_prot_none[NREG];
#define MAXREF 12
static int nref, ref_cleaned[MAXREF], ref_region[MAXREF];
static const void *ref_base[MAXREF]; static size_t ref_total[MAXREF];
static int region_users[NREG];              /* references handed to libevent and not yet cleaned */

static void regions_init(void)
{
	REG = mmap(NULL, NREG * REG_BYTES, PROT_READ | PROT_WRITE, MAP_PRIVATE | MAP_ANONYMOUS, -1, 0);
	if (REG == MAP_FAILED) { perror("mmap"); exit(2); }
	for (int r = 0; r < NREG; r++) {
		gen_payload(REG + r * REG_BYTES, REG_BYTES, 3);
		for (int i = 0; i < REG_BYTES; i += 64) REG[r * REG_BYTES + i] = (unsigned char)('A' + r);
	}
	mprotect(REG, NREG * REG_BYTES, PROT_READ);
}
static void ref_cleanup(const void *data, size_t len, void *extra)
{
	int id = (int)(intptr_t)extra;
	MC_COUNT("ref_cleanup_calls");
	if (id < 0 || id >= nref) { failk("ref-cleanup", "bad-id", "cleanup with unknown id %d", id); return; }
	if (data != ref_base[id] || len != ref_total[id])
		failk("ref-cleanup", "args", "cleanup(%p,%zu) for reference (%p,%zu)", data, len, ref_base[id], ref_total[id]);
	if (++ref_cleaned[id] > 1) { failk("ref-cleanup", "twice", "reference %d cleaned up %d times", id, ref_cleaned[id]); return; }
	/* the owner may now reuse the memory: from here on no chain may point into
	 * the region (check_no_stale_refs after every operation; an mprotect(PROT_NONE)
	 * here would cost ~0.5 ms per call under ASan's address-space layout) */
	int r = ref_region[id];
	if (--region_users[r] == 0) reg_prot_none[r] = 1;
}

/* file segment under test (at most one live handle of ours) */
static struct evbuffer_file_segment *SEG; static int seg_mode, seg_geom, seg_cleaned, seg_exists, seg_cb_expected;
static size_t seg_off, seg_len;
static void seg_cleanup(struct evbuffer_file_segment const *seg, int flags, void *arg)
{
	(void)seg; (void)flags; (void)arg;
	MC_COUNT("seg_cleanup_calls");
	seg_cleaned++;
}

/* ------------------------------------------------------------------ */
static struct evbuffer *EB[2];
static struct bytestr M[2];
static const char *BN[2] = { "X", "Y" };
static unsigned char PAY[8300], OUT[BS_MAX + 16];

static int has_flag(int b, unsigned fl)
{
	for (struct evbuffer_chain *c = EB[b]->first; c; c = c->next) if (c->off && (c->flags & fl)) return 1;
	return 0;
}
static int validate_all(const char *op)
{
	for (int b = 0; b < 2; b++) if (EB[b] && validate_buf(EB[b], &M[b], op, BN[b])) return -1;
	return 0;
}
/* after a cleanup no live chain may still point into the released memory */
static int check_no_stale_refs(const char *op)
{
	for (int b = 0; b < 2; b++) {
		if (!EB[b]) continue;
		for (struct evbuffer_chain *c = EB[b]->first; c; c = c->next) {
			if (!c->off || (c->flags & EVBUFFER_SENDFILE)) continue;
			if (c->buffer >= REG && c->buffer < REG + NREG * REG_BYTES) {
				int r = (int)((c->buffer - REG) / REG_BYTES);
				if (reg_prot_none[r]) { failk("cleanup-before-last-byte", op, "%s still holds %zu bytes of reference region %d whose cleanup already ran", BN[b], c->off, r); return -1; }
			}
		}
	}
	return 0;
}

/* =====================================================================
 * C16
 * ===================================================================== */
enum { SH_EMPTY, SH_SMALL, SH_FULL, SH_MISALIGNED_TRAILING_EMPTY, SH_FIVE, SH_REF_LAST, SH_SENDFILE_FIRST, SH_SENDFILE_AFTER_DATA, N_SHAPES };
static const char *shapename[N_SHAPES] = { "empty", "small", "full-chain", "misaligned+empty-chain", "five-chains", "reference-last", "sendfile-first", "data-then-sendfile" };

static void m_add(int b, const void *p, size_t n) { bs_add(&M[b], p, n); }
static int add_sendfile_seg(int b, size_t off, size_t len)
{
	evbuffer_set_flags(EB[b], EVBUFFER_FLAG_DRAINS_TO_FD);
	struct evbuffer_file_segment *s = evbuffer_file_segment_new(FILEFD, (ev_off_t)off, (ev_off_t)len, 0);
	if (!s) return -1;
	int r = evbuffer_add_file_segment(EB[b], s, 0, -1);
	evbuffer_file_segment_free(s);
	if (r == 0) m_add(b, FILEBYTES + off, len);
	return r;
}
static int build_shape(int sh)
{
	int r = 0; struct evbuffer *e = EB[0];
	switch (sh) {
	case SH_EMPTY: break;
	case SH_SMALL: gen_payload(PAY, 5, 0); r = evbuffer_add(e, PAY, 5); m_add(0, PAY, 5); break;
	case SH_FULL: gen_payload(PAY, CAP, 0); r = evbuffer_add(e, PAY, CAP); m_add(0, PAY, CAP); break;
	case SH_MISALIGNED_TRAILING_EMPTY:
		gen_payload(PAY, CAP, 0); r = evbuffer_add(e, PAY, CAP); m_add(0, PAY, CAP);
		r |= evbuffer_drain(e, 7); bs_drain(&M[0], 7);
		{ struct evbuffer_iovec v[2]; if (evbuffer_reserve_space(e, 2000, v, 2) < 0) r = -1; }
		break;
	case SH_FIVE:
		for (int i = 0; i < 5; i++) {
			size_t n = i == 2 ? 1 : CAP + 1 + (size_t)i;
			if (i == 3) { r |= evbuffer_add_reference(e, REG + 4 * REG_BYTES + 4090, 12, NULL, NULL); m_add(0, REG + 4 * REG_BYTES + 4090, 12); continue; }
			gen_payload(PAY, n, i & 1); r |= evbuffer_add(e, PAY, n); m_add(0, PAY, n);
		}
		break;
	case SH_REF_LAST:
		gen_payload(PAY, 3, 0); r = evbuffer_add(e, PAY, 3); m_add(0, PAY, 3);
		r |= evbuffer_add_reference(e, REG + 5 * REG_BYTES, 10, NULL, NULL); m_add(0, REG + 5 * REG_BYTES, 10);
		break;
	case SH_SENDFILE_FIRST:
		r = add_sendfile_seg(0, 4090, 100);
		gen_payload(PAY, 5, 0); r |= evbuffer_add(e, PAY, 5); m_add(0, PAY, 5);
		break;
	case SH_SENDFILE_AFTER_DATA:
		gen_payload(PAY, 5, 0); r = evbuffer_add(e, PAY, 5); m_add(0, PAY, 5);
		r |= add_sendfile_seg(0, 1, 4097);
		break;
	}
	return r;
}

struct iocall { const char *name; int kind; long howmuch; };   /* kind 0 read, 1 write, 2 write_atmost */
static const struct iocall IOCALLS[] = {
	{ "read(-1)", 0, -1 }, { "write", 1, 0 }, { "write_atmost(1)", 2, 1 }, { "read(1)", 0, 1 }, { "read(cap)", 0, -11 },
	{ "write_atmost(cap)", 2, -11 }, { "read(huge)", 0, 1 << 20 }, { "write_atmost(huge)", 2, 1 << 20 }, { "write_atmost(0)", 2, 0 },
	{ "read(cap+1)", 0, -12 }, { "write_atmost(6)", 2, 6 },
	/* read(0) is left out: with a full last chain it trips EVUTIL_ASSERT(chain) in evbuffer_read_setup_vecs_, an assertion that
	 * only exists in non-NDEBUG builds and guards a loop that would not run anyway (see notes/evbuf.md) */
};
#define N_IOCALLS ((int)(sizeof IOCALLS / sizeof *IOCALLS))

static int do_iocall(const struct iocall *c)
{
	struct evbuffer *e = EB[0]; struct bytestr *m = &M[0];
	long hm = c->howmuch == -11 ? (long)CAP : c->howmuch == -12 ? (long)CAP + 1 : c->howmuch;
	n_in_calls = n_out_calls = n_ioctl_calls = 0; last_accepted = 0; last_ans = -1; last_offered = 0; last_was_sendfile = 0; last_errno = 0;
	size_t sink0 = sink_len, L = m->len;
	curop = c->name;
	if (c->kind == 0) {
		armed_fd = SOCK[0];
		int got = evbuffer_read(e, SOCK[0], (int)hm);
		armed_fd = -1;
		MC_COUNT("read_calls");
		mc_observe("%s[fionread %d,%s]=%d ", c->name, n_ioctl_calls ? last_fionread : -2, last_ans >= 0 ? ansname[last_ans] : "-", got);
		if (m->fz_end) {
			if (got != -1 || n_in_calls) { failk("frozen", c->name, "read on a frozen end returned %d after %d read calls", got, n_in_calls); return -1; }
			return 0;
		}
		if (n_in_calls > 1) { failk("syscalls", c->name, "%d read calls for one evbuffer_read", n_in_calls); return -1; }
		/* never ask for more than the caller allowed (when the request is within the per-read maximum) */
		if (n_in_calls && hm >= 0 && (size_t)hm <= evbuffer_get_max_read(e) && last_offered > (size_t)hm) {
			failk("more-than-requested", c->name, "asked the kernel for %zu bytes, howmuch %ld", last_offered, hm); return -1;
		}
		if (n_in_calls && last_offered > evbuffer_get_max_read(e)) { failk("more-than-requested", c->name, "asked the kernel for %zu bytes, max_read %zu", last_offered, evbuffer_get_max_read(e)); return -1; }
		long exp;
		if (!n_in_calls) exp = got;                        /* nothing read: only "unchanged" is required (checked below) */
		else if (last_ans >= ANS_EINTR) exp = -1;
		else exp = (long)last_accepted;
		if (n_in_calls && last_accepted) m_add(0, in_bytes, in_bytes_len);
		MC_COUNT("read_results_compared");
		if (got != exp) { failk("retval", c->name, "evbuffer_read returned %d, the read call returned %ld", got, last_ans >= ANS_EINTR ? -1L : (long)last_accepted); return -1; }
		if (!n_in_calls && got > 0) { failk("retval", c->name, "evbuffer_read returned %d without reading", got); return -1; }
		if (got <= 0) MC_COUNT("read_failed_or_eof_unchanged_checked");
	} else {
		armed_fd = SOCK[1];
		int got = c->kind == 1 ? evbuffer_write(e, SOCK[1]) : evbuffer_write_atmost(e, SOCK[1], (ev_ssize_t)hm);
		armed_fd = -1;
		MC_COUNT("write_calls");
		mc_observe("%s[%s%s]=%d ", c->name, last_was_sendfile ? "sendfile:" : "", last_ans >= 0 ? ansname[last_ans] : "-", got);
		size_t req = (c->kind == 1 || hm < 0 || (size_t)hm > L) ? L : (size_t)hm;
		if (m->fz_start) {
			if (got != -1 || n_out_calls) { failk("frozen", c->name, "write on a frozen start returned %d after %d write calls", got, n_out_calls); return -1; }
			return 0;
		}
		if (n_out_calls > 1) { failk("syscalls", c->name, "%d write calls for one evbuffer_write", n_out_calls); return -1; }
		if (req == 0) {
			/* nothing to write: header is silent about the value (the code returns -1); only require no I/O and no change */
			if (n_out_calls || (got != 0 && got != -1)) { failk("retval", c->name, "write of nothing returned %d after %d write calls", got, n_out_calls); return -1; }
			return 0;
		}
		if (!n_out_calls) { failk("syscalls", c->name, "no write call although %zu bytes were requested", req); return -1; }
		if (last_offered > req) {
			failk("more-than-requested", last_was_sendfile ? "sendfile" : c->name, "%s: offered the kernel %zu bytes, requested %zu (buffer %zu)", c->name, last_offered, req, L);
			return -1;
		}
		long exp;
		if (last_ans >= ANS_EINTR) exp = (last_was_sendfile && last_ans != ANS_ERR) ? 0 : -1;   /* sendfile: EAGAIN/EINTR are reported as 0 bytes */
		else exp = (long)last_accepted;
		MC_COUNT("write_results_compared");
		if (got != exp && !(last_ans >= ANS_EINTR && got == -1)) { failk("retval", c->name, "evbuffer_write returned %d, the %s call accepted %ld", got, last_was_sendfile ? "sendfile" : "write", exp); return -1; }
		if (last_accepted) {
			/* exactly the accepted prefix left the buffer and reached the peer */
			if (last_accepted > L || memcmp(SINK + sink0, m->d, last_accepted)) { failk("written-bytes", c->name, "the %zu bytes handed to the kernel are not the buffer's prefix", last_accepted); return -1; }
			bs_drain(m, last_accepted);
			MC_COUNT("written_prefix_compared");
		} else MC_COUNT("write_failed_unchanged_checked");
	}
	return validate_all(c->name);
}

static void body16(void)
{
	int calls = DEPTH;
	stream_pos = 0; sink_len = 0; armed_fd = -1;
	int sh = mc_choose(N_SHAPES, 0, "shape");
	int fz = mc_choose(3, 0, "frozen");                    /* 0 none, 1 start, 2 end */
	mc_observe("shape=%s%s ", shapename[sh], fz == 1 ? ",frozen-start" : fz == 2 ? ",frozen-end" : "");
	curop = "shape";
	if (build_shape(sh)) { mc_fail("harness:shape", "could not build shape %s", shapename[sh]); return; }
	if (fz) { evbuffer_freeze(EB[0], fz == 1); bs_freeze(&M[0], fz == 1); }
	if (validate_all("shape")) return;
	for (int k = 0; k < calls; k++) {
		int c = mc_choose(N_IOCALLS + 1, 0, "call");
		if (!c) break;
		if (do_iocall(&IOCALLS[c - 1])) return;
	}
	/* the rest of the buffer is still intact and readable */
	if (!has_flag(0, EVBUFFER_SENDFILE) && !M[0].fz_start && M[0].len) {
		ssize_t n = evbuffer_copyout(EB[0], OUT, M[0].len);
		if (n != (ssize_t)M[0].len || memcmp(OUT, M[0].d, M[0].len)) failk("content", "final-copyout", "copyout after the I/O calls differs from the model");
		else MC_COUNT("final_copyout_compared");
	}
}

/* =====================================================================
 * C15
 * ===================================================================== */
struct inst { int (*fn)(const struct inst *); const char *name; int b; long a1, a2, a3; };
#define MAXINST 200
static struct inst INST[MAXINST]; static int NINST;
enum { RS_OK = 0, RS_SKIP = 2, RS_DEAD = -1 };
enum { SZ_L1 = -13, SZ_HUGE = -16, SZ_NEG = -17 };
static size_t resolve(long code, size_t L) { return code == SZ_L1 ? (L ? L - 1 : 0) : code == SZ_HUGE ? (size_t)-1 : (size_t)code; }

static int chk(const char *op, long exp, long got)
{
	MC_COUNT("retval_compared");
	if (exp == got) return RS_OK;
	failk("retval", op, "returned %ld, model %ld", got, exp);
	return RS_DEAD;
}
static int would_cycle(int d, int s)
{
	for (struct evbuffer_chain *c = EB[s]->first; c; c = c->next)
		if ((c->flags & EVBUFFER_MULTICAST) && (EVBUFFER_CHAIN_EXTRA(struct evbuffer_multicast_parent, c))->source == EB[d]) return 1;
	return 0;
}

/* a1 = region, a2 = offset, a3 = len; b = buffer; name decides _with_offset */
static int op_ref(const struct inst *in)
{
	int b = in->b, r = (int)in->a1; size_t off = (size_t)in->a2, n = (size_t)in->a3;
	if (nref >= MAXREF) return RS_SKIP;
	if (reg_prot_none[r]) return RS_SKIP;                     /* memory already given back */
	int with_off = strstr(in->name, "with_offset") != NULL;
	int id = nref++;
	const unsigned char *base = REG + r * REG_BYTES;
	ref_region[id] = r; ref_cleaned[id] = 0;
	ref_base[id] = with_off ? base : base + off; ref_total[id] = with_off ? off + n : n;
	region_users[r]++;
	int exp = bs_add_reference(&M[b], base + off, n);
	int got = with_off ? evbuffer_add_reference_with_offset(EB[b], base, off, n, ref_cleanup, (void *)(intptr_t)id)
	                   : evbuffer_add_reference(EB[b], base + off, n, ref_cleanup, (void *)(intptr_t)id);
	if (got == -1) {
		if (ref_cleaned[id]) { failk("ref-cleanup", in->name, "cleanup ran for a refused reference"); return RS_DEAD; }
		region_users[r]--; nref--;
	}
	return chk(in->name, exp, got);
}
static int op_bufref(const struct inst *in)
{
	int d = in->b, s = 1 - d, refuse = 0;
	for (struct evbuffer_chain *c = EB[s]->first; c; c = c->next)
		if (c->flags & (EVBUFFER_FILESEGMENT | EVBUFFER_SENDFILE | EVBUFFER_MULTICAST)) refuse = 1;
	int exp = (M[s].len && refuse) ? -1 : bs_add_buffer_reference(&M[d], &M[s]);
	if (M[s].len && refuse && M[d].fz_end) exp = -1;
	int got = evbuffer_add_buffer_reference(EB[d], EB[s]);
	return chk(in->name, exp, got);
}
/* geometry of file segments: (file offset, length) around page boundaries */
static const struct { size_t off, len; } GEOM[] = { { 0, 1 }, { 1, 4095 }, { 4095, 2 }, { 4096, 4097 }, { 4097, 8193 }, { 0, 4096 }, { 8193, 0 } };
#define N_GEOM ((int)(sizeof GEOM / sizeof *GEOM))
/* a1 = mode (0 mmap, 1 read, 2 sendfile), a2 = geometry */
static int op_seg_new(const struct inst *in)
{
	if (SEG) return RS_SKIP;
	unsigned fl = in->a1 == 0 ? EVBUF_FS_DISABLE_SENDFILE : in->a1 == 1 ? (EVBUF_FS_DISABLE_SENDFILE | EVBUF_FS_DISABLE_MMAP) : 0;
	seg_off = GEOM[in->a2].off; seg_len = GEOM[in->a2].len; seg_mode = (int)in->a1; seg_geom = (int)in->a2;
	SEG = evbuffer_file_segment_new(FILEFD, (ev_off_t)seg_off, (ev_off_t)seg_len, fl);
	if (!SEG) {
		if (seg_len == 0 && in->a1 != 2) return RS_OK;       /* a zero-length mapping/read may be refused */
		failk("retval", in->name, "file_segment_new(%zu,%zu) failed", seg_off, seg_len); return RS_DEAD;
	}
	evbuffer_file_segment_add_cleanup_cb(SEG, seg_cleanup, NULL);
	seg_cb_expected++;
	return RS_OK;
}
/* a1 = part: 0 whole (-1), 1 (1, len-1), 2 (0, 1), 3 beyond the end (refused) */
static int op_seg_add(const struct inst *in)
{
	int b = in->b;
	if (!SEG) return RS_SKIP;
	size_t o = 0; ev_off_t l = -1; size_t n = seg_len;
	switch (in->a1) {
	case 1: if (seg_len < 2) return RS_SKIP; o = 1; l = (ev_off_t)seg_len - 1; n = seg_len - 1; break;
	case 2: if (seg_len < 1) return RS_SKIP; o = 0; l = 1; n = 1; break;
	case 3: o = 1; l = (ev_off_t)seg_len; break;
	}
	if (seg_mode == 2) evbuffer_set_flags(EB[b], EVBUFFER_FLAG_DRAINS_TO_FD);
	int exp = (M[b].fz_end || in->a1 == 3) ? -1 : 0;
	if (exp == 0) bs_add(&M[b], FILEBYTES + seg_off + o, n);
	int got = evbuffer_add_file_segment(EB[b], SEG, (ev_off_t)o, l);
	/* on failure add_file_segment drops the caller's reference (buffer.c: "Lowers the refcount") */
	if (got == -1) SEG = NULL;
	return chk(in->name, exp, got);
}
static int op_seg_free(const struct inst *in)
{
	(void)in;
	if (!SEG) return RS_SKIP;
	evbuffer_file_segment_free(SEG); SEG = NULL;
	return RS_OK;
}
static int no_read_access(int b) { return has_flag(b, EVBUFFER_SENDFILE); }   /* header: reading sendfile segments is undefined */

static int op_add(const struct inst *in)
{
	size_t n = (size_t)in->a1; gen_payload(PAY, n, in->b);
	int exp = bs_add(&M[in->b], PAY, n), got = evbuffer_add(EB[in->b], PAY, n);
	return chk(in->name, exp, got);
}
static int op_prepend(const struct inst *in)
{
	size_t n = (size_t)in->a1; gen_payload(PAY, n, 2);
	int exp = bs_prepend(&M[in->b], PAY, n), got = evbuffer_prepend(EB[in->b], PAY, n);
	return chk(in->name, exp, got);
}
static int op_drain(const struct inst *in)
{
	size_t n = resolve(in->a1, M[in->b].len);
	int exp = bs_drain(&M[in->b], n), got = evbuffer_drain(EB[in->b], n);
	return chk(in->name, exp, got);
}
static int op_remove(const struct inst *in)
{
	static unsigned char o2[BS_MAX];
	if (no_read_access(in->b)) return RS_SKIP;
	size_t n = resolve(in->a1, M[in->b].len); if (n > BS_MAX) n = BS_MAX;
	int exp = bs_remove(&M[in->b], o2, n), got = evbuffer_remove(EB[in->b], OUT, n);
	if (exp > 0 && got == exp) { MC_COUNT("readback_remove"); if (memcmp(OUT, o2, exp)) { failk("readback", in->name, "removed bytes differ from the referenced bytes"); return RS_DEAD; } }
	return chk(in->name, exp, got);
}
static int op_pullup(const struct inst *in)
{
	int b = in->b;
	if (no_read_access(b)) return RS_SKIP;
	ssize_t n = in->a1 == SZ_NEG ? -1 : (ssize_t)resolve(in->a1, M[b].len);
	size_t want = bs_pullup(&M[b], n);
	/* "referenced chains are never modified in place": remember the first chain if it is immutable
	 * (a reference, a file segment, or memory shared through add_buffer_reference) */
	struct evbuffer_chain *f0 = EB[b]->first; size_t f0_off = f0 ? f0->off : 0;
	int f0_immutable = f0 && (f0->flags & EVBUFFER_IMMUTABLE);
	unsigned char *p = evbuffer_pullup(EB[b], n);
	MC_COUNT("retval_compared");
	if (f0_immutable && want > f0_off && EB[b]->first == f0 && f0->off > f0_off) {
		/* the chain is still there and holds more bytes than before: pullup wrote behind its data,
		 * i.e. into memory that other buffers share (a second writer then overwrites these bytes) */
		failk("immutable-written", "pullup", "%s: evbuffer_pullup(%zd) extended the immutable first chain (flags 0x%x) in place from %zu to %zu bytes",
		    in->name, n, f0->flags, f0_off, f0->off);
		return RS_DEAD;
	}
	if (f0_immutable && want > f0_off) MC_COUNT("pullup_over_immutable_first_chain_checked");
	if (!want) { if (p) { failk("retval", in->name, "pullup returned a pointer, model NULL"); return RS_DEAD; } return RS_OK; }
	if (!p) { failk("retval", in->name, "pullup(%zd) returned NULL (len %zu)", n, M[b].len); return RS_DEAD; }
	MC_COUNT("readback_pullup");
	if (memcmp(p, M[b].d, want)) { failk("readback", in->name, "pulled-up bytes differ from the referenced bytes"); return RS_DEAD; }
	return RS_OK;
}
static int op_move(const struct inst *in)
{
	int d = in->b, s = 1 - d, exp, got;
	if (would_cycle(d, s)) return RS_SKIP;
	if (in->a1 == 0) { exp = bs_add_buffer(&M[d], &M[s]); got = evbuffer_add_buffer(EB[d], EB[s]); }
	else if (in->a1 == 1) { exp = bs_prepend_buffer(&M[d], &M[s]); got = evbuffer_prepend_buffer(EB[d], EB[s]); }
	else {
		if (no_read_access(s)) return RS_SKIP;                 /* remove_buffer copies partial chains */
		size_t n = resolve(in->a2, M[s].len);
		exp = bs_remove_buffer(&M[s], &M[d], n); got = evbuffer_remove_buffer(EB[s], EB[d], n);
	}
	/* DRAINS_TO_FD travels with the harness' intent: a destination receiving sendfile chains is only written out */
	return chk(in->name, exp, got);
}
static int op_freebuf(const struct inst *in)
{
	int b = in->b;
	evbuffer_free(EB[b]);
	EB[b] = evbuffer_new(); bs_init(&M[b]);
	return EB[b] ? RS_OK : RS_DEAD;
}
/* write to the real socketpair and read it back from the peer */
static int op_write(const struct inst *in)
{
	int b = in->b; size_t L = M[b].len;
	if (M[b].fz_start) return RS_SKIP;
	ev_ssize_t hm = in->a1 == SZ_NEG ? -1 : (ev_ssize_t)resolve(in->a1, L);
	int got = evbuffer_write_atmost(EB[b], SOCK[1], hm);
	if (L == 0 || hm == 0) { if (got > 0) { failk("retval", in->name, "wrote %d bytes from nothing", got); return RS_DEAD; } return RS_OK; }
	if (got < 0) { failk("retval", in->name, "evbuffer_write to a socketpair failed: %s", strerror(errno)); return RS_DEAD; }
	size_t req = hm < 0 || (size_t)hm > L ? L : (size_t)hm;
	/* a sendfile chain is sent as a whole by the pinned code only if howmuch covers it; see C16 for the request bound */
	size_t have = 0;
	for (;;) {
		ssize_t r = __real_read(SOCK[0], OUT + have, sizeof OUT - have);
		if (r <= 0) break;
		have += (size_t)r;
	}
	MC_COUNT("readback_socket");
	if ((size_t)got != have) { failk("readback", in->name, "evbuffer_write returned %d but the peer received %zu bytes", got, have); return RS_DEAD; }
	if (have > L || memcmp(OUT, M[b].d, have)) { failk("readback", in->name, "the %zu bytes received by the peer differ from the referenced bytes", have); return RS_DEAD; }
	(void)req;                                            /* the request bound is C16's oracle */
	bs_drain(&M[b], have);
	return RS_OK;
}
static int op_copyout(const struct inst *in)
{
	int b = in->b;
	if (no_read_access(b) || M[b].fz_start || !M[b].len) return RS_SKIP;
	ssize_t n = evbuffer_copyout(EB[b], OUT, M[b].len);
	MC_COUNT("readback_copyout");
	if (n != (ssize_t)M[b].len || memcmp(OUT, M[b].d, M[b].len)) { failk("readback", in->name, "copyout differs from the referenced bytes"); return RS_DEAD; }
	return RS_OK;
}

/* compound instance: up to three sub-operations in a row, each checked like a
 * single one (return value vs. model, then validator on both buffers).  Used to
 * bring constellations that need 6 plain calls (two writers into the spare room
 * behind a shared, buffer-referenced chain) within the depth of the quick tier. */
static const struct inst SUB[] = {
	{ op_bufref, "add_buffer_reference(Y<-X)", 1, 0, 0, 0 },   /* 0 */
	{ op_add, "addY", 1, 1, 0, 0 },                            /* 1 */
	{ op_pullup, "pullupY", 1, SZ_NEG, 0, 0 },                 /* 2 */
	{ op_add, "add", 0, 2, 0, 0 },                             /* 3 */
	{ op_pullup, "pullup", 0, SZ_NEG, 0, 0 },                  /* 4 */
	{ op_bufref, "add_buffer_reference(X<-Y)", 0, 0, 0, 0 },   /* 5 */
};
static int op_seq(const struct inst *in)
{
	const long idx[3] = { in->a1, in->a2, in->a3 };
	for (int i = 0; i < 3; i++) {
		if (idx[i] < 0) continue;
		const struct inst *su = &SUB[idx[i]];
		int r = su->fn(su);
		if (r == RS_DEAD || mc_failed()) return RS_DEAD;
		if (validate_all(in->name) || check_no_stale_refs(in->name)) return RS_DEAD;
	}
	return RS_OK;
}

static void addi(int (*fn)(const struct inst *), const char *name, int b, long a1, long a2, long a3)
{
	if (NINST >= MAXINST) exit(2);
	struct inst *i = &INST[NINST++]; i->fn = fn; i->name = name; i->b = b; i->a1 = a1; i->a2 = a2; i->a3 = a3;
}
static void build15(int alpha)
{
	int X = 0, Y = 1;
	addi(op_ref, "add_reference", X, 0, 0, 3);
	addi(op_ref, "add_reference", X, 1, 4090, 10);                   /* crosses a page boundary */
	addi(op_ref, "add_reference_with_offset", X, 2, 4095, 2);
	addi(op_drain, "drain", X, 1, 0, 0);
	addi(op_drain, "drain", X, SZ_L1, 0, 0);
	addi(op_drain, "drain", X, SZ_HUGE, 0, 0);
	addi(op_bufref, "add_buffer_reference(Y<-X)", Y, 0, 0, 0);
	addi(op_freebuf, "free", X, 0, 0, 0);
	addi(op_freebuf, "free", Y, 0, 0, 0);
	addi(op_move, "add_buffer(Y<-X)", Y, 0, 0, 0);
	addi(op_move, "add_buffer(X<-Y)", X, 0, 0, 0);
	addi(op_move, "remove_buffer(X->Y)", Y, 2, 1, 0);
	addi(op_move, "remove_buffer(X->Y)", Y, 2, SZ_L1, 0);
	addi(op_drain, "drainY", Y, 1, 0, 0);
	addi(op_drain, "drainY", Y, SZ_HUGE, 0, 0);
	addi(op_seg_new, "seg_new-mmap", X, 0, 2, 0);
	addi(op_seg_new, "seg_new-read", X, 1, 2, 0);
	addi(op_seg_new, "seg_new-sendfile", X, 2, 2, 0);
	addi(op_seg_add, "seg_add", X, 0, 0, 0);
	addi(op_seg_add, "seg_addY", Y, 0, 0, 0);
	addi(op_seg_free, "seg_free", X, 0, 0, 0);
	addi(op_write, "write", X, SZ_NEG, 0, 0);
	addi(op_write, "write_atmost(1)", X, 1, 0, 0);
	addi(op_pullup, "pullup", X, SZ_NEG, 0, 0);
	addi(op_remove, "remove", X, 2, 0, 0);
	addi(op_add, "add", X, 2, 0, 0);
	addi(op_prepend, "prepend", X, 2, 0, 0);
	addi(op_copyout, "copyout", X, 0, 0, 0);
	/* a referencing destination appends and pulls up; the source appends and pulls up */
	addi(op_seq, "bufref+add+pullup(Y<-X)", Y, 0, 1, 2);
	addi(op_seq, "add+pullup(X)", X, 3, 4, -1);
	if (alpha >= 1) {
		addi(op_seq, "bufref+add+pullup(X<-Y)", X, 5, 3, 4);
		addi(op_seq, "add+pullup(Y)", Y, 1, 2, -1);
		addi(op_seg_new, "seg_new-mmap", X, 0, 3, 0);
		addi(op_seg_new, "seg_new-read", X, 1, 1, 0);
		addi(op_seg_new, "seg_new-sendfile", X, 2, 3, 0);
		addi(op_seg_new, "seg_new-mmap", X, 0, 4, 0);
		addi(op_seg_new, "seg_new-mmap", X, 0, 0, 0);
		addi(op_seg_new, "seg_new-read", X, 1, 5, 0);
		addi(op_seg_new, "seg_new-mmap", X, 0, 6, 0);
		addi(op_seg_add, "seg_add-tail", X, 1, 0, 0);
		addi(op_seg_add, "seg_add-first-byte", X, 2, 0, 0);
		addi(op_seg_add, "seg_add-beyond", X, 3, 0, 0);
		addi(op_bufref, "add_buffer_reference(X<-Y)", X, 0, 0, 0);
		addi(op_move, "prepend_buffer(Y<-X)", Y, 1, 0, 0);
		addi(op_move, "remove_buffer(Y->X)", X, 2, 1, 0);
		addi(op_ref, "add_referenceY", Y, 3, 0, 4097);
		addi(op_pullup, "pullup", X, 4097, 0, 0);
		addi(op_pullup, "pullupY", Y, SZ_NEG, 0, 0);
		addi(op_write, "writeY", Y, SZ_NEG, 0, 0);
		addi(op_write, "write_atmost(4096)", X, 4096, 0, 0);
		addi(op_drain, "drain", X, 4096, 0, 0);
		addi(op_copyout, "copyoutY", Y, 0, 0, 0);
		addi(op_add, "addY", Y, 1, 0, 0);
	}
}

/* canonical state for C15: both buffers (incl. what each chain points at),
 * buffers that were freed by the harness but are kept alive by buffer
 * references ("zombies", reached through the multicast chains), the segment
 * handle, and which references were already cleaned up.  Every field that
 * decides when a chain, a zombie buffer, a reference or a segment is released
 * (refcounts, flags, parent links) is included, so equal canonical states free
 * the same things under the same continuations. */
static uint64_t canon_target(uint64_t h, struct evbuffer_chain *c)
{
	if (c->flags & EVBUFFER_SENDFILE) return mc_hash_u64(h, 0x5f);
	if (c->buffer >= REG && c->buffer < REG + NREG * REG_BYTES) return mc_hash_u64(h, 0x1000000 + (uint64_t)(c->buffer - REG));
	if (c->flags & EVBUFFER_FILESEGMENT) {
		struct evbuffer_file_segment *s = (EVBUFFER_CHAIN_EXTRA(struct evbuffer_chain_file_segment, c))->segment;
		h = mc_hash_u64(h, 0x2000000 + (uint64_t)s->file_offset * 131 + (uint64_t)s->length);
		h = mc_hash_u64(h, (uint64_t)s->refcnt * 8 + s->can_sendfile * 4 + s->is_mapping * 2 + (s->contents != NULL));
		return mc_hash_u64(h, (uint64_t)((char *)c->buffer - s->contents));
	}
	return mc_hash_u64(h, 1);
}
static uint64_t canon15(void)
{
	uint64_t h = 0x15;
	for (int b = 0; b < 2; b++) {
		h = canon_buf(h, EB[b], &M[b]);
		for (struct evbuffer_chain *c = EB[b]->first; c; c = c->next) {
			h = canon_target(h, c);
			if (c->flags & EVBUFFER_MULTICAST) {
				struct evbuffer_multicast_parent *mp = EVBUFFER_CHAIN_EXTRA(struct evbuffer_multicast_parent, c);
				struct evbuffer *src = mp->source;
				h = mc_hash_u64(h, src == EB[0] ? 1 : src == EB[1] ? 2 : 3);
				h = mc_hash_u64(h, ((uint64_t)mp->parent->refcnt << 32) | mp->parent->flags);
				h = canon_target(h, mp->parent);
				if (src != EB[0] && src != EB[1]) {
					/* zombie: its whole chain list stays allocated until its refcnt drops */
					int idx = 0, at = -1;
					h = mc_hash_u64(h, (uint64_t)src->refcnt);
					for (struct evbuffer_chain *z = src->first; z; z = z->next, idx++) {
						h = mc_hash_u64(h, ((uint64_t)z->refcnt << 32) | z->flags); h = mc_hash_u64(h, z->off * 8191 + (uint64_t)z->misalign);
						h = canon_target(h, z);
						if (z == mp->parent) at = idx;
					}
					h = mc_hash_u64(h, (uint64_t)(at + 1));
				}
			}
		}
	}
	h = mc_hash_u64(h, SEG ? 1 + seg_mode * 16 + seg_geom * 64 + SEG->refcnt * 1024 : 0);
	h = mc_hash_u64(h, (uint64_t)seg_cleaned * 64 + (uint64_t)seg_cb_expected);
	for (int r = 0; r < NREG; r++) h = mc_hash_u64(h, (uint64_t)region_users[r] * 2 + reg_prot_none[r]);
	h = mc_hash_u64(h, (uint64_t)nref);
	for (int i = 0; i < nref; i++) h = mc_hash_u64(h, (uint64_t)ref_cleaned[i] * 8 + ref_region[i]);
	return h;
}

static void body15(void)
{
	int dead = 0, step;
	for (step = 0; step < DEPTH; step++) {
		int c = mc_choose(NINST + 1, 0, "op");
		if (!c) break;
		const struct inst *in = &INST[c - 1];
		curop = in->name;
		int r = in->fn(in);
		mc_observe("%s(%ld,%ld,%ld)%s ", in->name, in->a1, in->a2, in->a3, r == RS_SKIP ? "=n/a" : "");
		if (r == RS_DEAD || mc_failed()) { dead = 1; break; }
		if (validate_all(in->name) || check_no_stale_refs(in->name)) { dead = 1; break; }
		if (seg_cleaned > seg_cb_expected) { failk("seg-cleanup", "twice", "segment cleanup ran %d times for %d segments", seg_cleaned, seg_cb_expected); dead = 1; break; }
		if (PRUNE && mc_state(canon15(), DEPTH - 1 - step)) break;
	}
	(void)dead;
}

/* ------------------------------------------------------------------ */
/* fd baseline: the fd table is dense (0..k) when an execution starts, so the
 * lowest free descriptor number changes iff the execution leaked or lost a
 * descriptor; mcx_fd_signature() (a /proc walk) confirms on a mismatch. */
static int fd_probe(void) { int d = dup(0); if (d >= 0) close(d); return d; }

static void body(void)
{
	long live0 = mcx_alloc_live();
	int fd0 = fd_probe();
	nref = 0; SEG = NULL; seg_cleaned = seg_cb_expected = 0;
	memset(region_users, 0, sizeof region_users);
	memset(reg_prot_none, 0, sizeof reg_prot_none);
	vfile_bytes = FILEBYTES; vfile_len = FILE_LEN;
	for (int b = 0; b < 2; b++) { EB[b] = evbuffer_new(); bs_init(&M[b]); }
	if (MODE == 16) body16(); else body15();
	int failed = mc_failed();
	curop = "teardown";
	/* free in both orders is explored through the free operations; here X then Y */
	if (SEG) { evbuffer_file_segment_free(SEG); SEG = NULL; }
	evbuffer_free(EB[0]); evbuffer_free(EB[1]); EB[0] = EB[1] = NULL;
	/* drain anything left in the real socketpair */
	for (;;) { ssize_t r = __real_read(SOCK[0], OUT, sizeof OUT); if (r <= 0) break; }
	if (!failed) {
		for (int i = 0; i < nref; i++)
			if (ref_cleaned[i] != 1) failk("ref-cleanup", "count", "reference %d cleaned up %d times after everything was freed", i, ref_cleaned[i]);
		if (seg_cleaned != seg_cb_expected) failk("seg-cleanup", "count", "%d segment cleanups for %d segments after everything was freed", seg_cleaned, seg_cb_expected);
		if (mcx_alloc_live() != live0) failk("leak", "teardown", "%ld library allocations still live", mcx_alloc_live() - live0);
		if (fd_probe() != fd0) failk("fdleak", "teardown", "lowest free fd moved from %d to %d (signature %llx)", fd0, fd_probe(), (unsigned long long)mcx_fd_signature());
		MC_COUNT("teardown_hygiene_checked");
	}
}

static void init(void)
{
	mcx_alloc_install();
	event_set_log_callback(quiet_log);
	payload_init();
	regions_init();
	MODE = mc_param("mode", 16); DEPTH = mc_param("depth", 2); PRUNE = mc_param("prune", 1); ANSCOST = mc_param("anscost", 0);
	PFX = MODE == 15 ? "C15" : "C16";
	gen_payload(FILEBYTES, FILE_LEN, 1);
	for (size_t i = 0; i < FILE_LEN; i += 128) FILEBYTES[i] = (unsigned char)('0' + (i / 128) % 10);
	FILEFD = memfd_create("evbuf-seg", 0);
	if (FILEFD < 0 || __real_write(FILEFD, FILEBYTES, FILE_LEN) != FILE_LEN) { perror("memfd"); exit(2); }
	if (socketpair(AF_UNIX, SOCK_STREAM | SOCK_NONBLOCK, 0, SOCK)) { perror("socketpair"); exit(2); }
	{ int sz = 1 << 18; setsockopt(SOCK[1], SOL_SOCKET, SO_SNDBUF, &sz, sizeof sz); }
	gen_payload(STREAM, sizeof STREAM > PAY_MAX ? PAY_MAX : sizeof STREAM, 2);
	for (size_t i = PAY_MAX; i < sizeof STREAM; i++) STREAM[i] = STREAM[i - PAY_MAX + 7];
	for (size_t i = 0; i < sizeof STREAM; i += 100) STREAM[i] = (unsigned char)('A' + (i / 100) % 26);
	if (MODE == 15) build15(mc_param("alpha", 1));
}

int main(int c, char **v)
{
	static char prop[8] = "C16";
	for (int i = 1; i < c; i++) if (!strncmp(v[i], "mode=", 5)) snprintf(prop, sizeof prop, "C%d", atoi(v[i] + 5));
	struct mc_config cfg = { .property = prop, .body = body, .init = init, .default_split = 2 };
	return mc_main(c, v, &cfg);
}
