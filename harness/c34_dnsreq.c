/* C34 — every DNS request reports its outcome exactly once.
 *
 * End-to-end: the real evdns.c (included below so that req_heads can be
 * inspected) talks over real loopback UDP/TCP sockets to scripted in-process
 * nameservers (env/dnse2e_env.c).  Time is virtual (env/vclock.c); transaction
 * ids come from the wrapped RNG (forced collisions).
 *
 * One execution = one configuration (request set, number of nameservers,
 * max-inflight, attempts) + one history: every query that reaches a nameserver
 * is answered according to mc_choose (0 = correct answer; any other answer
 * costs one deviation, --bound limits the deviations per history); at every
 * step of the main loop and inside every user callback the "user" may cancel
 * an outstanding request or free the evdns_base (fail_requests 0 or 1), at most
 * `acts` times per history.  When nothing is pending the virtual clock jumps
 * to libevent's next timer (retransmission, probe, getaddrinfo skew, cache).
 *
 * Oracles (see notes/dnse2e.md for the readings):
 *   callback count per request (never 2; 1 at the end, with the documented
 *   exceptions after evdns_base_free(base, 0)); result code explained by what
 *   the servers / the user did; answers equal what the servers sent;
 *   a request never stays without callback when the loop has nothing left to
 *   wait for; in-flight transaction ids pairwise distinct in req_heads and on
 *   the wire; no datagram, connection or second callback after the base is
 *   freed; allocator and fd baselines; ASan; libevent's own assertions. */
#include "mcx.h"
#include "vclock.h"
#include "dnsmini.h"
#include "dnse2e_env.h"
#include "evdns.c"
#include "event-internal.h"

/* ------------------------------------------------------------------ configuration tables */
enum { K_A, K_AAAA, K_PTR, K_GAI, K_GAI4, K_A_VC, K_A_SEARCH, K_A_IGNTC, K_NKINDS };
static const char *const kind_name[] = { "A", "AAAA", "PTR", "GAI", "GAI4", "A-VC", "A-SEARCH", "A-IGNTC" };
#define IS_GAI(k) ((k) == K_GAI || (k) == K_GAI4)

#define MAXREQ 14
struct reqset { int n; int kind[MAXREQ]; int start_ms[MAXREQ]; };
static const struct reqset reqsets[] = {
	/* 0 */ { 1, { K_A }, { 0 } },
	/* 1 */ { 2, { K_A, K_AAAA }, { 0, 0 } },
	/* 2 */ { 1, { K_GAI }, { 0 } },
	/* 3 */ { 2, { K_PTR, K_A }, { 0, 1000 } },
	/* 4 */ { 1, { K_A_VC }, { 0 } },
	/* 5 */ { 1, { K_A_SEARCH }, { 0 } },
	/* 6 */ { 2, { K_GAI, K_A }, { 0, 0 } },
	/* 7 */ { 2, { K_A_VC, K_A_VC }, { 0, 6000 } },
	/* 8 */ { 3, { K_A, K_A, K_AAAA }, { 0, 0, 0 } },
	/* 9 */ { 1, { K_A_IGNTC }, { 0 } },
	/* 10 */ { 2, { K_A_SEARCH, K_GAI4 }, { 0, 0 } },
	/* 11 */ { 2, { K_A_VC, K_GAI }, { 0, 0 } },
	/* 12 */ { 3, { K_A_VC, K_A_VC, K_A_VC }, { 0, 6000, 7000 } },
	/* 13 */ { 3, { K_A_VC, K_A, K_A_VC }, { 0, 0, 6000 } },
	/* 14: more requests than max-inflight (forced to 6 => two req_heads buckets): eight of them wait */
	/* 14 */ { 14, { K_A, K_A, K_AAAA, K_A, K_A, K_AAAA, K_A, K_A, K_AAAA, K_A, K_A, K_AAAA, K_A, K_A }, { 0 } },
};
#define RS_MANY 14
#define N_REQSETS ((int)(sizeof reqsets / sizeof reqsets[0]))
static const int inflight_opts[] = { 64, 1, 2 };

/* nameserver behaviours for a UDP query (0 = correct answer) */
enum { B_OK, B_DROP, B_SERVFAIL, B_REFUSED, B_NOTIMPL, B_NXDOMAIN, B_NODATA, B_TC, B_TC_REFUSE, B_GARBAGE,
       B_DUP, B_LATE, B_SILENT, B_STICKY_REFUSED, B_NUDP };
static const char *const beh_name[] = { "ok", "drop", "SERVFAIL", "REFUSED", "NOTIMPL", "NXDOMAIN", "NODATA", "TC", "TC+refuse-tcp",
       "garbage", "ok-twice", "late-ok", "silent-from-now", "REFUSED-from-now" };
/* behaviours for a query received over TCP */
enum { T_OK, T_DROP, T_CLOSE, T_PARTIAL, T_SPLIT, T_ZEROLEN, T_SERVFAIL, T_TC, T_NXDOMAIN, T_SILENT, T_NTCP };
static const char *const tbeh_name[] = { "ok", "drop", "close", "partial+close", "ok-in-two-segments", "zero-length-prefix", "SERVFAIL", "TC", "NXDOMAIN", "silent-from-now" };

/* what happened to the queries of a request (explains result codes) */
#define S_OK 1u
#define S_NOANSWER 2u     /* drop / late / silent / tcp failures: the client may time out */
#define S_SERVFAIL 4u
#define S_REFUSED 8u
#define S_NOTIMPL 16u
#define S_NXDOMAIN 32u
#define S_NODATA 64u
#define S_TC 128u
#define S_GARBAGE 256u

/* ------------------------------------------------------------------ per-execution state */
struct ureq {
	int idx, kind, start_ms;
	int started, done, ncb, result, cancelled, out_at_free;
	void *handle;
	unsigned seen;
	struct event *start_ev;
};
static struct ureq reqs[MAXREQ]; static int nreqs;
static struct event_base *evbase;
static struct evdns_base *dbase;
static int base_alive, freed_fail, acts_left, idle_flag, nns, in_user_cb;
static int ns_mode[DNSE_MAXNS];           /* 0 / B_SILENT / B_STICKY_REFUSED */
static struct { int used, ns; struct sockaddr_in from; uint8_t pkt[600]; int len; } late[8];
static int nlate;
static long live0; static uint64_t fd0;
static long sent_at_free, streams_at_free;

static void user_action(struct ureq *in_cb);

static void logcb(int sev, const char *msg) { (void)sev; (void)msg; }
static void idle_hook(void) { idle_flag = 1; if (evbase) event_base_loopbreak(evbase); }

/* ------------------------------------------------------------------ expected answers */
static void exp_a(int r, uint8_t a[4]) { a[0] = 10; a[1] = 1; a[2] = (uint8_t)r; a[3] = 1; }
static void exp_aaaa(int r, uint8_t a[16]) { memset(a, 0, 16); a[0] = 0xfd; a[13] = (uint8_t)r; a[15] = 1; }
static void exp_ptr(int r, char *out, size_t n) { snprintf(out, n, "host-%d.test", r); }

/* which user request does a query name belong to? -1: none (nameserver probe) */
static int req_of_qname(const char *qn)
{
	if ((qn[0] == 'r' || qn[0] == 'R') && qn[1] >= '0' && qn[1] <= '9') {
		char *end; long k = strtol(qn + 1, &end, 10);
		if ((*end == '.' || *end == 0) && k < MAXREQ) return (int)k;
	}
	int v = atoi(qn);
	if (v >= 100 && v < 100 + MAXREQ && strcasestr(qn, ".in-addr.arpa")) return v - 100;
	return -1;
}

/* ------------------------------------------------------------------ result-code oracle */
/* A success needs a correct answer sent for this very request; CANCEL needs a user
 * cancel; SHUTDOWN needs evdns_base_free(base, 1).  Error codes are explained by what
 * the servers did to *any* query of the history: a reply can be taken for another
 * request that meanwhile owns the same transaction id, and a failing nameserver
 * (connection torn down, marked dead) affects every request that uses it. */
static unsigned global_seen;
static int result_explained(struct ureq *r, int result)
{
	unsigned s = global_seen, bad = s & ~S_OK;
	if (IS_GAI(r->kind)) {
		if (result == 0) return (r->seen & S_OK) != 0;
		if (result == EVUTIL_EAI_CANCEL) return r->cancelled;
		if (result == EVUTIL_EAI_NONAME) return (s & S_NXDOMAIN) != 0;
		if (result == EVUTIL_EAI_NODATA) return (s & S_NODATA) != 0;
		if (result == EVUTIL_EAI_FAIL) return bad != 0 || (r->out_at_free && freed_fail);
		if (result == EVUTIL_EAI_AGAIN) return bad != 0;
		return 0;
	}
	switch (result) {
	case DNS_ERR_NONE: return (r->seen & S_OK) != 0;
	case DNS_ERR_CANCEL: return r->cancelled;
	case DNS_ERR_SHUTDOWN: return r->out_at_free && freed_fail;
	case DNS_ERR_NOTEXIST: return (s & S_NXDOMAIN) != 0;
	case DNS_ERR_NODATA: return (s & S_NODATA) != 0;
	case DNS_ERR_REFUSED: return (s & S_REFUSED) != 0;
	case DNS_ERR_NOTIMPL: return (s & S_NOTIMPL) != 0;
	case DNS_ERR_SERVERFAILED: return (s & S_SERVFAIL) != 0;
	case DNS_ERR_TRUNCATED: return (s & S_TC) != 0;
	case DNS_ERR_FORMAT: case DNS_ERR_UNKNOWN: return (s & S_GARBAGE) != 0;
	case DNS_ERR_TIMEOUT: return bad != 0;
	default: return 0;
	}
}

static void note_callback(struct ureq *r, int result)
{
	r->ncb++;
	MC_COUNT("callbacks");
	if (r->ncb > 1) mc_fail(IS_GAI(r->kind) ? "C34/callback-twice/getaddrinfo" : "C34/callback-twice/resolve",
	    "request r%d (%s) got callback #%d (result %d, first result %d)", r->idx, kind_name[r->kind], r->ncb, result, r->result);
	if (!r->started) mc_fail("C34/callback-before-start", "r%d", r->idx);
	if (r->ncb == 1) {
		r->result = result;
		if (!result_explained(r, result)) {
			char key[96];
			snprintf(key, sizeof key, "C34/result-not-explained/%s/%d", kind_name[r->kind], result);
			mc_fail(key, "r%d (%s) reported %d but the servers/user did: seen=%#x cancelled=%d freed=%d/%d", r->idx, kind_name[r->kind],
			    result, r->seen, r->cancelled, !base_alive, freed_fail);
		}
		MC_COUNT("oracle_result_explained");
	}
	if (!base_alive) MC_COUNT("callbacks_after_free_allowed_first");
	r->done = 1;
	mc_observe("cb(r%d)=%d ", r->idx, result);
}

static void resolve_cb(int result, char type, int count, int ttl, void *addrs, void *arg)
{
	struct ureq *r = arg;
	(void)ttl;
	note_callback(r, result);
	if (result == DNS_ERR_NONE && r->ncb == 1) {
		int ok = 0;
		if (r->kind == K_AAAA) { uint8_t e[16]; exp_aaaa(r->idx, e); ok = type == DNS_IPv6_AAAA && count == 1 && !memcmp(addrs, e, 16); }
		else if (r->kind == K_PTR) { char e[64]; exp_ptr(r->idx, e, sizeof e); ok = type == DNS_PTR && count == 1 && addrs && !strcmp(*(char **)addrs, e); }
		else { uint8_t e[4]; exp_a(r->idx, e); ok = type == DNS_IPv4_A && count == 1 && !memcmp(addrs, e, 4); }
		if (!ok) mc_fail("C34/wrong-answer/resolve", "r%d (%s): type %d count %d", r->idx, kind_name[r->kind], type, count);
		MC_COUNT("oracle_answer_content");
	}
	in_user_cb++;
	user_action(r);
	in_user_cb--;
}

static void gai_cb(int result, struct evutil_addrinfo *res, void *arg)
{
	struct ureq *r = arg;
	note_callback(r, result);
	if (result == 0 && r->ncb == 1) {
		int n = 0, bad = 0;
		uint8_t e4[4], e6[16]; exp_a(r->idx, e4); exp_aaaa(r->idx, e6);
		for (struct evutil_addrinfo *ai = res; ai; ai = ai->ai_next, n++) {
			if (ai->ai_family == AF_INET) {
				struct sockaddr_in *sin = (struct sockaddr_in *)ai->ai_addr;
				if (memcmp(&sin->sin_addr, e4, 4) || ntohs(sin->sin_port) != 80) bad = 1;
			} else if (ai->ai_family == AF_INET6 && r->kind == K_GAI) {
				struct sockaddr_in6 *sin6 = (struct sockaddr_in6 *)ai->ai_addr;
				if (memcmp(&sin6->sin6_addr, e6, 16) || ntohs(sin6->sin6_port) != 80) bad = 1;
			} else bad = 1;
		}
		if (!n || bad) mc_fail("C34/wrong-answer/getaddrinfo", "r%d: %d entries, bad=%d", r->idx, n, bad);
		MC_COUNT("oracle_answer_content");
	} else if (result != 0 && res) mc_fail("C34/wrong-answer/getaddrinfo", "error %d with a non-NULL list", result);
	if (res) evutil_freeaddrinfo(res);
	in_user_cb++;
	user_action(r);
	in_user_cb--;
}

/* ------------------------------------------------------------------ user actions */
static void start_request(struct ureq *r)
{
	char name[64];
	if (!base_alive || r->started) return;
	r->started = 1;
	snprintf(name, sizeof name, "r%d.ex.test", r->idx);
	mc_observe("start(r%d:%s) ", r->idx, kind_name[r->kind]);
	switch (r->kind) {
	case K_A: r->handle = evdns_base_resolve_ipv4(dbase, name, DNS_QUERY_NO_SEARCH, resolve_cb, r); break;
	case K_AAAA: r->handle = evdns_base_resolve_ipv6(dbase, name, DNS_QUERY_NO_SEARCH, resolve_cb, r); break;
	case K_A_VC: r->handle = evdns_base_resolve_ipv4(dbase, name, DNS_QUERY_NO_SEARCH | DNS_QUERY_USEVC, resolve_cb, r); break;
	case K_A_IGNTC: r->handle = evdns_base_resolve_ipv4(dbase, name, DNS_QUERY_NO_SEARCH | DNS_QUERY_IGNTC, resolve_cb, r); break;
	case K_A_SEARCH: snprintf(name, sizeof name, "r%d", r->idx); r->handle = evdns_base_resolve_ipv4(dbase, name, 0, resolve_cb, r); break;
	case K_PTR: { struct in_addr in; in.s_addr = htonl(0x0a000000u | (unsigned)(100 + r->idx)); r->handle = evdns_base_resolve_reverse(dbase, &in, 0, resolve_cb, r); break; }
	case K_GAI: case K_GAI4: {
		struct evutil_addrinfo h; memset(&h, 0, sizeof h);
		h.ai_family = r->kind == K_GAI ? PF_UNSPEC : PF_INET; h.ai_socktype = SOCK_STREAM;
		r->handle = evdns_getaddrinfo(dbase, name, "80", &h, gai_cb, r);
		dnse_watch(r->handle);
		break; }
	}
	if (!r->handle && !r->done) mc_fail("harness:request-not-started", "r%d (%s): NULL handle and no callback", r->idx, kind_name[r->kind]);
}

static void start_timer_cb(evutil_socket_t fd, short what, void *arg)
{
	(void)fd; (void)what;
	start_request(arg);
}

/* Continuations that evdns has already scheduled in the event_base (deferred
 * reply_run_callback entries) survive evdns_base_free().  When their user_callback
 * is evdns-internal — evdns_getaddrinfo_gotresolve (locks and updates data->evdns_base
 * for every result but DNS_ERR_SHUTDOWN) or nameserver_probe_callback (locks
 * ns->base of the freed nameserver) — they run against freed memory.  Both are
 * confirmed defects (see notes/dnse2e.md; -P guards=0 shows the ASan reports); the
 * condition is detected here, reported under its own key, and the free is not
 * performed so that the worker survives and the exploration goes on. */
static void scan_queue(struct evcallback_list *q, int *gai, int *probe)
{
	struct event_callback *cb;
	TAILQ_FOREACH(cb, q, evcb_active_next) {
		if (cb->evcb_closure != EV_CLOSURE_CB_SELF || cb->evcb_cb_union.evcb_selfcb != reply_run_callback) continue;
		struct evdns_request *h = EVUTIL_UPCAST(cb, struct evdns_request, deferred);
		if (h->user_callback == evdns_getaddrinfo_gotresolve && h->err != DNS_ERR_SHUTDOWN) (*gai)++;
		if (h->user_callback == nameserver_probe_callback && h->err != DNS_ERR_CANCEL) (*probe)++;
	}
}
static void scheduled_internal_callbacks(int *gai, int *probe)
{
	*gai = *probe = 0;
	for (int i = 0; i < evbase->nactivequeues; i++) scan_queue(&evbase->activequeues[i], gai, probe);
	scan_queue(&evbase->active_later_queue, gai, probe);
}

static void free_base(int fail)
{
	if (!base_alive) return;
	if (mc_param("guards", 1)) {
		int gai, probe; char key[112];
		scheduled_internal_callbacks(&gai, &probe);
		if (gai) {
			snprintf(key, sizeof key, "C34/getaddrinfo-callback-scheduled-at-base-free/fail_requests%d", fail);
			mc_fail(key, "evdns_base_free(base, %d)%s while the callback of a getaddrinfo sub-request is already scheduled: "
			    "evdns_getaddrinfo_gotresolve will lock/update the freed base", fail, in_user_cb ? " (from inside a user callback)" : "");
		}
		if (probe) {
			snprintf(key, sizeof key, "C34/probe-callback-scheduled-at-base-free/fail_requests%d", fail);
			mc_fail(key, "evdns_base_free(base, %d)%s while the callback of an answered nameserver probe is already scheduled: "
			    "nameserver_probe_callback will lock the base of the freed nameserver", fail, in_user_cb ? " (from inside a user callback)" : "");
		}
		if (gai || probe) { mc_observe("FREE(%d)-skipped ", fail); return; }
	}
	mc_observe("FREE(%d)%s ", fail, in_user_cb ? "@cb" : "");
	for (int i = 0; i < nreqs; i++) {
		if (reqs[i].started && !reqs[i].done) reqs[i].out_at_free = 1;
		if (reqs[i].start_ev) { event_free(reqs[i].start_ev); reqs[i].start_ev = NULL; }
	}
	freed_fail = fail;
	base_alive = 0;          /* before the call: callbacks run from inside must not touch the base */
	evdns_base_free(dbase, fail);
	dbase = NULL;
	sent_at_free = dnse_udp_sent_total(); streams_at_free = dnse_stream_sockets;
	MC_COUNT(fail ? "base_free_fail1" : "base_free_fail0");
}

static void user_action(struct ureq *in_cb)
{
	int opts[MAXREQ], n = 0;
	if (!base_alive || acts_left <= 0) return;
	for (int i = 0; i < nreqs; i++)
		if (reqs[i].started && !reqs[i].done && !reqs[i].cancelled && reqs[i].handle && &reqs[i] != in_cb && n < (nreqs > 3 ? 1 : 3)) opts[n++] = i;   /* many-requests set: only the oldest outstanding one */
	int c = mc_choose(1 + n + 2, 0, in_cb ? "user-action-in-callback" : "user-action");
	if (!c) return;
	acts_left--;
	if (c <= n) {
		struct ureq *r = &reqs[opts[c - 1]];
		r->cancelled = 1;
		mc_observe("cancel(r%d)%s ", r->idx, in_cb ? "@cb" : "");
		MC_COUNT("user_cancels");
		if (IS_GAI(r->kind)) evdns_getaddrinfo_cancel(r->handle);
		else evdns_cancel_request(dbase, r->handle);
	} else free_base(c - n - 1);
}

/* ------------------------------------------------------------------ transaction-id oracles */
static struct request *inflight_by_id(u16 id, int *count)
{
	struct request *found = NULL; int k = 0;
	for (int i = 0; i < dbase->n_req_heads; i++) {
		struct request *st = dbase->req_heads[i], *rq = st;
		if (!rq) continue;
		do { if (rq->trans_id == id) { found = rq; k++; } rq = rq->next; } while (rq != st);
	}
	*count = k;
	return found;
}

static void check_req_heads(void)
{
	u16 ids[512]; int n = 0;
	if (!base_alive) return;
	for (int i = 0; i < dbase->n_req_heads; i++) {
		struct request *st = dbase->req_heads[i], *rq = st;
		if (!rq) continue;
		do {
			if (rq->trans_id % dbase->n_req_heads != i)
				mc_fail("C34/id-bucket/req_heads", "request with id %#x sits in bucket %d of %d", rq->trans_id, i, dbase->n_req_heads);
			if (rq->trans_id == 0xffff) mc_fail("C34/id-ffff-inflight", "an in-flight request carries the reserved id 0xffff");
			if (n < 512) ids[n++] = rq->trans_id;
			rq = rq->next;
		} while (rq != st);
	}
	for (int a = 0; a < n; a++)
		for (int b = a + 1; b < n; b++)
			if (ids[a] == ids[b]) mc_fail("C34/id-shared/req_heads", "two in-flight requests share transaction id %#x", ids[a]);
	if (n >= 2) MC_COUNT("oracle_ids_distinct_2plus_inflight");
	MC_COUNT("oracle_ids_req_heads");
}

/* wire view, taken at the moment evdns hands a datagram to sendto(): its id must belong to
 * exactly one in-flight request, and that request must ask the datagram's question */
static void on_udp_send(int ns, const void *pkt, int len)
{
	struct dm_query q, own; int k;
	if (!base_alive || !dbase) return;
	if (dm_parse_query(pkt, len, &q) < 0 || !q.wellformed) { mc_fail("C34/undecodable-query", "evdns sent %d bytes to ns%d that do not decode as a standard query", len, ns); return; }
	struct request *rq = inflight_by_id(q.id, &k);
	if (k != 1) mc_fail(k ? "C34/id-shared/wire" : "C34/id-unknown/wire", "query %s/%d with id %#x goes out while %d in-flight requests own that id", q.qname, q.qtype, q.id, k);
	else if (dm_parse_query(rq->request, (int)rq->request_len, &own) == 0 && (own.qtype != q.qtype || !dm_name_eq(own.qname, q.qname)))
		mc_fail("C34/id-shared/wire", "query %s/%d on the wire has id %#x of in-flight request %s/%d", q.qname, q.qtype, q.id, own.qname, own.qtype);
	MC_COUNT("oracle_ids_wire");
}

static void check_decodable(struct dnse_msg *m, int n)
{
	for (int a = 0; a < n; a++)
		if (!m[a].decoded) mc_fail("C34/undecodable-query", "ns%d got %d bytes that do not decode as a query", m[a].ns, m[a].len);
}

/* ------------------------------------------------------------------ nameserver script */
static int client_udp_fd(int ns)
{
	if (!base_alive || !dbase->server_head) return -1;
	struct nameserver *s = dbase->server_head;
	do {
		if (((struct sockaddr_in *)&s->address)->sin_port == htons(dnse_ns[ns].port)) return s->socket;
		s = s->next;
	} while (s != dbase->server_head);
	return -1;
}

/* build the reply for query m: rcode / flags / content */
static int build_reply(const struct dnse_msg *m, uint8_t *buf, int cap, int rcode, int tc, int with_answer)
{
	struct dm_msg d;
	int r = req_of_qname(m->q.qname);
	dm_begin(&d, buf, cap, m->q.id, (uint16_t)(DM_F_QR | DM_F_RD | DM_F_RA | (tc ? DM_F_TC : 0) | rcode), m->q.qname, m->q.qtype);
	if (with_answer) {
		if (m->q.qtype == DM_T_A) { uint8_t a[4]; if (r >= 0) exp_a(r, a); else { a[0] = a[1] = a[2] = a[3] = 8; } dm_rr_a(&d, 1, m->q.qname, 300, a); }
		else if (m->q.qtype == DM_T_AAAA) { uint8_t a[16]; exp_aaaa(r < 0 ? 9 : r, a); dm_rr_aaaa(&d, 1, m->q.qname, 300, a); }
		else if (m->q.qtype == DM_T_PTR) { char t[64]; exp_ptr(r < 0 ? 9 : r, t, sizeof t); dm_rr_name(&d, 1, m->q.qname, DM_T_PTR, 300, t); }
	} else if (rcode == DM_RC_NXDOMAIN || (!rcode && !tc)) dm_rr_soa(&d, 2, "test", 60, 60);
	return dm_finish(&d);
}

static void mark_id_owner(const uint8_t *p, int len);
static void send_udp(const struct dnse_msg *m, const uint8_t *p, int len)
{
	mark_id_owner(p, len);
	dnse_reply_udp(m, p, len);
	dnse_wait_readable(client_udp_fd(m->ns));
}

static void mark(int r, unsigned s) { global_seen |= s; if (r >= 0 && r < nreqs) reqs[r].seen |= s; }
/* A reply whose transaction id currently belongs to an in-flight request with another
 * question (id reused after a cancel / completion) makes evdns end that request with an
 * error — allowed ("an error", DESIGN app. A, C33): note it for the result-code oracle. */
static void mark_id_owner(const uint8_t *p, int len)
{
	struct dm_query rq, own; int k;
	if (!base_alive || dm_parse_query(p, len, &rq) < 0) return;
	struct request *o = inflight_by_id(rq.id, &k);
	if (!o || dm_parse_query(o->request, (int)o->request_len, &own) < 0) return;
	if (own.qtype != rq.qtype || !dm_name_eq(own.qname, rq.qname)) {
		global_seen |= S_GARBAGE;
		MC_COUNT("replies_meeting_reused_id");
	}
}
/* A reply that arrives when its request is gone (cancelled, already answered) may meet
 * another request that owns the same transaction id by then: that request ends with an
 * error (question mismatch / the reply's rcode) — allowed, see above. */
static void mark_bystanders(int r)
{
	if (r < 0 || r >= nreqs || reqs[r].done || reqs[r].cancelled) global_seen |= S_GARBAGE;
}

static void answer_udp(struct dnse_msg *m)
{
	uint8_t buf[600]; int len, r = req_of_qname(m->q.qname), beh;
	if (ns_mode[m->ns]) {
		beh = ns_mode[m->ns] == B_SILENT ? B_DROP : B_REFUSED;
		/* a sticky fault may end: the server recovers with this query (one more deviation) */
		if (mc_dev_left() > 0 && mc_choose(2, 1, "ns-recovers")) { ns_mode[m->ns] = 0; beh = B_OK; mc_observe("ns%d-recovers ", m->ns); }
	} else beh = mc_choose(B_NUDP, 1, "udp-answer");
	mc_observe("ns%d<-%s/%d#%x:%s ", m->ns, m->q.qname, m->q.qtype, m->q.id, beh_name[beh]);
	mark_bystanders(r);
	if (beh != B_OK) MC_COUNT("ns_deviations");
	switch (beh) {
	case B_OK: len = build_reply(m, buf, sizeof buf, 0, 0, 1); send_udp(m, buf, len); mark(r, S_OK); break;
	case B_SILENT: ns_mode[m->ns] = B_SILENT; /* fall through */
	case B_DROP: mark(r, S_NOANSWER); break;
	case B_SERVFAIL: len = build_reply(m, buf, sizeof buf, DM_RC_SERVFAIL, 0, 0); send_udp(m, buf, len); mark(r, S_SERVFAIL | S_NOANSWER); break;
	case B_STICKY_REFUSED: ns_mode[m->ns] = B_STICKY_REFUSED; /* fall through */
	case B_REFUSED: len = build_reply(m, buf, sizeof buf, DM_RC_REFUSED, 0, 0); send_udp(m, buf, len); mark(r, S_REFUSED); break;
	case B_NOTIMPL: len = build_reply(m, buf, sizeof buf, DM_RC_NOTIMPL, 0, 0); send_udp(m, buf, len); mark(r, S_NOTIMPL); break;
	case B_NXDOMAIN: len = build_reply(m, buf, sizeof buf, DM_RC_NXDOMAIN, 0, 0); send_udp(m, buf, len); mark(r, S_NXDOMAIN); break;
	case B_NODATA: len = build_reply(m, buf, sizeof buf, 0, 0, 0); send_udp(m, buf, len); mark(r, S_NODATA); break;
	case B_TC_REFUSE: dnse_listener_close(m->ns); mark(r, S_NOANSWER); /* fall through */
	case B_TC: len = build_reply(m, buf, sizeof buf, 0, 1, 0); send_udp(m, buf, len); mark(r, S_TC); break;
	case B_GARBAGE: {
		int v = mc_choose(4, 0, "garbage-kind");
		len = build_reply(m, buf, sizeof buf, 0, 0, 1);
		if (v == 0) len = 12 + (len - 12) / 2;                       /* cut in the middle of the question/answer */
		else if (v == 1) { buf[2] &= 0x7f; }                         /* QR clear: looks like a query */
		else if (v == 2) { buf[13] ^= 0x01; }                        /* question name differs in one byte */
		else len -= 2;                                               /* rdata cut short */
		mc_observe("(garbage%d) ", v);
		send_udp(m, buf, len); mark(r, S_GARBAGE | S_NOANSWER);
		break; }
	case B_DUP: len = build_reply(m, buf, sizeof buf, 0, 0, 1); send_udp(m, buf, len); send_udp(m, buf, len); mark(r, S_OK); global_seen |= S_GARBAGE; break;
	case B_LATE:
		len = build_reply(m, buf, sizeof buf, 0, 0, 1);
		if (nlate < 8) { late[nlate].used = 1; late[nlate].ns = m->ns; late[nlate].from = m->from; memcpy(late[nlate].pkt, buf, len); late[nlate].len = len; nlate++; }
		mark(r, S_OK | S_NOANSWER);
		break;
	}
}

static void answer_tcp(struct dnse_msg *m)
{
	uint8_t buf[700]; int len, r = req_of_qname(m->q.qname), beh;
	if (ns_mode[m->ns] == B_SILENT) beh = T_DROP;
	else beh = mc_choose(T_NTCP, 1, "tcp-answer");
	mc_observe("ns%d<=tcp:%s/%d#%x:%s ", m->ns, m->q.qname, m->q.qtype, m->q.id, tbeh_name[beh]);
	mark_bystanders(r);
	if (beh != T_OK) MC_COUNT("ns_deviations_tcp");
	MC_COUNT("tcp_queries");
	len = build_reply(m, buf + 2, sizeof buf - 2, 0, 0, 1);
	switch (beh) {
	case T_OK: buf[0] = (uint8_t)(len >> 8); buf[1] = (uint8_t)len; dnse_tcp_write(m->ns, m->tcp, buf, len + 2); mark(r, S_OK); break;
	case T_SILENT: ns_mode[m->ns] = B_SILENT; /* fall through */
	case T_DROP: mark(r, S_NOANSWER); break;
	case T_CLOSE: dnse_tcp_close(m->ns, m->tcp, 0); mark(r, S_NOANSWER); break;
	case T_PARTIAL: {
		static const int cuts[] = { 1, 2, 3, -1 };
		int v = mc_choose(4, 0, "partial-bytes"), k = cuts[v] < 0 ? len + 1 : cuts[v];
		buf[0] = (uint8_t)(len >> 8); buf[1] = (uint8_t)len;
		dnse_tcp_write(m->ns, m->tcp, buf, k); dnse_tcp_close(m->ns, m->tcp, 0);
		mc_observe("(%dB) ", k); mark(r, S_NOANSWER);
		break; }
	case T_SPLIT: {
		static const int cuts[] = { 1, 2, 3, -1 };
		int v = mc_choose(4, 0, "split-at"), k = cuts[v] < 0 ? len + 1 : cuts[v];
		buf[0] = (uint8_t)(len >> 8); buf[1] = (uint8_t)len;
		dnse_tcp_write(m->ns, m->tcp, buf, k);
		dnse_settle();
		if (evbase) event_base_loop(evbase, EVLOOP_NONBLOCK);      /* let the client consume the first segment */
		dnse_tcp_write(m->ns, m->tcp, buf + k, len + 2 - k);
		mc_observe("(@%d) ", k); mark(r, S_OK);
		break; }
	case T_ZEROLEN: buf[0] = buf[1] = 0; dnse_tcp_write(m->ns, m->tcp, buf, 2); mark(r, S_NOANSWER | S_GARBAGE); break;
	case T_SERVFAIL: len = build_reply(m, buf + 2, sizeof buf - 2, DM_RC_SERVFAIL, 0, 0); buf[0] = (uint8_t)(len >> 8); buf[1] = (uint8_t)len;
		dnse_tcp_write(m->ns, m->tcp, buf, len + 2); mark(r, S_SERVFAIL | S_NOANSWER); break;
	case T_TC: len = build_reply(m, buf + 2, sizeof buf - 2, 0, 1, 0); buf[0] = (uint8_t)(len >> 8); buf[1] = (uint8_t)len;
		dnse_tcp_write(m->ns, m->tcp, buf, len + 2); mark(r, S_TC); break;
	case T_NXDOMAIN: len = build_reply(m, buf + 2, sizeof buf - 2, DM_RC_NXDOMAIN, 0, 0); buf[0] = (uint8_t)(len >> 8); buf[1] = (uint8_t)len;
		dnse_tcp_write(m->ns, m->tcp, buf, len + 2); mark(r, S_NXDOMAIN); break;
	}
}

/* ------------------------------------------------------------------ nothing of evdns may stay in the event_base after the free */
/* Called after evdns_base_free() and one round of the loop (so that the deferred
 * DNS_ERR_SHUTDOWN / already scheduled callbacks have run).  Any event that is
 * still pending and whose callback is an evdns-internal function would later run
 * against freed memory: that is a callback after the base was freed.  The event is
 * reported and removed so that the exploration can go on without crashing. */
static struct event *survivors[16]; static int nsurvivors;
static const char *evdns_internal_cb_name(event_callback_fn fn)
{
	if (fn == evdns_getaddrinfo_timeout_cb) return "evdns_getaddrinfo_timeout_cb";
	if (fn == evdns_request_timeout_callback) return "evdns_request_timeout_callback";
	if (fn == nameserver_prod_callback) return "nameserver_prod_callback";
	if (fn == nameserver_ready_callback) return "nameserver_ready_callback";
	if (fn == evdns_ttl_expired) return "evdns_ttl_expired";
	return NULL;
}
static int survivor_cb(const struct event_base *b, const struct event *ev, void *arg)
{
	(void)b; (void)arg;
	if (evdns_internal_cb_name(event_get_callback(ev)) && nsurvivors < 16) survivors[nsurvivors++] = (struct event *)ev;
	return 0;
}
static void check_surviving_events(void)
{
	nsurvivors = 0;
	event_base_foreach_event(evbase, survivor_cb, NULL);
	for (int i = 0; i < nsurvivors; i++) {
		char key[128];
		snprintf(key, sizeof key, "C34/event-survives-base-free/%s/fail_requests%d", evdns_internal_cb_name(event_get_callback(survivors[i])), freed_fail);
		mc_fail(key, "after evdns_base_free(base, %d) an event with callback %s is still pending in the event_base; it would run against freed memory",
		    freed_fail, evdns_internal_cb_name(event_get_callback(survivors[i])));
		event_del(survivors[i]);
	}
	MC_COUNT("oracle_no_evdns_event_after_free");
}

/* ------------------------------------------------------------------ driving the loop */
static int last_ready;
static void postwait(int nready) { last_ready = nready; }

/* run zero-timeout passes until two in a row found nothing ready */
static void io_passes(void)
{
	int quiet = 0;
	for (int i = 0; i < 64 && quiet < 2; i++) {
		dnse_settle();
		last_ready = 0;
		event_base_loop(evbase, EVLOOP_NONBLOCK);
		quiet = last_ready > 0 ? 0 : quiet + 1;
	}
}

static int outstanding(void)
{
	int n = 0;
	for (int i = 0; i < nreqs; i++) if (reqs[i].started && !reqs[i].done) n++;
	return n;
}
static int unstarted(void)
{
	int n = 0;
	for (int i = 0; i < nreqs; i++) if (!reqs[i].started) n++;
	return n;
}

static void body(void)
{
	int maxiter = mc_param("maxiter", 80), tail = mc_param("tail", 2), rsmax = mc_param("reqsets", N_REQSETS);
	int att_lo = mc_param("attempts_lo", 2), att_hi = mc_param("attempts_hi", 2), rngmodes = mc_param("rngmodes", 1);
	struct dnse_msg msgs[24];
	char opt[16];

	/* ---- configuration (free choices) ---- */
	if (rsmax > N_REQSETS) rsmax = N_REQSETS;
	int only = mc_param("only_reqset", -1);
	int rs = only >= 0 ? only : mc_choose(rsmax, 0, "reqset");
	/* the many-requests set has one fixed configuration: max-inflight 6 gives n_req_heads == 2 */
	nns = rs == RS_MANY ? 1 : 1 + mc_choose(2, 0, "nameservers");
	int mi = rs == RS_MANY ? 6 : inflight_opts[mc_choose(3, 0, "max-inflight")];
	int attempts = att_lo + mc_choose(att_hi - att_lo + 1, 0, "attempts");
	static const int rng_order[] = { 1, 2, 0 };
	int rngmode = rng_order[rngmodes > 1 ? mc_choose(rngmodes > 3 ? 3 : rngmodes, 0, "rng-mode") : 0];
	if ((rs == 7 || rs == 12 || rs == 13) && attempts < 3) attempts = 3;      /* staggered TCP requests need a second retransmission */
	const struct reqset *RS = &reqsets[rs];
	mc_observe("cfg{set=%d ns=%d inflight=%d attempts=%d rng=%d} ", rs, nns, mi, attempts, rngmode);

	/* ---- fresh world ---- */
	vclock_reset(); vclock_idle_hook = idle_hook; vclock_block_hook = NULL; vclock_postwait_hook = postwait; dnse_udp_send_hook = on_udp_send;
	dnse_ns_begin(); dnse_rng_reset(rngmode); dnse_watch_reset();
	live0 = dnse_alloc_live();
	memset(reqs, 0, sizeof reqs); nreqs = RS->n; nlate = 0; memset(late, 0, sizeof late);
	memset(ns_mode, 0, sizeof ns_mode); global_seen = 0;
	acts_left = mc_param("acts", 1); idle_flag = 0; freed_fail = 0; in_user_cb = 0;
	evbase = event_base_new();
	dbase = evdns_base_new(evbase, 0);
	if (!evbase || !dbase) { mc_fail("harness:setup", "event_base/evdns_base_new failed"); return; }
	base_alive = 1;
	for (int i = 0; i < nns; i++) {
		struct sockaddr_in sin; dnse_ns_sockaddr(i, &sin);
		if (evdns_base_nameserver_sockaddr_add(dbase, (struct sockaddr *)&sin, sizeof sin, 0) != 0) mc_fail("harness:setup", "nameserver add");
	}
	snprintf(opt, sizeof opt, "%d", mi); evdns_base_set_option(dbase, "max-inflight", opt);
	snprintf(opt, sizeof opt, "%d", attempts); evdns_base_set_option(dbase, "attempts", opt);
	for (int i = 0; i < nreqs; i++) if (RS->kind[i] == K_A_SEARCH) { evdns_base_search_add(dbase, "s1.test"); evdns_base_search_add(dbase, "s2.test"); break; }
	for (int i = 0; i < nreqs; i++) { reqs[i].idx = i; reqs[i].kind = RS->kind[i]; reqs[i].start_ms = RS->start_ms[i]; }
	for (int i = 0; i < nreqs; i++) {
		if (reqs[i].start_ms == 0) start_request(&reqs[i]);
		else {
			struct timeval tv = { reqs[i].start_ms / 1000, (reqs[i].start_ms % 1000) * 1000 };
			reqs[i].start_ev = evtimer_new(evbase, start_timer_cb, &reqs[i]);
			evtimer_add(reqs[i].start_ev, &tv);
		}
	}

	/* ---- history ---- */
	int tail_left = tail, iter;
	for (iter = 0; iter < maxiter; iter++) {
		if (!base_alive) break;          /* the user freed the base: go to the end-of-history phase */
		io_passes();
		check_req_heads();
		int n = dnse_ns_collect(msgs, 24);
		if (n) check_decodable(msgs, n);
		user_action(NULL);
		if (!base_alive) break;
		if (n) {
			for (int i = 0; i < n && base_alive; i++) {
				if (!msgs[i].decoded) continue;
				if (msgs[i].tcp >= 0) answer_tcp(&msgs[i]); else answer_udp(&msgs[i]);
			}
			continue;
		}
		if (n) continue;
		/* nothing pending at the servers */
		if (base_alive && !outstanding() && !unstarted()) {
			if (tail_left-- <= 0) break;
		}
		/* advance virtual time to libevent's next timer */
		idle_flag = 0;
		dnse_settle();
		if (event_base_loop(evbase, EVLOOP_ONCE) == 1) idle_flag = 1;     /* 1 = no events registered at all */
		if (idle_flag) {
			if (base_alive && outstanding()) {
				for (int i = 0; i < nreqs; i++) if (reqs[i].started && !reqs[i].done) {
					char key[96];
					snprintf(key, sizeof key, "C34/stuck-request/%s/inflight%d", kind_name[reqs[i].kind], mi);
					mc_fail(key, "r%d (%s) has no callback and the event loop has nothing left to wait for (virtual time %lld ms, seen=%#x, waiting=%d inflight=%d)",
					    i, kind_name[reqs[i].kind], (long long)(vclock_us / 1000), reqs[i].seen, dbase->global_requests_waiting, dbase->global_requests_inflight);
				}
			}
			MC_COUNT("oracle_idle_reached");
			break;
		}
		mc_observe("t=%lldms ", (long long)(vclock_us / 1000));
		if (base_alive)
			for (int i = 0; i < nlate; i++) if (late[i].used) {
				struct dnse_msg m; memset(&m, 0, sizeof m); m.ns = late[i].ns; m.from = late[i].from;
				late[i].used = 0;
				mc_observe("ns%d:late-reply ", m.ns);
				global_seen |= S_GARBAGE;
				send_udp(&m, late[i].pkt, late[i].len);
			}
	}
	if (iter == maxiter) mc_fail("harness:runaway", "history did not end within %d steps", maxiter);

	/* ---- end of history: free the base (if the user has not), let deferred callbacks run ---- */
	if (base_alive) {
		int fail = (rs + nns) & 1;
		free_base(fail);
		if (base_alive) { io_passes(); free_base(fail); }      /* a guard skipped it: let the scheduled callbacks run first */
		if (base_alive) { mc_fail("harness:final-free", "could not free the base"); return; }
	}
	for (int i = 0; i < 8; i++) {
		io_passes();
		dnse_ns_collect(msgs, 24);        /* queries sent before the free may still sit in the servers' queues */
		if (i == 0) check_surviving_events();
		idle_flag = 0;
		if (event_base_loop(evbase, EVLOOP_ONCE) == 1 || idle_flag) break;
	}
	if (dnse_udp_sent_total() != sent_at_free || dnse_stream_sockets != streams_at_free)
		mc_fail("C34/traffic-after-free", "%ld datagram(s) sent and %ld TCP socket(s) created after evdns_base_free returned",
		    dnse_udp_sent_total() - sent_at_free, dnse_stream_sockets - streams_at_free);
	MC_COUNT("oracle_after_free_quiet");

	/* ---- verdicts ---- */
	int gai_discarded = 0;
	for (int i = 0; i < nreqs; i++) {
		struct ureq *r = &reqs[i];
		if (!r->started) continue;
		MC_COUNT("oracle_exactly_once");
		if (r->ncb == 0) {
			if (r->out_at_free && !freed_fail) { if (IS_GAI(r->kind)) gai_discarded = 1; MC_COUNT("discarded_by_free0"); continue; }
			mc_fail(r->out_at_free ? (IS_GAI(r->kind) ? "C34/no-callback/after-free1/getaddrinfo" : "C34/no-callback/after-free1/resolve")
			                       : "C34/no-callback/end-of-history",
			    "r%d (%s) never got its callback (seen=%#x)", i, kind_name[r->kind], r->seen);
		}
	}
	for (int i = 0; i < nreqs; i++) if (reqs[i].start_ev) { event_free(reqs[i].start_ev); reqs[i].start_ev = NULL; }
	event_base_free(evbase); evbase = NULL;
	dnse_ns_end();
	if (!gai_discarded) {
		if (dnse_alloc_live() != live0) mc_fail("C34/leak", "%ld allocation(s) still live after evdns_base_free + event_base_free", dnse_alloc_live() - live0);
		MC_COUNT("oracle_leak");
	}
	if (mcx_fd_signature() != fd0) {
		mc_fail("C34/fd-leak", "fd table differs from the baseline");
		if (mc_replaying()) { fflush(stdout); if (system("ls -l /proc/$PPID/fd") < 0) {} }
	}
	if (dnse_spins) { MC_COUNTN("net_waits", (uint64_t)dnse_spins); dnse_spins = 0; }
}

static void init(void)
{
	dnse_alloc_install();
	event_set_log_callback(logcb);
	if (dnse_ns_init() < 0) abort();
	fd0 = mcx_fd_signature();        /* the same for every execution unless one leaks (then it fails) */
}

int main(int argc, char **argv)
{
	struct mc_config cfg = { .property = "C34", .body = body, .init = init, .default_split = 4 };
	return mc_main(argc, argv, &cfg);
}
