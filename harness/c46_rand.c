/* C46 — bounded random choices: evutil_weakrand_range_ for generator states x bounds,
 * its three call sites (poll / select start index, first member of a rate-limit group),
 * and evutil_secure_rng_get_bytes filling exactly the requested buffer.
 * bufferevent_ratelim.c is included to reach the static bev_group_random_element_;
 * arc4random_buf / arc4random are --wrap'ed so that what libevent asks of the platform is recorded.
 * Shard items:
 *   [0, NTOP)            one bound `top`: the generator states whose next value sits on a quotient
 *                        boundary (k*divisor-1, k*divisor, k*divisor+1) and 4096 spread states
 *   [.., +NBLK)          one block of 2^blkbits consecutive states x the TOPS catalogue (all 2^31 states with statebits=31)
 *   [.., +NSEC)          secure rng: one length x 8 alignments
 *   [.., +NSITE)         call sites
 */
#include "mcx.h"
/* small ASan quarantine: freed blocks are reused quickly instead of every malloc touching fresh pages */
const char *__asan_default_options(void) { return "quarantine_size_mb=4:thread_local_quarantine_size_kb=64"; }
#include "bufferevent_ratelim.c"
#include <stdio.h>
#include <unistd.h>
#include <fcntl.h>
#include <poll.h>
#include "event2/thread.h"

#define ONCE(f) (!(f)++)
#define M31 0x7fffffffu

/* ------------------------------------------------------------------ reference generator (independent of evutil.c) */
static uint32_t lcg_next(uint32_t s) { return (uint32_t)(((uint64_t)s * 1103515245u + 12345u) & M31); }
static uint32_t AINV;                                         /* inverse of the multiplier mod 2^31 */
static uint32_t lcg_prev(uint32_t x) { return (uint32_t)(((uint64_t)AINV * ((x - 12345u) & M31)) & M31); }

struct rrep { int range, steps, state, raw; };
static uint64_t n_calls, n_multi, max_iter_seen;

/* one call of the real function; the number of generator steps is recovered by stepping the real
 * evutil_weakrand_ from the same start until it reaches the state the call left behind */
static void check_range(uint32_t s, int32_t top, struct rrep *rp)
{
	struct evutil_weakrand_state st, walk;
	st.seed = s;
	int32_t r = evutil_weakrand_range_(&st, top);
	n_calls++;
	if ((r < 0 || r >= top) && ONCE(rp->range)) mc_fail("C46/range/result-outside-range", "state %u top %d -> %d", s, top, r);
	walk.seed = s;
	int it = 0, found = 0;
	while (it < 64) {
		int32_t raw = evutil_weakrand_(&walk); it++;
		if ((raw < 0 || (uint32_t)raw != walk.seed || walk.seed > M31) && ONCE(rp->raw)) mc_fail("C46/weakrand/value-outside-0-MAX", "state %u -> %d (seed %u)", s, raw, walk.seed);
		if (walk.seed == st.seed) { found = 1; break; }
	}
	if (!found) { if (ONCE(rp->steps)) mc_fail("C46/range/more-than-64-generator-steps", "state %u top %d: the state left behind (%u) is not among the next 64 generator states", s, top, st.seed); return; }
	if (it > 1) n_multi++;
	if ((uint64_t)it > max_iter_seen) max_iter_seen = it;
	/* the generator itself: same sequence as the documented LCG */
	if (walk.seed != 0 && it == 1 && walk.seed != lcg_next(s) && ONCE(rp->state)) mc_fail("C46/weakrand/not-the-documented-lcg", "state %u -> %u, LCG gives %u", s, walk.seed, lcg_next(s));
}

/* ---- bounds */
static int32_t TOPLIST[6000]; static int NTOP;
static const int32_t TOPS[] = { 1, 2, 3, 7, 10, 1000, 1024, 65537, 0x3fffffff, 0x40000000, 0x40000001, 0x7ffffffe, 0x7fffffff,
	/* -P moretops=1 (thorough): */ 4, 5, 6, 8, 64, 100, 255, 4096, 65535, 65536, 1000000, 0x00ffffff, 0x01000001, 1000000000, 0x2aaaaaaa, 0x2aaaaaab, 0x55555555, 0x55555556, 0x60000000, 0x7fffff00,
	0x20000000, 0x20000001, 0x1fffffff, 0x33333333, 0x6fffffff, 0x7ffffffd };
static int NTOPS = 13;
static void build_tops(void)
{
	if (NTOP) return;
	for (int t = 1; t <= 4096; t++) TOPLIST[NTOP++] = t;
	for (int k = 13; k <= 31; k++) for (int d = -1; d <= 1; d++) { int64_t v = ((int64_t)1 << k) + d; if (v >= 1 && v <= 0x7fffffff) TOPLIST[NTOP++] = (int32_t)v; }
	static const int32_t extra[] = { 10000, 100000, 1000000, 10000000, 100000000, 1000000000, 0x7ffffffe, 0x55555555, 0x2aaaaaab, 0x33333333, 715827882, 715827883, 1073741823, 1431655765, 1431655766 };
	for (unsigned i = 0; i < sizeof extra / sizeof extra[0]; i++) TOPLIST[NTOP++] = extra[i];
}

static void item_top(uint64_t idx)
{
	int32_t top = TOPLIST[idx];
	struct rrep rp; memset(&rp, 0, sizeof rp);
	n_calls = n_multi = 0;
	uint32_t divisor = M31 / (uint32_t)top;        /* documented: EVUTIL_WEAKRAND_MAX / top */
	int64_t ks[] = { 0, 1, 2, 3, top / 2, (int64_t)top - 2, (int64_t)top - 1, top, (int64_t)top + 1, (int64_t)top + 2, (int64_t)(M31 / divisor), (int64_t)(M31 / divisor) + 1 };
	for (unsigned i = 0; i < sizeof ks / sizeof ks[0]; i++) for (int d = -1; d <= 1; d++) {
		int64_t x = ks[i] * (int64_t)divisor + d;
		if (x < 0 || x > (int64_t)M31) continue;
		check_range(lcg_prev((uint32_t)x), top, &rp);       /* the call's first generator value is x */
	}
	check_range(lcg_prev(0), top, &rp); check_range(lcg_prev(M31), top, &rp); check_range(0, top, &rp); check_range(M31, top, &rp);
	for (uint32_t i = 0; i < 4096; i++) check_range((uint32_t)((i * 2654435761u + (uint32_t)idx * 40503u) & M31), top, &rp);
	MC_COUNTN("range_calls", n_calls); MC_COUNTN("range_calls_with_rejection", n_multi);
	mc_nontrivial(idx + 1);
	mc_observe("top=%d (divisor %u): quotient-boundary states and 4096 spread states, %llu calls, %llu needed more than one generator step", top, divisor, (unsigned long long)n_calls, (unsigned long long)n_multi);
}

static int STATEBITS = 24, BLKBITS = 16;
static void item_block(uint64_t idx)
{
	struct rrep rp; memset(&rp, 0, sizeof rp);
	n_calls = n_multi = 0; max_iter_seen = 0;
	uint64_t lo = idx << BLKBITS, hi = lo + (1ull << BLKBITS);
	for (uint64_t i = lo; i < hi; i++) {
		uint32_t s = STATEBITS >= 31 ? (uint32_t)i : (uint32_t)((i * 2654435761u) & M31);
		for (int t = 0; t < NTOPS; t++) check_range(s, TOPS[t], &rp);
	}
	MC_COUNTN("range_calls", n_calls); MC_COUNTN("range_calls_with_rejection", n_multi);
	{ static int cid[65], init; char nm[40]; if (!init) { init = 1; for (int i = 0; i < 65; i++) cid[i] = -1; }
	  snprintf(nm, sizeof nm, "blocks_with_longest_run_%02llu_steps", (unsigned long long)max_iter_seen); mc_count_id(&cid[max_iter_seen], nm, 1); }
	mc_nontrivial(0x1000000 + idx);
	mc_observe("states block %llu (%s) x %d bounds: %llu calls, longest rejection run %llu steps", (unsigned long long)idx, STATEBITS >= 31 ? "consecutive" : "spread", NTOPS, (unsigned long long)n_calls, (unsigned long long)max_iter_seen);
}

/* ------------------------------------------------------------------ secure rng */
static struct { unsigned char *p; size_t n; } asked[8]; static int n_asked; static int n_arc4_words;
void __wrap_arc4random_buf(void *buf, size_t n) { if (n_asked < 8) { asked[n_asked].p = buf; asked[n_asked].n = n; } n_asked++; memset(buf, 0xa5, n); }
uint32_t __wrap_arc4random(void) { n_arc4_words++; return 0xa5a5a5a5u; }

static const int SECLEN[] = { 0,1,2,3,4,5,6,7,8,9,10,11,12,13,14,15,16,17,18,19,20,21,22,23,24,25,26,27,28,29,30,31,32,33,34,35,36,37,38,39,40,41,42,43,44,45,46,47,48,
	49,50,51,52,53,54,55,56,57,58,59,60,61,62,63,64,65,127,128,129,255,256,257,1023,1024,4095,4096,4097,65535,65536 };
#define NSEC ((int)(sizeof SECLEN / sizeof SECLEN[0]))
static void item_secure(uint64_t idx)
{
	size_t n = SECLEN[idx]; int bad = 0;
	for (int off = 0; off < 8; off++) {
		unsigned char *blk = malloc(off + n), *buf = blk + off;      /* exact size: a write past buf+n is seen by ASan */
		memset(blk, 0xee, off); memset(buf, 0x11, n);
		n_asked = 0; n_arc4_words = 0;
		evutil_secure_rng_get_bytes(buf, n);
		size_t filled = 0; for (size_t i = 0; i < n; i++) filled += buf[i] == 0xa5;
		int pre_ok = 1; for (int i = 0; i < off; i++) pre_ok &= blk[i] == 0xee;
		if ((filled != n || !pre_ok) && ONCE(bad))
			mc_fail("C46/secure_rng/buffer-not-exactly-filled", "n=%zu alignment %d: %zu bytes written by the platform generator, bytes before the buffer %s (%d arc4random_buf calls, first %zu bytes)",
			    n, off, filled, pre_ok ? "intact" : "overwritten", n_asked, n_asked ? asked[0].n : 0);
		free(blk);
	}
	MC_COUNTN("secure_rng_calls", 8);
	mc_nontrivial(0x2000000 + idx);
	mc_observe("secure_rng_get_bytes n=%zu at 8 alignments: platform generator asked %d time(s)", n, n_asked);
}

/* ------------------------------------------------------------------ call sites */
static void quiet(int sev, const char *msg) { (void)sev; (void)msg; }
static int fired[16], nfired, order[16];
static void rd_cb(evutil_socket_t fd, short what, void *arg) { char c; (void)what; int i = (int)(intptr_t)arg; (void)!read(fd, &c, 1); fired[i]++; if (nfired < 16) order[nfired++] = i; }

/* poll / select: n readable pipes; with the generator in state s one pass must run every callback exactly once,
 * in an order that is a rotation of the registration order (the random start index only rotates the scan) */
static void site_backend(const char *method, const char *avoid1, const char *avoid2, uint64_t *cnt)
{
	int bad = 0;
	for (int n = 1; n <= 6; n++) {
		struct event_config *cfg = event_config_new();
		event_config_avoid_method(cfg, avoid1); event_config_avoid_method(cfg, avoid2);
		struct event_base *base = event_base_new_with_config(cfg);
		event_config_free(cfg);
		if (!base || strcmp(event_base_get_method(base), method)) { mc_fail("harness:backend", "wanted %s", method); if (base) event_base_free(base); return; }
		int p[6][2]; struct event *ev[6];
		for (int i = 0; i < n; i++) { if (pipe(p[i])) { mc_fail("harness:pipe", "pipe"); return; } ev[i] = event_new(base, p[i][0], EV_READ | EV_PERSIST, rd_cb, (void *)(intptr_t)i); event_add(ev[i], NULL); }
		static const int32_t KEY[] = { 0, 1, 2, 3 };
		for (unsigned a = 0; a < 400; a++) {
			/* states whose next value lands on each start index boundary, and spread states */
			uint32_t s = a < 40 ? lcg_prev((uint32_t)(((uint64_t)(a / 4) * (M31 / (uint32_t)(n + 3))) + KEY[a % 4]) & M31) : (uint32_t)((a * 2654435761u) & M31);
			base->weakrand_seed.seed = s;
			memset(fired, 0, sizeof fired); nfired = 0;
			for (int i = 0; i < n; i++) (void)!write(p[i][1], "x", 1);      /* every descriptor ready; the callback takes the byte away again */
			event_base_loop(base, EVLOOP_NONBLOCK);
			(*cnt)++;
			int ok = nfired == n;
			for (int i = 0; i < n; i++) ok &= fired[i] == 1;
			for (int i = 1; ok && i < n; i++) ok &= order[i] == (order[i - 1] + 1) % n;
			if (!ok && ONCE(bad)) mc_fail(!strcmp(method, "poll") ? "C46/callsite/poll-start-index" : "C46/callsite/select-start-index",
			    "%d ready descriptors, generator state %u: %d callbacks ran, order starts %d %d %d (not every descriptor once in rotated order)", n, s, nfired, order[0], order[1], order[2]);
		}
		for (int i = 0; i < n; i++) { event_free(ev[i]); close(p[i][0]); close(p[i][1]); }
		event_base_free(base);
	}
}

/* poll_dispatch on a base with locking: the fd table is snapshotted, the lock released and poll() called; another
 * thread may add a descriptor meanwhile.  The wrapped poll() does exactly that (the lock is free at this point),
 * so the start index has to be chosen from the snapshot's size, not from the table's new size. */
static struct event *late_ev; static int add_during_poll;
int __real_poll(struct pollfd *fds, nfds_t n, int timeout);
int __wrap_poll(struct pollfd *fds, nfds_t n, int timeout)
{
	if (add_during_poll && late_ev) { add_during_poll = 0; event_add(late_ev, NULL); }
	return __real_poll(fds, n, timeout);
}
static void site_poll_concurrent_add(uint64_t *cnt)
{
	int bad = 0;
	evthread_use_pthreads();
	for (int n = 1; n <= 5; n++) {
		struct event_config *cfg = event_config_new();
		event_config_avoid_method(cfg, "epoll"); event_config_avoid_method(cfg, "select");
		struct event_base *base = event_base_new_with_config(cfg);
		event_config_free(cfg);
		if (!base || strcmp(event_base_get_method(base), "poll")) { mc_fail("harness:backend", "wanted poll"); return; }
		int p[6][2], q[2]; struct event *ev[6];
		for (int i = 0; i < n; i++) { if (pipe(p[i])) { mc_fail("harness:pipe", "pipe"); return; } ev[i] = event_new(base, p[i][0], EV_READ | EV_PERSIST, rd_cb, (void *)(intptr_t)i); event_add(ev[i], NULL); }
		if (pipe(q)) { mc_fail("harness:pipe", "pipe"); return; }
		late_ev = event_new(base, q[0], EV_READ | EV_PERSIST, rd_cb, (void *)(intptr_t)15);
		for (unsigned a = 0; a < 300; a++) {
			/* states for which a choice among n+1 would give n (the out-of-snapshot index), and spread states */
			uint32_t div1 = M31 / (uint32_t)(n + 1);
			uint32_t s = a < 60 ? lcg_prev((uint32_t)(((uint64_t)n * div1 + (a % 30) * (div1 / 31)) & M31)) : (uint32_t)((a * 2654435761u) & M31);
			base->weakrand_seed.seed = s;
			memset(fired, 0, sizeof fired); nfired = 0;
			for (int i = 0; i < n; i++) (void)!write(p[i][1], "x", 1);
			add_during_poll = 1;
			event_base_loop(base, EVLOOP_NONBLOCK);
			(*cnt)++;
			int ok = nfired == n;
			for (int i = 0; i < n; i++) ok &= fired[i] == 1;
			for (int i = 1; ok && i < n; i++) ok &= order[i] == (order[i - 1] + 1) % n;
			if (!ok && ONCE(bad)) mc_fail("C46/callsite/poll-start-index-after-concurrent-add",
			    "%d ready descriptors, one more added while poll() ran, generator state %u: %d callbacks ran (not every ready descriptor once in rotated order)", n, s, nfired);
			event_del(late_ev);
			/* drain what a failed pass left behind so that the next round starts clean */
			for (int i = 0; i < n; i++) if (!fired[i]) { char c; (void)!read(p[i][0], &c, 1); }
		}
		event_free(late_ev); late_ev = NULL; close(q[0]); close(q[1]);
		for (int i = 0; i < n; i++) { event_free(ev[i]); close(p[i][0]); close(p[i][1]); }
		event_base_free(base);
	}
}

static void site_group(uint64_t *cnt)
{
	int bad = 0;
	struct event_base *base = event_base_new();
	struct timeval tick = { 1, 0 };
	struct ev_token_bucket_cfg *cfg = ev_token_bucket_cfg_new(1000, 1000, 1000, 1000, &tick);
	struct bufferevent_rate_limit_group *g = bufferevent_rate_limit_group_new(base, cfg);
	struct bufferevent *bev[8];
	for (int n = 1; n <= 8; n++) {
		bev[n - 1] = bufferevent_socket_new(base, -1, 0);
		bufferevent_add_to_rate_limit_group(bev[n - 1], g);
		for (unsigned a = 0; a < 3000; a++) {
			uint32_t s = a < 64 ? lcg_prev((uint32_t)(((uint64_t)(a / 4) * (M31 / (uint32_t)n)) + (a % 4) - 1) & M31) : (uint32_t)((a * 2654435761u) & M31);
			g->weakrand_seed.seed = s;
			struct bufferevent_private *m = bev_group_random_element_(g);
			(*cnt)++;
			int member = 0;
			for (int i = 0; i < n; i++) member |= m == BEV_UPCAST(bev[i]);
			if (!member && ONCE(bad)) mc_fail("C46/callsite/rate-limit-group-first-member", "%d members, generator state %u: returned %p which is not a member", n, s, (void *)m);
		}
	}
	for (int i = 0; i < 8; i++) { bufferevent_remove_from_rate_limit_group(bev[i]); bufferevent_free(bev[i]); }
	event_base_loop(base, EVLOOP_NONBLOCK);        /* run the deferred finalizers */
	bufferevent_rate_limit_group_free(g);
	ev_token_bucket_cfg_free(cfg);
	event_base_free(base);
}

static void item_site(uint64_t idx)
{
	uint64_t cnt = 0;
	event_set_log_callback(quiet);
	if (idx == 0) site_backend("poll", "epoll", "select", &cnt);
	else if (idx == 1) site_backend("select", "epoll", "poll", &cnt);
	else if (idx == 2) site_group(&cnt);
	else site_poll_concurrent_add(&cnt);
	MC_COUNTN("callsite_choices", cnt);
	mc_nontrivial(0x3000000 + idx);
	mc_observe("call site %s: %llu choices with the generator state set beforehand", idx == 0 ? "poll_dispatch" : idx == 1 ? "select_dispatch" : idx == 2 ? "bev_group_random_element_" : "poll_dispatch with a descriptor added during poll()", (unsigned long long)cnt);
}

/* ------------------------------------------------------------------ */
static uint64_t NBLK;
static void item(uint64_t i)
{
	if (i < (uint64_t)NTOP) item_top(i);
	else if ((i -= NTOP) < NBLK) item_block(i);
	else if ((i -= NBLK) < NSEC) item_secure(i);
	else item_site(i - NSEC);
}

int main(int argc, char **argv)
{
	for (int i = 1; i + 1 < argc; i++) if (!strcmp(argv[i], "-P")) {
		if (!strncmp(argv[i + 1], "statebits=", 10)) STATEBITS = atoi(argv[i + 1] + 10);
		if (!strncmp(argv[i + 1], "blkbits=", 8)) BLKBITS = atoi(argv[i + 1] + 8);
		if (!strcmp(argv[i + 1], "moretops=1")) NTOPS = (int)(sizeof TOPS / sizeof TOPS[0]);
	}
	/* inverse of the multiplier modulo 2^31 by Newton iteration */
	{ uint64_t a = 1103515245u, x = a; for (int k = 0; k < 6; k++) x = (x * (2 - a * x)) & M31; AINV = (uint32_t)x;
	  if (((uint64_t)AINV * a & M31) != 1 || lcg_prev(lcg_next(12345678)) != 12345678) { fprintf(stderr, "c46: bad inverse\n"); return 2; } }
	build_tops();
	NBLK = 1ull << (STATEBITS - BLKBITS);
	struct mc_config cfg = { .property = "C46", .n_items = NTOP + NBLK + NSEC + 4, .item = item };
	return mc_main(argc, argv, &cfg);
}
