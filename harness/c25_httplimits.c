/* C25 — evhttp server size limits (evhttp_set_max_headers_size / _max_body_size).
 *
 * Shard mode.  item = (case, segmentation); case = (stream, header limit, body
 * limit, lingering-close flag).
 *   small streams (~100-200 bytes): limits {0, 1, size-1, size, size+1, unlimited}
 *     around the stream's own header / body size, every segmentation with <=1
 *     (quick) / <=2 (thorough) cuts plus byte-at-a-time;
 *   big streams (40-60 kB, several read quanta): small limits {0,1,100,4096,20000},
 *     one write, named cut positions, byte-at-a-time (thorough).
 * Oracles (each execution on its own):
 *   delivered:  no request handed to the callback has a header section larger
 *               than the header limit or a body larger than the body limit;
 *   answered:   a complete over-limit message is answered 413 or 400, or the
 *               connection is closed — it is not left pending;
 *   buffered:   the connection's input buffer, sampled at the start of every
 *               event-loop iteration, never holds more than limit + one read
 *               quantum (16384 = MAX_SINGLE_READ_DEFAULT, which bufferevent_init_common_
 *               installs as the input evbuffer's max_read: bufferevent_readcb does
 *               one evbuffer_read() of at most that many bytes per readiness
 *               event and runs the http parser right after it).
 * Header size is measured as the pinned code measures it: request line plus
 * field lines, line terminators not counted (see notes/httpsrv.md).
 */
#include "httpsrv.h"
#include "rfc9112.h"

#define QUANTUM 16384
#define UNLIM (-1L)

struct kase {
	const unsigned char *b; size_t n;
	char cls[48];              /* stream class, used in keys */
	long hl, bl;               /* limits, UNLIM = unlimited */
	int linger;
	int big;                   /* named cuts instead of all cuts */
	size_t M, B, T;            /* header measure / body size / trailer-section measure of the first message (reference) */
	int complete;              /* the stream holds the complete first message */
	int ncuts; size_t cuts[16];
	uint64_t first, nseg;
};
static struct kase *K; static int nk, capk;
static int max_cuts = 1, big_bytewise = 0, only = 0; /* only: 1 small, 2 big */
static int full_grid = 0;   /* thorough: 9 x 9 limit grid instead of one-limit-at-a-time + corners */

static struct kase *new_case(void)
{
	if (nk == capk) { capk = capk ? capk * 2 : 512; K = realloc(K, sizeof(*K) * (size_t)capk); }
	memset(&K[nk], 0, sizeof K[nk]);
	return &K[nk++];
}

static unsigned char *mk(size_t *n, const char *fmt, ...) __attribute__((format(printf, 2, 3)));
static unsigned char *mk(size_t *n, const char *fmt, ...)
{
	va_list ap; va_start(ap, fmt);
	int len = vsnprintf(NULL, 0, fmt, ap); va_end(ap);
	unsigned char *p = malloc((size_t)len + 1);
	va_start(ap, fmt); vsnprintf((char *)p, (size_t)len + 1, fmt, ap); va_end(ap);
	*n = (size_t)len;
	return p;
}
static char *rep(const char *unit, int times)
{
	size_t u = strlen(unit); char *p = malloc(u * (size_t)times + 1);
	for (int i = 0; i < times; i++) memcpy(p + u * (size_t)i, unit, u);
	p[u * (size_t)times] = 0;
	return p;
}

static void measure(struct kase *k)
{
	struct h1_opts o = { .kind = H1_REQUEST };
	struct h1_result r;
	h1_parse_stream(k->b, k->n, &o, &r);
	if (r.nmsgs > 0) { k->M = r.msgs[0].line_octets; k->B = r.msgs[0].body_len; k->T = r.msgs[0].trailer_line_octets; k->complete = 1; }
	else { k->complete = 0; k->M = r.tail_has_head ? r.tail_line_octets : 0; k->B = 0; }
	h1_result_free(&r);
}

static uint64_t nsegs_small(size_t L)
{
	uint64_t n = 1 + (L - 1) + 1;
	if (max_cuts >= 2 && L >= 3) n += (uint64_t)(L - 1) * (L - 2) / 2;
	return n;
}

static void add_small(const char *cls, const unsigned char *b, size_t n)
{
	struct kase probe; memset(&probe, 0, sizeof probe); probe.b = b; probe.n = n; measure(&probe);
	long M = (long)probe.M, B = (long)probe.B;
	long hls[] = { 0, 1, M - 1, M, M + 1, UNLIM }, bls[] = { 0, 1, B - 1, B, B + 1, UNLIM };
	if (full_grid) {
		/* every pair (header limit, body limit) from {0,1,2,size-2..size+2,unlimited}^2 */
		long gh[] = { 0, 1, 2, M - 2, M - 1, M, M + 1, M + 2, UNLIM }, gb[] = { 0, 1, 2, B - 2, B - 1, B, B + 1, B + 2, UNLIM };
		for (int linger = 0; linger < 2; linger++)
			for (int i = 0; i < 9; i++) for (int j = 0; j < 9; j++) {
				int dup = 0;
				if (gh[i] < UNLIM || gb[j] < UNLIM) continue;
				for (int a = 0; a < i; a++) if (gh[a] == gh[i]) dup = 1;
				for (int a = 0; a < j; a++) if (gb[a] == gb[j]) dup = 1;
				if (dup) continue;
				struct kase *k = new_case();
				k->b = b; k->n = n; k->hl = gh[i]; k->bl = gb[j]; k->linger = linger; k->big = 0;
				snprintf(k->cls, sizeof k->cls, "%s", cls);
				k->M = probe.M; k->B = probe.B; k->T = probe.T; k->complete = probe.complete;
				k->nseg = nsegs_small(n);
			}
		return;
	}
	for (int linger = 0; linger < 2; linger++) {
		for (int i = 0; i < 6; i++) for (int j = 0; j < 6; j++) {
			/* one limit varies while the other is unlimited, plus the four corners around (M, B) */
			int corner = (i == 2 || i == 3) && (j == 2 || j == 3);
			if (!(i == 5 || j == 5 || corner)) continue;
			if (hls[i] < UNLIM || bls[j] < UNLIM) continue;
			struct kase *k = new_case();
			k->b = b; k->n = n; k->hl = hls[i]; k->bl = bls[j]; k->linger = linger; k->big = 0;
			snprintf(k->cls, sizeof k->cls, "%s", cls);
			k->M = probe.M; k->B = probe.B; k->T = probe.T; k->complete = probe.complete;
			k->nseg = nsegs_small(n);
		}
	}
}

/* a small stream with an explicit list of header limits (body unlimited), all segmentations */
static void add_small_hl(const char *cls, const unsigned char *b, size_t n, const long *hls, int nh)
{
	struct kase probe; memset(&probe, 0, sizeof probe); probe.b = b; probe.n = n; measure(&probe);
	for (int linger = 0; linger < 2; linger++)
		for (int i = 0; i < nh; i++) {
			struct kase *k = new_case();
			k->b = b; k->n = n; k->hl = hls[i]; k->bl = UNLIM; k->linger = linger; k->big = 0;
			snprintf(k->cls, sizeof k->cls, "%s", cls);
			k->M = probe.M; k->B = probe.B; k->T = probe.T; k->complete = probe.complete;
			k->nseg = nsegs_small(n);
		}
}

static void add_big(const char *cls, const unsigned char *b, size_t n, int header_side)
{
	static const long lims[] = { 0, 1, 100, 4096, 20000 };
	struct kase probe; memset(&probe, 0, sizeof probe); probe.b = b; probe.n = n; measure(&probe);
	for (int linger = 0; linger < 2; linger++)
		for (int i = 0; i < 5; i++)
			for (int both = 0; both < 2; both++) {
				struct kase *k = new_case();
				k->b = b; k->n = n; k->linger = linger; k->big = 1;
				k->hl = header_side || both ? lims[i] : UNLIM;
				k->bl = !header_side || both ? lims[i] : UNLIM;
				snprintf(k->cls, sizeof k->cls, "%s", cls);
				k->M = probe.M; k->B = probe.B; k->T = probe.T; k->complete = probe.complete;
				size_t c[] = { 1, 100, 101, (size_t)lims[i], (size_t)lims[i] + 1, 4096, 16383, 16384, 16385, 32768, n / 2, n - 1 };
				for (size_t a = 0; a < sizeof c / sizeof c[0]; a++) {
					int dup = 0;
					if (c[a] == 0 || c[a] >= n) continue;
					for (int z = 0; z < k->ncuts; z++) if (k->cuts[z] == c[a]) dup = 1;
					if (!dup) k->cuts[k->ncuts++] = c[a];
				}
				k->nseg = 1 + (uint64_t)k->ncuts + (big_bytewise && !linger && !both ? 1 : 0);
			}
}

static void build(void)
{
	size_t n; unsigned char *b;
	char *x60 = rep("a", 24), *many = rep("Hd: v\r\n", 4);
	const char *cl10 = "Content-Length: 10\r\n\r\nabcdefghij";
	const char *ch10 = "Transfer-Encoding: chunked\r\n\r\n4\r\nabcd\r\n6\r\nefghij\r\n0\r\n\r\n";
	const char *ch10t = "Transfer-Encoding: chunked\r\n\r\n4\r\nabcd\r\n6\r\nefghij\r\n0\r\nTr: vvvvvv\r\n\r\n";
	const char *next = "GET /2 HTTP/1.1\r\n\r\n";
	/* small: {one long line, many short lines} x {CL, chunked, chunked+trailer, CL+Expect} */
	if (only != 2) {
	b = mk(&n, "POST /p HTTP/1.1\r\nX: %s\r\n%s%s", x60, cl10, next); add_small("long-line+cl", b, n);
	b = mk(&n, "POST /p HTTP/1.1\r\n%s%s%s", many, cl10, next); add_small("many-lines+cl", b, n);
	b = mk(&n, "POST /p HTTP/1.1\r\nX: %s\r\n%s%s", x60, ch10, next); add_small("long-line+chunked", b, n);
	b = mk(&n, "POST /p HTTP/1.1\r\n%s%s%s", many, ch10, next); add_small("many-lines+chunked", b, n);
	b = mk(&n, "POST /p HTTP/1.1\r\nX: y\r\n%s%s", ch10t, next); add_small("chunked+trailer", b, n);
	b = mk(&n, "PUT /p HTTP/1.1\r\nExpect: 100-continue\r\n%s%s", cl10, next); add_small("expect+cl", b, n);
	b = mk(&n, "GET /%s HTTP/1.1\r\nHost: a\r\n\r\n%s", x60, next); add_small("long-request-line", b, n);
	if (full_grid) {
		/* thorough only: three chunks, a pipelined POST after a Content-Length body, HTTP/1.0 */
		b = mk(&n, "POST /p HTTP/1.1\r\nX: y\r\nTransfer-Encoding: chunked\r\n\r\n3\r\nabc\r\n3\r\ndef\r\n4\r\nghij\r\n0\r\n\r\n%s", next); add_small("three-chunks", b, n);
		b = mk(&n, "POST /p HTTP/1.1\r\nX: y\r\n%sPOST /2 HTTP/1.1\r\nContent-Length: 2\r\n\r\nxy", cl10); add_small("cl+pipelined-post", b, n);
		b = mk(&n, "POST /p HTTP/1.0\r\nConnection: keep-alive\r\n%s%s", cl10, next); add_small("http10-keepalive+cl", b, n);
	}
	/* many short continuation (obs-fold) lines: every single line and the non-folded lines stay
	 * below the limit, only the folded lines together exceed it — in the header section and in
	 * the trailer section (same parser).  Limits: the size of the non-folded lines alone (N),
	 * total-1, total. */
	{
		char *folds12 = rep(" aaaa\r\n", 12), *folds16 = rep(" aaaa\r\n", 16);
		b = mk(&n, "POST /p HTTP/1.1\r\nX-Folded: s\r\n%s%s%s", folds12, cl10, next);
		{ struct kase pr; memset(&pr, 0, sizeof pr); pr.b = b; pr.n = n; measure(&pr);
		  long N = (long)pr.M - 12 * 5, hls[] = { N, (long)pr.M - 1, (long)pr.M };
		  add_small_hl("folded-header-lines+cl", b, n, hls, 3); }
		b = mk(&n, "POST /p HTTP/1.1\r\nX: y\r\nTransfer-Encoding: chunked\r\n\r\n4\r\nabcd\r\n6\r\nefghij\r\n0\r\nT: v\r\n%s\r\n%s", folds16, next);
		{ struct kase pr; memset(&pr, 0, sizeof pr); pr.b = b; pr.n = n; measure(&pr);
		  long Tn = (long)pr.T - 16 * 5, hls[] = { (long)pr.M + Tn, (long)(pr.M + pr.T) - 1, (long)(pr.M + pr.T) };
		  add_small_hl("folded-trailer-lines", b, n, hls, 3); }
	}
	}
	if (only == 1) goto done;

	/* big: never-ending lines and many lines (headers), large bodies */
	char *a20k = rep("a", 60000), *lines2k = rep("H: vv\r\n", 8000), *chunks2k = rep("6\r\nabcdef\r\n", 5000), *ones = rep("1", 60000);
	b = mk(&n, "GET /%s", a20k); add_big("endless-request-line", b, n, 1);
	b = mk(&n, "GET / HTTP/1.1\r\nX: %s", a20k); add_big("endless-header-line", b, n, 1);
	b = mk(&n, "GET / HTTP/1.1\r\n%s", lines2k); add_big("endless-header-lines", b, n, 1);
	b = mk(&n, "GET / HTTP/1.1\r\nX: y\r\n %s", a20k); add_big("endless-continuation-line", b, n, 1);
	{ char *folds8k = rep(" aaaa\r\n", 8000);
	  b = mk(&n, "GET / HTTP/1.1\r\nX: y\r\n%s\r\n%s", folds8k, next); add_big("folded-8000-header-lines", b, n, 1);
	  b = mk(&n, "POST /p HTTP/1.1\r\nTransfer-Encoding: chunked\r\n\r\n3\r\nabc\r\n0\r\nT: v\r\n%s\r\n%s", folds8k, next); add_big("folded-8000-trailer-lines", b, n, 1); }
	b = mk(&n, "POST /p HTTP/1.1\r\nContent-Length: 60000\r\n\r\n%s%s", a20k, next); add_big("cl-60000", b, n, 0);
	b = mk(&n, "POST /p HTTP/1.1\r\nContent-Length: 99999999\r\n\r\n%s", a20k); add_big("cl-huge-partial", b, n, 0);
	b = mk(&n, "POST /p HTTP/1.1\r\nTransfer-Encoding: chunked\r\n\r\nEA60\r\n%s\r\n0\r\n\r\n%s", a20k, next); add_big("chunk-60000", b, n, 0);
	b = mk(&n, "POST /p HTTP/1.1\r\nTransfer-Encoding: chunked\r\n\r\n%s0\r\n\r\n%s", chunks2k, next); add_big("chunks-5000x6", b, n, 0);
	b = mk(&n, "POST /p HTTP/1.1\r\nTransfer-Encoding: chunked\r\n\r\n%s", ones); add_big("endless-chunk-size-line", b, n, 0);
	b = mk(&n, "POST /p HTTP/1.1\r\nTransfer-Encoding: chunked\r\n\r\n3\r\nabc\r\n5 %s", a20k); add_big("endless-chunk-size-line", b, n, 0);   /* same class: size digits, then endless padding */
	b = mk(&n, "POST /p HTTP/1.1\r\nTransfer-Encoding: chunked\r\n\r\n3\r\nabc\r\n0\r\nT: %s", a20k); add_big("endless-trailer-line", b, n, 1);
	b = mk(&n, "POST /p HTTP/1.1\r\nTransfer-Encoding: chunked\r\n\r\n3\r\nabc\r\n0\r\n%s", lines2k); add_big("endless-trailer-lines", b, n, 1);

done:;
	uint64_t t = 0;
	for (int i = 0; i < nk; i++) { K[i].first = t; t += K[i].nseg; }
}

/* ------------------------------------------------------------------ */

struct lim { long hl, bl; int linger; };
static void cfg_server(struct srv *s, void *arg)
{
	struct lim *l = arg;
	evhttp_set_gencb(s->http, srv_handler, (void *)(intptr_t)1);
	evhttp_set_max_headers_size(s->http, (ev_ssize_t)l->hl);
	evhttp_set_max_body_size(s->http, (ev_ssize_t)l->bl);
	if (l->linger && evhttp_set_flags(s->http, EVHTTP_SERVER_LINGERING_CLOSE) != 0) mc_fail("harness:set_flags", "lingering close flag refused");
}

static void failk(const char *oracle, const struct kase *k, const char *fmt, ...)
{
	char key[160], msg[900]; va_list ap;
	snprintf(key, sizeof key, "C25/%s/%s", oracle, k->cls);
	int o = snprintf(msg, sizeof msg, "[%s hdr-limit=%ld body-limit=%ld lingering=%d; first message: header size %zu, body %zu] ", k->cls, k->hl, k->bl, k->linger, k->M, k->B);
	va_start(ap, fmt); vsnprintf(msg + o, sizeof msg - (size_t)o, fmt, ap); va_end(ap);
	mc_fail(key, "%s", msg);
}

static void item(uint64_t it)
{
	int lo = 0, hi = nk - 1;
	while (lo < hi) { int mid = (lo + hi + 1) / 2; if (K[mid].first <= it) lo = mid; else hi = mid - 1; }
	const struct kase *k = &K[lo];
	uint64_t seg = it - k->first;
	size_t cuts[2]; int nc = 0, bytewise = 0;
	size_t L = k->n;
	if (!k->big) {
		if (seg == 0) nc = 0;
		else if (seg <= L - 1) { cuts[0] = (size_t)seg; nc = 1; }
		else if (seg == k->nseg - 1) bytewise = 1;
		else {
			uint64_t p = seg - L; size_t k1 = 1;
			while (p >= (uint64_t)(L - 1 - k1)) { p -= (uint64_t)(L - 1 - k1); k1++; }
			cuts[0] = k1; cuts[1] = k1 + 1 + (size_t)p; nc = 2;
		}
	} else {
		if (seg == 0) nc = 0;
		else if (seg <= (uint64_t)k->ncuts) { cuts[0] = k->cuts[seg - 1]; nc = 1; }
		else bytewise = 1;
	}
	struct srv s; struct lim l = { k->hl, k->bl, k->linger };
	if (srv_open(&s, cfg_server, &l) < 0) return;
	if (bytewise) srv_send_bytewise(&s, k->b, L); else srv_send_segmented(&s, k->b, L, cuts, nc);
	srv_pump(&s);
	srv_parse_responses(&s);

	/* over the header limit: the header section, or (leniently: on its own) the trailer section */
	int over_h = k->hl != UNLIM && ((long)k->M > k->hl || (long)k->T > k->hl);
	int over_b = k->bl != UNLIM && (long)k->B > k->bl;
	if (!k->big || seg == 0)
		mc_observe("%s hl=%ld bl=%ld linger=%d M=%zu B=%zu seg=%llu -> delivered=%d final=%d closed=%d max_in(head=%zu body=%zu)", k->cls, k->hl, k->bl, k->linger,
		    k->M, k->B, (unsigned long long)seg, s.nreq, s.nfinal ? s.final[0] : 0, s.eof, s.max_in_head, s.max_in_body);
	mc_nontrivial(mc_hash_u64(mc_hash_u64(mc_hash_u64(mc_hash(0, k->cls, strlen(k->cls)), (uint64_t)k->hl), (uint64_t)k->bl),
	    (uint64_t)s.nreq * 1000 + (uint64_t)(s.nfinal ? s.final[0] : 0) + (uint64_t)s.eof * 7 + (uint64_t)k->linger * 13));

	/* ---- delivered: nothing over a limit reaches the callback ---- */
	struct h1_opts o = { .kind = H1_REQUEST };
	struct h1_result ref;
	h1_parse_stream(k->b, k->n, &o, &ref);
	for (int i = 0; i < s.nreq; i++) {
		MC_COUNT("delivered_checked");
		if (k->bl != UNLIM && (long)s.req[i].body_len > k->bl)
			failk("delivered-over-body-limit", k, "request %d delivered with a %zu-byte body", i, s.req[i].body_len);
		/* the message's real body (what the stream carries) counts, not what the server kept of it:
		 * an over-limit message handed over with a truncated body is still an over-limit message */
		else if (i < ref.nmsgs && k->bl != UNLIM && (long)ref.msgs[i].body_len > k->bl)
			failk("delivered-over-body-limit", k, "request %d delivered with %zu body bytes although the message's body is %zu bytes", i, s.req[i].body_len, ref.msgs[i].body_len);
		if (i < ref.nmsgs && k->hl != UNLIM && (long)ref.msgs[i].line_octets > k->hl)
			failk("delivered-over-header-limit", k, "request %d delivered; its request line + header lines measure %zu bytes", i, ref.msgs[i].line_octets);
		if (i < ref.nmsgs && k->hl != UNLIM && (long)ref.msgs[i].trailer_line_octets > k->hl)
			failk("delivered-over-header-limit-in-trailers", k, "request %d delivered; its trailer lines alone measure %zu bytes", i, ref.msgs[i].trailer_line_octets);
		if (i >= ref.nmsgs) failk("delivered-unknown-message", k, "request %d delivered but the stream holds only %d complete messages", i, ref.nmsgs);
	}
	if (k->complete && !over_h && !over_b) { if (s.nreq > 0) MC_COUNT("within_limits_delivered"); else MC_COUNT("within_limits_not_delivered"); }

	/* ---- answered: a complete over-limit message gets 413/400 or a close ---- */
	if (k->complete && (over_h || over_b)) {
		if (over_h) MC_COUNT("over_header_limit_cases"); else MC_COUNT("over_body_limit_cases");
		int st = s.nfinal ? s.final[0] : 0;
		if (s.nreq == 0) {
			if (st == 413) MC_COUNT("answered_413");
			else if (st == 400) MC_COUNT("answered_400");
			else if (st == 0 && s.eof) MC_COUNT("answered_close");
			else if (st == 0) failk("over-limit-left-pending", k, "the complete message exceeds a limit but was neither answered nor was the connection closed");
			else failk("over-limit-wrong-status", k, "answered with status %d", st);
		}
	}
	/* an incomplete big stream that already exceeds the header limit must have been decided too */
	if (k->big && !k->complete && k->hl != UNLIM && s.max_in_head > 0) MC_COUNT("endless_header_cases");

	/* ---- buffered: input buffer <= limit + one read quantum ---- */
	if (k->hl != UNLIM) {
		MC_COUNT("buffer_bound_header_phase_checked");
		if (s.max_in_head > (size_t)k->hl + QUANTUM)
			failk("input-buffer-exceeds-header-limit", k, "input buffer held %zu bytes while reading the request line / header / trailer section (limit %ld + quantum %d)", s.max_in_head, k->hl, QUANTUM);
	}
	if (k->bl != UNLIM) {
		MC_COUNT("buffer_bound_body_phase_checked");
		if (s.max_in_body > (size_t)k->bl + QUANTUM)
			failk("input-buffer-exceeds-body-limit", k, "input buffer held %zu bytes while reading the body (limit %ld + quantum %d)", s.max_in_body, k->bl, QUANTUM);
	}
	if (s.max_in_any > QUANTUM) MC_COUNT("executions_buffering_more_than_a_quantum");
	h1_result_free(&ref);

	srv_half_close(&s);
	srv_free_reqs(&s);
	srv_close(&s, "C25", k->cls);
}

static void init(void) { srv_global_init(); }

int main(int argc, char **argv)
{
	for (int i = 1; i + 1 < argc; i++)
		if (!strcmp(argv[i], "-P")) {
			if (!strncmp(argv[i + 1], "cuts=", 5)) max_cuts = atoi(argv[i + 1] + 5);
			if (!strcmp(argv[i + 1], "bigbytewise=1")) big_bytewise = 1;
			if (!strcmp(argv[i + 1], "grid=full")) full_grid = 1;
			if (!strcmp(argv[i + 1], "only=small")) only = 1;
			if (!strcmp(argv[i + 1], "only=big")) only = 2;
		}
	build();
	struct mc_config cfg = { .property = "C25", .init = init, .n_items = nk ? K[nk - 1].first + K[nk - 1].nseg : 0, .item = item };
	return mc_main(argc, argv, &cfg);
}
