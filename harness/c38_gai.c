/* C38 — evdns_getaddrinfo returns exactly what the sources provide.
 *
 * Two families of executions (first choice):
 *  (1) "immediate" inputs: node in {NULL, numeric v4, numeric v6, hosts-file names
 *      (also in another case), v4/v6 literal under the other family hint} x service in
 *      {NULL, "80", "http", unknown} x hints {NULL | family x socktype/protocol x flag
 *      subsets of CANONNAME, NUMERICHOST, PASSIVE, NUMERICSERV}.  Reference: the
 *      documented rule (include/event2/dns.h, getaddrinfo(3)); no query may be sent.
 *  (2) a DNS name: hints x scripted answers of the A and the AAAA query (one or two
 *      addresses, CNAME, NODATA, NXDOMAIN, no answer) x arrival order / delay x TTLs,
 *      then a second request for the same name after the virtual clock advanced to an
 *      age below / between / above the TTLs, with its own family / CANONNAME / port.
 *      The nameserver answers the second round with different addresses, so a result
 *      served from the cache is distinguishable from a fresh resolution.
 * Everything is a free choice (cost 0): --bound 0 enumerates the whole space.
 * Readings of the documentation: notes/dnse2e.md. */
#include "mcx.h"
#include "vclock.h"
#include "dnsmini.h"
#include "dnse2e_env.h"
#include <event2/event.h>
#include <event2/dns.h>
#include <event2/util.h>
#include <stdio.h>
#include <stdlib.h>
#include <string.h>
#include <unistd.h>
#include <fcntl.h>
#include <netdb.h>
#include <sys/mman.h>
#include <sys/socket.h>
#include <netinet/in.h>
#include <arpa/inet.h>

static struct event_base *evbase;
static struct evdns_base *dbase;
static char hosts_path[64];
static long live0; static uint64_t fd0;
static int idle_flag;

static const char HOSTS_TEXT[] =
	"# test hosts file\n"
	"10.9.9.1 hosty\n"
	"fd00::99 hosty alias6\n"
	"10.9.9.2\thosty4   # v4 only\n";

static void logcb(int sev, const char *msg) { (void)sev; (void)msg; }
static void idle_hook(void) { idle_flag = 1; if (evbase) event_base_loopbreak(evbase); }

/* ------------------------------------------------------------------ reference expectation */
struct xaddr { int fam; uint8_t a[16]; };
struct expect {
	int error;                 /* 1: any non-zero result with a NULL list */
	int may_fail;              /* an error is acceptable as well (documentation / platform disagree) */
	int n; struct xaddr addr[8];
	int port;
	const char *canon;         /* CANONNAME requested and the sources carry this canonical name */
	const char *node;          /* the node as given (for the no-CNAME tolerance) */
	int named_service;         /* a service name: only the protocols that know the name need to be listed */
};
static void x_add4(struct expect *e, const char *txt) { struct xaddr *x = &e->addr[e->n++]; memset(x, 0, sizeof *x); x->fam = AF_INET; inet_pton(AF_INET, txt, x->a); }
static void x_add6(struct expect *e, const char *txt) { struct xaddr *x = &e->addr[e->n++]; memset(x, 0, sizeof *x); x->fam = AF_INET6; inet_pton(AF_INET6, txt, x->a); }

struct gai_result { int called, result; struct evutil_addrinfo *res; };
static void gai_cb(int result, struct evutil_addrinfo *res, void *arg)
{
	struct gai_result *g = arg;
	g->called++; g->result = result; g->res = res;
}

static const char *famname(int f) { return f == PF_INET ? "inet" : f == PF_INET6 ? "inet6" : f == PF_UNSPEC ? "unspec" : "other"; }

/* compare a callback result with the expectation; `what` selects the failure key */
#define CTX_ORIG_ANYSOCK 1    /* cache: the request that filled the cache left the socket type open */
#define CTX_CANON_REQ 2       /* cache: this request asks for AI_CANONNAME */
static int check_ctx;
static void check_result(const char *what, const struct evutil_addrinfo *hints, struct gai_result *g, const struct expect *e)
{
	char key[128];
	int hs = hints ? hints->ai_socktype : 0, hp = hints ? hints->ai_protocol : 0;
	int want_canon = hints && (hints->ai_flags & EVUTIL_AI_CANONNAME);
	MC_COUNT("oracle_result_compared");
	if (g->called != 1) { snprintf(key, sizeof key, "C38/%s/callback-count", what); mc_fail(key, "callback ran %d times", g->called); return; }
	if (e->error) {
		if (g->result == 0 || g->res) { snprintf(key, sizeof key, "C38/%s/error-expected", what); mc_fail(key, "result %d list %s", g->result, g->res ? "non-NULL" : "NULL"); }
		return;
	}
	if (e->may_fail && g->result != 0 && !g->res) return;
	if (g->result != 0 || !g->res) { snprintf(key, sizeof key, "C38/%s/unexpected-error%s", what, (check_ctx & CTX_CANON_REQ) ? "/canonname-request" : ""); mc_fail(key, "result %d (%s), %d address(es) expected", g->result, evutil_gai_strerror(g->result), e->n); return; }
	/* imply socktype <-> protocol */
	if (hs == SOCK_STREAM && !hp) hp = IPPROTO_TCP;
	if (hs == SOCK_DGRAM && !hp) hp = IPPROTO_UDP;
	if (hp == IPPROTO_TCP && !hs) hs = SOCK_STREAM;
	if (hp == IPPROTO_UDP && !hs) hs = SOCK_DGRAM;
	int seen_stream[8] = {0}, seen_dgram[8] = {0}, first = 1;
	for (const struct evutil_addrinfo *ai = g->res; ai; ai = ai->ai_next, first = 0) {
		const uint8_t *ap; int port, k;
		if (!ai->ai_addr) { snprintf(key, sizeof key, "C38/%s/entry-without-address", what); mc_fail(key, "x"); continue; }
		if (ai->ai_family == AF_INET && ai->ai_addr->sa_family == AF_INET && ai->ai_addrlen == sizeof(struct sockaddr_in)) {
			const struct sockaddr_in *sin = (const struct sockaddr_in *)ai->ai_addr; ap = (const uint8_t *)&sin->sin_addr; port = ntohs(sin->sin_port);
		} else if (ai->ai_family == AF_INET6 && ai->ai_addr->sa_family == AF_INET6 && ai->ai_addrlen == sizeof(struct sockaddr_in6)) {
			const struct sockaddr_in6 *sin6 = (const struct sockaddr_in6 *)ai->ai_addr; ap = (const uint8_t *)&sin6->sin6_addr; port = ntohs(sin6->sin6_port);
		} else { snprintf(key, sizeof key, "C38/%s/entry-family", what); mc_fail(key, "ai_family %d sa_family %d addrlen %d", ai->ai_family, ai->ai_addr->sa_family, (int)ai->ai_addrlen); continue; }
		for (k = 0; k < e->n; k++)
			if (e->addr[k].fam == ai->ai_family && !memcmp(e->addr[k].a, ap, ai->ai_family == AF_INET ? 4 : 16)) break;
		if (k == e->n) {
			char t[64]; inet_ntop(ai->ai_family, ap, t, sizeof t);
			snprintf(key, sizeof key, "C38/%s/unexpected-address", what); mc_fail(key, "%s is not provided by the sources", t); continue;
		}
		if (port != e->port) {
			/* (0,0) hints produce a TCP and a UDP entry per address: is only the second one wrong? */
			snprintf(key, sizeof key, "C38/%s/port%s", what, (!hs && !hp && ai->ai_socktype == SOCK_DGRAM) ? "/udp-twin-entry" : "");
			mc_fail(key, "port %d, expected %d (entry socktype %d)", port, e->port, ai->ai_socktype);
		}
		/* socket type / protocol */
		if (hs || hp) {
			if (ai->ai_socktype != hs || ai->ai_protocol != hp) { snprintf(key, sizeof key, "C38/%s/socktype-protocol", what); mc_fail(key, "entry (%d,%d), hints imply (%d,%d)", ai->ai_socktype, ai->ai_protocol, hs, hp); }
			if (seen_stream[k]++) { snprintf(key, sizeof key, "C38/%s/duplicate-entry%s", what, (check_ctx & CTX_ORIG_ANYSOCK) ? "/orig-any-socktype" : ""); mc_fail(key, "address #%d listed twice", k); }
		} else {
			if (ai->ai_socktype == SOCK_STREAM && ai->ai_protocol == IPPROTO_TCP) { if (seen_stream[k]++) { snprintf(key, sizeof key, "C38/%s/duplicate-entry%s", what, (check_ctx & CTX_ORIG_ANYSOCK) ? "/orig-any-socktype" : ""); mc_fail(key, "address #%d stream twice", k); } }
			else if (ai->ai_socktype == SOCK_DGRAM && ai->ai_protocol == IPPROTO_UDP) { if (seen_dgram[k]++) { snprintf(key, sizeof key, "C38/%s/duplicate-entry%s", what, (check_ctx & CTX_ORIG_ANYSOCK) ? "/orig-any-socktype" : ""); mc_fail(key, "address #%d dgram twice", k); } }
			else if (ai->ai_socktype == SOCK_RAW) { /* the platform getaddrinfo lists raw sockets too when nothing was asked for */ }
			else { snprintf(key, sizeof key, "C38/%s/socktype-protocol", what); mc_fail(key, "entry (%d,%d) for unconstrained hints", ai->ai_socktype, ai->ai_protocol); }
		}
		/* canonical name */
		if (!want_canon) {
			if (ai->ai_canonname) { snprintf(key, sizeof key, "C38/%s/canonname-not-requested", what); mc_fail(key, "ai_canonname=%s", ai->ai_canonname); }
		} else if (first) {
			if (e->canon) {
				if (!ai->ai_canonname || strcasecmp(ai->ai_canonname, e->canon)) { snprintf(key, sizeof key, "C38/%s/canonname", what); mc_fail(key, "ai_canonname=%s, the answers name %s", ai->ai_canonname ? ai->ai_canonname : "(null)", e->canon); }
				MC_COUNT("oracle_canonname_compared");
			} else if (ai->ai_canonname && e->node && strcasecmp(ai->ai_canonname, e->node)) {
				/* no CNAME in the sources: NULL or the node itself are both accepted (documentation silent) */
				snprintf(key, sizeof key, "C38/%s/canonname", what); mc_fail(key, "ai_canonname=%s but the sources carry no alias for %s", ai->ai_canonname, e->node);
			}
		}
	}
	for (int k = 0; k < e->n; k++) {
		/* every provided address must be listed (duplicates were reported above) */
		int ok = (hs || hp) ? seen_stream[k] >= 1 : e->named_service ? (seen_stream[k] + seen_dgram[k] >= 1) : (seen_stream[k] >= 1 && seen_dgram[k] >= 1);
		if (!ok) {
			char t[64]; inet_ntop(e->addr[k].fam, e->addr[k].a, t, sizeof t);
			snprintf(key, sizeof key, "C38/%s/missing-address%s", what, (check_ctx & CTX_CANON_REQ) ? "/canonname-request" : "");
			mc_fail(key, "%s provided by the sources is missing (stream %d dgram %d)", t, seen_stream[k], seen_dgram[k]);
		}
	}
}

/* ------------------------------------------------------------------ hint alphabets */
static const int fams[] = { PF_UNSPEC, PF_INET, PF_INET6 };
static const struct { int st, pr; } stpr[] = { {0, 0}, {SOCK_STREAM, 0}, {SOCK_DGRAM, 0}, {0, IPPROTO_TCP}, {0, IPPROTO_UDP}, {SOCK_STREAM, IPPROTO_TCP}, {SOCK_DGRAM, IPPROTO_UDP} };
static const int flagbits[] = { EVUTIL_AI_CANONNAME, EVUTIL_AI_NUMERICHOST, EVUTIL_AI_PASSIVE, EVUTIL_AI_NUMERICSERV };
static const char *const flagname[] = { "CANON", "NUMHOST", "PASSIVE", "NUMSERV" };

static const char *const services[] = { NULL, "80", "http", "nosuchsvc" };

static int last_ready;
static void postwait(int nready) { last_ready = nready; }
/* zero-timeout passes until two in a row found nothing ready */
static void pump(void)
{
	for (int i = 0, quiet = 0; i < 64 && quiet < 2; i++) {
		dnse_settle();
		last_ready = 0;
		event_base_loop(evbase, EVLOOP_NONBLOCK);
		quiet = last_ready > 0 ? 0 : quiet + 1;
	}
}

/* port for a service under the (implied) protocol, -1 = the service is unknown */
static int ref_port(const char *serv, const struct evutil_addrinfo *h)
{
	if (!serv) return 0;
	char *end; long v = strtol(serv, &end, 10);
	if (*serv && !*end && v >= 0 && v <= 65535) return (int)v;
	if (h && (h->ai_flags & EVUTIL_AI_NUMERICSERV)) return -1;
	int pr = h ? h->ai_protocol : 0, st = h ? h->ai_socktype : 0;
	if (!pr && st == SOCK_STREAM) pr = IPPROTO_TCP;
	if (!pr && st == SOCK_DGRAM) pr = IPPROTO_UDP;
	struct servent *se = getservbyname(serv, pr == IPPROTO_TCP ? "tcp" : pr == IPPROTO_UDP ? "udp" : NULL);
	return se ? ntohs(se->s_port) : -1;
}

static void world_begin(void)
{
	vclock_reset(); vclock_idle_hook = idle_hook; vclock_block_hook = NULL; vclock_postwait_hook = postwait; dnse_udp_send_hook = NULL;
	dnse_ns_begin(); dnse_rng_reset(0);
	live0 = dnse_alloc_live();
	evbase = event_base_new();
	dbase = evdns_base_new(evbase, 0);
	if (!evbase || !dbase) { mc_fail("harness:setup", "base"); return; }
	struct sockaddr_in sin; dnse_ns_sockaddr(0, &sin);
	evdns_base_nameserver_sockaddr_add(dbase, (struct sockaddr *)&sin, sizeof sin, 0);
	if (evdns_base_load_hosts(dbase, hosts_path) != 0) mc_fail("harness:setup", "hosts file");
}

static void world_end(void)
{
	evdns_base_free(dbase, 1); dbase = NULL;
	for (int i = 0; i < 4; i++) event_base_loop(evbase, EVLOOP_NONBLOCK);
	event_base_free(evbase); evbase = NULL;
	dnse_ns_end();
	if (dnse_alloc_live() != live0) mc_fail("C38/leak", "%ld allocation(s) still live", dnse_alloc_live() - live0);
	if (mcx_fd_signature() != fd0) mc_fail("C38/fd-leak", "fd table differs from the baseline");
	if (dnse_spins) { MC_COUNTN("net_waits", (uint64_t)dnse_spins); dnse_spins = 0; }
}

/* ------------------------------------------------------------------ (1) immediate inputs */
enum { N_NULL, N_V4, N_V6, N_HOSTS, N_HOSTS_UPPER, N_HOSTS4, N_ALIAS6, N_COUNT };
static const char *const nodes[] = { NULL, "1.2.3.4", "2001:db8::5", "hosty", "HOSTY", "hosty4", "alias6" };

static void immediate_case(void)
{
	int ni = mc_choose(N_COUNT, 0, "node");
	int si = mc_choose(4, 0, "service");
	int nullhints = mc_choose(2, 0, "hints-null");
	struct evutil_addrinfo h, *hp = NULL;
	memset(&h, 0, sizeof h);
	if (!nullhints) {
		h.ai_family = fams[mc_choose(3, 0, "family")];
		int sp = mc_choose((int)(sizeof stpr / sizeof stpr[0]), 0, "socktype-protocol");
		h.ai_socktype = stpr[sp].st; h.ai_protocol = stpr[sp].pr;
		int fl = mc_choose(16, 0, "flags");
		for (int b = 0; b < 4; b++) if (fl & (1 << b)) h.ai_flags |= flagbits[b];
		hp = &h;
	}
	const char *node = nodes[ni], *serv = services[si];
	int fam = h.ai_family, flags = h.ai_flags;
	mc_observe("imm node=%s serv=%s ", node ? node : "NULL", serv ? serv : "NULL");
	if (hp) { mc_observe("fam=%s st=%d pr=%d flags=", famname(fam), h.ai_socktype, h.ai_protocol); for (int b = 0; b < 4; b++) if (flags & flagbits[b]) mc_observe("%s,", flagname[b]); mc_observe(" "); }
	else mc_observe("hints=NULL ");

	/* ---- reference ---- */
	struct expect e; memset(&e, 0, sizeof e); e.node = node;
	int port = ref_port(serv, hp);
	int skip = 0;
	if (!node && !serv) e.error = 1;
	else if (port < 0) e.error = 1;
	else {
		e.port = port;
		e.named_service = serv && (serv[0] < '0' || serv[0] > '9');
		switch (ni) {
		case N_NULL:
			/* getaddrinfo(3): AI_CANONNAME with a NULL node is EAI_BADFLAGS; libevent's own path answers */
			if (flags & EVUTIL_AI_CANONNAME) e.may_fail = 1;
			if (flags & EVUTIL_AI_PASSIVE) { if (fam != PF_INET6) x_add4(&e, "0.0.0.0"); if (fam != PF_INET) x_add6(&e, "::"); }
			else { if (fam != PF_INET6) x_add4(&e, "127.0.0.1"); if (fam != PF_INET) x_add6(&e, "::1"); }
			break;
		case N_V4: if (fam == PF_INET6) skip = 1; else x_add4(&e, "1.2.3.4"); break;
		case N_V6: if (fam == PF_INET) skip = 1; else x_add6(&e, "2001:db8::5"); break;
		case N_HOSTS: case N_HOSTS_UPPER:
			if (flags & EVUTIL_AI_NUMERICHOST) { e.error = 1; break; }
			if (fam != PF_INET6) x_add4(&e, "10.9.9.1");
			if (fam != PF_INET) x_add6(&e, "fd00::99");
			break;
		case N_HOSTS4:
			if (flags & EVUTIL_AI_NUMERICHOST) { e.error = 1; break; }
			if (fam == PF_INET6) e.error = 1; else x_add4(&e, "10.9.9.2");
			break;
		case N_ALIAS6:
			if (flags & EVUTIL_AI_NUMERICHOST) { e.error = 1; break; }
			if (fam == PF_INET) e.error = 1; else x_add6(&e, "fd00::99");
			break;
		}
	}
	/* ---- implementation ---- */
	world_begin();
	if (!dbase) return;
	struct gai_result g = {0, 0, NULL};
	long sent0 = dnse_udp_sent_total(), str0 = dnse_stream_sockets;
	struct evdns_getaddrinfo_request *rq = evdns_getaddrinfo(dbase, node, serv, hp, gai_cb, &g);
	pump();
	int queried = dnse_udp_sent_total() != sent0 || dnse_stream_sockets != str0;
	if (skip) {
		/* a literal of the other family than the hints ask for: see notes (reported under its own key) */
		MC_COUNT("numeric_under_other_family");
		if (queried || rq) mc_fail(ni == N_V4 ? "C38/immediate/query-for-numeric-host/v4-literal-under-inet6-hint" : "C38/immediate/query-for-numeric-host/v6-literal-under-inet-hint",
		    "evdns_getaddrinfo(\"%s\", family %s) started a DNS resolution for a numeric host", node, famname(fam));
		else if (g.called == 1 && g.result == 0) mc_fail("C38/immediate/numeric-other-family-succeeds", "%s under %s returned addresses", node, famname(fam));
		if (rq) { evdns_getaddrinfo_cancel(rq); pump(); }
	} else {
		if (queried) mc_fail(ni == N_HOSTS || ni == N_HOSTS_UPPER || ni == N_HOSTS4 || ni == N_ALIAS6 ? "C38/immediate/query-despite-hosts-entry" : "C38/immediate/query-for-numeric-or-null-node",
		    "a DNS query was sent for node %s", node ? node : "NULL");
		if (rq) { mc_fail("C38/immediate/not-immediate", "evdns_getaddrinfo returned a pending request for node %s", node ? node : "NULL"); evdns_getaddrinfo_cancel(rq); pump(); }
		MC_COUNT("oracle_no_query");
		static const char *const nclass[] = { "immediate/null-node", "immediate/numeric", "immediate/numeric", "immediate/hosts", "immediate/hosts", "immediate/hosts", "immediate/hosts" };
		char what[64];
		snprintf(what, sizeof what, "%s%s", nclass[ni], (flags & EVUTIL_AI_NUMERICHOST) ? "-numerichost" : "");
		check_result(what, hp, &g, &e);
	}
	mc_observe("-> %d n=%d", g.result, g.called);
	if (g.res) evutil_freeaddrinfo(g.res);
	struct dnse_msg drain[8]; dnse_ns_collect(drain, 8);
	world_end();
}

/* ------------------------------------------------------------------ (2) DNS name, answers, cache */
enum { SC_ONE, SC_TWO, SC_NODATA, SC_NX, SC_DROP, SC_N };
static const char *const sc_name[] = { "1addr", "2addr", "nodata", "nxdomain", "noanswer" };
#define DNAME "d.test"
#define CANON "canon.d.test"

static void side_addrs(struct expect *e, int fam, int script, int phase)
{
	char t[64];
	int n = script == SC_ONE ? 1 : script == SC_TWO ? 2 : 0;
	for (int i = 1; i <= n; i++) {
		if (fam == AF_INET) { snprintf(t, sizeof t, "10.%d.0.%d", phase, i); x_add4(e, t); }
		else { snprintf(t, sizeof t, "fd00:%d::%d", phase, i); x_add6(e, t); }
	}
}

static void ns_reply(const struct dnse_msg *m, int script, int phase, int cname, uint32_t ttl, uint32_t cname_ttl)
{
	uint8_t buf[700]; struct dm_msg d; int len;
	struct expect tmp; memset(&tmp, 0, sizeof tmp);
	int fam = m->q.qtype == DM_T_A ? AF_INET : AF_INET6;
	if (script == SC_DROP) return;
	dm_begin(&d, buf, sizeof buf, m->q.id, (uint16_t)(DM_F_QR | DM_F_RD | DM_F_RA | (script == SC_NX ? DM_RC_NXDOMAIN : 0)), m->q.qname, m->q.qtype);
	const char *owner = m->q.qname;
	if (cname && script != SC_NX) { dm_rr_name(&d, 1, m->q.qname, DM_T_CNAME, cname_ttl, CANON); owner = CANON; }
	side_addrs(&tmp, fam, script, phase);
	for (int i = 0; i < tmp.n; i++) {
		if (fam == AF_INET) dm_rr_a(&d, 1, owner, ttl, tmp.addr[i].a); else dm_rr_aaaa(&d, 1, owner, ttl, tmp.addr[i].a);
	}
	/* negative answers carry an SOA with its own, long, TTL: it must never become the lifetime of a cached positive answer */
	if (!tmp.n) dm_rr_soa(&d, 2, "test", 300, 300);
	len = dm_finish(&d);
	dnse_reply_udp(m, buf, len);
	dnse_wait_readable(evdns_base_get_nameserver_fd(dbase, 0));   /* delivery is normally synchronous; never depend on it */
}

static int find_query(struct dnse_msg *m, int n, int qtype)
{
	for (int i = 0; i < n; i++) if (m[i].decoded && m[i].q.qtype == qtype && dm_name_eq(m[i].q.qname, DNAME)) return i;
	return -1;
}

static void stop_cb(evutil_socket_t fd, short what, void *arg) { (void)fd; (void)what; (void)arg; event_base_loopbreak(evbase); }
/* run the loop until `ms` virtual milliseconds have passed; libevent's own timers fire in order on the way */
static void advance_ms(int ms)
{
	if (ms > 0) {
		struct timeval tv = { ms / 1000, (ms % 1000) * 1000 };
		struct event *ev = evtimer_new(evbase, stop_cb, NULL);
		evtimer_add(ev, &tv);
		event_base_loop(evbase, 0);
		event_free(ev);
	}
	pump();
}

/* what the reference knows about the cache entry for DNAME */
struct cmodel {
	int valid;                      /* a successful resolution has been stored */
	struct expect e;                /* its addresses */
	uint32_t ttl_a, ttl_6, ttl_c;
	int a_contrib, b_contrib, have_cname, orig_anysock, order;
	int64_t t_cached;               /* virtual time of the callback that stored it */
};

/* One more request for DNAME after a wait.  A result without any new query is a cache hit: it must be
 * legal (every contributing record within its TTL) and equal the stored answer restricted to the family.
 * Otherwise the nameserver answers with the addresses of this round, which become the new entry. */
static void later_round(int round, struct cmodel *m, int64_t *t_ref, int cname)
{
	static const int waits2[] = { 5, 50, 150, 20, 80 }, waits3[] = { 7, 100 };
	static const char *const svcs[] = { "81", NULL, "0" };
	struct dnse_msg msgs[8]; int n;
	char what[32];
	int wait = round == 2 ? waits2[mc_choose(mc_param("ages", 3), 0, "age")] : waits3[mc_choose(2, 0, "age3")];
	struct evutil_addrinfo h2; memset(&h2, 0, sizeof h2);
	h2.ai_family = fams[mc_choose(3, 0, "family2")];
	int canon2 = 0;
	const char *svc;
	if (round == 2) {
		h2.ai_socktype = mc_choose(mc_param("stpr2", 2), 0, "socktype2") ? 0 : SOCK_STREAM;
		canon2 = mc_choose(2, 0, "canonname2");
		/* service: "81", NULL or "0" (port 0: a hit must not keep the cached port).  Quick: derived from the other
		 * choices so that both values meet every family / socktype / CANONNAME value; -P svc2=2|3: free choice */
		int nsvc = mc_param("svc2", 1);
		int fam2i = h2.ai_family == PF_UNSPEC ? 0 : h2.ai_family == PF_INET ? 1 : 2;
		svc = svcs[nsvc > 1 ? mc_choose(nsvc > 3 ? 3 : nsvc, 0, "service2") : ((fam2i + canon2 + (h2.ai_socktype ? 1 : 0) + wait / 50) & 1)];
	} else { h2.ai_socktype = SOCK_STREAM; svc = "82"; }
	if (canon2) h2.ai_flags |= EVUTIL_AI_CANONNAME;
	int port = svc ? atoi(svc) : 0;
	/* drain retransmissions of the earlier round, then let the time pass */
	dnse_ns_collect(msgs, 8);
	advance_ms(wait * 1000 - (int)((vclock_us - *t_ref) / 1000));
	dnse_ns_collect(msgs, 8);
	int age = m->valid ? (int)((vclock_us - m->t_cached) / 1000000) : -1;
	mc_observe("| +%ds age=%d fam=%s st=%d canon=%d svc=%s ", wait, age, famname(h2.ai_family), h2.ai_socktype, canon2, svc ? svc : "NULL");
	struct gai_result g2 = {0, 0, NULL};
	long sent0 = dnse_udp_sent_total();
	evdns_getaddrinfo(dbase, DNAME, svc, &h2, gai_cb, &g2);
	pump();
	n = dnse_ns_collect(msgs, 8);
	int hit = g2.called && dnse_udp_sent_total() == sent0;
	struct expect e2; memset(&e2, 0, sizeof e2); e2.port = port; e2.node = DNAME;
	if (hit) {
		MC_COUNT("cache_hits");
		mc_observe("HIT ");
		*t_ref = vclock_us;
		if (!m->valid) mc_fail("C38/cache/hit-without-original", "no successful resolution is stored, yet the request was answered without a query");
		else {
			/* every contributing record must still be within its TTL */
			int a_exp = m->a_contrib && (uint32_t)age >= m->ttl_a, b_exp = m->b_contrib && (uint32_t)age >= m->ttl_6;
			if (a_exp) mc_fail(m->b_contrib ? "C38/cache/hit-past-ttl/A-records-merged-with-AAAA" : "C38/cache/hit-past-ttl/A-records", "cache hit at age %d s, the A records had TTL %u (AAAA %u, arrival order %d)", age, m->ttl_a, m->ttl_6, m->order);
			if (b_exp) mc_fail(m->a_contrib ? "C38/cache/hit-past-ttl/AAAA-records-merged-with-A" : "C38/cache/hit-past-ttl/AAAA-records", "cache hit at age %d s, the AAAA records had TTL %u (A %u, arrival order %d)", age, m->ttl_6, m->ttl_a, m->order);
			if (!a_exp && !b_exp && m->have_cname && (uint32_t)age >= m->ttl_c) mc_fail("C38/cache/hit-past-ttl/CNAME-record", "cache hit at age %d s, the CNAME had TTL %u (A %u, AAAA %u)", age, m->ttl_c, m->ttl_a, m->ttl_6);
			MC_COUNT("oracle_cache_ttl");
			/* content: the stored answers restricted to the requested family */
			for (int k = 0; k < m->e.n; k++)
				if (h2.ai_family == PF_UNSPEC || m->e.addr[k].fam == (h2.ai_family == PF_INET ? AF_INET : AF_INET6)) e2.addr[e2.n++] = m->e.addr[k];
			if (!e2.n) e2.error = 1;
			if (canon2) {
				if (!m->have_cname) mc_fail("C38/cache/hit-without-cname", "AI_CANONNAME request served from a cached answer that carries no CNAME (documented: not a hit)");
				e2.canon = CANON;
			}
			check_ctx = (m->orig_anysock ? CTX_ORIG_ANYSOCK : 0) | (canon2 ? CTX_CANON_REQ : 0);
			check_result("cache", &h2, &g2, &e2);
			check_ctx = 0;
		}
	} else {
		MC_COUNT("cache_misses");
		mc_observe("MISS ");
		/* fresh resolution: answer with the addresses of this round, one per family, TTL 60 */
		int qa2 = find_query(msgs, n, DM_T_A), q62 = find_query(msgs, n, DM_T_AAAA);
		if ((h2.ai_family != PF_INET6) != (qa2 >= 0) || (h2.ai_family != PF_INET) != (q62 >= 0))
			mc_fail("C38/dns/queries-sent", "request %d, family %s: A query %s, AAAA query %s", round, famname(h2.ai_family), qa2 >= 0 ? "yes" : "no", q62 >= 0 ? "yes" : "no");
		if (qa2 >= 0) { ns_reply(&msgs[qa2], SC_ONE, round, cname, 60, 60); pump(); }
		if (q62 >= 0) { ns_reply(&msgs[q62], SC_ONE, round, cname, 60, 60); pump(); }
		for (int i = 0; i < 10 && !g2.called; i++) { idle_flag = 0; event_base_loop(evbase, EVLOOP_ONCE); pump(); if (idle_flag) break; }
		if (qa2 >= 0) side_addrs(&e2, AF_INET, SC_ONE, round);
		if (q62 >= 0) side_addrs(&e2, AF_INET6, SC_ONE, round);
		if (!e2.n) e2.error = 1;
		if (canon2 && cname) e2.canon = CANON;
		snprintf(what, sizeof what, "refetch");
		check_result(what, &h2, &g2, &e2);
		*t_ref = vclock_us;
		/* the new answer replaces whatever was stored */
		memset(m, 0, sizeof *m);
		if (g2.called && g2.result == 0 && e2.n) {
			m->valid = 1; m->e = e2; m->ttl_a = m->ttl_6 = m->ttl_c = 60;
			m->a_contrib = qa2 >= 0; m->b_contrib = q62 >= 0; m->have_cname = cname; m->t_cached = vclock_us;
			m->orig_anysock = h2.ai_socktype == 0;
		}
	}
	mc_observe("-> %d ", g2.result);
	if (g2.res) evutil_freeaddrinfo(g2.res);
}

static void dns_case(void)
{
	static const struct { int a, b; } ttls[] = { {10, 100}, {100, 10}, {60, 60}, {10, 10}, {200, 200} };
	int nttl = mc_param("ttlsets", 3), ncttl = mc_param("cnamettl", 1);
	struct evutil_addrinfo h; memset(&h, 0, sizeof h);
	h.ai_family = fams[mc_choose(3, 0, "family")];
	int sp = mc_choose(mc_param("stpr", 2), 0, "socktype-protocol");      /* (0,0) and (STREAM,0) by default */
	h.ai_socktype = stpr[sp].st; h.ai_protocol = stpr[sp].pr;
	int canon1 = mc_choose(2, 0, "canonname");
	if (canon1) h.ai_flags |= EVUTIL_AI_CANONNAME;
	int sa = h.ai_family != PF_INET6 ? mc_choose(SC_N, 0, "A-script") : -1;
	int s6 = h.ai_family != PF_INET ? mc_choose(SC_N, 0, "AAAA-script") : -1;
	int cname = mc_choose(2, 0, "cname");
	int both = sa >= 0 && s6 >= 0;
	int order = both && sa != SC_DROP && s6 != SC_DROP ? mc_choose(4, 0, "arrival") : 0;   /* 0 A,AAAA  1 AAAA,A  2 A,+2s,AAAA  3 AAAA,+2s,A */
	int ti = mc_choose(nttl, 0, "ttls");
	int cshort = cname && ncttl > 1 ? mc_choose(2, 0, "cname-ttl-short") : 0;
	uint32_t ttl_a = ttls[ti].a, ttl_6 = ttls[ti].b;
	/* CNAME TTL: normally the shortest TTL among the address records that are asked for; the "short" variant makes the alias expire first */
	uint32_t ttl_c = sa < 0 ? ttl_6 : s6 < 0 ? ttl_a : (ttl_a < ttl_6 ? ttl_a : ttl_6);
	if (cshort) ttl_c = 4;
	mc_observe("dns fam=%s st=%d canon=%d A=%s AAAA=%s cname=%d order=%d ttl=%u/%u/c%u ", famname(h.ai_family), h.ai_socktype, canon1,
	    sa >= 0 ? sc_name[sa] : "-", s6 >= 0 ? sc_name[s6] : "-", cname, order, ttl_a, ttl_6, ttl_c);

	world_begin();
	if (!dbase) return;
	struct gai_result g1 = {0, 0, NULL};
	struct dnse_msg msgs[8]; int n;
	struct evdns_getaddrinfo_request *rq = evdns_getaddrinfo(dbase, DNAME, "80", &h, gai_cb, &g1);
	pump();
	n = dnse_ns_collect(msgs, 8);
	int qa = find_query(msgs, n, DM_T_A), q6 = find_query(msgs, n, DM_T_AAAA);
	if (!rq || g1.called) mc_fail("C38/dns/answered-without-query", "callback before any answer (called=%d result=%d)", g1.called, g1.result);
	if ((sa >= 0) != (qa >= 0) || (s6 >= 0) != (q6 >= 0) || n != (sa >= 0) + (s6 >= 0))
		mc_fail("C38/dns/queries-sent", "family %s: %d message(s) at the nameserver, A query %s, AAAA query %s", famname(h.ai_family), n, qa >= 0 ? "yes" : "no", q6 >= 0 ? "yes" : "no");
	MC_COUNT("oracle_queries_match_family");
	/* deliver the answers in the chosen order */
	int first_is_a = (order == 0 || order == 2);
	for (int step = 0; step < 2; step++) {
		int is_a = step == 0 ? first_is_a : !first_is_a;
		int qi = is_a ? qa : q6, sc = is_a ? sa : s6;
		if (qi < 0 || sc < 0) continue;
		if (step == 1 && order >= 2 && !g1.called) advance_ms(2000);
		ns_reply(&msgs[qi], sc, 1, cname, is_a ? ttl_a : ttl_6, ttl_c);
		pump();
	}
	/* a side that never answers: the resolver's own timers decide (skew timeout / request timeout) */
	for (int i = 0; i < 40 && !g1.called; i++) {
		idle_flag = 0;
		event_base_loop(evbase, EVLOOP_ONCE);
		pump();
		struct dnse_msg retry[8]; dnse_ns_collect(retry, 8);        /* retransmissions stay unanswered */
		if (idle_flag) break;
	}
	int64_t t_report = vclock_us;
	/* ---- reference for the first resolution ---- */
	struct expect e1; memset(&e1, 0, sizeof e1); e1.port = 80; e1.node = DNAME;
	if (sa >= 0) side_addrs(&e1, AF_INET, sa, 1);
	if (s6 >= 0) side_addrs(&e1, AF_INET6, s6, 1);
	if (!e1.n) e1.error = 1;
	int have_cname = cname && e1.n > 0;
	if (canon1 && have_cname) e1.canon = CANON;
	check_result("dns", &h, &g1, &e1);
	mc_observe("-> %d ", g1.result);
	if (g1.res) evutil_freeaddrinfo(g1.res);
	g1.res = NULL;
	if (!g1.called) { mc_fail("C38/dns/no-callback", "no callback although every timer has run"); world_end(); return; }

	/* ---- later requests: the cache as the reference sees it ---- */
	struct cmodel m; memset(&m, 0, sizeof m);
	if (!e1.error) {
		m.valid = 1; m.e = e1; m.ttl_a = ttl_a; m.ttl_6 = ttl_6; m.ttl_c = ttl_c;
		m.a_contrib = sa == SC_ONE || sa == SC_TWO; m.b_contrib = s6 == SC_ONE || s6 == SC_TWO;
		m.have_cname = have_cname; m.t_cached = t_report; m.orig_anysock = h.ai_socktype == 0; m.order = order;
	}
	int64_t t_ref = t_report;
	int rounds = mc_param("rounds", 2);
	for (int round = 2; round <= rounds; round++) later_round(round, &m, &t_ref, cname);
	struct dnse_msg drain[8]; dnse_ns_collect(drain, 8);
	world_end();
}

static void body(void)
{
	if (mc_choose(2, 0, "kind") == 0) immediate_case(); else dns_case();
}

static void init(void)
{
	dnse_alloc_install();
	event_set_log_callback(logcb);
	if (dnse_ns_init() < 0) abort();
	int fd = memfd_create("hosts", 0);
	if (fd < 0 || write(fd, HOSTS_TEXT, sizeof HOSTS_TEXT - 1) != (ssize_t)(sizeof HOSTS_TEXT - 1)) abort();
	snprintf(hosts_path, sizeof hosts_path, "/proc/self/fd/%d", fd);
	fd0 = mcx_fd_signature();
}

int main(int argc, char **argv)
{
	struct mc_config cfg = { .property = "C38", .body = body, .init = init, .default_split = 4 };
	return mc_main(argc, argv, &cfg);
}
